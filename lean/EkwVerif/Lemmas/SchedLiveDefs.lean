/-
Tier L (liveness bookkeeping, ANY event order): every dispatched task is in flight or complete, every undispatched task
is computable or blocked on an input that has not been announced, every output notice of a task that ran has been
processed or is still on its way, every worker is idle or busy. With completion detected from the notices of ALL
outputs (`InvP`) these hold for every order and batching of events (before the repair of notify.py they needed
per-producer FIFO delivery, `InvFifo.suffix`). Definitions only; validated on random walks (Drive/CtrlInvCheck.lean,
conjuncts `L.*`) before being proved (Lemmas/SchedLive*.lean).
-/
import EkwVerif.Lemmas.CtrlInvP

namespace EkwVerif.Ctrl

structure InvLive (j : Job) (cl : Cluster) (s : Sys) : Prop where
  /-- every output notice of a task that has run has been processed or is on its way (nothing is lost) -/
  notice : ∀ t, s.env.ran t = true → ∀ k, k < j.nOut t →
      s.ctl.published ⟨t, k⟩ = true ∨ ∃ w, Event.pubW w ⟨t, k⟩ ∈ s.allEv
  /-- a task that was dispatched is in flight or done -/
  disp_flight_or_done : ∀ t, s.ctl.dispatched t = 1 → (∃ w, s.inFlight w t) ∨ s.ctl.doneC t = true
  /-- an undispatched task is computable or still blocked on an unannounced input -/
  undisp : ∀ t, t < j.tasks.length → s.ctl.dispatched t = 0 →
      t ∈ s.ctl.computable ∨ (s.ctl.tracked t = true ∧ ∃ ds, ds ∈ s.ctl.tracker t)
  tracker_sound : ∀ t ds, s.ctl.tracked t = true → ds ∈ s.ctl.tracker t → ds ∈ j.inputs t ∧ s.ctl.announced ds = false
  /-- every worker is idle or has something in flight -/
  workers_cover : ∀ w, w ∈ cl.ids → w ∈ s.ctl.idle ∨ ∃ t, s.inFlight w t

end EkwVerif.Ctrl
