/-
Tier 3 of the controller invariant — part B: `assign`, `plan1`, `flushF1`, `flushP1`, `recv`.
-/
import EkwVerif.Lemmas.CtrlInv3A

namespace EkwVerif.Ctrl

/-! ### assign -/

theorem i3_eligible_false (st : Status) (h : ¬ st.eligible = true) : st = .missing := by
  cases st <;> simp [Status.eligible] at h ⊢

theorem i3_buildPrep_avail (cl : Cluster) (w : Worker) (cands : List (Ds × Host)) (l : List Ds) (c c' : Ctl)
    (p : List (Ds × Host)) (hr : buildPrep cl w cands c l = .ok (c', p))
    (hP : ∀ h ds, c.dsHost ds h = .available → c.hostDs h ds ≠ .missing) :
    (∀ h ds, c'.dsHost ds h = .available → c'.hostDs h ds ≠ .missing) ∧
    (∀ ds h, c.dsHost ds h = .available → c'.dsHost ds h = .available) := by
  induction l generalizing c c' p with
  | nil => simp only [buildPrep, Except.ok.injEq, Prod.mk.injEq] at hr; obtain ⟨rfl, _⟩ := hr; exact ⟨hP, fun _ _ h => h⟩
  | cons a l ih =>
    unfold buildPrep at hr
    split at hr
    · exact ih _ _ _ hr hP
    · split at hr
      · split at hr
        · cases hr
        · rename_i c2 p2 h2
          simp only [Except.ok.injEq, Prod.mk.injEq] at hr
          obtain ⟨rfl, _⟩ := hr
          exact ih _ _ _ h2 hP
      · rename_i hne
        have hmiss := i3_eligible_false _ hne
        split at hr
        · split at hr
          · dsimp only at hr
            split at hr
            · cases hr
            · rename_i c2 p2 h2
              simp only [Except.ok.injEq, Prod.mk.injEq] at hr
              obtain ⟨rfl, _⟩ := hr
              have hna : c.dsHost a w.host ≠ .available := fun hav => hP _ _ hav hmiss
              have := ih _ _ _ h2 (by
                intro h ds hav
                simp only at hav ⊢
                by_cases hd : ds = a
                · subst hd
                  by_cases hh : h = w.host
                  · subst hh; simp
                  · simp only [upd_same, upd_other _ _ _ _ hh] at hav
                    simp only [upd_other _ _ _ _ hh]
                    exact hP _ _ hav
                · simp only [upd_other _ _ _ _ hd] at hav
                  by_cases hh : h = w.host
                  · subst hh; simp only [upd_same, upd_other _ _ _ _ hd]; exact hP _ _ hav
                  · simp only [upd_other _ _ _ _ hh]; exact hP _ _ hav)
              refine ⟨this.1, fun ds h hav => this.2 ds h ?_⟩
              simp only
              by_cases hd : ds = a
              · subst hd
                by_cases hh : h = w.host
                · subst hh; exact absurd hav hna
                · simpa [upd_other _ _ _ _ hh] using hav
              · simpa [upd_other _ _ _ _ hd] using hav
          · cases hr
        · split at hr <;> cases hr

theorem i3_assignOne (j : Job) (cl : Cluster) (c c' : Ctl) (a : Asg) (p : List (Ds × Host))
    (hr : assignOne j cl c a = .ok (c', p))
    (hP : ∀ h ds, c.dsHost ds h = .available → c.hostDs h ds ≠ .missing) :
    c'.fetchQ = c.fetchQ ∧ c'.fetchIssued = c.fetchIssued ∧ c'.outputs = c.outputs ∧
    (∀ ds h, c.dsHost ds h = .available → c'.dsHost ds h = .available) := by
  unfold assignOne at hr
  split at hr; · cases hr
  split at hr; · cases hr
  split at hr; · cases hr
  split at hr
  · cases hr
  · rename_i c2 prep hb
    simp only [Except.ok.injEq, Prod.mk.injEq] at hr
    obtain ⟨rfl, _⟩ := hr
    refine ⟨buildPrep_fetchQ _ _ _ _ _ c2 _ hb, buildPrep_fetchIssued _ _ _ _ _ c2 _ hb,
      buildPrep_outputs _ _ _ _ _ c2 _ hb, (i3_buildPrep_avail _ _ _ _ _ c2 _ hb hP).2⟩

theorem i3_avail_not_missing {j : Job} {cl : Cluster} {s : Sys} (h4 : Inv4 j cl s) :
    ∀ h ds, s.ctl.dsHost ds h = .available → s.ctl.hostDs h ds ≠ .missing := by
  intro h ds hav hm
  have := (h4.keys h ds).mp hm
  rw [hav] at this
  cases this

theorem i3_step_assign (f : Sem) (j : Job) (cl : Cluster) (s s' : Sys) (_wf : WF j cl) (a : Asg)
    (_h1 : Inv1 cl s) (_h2 : Inv2 j cl s) (h3 : Inv3 f j cl s) (h4 : Inv4 j cl s)
    (hs : step f j cl s (.assign a) = some s') : Inv3 f j cl s' := by
  simp only [step] at hs
  split at hs; · cases hs
  split at hs
  · cases hs
  · cases hs; exact i3_crash h3 _
  · rename_i c2 prep has
    cases hs
    obtain ⟨f1, f2, f3, f4⟩ := i3_assignOne j cl s.ctl c2 a prep has (i3_avail_not_missing h4)
    obtain ⟨e1, e2, e3, e4, e5⟩ := i3_applyCmds_other j cl (actCmds j a prep) s.env (i3_actCmds_other j a prep)
    have hall : Sys.allEv { s with ctl := c2, env := applyCmds j cl s.env (actCmds j a prep), todo := s.todo ++ [(a, prep)] }
        = s.allEv := by simp only [Sys.allEv, e3]
    refine i3_mono h3 f2 f3 ?_ ?_ ?_ ?_ ?_ ?_ ?_ ?_ ?_ ?_ ?_
    · intro ds h hm
      simp only at hm ⊢
      rw [f1] at hm
      obtain ⟨a1, a2, a3, a4⟩ := h3.fetchQ_ok ds h hm
      exact ⟨a1, by rw [f3]; exact a2, by rw [f2]; exact a3, f4 ds h a4⟩
    · simp only; rw [f1]; exact h3.fetchQ_nodup
    · intro ds h hm
      simp only at hm
      rw [i3_mem_fetch_filter, e4] at hm
      exact (i3_mem_fetch_filter _ _ _).mpr hm
    · intro ds; simp only; rw [e4]; exact Nat.le_refl _
    · intro ds h _ hp; simp only; rw [e1]; exact hp
    · intro h ds v hp; simp only at hp; rw [e1] at hp; exact h3.store_sound h ds v hp
    · intro ds hd; simp only; rw [e2]; exact hd
    · intro ds v hm; rw [hall] at hm; exact hm
    · intro ds; rw [hall]; exact Nat.le_refl _
    · intro ds v hm; simp only at hm ⊢; rw [e2]; exact h3.inbox_delivered ds v hm
    · exact e5 h3.no_purge_before_delivered

/-! ### plan1 -/

theorem i3_setPreparingAt_avail (c : Ctl) (ds : Ds) (w : Worker) (ds' : Ds) (h : Host)
    (hav : c.dsHost ds' h = .available) : (setPreparingAt c ds w).dsHost ds' h = .available := by
  unfold setPreparingAt
  simp only
  split
  · exact hav
  · rename_i hne
    by_cases hd : ds' = ds
    · subst hd
      by_cases hh : h = w.host
      · subst hh; simp [hav] at hne
      · simpa [upd_other _ _ _ _ hh] using hav
    · simpa [upd_other _ _ _ _ hd] using hav

theorem i3_planOne (j : Job) (c c' : Ctl) (a : Asg) (prep : List (Ds × Host)) (h : planOne j c a prep = .ok c') :
    c'.fetchQ = c.fetchQ ∧ c'.fetchIssued = c.fetchIssued ∧ c'.outputs = c.outputs ∧
    (∀ ds h, c.dsHost ds h = .available → c'.dsHost ds h = .available) := by
  have fold : ∀ (l : List Ds) (w : Worker) (c0 : Ctl),
      let r := l.foldl (fun c ds => setPreparingAt c ds w) c0
      r.fetchQ = c0.fetchQ ∧ r.fetchIssued = c0.fetchIssued ∧ r.outputs = c0.outputs ∧
      (∀ ds h, c0.dsHost ds h = .available → r.dsHost ds h = .available) := by
    intro l w
    induction l with
    | nil => intro c0; simp
    | cons x l ih =>
      intro c0
      simp only [List.foldl_cons]
      obtain ⟨a1, a2, a3, a4⟩ := ih (setPreparingAt c0 x w)
      refine ⟨by simpa using a1, by simpa using a2, by simpa using a3, ?_⟩
      intro ds h hav
      exact a4 ds h (i3_setPreparingAt_avail c0 x w ds h hav)
  have fold2 : ∀ (l : List (Ds × Host)) (w : Worker) (c0 : Ctl),
      let r := l.foldl (fun c p => setPreparingAt c p.1 w) c0
      r.fetchQ = c0.fetchQ ∧ r.fetchIssued = c0.fetchIssued ∧ r.outputs = c0.outputs ∧
      (∀ ds h, c0.dsHost ds h = .available → r.dsHost ds h = .available) := by
    intro l w
    induction l with
    | nil => intro c0; simp
    | cons x l ih =>
      intro c0
      simp only [List.foldl_cons]
      obtain ⟨a1, a2, a3, a4⟩ := ih (setPreparingAt c0 x.1 w)
      refine ⟨by simpa using a1, by simpa using a2, by simpa using a3, ?_⟩
      intro ds h hav
      exact a4 ds h (i3_setPreparingAt_avail c0 x.1 w ds h hav)
  unfold planOne at h
  split at h
  · cases h
  · dsimp only at h
    split at h
    · cases h
    · simp only [Except.ok.injEq] at h
      subst h
      have h1 := fold2 prep a.worker c
      have h2 := fold (j.outputsOf a.task) a.worker (prep.foldl (fun c p => setPreparingAt c p.1 a.worker) c)
      dsimp only at h1 h2
      obtain ⟨a1, a2, a3, a4⟩ := h1
      obtain ⟨b1, b2, b3, b4⟩ := h2
      exact ⟨by simp [b1, a1], by simp [b2, a2], by simp [b3, a3], fun ds h hav => b4 ds h (a4 ds h hav)⟩

theorem i3_step_plan1 (f : Sem) (j : Job) (cl : Cluster) (s s' : Sys) (_wf : WF j cl)
    (_h1 : Inv1 cl s) (_h2 : Inv2 j cl s) (h3 : Inv3 f j cl s) (_h4 : Inv4 j cl s)
    (hs : step f j cl s .plan1 = some s') : Inv3 f j cl s' := by
  simp only [step] at hs
  split at hs; · cases hs
  split at hs
  · cases hs
  · split at hs
    · cases hs
    · cases hs; exact i3_crash h3 _
    · rename_i c2 hpl
      cases hs
      obtain ⟨f1, f2, f3, f4⟩ := i3_planOne j s.ctl c2 _ _ hpl
      exact i3_same h3 f1 f2 f3 f4 rfl rfl

/-! ### flushF1 -/

theorem i3_flushF1_core {f : Sem} {j : Job} {cl : Cluster} {s s' : Sys} (h3 : Inv3 f j cl s) (h4 : Inv4 j cl s)
    (ds : Ds) (hst : Host) (rest : List (Ds × Host)) (hq : s.ctl.fetchQ = (ds, hst) :: rest)
    (c1 : s'.ctl.fetchQ = rest) (c2 : s'.ctl.fetchIssued = s.ctl.fetchIssued ++ [ds])
    (c3 : s'.ctl.outputs = s.ctl.outputs) (c4 : s'.ctl.dsHost = s.ctl.dsHost)
    (e1 : s'.env.outstanding = s.env.outstanding ++ [IO.fetch ds hst]) (e2 : s'.env.present = s.env.present)
    (e3 : s'.env.delivered = s.env.delivered) (e4 : s'.env.pending = s.env.pending) (e5 : s'.inbox = s.inbox)
    (e6 : "C04 purge-before-output-delivered" ∉ s'.env.viol) : Inv3 f j cl s' := by
  obtain ⟨q1, q2, q3, q4⟩ := h3.fetchQ_ok ds hst (by rw [hq]; simp)
  have hnd := h3.fetchQ_nodup
  rw [hq] at hnd
  simp only [List.map_cons, List.nodup_cons] at hnd
  have hnofetch : ∀ h, IO.fetch ds h ∉ s.env.outstanding := fun h hm => q3 (h3.fetch_out ds h hm).2.2.1
  have hnopay : ∀ v, Event.payload ds v ∉ s.allEv := fun v hm => q3 (h3.payload_ok ds v hm).2.2.1
  have hpres : (s.env.present hst ds).isSome = true := h4.avail_present hst ds q4 (Or.inr ⟨q1, q2⟩)
  have hall : s'.allEv = s.allEv := by simp only [Sys.allEv, e4, e5]
  have hmem : ∀ d h, IO.fetch d h ∈ s'.env.outstanding ↔ (IO.fetch d h ∈ s.env.outstanding ∨ (d = ds ∧ h = hst)) := by
    intro d h; rw [e1]; simp
  refine ⟨?_, ?_, ?_, ?_, ?_, ?_, ?_, ?_, ?_, e6⟩
  · intro d h hm
    rw [c1] at hm
    have hm' : (d, h) ∈ s.ctl.fetchQ := by rw [hq]; exact List.mem_cons_of_mem _ hm
    obtain ⟨a1, a2, a3, a4⟩ := h3.fetchQ_ok d h hm'
    have hne : d ≠ ds := by
      intro heq; subst heq
      exact hnd.1 (List.mem_map.mpr ⟨(d, h), hm, rfl⟩)
    refine ⟨a1, by rw [c3]; exact a2, ?_, by rw [c4]; exact a4⟩
    rw [c2]; simp only [List.mem_append, List.mem_singleton, not_or]; exact ⟨a3, hne⟩
  · rw [c1]; exact hnd.2
  · intro d h hm
    rcases (hmem d h).mp hm with hm | ⟨rfl, rfl⟩
    · obtain ⟨a1, a2, a3, a4, a5⟩ := h3.fetch_out d h hm
      refine ⟨a1, by rw [c3]; exact a2, by rw [c2]; exact List.mem_append_left _ a3, by rw [hall]; exact a4,
        by rw [e2]; exact a5⟩
    · exact ⟨q1, by rw [c3]; exact q2, by rw [c2]; simp, by rw [hall]; exact hnopay, by rw [e2]; exact hpres⟩
  · intro d
    rw [e1, List.filter_append, List.length_append]
    by_cases hd : d = ds
    · subst hd
      rw [i3_len0_of_no_fetch _ _ hnofetch]
      simp [isFetchOf]
    · rw [List.filter_cons_of_neg (by simp [i3_isFetchOf_ne _ _ _ hd])]
      simpa using h3.fetch_count d
  · intro d v hm
    rw [hall] at hm
    obtain ⟨a1, a2, a3, a4, a5⟩ := h3.payload_ok d v hm
    refine ⟨a1, by rw [c3]; exact a2, by rw [c2]; exact List.mem_append_left _ a3, ?_, a5⟩
    intro h hh
    rcases (hmem d h).mp hh with hh | ⟨rfl, rfl⟩
    · exact a4 h hh
    · exact hnopay v hm
  · intro d; rw [hall]; exact h3.payload_count d
  · intro d v hm
    rw [c3] at hm
    obtain ⟨a1, a2, a3, a4, a5⟩ := h3.outputs_ok d v hm
    refine ⟨a1, by rw [e3]; exact a2, a3, ?_, by rw [hall]; exact a5⟩
    intro h hh
    rcases (hmem d h).mp hh with hh | ⟨rfl, rfl⟩
    · exact a4 h hh
    · rw [q2] at hm; cases hm
  · intro d v hm; rw [e5] at hm; rw [e3]; exact h3.inbox_delivered d v hm
  · intro h d v hp; rw [e2] at hp; exact h3.store_sound h d v hp

theorem i3_step_flushF1 (f : Sem) (j : Job) (cl : Cluster) (s s' : Sys) (_wf : WF j cl)
    (_h1 : Inv1 cl s) (_h2 : Inv2 j cl s) (h3 : Inv3 f j cl s) (h4 : Inv4 j cl s)
    (hs : step f j cl s .flushF1 = some s') : Inv3 f j cl s' := by
  simp only [step] at hs
  split at hs; · cases hs
  split at hs
  · cases hs
  · rename_i ds hst rest hq
    cases hs
    refine i3_flushF1_core h3 h4 ds hst rest hq (by simp) (by simp) (by simp) (by simp)
      (by simp [applyCmd]) (by simp [applyCmd]) (by simp [applyCmd]) (by simp [applyCmd]) rfl ?_
    simp only
    rw [mem_viol_fetch]
    simp [h3.no_purge_before_delivered]

/-! ### flushP1 -/

theorem i3_step_flushP1 (f : Sem) (j : Job) (cl : Cluster) (s s' : Sys) (_wf : WF j cl)
    (_h1 : Inv1 cl s) (h2 : Inv2 j cl s) (h3 : Inv3 f j cl s) (_h4 : Inv4 j cl s)
    (hs : step f j cl s .flushP1 = some s') : Inv3 f j cl s' := by
  simp only [step] at hs
  split at hs; · cases hs
  split at hs
  · cases hs
  · rename_i ds rest hq
    split at hs
    · cases hs
    · cases hs; exact i3_crash h3 _
    · rename_i c2 cmds hph
      cases hs
      have hcm := purgeHosts_cmds cl ds cl.hosts s.ctl c2 cmds hph
      obtain ⟨e1, e2, e3, e4, e5, e6⟩ := i3_applyCmds_purge j cl ds cmds s.env hcm
      have g1 := purgeHosts_fetchQ _ _ _ _ _ _ hph
      have g2 := purgeHosts_fetchIssued _ _ _ _ _ _ hph
      have g3 := purgeHosts_outputs _ _ _ _ _ _ hph
      have g4 := purgeHosts_dsHost _ _ _ _ _ _ hph
      obtain ⟨_, p2, _⟩ := h2.purgeQ_ok ds (by rw [hq]; simp)
      -- a dataset that is still to be fetched / being fetched is not the purged one
      have hne : ∀ d, d ∈ j.ext → s.ctl.outputs d = none → d ≠ ds := by
        intro d hd ho heq; subst heq
        have := p2 hd; rw [ho] at this; simp at this
      have hall : Sys.allEv { s with
          ctl := { c2 with dsHost := upd c2.dsHost ds (fun _ => Status.missing), purgeQ := rest },
          env := applyCmds j cl s.env cmds } = s.allEv := by simp only [Sys.allEv, e3]
      refine i3_mono h3 g2 g3 ?_ ?_ ?_ ?_ ?_ ?_ ?_ ?_ ?_ ?_ ?_
      · intro d h hm
        simp only at hm ⊢
        rw [g1] at hm
        obtain ⟨a1, a2, a3, a4⟩ := h3.fetchQ_ok d h hm
        refine ⟨a1, by rw [g3]; exact a2, by rw [g2]; exact a3, ?_⟩
        rw [upd_other _ _ _ _ (hne d a1 a2), g4]; exact a4
      · simp only; rw [g1]; exact h3.fetchQ_nodup
      · intro d h hm; simp only at hm; rw [e1] at hm; exact hm
      · intro d; simp only; rw [e1]; exact Nat.le_refl _
      · intro d h hm hp
        simp only at hm ⊢
        rw [e1] at hm
        obtain ⟨a1, a2, _⟩ := h3.fetch_out d h hm
        rw [e4 h d (hne d a1 a2)]; exact hp
      · intro h d v hp; simp only at hp; exact h3.store_sound h d v (e5 h d v hp)
      · intro d hd; simp only; rw [e2]; exact hd
      · intro d v hm; rw [hall] at hm; exact hm
      · intro d; rw [hall]; exact Nat.le_refl _
      · intro d v hm; simp only at hm ⊢; rw [e2]; exact h3.inbox_delivered d v hm
      · apply e6 _ h3.no_purge_before_delivered
        intro hd
        have := p2 hd
        cases ho : s.ctl.outputs ds with
        | none => rw [ho] at this; simp at this
        | some v => exact (h3.outputs_ok ds v ho).2.1

/-! ### recv -/

theorem i3_takeEvents_perm : ∀ (evs pend pend' : List Event), takeEvents pend evs = some pend' →
    (evs ++ pend').Perm pend := by
  intro evs
  induction evs with
  | nil => intro pend pend' h; simp only [takeEvents, Option.some.injEq] at h; subst h; exact List.Perm.refl _
  | cons x evs ih =>
    intro pend pend' h
    simp only [takeEvents] at h
    split at h
    · rename_i hx
      have hx' : x ∈ pend := by simpa using hx
      have := ih _ _ h
      exact (List.Perm.cons x this).trans (List.perm_cons_erase hx').symm
    · cases h

theorem i3_markDelivered (l : List Event) (e : Env) :
    (markDelivered e l).present = e.present ∧ (markDelivered e l).outstanding = e.outstanding ∧
    (markDelivered e l).pending = e.pending ∧ (markDelivered e l).viol = e.viol ∧
    (∀ ds, e.delivered ds = true → (markDelivered e l).delivered ds = true) ∧
    (∀ ds v, Event.payload ds v ∈ l → (markDelivered e l).delivered ds = true) := by
  induction l generalizing e with
  | nil => simp [markDelivered]
  | cons x l ih =>
    simp only [markDelivered, List.foldl_cons] at ih ⊢
    cases x with
    | pubW w d =>
      obtain ⟨a1, a2, a3, a4, a5, a6⟩ := ih e
      exact ⟨a1, a2, a3, a4, a5, fun ds v hm => a6 ds v (by simpa using hm)⟩
    | pubT a d =>
      obtain ⟨a1, a2, a3, a4, a5, a6⟩ := ih e
      exact ⟨a1, a2, a3, a4, a5, fun ds v hm => a6 ds v (by simpa using hm)⟩
    | payload d v0 =>
      obtain ⟨a1, a2, a3, a4, a5, a6⟩ := ih { e with delivered := upd e.delivered d true }
      refine ⟨a1, a2, a3, a4, ?_, ?_⟩
      · intro ds hd
        apply a5
        simp only
        by_cases hh : ds = d
        · subst hh; simp
        · simpa [upd_other _ _ _ _ hh] using hd
      · intro ds v hm
        simp only [List.mem_cons, Event.payload.injEq] at hm
        rcases hm with ⟨rfl, rfl⟩ | hm
        · apply a5; simp
        · exact a6 ds v hm

theorem i3_step_recv (f : Sem) (j : Job) (cl : Cluster) (s s' : Sys) (_wf : WF j cl) (evs : List Event)
    (_h1 : Inv1 cl s) (h2 : Inv2 j cl s) (h3 : Inv3 f j cl s) (_h4 : Inv4 j cl s)
    (hs : step f j cl s (.recv evs) = some s') : Inv3 f j cl s' := by
  simp only [step] at hs
  split at hs; · cases hs
  rename_i hc
  have hp : s.phase = .waiting := by
    simp only [bne_iff_ne, ne_eq, Bool.or_eq_true, not_or, Decidable.not_not] at hc; simpa using hc.1
  have hinb : s.inbox = [] := h2.inbox_phase (by simp [hp]) (by simp [hp])
  split at hs
  · cases hs
  · rename_i pend htk
    cases hs
    obtain ⟨m1, m2, m3, m4, m5, m6⟩ := i3_markDelivered evs { s.env with pending := pend }
    have hperm := i3_takeEvents_perm evs s.env.pending pend htk
    have hall : Sys.allEv { s with
        env := markDelivered { s.env with pending := pend } evs, inbox := evs,
        phase := Phase.notifying } = evs ++ pend := by simp only [Sys.allEv, m3]
    have hall0 : s.allEv = s.env.pending := by simp [Sys.allEv, hinb]
    refine i3_mono h3 rfl rfl ?_ h3.fetchQ_nodup ?_ ?_ ?_ ?_ ?_ ?_ ?_ ?_ ?_
    · intro ds h hm; exact h3.fetchQ_ok ds h hm
    · intro ds h hm; simp only at hm; rw [m2] at hm; exact hm
    · intro ds; simp only; rw [m2]; exact Nat.le_refl _
    · intro ds h _ hp; simp only; rw [m1]; exact hp
    · intro h ds v hp; simp only at hp; rw [m1] at hp; exact h3.store_sound h ds v hp
    · intro ds hd; exact m5 ds hd
    · intro ds v hm; rw [hall] at hm; rw [hall0]; exact hperm.mem_iff.mp hm
    · intro ds; rw [hall, hall0]; exact Nat.le_of_eq (hperm.filter _).length_eq
    · intro ds v hm; exact m6 ds v hm
    · simp only; rw [m4]; exact h3.no_purge_before_delivered

end EkwVerif.Ctrl
