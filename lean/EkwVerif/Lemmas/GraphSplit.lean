/-
Helper lemmas for Props/C11.lean: the `Splitter` invariant (namespace `EkwVerif.Graph.Aux`).
-/
import EkwVerif.Lemmas.Graph

namespace EkwVerif.Graph.Aux
open EkwVerif.Graph

/-! ### split -/

theorem mem_addSink (d : List (Nat × List Nat)) (k i : Nat) (p : Nat × List Nat) (hp : p ∈ addSink d k i) :
    (p ∈ d) ∨ (p.1 = k ∧ ∃ l, p.2 = l ++ [i] ∧ (l = [] ∨ (k, l) ∈ d)) := by
  induction d with
  | nil =>
    simp [addSink] at hp; subst hp
    exact Or.inr ⟨rfl, [], by simp, Or.inl rfl⟩
  | cons q d ih =>
    obtain ⟨k', l⟩ := q
    simp only [addSink] at hp
    by_cases hk : k' = k
    · subst hk
      simp at hp
      rcases hp with rfl | hp
      · exact Or.inr ⟨rfl, l, rfl, Or.inr (by simp)⟩
      · exact Or.inl (by simp [hp])
    · have : (k' == k) = false := by simpa using hk
      simp [this] at hp
      rcases hp with rfl | hp
      · exact Or.inl (by simp)
      · rcases ih hp with h | ⟨h1, l', h2, h3⟩
        · exact Or.inl (by simp [h])
        · refine Or.inr ⟨h1, l', h2, ?_⟩
          rcases h3 with h3 | h3
          · exact Or.inl h3
          · exact Or.inr (by simp [h3])

/-- every sink recorded by `addSink` is owned by the part it is recorded for -/
theorem sinksOwned_addSink (owner : List Nat) (d : List (Nat × List Nat)) (k i : Nat)
    (h : ∀ p ∈ d, ∀ j ∈ p.2, owner[j]? = some p.1) (hi : owner[i]? = some k) :
    ∀ p ∈ addSink d k i, ∀ j ∈ p.2, owner[j]? = some p.1 := by
  intro p hp j hj
  rcases mem_addSink d k i p hp with hpd | ⟨hk, l, hl, hld⟩
  · exact h p hpd j hj
  · rw [hl] at hj
    rcases List.mem_append.1 hj with hj | hj
    · rcases hld with rfl | hld
      · simp at hj
      · rw [hk]; exact h (k, l) hld j hj
    · simp at hj; subst hj; rw [hk]; exact hi

theorem mem_addSink_of_mem (d : List (Nat × List Nat)) (k i : Nat) (k' j : Nat)
    (h : ∃ l, (k', l) ∈ d ∧ j ∈ l) : ∃ l, (k', l) ∈ addSink d k i ∧ j ∈ l := by
  induction d with
  | nil => obtain ⟨l, hl, _⟩ := h; simp at hl
  | cons q d ih =>
    obtain ⟨k0, l0⟩ := q
    obtain ⟨l, hl, hj⟩ := h
    simp only [addSink]
    by_cases hk : k0 = k
    · subst hk
      simp only [beq_self_eq_true, if_true]
      rcases List.mem_cons.1 hl with hl | hl
      · cases hl; exact ⟨l0 ++ [i], by simp, by simp [hj]⟩
      · exact ⟨l, by simp [hl], hj⟩
    · have : (k0 == k) = false := by simpa using hk
      simp only [this]
      rcases List.mem_cons.1 hl with hl | hl
      · cases hl; exact ⟨l0, by simp, hj⟩
      · obtain ⟨l', h1, h2⟩ := ih ⟨l, hl, hj⟩
        exact ⟨l', by simp [h1], h2⟩

theorem mem_addSink_new (d : List (Nat × List Nat)) (k i : Nat) : ∃ l, (k, l) ∈ addSink d k i ∧ i ∈ l := by
  induction d with
  | nil => exact ⟨[i], by simp [addSink], by simp⟩
  | cons q d ih =>
    obtain ⟨k0, l0⟩ := q
    simp only [addSink]
    by_cases hk : k0 = k
    · subst hk; exact ⟨l0 ++ [i], by simp, by simp⟩
    · have : (k0 == k) = false := by simpa using hk
      obtain ⟨l, h1, h2⟩ := ih
      exact ⟨l, by simp [this, h1], h2⟩


/-- `s'` extends `s`: store nodes, owners and cuts are only appended, recorded sinks are kept. -/
structure Ext (s s' : SplitSt) : Prop where
  out : ∃ e, s'.out = s.out ++ e
  owner : ∃ e, s'.owner = s.owner ++ e
  cuts : ∃ e, s'.cuts = s.cuts ++ e
  sinks : ∀ k j, (∃ l, (k, l) ∈ s.sinks ∧ j ∈ l) → ∃ l, (k, l) ∈ s'.sinks ∧ j ∈ l

theorem Ext.refl (s : SplitSt) : Ext s s := ⟨⟨[], by simp⟩, ⟨[], by simp⟩, ⟨[], by simp⟩, fun _ _ h => h⟩

theorem Ext.trans {a b c : SplitSt} (h1 : Ext a b) (h2 : Ext b c) : Ext a c := by
  obtain ⟨⟨e1, h11⟩, ⟨e2, h12⟩, ⟨e3, h13⟩, h14⟩ := h1
  obtain ⟨⟨f1, h21⟩, ⟨f2, h22⟩, ⟨f3, h23⟩, h24⟩ := h2
  exact ⟨⟨e1 ++ f1, by simp [h21, h11]⟩, ⟨e2 ++ f2, by simp [h22, h12]⟩, ⟨e3 ++ f3, by simp [h23, h13]⟩,
    fun k j h => h24 k j (h14 k j h)⟩

theorem get_append_of_some {α : Type} {l : List α} {i : Nat} {a : α} (h : l[i]? = some a) (e : List α) :
    (l ++ e)[i]? = some a := by
  rw [List.getElem?_append_left (List.getElem?_eq_some_iff.1 h).1]; exact h

theorem Ext.get_out {s s' : SplitSt} (h : Ext s s') {i : Nat} {m : Node} (hm : s.out[i]? = some m) :
    s'.out[i]? = some m := by
  obtain ⟨e, he⟩ := h.out; rw [he]; exact get_append_of_some hm e

theorem Ext.get_owner {s s' : SplitSt} (h : Ext s s') {i k : Nat} (hm : s.owner[i]? = some k) :
    s'.owner[i]? = some k := by
  obtain ⟨e, he⟩ := h.owner; rw [he]; exact get_append_of_some hm e

theorem Ext.mem_cuts {s s' : SplitSt} (h : Ext s s') {c : CutEdge} (hc : c ∈ s.cuts) : c ∈ s'.cuts := by
  obtain ⟨e, he⟩ := h.cuts; rw [he]; exact List.mem_append_left _ hc

/-- Invariant of the `Splitter` state alone. -/
structure StInv (s : SplitSt) : Prop where
  ownerLen : s.owner.length = s.out.length
  wf : WFNodes s.out
  closed : ∀ (i : Nat) (n : Node), s.out[i]? = some n → ∀ x ∈ n.inputs, s.owner[x.2.1]? = s.owner[i]?
  sinksOwned : ∀ p ∈ s.sinks, ∀ j ∈ p.2, s.owner[j]? = some p.1

/-- A transformed output `(k, Output)`: the parent exists in the store, declares the output and is
owned by part `k`. -/
def RefOK (s : SplitSt) (k : Nat) (r : Ref) : Prop :=
  ∃ m, s.out[r.1]? = some m ∧ r.2 ∈ m.outputs ∧ s.owner[r.1]? = some k

theorem RefOK.mono {s s' : SplitSt} (h : Ext s s') {k : Nat} {r : Ref} (hr : RefOK s k r) : RefOK s' k r := by
  obtain ⟨m, h1, h2, h3⟩ := hr
  exact ⟨m, h.get_out h1, h2, h.get_owner h3⟩

def cutSink (nm : Name) (r : Ref) : Node := { name := nm, outputs := [], payload := nonePayload, inputs := [(inputName, r)] }
def cutSource (nm : Name) : Node := { name := nm, outputs := [defaultOutput], payload := nonePayload, inputs := [] }

/-- What one iteration of the input loop of `Splitter.node` does. -/
theorem splitInput_spec (cutName : CutEdge → Name) (k : Nat) (nname : Name) (s : SplitSt) (acc : List (Name × Ref))
    (x : Name × (Nat × Ref)) (hs : StInv s) (hx : RefOK s x.2.1 x.2.2) :
    ∃ s' y, splitInput cutName k nname (s, acc) x = (s', acc ++ [y]) ∧ StInv s' ∧ Ext s s' ∧ y.1 = x.1 ∧ RefOK s' k y.2 ∧
      ((x.2.1 = k ∧ y.2 = x.2.2 ∧ s' = s) ∨
       (x.2.1 ≠ k ∧ ∃ pm, s.out[x.2.2.1]? = some pm ∧
          let c : CutEdge := ⟨x.2.1, pm.name, x.2.2.2, k, nname, x.1⟩
          y.2 = (s.out.length + 1, defaultOutput) ∧
          s'.out = s.out ++ [cutSink (cutName c) x.2.2, cutSource (cutName c)] ∧
          s'.cuts = s.cuts ++ [c] ∧ (∃ l, (x.2.1, l) ∈ s'.sinks ∧ s.out.length ∈ l))) := by
  obtain ⟨pm, hpm, hout, hown⟩ := hx
  by_cases hk : x.2.1 = k
  · refine ⟨s, (x.1, x.2.2), ?_, hs, Ext.refl s, rfl, ⟨pm, hpm, hout, hk ▸ hown⟩, Or.inl ⟨hk, rfl, rfl⟩⟩
    simp [splitInput, hk]
  · have hb : (x.2.1 == k) = false := by simpa using hk
    have hplt := (List.getElem?_eq_some_iff.1 hpm).1
    let c : CutEdge := ⟨x.2.1, pm.name, x.2.2.2, k, nname, x.1⟩
    let s' : SplitSt := { out := s.out ++ [cutSink (cutName c) x.2.2, cutSource (cutName c)], owner := s.owner ++ [x.2.1, k],
                          cuts := s.cuts ++ [c], sinks := addSink s.sinks x.2.1 s.out.length }
    have hext : Ext s s' := ⟨⟨_, rfl⟩, ⟨_, rfl⟩, ⟨_, rfl⟩, fun k' j h => mem_addSink_of_mem _ _ _ _ _ h⟩
    have hsnk : s'.out[s.out.length]? = some (cutSink (cutName c) x.2.2) := by simp [s']
    have hsrc : s'.out[s.out.length + 1]? = some (cutSource (cutName c)) := by
      simp [s']
    have hosnk : s'.owner[s.out.length]? = some x.2.1 := by
      simp [s', ← hs.ownerLen]
    have hosrc : s'.owner[s.out.length + 1]? = some k := by
      simp [s', ← hs.ownerLen]
    refine ⟨s', (x.1, (s.out.length + 1, defaultOutput)), ?_, ?_, hext, rfl, ?_, Or.inr ⟨hk, pm, hpm, rfl, rfl, rfl, ?_⟩⟩
    · simp [splitInput, hb, nameAt, hpm, s', c, cutSink, cutSource]
    · refine ⟨by simp [s', hs.ownerLen], ?_, ?_, ?_⟩
      · show WFNodes (s.out ++ [cutSink (cutName c) x.2.2, cutSource (cutName c)])
        have : s.out ++ [cutSink (cutName c) x.2.2, cutSource (cutName c)] =
            (s.out ++ [cutSink (cutName c) x.2.2]) ++ [cutSource (cutName c)] := by simp
        rw [this, wf_snoc, wf_snoc]
        refine ⟨⟨hs.wf, ?_⟩, ?_⟩
        · refine ⟨by simp [cutSink], ?_⟩
          intro z hz
          simp [cutSink] at hz; subst hz
          exact ⟨pm, hpm, hout⟩
        · exact ⟨by simp [cutSource], by simp [cutSource]⟩
      · intro i n hn z hz
        by_cases hi : i < s.out.length
        · have hn' : s.out[i]? = some n := by
            have := hn; simp only [s'] at this; rwa [List.getElem?_append_left hi] at this
          have h1 := hs.closed i n hn' z hz
          have hzlt : z.2.1 < s.out.length := by
            have := nodeOK_lt (wf_get s.out hs.wf i n hn') z hz
            rw [List.length_take] at this; omega
          simp only [s']
          rw [List.getElem?_append_left (by rw [hs.ownerLen]; exact hzlt),
              List.getElem?_append_left (by rw [hs.ownerLen]; exact hi)]
          exact h1
        · have hlt := (List.getElem?_eq_some_iff.1 hn).1
          simp [s'] at hlt
          by_cases hi0 : i = s.out.length
          · subst hi0
            rw [hsnk] at hn; cases hn
            simp [cutSink] at hz; subst hz
            rw [hosnk]
            exact hext.get_owner hown
          · have hi1 : i = s.out.length + 1 := by omega
            subst hi1
            rw [hsrc] at hn; cases hn
            simp [cutSource] at hz
      · exact sinksOwned_addSink _ _ _ _ (fun p hp j hj => hext.get_owner (hs.sinksOwned p hp j hj)) hosnk
    · exact ⟨cutSource (cutName c), hsrc, by simp [cutSource], hosrc⟩
    · exact mem_addSink_new _ _ _


/-- How input `x` of the original node `n` appears (as `y`) in the node `Splitter.node` leaves for
`n`: kept if the parent is in the same part, otherwise connected to the default output of a fresh
source named after the cut, the cut is reported, and a sink of the same name fed by the original
parent output is recorded for the parent's part. -/
def ImgInput (key : Node → Nat) (cutName : CutEdge → Name) (pre : List Node) (s : SplitSt) (done : List (Nat × Nat))
    (n : Node) (x y : Name × Ref) : Prop :=
  y.1 = x.1 ∧ ∃ pj tj, pre[x.2.1]? = some pj ∧ done[x.2.1]? = some (key pj, tj) ∧
    ((key pj = key n ∧ y.2 = (tj, x.2.2)) ∨
     (key pj ≠ key n ∧ y.2.2 = defaultOutput ∧
        s.out[y.2.1]? = some (cutSource (cutName ⟨key pj, pj.name, x.2.2, key n, n.name, x.1⟩)) ∧
        (⟨key pj, pj.name, x.2.2, key n, n.name, x.1⟩ : CutEdge) ∈ s.cuts ∧
        ∃ q, s.out[q]? = some (cutSink (cutName ⟨key pj, pj.name, x.2.2, key n, n.name, x.1⟩) (tj, x.2.2)) ∧
          ∃ l, (key pj, l) ∈ s.sinks ∧ q ∈ l))

theorem ImgInput.mono {key : Node → Nat} {cutName : CutEdge → Name} {pre : List Node} {s s' : SplitSt}
    {done : List (Nat × Nat)} {n : Node} {x y : Name × Ref} (he : Ext s s') (pre' : List Node) (done' : List (Nat × Nat))
    (h : ImgInput key cutName pre s done n x y) : ImgInput key cutName (pre ++ pre') s' (done ++ done') n x y := by
  obtain ⟨h1, pj, tj, h2, h3, h4⟩ := h
  refine ⟨h1, pj, tj, get_append_of_some h2 _, get_append_of_some h3 _, ?_⟩
  rcases h4 with h4 | ⟨h4, h5, h6, h7, q, h8, h9⟩
  · exact Or.inl h4
  · exact Or.inr ⟨h4, h5, he.get_out h6, he.mem_cuts h7, q, he.get_out h8, he.sinks _ _ h9⟩

/-- The source of input `x` has been transformed: its image is in the store with the parent's name
and outputs, owned by the parent's part. -/
def SrcOK (key : Node → Nat) (pre : List Node) (s : SplitSt) (done : List (Nat × Nat)) (x : Name × Ref) : Prop :=
  ∃ pj tj pm, pre[x.2.1]? = some pj ∧ done[x.2.1]? = some (key pj, tj) ∧ s.out[tj]? = some pm ∧ pm.name = pj.name ∧
    x.2.2 ∈ pm.outputs ∧ s.owner[tj]? = some (key pj)

theorem SrcOK.mono {key : Node → Nat} {pre : List Node} {s s' : SplitSt} {done : List (Nat × Nat)} {x : Name × Ref}
    (he : Ext s s') (h : SrcOK key pre s done x) : SrcOK key pre s' done x := by
  obtain ⟨pj, tj, pm, h1, h2, h3, h4, h5, h6⟩ := h
  exact ⟨pj, tj, pm, h1, h2, he.get_out h3, h4, h5, he.get_owner h6⟩

/-- `inputs` as `transform` hands them to `Splitter.node`. -/
def splitIns (done : List (Nat × Nat)) (xs : List (Name × Ref)) : List (Name × (Nat × Ref)) :=
  xs.map fun x => (x.1, ((done.getD x.2.1 (0, 0)).1, ((done.getD x.2.1 (0, 0)).2, x.2.2)))

theorem split_loop (key : Node → Nat) (cutName : CutEdge → Name) (pre : List Node) (done : List (Nat × Nat)) (a : Node)
    (xs : List (Name × Ref)) : ∀ (s : SplitSt) (acc : List (Name × Ref)), StInv s → (∀ x ∈ xs, SrcOK key pre s done x) →
    ∃ s' ys, (splitIns done xs).foldl (splitInput cutName (key a) a.name) (s, acc) = (s', acc ++ ys) ∧ StInv s' ∧ Ext s s' ∧
      ys.length = xs.length ∧
      (∀ (p : Nat) (x y : Name × Ref), xs[p]? = some x → ys[p]? = some y →
          ImgInput key cutName pre s' done a x y ∧ RefOK s' (key a) y.2) ∧
      (∀ (t : Nat) (m : Node), s'.out[t]? = some m → s.out[t]? = some m ∨ ∃ c ∈ s'.cuts, m.name = cutName c) ∧
      (∀ (t : Nat), s.out.length ≤ t → t < s'.out.length →
          (∃ k l, (k, l) ∈ s'.sinks ∧ t ∈ l) ∨ (∃ y ∈ ys, y.2.1 = t)) := by
  induction xs with
  | nil =>
    intro s acc hs _
    exact ⟨s, [], by simp [splitIns], hs, Ext.refl s, rfl, by simp, fun t m h => Or.inl h, fun t h1 h2 => by omega⟩
  | cons x xs ih =>
    intro s acc hs hsrc
    obtain ⟨pj, tj, pm, h1, h2, h3, h4, h5, h6⟩ := hsrc x (by simp)
    have hgd : done.getD x.2.1 (0, 0) = (key pj, tj) := by simp [List.getD_eq_getElem?_getD, h2]
    obtain ⟨s1, y, hstep, hs1, he1, hy1, hyok, hcase⟩ :=
      splitInput_spec cutName (key a) a.name s acc (x.1, (key pj, (tj, x.2.2))) hs ⟨pm, h3, h5, h6⟩
    obtain ⟨s', ys, hfold, hs', he', hlen, himg, hnew, hcov⟩ :=
      ih s1 (acc ++ [y]) hs1 (fun z hz => (hsrc z (by simp [hz])).mono he1)
    refine ⟨s', y :: ys, ?_, hs', he1.trans he', by simp [hlen], ?_, ?_, ?_⟩
    · simp only [splitIns, List.map_cons, List.foldl_cons, hgd]
      rw [hstep]
      simpa [splitIns] using hfold
    · intro p x' y' hx' hy'
      cases p with
      | zero =>
        simp at hx' hy'; subst hx' hy'
        refine ⟨⟨hy1, pj, tj, h1, h2, ?_⟩, hyok.mono he'⟩
        rcases hcase with ⟨hk, hy2, _⟩ | ⟨hk, pm', hpm', hy2, hout, hcuts, hsink⟩
        · exact Or.inl ⟨hk, hy2⟩
        · simp only at hpm'
          rw [h3] at hpm'; cases hpm'
          simp only [h4] at hy2 hout hcuts
          refine Or.inr ⟨hk, by rw [hy2], ?_, ?_, s.out.length, ?_, hsink.elim fun l hl => he'.sinks _ _ ⟨l, hl⟩⟩
          · apply he'.get_out
            rw [hy2, hout]; simp
          · apply he'.mem_cuts; rw [hcuts]; simp
          · apply he'.get_out
            rw [hout]; simp
      | succ p =>
        simp at hx' hy'
        exact himg p x' y' hx' hy'
    · intro t m hm
      rcases hnew t m hm with h | h
      · rcases hcase with ⟨_, _, hss⟩ | ⟨_, pm', hpm', _, hout, hcuts, _⟩
        · subst hss; exact Or.inl h
        · by_cases ht : t < s.out.length
          · left; rw [hout, List.getElem?_append_left ht] at h; exact h
          · right
            rw [hout, List.getElem?_append_right (by omega)] at h
            have hc : (⟨key pj, pm'.name, x.2.2, key a, a.name, x.1⟩ : CutEdge) ∈ s'.cuts := by
              apply he'.mem_cuts; rw [hcuts]; simp
            refine ⟨_, hc, ?_⟩
            have hlt := (List.getElem?_eq_some_iff.1 h).1
            simp at hlt
            have : t - s.out.length = 0 ∨ t - s.out.length = 1 := by omega
            rcases this with e | e <;> (rw [e] at h; simp at h; subst h; rfl)
      · exact Or.inr h
    · intro t ht1 ht2
      rcases hcase with ⟨_, _, hss⟩ | ⟨_, pm', hpm', hy2, hout, hcuts, hsink⟩
      · subst hss
        rcases hcov t ht1 ht2 with h | ⟨y', hy', e⟩
        · exact Or.inl h
        · exact Or.inr ⟨y', by simp [hy'], e⟩
      · by_cases ht : t < s1.out.length
        · rw [hout] at ht
          simp at ht
          have : t = s.out.length ∨ t = s.out.length + 1 := by omega
          rcases this with e | e
          · subst e
            obtain ⟨l, hl⟩ := hsink
            obtain ⟨l', hl'⟩ := he'.sinks _ _ ⟨l, hl⟩
            exact Or.inl ⟨_, l', hl'⟩
          · exact Or.inr ⟨y, by simp, by rw [hy2]; exact e.symm⟩
        · rcases hcov t (by omega) ht2 with h | ⟨y', hy', e⟩
          · exact Or.inl h
          · exact Or.inr ⟨y', by simp [hy'], e⟩


/-- The store node `m` that `Splitter.node` leaves for the original node `n`. -/
def Img (key : Node → Nat) (cutName : CutEdge → Name) (pre : List Node) (s : SplitSt) (done : List (Nat × Nat))
    (n m : Node) : Prop :=
  m.name = n.name ∧ m.outputs = n.outputs ∧ m.payload = n.payload ∧ m.inputs.length = n.inputs.length ∧
  ∀ (p : Nat) (x y : Name × Ref), n.inputs[p]? = some x → m.inputs[p]? = some y → ImgInput key cutName pre s done n x y

theorem Img.mono {key : Node → Nat} {cutName : CutEdge → Name} {pre : List Node} {s s' : SplitSt}
    {done : List (Nat × Nat)} {n m : Node} (he : Ext s s') (pre' : List Node) (done' : List (Nat × Nat))
    (h : Img key cutName pre s done n m) : Img key cutName (pre ++ pre') s' (done ++ done') n m := by
  obtain ⟨h1, h2, h3, h4, h5⟩ := h
  exact ⟨h1, h2, h3, h4, fun p x y hx hy => (h5 p x y hx hy).mono he pre' done'⟩

/-- Store node `t` is recorded as a sink of some part or consumed by a store node. -/
def Covered (s : SplitSt) (t : Nat) : Prop :=
  (∃ k l, (k, l) ∈ s.sinks ∧ t ∈ l) ∨ (∃ (c : Nat) (n : Node), s.out[c]? = some n ∧ ∃ x ∈ n.inputs, x.2.1 = t)

theorem Covered.mono {s s' : SplitSt} (he : Ext s s') {t : Nat} (h : Covered s t) : Covered s' t := by
  rcases h with ⟨k, l, h⟩ | ⟨c, n, h1, h2⟩
  · obtain ⟨l', h'⟩ := he.sinks k t ⟨l, h⟩
    exact Or.inl ⟨k, l', h'⟩
  · exact Or.inr ⟨c, n, he.get_out h1, h2⟩

/-- Invariant of the traversal of `Splitter`. -/
structure SplitInv (key : Node → Nat) (cutName : CutEdge → Name) (pre : List Node) (st : SplitSt × List (Nat × Nat)) : Prop where
  sinv : StInv st.1
  doneLen : st.2.length = pre.length
  img : ∀ (i : Nat) (n : Node), pre[i]? = some n → ∃ t m, st.2[i]? = some (key n, t) ∧ st.1.out[t]? = some m ∧
          st.1.owner[t]? = some (key n) ∧ Img key cutName pre st.1 st.2 n m
  inj : ∀ (i j : Nat) (a b : Nat × Nat), st.2[i]? = some a → st.2[j]? = some b → a.2 = b.2 → i = j
  mono : ∀ (i j : Nat) (a b : Nat × Nat), i < j → st.2[i]? = some a → st.2[j]? = some b → a.2 < b.2
  tagged : ∀ (t : Nat) (m : Node), st.1.out[t]? = some m →
          (∃ (i k : Nat), st.2[i]? = some (k, t)) ∨ (∃ c ∈ st.1.cuts, m.name = cutName c)
  cov : ∀ (t : Nat) (m : Node), st.1.out[t]? = some m →
          Covered st.1 t ∨ (∃ (i k : Nat), st.2[i]? = some (k, t) ∧ ∀ n ∈ pre, ∀ x ∈ n.inputs, x.2.1 ≠ i)

theorem keys_of_pointwise (xs ys : List (Name × Ref)) (hlen : ys.length = xs.length)
    (h : ∀ (p : Nat) (x y : Name × Ref), xs[p]? = some x → ys[p]? = some y → y.1 = x.1) :
    ys.map (·.1) = xs.map (·.1) := by
  induction xs generalizing ys with
  | nil => cases ys with | nil => rfl | cons _ _ => simp at hlen
  | cons x xs ih =>
    cases ys with
    | nil => simp at hlen
    | cons y ys =>
      simp only [List.map_cons]
      rw [h 0 x y (by simp) (by simp), ih ys (by simpa using hlen) (fun p x' y' hx hy => h (p + 1) x' y' (by simpa using hx) (by simpa using hy))]

theorem split_transInputs (key : Node → Nat) (cutName : CutEdge → Name) (pre : List Node) (s : SplitSt)
    (done : List (Nat × Nat)) (hinv : SplitInv key cutName pre (s, done)) (a : Node) (hok : NodeOK pre a) :
    transInputs (splitter key cutName) s done a.inputs = .ok (splitIns done a.inputs) ∧
    ∀ x ∈ a.inputs, SrcOK key pre s done x := by
  have hsrc : ∀ x ∈ a.inputs, SrcOK key pre s done x := by
    intro x hx
    obtain ⟨pj, hpj, ho⟩ := hok.2 x hx
    obtain ⟨tj, pm, h1, h2, h3, h4⟩ := hinv.img _ _ hpj
    exact ⟨pj, tj, pm, hpj, h1, h2, h4.1, h4.2.1 ▸ ho, h3⟩
  refine ⟨?_, hsrc⟩
  unfold transInputs splitIns
  apply mapE_total
  intro x hx
  obtain ⟨pj, tj, pm, h1, h2, h3, h4, h5, h6⟩ := hsrc x hx
  simp [h2, splitter, splitOutput, nodeOutput, h3, h5, List.getD_eq_getElem?_getD]

theorem split_step (key : Node → Nat) (cutName : CutEdge → Name) (pre : List Node) (hpre : WFNodes pre) (a : Node)
    (hok : NodeOK pre a) (st : SplitSt × List (Nat × Nat)) (hinv : SplitInv key cutName pre st) :
    ∃ st', step (splitter key cutName) st a = .ok st' ∧ SplitInv key cutName (pre ++ [a]) st' := by
  obtain ⟨s, done⟩ := st
  obtain ⟨hti, hsrc⟩ := split_transInputs key cutName pre s done hinv a hok
  obtain ⟨s', ys, hfold, hs', he', hlen, himg, hnew, hloopcov⟩ := split_loop key cutName pre done a a.inputs s [] hinv.sinv hsrc
  have hnv : ∀ ins, nodeVisit (splitter key cutName) s a ins = splitNode key cutName s a ins :=
    fun ins => nodeVisit_node_only (splitter key cutName) _ rfl rfl rfl rfl s a ins
  let m : Node := { a with inputs := ys }
  let s2 : SplitSt := { s' with out := s'.out ++ [m], owner := s'.owner ++ [key a] }
  have he2 : Ext s' s2 := ⟨⟨_, rfl⟩, ⟨_, rfl⟩, ⟨[], by simp [s2]⟩, fun _ _ h => h⟩
  have he : Ext s s2 := he'.trans he2
  have hstep : step (splitter key cutName) (s, done) a = .ok (s2, done ++ [(key a, s'.out.length)]) := by
    simp only [step, hti, hnv, splitNode, hfold, List.nil_append]
    rfl
  have hkeys : ys.map (·.1) = a.inputs.map (·.1) :=
    keys_of_pointwise _ _ hlen (fun p x y hx hy => (himg p x y hx hy).1.1)
  have hyok : ∀ y ∈ ys, RefOK s' (key a) y.2 := by
    intro y hy
    obtain ⟨p, hp, hyp⟩ := List.getElem_of_mem hy
    have hp' : p < a.inputs.length := by omega
    exact (himg p a.inputs[p] y (List.getElem?_eq_getElem hp') (by rw [List.getElem?_eq_getElem hp, hyp])).2
  have hm : s2.out[s'.out.length]? = some m := by simp [s2]
  have hom : s2.owner[s'.out.length]? = some (key a) := by simp [s2, ← hs'.ownerLen]
  have hbound : ∀ (i : Nat) (b : Nat × Nat), done[i]? = some b → b.2 < s.out.length := by
    intro i b hb
    have hi : i < pre.length := by rw [← hinv.doneLen]; exact (List.getElem?_eq_some_iff.1 hb).1
    obtain ⟨t, m', h1, h2, _⟩ := hinv.img i pre[i] (List.getElem?_eq_getElem hi)
    rw [hb] at h1; cases h1
    exact (List.getElem?_eq_some_iff.1 h2).1
  have hsle : s.out.length ≤ s'.out.length := by
    obtain ⟨e, h⟩ := he'.out; rw [h]; simp
  refine ⟨_, hstep, ?_, ?_, ?_, ?_, ?_, ?_, ?_⟩
  · -- StInv
    refine ⟨by simp [s2, hs'.ownerLen], ?_, ?_, ?_⟩
    · show WFNodes (s'.out ++ [m])
      rw [wf_snoc]
      refine ⟨hs'.wf, by simpa [m, hkeys] using hok.1, ?_⟩
      intro y hy
      obtain ⟨pm, h1, h2, _⟩ := hyok y hy
      exact ⟨pm, h1, h2⟩
    · intro i n hn z hz
      by_cases hi : i < s'.out.length
      · have hn' : s'.out[i]? = some n := by
          have := hn; simp only [s2] at this; rwa [List.getElem?_append_left hi] at this
        have hzlt : z.2.1 < s'.out.length := by
          have := nodeOK_lt (wf_get s'.out hs'.wf i n hn') z hz
          rw [List.length_take] at this; omega
        have h1 := hs'.closed i n hn' z hz
        show (s'.owner ++ [key a])[z.2.1]? = (s'.owner ++ [key a])[i]?
        rw [List.getElem?_append_left (by rw [hs'.ownerLen]; exact hzlt),
            List.getElem?_append_left (by rw [hs'.ownerLen]; exact hi)]
        exact h1
      · have hlt := (List.getElem?_eq_some_iff.1 hn).1
        simp [s2] at hlt
        have hi' : i = s'.out.length := by omega
        subst hi'
        rw [hm] at hn; cases hn
        obtain ⟨pm, _, _, h3⟩ := hyok z hz
        rw [hom]
        exact he2.get_owner h3
    · intro p hp j hj
      exact he2.get_owner (hs'.sinksOwned p hp j hj)
  · simp [hinv.doneLen]
  · -- img
    intro i n hn
    by_cases hi : i < pre.length
    · rw [List.getElem?_append_left hi] at hn
      obtain ⟨t, m', h1, h2, h3, h4⟩ := hinv.img i n hn
      exact ⟨t, m', get_append_of_some h1 _, he.get_out h2, he.get_owner h3, h4.mono he _ _⟩
    · have hlt := (List.getElem?_eq_some_iff.1 hn).1
      simp at hlt
      have hi' : i = pre.length := by omega
      subst hi'
      simp at hn; subst hn
      refine ⟨s'.out.length, m, ?_, hm, hom, rfl, rfl, rfl, hlen, ?_⟩
      · rw [← hinv.doneLen]; simp
      · intro p x y hx hy
        exact ((himg p x y hx hy).1).mono he2 _ _
  · -- inj
    intro i j b c hb hc hbc
    have hdl : done.length = pre.length := hinv.doneLen
    by_cases hi : i < done.length
    · rw [List.getElem?_append_left hi] at hb
      by_cases hj : j < done.length
      · rw [List.getElem?_append_left hj] at hc
        exact hinv.inj i j b c hb hc hbc
      · have hlt := (List.getElem?_eq_some_iff.1 hc).1
        simp at hlt
        have hj' : j = done.length := by omega
        subst hj'
        simp at hc; subst hc
        have := hbound i b hb
        simp at hbc; omega
    · have hlt := (List.getElem?_eq_some_iff.1 hb).1
      simp at hlt
      have hi' : i = done.length := by omega
      subst hi'
      simp at hb; subst hb
      by_cases hj : j < done.length
      · rw [List.getElem?_append_left hj] at hc
        have := hbound j c hc
        simp at hbc; omega
      · have hlt := (List.getElem?_eq_some_iff.1 hc).1
        simp at hlt
        omega
  · -- mono
    intro i j b c hij hb hc
    have hjlt := (List.getElem?_eq_some_iff.1 hc).1
    simp at hjlt
    have hi : i < done.length := by omega
    rw [List.getElem?_append_left hi] at hb
    by_cases hj : j < done.length
    · rw [List.getElem?_append_left hj] at hc
      exact hinv.mono i j b c hij hb hc
    · have hj' : j = done.length := by omega
      subst hj'
      simp at hc; subst hc
      have := hbound i b hb
      simp; omega
  · -- tagged
    intro t m' hm'
    by_cases ht : t < s'.out.length
    · have hm2 : s'.out[t]? = some m' := by
        have := hm'; simp only [s2] at this; rwa [List.getElem?_append_left ht] at this
      rcases hnew t m' hm2 with h | ⟨c, hc, hcn⟩
      · rcases hinv.tagged t m' h with ⟨i, k, hik⟩ | ⟨c, hc, hcn⟩
        · exact Or.inl ⟨i, k, get_append_of_some hik _⟩
        · exact Or.inr ⟨c, he.mem_cuts hc, hcn⟩
      · exact Or.inr ⟨c, he2.mem_cuts hc, hcn⟩
    · have hlt := (List.getElem?_eq_some_iff.1 hm').1
      simp [s2] at hlt
      have ht' : t = s'.out.length := by omega
      subst ht'
      exact Or.inl ⟨done.length, key a, by simp⟩
  · -- cov
    intro t m' hm'
    by_cases ht : t < s'.out.length
    · have hm2 : s'.out[t]? = some m' := by
        have := hm'; simp only [s2] at this; rwa [List.getElem?_append_left ht] at this
      by_cases hts : t < s.out.length
      · have hm3 : s.out[t]? = some m' := by
          obtain ⟨e, h⟩ := he'.out
          rw [h, List.getElem?_append_left hts] at hm2; exact hm2
        rcases hinv.cov t m' hm3 with h | ⟨i, k, hik, hpend⟩
        · exact Or.inl (h.mono he)
        · by_cases hcons : ∃ x ∈ a.inputs, x.2.1 = i
          · left
            obtain ⟨x, hx, hxi⟩ := hcons
            obtain ⟨p, hp, hxp⟩ := List.getElem_of_mem hx
            have hp' : p < ys.length := by omega
            have hy : ys[p]? = some ys[p] := List.getElem?_eq_getElem hp'
            obtain ⟨⟨_, pj, tj, _, hdone, hcase⟩, _⟩ := himg p x ys[p] (by rw [List.getElem?_eq_getElem hp, hxp]) hy
            rw [hxi, hik] at hdone
            have htj : tj = t := by cases hdone; rfl
            subst htj
            rcases hcase with ⟨_, hy2⟩ | ⟨_, _, _, _, q, hq, _⟩
            · exact Or.inr ⟨s'.out.length, m, hm, ys[p], List.getElem_mem hp', by rw [hy2]⟩
            · exact Or.inr ⟨q, _, he2.get_out hq, (inputName, (tj, x.2.2)), by simp [cutSink], rfl⟩
          · right
            refine ⟨i, k, get_append_of_some hik _, ?_⟩
            intro n hn x hx
            rcases List.mem_append.1 hn with hn | hn
            · exact hpend n hn x hx
            · simp at hn; subst hn
              intro e; exact hcons ⟨x, hx, e⟩
      · left
        rcases hloopcov t (by omega) ht with ⟨k, l, h⟩ | ⟨y, hy, hyt⟩
        · exact Or.inl ⟨k, l, h⟩
        · exact Or.inr ⟨s'.out.length, m, hm, y, hy, hyt⟩
    · have hlt := (List.getElem?_eq_some_iff.1 hm').1
      simp [s2] at hlt
      have ht' : t = s'.out.length := by omega
      subst ht'
      right
      refine ⟨done.length, key a, by simp, ?_⟩
      intro n hn x hx
      rw [hinv.doneLen]
      rcases List.mem_append.1 hn with hn | hn
      · obtain ⟨i, hi, hni⟩ := List.getElem_of_mem hn
        have := nodeOK_lt (wf_get pre hpre i n (by rw [List.getElem?_eq_getElem hi, hni])) x hx
        rw [List.length_take] at this; omega
      · simp at hn; subst hn
        have := nodeOK_lt hok x hx; omega

theorem split_run (key : Node → Nat) (cutName : CutEdge → Name) (ns : List Node) (h : WFNodes ns) :
    ∃ st, run (splitter key cutName) {} ns = .ok st ∧ SplitInv key cutName ns st := by
  refine foldE_inv (step (splitter key cutName)) ns (SplitInv key cutName) ({}, []) ?_ ?_
  · refine ⟨⟨rfl, trivial, ?_, ?_⟩, rfl, ?_, ?_, ?_, ?_, ?_⟩ <;> simp
  · intro pre a post b hl hb
    have hw := wf_split pre a post (hl ▸ h)
    exact split_step key cutName pre hw.1 a hw.2 b hb


theorem sinksOf_total {T : Type} (done : List T) (d : T) (sinks : List Nat) (h : ∀ s ∈ sinks, s < done.length) :
    sinksOf done sinks = .ok (sinks.map (done.getD · d)) := by
  unfold sinksOf
  apply mapE_total
  intro s hs
  simp [List.getD_eq_getElem?_getD, h s hs]

/-- adding the transformed sinks in `Splitter.graph` -/
def addSinks (d : List (Nat × List Nat)) (ps : List (Nat × Nat)) : List (Nat × List Nat) :=
  ps.foldl (fun d ks => addSink d ks.1 ks.2) d

theorem addSinks_keep (d : List (Nat × List Nat)) (ps : List (Nat × Nat)) (k j : Nat)
    (h : ∃ l, (k, l) ∈ d ∧ j ∈ l) : ∃ l, (k, l) ∈ addSinks d ps ∧ j ∈ l := by
  induction ps generalizing d with
  | nil => exact h
  | cons p ps ih => exact ih _ (mem_addSink_of_mem d p.1 p.2 k j h)

theorem addSinks_new (d : List (Nat × List Nat)) (ps : List (Nat × Nat)) (p : Nat × Nat) (hp : p ∈ ps) :
    ∃ l, (p.1, l) ∈ addSinks d ps ∧ p.2 ∈ l := by
  induction ps generalizing d with
  | nil => simp at hp
  | cons q ps ih =>
    rcases List.mem_cons.1 hp with rfl | hp
    · exact addSinks_keep _ ps _ _ (mem_addSink_new d p.1 p.2)
    · exact ih _ hp

theorem addSinks_owned (owner : List Nat) (d : List (Nat × List Nat)) (ps : List (Nat × Nat))
    (h : ∀ p ∈ d, ∀ j ∈ p.2, owner[j]? = some p.1) (hp : ∀ p ∈ ps, owner[p.2]? = some p.1) :
    ∀ p ∈ addSinks d ps, ∀ j ∈ p.2, owner[j]? = some p.1 := by
  induction ps generalizing d with
  | nil => exact h
  | cons q ps ih =>
    exact ih _ (sinksOwned_addSink owner d q.1 q.2 h (hp q (by simp))) (fun p hp' => hp p (by simp [hp']))

theorem addSinks_mem (d : List (Nat × List Nat)) (ps : List (Nat × Nat)) (k j : Nat)
    (h : ∃ l, (k, l) ∈ addSinks d ps ∧ j ∈ l) : (∃ l, (k, l) ∈ d ∧ j ∈ l) ∨ (k, j) ∈ ps := by
  induction ps generalizing d with
  | nil => exact Or.inl h
  | cons q ps ih =>
    rcases ih (addSink d q.1 q.2) h with ⟨l, hl, hj⟩ | h2
    · rcases mem_addSink d q.1 q.2 (k, l) hl with hd | ⟨hk, l', hl', hld⟩
      · exact Or.inl ⟨l, hd, hj⟩
      · simp only at hk hl'
        rw [hl'] at hj
        rcases List.mem_append.1 hj with hj | hj
        · rcases hld with rfl | hld
          · simp at hj
          · exact Or.inl ⟨l', hk ▸ hld, hj⟩
        · simp at hj
          exact Or.inr (by rw [hk, hj]; simp)
    · exact Or.inr (List.mem_cons_of_mem _ h2)

/-- Nodes reachable from `roots` along inputs: the nodes of `Graph(roots)`. -/
inductive Reach (nodes : List Node) (roots : List Nat) : Nat → Prop
  | root {t : Nat} : t ∈ roots → Reach nodes roots t
  | input {t : Nat} {n : Node} {x : Name × Ref} : Reach nodes roots t → nodes[t]? = some n → x ∈ n.inputs →
      Reach nodes roots x.2.1

/-- Node `t` of the store belongs to the part of key `k`. -/
def InPart (r : SplitResult) (k t : Nat) : Prop := ∃ l, (k, l) ∈ r.parts ∧ Reach r.nodes l t

theorem reach_owner (nodes : List Node) (owner : List Nat) (l : List Nat) (k : Nat)
    (hclosed : ∀ (i : Nat) (n : Node), nodes[i]? = some n → ∀ x ∈ n.inputs, owner[x.2.1]? = owner[i]?)
    (hl : ∀ j ∈ l, owner[j]? = some k) (t : Nat) (h : Reach nodes l t) : owner[t]? = some k := by
  induction h with
  | root h => exact hl _ h
  | input _ hn hx ih => rw [hclosed _ _ hn _ hx]; exact ih

/-- `splitGraph` succeeds; its result and the invariant. -/
theorem split_result (key : Node → Nat) (cutName : CutEdge → Name) (g : Graph) (h : g.WF) :
    ∃ s done, SplitInv key cutName g.nodes (s, done) ∧
      splitGraph key cutName g = .ok { nodes := s.out, owner := s.owner, cuts := s.cuts,
                                       parts := addSinks s.sinks (g.sinks.map (done.getD · (0, 0))) } := by
  obtain ⟨⟨s, done⟩, hrun, hinv⟩ := split_run key cutName g.nodes h.nodes
  refine ⟨s, done, hinv, ?_⟩
  have hs : ∀ x ∈ g.sinks, x < done.length := by
    intro x hx; rw [hinv.doneLen]; exact h.sinks x hx
  simp only [splitGraph, transform, hrun, sinksOf_total done (0, 0) g.sinks hs, splitFin, addSinks]


/-- Every recorded sink of `self.sinks` during the traversal is the sink half of a reported cut. -/
def SinksCut (cutName : CutEdge → Name) (s : SplitSt) : Prop :=
  ∀ p ∈ s.sinks, ∀ j ∈ p.2, ∃ c ∈ s.cuts, ∃ m, s.out[j]? = some m ∧ m.name = cutName c

theorem sinksCut_splitInput (cutName : CutEdge → Name) (k : Nat) (nname : Name) (st : SplitSt × List (Name × Ref))
    (x : Name × (Nat × Ref)) (h : SinksCut cutName st.1) : SinksCut cutName (splitInput cutName k nname st x).1 := by
  unfold splitInput
  by_cases hk : x.2.1 = k
  · simp [hk]; exact h
  · have hb : (x.2.1 == k) = false := by simpa using hk
    simp only [hb]
    intro p hp j hj
    rcases mem_addSink _ _ _ p hp with hpd | ⟨_, l, hl, hld⟩
    · obtain ⟨c, hc, m, hm, hn⟩ := h p hpd j hj
      exact ⟨c, List.mem_append_left _ hc, m, get_append_of_some hm _, hn⟩
    · rw [hl] at hj
      rcases List.mem_append.1 hj with hj | hj
      · rcases hld with rfl | hld
        · simp at hj
        · obtain ⟨c, hc, m, hm, hn⟩ := h _ hld j hj
          exact ⟨c, List.mem_append_left _ hc, m, get_append_of_some hm _, hn⟩
      · simp at hj; subst hj
        refine ⟨_, List.mem_append_right _ (List.mem_singleton.2 rfl),
          cutSink (cutName ⟨x.2.1, nameAt st.1.out x.2.2.1, x.2.2.2, k, nname, x.1⟩) x.2.2,
          ?_, rfl⟩
        simp [cutSink]

theorem sinksCut_foldl (cutName : CutEdge → Name) (k : Nat) (nname : Name) (ins : List (Name × (Nat × Ref)))
    (st : SplitSt × List (Name × Ref)) (h : SinksCut cutName st.1) :
    SinksCut cutName (ins.foldl (splitInput cutName k nname) st).1 := by
  induction ins generalizing st with
  | nil => exact h
  | cons x ins ih => exact ih _ (sinksCut_splitInput cutName k nname st x h)

theorem sinksCut_run (key : Node → Nat) (cutName : CutEdge → Name) (ns : List Node) (st : SplitSt × List (Nat × Nat))
    (h : run (splitter key cutName) {} ns = .ok st) : SinksCut cutName st.1 := by
  refine foldE_inv' (step (splitter key cutName)) ns (fun _ st => SinksCut cutName st.1) ({}, []) st ?_ ?_ h
  · intro p hp; simp at hp
  · intro pre a post b b' _ hb hstep
    simp only [step] at hstep
    cases hti : transInputs (splitter key cutName) b.1 b.2 a.inputs with
    | error e => simp [hti] at hstep
    | ok ins =>
      simp only [hti, nodeVisit_node_only (splitter key cutName) _ rfl rfl rfl rfl, splitNode] at hstep
      cases hstep
      have := sinksCut_foldl cutName (key a) a.name ins (b.1, []) hb
      intro p hp j hj
      obtain ⟨c, hc, m, hm, hn⟩ := this p hp j hj
      exact ⟨c, hc, m, get_append_of_some hm _, hn⟩

/-- A store that holds, at the strictly increasing positions `ts`, the nodes of `ns` with their
inputs re-pointed through `ts`, denotes at those positions what `ns` denotes. -/
theorem den_of_iso (ns store : List Node) (ts : List Nat) (hwf : WFNodes ns)
    (hmono : ∀ (i j a b : Nat), i < j → ts[i]? = some a → ts[j]? = some b → a < b)
    (himg : ∀ (i : Nat) (n : Node), ns[i]? = some n →
      ∃ t, ts[i]? = some t ∧ store[t]? = some { n with inputs := remap ts n.inputs }) :
    ∀ i, i < ns.length → den store (ts.getD i 0) = den ns i := by
  intro i
  induction i using Nat.strongRecOn with
  | _ i ih =>
    intro hi
    have hn : ns[i]? = some ns[i] := List.getElem?_eq_getElem hi
    obtain ⟨t, ht, hst⟩ := himg i ns[i] hn
    have htd : ts.getD i 0 = t := by simp [List.getD_eq_getElem?_getD, ht]
    rw [htd, den_at store t _ hst, den_at ns i _ hn]
    congr 1
    apply termOf_remap
    intro x hx
    have hxlt : x.2.1 < i := by
      have := nodeOK_lt (wf_get ns hwf i _ hn) x hx
      rw [List.length_take] at this; omega
    have hxn : ns[x.2.1]? = some ns[x.2.1] := List.getElem?_eq_getElem (by omega)
    obtain ⟨tj, htj, hstj⟩ := himg x.2.1 _ hxn
    have htjd : ts.getD x.2.1 0 = tj := by simp [List.getD_eq_getElem?_getD, htj]
    have hlt : tj < t := hmono x.2.1 i tj t hxlt htj ht
    have htle : t ≤ store.length := Nat.le_of_lt (List.getElem?_eq_some_iff.1 hst).1
    rw [htjd, denAll_take_get store t tj hlt htle, denAll_take_get ns i x.2.1 hxlt (Nat.le_of_lt hi)]
    rw [← htjd]
    exact ih x.2.1 hxlt (by omega)

/-- `splitGraph` succeeds; its result with both invariants. -/
theorem split_result' (key : Node → Nat) (cutName : CutEdge → Name) (g : Graph) (h : g.WF) :
    ∃ s done, SplitInv key cutName g.nodes (s, done) ∧ SinksCut cutName s ∧
      splitGraph key cutName g = .ok { nodes := s.out, owner := s.owner, cuts := s.cuts,
                                       parts := addSinks s.sinks (g.sinks.map (done.getD · (0, 0))) } := by
  obtain ⟨⟨s, done⟩, hrun, hinv⟩ := split_run key cutName g.nodes h.nodes
  refine ⟨s, done, hinv, sinksCut_run key cutName g.nodes (s, done) hrun, ?_⟩
  have hs : ∀ x ∈ g.sinks, x < done.length := by
    intro x hx; rw [hinv.doneLen]; exact h.sinks x hx
  simp only [splitGraph, transform, hrun, sinksOf_total done (0, 0) g.sinks hs, splitFin, addSinks]

end EkwVerif.Graph.Aux
