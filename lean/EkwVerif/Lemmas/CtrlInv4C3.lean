/-
Tier 4 (`Inv4`, `Inv4X`) preservation, slice i4c: the step `.notify1`.
-/
import EkwVerif.Lemmas.CtrlInv4C

namespace EkwVerif.Ctrl

/-! ### what `notifyEvent` does to the fields Tier 4 talks about -/

theorem i4c_completeInputs_err (j : Job) (task : Task) (l : List Ds) (c : Ctl) (e : Err)
    (hr : completeInputs j task c l = .error e) : e = .raised "KeyError: purging_tracker removal" := by
  induction l generalizing c with
  | nil => simp [completeInputs] at hr
  | cons x l ih =>
    unfold completeInputs at hr
    split at hr
    · exact ih _ hr
    · simp only [Except.error.injEq] at hr; exact hr.symm

theorem i4c_notifyEvent_err (j : Job) (c : Ctl) (ev : Event) (e : String)
    (hr : notifyEvent j c ev = .error (.raised e)) :
    e = "KeyError: purging_tracker removal" ∨ e = "ValueError: removal from ongoing impossible" := by
  cases ev with
  | payload ds v => simp [notifyEvent] at hr
  | pubT a ds => simp [notifyEvent] at hr
  | pubW w ds =>
    simp only [notifyEvent] at hr
    split at hr
    · split at hr
      · rename_i e2 hci
        simp only [Except.error.injEq] at hr
        subst hr
        have := i4c_completeInputs_err _ _ _ _ _ hci
        simp only [Err.raised.injEq] at this
        exact Or.inl this
      · split at hr
        · cases hr
        · simp only [Except.error.injEq, Err.raised.injEq] at hr
          exact Or.inr hr.symm
    · cases hr

/-- a publication event for `ds0` whose data sits on host `h0` -/
def i4c_isPub (ev : Event) (h0 : Host) (ds0 : Ds) : Prop :=
  ev = .pubT h0 ds0 ∨ ∃ w, ev = .pubW w ds0 ∧ w.host = h0

theorem i4c_notifyEvent_pub (j : Job) (c c' : Ctl) (ev : Event) (h0 : Host) (ds0 : Ds)
    (hev : i4c_isPub ev h0 ds0) (hr : notifyEvent j c ev = .ok c') :
    c'.hostDs = (markAvailable c h0 ds0).hostDs ∧ c'.dsHost = (markAvailable c h0 ds0).dsHost ∧
    c'.announced = (markAvailable c h0 ds0).announced ∧ c'.workerDs = c.workerDs ∧ c'.outputs = c.outputs ∧
    (∀ t, c.doneC t = true → c'.doneC t = true) ∧ (∀ p, p ∈ c'.ongoing → p ∈ c.ongoing) ∧
    (∀ p, p ∈ c.ongoing → p.2 ≠ ds0.task → p ∈ c'.ongoing) := by
  rcases hev with rfl | ⟨w, rfl, rfl⟩
  · simp only [notifyEvent, Except.ok.injEq] at hr
    subst hr
    simp
    exact fun _ _ h _ => h
  · simp only [notifyEvent] at hr
    split at hr
    · split at hr
      · cases hr
      · rename_i c2 hc2
        have e1 := completeInputs_hostDs _ _ _ _ _ hc2
        have e2 := completeInputs_dsHost _ _ _ _ _ hc2
        have e3 := completeInputs_announced _ _ _ _ _ hc2
        have e4 := completeInputs_workerDs _ _ _ _ _ hc2
        have e5 := completeInputs_outputs _ _ _ _ _ hc2
        have e6 := completeInputs_doneC _ _ _ _ _ hc2
        have e7 := completeInputs_ongoing _ _ _ _ _ hc2
        simp only [markPublished_hostDs, markPublished_dsHost, markPublished_announced, markPublished_workerDs,
          markPublished_outputs, markPublished_doneC, markPublished_ongoing,
          considerComputable_hostDs, considerFetch_hostDs, considerComputable_dsHost, considerFetch_dsHost,
          considerComputable_announced, considerFetch_announced, considerComputable_workerDs, considerFetch_workerDs,
          markAvailable_workerDs, considerComputable_outputs, considerFetch_outputs, markAvailable_outputs,
          considerComputable_doneC, considerFetch_doneC, markAvailable_doneC,
          considerComputable_ongoing, considerFetch_ongoing, markAvailable_ongoing] at e1 e2 e3 e4 e5 e6 e7
        split at hr
        · simp only [Except.ok.injEq] at hr; subst hr
          refine ⟨e1, e2, e3, e4, e5, ?_, ?_, ?_⟩
          · intro t ht
            simp only [e6]
            by_cases hte : t = ds0.task
            · subst hte; simp
            · simp [upd_other _ _ _ _ hte, ht]
          · intro p hp
            simp only [e7] at hp
            exact List.mem_of_mem_erase hp
          · intro p hp hne
            simp only [e7]
            refine (List.mem_erase_of_ne ?_).mpr hp
            intro he; rw [he] at hne; exact hne rfl
        · cases hr
    · simp only [Except.ok.injEq] at hr; subst hr
      simp
      exact fun _ _ h _ => h

theorem i4c_markAvailable_hostDs (c : Ctl) (h0 : Host) (ds0 : Ds) (h : Host) (d : Ds) :
    (markAvailable c h0 ds0).hostDs h d = if h = h0 ∧ d = ds0 then .available else c.hostDs h d := by
  simp only [markAvailable]
  by_cases hh : h = h0
  · subst hh
    by_cases hd : d = ds0
    · subst hd; simp
    · simp [hd]
  · simp [hh]

theorem i4c_markAvailable_dsHost (c : Ctl) (h0 : Host) (ds0 : Ds) (d : Ds) (h : Host) :
    (markAvailable c h0 ds0).dsHost d h = if h = h0 ∧ d = ds0 then .available else c.dsHost d h := by
  simp only [markAvailable]
  by_cases hd : d = ds0
  · subst hd
    by_cases hh : h = h0
    · subst hh; simp
    · simp [hh]
  · simp [hd]

theorem i4c_markAvailable_announced (c : Ctl) (h0 : Host) (ds0 : Ds) (d : Ds) :
    (markAvailable c h0 ds0).announced d = if d = ds0 then true else c.announced d := by
  simp only [markAvailable]
  by_cases hd : d = ds0
  · subst hd; simp
  · simp [hd]

/-! ### the invariant after a publication event, from the characterisation of the post-state -/

theorem i4c_statusP_markAvail {j : Job} {s s' : Sys} (hsp : i4c_StatusP j s)
    {h0 : Host} {ds0 : Ds}
    (hpres : needed j s.ctl ds0 → (s.env.present h0 ds0).isSome = true)
    (HH : ∀ h d, s'.ctl.hostDs h d = if h = h0 ∧ d = ds0 then .available else s.ctl.hostDs h d)
    (hN : ∀ ds, needed j s'.ctl ds → needed j s.ctl ds)
    (hEnv : s'.env = s.env) : i4c_StatusP j s' := by
  intro h d hh hn hp
  rw [hEnv] at hp ⊢
  rw [HH] at hh
  split at hh
  · rename_i hc
    obtain ⟨rfl, rfl⟩ := hc
    exact Or.inl (hpres (hN _ hn))
  · exact hsp h d hh (hN d hn) hp

theorem i4c_inv4_markAvail {j : Job} {cl : Cluster} {s s' : Sys} (h2 : Inv2 j cl s) (h4 : Inv4 j cl s)
    (hsp : i4c_StatusP j s) {h0 : Host} {ds0 : Ds}
    (hh0 : h0 ∈ cl.hosts)
    (hpres : needed j s.ctl ds0 → (s.env.present h0 ds0).isSome = true)
    (HH : ∀ h d, s'.ctl.hostDs h d = if h = h0 ∧ d = ds0 then .available else s.ctl.hostDs h d)
    (DD : ∀ d h, s'.ctl.dsHost d h = if h = h0 ∧ d = ds0 then .available else s.ctl.dsHost d h)
    (hW : s'.ctl.workerDs = s.ctl.workerDs)
    (AA : ∀ d, s'.ctl.announced d = if d = ds0 then true else s.ctl.announced d)
    (hN : ∀ ds, needed j s'.ctl ds → needed j s.ctl ds)
    (hDone : ∀ t, s.ctl.doneC t = true → s'.ctl.doneC t = true)
    (hOng : ∀ p, p ∈ s'.ctl.ongoing → p ∈ s.ctl.ongoing) (hTodo : s'.todo = s.todo)
    (hEv : ∀ e, e ∈ s'.allEv → e ∈ s.allEv)
    (hEnv : s'.env = s.env) (hErr : s'.err = s.err) : Inv4 j cl s' := by
  have hsp' := i4c_statusP_markAvail hsp hpres HH hN hEnv
  have hHm : ∀ h d, s.ctl.hostDs h d ≠ .missing → s'.ctl.hostDs h d ≠ .missing := by
    intro h d hne
    rw [HH]; split
    · simp
    · exact hne
  have hfl : ∀ w t, s'.inFlight w t → s.inFlight w t := by
    intro w t hf
    simp only [Sys.inFlight, Sys.todoPairs, hTodo] at hf ⊢
    rcases hf with hf | hf
    · exact Or.inl (hOng _ hf)
    · exact Or.inr hf
  refine ⟨?_, ?_, ?_, ?_, ?_, ?_, ?_, ?_, ?_, ?_, ?_, ?_, ?_, ?_, ?_, ?_, ?_, ?_, ?_, ?_, ?_, ?_, ?_⟩
  · -- keys
    intro h d
    rw [HH, DD]
    split
    · simp
    · exact h4.keys h d
  · -- status_hosts
    intro h d hne
    rw [DD] at hne
    split at hne
    · rename_i hc; rw [hc.1]; exact hh0
    · exact h4.status_hosts h d hne
  · -- workerDs_ok
    intro w d hne
    rw [hW] at hne
    obtain ⟨a1, a2⟩ := h4.workerDs_ok w d hne
    exact ⟨hHm _ _ a1, a2⟩
  · -- avail_present
    intro h d ha hn
    rw [hEnv]
    rw [DD] at ha
    split at ha
    · rename_i hc
      obtain ⟨rfl, rfl⟩ := hc
      exact hpres (hN _ hn)
    · exact h4.avail_present h d ha (hN d hn)
  · -- status_present
    intro h d hh hn ha
    refine hsp' h d hh hn ?_
    rw [hEnv]
    rw [AA] at ha
    split at ha
    · rename_i hd; subst hd
      exact h4.present_produced h0 d (hpres (hN _ hn))
    · exact h2.announced_produced d ha
  · -- transmit_out
    intro d src tgt hm
    rw [hEnv] at hm ⊢
    obtain ⟨a1, a2, a3, a4⟩ := h4.transmit_out d src tgt hm
    exact ⟨a1, a2, hHm _ _ a3, a4⟩
  · -- flight_present
    intro w t hf hr k hk hn
    rw [hEnv] at hr ⊢
    exact h4.flight_present w t (hfl w t hf) hr k hk (hN _ hn)
  · -- present_status
    intro h d hp
    rw [hEnv] at hp
    rcases h4.present_status h d hp with hst | hst
    · exact Or.inl (hHm _ _ hst)
    · refine Or.inr ?_
      simpa only [Sys.todoPairs, hTodo] using hst
  · -- ongoing_status
    intro w t hm hr k hk
    rw [hEnv] at hr
    exact hHm _ _ (h4.ongoing_status w t (hOng _ hm) hr k hk)
  · -- evW_present
    intro w d hm
    have := h4.evW_present w d (hEv _ hm)
    refine ⟨this.1, fun hn => ?_⟩
    rw [hEnv]; exact this.2 (hN d hn)
  · -- evT_present
    intro h d hm
    have := h4.evT_present h d (hEv _ hm)
    refine ⟨this.1, fun hn => ?_⟩
    rw [hEnv]; exact this.2 (hN d hn)
  · -- avail_somewhere
    intro d ha hex
    obtain ⟨t, ht, hdt⟩ := hex
    have hdt' : s.ctl.doneC t = false := by
      cases hx : s.ctl.doneC t with
      | false => rfl
      | true => rw [hDone t hx] at hdt; cases hdt
    rw [AA] at ha
    split at ha
    · rename_i hd; subst hd
      exact ⟨h0, hh0, by rw [DD]; simp⟩
    · obtain ⟨h, hh, hav⟩ := h4.avail_somewhere d ha ⟨t, ht, hdt'⟩
      refine ⟨h, hh, ?_⟩
      rw [DD]; split
      · rfl
      · exact hav
  · -- purged_unneeded
    intro h d hm hn
    rw [hEnv] at hm
    exact h4.purged_unneeded h d hm (hN d hn)
  · -- present_produced
    intro h d hp
    rw [hEnv] at hp ⊢
    exact h4.present_produced h d hp
  · rw [hEnv]; exact h4.no_transmit_from_missing
  · rw [hEnv]; exact h4.no_fetch_from_missing
  · rw [hEnv]; exact h4.no_purge_while_outstanding
  · rw [hEnv]; exact h4.no_input_purged
  · rw [hEnv]; exact h4.no_input_absent
  · rw [hEnv]; exact h4.no_io_gone_t
  · rw [hEnv]; exact h4.no_io_gone_f
  · rw [hErr]; exact h4.no_err_notfound
  · rw [hErr]; exact h4.no_err_pop

/-! ### `.notify1` -/

/-- the publication events in the inbox: host, membership in the cluster, presence -/
theorem i4c_pub_facts {j : Job} {cl : Cluster} {s : Sys} (h4 : Inv4 j cl s) (ev : Event) (hm : ev ∈ s.allEv)
    (hnp : ∀ ds v, ev ≠ .payload ds v) :
    ∃ h0 ds0, i4c_isPub ev h0 ds0 ∧ h0 ∈ cl.hosts ∧
      (needed j s.ctl ds0 → (s.env.present h0 ds0).isSome = true) := by
  cases ev with
  | payload ds v => exact absurd rfl (hnp ds v)
  | pubT h ds =>
    have := h4.evT_present h ds hm
    exact ⟨h, ds, Or.inl rfl, this.1, this.2⟩
  | pubW w ds =>
    have := h4.evW_present w ds hm
    exact ⟨w.host, ds, Or.inr ⟨w, rfl, rfl⟩, i4c_mem_hosts cl w this.1, this.2⟩

theorem i4c_step_notify1 (f : Sem) (j : Job) (cl : Cluster) (s s' : Sys) (_wf : WF j cl)
    (_h1 : Inv1 cl s) (h2 : Inv2 j cl s) (_h3 : Inv3 f j cl s) (h4 : Inv4 j cl s) (h4x : Inv4X j s)
    (hs : step f j cl s .notify1 = some s') : Inv4 j cl s' := by
  simp only [step] at hs
  split at hs; · cases hs
  split at hs
  · cases hs
  · rename_i ev rest hib
    have hevsub : ∀ e, e ∈ rest ++ s.env.pending → e ∈ s.allEv := by
      intro e he
      simp only [Sys.allEv, hib, List.mem_append, List.mem_cons] at he ⊢
      rcases he with he | he
      · exact Or.inl (Or.inr he)
      · exact Or.inr he
    have hevm : ev ∈ s.allEv := by simp [Sys.allEv, hib]
    split at hs
    · cases hs
    · rename_i e he
      cases hs
      have hne := i4c_notifyEvent_err j s.ctl ev e he
      refine i4c_inv4_frame h4 rfl rfl rfl rfl (fun _ hn => hn) (fun _ hd => hd) (fun _ hp => hp) rfl
        hevsub rfl rfl rfl rfl rfl (fun _ _ _ => Iff.rfl) (fun _ _ hm => hm) ?_ ?_
      · simp only [Sys.crash, ne_eq, Option.some.injEq]
        rcases hne with rfl | rfl <;> simp
      · simp only [Sys.crash, ne_eq, Option.some.injEq]
        rcases hne with rfl | rfl <;> simp
    · rename_i c2 hok
      cases hs
      by_cases hpay : ∃ ds v, ev = .payload ds v
      · obtain ⟨ds, v, rfl⟩ := hpay
        simp only [notifyEvent, Except.ok.injEq] at hok
        subst hok
        refine i4c_inv4_frame h4 rfl rfl rfl rfl ?_ (fun _ hd => hd) (fun _ hp => hp) rfl
          hevsub rfl rfl rfl rfl rfl (fun _ _ _ => Iff.rfl) (fun _ _ hm => hm) h4.no_err_notfound h4.no_err_pop
        intro d hn
        refine i4c_needed_mono j s.ctl { s.ctl with outputs := upd s.ctl.outputs ds (some v) } d (fun _ hd => hd) ?_ hn
        intro d' hd'
        show (upd s.ctl.outputs ds (some v) d').isSome = true
        by_cases hdd : d' = ds
        · subst hdd; simp
        · simpa [upd_other _ _ _ _ hdd] using hd'
      · have hnp : ∀ ds v, ev ≠ .payload ds v := fun ds v he => hpay ⟨ds, v, he⟩
        obtain ⟨h0, ds0, hpub, hh0, hpres⟩ := i4c_pub_facts h4 ev hevm hnp
        obtain ⟨k1, k2, k3, k4, k5, k6, k7, _⟩ := i4c_notifyEvent_pub j s.ctl c2 ev h0 ds0 hpub hok
        refine i4c_inv4_markAvail (s := s) (h0 := h0) (ds0 := ds0) h2 h4 h4x.status_produced hh0 hpres
          ?_ ?_ k4 ?_ ?_ k6 k7 rfl hevsub rfl rfl
        · intro h d
          show c2.hostDs h d = _
          rw [k1, i4c_markAvailable_hostDs]
        · intro d h
          show c2.dsHost d h = _
          rw [k2, i4c_markAvailable_dsHost]
        · intro d
          show c2.announced d = _
          rw [k3, i4c_markAvailable_announced]
        · intro d hn
          refine i4c_needed_mono j s.ctl c2 d k6 ?_ hn
          intro d' hd'
          rw [k5]; exact hd'

theorem i4c_inv4x_step_notify1 (f : Sem) (j : Job) (cl : Cluster) (s s' : Sys)
    (h2 : Inv2 j cl s) (h4 : Inv4 j cl s) (hx : Inv2X j s) (h4x : Inv4X j s)
    (hs : step f j cl s .notify1 = some s') : Inv4X j s' := by
  simp only [step] at hs
  split at hs; · cases hs
  split at hs
  · cases hs
  · rename_i ev rest hib
    have hevm : ev ∈ s.allEv := by simp [Sys.allEv, hib]
    split at hs
    · cases hs
    · cases hs
      exact ⟨h4x.transmit_count, h4x.status_produced, h4x.status_unran⟩
    · rename_i c2 hok
      cases hs
      by_cases hpay : ∃ ds v, ev = .payload ds v
      · obtain ⟨ds, v, rfl⟩ := hpay
        simp only [notifyEvent, Except.ok.injEq] at hok
        subst hok
        refine ⟨h4x.transmit_count, ?_, h4x.status_unran⟩
        refine i4c_statusP_frame (s := s) h4x.status_produced rfl ?_ rfl rfl (fun _ _ _ hm => hm)
        intro d hn
        refine i4c_needed_mono j s.ctl { s.ctl with outputs := upd s.ctl.outputs ds (some v) } d (fun _ hd => hd) ?_ hn
        intro d' hd'
        show (upd s.ctl.outputs ds (some v) d').isSome = true
        by_cases hdd : d' = ds
        · subst hdd; simp
        · simpa [upd_other _ _ _ _ hdd] using hd'
      · have hnp : ∀ ds v, ev ≠ .payload ds v := fun ds v he => hpay ⟨ds, v, he⟩
        obtain ⟨h0, ds0, hpub, hh0, hpres⟩ := i4c_pub_facts h4 ev hevm hnp
        obtain ⟨k1, k2, k3, k4, k5, k6, k7, k8⟩ := i4c_notifyEvent_pub j s.ctl c2 ev h0 ds0 hpub hok
        have HH : ∀ h d, c2.hostDs h d = if h = h0 ∧ d = ds0 then .available else s.ctl.hostDs h d := by
          intro h d; rw [k1, i4c_markAvailable_hostDs]
        have hN : ∀ d, needed j c2 d → needed j s.ctl d := by
          intro d hn
          refine i4c_needed_mono j s.ctl c2 d k6 ?_ hn
          intro d' hd'
          rw [k5]; exact hd'
        -- the task of the published dataset has run
        have hran : s.env.ran ds0.task = true := by
          rcases hpub with rfl | ⟨w, rfl, _⟩
          · exact ((h2.produced_iff ds0).mp (hx.evT_produced h0 ds0 hevm)).1
          · exact (h2.ev_ran w ds0 hevm).1
        refine ⟨h4x.transmit_count, ?_, ?_⟩
        · exact i4c_statusP_markAvail (s := s) (s' := { s with ctl := c2, inbox := rest }) h4x.status_produced
            hpres HH hN rfl
        · intro h d hh hr
          change c2.hostDs h d ≠ .missing at hh
          change s.env.ran d.task = false at hr
          rw [HH] at hh
          split at hh
          · rename_i hc
            rw [hc.2, hran] at hr; cases hr
          · obtain ⟨w, hw, hf⟩ := h4x.status_unran h d hh hr
            refine ⟨w, hw, ?_⟩
            simp only [Sys.inFlight, Sys.todoPairs] at hf ⊢
            rcases hf with hf | hf
            · refine Or.inl (k8 _ hf ?_)
              intro he
              simp only at he
              rw [he, hran] at hr; cases hr
            · exact Or.inr hf

end EkwVerif.Ctrl
