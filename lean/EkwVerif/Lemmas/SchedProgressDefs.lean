/-
Statement of the progress property of `scheduler.api.assign` (C03): definitions only.
-/
import EkwVerif.Lemmas.SchedAll

namespace EkwVerif.Ctrl

/-- the job is feasible on the cluster: there is a worker, and a GPU worker if some task needs one -/
structure Feasible (j : Job) (cl : Cluster) : Prop where
  some_worker : cl.ids ≠ []
  gpu : (∃ t, t < j.tasks.length ∧ j.gpu t = true) → ∃ w, w ∈ cl.ids ∧ cl.hasGpu w = true

/-- any number of steps (controller, scheduler, environment) taken while the controller is inside
`assign()` (the source state of every step is in phase `assigning`) -/
inductive AssignStar (f : Sem) (j : Job) (cl : Cluster) (cm : Comps) : SysX → SysX → Prop
  | refl (x : SysX) : AssignStar f j cl cm x x
  | step (x y z : SysX) (st : StepX) : AssignStar f j cl cm x y → y.sys.phase = .assigning →
      stepX f j cl cm y st = some z → AssignStar f j cl cm x z

/-- **Progress.** An iteration of the controller loop entered (after ANY history of event deliveries) with something
computable and nothing ongoing dispatches at least one task before `assign()` returns — so the
controller never spins without issuing a command. -/
def ProgressStmt (f : Sem) (j : Job) (cl : Cluster) (cm : Comps) : Prop :=
  ∀ x x1 x2 : SysX, ReachableX f j cl cm x → x.sys.phase = .top →
    x.sys.ctl.hasComputable = true → x.sys.ctl.ongoing = [] →
    stepX f j cl cm x (.base .enter) = some x1 → AssignStar f j cl cm x1 x2 → x2.sys.phase = .planning →
    x2.sys.todo ≠ []

end EkwVerif.Ctrl
