/-
Link between the controller model's job (`Ctrl.Job`, Model/Ctrl.lean) and C16's model of `precompute`
(`Presched.Job`, Model/Presched.lean; theorems Props/C16.lean) — re-audit C01 #1 / C03 #1: the component map `cm : Comps` of
the controller theorems was a free parameter constrained only by `WFC`, and `c03_heuristic_tables_total` was stated over
C16's own job type.

`toPresched j key` is the `JobInstance` a `Ctrl.Job` stands for: task ids `0 … n-1`, output names `0 … nOut-1`, one edge per
input, with ANY assignment of sink-input keys (`key t ds` — positional or keyword, the controller never looks at it).
`preComps j key` is the component map `initialize` reads off the preschedule: `ts2component[t]` = index of the component of
`precompute` that contains `t`.  Proved: for a well-formed job the `Presched` job is `WF` and a DAG, and `preComps` satisfies
`WFC` — so the hypothesis `WFC j cm` of the controller theorems is discharged for the component map `precompute` yields.
-/
import EkwVerif.Props.C16
import EkwVerif.Lemmas.SchedInvDefs

namespace EkwVerif.Ctrl

open EkwVerif.Presched in
/-- the `JobInstance` a `Ctrl.Job` stands for (sink-input keys arbitrary) -/
def toPresched (j : Job) (key : Task → Ds → Presched.Key) : Presched.Job Nat Nat :=
  { tasks := j.taskIds.map (fun t => (t, List.range (j.nOut t))),
    edges := j.taskIds.flatMap (fun t => (j.inputs t).map (fun ds => ⟨ds.task, ds.out, t, key t ds⟩)) }

theorem toPresched_ids (j : Job) (key) : (toPresched j key).ids = j.taskIds := by
  simp [toPresched, Presched.Job.ids, List.map_map, Function.comp_def]

theorem toPresched_edge (j : Job) (key) (e : Presched.Edge Nat Nat) :
    e ∈ (toPresched j key).edges ↔ ∃ t, t < j.tasks.length ∧ ∃ ds, ds ∈ j.inputs t ∧ e = ⟨ds.task, ds.out, t, key t ds⟩ := by
  simp only [toPresched, List.mem_flatMap, List.mem_map, Job.taskIds, List.mem_range]
  constructor
  · rintro ⟨t, ht, ds, hd, rfl⟩; exact ⟨t, ht, ds, hd, rfl⟩
  · rintro ⟨t, ht, ds, hd, rfl⟩; exact ⟨t, ht, ds, hd, rfl⟩

theorem toPresched_wf (j : Job) (cl : Cluster) (wf : WF j cl) (key) : (toPresched j key).WF := by
  refine ⟨?_, ?_, ?_⟩
  · rw [toPresched_ids]; exact List.nodup_range
  · intro e he
    obtain ⟨t, ht, ds, hd, rfl⟩ := (toPresched_edge j key e).mp he
    rw [toPresched_ids]
    simp only [Job.taskIds, List.mem_range]; exact Nat.lt_trans (wf.topo t ds hd) ht
  · intro e he
    obtain ⟨t, ht, ds, hd, rfl⟩ := (toPresched_edge j key e).mp he
    rw [toPresched_ids]
    simp only [Job.taskIds, List.mem_range]; exact ht

theorem toPresched_dag (j : Job) (cl : Cluster) (wf : WF j cl) (key) : Presched.IsDag (toPresched j key) := by
  refine ⟨id, ?_⟩
  intro e he
  obtain ⟨t, ht, ds, hd, rfl⟩ := (toPresched_edge j key e).mp he
  exact wf.topo t ds hd

/-- `ts2component` as `initialize` builds it from `enumerate(preschedule.components)` -/
def preComps (j : Job) (key : Task → Ds → Presched.Key) : Comps :=
  { compOf := fun t => (Presched.precompute (toPresched j key)).components.findIdx (fun c => c.nodes.contains t),
    n := (Presched.precompute (toPresched j key)).components.length }

theorem findIdx_le_of_getElem {α : Type} (p : α → Bool) (xs : List α) (i : Nat) (hi : i < xs.length) (hp : p xs[i] = true) :
    xs.findIdx p ≤ i := by
  rcases Nat.lt_or_ge i (xs.findIdx p) with h | h
  · exact absurd hp (by simpa using List.not_of_lt_findIdx h)
  · exact h

/-- **The component map of `precompute` satisfies `WFC`.** -/
theorem preComps_wfc (j : Job) (cl : Cluster) (wf : WF j cl) (key) : WFC j (preComps j key) := by
  have hw := toPresched_wf j cl wf key
  have hd := toPresched_dag j cl wf key
  have hpart := (Presched.c16_partition (toPresched j key) hw hd).1
  have hclosed := Presched.c16_closed (toPresched j key) hw
  -- every task lies in some component
  have hex : ∀ t, t < j.tasks.length → ∃ c ∈ (Presched.precompute (toPresched j key)).components, c.nodes.contains t = true := by
    intro t ht
    have hm : t ∈ (toPresched j key).ids := by rw [toPresched_ids]; simp [Job.taskIds, ht]
    have := (hpart.mem_iff (a := t)).mpr hm
    obtain ⟨c, hc, htc⟩ := List.mem_flatMap.mp this
    exact ⟨c, hc, by simpa using htc⟩
  have hlt : ∀ t, t < j.tasks.length → (preComps j key).compOf t < (preComps j key).n := by
    intro t ht
    obtain ⟨c, hc, htc⟩ := hex t ht
    exact List.findIdx_lt_length_of_exists ⟨c, hc, htc⟩
  refine ⟨?_, hlt⟩
  intro t ds hds
  by_cases ht : t < j.tasks.length
  · have hsrc : ds.task < j.tasks.length := Nat.lt_trans (wf.topo t ds hds) ht
    have he : (⟨ds.task, ds.out, t, key t ds⟩ : Presched.Edge Nat Nat) ∈ (toPresched j key).edges :=
      (toPresched_edge j key _).mpr ⟨t, ht, ds, hds, rfl⟩
    have h1 := hlt ds.task hsrc
    have h2 := hlt t ht
    simp only [preComps] at h1 h2 ⊢
    generalize hcs : (Presched.precompute (toPresched j key)).components = cs at h1 h2 hclosed
    apply Nat.le_antisymm
    · -- the component of t contains ds.task
      have hmem := List.findIdx_getElem (w := h2)
      have hin : t ∈ (cs[cs.findIdx (fun c => c.nodes.contains t)]'h2).nodes := by simpa using hmem
      have := (hclosed _ (List.getElem_mem h2) _ he).mpr hin
      exact findIdx_le_of_getElem _ _ _ h2 (by simpa using this)
    · have hmem := List.findIdx_getElem (w := h1)
      have hin : ds.task ∈ (cs[cs.findIdx (fun c => c.nodes.contains ds.task)]'h1).nodes := by simpa using hmem
      have := (hclosed _ (List.getElem_mem h1) _ he).mp hin
      exact findIdx_le_of_getElem _ _ _ h1 (by simpa using this)
  · have : j.inputs t = [] := by simp [Job.inputs, List.getElem?_eq_none (Nat.le_of_not_lt ht)]
    rw [this] at hds; cases hds

end EkwVerif.Ctrl
