/-
Tier 2 (`Inv2`) preservation, slice B, part 1: congruence lemma, environment frame facts,
the steps `.enter .endAssign .endPlan .flushF1 .endFlushF .flushP1 .endFlush .recv .endNotify`.
-/
import EkwVerif.Lemmas.CtrlInv1Step
import EkwVerif.Lemmas.CtrlInv2X

set_option linter.unusedVariables false
set_option linter.unusedSimpArgs false

namespace EkwVerif.Ctrl

/-! ### small general facts -/

theorem i2b_inputs_lt (j : Job) (t : Task) (ds : Ds) (h : ds ∈ j.inputs t) : t < j.tasks.length := by
  by_cases hlt : t < j.tasks.length
  · exact hlt
  · have : j.tasks[t]? = none := List.getElem?_eq_none (Nat.le_of_not_lt hlt)
    simp [Job.inputs, this] at h

theorem i2b_mem_consumers (j : Job) (ds : Ds) (t : Task) :
    t ∈ j.consumers ds ↔ ds ∈ j.inputs t := by
  simp only [Job.consumers, Job.taskIds, List.mem_filter, List.mem_range, List.contains_iff_mem]
  exact ⟨fun h => h.2, fun h => ⟨i2b_inputs_lt j t ds h, h⟩⟩

theorem i2b_mem_of_count_le {l l' : List Event} (h : ∀ e, l'.count e ≤ l.count e) (e : Event) (he : e ∈ l') : e ∈ l := by
  have h1 := List.count_pos_iff.mpr he
  have h2 := h e
  exact List.count_pos_iff.mp (by omega)

/-- a step that touches none of the fields Tier 2 talks about (queues may shrink, outputs may grow) -/
theorem Inv2.i2b_congr {j : Job} {cl : Cluster} {s s' : Sys} (h : Inv2 j cl s)
    (hong : s'.ctl.ongoing = s.ctl.ongoing) (htodo : s'.todo = s.todo)
    (hdone : s'.ctl.doneC = s.ctl.doneC) (hcomp : s'.ctl.computable = s.ctl.computable)
    (hdisp : s'.ctl.dispatched = s.ctl.dispatched)
    (hptd : s'.ctl.ptracked = s.ctl.ptracked) (hpt : s'.ctl.ptrack = s.ctl.ptrack)
    (hpq : ∀ ds, ds ∈ s'.ctl.purgeQ → ds ∈ s.ctl.purgeQ)
    (hout : ∀ ds, (s.ctl.outputs ds).isSome = true → (s'.ctl.outputs ds).isSome = true)
    (hann : s'.ctl.announced = s.ctl.announced)
    (htd : s'.ctl.tracked = s.ctl.tracked) (htr : s'.ctl.tracker = s.ctl.tracker)
    (hran : s'.env.ran = s.env.ran) (hq : s'.env.queued = s.env.queued) (hprod : s'.env.produced = s.env.produced)
    (hev : ∀ e, s'.allEv.count e ≤ s.allEv.count e)
    (hib : s'.phase ≠ .notifying → s'.phase ≠ .crashed → s'.inbox = [])
    (hviol : ∀ m, (m = "C02 input-not-produced" ∨ m = "C04 purge-before-consumer-done" ∨
        m = "C04 purge-needed-by-queued-task") → m ∉ s.env.viol → m ∉ s'.env.viol)
    (herr : ∀ m, (m = "KeyError: purging_tracker removal" ∨ m = "ValueError: removal from ongoing impossible" ∨
        m = "KeyError: purging_tracker[prep] in plan") → s.err ≠ some m → s'.err ≠ some m) : Inv2 j cl s' := by
  have hfl : ∀ w t, s'.inFlight w t ↔ s.inFlight w t := by
    intro w t; simp only [Sys.inFlight, Sys.todoPairs, hong, htodo]
  have hmem : ∀ e, e ∈ s'.allEv → e ∈ s.allEv := i2b_mem_of_count_le hev
  refine ⟨?_, ?_, ?_, ?_, ?_, ?_, ?_, ?_, ?_, ?_, hib, ?_, ?_, ?_, ?_, ?_, ?_, ?_, ?_, ?_, ?_, ?_, ?_⟩
  · intro w t hf; rw [hdone]; exact h.flight_not_done w t ((hfl w t).mp hf)
  · intro w t hf; exact h.flight_valid w t ((hfl w t).mp hf)
  · intro t ht; rw [hcomp] at ht; exact h.comp_valid t ht
  · intro t ht; rw [hdone] at ht; rw [hran]; exact h.done_ran t ht
  · intro t ht; rw [hran] at ht; rw [hdisp]; exact h.ran_disp t ht
  · intro w t hq'; rw [hq] at hq'; rw [hran]; exact h.queued_not_ran w t hq'
  · intro w t hf; rw [hq, hran]; exact h.flight_queued_or_ran w t ((hfl w t).mp hf)
  · intro w ds; exact Nat.le_trans (hev _) (h.ev_count w ds)
  · intro w ds he; rw [hran]; exact h.ev_ran w ds (hmem _ he)
  · intro w ds he; rw [hfl]; exact h.ev_flight w ds (hmem _ he)
  · intro ds t ht hd; rw [hdone] at hd; rw [hptd, hpt]; exact h.ptrack_sound ds t ht hd
  · intro ds hds
    obtain ⟨a, b, c⟩ := h.purgeQ_ok ds (hpq ds hds)
    refine ⟨?_, fun hx => hout ds (b hx), by rw [hann]; exact c⟩
    intro t ht; rw [hdone]; exact a t ht
  · intro ds t ht ha; rw [hann] at ha; rw [htd, htr]; exact h.tracker_complete ds t ht ha
  · intro t ht ds hds; rw [hcomp, hdisp] at ht; rw [hann]; exact h.ready t ht ds hds
  · intro ds ha; rw [hann] at ha; rw [hprod]; exact h.announced_produced ds ha
  · intro ds; rw [hprod, hran]; exact h.produced_iff ds
  · exact hviol _ (Or.inl rfl) h.no_input_not_produced
  · exact hviol _ (Or.inr (Or.inl rfl)) h.no_purge_before_consumer
  · exact hviol _ (Or.inr (Or.inr rfl)) h.no_purge_needed_queued
  · exact herr _ (Or.inl rfl) h.no_err_tracker
  · exact herr _ (Or.inr (Or.inl rfl)) h.no_err_ongoing
  · exact herr _ (Or.inr (Or.inr rfl)) h.no_err_plan

/-! ### events: `takeEvents` preserves the multiset, `markDelivered` only touches `delivered` -/

theorem i2b_takeEvents_count : ∀ (evs pend pend' : List Event), takeEvents pend evs = some pend' →
    ∀ e, (evs ++ pend').count e = pend.count e := by
  intro evs
  induction evs with
  | nil => intro pend pend' h e; simp only [takeEvents, Option.some.injEq] at h; subst h; simp
  | cons x evs ih =>
    intro pend pend' h e
    simp only [takeEvents] at h
    split at h
    · rename_i hx
      have hx' : x ∈ pend := by simpa using hx
      have := ih _ _ h e
      rw [List.cons_append, List.count_cons, this, List.count_erase]
      by_cases hxe : x = e
      · subst hxe
        have := List.count_pos_iff.mpr hx'
        simp; omega
      · simp [hxe]
    · cases h

theorem i2b_markDelivered_frame (l : List Event) (e : Env) :
    (markDelivered e l).queued = e.queued ∧ (markDelivered e l).ran = e.ran ∧
    (markDelivered e l).produced = e.produced ∧ (markDelivered e l).viol = e.viol ∧
    (markDelivered e l).pending = e.pending ∧ (markDelivered e l).present = e.present ∧
    (markDelivered e l).outstanding = e.outstanding ∧ (markDelivered e l).purged = e.purged := by
  induction l generalizing e with
  | nil => simp [markDelivered]
  | cons x l ih =>
    simp only [markDelivered, List.foldl_cons] at ih ⊢
    cases x <;> simp [ih]

/-! ### commands -/

theorem i2b_applyCmd_frame (j : Job) (cl : Cluster) (e : Env) (cmd : Cmd) :
    (applyCmd j cl e cmd).ran = e.ran ∧ (applyCmd j cl e cmd).produced = e.produced ∧
    (applyCmd j cl e cmd).pending = e.pending ∧ (applyCmd j cl e cmd).delivered = e.delivered := by
  cases cmd <;> simp [applyCmd]

theorem i2b_applyCmds_frame (j : Job) (cl : Cluster) (cmds : List Cmd) (e : Env) :
    (applyCmds j cl e cmds).ran = e.ran ∧ (applyCmds j cl e cmds).produced = e.produced ∧
    (applyCmds j cl e cmds).pending = e.pending ∧ (applyCmds j cl e cmds).delivered = e.delivered := by
  induction cmds generalizing e with
  | nil => simp [applyCmds]
  | cons x l ih =>
    have h1 := i2b_applyCmd_frame j cl e x
    have h2 := ih (applyCmd j cl e x)
    simp only [applyCmds, List.foldl_cons] at h2 ⊢
    refine ⟨by rw [h2.1, h1.1], by rw [h2.2.1, h1.2.1], by rw [h2.2.2.1, h1.2.2.1], by rw [h2.2.2.2, h1.2.2.2]⟩

/-- purging `ds` everywhere when all its consumers ran and no queued task reads it: the Tier-2 monitors stay silent -/
theorem i2b_applyCmds_purge (j : Job) (cl : Cluster) (ds : Ds) (cmds : List Cmd) (e : Env)
    (hc : ∀ cmd ∈ cmds, ∃ h, cmd = Cmd.purge h ds)
    (hran : ∀ t, t ∈ j.consumers ds → e.ran t = true)
    (hq : ∀ q, q ∈ e.queued → ds ∉ j.inputs q.2) :
    (applyCmds j cl e cmds).queued = e.queued ∧
    ∀ m, (m = "C02 input-not-produced" ∨ m = "C04 purge-before-consumer-done" ∨
        m = "C04 purge-needed-by-queued-task") → m ∉ e.viol → m ∉ (applyCmds j cl e cmds).viol := by
  induction cmds generalizing e with
  | nil => simp [applyCmds]
  | cons x l ih =>
    obtain ⟨hh, rfl⟩ := hc x (by simp)
    have hq1 : (applyCmd j cl e (.purge hh ds)).queued = e.queued := by simp [applyCmd]
    have hr1 : (applyCmd j cl e (.purge hh ds)).ran = e.ran := by simp [applyCmd]
    have h2 := ih (applyCmd j cl e (.purge hh ds)) (fun c hc' => hc c (by simp [hc']))
      (by rw [hr1]; exact hran) (by rw [hq1]; exact hq)
    simp only [applyCmds, List.foldl_cons] at h2 ⊢
    refine ⟨by rw [h2.1, hq1], ?_⟩
    intro m hm hv
    refine h2.2 m hm ?_
    rw [mem_viol_purge]
    have k1 : (j.consumers ds).all (fun t => e.ran t) = true := by
      simp only [List.all_eq_true]; exact hran
    have k2 : (!(e.queued.any (fun q => q.1.host == hh && (j.inputs q.2).contains ds))) = true := by
      simp only [Bool.not_eq_true', List.any_eq_false, Bool.and_eq_true, beq_iff_eq, List.contains_iff_mem, not_and]
      intro q hq' _
      exact hq q hq'
    rcases hm with rfl | rfl | rfl
    · simp [hv]
    · simp [hv, k1]
    · rw [k2]; simp [hv]

theorem i2b_considerPurge_required (j : Job) (c : Ctl) (ds : Ds) (h1 : ds ∈ j.ext) (h2 : c.outputs ds = none) :
    considerPurge j c ds = c := by
  unfold considerPurge
  have : j.ext.contains ds = true := by simpa using h1
  simp [h1, h2]

/-! ### the phase-only steps -/

theorem i2b_step_enter (f : Sem) (j : Job) (cl : Cluster) (s s' : Sys) (wf : WF j cl)
    (h1 : Inv1 cl s) (h2 : Inv2 j cl s) (h3 : Inv3 f j cl s) (h4 : Inv4 j cl s)
    (hs : step f j cl s .enter = some s') : Inv2 j cl s' := by
  simp only [step] at hs
  split at hs; · cases hs
  rename_i hp
  have hp' : s.phase = .top := by simpa using hp
  have htodo : s.todo = [] := h1.todo_phase (by simp [hp']) (by simp [hp']) (by simp [hp'])
  have hib : s.inbox = [] := h2.inbox_phase (by simp [hp']) (by simp [hp'])
  split at hs
  · cases hs
    exact h2.i2b_congr rfl rfl rfl rfl rfl rfl rfl (fun _ h => h) (fun _ h => h) rfl rfl rfl rfl rfl rfl
      (fun _ => Nat.le_refl _) (fun _ _ => hib) (fun _ _ hv => hv) (fun _ _ he => he)
  · cases hs
    exact h2.i2b_congr rfl (by simp [htodo]) rfl rfl rfl rfl rfl (fun _ h => h) (fun _ h => h) rfl rfl rfl rfl rfl rfl
      (fun _ => Nat.le_refl _) (fun _ _ => hib) (fun _ _ hv => hv) (fun _ _ he => he)

theorem i2b_step_endAssign (f : Sem) (j : Job) (cl : Cluster) (s s' : Sys) (wf : WF j cl)
    (h1 : Inv1 cl s) (h2 : Inv2 j cl s) (h3 : Inv3 f j cl s) (h4 : Inv4 j cl s)
    (hs : step f j cl s .endAssign = some s') : Inv2 j cl s' := by
  simp only [step] at hs
  split at hs; · cases hs
  rename_i hp
  have hp' : s.phase = .assigning := by simpa using hp
  have hib : s.inbox = [] := h2.inbox_phase (by simp [hp']) (by simp [hp'])
  cases hs
  exact h2.i2b_congr rfl rfl rfl rfl rfl rfl rfl (fun _ h => h) (fun _ h => h) rfl rfl rfl rfl rfl rfl
    (fun _ => Nat.le_refl _) (fun _ _ => hib) (fun _ _ hv => hv) (fun _ _ he => he)

theorem i2b_step_endPlan (f : Sem) (j : Job) (cl : Cluster) (s s' : Sys) (wf : WF j cl)
    (h1 : Inv1 cl s) (h2 : Inv2 j cl s) (h3 : Inv3 f j cl s) (h4 : Inv4 j cl s)
    (hs : step f j cl s .endPlan = some s') : Inv2 j cl s' := by
  simp only [step] at hs
  split at hs; · cases hs
  rename_i hc
  have hp' : s.phase = .planning := by
    simp only [bne_iff_ne, ne_eq, Bool.or_eq_true, not_or, Decidable.not_not] at hc; simpa using hc.1
  have hib : s.inbox = [] := h2.inbox_phase (by simp [hp']) (by simp [hp'])
  cases hs
  exact h2.i2b_congr rfl rfl rfl rfl rfl rfl rfl (fun _ h => h) (fun _ h => h) rfl rfl rfl rfl rfl rfl
    (fun _ => Nat.le_refl _) (fun _ _ => hib) (fun _ _ hv => hv) (fun _ _ he => he)

theorem i2b_step_endFlushF (f : Sem) (j : Job) (cl : Cluster) (s s' : Sys) (wf : WF j cl)
    (h1 : Inv1 cl s) (h2 : Inv2 j cl s) (h3 : Inv3 f j cl s) (h4 : Inv4 j cl s)
    (hs : step f j cl s .endFlushF = some s') : Inv2 j cl s' := by
  simp only [step] at hs
  split at hs; · cases hs
  rename_i hc
  have hp' : s.phase = .flushF := by
    simp only [bne_iff_ne, ne_eq, Bool.or_eq_true, not_or, Decidable.not_not] at hc; simpa using hc.1
  have hib : s.inbox = [] := h2.inbox_phase (by simp [hp']) (by simp [hp'])
  cases hs
  exact h2.i2b_congr rfl rfl rfl rfl rfl rfl rfl (fun _ h => h) (fun _ h => h) rfl rfl rfl rfl rfl rfl
    (fun _ => Nat.le_refl _) (fun _ _ => hib) (fun _ _ hv => hv) (fun _ _ he => he)

theorem i2b_step_endFlush (f : Sem) (j : Job) (cl : Cluster) (s s' : Sys) (wf : WF j cl)
    (h1 : Inv1 cl s) (h2 : Inv2 j cl s) (h3 : Inv3 f j cl s) (h4 : Inv4 j cl s)
    (hs : step f j cl s .endFlush = some s') : Inv2 j cl s' := by
  simp only [step] at hs
  split at hs; · cases hs
  rename_i hc
  have hp' : s.phase = .flushP := by
    simp only [bne_iff_ne, ne_eq, Bool.or_eq_true, not_or, Decidable.not_not] at hc; simpa using hc.1
  have hib : s.inbox = [] := h2.inbox_phase (by simp [hp']) (by simp [hp'])
  cases hs
  exact h2.i2b_congr rfl rfl rfl rfl rfl rfl rfl (fun _ h => h) (fun _ h => h) rfl rfl rfl rfl rfl rfl
    (fun _ => Nat.le_refl _) (fun _ _ => hib) (fun _ _ hv => hv) (fun _ _ he => he)

theorem i2b_step_endNotify (f : Sem) (j : Job) (cl : Cluster) (s s' : Sys) (wf : WF j cl)
    (h1 : Inv1 cl s) (h2 : Inv2 j cl s) (h3 : Inv3 f j cl s) (h4 : Inv4 j cl s)
    (hs : step f j cl s .endNotify = some s') : Inv2 j cl s' := by
  simp only [step] at hs
  split at hs; · cases hs
  rename_i hc
  have hib : s.inbox = [] := by
    simp only [bne_iff_ne, ne_eq, Bool.or_eq_true, not_or, Decidable.not_not, Bool.not_eq_true'] at hc
    simpa using hc.2
  cases hs
  exact h2.i2b_congr rfl rfl rfl rfl rfl rfl rfl (fun _ h => h) (fun _ h => h) rfl rfl rfl rfl rfl rfl
    (fun _ => Nat.le_refl _) (fun _ _ => hib) (fun _ _ hv => hv) (fun _ _ he => he)

/-! ### recv -/

theorem i2b_step_recv (f : Sem) (j : Job) (cl : Cluster) (s s' : Sys) (wf : WF j cl) (evs : List Event)
    (h1 : Inv1 cl s) (h2 : Inv2 j cl s) (h3 : Inv3 f j cl s) (h4 : Inv4 j cl s)
    (hs : step f j cl s (.recv evs) = some s') : Inv2 j cl s' := by
  simp only [step] at hs
  split at hs; · cases hs
  rename_i hc
  have hp' : s.phase = .waiting := by
    simp only [bne_iff_ne, ne_eq, Bool.or_eq_true, not_or, Decidable.not_not] at hc; simpa using hc.1
  have hib : s.inbox = [] := h2.inbox_phase (by simp [hp']) (by simp [hp'])
  split at hs
  · cases hs
  · rename_i pend htk
    cases hs
    obtain ⟨m1, m2, m3, m4, m5, _⟩ := i2b_markDelivered_frame evs { s.env with pending := pend }
    have hcnt := i2b_takeEvents_count evs s.env.pending pend htk
    refine h2.i2b_congr rfl rfl rfl rfl rfl rfl rfl (fun _ h => h) (fun _ h => h) rfl rfl rfl m2 m1 m3 ?_
      (fun hx _ => absurd rfl hx) (fun _ _ hv => by rw [m4]; exact hv) (fun _ _ he => he)
    intro e
    simp only [Sys.allEv, m5, hib, List.nil_append]
    rw [hcnt e]
    exact Nat.le_refl _

/-! ### flushF1 -/

theorem i2b_step_flushF1 (f : Sem) (j : Job) (cl : Cluster) (s s' : Sys) (wf : WF j cl)
    (h1 : Inv1 cl s) (h2 : Inv2 j cl s) (h3 : Inv3 f j cl s) (h4 : Inv4 j cl s)
    (hs : step f j cl s .flushF1 = some s') : Inv2 j cl s' := by
  simp only [step] at hs
  split at hs; · cases hs
  rename_i hc
  have hp' : s.phase = .flushF := by simpa using hc
  have hib : s.inbox = [] := h2.inbox_phase (by simp [hp']) (by simp [hp'])
  split at hs
  · cases hs
  · rename_i ds hst rest hq
    cases hs
    obtain ⟨k1, k2, _, _⟩ := h3.fetchQ_ok ds hst (by rw [hq]; simp)
    have hid : considerPurge j { s.ctl with fetchQ := rest, fetchIssued := s.ctl.fetchIssued ++ [ds] } ds =
        { s.ctl with fetchQ := rest, fetchIssued := s.ctl.fetchIssued ++ [ds] } :=
      i2b_considerPurge_required j _ ds k1 k2
    obtain ⟨e1, e2, e3, _⟩ := i2b_applyCmd_frame j cl s.env (.fetch ds hst)
    have nt := applyCmd_queued_notTask j cl s.env (.fetch ds hst) (by intro w t; simp)
    refine h2.i2b_congr (by simp) rfl (by simp) (by simp) (by simp) (by rw [hid]) (by simp)
      (by rw [hid]; exact fun _ h => h) (by simp) (by simp) (by simp) (by simp) e1 nt.1 e2 ?_
      (fun _ _ => hib) ?_ (fun _ _ he => he)
    · intro e; simp only [Sys.allEv, e3]; exact Nat.le_refl _
    · intro m hm hv
      rw [mem_viol_fetch]
      rcases hm with rfl | rfl | rfl <;> simp [hv]

/-! ### flushP1 -/

theorem i2b_step_flushP1 (f : Sem) (j : Job) (cl : Cluster) (s s' : Sys) (wf : WF j cl)
    (h1 : Inv1 cl s) (h2 : Inv2 j cl s) (h3 : Inv3 f j cl s) (h4 : Inv4 j cl s)
    (hs : step f j cl s .flushP1 = some s') : Inv2 j cl s' := by
  simp only [step] at hs
  split at hs; · cases hs
  rename_i hc
  have hp' : s.phase = .flushP := by simpa using hc
  have hib : s.inbox = [] := h2.inbox_phase (by simp [hp']) (by simp [hp'])
  split at hs
  · cases hs
  · rename_i ds rest hq
    split at hs
    · cases hs
    · rename_i e he
      cases hs
      have := purgeHosts_err _ _ _ _ _ he
      simp only [Err.raised.injEq] at this
      subst this
      refine h2.i2b_congr rfl rfl rfl rfl rfl rfl rfl (fun _ h => h) (fun _ h => h) rfl rfl rfl rfl rfl rfl
        (fun _ => Nat.le_refl _) (fun _ hx => absurd rfl hx) (fun _ _ hv => hv) ?_
      intro m hm _
      simp only [Sys.crash, ne_eq, Option.some.injEq]
      rcases hm with rfl | rfl | rfl <;> simp
    · rename_i c2 cmds hph
      cases hs
      have hcm := purgeHosts_cmds cl ds cl.hosts s.ctl c2 cmds hph
      obtain ⟨e1, e2, e3, _⟩ := i2b_applyCmds_frame j cl cmds s.env
      obtain ⟨pa, pb, pc⟩ := h2.purgeQ_ok ds (by rw [hq]; simp)
      have hran : ∀ t, t ∈ j.consumers ds → s.env.ran t = true := fun t ht => h2.done_ran t (pa t ht)
      have hqd : ∀ q, q ∈ s.env.queued → ds ∉ j.inputs q.2 := by
        intro q hq' hin
        have hnr := h2.queued_not_ran q.1 q.2 hq'
        have := hran q.2 ((i2b_mem_consumers j ds q.2).mpr hin)
        rw [hnr] at this; cases this
      obtain ⟨q1, q2⟩ := i2b_applyCmds_purge j cl ds cmds s.env hcm hran hqd
      refine h2.i2b_congr ?_ rfl ?_ ?_ ?_ ?_ ?_ ?_ ?_ ?_ ?_ ?_ e1 q1 e2 ?_ (fun _ _ => hib) q2 (fun _ _ he => he)
      · simpa using purgeHosts_ongoing _ _ _ _ _ _ hph
      · simpa using purgeHosts_doneC _ _ _ _ _ _ hph
      · simpa using purgeHosts_computable _ _ _ _ _ _ hph
      · simpa using purgeHosts_dispatched _ _ _ _ _ _ hph
      · simpa using purgeHosts_ptracked _ _ _ _ _ _ hph
      · simpa using purgeHosts_ptrack _ _ _ _ _ _ hph
      · intro d hd; rw [hq]; exact List.mem_cons_of_mem _ hd
      · intro d hd
        have := purgeHosts_outputs _ _ _ _ _ _ hph
        simpa [this] using hd
      · simpa using purgeHosts_announced _ _ _ _ _ _ hph
      · simpa using purgeHosts_tracked _ _ _ _ _ _ hph
      · simpa using purgeHosts_tracker _ _ _ _ _ _ hph
      · intro e; simp only [Sys.allEv, e3]; exact Nat.le_refl _

end EkwVerif.Ctrl
