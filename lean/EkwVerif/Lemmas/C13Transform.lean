/-
C13 — what the loop of `transform` (add the dimension to every piece, join piece after piece, squeeze a single one)
produces: an array whose position `i` along the new dimension is the result of the function for the `i`-th parameter.
-/
import EkwVerif.Lemmas.C13Val2

namespace EkwVerif.Fluent
namespace Aux

theorem find?_map_name (l : List Dim) (g : Dim → Dim) (hg : ∀ z, (g z).name = z.name) (d : String) :
    (l.map g).find? (fun z => z.name = d) = (l.find? (fun z => z.name = d)).map g := by
  induction l with
  | nil => rfl
  | cons x xs ih =>
    simp only [List.map_cons, List.find?_cons, hg x]
    by_cases h : x.name = d
    · simp [h]
    · simp [h, ih]

theorem addDim_spec (r r2 : NodeArray) (d : String) (v : Coord) (axis : Nat) (h : addDim r d v axis = .ok r2) :
    r2.node = r.node ∧ r2.findDim d = some { name := d, labels := [v], indexed := true } := by
  unfold addDim at h
  split at h
  · cases h
  · rename_i hnc
    split at h
    · cases h
    · split at h
      · cases h
      · cases h
        refine ⟨rfl, ?_⟩
        have hno : ∀ z ∈ r.dims, z.name ≠ d := by
          intro z hz heq
          apply hnc
          simp only [NodeArray.dimNames, List.contains_eq_mem, List.mem_map, decide_eq_true_eq]
          exact ⟨z, hz, heq⟩
        simp only [NodeArray.findDim, List.find?_append]
        have h1 : (r.dims.take axis).find? (fun z => z.name = d) = none := by
          apply List.find?_eq_none.mpr
          intro z hz
          simpa using hno z (List.mem_of_mem_take hz)
        simp [h1]

/-- the accumulated result after `k ≥ 1` pieces -/
structure Acc {P : Type} (f : NodeArray → P → Except Err NodeArray) (a : NodeArray) (params : List P) (dname : String)
    (values : List Coord) (k : Nat) (acc : NodeArray) : Prop where
  pos : 1 ≤ k
  dim : ∃ x, acc.findDim dname = some x ∧ x.indexed = true ∧ x.labels = values.take k ∧ x.labels.length = k
  node : ∀ ix, ix dname < k → ∃ p rp, params[ix dname]? = some p ∧ f a p = .ok rp ∧ acc.node ix = rp.node ix

theorem joinExisting_findDim (a b r : NodeArray) (d : String) (x y : Dim) (hx : a.findDim d = some x) (hxi : x.indexed = true)
    (h : joinExisting a b d x y = .ok r) : r.findDim d = some { x with labels := x.labels ++ y.labels } := by
  unfold joinExisting at h
  split at h
  · cases h
  · split at h
    · cases h
    · split at h
      · cases h
      · cases h
        simp only [NodeArray.findDim]
        rw [find?_map_name _ _ (by intro z; split <;> rfl)]
        have hm : (mergeDims a.dims b.dims).find? (fun z => z.name = d) = some x := by
          unfold mergeDims
          rw [find?_map_name]
          · have : a.dims.find? (fun z => z.name = d) = some x := hx
            rw [this]
            simp only [Option.map_some, hxi, ↓reduceIte]
            congr 1
            split <;> rfl
          · intro z
            split
            · rename_i y' hf
              have hyn : y'.name = z.name := by simpa using List.find?_some hf
              split
              · rfl
              · split
                · exact hyn
                · rfl
            · rfl
        rw [hm]
        have hxn : x.name = d := (findDim_mem hx).2
        simp [hxn, hxi]

theorem transformLoop_acc {P : Type} (f : NodeArray → P → Except Err NodeArray) (a : NodeArray) (params : List P)
    (dname : String) (values : List Coord) (axis : Nat)
    (hp : ∀ p rp, p ∈ params → f a p = .ok rp → rp.hasCoord dname = false ∧ Indep rp dname) :
    ∀ (ps : List P) (index : Nat) (res : Option NodeArray) (out : Option NodeArray),
      (∀ j p, ps[j]? = some p → params[index + j]? = some p) →
      (match res with | none => index = 0 | some acc => Acc f a params dname values index acc) →
      transformLoop f dname values axis a ps index res = .ok out →
      ∀ acc, out = some acc → Acc f a params dname values (index + ps.length) acc := by
  intro ps
  induction ps with
  | nil =>
    intro index res out _ hres h
    simp only [transformLoop] at h
    cases h
    intro acc hacc
    subst hacc
    simpa using hres
  | cons p ps ih =>
    intro index res out hsub hres h
    rw [transformLoop_cons] at h
    have hpin : params[index]? = some p := by simpa using hsub 0 p (by simp)
    have hpm : p ∈ params := List.mem_of_getElem? hpin
    cases hr : f a p with
    | error e => simp [hr, bind, Except.bind] at h
    | ok r =>
      obtain ⟨hnc, hind⟩ := hp p r hpm hr
      simp only [hr, bind, Except.bind] at h
      cases hr2 : stepDim dname values axis index r with
      | error e => simp [hr2] at h
      | ok r2 =>
        simp only [hr2] at h
        -- the piece got the dimension, with the `index`-th label
        obtain ⟨v, hv, hnode2, hfd2⟩ : ∃ v, values[index]? = some v ∧ r2.node = r.node ∧
            r2.findDim dname = some { name := dname, labels := [v], indexed := true } := by
          unfold stepDim at hr2
          simp only [hnc, Bool.false_eq_true, ↓reduceIte] at hr2
          cases hv : values[index]? with
          | none => simp [hv] at hr2
          | some v =>
            simp only [hv] at hr2
            obtain ⟨h1, h2⟩ := addDim_spec r r2 dname v axis hr2
            exact ⟨v, rfl, h1, h2⟩
        cases hres' : stepJoin dname res r2 with
        | error e => simp [hres'] at h
        | ok res' =>
          simp only [hres'] at h
          have hlen : index + (p :: ps).length = (index + 1) + ps.length := by simp; omega
          rw [hlen]
          apply ih (index + 1) (some res') out _ _ h
          · intro j q hq
            have := hsub (j + 1) q (by simpa using hq)
            rw [show index + 1 + j = index + (j + 1) by omega]
            exact this
          · -- the invariant after this piece
            unfold stepJoin at hres'
            cases res with
            | none =>
              simp only [pure, Except.pure] at hres'
              cases hres'
              have h0 : index = 0 := hres
              subst h0
              refine ⟨by omega, ⟨_, hfd2, rfl, ?_, rfl⟩, ?_⟩
              · simp [List.take_one, List.head?_eq_getElem?, hv]
              · intro ix hix
                have : ix dname = 0 := by omega
                exact ⟨p, r, by rw [this]; exact hpin, hr, by rw [hnode2]⟩
            | some acc =>
              have hacc : Acc f a params dname values index acc := hres
              obtain ⟨x, hx, hxi, hxl, hxlen⟩ := hacc.dim
              simp only [join, Bool.false_eq_true, ↓reduceIte] at hres'
              have hnode := joinCore_node acc r2 res' (.name dname) hres'
              simp only [DimArg.dimName, hx, hfd2] at hnode
              have hje : joinExisting acc r2 dname x { name := dname, labels := [v], indexed := true } = .ok res' := by
                simpa [joinCore, DimArg.dimName, hx, hfd2] using hres'
              have hfd := joinExisting_findDim acc r2 res' dname x _ hx hxi hje
              refine ⟨by omega, ⟨_, hfd, hxi, ?_, ?_⟩, ?_⟩
              · simp only [hxl]
                rw [List.take_add_one, hv]
                simp
              · simp [hxlen]
              · intro ix hix
                rw [hnode ix, hxlen]
                by_cases hlt : ix dname < index
                · simp only [hlt, ↓reduceIte]
                  exact hacc.node ix hlt
                · simp only [hlt, ↓reduceIte]
                  have hie : ix dname = index := by omega
                  refine ⟨p, r, by rw [hie]; exact hpin, hr, ?_⟩
                  rw [hnode2, hind]

end Aux
end EkwVerif.Fluent
