/-
Tier 3 of the controller invariant (`Inv3`): preservation by every step constructor.
The proofs are in `CtrlInv3A` (helpers, `i3_init`, phase-only steps), `CtrlInv3B` (`assign`,
`plan1`, `flushF1`, `flushP1`, `recv`) and `CtrlInv3C` (`notify1`, `env`); this file assembles
them into one theorem over all steps.
-/
import EkwVerif.Lemmas.CtrlInv3C

namespace EkwVerif.Ctrl

theorem i3_step (f : Sem) (j : Job) (cl : Cluster) (s s' : Sys) (st : Step) (wf : WF j cl)
    (h1 : Inv1 cl s) (h2 : Inv2 j cl s) (h3 : Inv3 f j cl s) (h4 : Inv4 j cl s)
    (hs : step f j cl s st = some s') : Inv3 f j cl s' := by
  cases st with
  | enter => exact i3_step_enter f j cl s s' wf h1 h2 h3 h4 hs
  | assign a => exact i3_step_assign f j cl s s' wf a h1 h2 h3 h4 hs
  | endAssign => exact i3_step_endAssign f j cl s s' wf h1 h2 h3 h4 hs
  | plan1 => exact i3_step_plan1 f j cl s s' wf h1 h2 h3 h4 hs
  | endPlan => exact i3_step_endPlan f j cl s s' wf h1 h2 h3 h4 hs
  | flushF1 => exact i3_step_flushF1 f j cl s s' wf h1 h2 h3 h4 hs
  | endFlushF => exact i3_step_endFlushF f j cl s s' wf h1 h2 h3 h4 hs
  | flushP1 => exact i3_step_flushP1 f j cl s s' wf h1 h2 h3 h4 hs
  | endFlush => exact i3_step_endFlush f j cl s s' wf h1 h2 h3 h4 hs
  | recv evs => exact i3_step_recv f j cl s s' wf evs h1 h2 h3 h4 hs
  | notify1 => exact i3_step_notify1 f j cl s s' wf h1 h2 h3 h4 hs
  | endNotify => exact i3_step_endNotify f j cl s s' wf h1 h2 h3 h4 hs
  | env es => exact i3_step_env f j cl s s' wf es h1 h2 h3 h4 hs

end EkwVerif.Ctrl
