/-
Lemmas for C07 "the purge waits for EVERY job in flight": `wait(futs_in_progress.values(), ALL_COMPLETED)`
(`waitAll`) runs the job of every pending entry of `futs_in_progress` to its end — however many entries there
are, whatever their keys, whatever stage each job is at, whatever order the scheduler oracle picks — and every
such job reports on its way out (`ended`); the purge event comes after all of that (`handleAll_purge_log`).
-/
import EkwVerif.Lemmas.TransferProg
namespace EkwVerif.Transfer
namespace Aux

/-- the pool job of future key `k` on host `h` has come to its end: what it reports on its way out
(`Props/C07.lean : jobEnded` is this definition) -/
def ended (h : Nat) (k : Key) (evs : List Event) : Prop :=
  match k with
  | .cmd c => (∃ b f, Event.sent h c b f ∈ evs) ∨ Event.sendFail h c ∈ evs
  | .pay p => Event.announced h p.ds p.confirmIdx ∈ evs ∨ Event.redundant h p.ds p.confirmIdx ∈ evs ∨
              ∃ st, Event.storeFail h p.ds p.confirmIdx st ∈ evs

theorem ended_mono (h : Nat) (k : Key) {a b : List Event} (hsub : ∀ e ∈ a, e ∈ b) (he : ended h k a) :
    ended h k b := by
  cases k with
  | cmd c =>
    rcases he with ⟨x, f, hm⟩ | hm
    · exact Or.inl ⟨x, f, hsub _ hm⟩
    · exact Or.inr (hsub _ hm)
  | pay p =>
    rcases he with hm | hm | ⟨st, hm⟩
    · exact Or.inl (hsub _ hm)
    · exact Or.inr (Or.inl (hsub _ hm))
    · exact Or.inr (Or.inr ⟨st, hsub _ hm⟩)

theorem ended_append_left (h : Nat) (k : Key) (a b : List Event) (he : ended h k b) : ended h k (a ++ b) :=
  ended_mono h k (fun _ hm => List.mem_append_right a hm) he

theorem ended_append_right (h : Nat) (k : Key) (a b : List Event) (he : ended h k a) : ended h k (a ++ b) :=
  ended_mono h k (fun _ hm => List.mem_append_left b hm) he

/-! ### what one fault-free stage of a job writes to the log -/

theorem sendOpen_none_log (h : Nat) (c : Cmd) (w : World) :
    ∃ evs, (sendOpen h c .none w).1.log = evs ++ w.log ∧
      ((sendOpen h c .none w).2 = false → Event.sendFail h c ∈ evs) := by
  unfold sendOpen
  split
  · exact ⟨[.sendFail h c], rfl, fun _ => by simp⟩
  · split
    · exact ⟨[.sendFail h c], rfl, fun _ => by simp⟩
    · split
      · exact ⟨[.sendFail h c], rfl, fun _ => by simp⟩
      · exact ⟨[], rfl, fun hh => by cases hh⟩

theorem sendData_none_log (h : Nat) (c : Cmd) (w : World) :
    ∃ evs, (sendData h c .none w).1.log = evs ++ w.log ∧
      ((∃ b f, Event.sent h c b f ∈ evs) ∨ Event.sendFail h c ∈ evs) := by
  unfold sendData
  split
  · exact ⟨[.sendFail h c], rfl, Or.inr (by simp)⟩
  · rename_i b f _
    split
    · exact ⟨[.sendFail h c], rfl, Or.inr (by simp)⟩
    · exact ⟨[.sent h c b f], rfl, Or.inl ⟨b, f, by simp⟩⟩

theorem storeStep_none_log (h : Nat) (p : Payload) (st : Nat) (w : World) :
    ∃ evs, (storeStep h p st .none w).1.log = evs ++ w.log ∧
      ((storeStep h p st .none w).2 = none →
        Event.announced h p.ds p.confirmIdx ∈ evs ∨ Event.redundant h p.ds p.confirmIdx ∈ evs) := by
  unfold storeStep
  simp only
  split
  · split
    · rename_i hh; cases hh
    · split
      · exact ⟨[.redundant h p.ds p.confirmIdx], rfl, fun _ => Or.inr (by simp)⟩
      · exact ⟨[], rfl, fun hh => by cases hh⟩
  · split
    · rename_i hh; cases hh
    · exact ⟨[.stored h p.ds p.confirmIdx p.value p.deser], rfl, fun hh => by cases hh⟩
  · split
    · rename_i hh; cases hh
    · exact ⟨[.announced h p.ds p.confirmIdx], rfl, fun _ => Or.inl (by simp)⟩

/-- one fault-free stage of the job of a pending entry: only that entry is replaced (same key), the log grows,
and the job is either nearer to its end or finished — and then it has reported -/
theorem stepAt_none_log (h i : Nat) (w : World) (key : Key) (st : Nat)
    (hc : (w.hosts h).crashed = false) (hget : (w.hosts h).futs[i]? = some ⟨key, st, none⟩) :
    ∃ evs st' r', (stepAt h i .none w).log = evs ++ w.log ∧
      ((stepAt h i .none w).hosts h).futs = (w.hosts h).futs.set i ⟨key, st', r'⟩ ∧
      ((stepAt h i .none w).hosts h).crashed = false ∧
      (r' = none → rem key st' < rem key st) ∧ (r'.isSome = true → ended h key evs) := by
  unfold stepAt
  simp only [hc, Bool.false_eq_true, if_false]
  cases key with
  | cmd c =>
    simp only [hget]
    split
    · rename_i h0
      obtain ⟨evs, hl, hf⟩ := sendOpen_none_log h c w
      refine ⟨evs, if (sendOpen h c .none w).2 then 1 else 0,
        if (sendOpen h c .none w).2 then none else some (.ok w.now), ?_, ?_, ?_, ?_, ?_⟩
      · simpa [World.setFut, World.setHost] using hl
      · simp [World.setFut, World.setHost, sendOpen_futs]
      · simp [World.setFut, World.setHost, sendOpen_crashed, hc]
      · intro hr
        split at hr
        · rename_i hb; simp [hb, h0, rem]
        · cases hr
      · intro hr
        cases hb : (sendOpen h c .none w).2 with
        | true => simp [hb] at hr
        | false => exact Or.inr (hf hb)
    · obtain ⟨evs, hl, hf⟩ := sendData_none_log h c w
      refine ⟨evs, st, some (sendData h c .none w).2, ?_, ?_, ?_, ?_, ?_⟩
      · simpa [World.setFut, World.setHost] using hl
      · simp [World.setFut, World.setHost, sendData_futs]
      · simp [World.setFut, World.setHost, sendData_crashed, hc]
      · intro hr; cases hr
      · intro _; exact hf
  | pay p =>
    simp only [hget]
    obtain ⟨evs, hl, hf⟩ := storeStep_none_log h p st w
    refine ⟨evs, (storeStep h p st .none w).2.getD st,
      if (storeStep h p st .none w).2.isSome then none else some (.ok w.now), ?_, ?_, ?_, ?_, ?_⟩
    · simpa [World.setFut, World.setHost] using hl
    · simp [World.setFut, World.setHost, storeStep_futs]
    · simp [World.setFut, World.setHost, storeStep_crashed, hc]
    · intro hr
      cases hn : (storeStep h p st .none w).2 with
      | none => simp [hn] at hr
      | some n => simp only [Option.getD_some]; exact storeStep_next h p st n .none w hn
    · intro hr
      cases hn : (storeStep h p st .none w).2 with
      | none =>
        rcases hf hn with hm | hm
        · exact Or.inl hm
        · exact Or.inr (Or.inl hm)
      | some n => simp [hn] at hr

theorem stepN_finished (h i : Nat) (n : Nat) (w : World) (key : Key) (st : Nat) (r : Res)
    (hget : (w.hosts h).futs[i]? = some ⟨key, st, some r⟩) : stepN h i n w = w := by
  induction n with
  | zero => rfl
  | succ n ih => simp only [stepN, stepAt_finished h i .none w key st r hget]; exact ih

/-- `n` fault-free stages (enough to finish) of the job of entry `i`: the entry ends with a result, nothing else
in `futs_in_progress` moves, and if the job was still running it has reported its end in the new events -/
theorem stepN_ended (h i : Nat) (n : Nat) (w : World) (key : Key) (st : Nat)
    (hc : (w.hosts h).crashed = false) (hget : (w.hosts h).futs[i]? = some ⟨key, st, none⟩)
    (hrem : rem key st ≤ n) :
    ∃ evs st' r', (stepN h i n w).log = evs ++ w.log ∧ ended h key evs ∧
      ((stepN h i n w).hosts h).futs = (w.hosts h).futs.set i ⟨key, st', some r'⟩ ∧
      ((stepN h i n w).hosts h).crashed = false := by
  have hlt : i < (w.hosts h).futs.length := by
    rcases Nat.lt_or_ge i (w.hosts h).futs.length with hh | hh
    · exact hh
    · rw [List.getElem?_eq_none hh] at hget; cases hget
  induction n generalizing w st with
  | zero =>
    have hpos : 0 < rem key st := by cases key <;> simp [rem] <;> (try split) <;> omega
    omega
  | succ n ih =>
    obtain ⟨evs, st', r', hl, hf, hc', hr', he⟩ := stepAt_none_log h i w key st hc hget
    have hget' : ((stepAt h i .none w).hosts h).futs[i]? = some ⟨key, st', r'⟩ := by
      rw [hf]; exact List.getElem?_set_self hlt
    have hlt' : i < ((stepAt h i .none w).hosts h).futs.length := by rw [hf]; simpa using hlt
    cases r' with
    | none =>
      obtain ⟨evs2, s2, r2, hl2, he2, hf2, hc2⟩ := ih (stepAt h i .none w) st' hc' hget'
        (by have := hr' rfl; omega) hlt'
      refine ⟨evs2 ++ evs, s2, r2, ?_, ended_append_right h key _ _ he2, ?_, hc2⟩
      · simp only [stepN]; rw [hl2, hl, List.append_assoc]
      · simp only [stepN]; rw [hf2, hf, List.set_set]
    | some r =>
      have hfin : stepN h i n (stepAt h i .none w) = stepAt h i .none w := stepN_finished h i n _ key st' r hget'
      refine ⟨evs, st', r, ?_, he rfl, ?_, ?_⟩
      · simp only [stepN]; rw [hfin, hl]
      · simp only [stepN]; rw [hfin, hf]
      · simp only [stepN]; rw [hfin]; exact hc'

/-- `runChoice` on a live host with something pending: ONE pending entry `j` (the scheduler's choice) gets its
result, with the job's report in the new events; every other entry is untouched -/
theorem runChoice_ended (h c : Nat) (w : World) (hc : (w.hosts h).crashed = false)
    (hn : nPending (w.hosts h).futs ≠ 0) :
    ∃ j key st st' r' evs, (w.hosts h).futs[j]? = some ⟨key, st, none⟩ ∧
      ((runChoice h c w).hosts h).futs = (w.hosts h).futs.set j ⟨key, st', some r'⟩ ∧
      (runChoice h c w).log = evs ++ w.log ∧ ended h key evs ∧
      ((runChoice h c w).hosts h).crashed = false := by
  unfold runChoice
  simp only [hn, if_false]
  have hlt : c % nPending (w.hosts h).futs < nPending (w.hosts h).futs := Nat.mod_lt _ (Nat.pos_of_ne_zero hn)
  obtain ⟨i, key, st, hi, hg⟩ := pendingIdx_some _ _ hlt
  rw [hi]
  simp only
  rw [runAt_eq]
  obtain ⟨evs, st', r', hl, he, hf, hc'⟩ := stepN_ended h i 3 w key st hc hg (rem_le key st)
  exact ⟨i, key, st, st', r', evs, hg, hf, hl, he, hc'⟩

theorem no_pending (fs : List Fut) (h0 : nPending fs = 0) (i : Nat) (key : Key) (st : Nat)
    (hg : fs[i]? = some ⟨key, st, none⟩) : False := by
  have hmem : (⟨key, st, none⟩ : Fut) ∈ fs.filter (fun f => f.result.isNone) :=
    List.mem_filter.mpr ⟨List.mem_of_getElem? hg, rfl⟩
  unfold nPending at h0
  rw [List.length_eq_zero_iff.mp h0] at hmem
  cases hmem

/-- **`wait(futs_in_progress.values(), ALL_COMPLETED)` waits for every one of them**: every entry that was
pending when the wait began — any number of them, any key, any stage, whatever order the scheduler picks — has
reported the end of its job in the events the wait added to the log -/
theorem waitAll_ended (h : Nat) (fuel : Nat) (sched : List Nat) (w : World) (hc : (w.hosts h).crashed = false)
    (hf : nPending (w.hosts h).futs ≤ fuel) :
    ∃ evs, (waitAll h fuel sched w).1.log = evs ++ w.log ∧
      ∀ (i : Nat) (key : Key) (st : Nat), (w.hosts h).futs[i]? = some (⟨key, st, none⟩ : Fut) → ended h key evs := by
  induction fuel generalizing sched w with
  | zero =>
    refine ⟨[], rfl, ?_⟩
    intro i key st hg
    exact (no_pending _ (by omega) i key st hg).elim
  | succ n ih =>
    unfold waitAll
    split
    · rename_i h0
      refine ⟨[], rfl, ?_⟩
      intro i key st hg
      exact (no_pending _ h0 i key st hg).elim
    · rename_i h0
      obtain ⟨j, kj, sj, sj', rj, evs0, hgj, hfj, hl0, he0, hc0⟩ := runChoice_ended h (sched.headD 0) w hc h0
      have hp := (runChoice_pending h (sched.headD 0) w hc h0).1
      obtain ⟨evs1, hl1, hall⟩ := ih sched.tail (runChoice h (sched.headD 0) w) hc0 (by omega)
      refine ⟨evs1 ++ evs0, ?_, ?_⟩
      · rw [hl1, hl0, List.append_assoc]
      · intro i key st hg
        by_cases hij : i = j
        · subst hij
          rw [hgj] at hg
          injection hg with hg
          injection hg with hk _ _
          subst hk
          exact ended_append_left h _ _ _ he0
        · have hg' : ((runChoice h (sched.headD 0) w).hosts h).futs[i]? = some ⟨key, st, none⟩ := by
            rw [hfj, List.getElem?_set_ne (fun hh => hij hh.symm)]; exact hg
          exact ended_append_right h _ _ _ (hall i key st hg')

/-! ### the pool and `maybe_clean` never issue an shm purge: the `purged` event after the wait is the first one -/

def isPurged : Event → Bool
  | .purged _ _ _ => true
  | _ => false

/-- number of shm purge requests in a trace -/
def purgeCnt (log : List Event) : Nat := log.countP isPurged

theorem sendOpen_purgeCnt (h : Nat) (c : Cmd) (flt : Fault) (w : World) :
    purgeCnt (sendOpen h c flt w).1.log = purgeCnt w.log := by
  unfold sendOpen
  repeat' split
  all_goals simp [World.report, World.emit, World.setHost, purgeCnt, isPurged]

theorem sendData_purgeCnt (h : Nat) (c : Cmd) (flt : Fault) (w : World) :
    purgeCnt (sendData h c flt w).1.log = purgeCnt w.log := by
  unfold sendData
  repeat' split
  all_goals simp [World.report, World.emit, World.setHost, purgeCnt, isPurged]

theorem storeStep_purgeCnt (h : Nat) (p : Payload) (st : Nat) (flt : Fault) (w : World) :
    purgeCnt (storeStep h p st flt w).1.log = purgeCnt w.log := by
  unfold storeStep
  simp only
  repeat' split
  all_goals simp [World.report, World.emit, World.setHost, purgeCnt, isPurged]

theorem stepAt_purgeCnt (h i : Nat) (flt : Fault) (w : World) : purgeCnt (stepAt h i flt w).log = purgeCnt w.log := by
  unfold stepAt
  split
  · rfl
  · split
    · split
      · exact sendOpen_purgeCnt h _ flt w
      · exact sendData_purgeCnt h _ flt w
    · exact storeStep_purgeCnt h _ _ flt w
    · rfl

theorem runChoice_purgeCnt (h c : Nat) (w : World) : purgeCnt (runChoice h c w).log = purgeCnt w.log := by
  unfold runChoice
  simp only
  split
  · rfl
  · split
    · rfl
    · simp only [runAt, stepAt_purgeCnt]

theorem waitAll_purgeCnt (h : Nat) (fuel : Nat) (sched : List Nat) (w : World) :
    purgeCnt (waitAll h fuel sched w).1.log = purgeCnt w.log := by
  induction fuel generalizing sched w with
  | zero => rfl
  | succ n ih =>
    unfold waitAll
    split
    · rfl
    · rw [ih, runChoice_purgeCnt]

theorem futFail_purgeCnt (h : Nat) (ks : List Key) : purgeCnt (ks.map (Event.futFail h)).reverse = 0 := by
  unfold purgeCnt
  rw [List.countP_eq_zero]
  intro e he
  rw [List.mem_reverse, List.mem_map] at he
  obtain ⟨k, _, hk⟩ := he
  subst hk
  simp [isPurged]

theorem cleanAll_purgeCnt (h : Nat) (w : World) : purgeCnt (cleanAll h w).log = purgeCnt w.log := by
  unfold cleanAll
  split
  · rfl
  · have := futFail_purgeCnt h (cleanFails (w.hosts h).futs)
    simp only [purgeCnt] at this ⊢
    simp only [List.countP_append, this, Nat.zero_add]

theorem maybeClean_purgeCnt (h : Nat) (fuel : Nat) (sched : List Nat) (w : World) :
    purgeCnt (maybeClean h fuel sched w).1.log = purgeCnt w.log := by
  induction fuel generalizing sched w with
  | zero => exact cleanAll_purgeCnt h w
  | succ n ih =>
    unfold maybeClean
    simp only
    split
    · exact cleanAll_purgeCnt h w
    · rw [ih, runChoice_purgeCnt, cleanAll_purgeCnt]

theorem nopurge_of_cnt (pre base : List Event) (hcnt : purgeCnt (pre ++ base) = purgeCnt base) :
    ∀ h d k, Event.purged h d k ∉ pre := by
  unfold purgeCnt at hcnt
  rw [List.countP_append] at hcnt
  have h0 : pre.countP isPurged = 0 := by omega
  rw [List.countP_eq_zero] at h0
  intro h d k hm
  exact h0 _ hm rfl

/-- the message loop standing at a purge: the log it produces is `post ++ purged h ds 0 :: pre ++ w.log`, where
`pre` (everything between the start of the wait and the shm purge) holds the end-of-job report of EVERY future
that was pending, and the purge is issued with no future left (`0`) -/
theorem handleAll_purge_log (w : World) (h ds : Nat) (rest : List Msg) (fuel : Nat) (sched : List Nat)
    (hc : (w.hosts h).crashed = false) (hi : (w.hosts h).inbox = .purge ds :: rest) :
    ∃ pre post, (handleAll h (fuel + 1) sched w).1.log = post ++ Event.purged h ds 0 :: (pre ++ w.log) ∧
      (∀ f ∈ (w.hosts h).futs, f.result = none → ended h f.key pre) ∧
      ∀ h' d k, Event.purged h' d k ∉ pre := by
  simp only [handleAll, hc, Bool.false_eq_true, if_false, hi, purgeWait_eq]
  obtain ⟨e1, hl1, hall⟩ := waitAll_ended h (w.hosts h).futs.length sched w hc (nPending_le_length _)
  have hw := waitAll_done h (w.hosts h).futs.length sched w hc (nPending_le_length _)
  have hnil := mclean_nil h (waitAll h (w.hosts h).futs.length sched w).2 _ hw.2 hw.1
  have hwa := waitAll_io h (w.hosts h).futs.length sched w h
  have hpa := waitAll_purgeCnt h (w.hosts h).futs.length sched w
  generalize hra : waitAll h (w.hosts h).futs.length sched w = ra at hl1 hw hnil hwa hpa
  obtain ⟨e2, hl2⟩ := log_grows_mstar (mclean_mstar h ra.2 ra.1)
  have hpb := maybeClean_purgeCnt h (ra.1.hosts h).futs.length ra.2 ra.1
  have hmb := maybeClean_io h (ra.1.hosts h).futs.length ra.2 ra.1 h
  have hmc := maybeClean_crashed h (ra.1.hosts h).futs.length ra.2 ra.1 h
  have hrb' : maybeClean h (ra.1.hosts h).futs.length ra.2 ra.1 = mclean h ra.2 ra.1 := rfl
  rw [hrb'] at hmb hmc hpb
  generalize hrb : mclean h ra.2 ra.1 = rb at hnil hl2 hmb hmc hpb
  have hib : (rb.1.hosts h).inbox = .purge ds :: rest := hmb.2.1.trans (hwa.2.1.trans hi)
  have hcb : (rb.1.hosts h).crashed = false := hmc.trans (hwa.2.2.trans hc)
  have hhead : (handleHead h rb.1).log = Event.purged h ds 0 :: rb.1.log := by
    simp [handleHead, hcb, hib, handleMsg, purgeAct, World.setHost, World.emit, hnil, inProgress]
  obtain ⟨post, hl3⟩ := log_grows_mstar (handleAll_mstar h fuel rb.2 (handleHead h rb.1))
  refine ⟨e2 ++ e1, post, ?_, ?_, ?_⟩
  · rw [hl3, hhead, hl2, hl1, List.append_assoc]
  · intro f hf hr
    obtain ⟨i, hg⟩ := List.getElem?_of_mem hf
    obtain ⟨fk, fs, fr⟩ := f
    simp only at hr
    subst hr
    exact ended_append_left h _ _ _ (hall i fk fs hg)
  · apply nopurge_of_cnt (e2 ++ e1) w.log
    rw [List.append_assoc, ← hl1, ← hl2, hpb, hpa]

/-! ### one whole iteration: the initial `maybe_clean` loses no pending job either -/

theorem cleanList_keeps (fs : List Fut) (aw : List (Nat × Cmd × Option Nat)) (f : Fut) (hm : f ∈ fs)
    (hr : f.result = none) : f ∈ (cleanList fs aw).2 := by
  induction fs generalizing aw with
  | nil => cases hm
  | cons g gs ih =>
    unfold cleanList
    rcases List.mem_cons.mp hm with heq | hm'
    · subst heq
      simp [hr]
    · split
      · exact List.mem_cons_of_mem _ (ih _ hm')
      · exact ih _ hm'
      · split <;> exact ih _ hm'

theorem cleanAll_keeps (h : Nat) (w : World) (hc : (w.hosts h).crashed = false) :
    ∃ evs, (cleanAll h w).log = evs ++ w.log ∧ ((cleanAll h w).hosts h).crashed = false ∧
      ∀ f ∈ (w.hosts h).futs, f.result = none → f ∈ ((cleanAll h w).hosts h).futs := by
  obtain ⟨evs, hl⟩ := log_grows_mstar (MStar.single (MStep.clean h w))
  refine ⟨evs, hl, (cleanAll_crashed h w h).trans hc, ?_⟩
  intro f hm hr
  have : ((cleanAll h w).hosts h).futs = (cleanList (w.hosts h).futs (w.hosts h).awaiting).2 := by
    simp [cleanAll, hc, World.setHost]
  rw [this]
  exact cleanList_keeps _ _ f hm hr

theorem runChoice_keeps (h c : Nat) (w : World) (hc : (w.hosts h).crashed = false) :
    ∃ evs, (runChoice h c w).log = evs ++ w.log ∧ ((runChoice h c w).hosts h).crashed = false ∧
      ∀ f ∈ (w.hosts h).futs, f.result = none → f ∈ ((runChoice h c w).hosts h).futs ∨ ended h f.key evs := by
  by_cases hn : nPending (w.hosts h).futs = 0
  · have : runChoice h c w = w := by simp [runChoice, hn]
    rw [this]
    exact ⟨[], rfl, hc, fun f hm _ => Or.inl hm⟩
  · obtain ⟨j, kj, sj, sj', rj, evs, hgj, hfj, hl, he, hc'⟩ := runChoice_ended h c w hc hn
    refine ⟨evs, hl, hc', ?_⟩
    intro f hm hr
    obtain ⟨i, hg⟩ := List.getElem?_of_mem hm
    by_cases hij : i = j
    · subst hij
      rw [hgj] at hg
      injection hg with hg
      subst hg
      exact Or.inr he
    · left
      have hg' : ((runChoice h c w).hosts h).futs[i]? = some f := by
        rw [hfj, List.getElem?_set_ne (fun hh => hij hh.symm)]; exact hg
      exact List.mem_of_getElem? hg'

theorem maybeClean_keeps (h : Nat) (fuel : Nat) (sched : List Nat) (w : World) (hc : (w.hosts h).crashed = false) :
    ∃ evs, (maybeClean h fuel sched w).1.log = evs ++ w.log ∧
      ∀ f ∈ (w.hosts h).futs, f.result = none →
        f ∈ ((maybeClean h fuel sched w).1.hosts h).futs ∨ ended h f.key evs := by
  induction fuel generalizing sched w with
  | zero =>
    obtain ⟨evs, hl, _, hk⟩ := cleanAll_keeps h w hc
    exact ⟨evs, hl, fun f hm hr => Or.inl (hk f hm hr)⟩
  | succ n ih =>
    obtain ⟨e0, hl0, hc0, hk0⟩ := cleanAll_keeps h w hc
    unfold maybeClean
    simp only
    split
    · exact ⟨e0, hl0, fun f hm hr => Or.inl (hk0 f hm hr)⟩
    · obtain ⟨e1, hl1, hc1, hk1⟩ := runChoice_keeps h (sched.headD 0) (cleanAll h w) hc0
      obtain ⟨e2, hl2, hk2⟩ := ih sched.tail (runChoice h (sched.headD 0) (cleanAll h w)) hc1
      refine ⟨e2 ++ (e1 ++ e0), ?_, ?_⟩
      · rw [hl2, hl1, hl0]; simp [List.append_assoc]
      · intro f hm hr
        rcases hk1 f (hk0 f hm hr) hr with hm1 | he1
        · rcases hk2 f hm1 hr with hm2 | he2
          · exact Or.inl hm2
          · exact Or.inr (ended_append_right h _ _ _ he2)
        · exact Or.inr (ended_append_left h _ _ _ (ended_append_right h _ _ _ he1))

/-- one iteration of a live data server whose socket holds exactly a purge of `ds`: the iteration's events are
`post ++ purged h ds 0 :: pre`, and `pre` holds the end-of-job report of every future that was pending when the
iteration began (whether the initial `maybe_clean` or the purge's `wait` ran it) -/
theorem tick_purge_log (h ds : Nat) (sched : List Nat) (w : World)
    (hc : (w.hosts h).crashed = false) (hs : (w.hosts h).sock = [Frame.plain h (Msg.purge ds)])
    (hi : (w.hosts h).inbox = []) :
    ∃ pre post, (tick h [] sched w).log = post ++ Event.purged h ds 0 :: (pre ++ w.log) ∧
      (∀ f ∈ (w.hosts h).futs, f.result = none → ended h f.key pre) ∧
      ∀ h' d k, Event.purged h' d k ∉ pre := by
  unfold tick
  simp only [feed, hc, Bool.false_eq_true, if_false]
  obtain ⟨e0, hl0, hk0⟩ := maybeClean_keeps h (w.hosts h).futs.length sched w hc
  have hio := maybeClean_io h (w.hosts h).futs.length sched w h
  have hcr := maybeClean_crashed h (w.hosts h).futs.length sched w h
  have hp0 := maybeClean_purgeCnt h (w.hosts h).futs.length sched w
  generalize hr1 : mclean h sched w = r1
  unfold mclean at hr1
  rw [hr1] at hio hcr hl0 hk0 hp0
  have hs1 : (r1.1.hosts h).sock = [Frame.plain h (Msg.purge ds)] := hio.1.trans hs
  have hi1 : (r1.1.hosts h).inbox = [] := hio.2.1.trans hi
  have hc1 : (r1.1.hosts h).crashed = false := hcr.trans hc
  unfold tickRest
  have hrecv : recvAll h ((r1.1.hosts h).sock.length + 1) r1.1 =
      r1.1.setHost h { r1.1.hosts h with sock := [], inbox := [Msg.purge ds] } := by
    simp [hs1, hi1, hc1, recvAll, recvOne, World.setHost]
  simp only [hrecv]
  generalize hw2 : r1.1.setHost h { r1.1.hosts h with sock := [], inbox := [Msg.purge ds] } = w2
  have hi2 : (w2.hosts h).inbox = [Msg.purge ds] := by rw [← hw2]; simp [World.setHost]
  have hc2 : (w2.hosts h).crashed = false := by rw [← hw2]; simp [World.setHost, hc1]
  have hf2 : (w2.hosts h).futs = (r1.1.hosts h).futs := by rw [← hw2]; simp [World.setHost]
  have hlog2 : w2.log = r1.1.log := by rw [← hw2]; rfl
  obtain ⟨pre1, post1, hl1, hall, hnp1⟩ := handleAll_purge_log w2 h ds [] 0 r1.2 hc2 hi2
  have hnp : ∀ h' d k, Event.purged h' d k ∉ pre1 ++ e0 := by
    intro h' d k hm
    rcases List.mem_append.mp hm with hm | hm
    · exact hnp1 h' d k hm
    · exact nopurge_of_cnt e0 w.log (by rw [← hl0, hp0]) h' d k hm
  have hlen : (w2.hosts h).inbox.length = 0 + 1 := by rw [hi2]; rfl
  rw [hlen]
  have hpre : ∀ f ∈ (w.hosts h).futs, f.result = none → ended h f.key (pre1 ++ e0) := by
    intro f hm hr
    rcases hk0 f hm hr with hm1 | he
    · exact ended_append_right h _ _ _ (hall f (by rw [hf2]; exact hm1) hr)
    · exact ended_append_left h _ _ _ he
  split
  · refine ⟨pre1 ++ e0, post1, ?_, hpre, hnp⟩
    rw [hl1, hlog2, hl0, List.append_assoc]
  · obtain ⟨post2, hl2⟩ := log_grows_mstar (retryLoop_mstar h
      (dueQueue ((handleAll h (0 + 1) r1.2 w2).1.hosts h).awaiting (handleAll h (0 + 1) r1.2 w2).1.now)
      (handleAll h (0 + 1) r1.2 w2).2 (handleAll h (0 + 1) r1.2 w2).1)
    refine ⟨pre1 ++ e0, post2 ++ post1, ?_, hpre, hnp⟩
    rw [hl2, hl1, hlog2, hl0]; simp [List.append_assoc]

/-- the same, the purge handed to the iteration as its input (socket and inbox empty before) -/
theorem tick_msg_purge_log (h ds : Nat) (sched : List Nat) (w : World)
    (hc : (w.hosts h).crashed = false) (hs : (w.hosts h).sock = []) (hi : (w.hosts h).inbox = []) :
    ∃ pre post, (tick h [.msg (.purge ds)] sched w).log = post ++ Event.purged h ds 0 :: (pre ++ w.log) ∧
      (∀ f ∈ (w.hosts h).futs, f.result = none → ended h f.key pre) ∧
      ∀ h' d k, Event.purged h' d k ∉ pre := by
  have heq : tick h [.msg (.purge ds)] sched w = tick h [] sched (inject h (.purge ds) w) := rfl
  rw [heq]
  have := tick_purge_log h ds sched (inject h (.purge ds) w)
    (by simp [inject, World.setHost, hc]) (by simp [inject, World.setHost, hs]) (by simp [inject, World.setHost, hi])
  simpa [inject, World.setHost] using this

end Aux
end EkwVerif.Transfer
