/-
Invariant `Base` of Model/Shm.lean that holds after EVERY history (no assumption on the clients):
unique keys, unique job ids, and the lock discipline
    pageout_all is held  ⇔  pageout_count > 0,   pageout_count = number of pending page-out jobs.
-/
import EkwVerif.Lemmas.Shm

namespace EkwVerif.Shm
open Aux

structure Base (s : St) : Prop where
  nd : Nd s.ds
  ids : s.jobs.Pairwise (fun a b => a.id ≠ b.id)
  bound : ∀ j ∈ s.jobs, j.id < s.nextJob
  lockCount : s.lock = true ↔ 0 < s.count
  countJobs : s.count = outJobs s.jobs

namespace Aux

theorem base_init (cap sc sr : Nat) : Base (init cap sc sr) := by
  constructor <;> simp [init, Nd, outJobs]

/-! ### purge -/

theorem purge_frame (s : St) (k : String) :
    (purge s k).jobs = s.jobs ∧ (purge s k).lock = s.lock ∧ (purge s k).count = s.count ∧
    (purge s k).nextJob = s.nextJob ∧ (purge s k).cap = s.cap ∧ (purge s k).files = s.files ∧
    (purge s k).staleCreate = s.staleCreate ∧ (purge s k).staleRead = s.staleRead := by
  unfold purge
  cases find? s.ds k with
  | none => simp
  | some d =>
    simp only
    split
    · simp
    · split
      · simp
      · cases find? s.segs k <;> simp

theorem purge_nd (s : St) (k : String) (h : Nd s.ds) : Nd (purge s k).ds := by
  unfold purge
  cases find? s.ds k with
  | none => exact h
  | some d =>
    simp only
    split
    · exact nd_set _ _ _ h
    · split
      · exact h
      · cases find? s.segs k with
        | none => exact h
        | some g => exact nd_erase _ _ h

theorem base_purge (s : St) (k : String) (h : Base s) : Base (purge s k) := by
  obtain ⟨hj, hl, hc, hn, _, _, _, _⟩ := purge_frame s k
  exact ⟨purge_nd s k h.nd, by rw [hj]; exact h.ids, by rw [hj, hn]; exact h.bound,
         by rw [hl, hc]; exact h.lockCount, by rw [hc, hj]; exact h.countJobs⟩

theorem purgeFailed_frame (s : St) (k : String) :
    (purgeFailed s k).jobs = s.jobs ∧ (purgeFailed s k).lock = s.lock ∧ (purgeFailed s k).count = s.count ∧
    (purgeFailed s k).nextJob = s.nextJob ∧ (purgeFailed s k).cap = s.cap ∧ (purgeFailed s k).files = s.files ∧
    (purgeFailed s k).staleCreate = s.staleCreate ∧ (purgeFailed s k).staleRead = s.staleRead := by
  unfold purgeFailed
  cases find? s.ds k with
  | none => simp
  | some d => simp only; split <;> simp

theorem purgeFailed_nd (s : St) (k : String) (h : Nd s.ds) : Nd (purgeFailed s k).ds := by
  unfold purgeFailed
  cases find? s.ds k with
  | none => exact h
  | some d => simp only; split; exact h; exact nd_erase _ _ h

/-- `Base` only looks at ds-keys, jobs, nextJob, lock, count -/
theorem base_of_frame (s s' : St) (h : Base s) (hd : Nd s'.ds) (hj : s'.jobs = s.jobs) (hn : s'.nextJob = s.nextJob)
    (hl : s'.lock = s.lock) (hc : s'.count = s.count) : Base s' :=
  ⟨hd, by rw [hj]; exact h.ids, by rw [hj, hn]; exact h.bound, by rw [hl, hc]; exact h.lockCount,
   by rw [hc, hj]; exact h.countJobs⟩

/-! ### page-out -/

theorem pageOut_isSome (s : St) (k x : String) : (find? (pageOut s k).ds x).isSome = (find? s.ds x).isSome := by
  unfold pageOut
  cases h : find? s.ds k with
  | none => rfl
  | some d =>
    simp only [find?_set, h]
    by_cases hx : x = k
    · subst hx; simp [h]
    · simp [hx]

theorem pageOut_nd (s : St) (k : String) (h : Nd s.ds) : Nd (pageOut s k).ds := by
  unfold pageOut
  cases find? s.ds k with
  | none => exact h
  | some d => exact nd_set _ _ _ h

theorem pageOut_frame (s : St) (k : String) :
    (pageOut s k).lock = s.lock ∧ (pageOut s k).count = s.count ∧ (pageOut s k).free = s.free ∧
    (pageOut s k).cap = s.cap ∧ (pageOut s k).segs = s.segs ∧ (pageOut s k).files = s.files ∧
    (pageOut s k).staleCreate = s.staleCreate ∧ (pageOut s k).staleRead = s.staleRead := by
  unfold pageOut; cases find? s.ds k <;> simp

theorem pageOut_jobs (s : St) (k : String) (d : Dataset) (h : find? s.ds k = some d) :
    (pageOut s k).jobs = s.jobs ++ [{ id := s.nextJob, kind := .out, key := k, gen := d.gen, size := d.size, io := none }]
    ∧ (pageOut s k).nextJob = s.nextJob + 1
    ∧ (pageOut s k).ds = set s.ds k { d with status := .pagingOut } := by
  unfold pageOut; simp [h]

/-- ids/bound part and the number of page-out jobs after launching the winners -/
theorem pageOutAll_jobs (ws : List String) : ∀ (s : St),
    (∀ k ∈ ws, (find? s.ds k).isSome = true) →
    s.jobs.Pairwise (fun a b => a.id ≠ b.id) → (∀ j ∈ s.jobs, j.id < s.nextJob) →
    (pageOutAll s ws).jobs.Pairwise (fun a b => a.id ≠ b.id) ∧
    (∀ j ∈ (pageOutAll s ws).jobs, j.id < (pageOutAll s ws).nextJob) ∧
    outJobs (pageOutAll s ws).jobs = outJobs s.jobs + ws.length ∧
    (pageOutAll s ws).lock = s.lock ∧ (pageOutAll s ws).count = s.count := by
  induction ws with
  | nil => intro s _ h1 h2; exact ⟨h1, h2, by simp [pageOutAll], rfl, rfl⟩
  | cons k ws ih =>
    intro s hf h1 h2
    have hk := hf k (by simp)
    obtain ⟨d, hd⟩ := Option.isSome_iff_exists.mp hk
    obtain ⟨ej, en, _⟩ := pageOut_jobs s k d hd
    obtain ⟨el, ec, _⟩ := pageOut_frame s k
    have hf' : ∀ k' ∈ ws, (find? (pageOut s k).ds k').isSome = true := by
      intro k' hk'; rw [pageOut_isSome]; exact hf k' (List.mem_cons_of_mem _ hk')
    have h1' : (pageOut s k).jobs.Pairwise (fun a b => a.id ≠ b.id) := by
      rw [ej, List.pairwise_append]
      refine ⟨h1, by simp, ?_⟩
      intro a ha b hb
      simp at hb; subst hb
      have := h2 a ha; simp; omega
    have h2' : ∀ j ∈ (pageOut s k).jobs, j.id < (pageOut s k).nextJob := by
      intro j hj
      rw [ej] at hj; rw [en]
      rcases List.mem_append.mp hj with hj | hj
      · have := h2 j hj; omega
      · simp at hj; subst hj; simp
    obtain ⟨r1, r2, r3, r4, r5⟩ := ih (pageOut s k) hf' h1' h2'
    have e : pageOutAll s (k :: ws) = pageOutAll (pageOut s k) ws := by simp [pageOutAll]
    rw [e]
    refine ⟨r1, r2, ?_, by rw [r4, el], by rw [r5, ec]⟩
    rw [r3, ej, outJobs_append]; simp; omega

theorem pageOutAll_nd (ws : List String) : ∀ (s : St), Nd s.ds → Nd (pageOutAll s ws).ds := by
  induction ws with
  | nil => intro s h; exact h
  | cons k ws ih => intro s h; simp only [pageOutAll, List.foldl_cons]; exact ih _ (pageOut_nd s k h)

theorem base_pageOutAtLeast (s : St) (amount t : Nat) (h : Base s) : Base (pageOutAtLeast s amount t) := by
  unfold pageOutAtLeast
  by_cases hl : s.lock = true
  · simp [hl]; exact h
  · simp only [hl, Bool.false_eq_true, ↓reduceIte]
    generalize hws : lottery (candidates s.staleCreate s.staleRead t s.ds) amount = ws
    by_cases he : ws.isEmpty = true
    · simp [he]; exact h
    · simp only [he, Bool.false_eq_true, ↓reduceIte]
      have hc0 : s.count = 0 := by
        have := h.lockCount
        rcases Nat.eq_zero_or_pos s.count with h0 | h0
        · exact h0
        · exact absurd (this.mpr h0) hl
      have hfound : ∀ k ∈ ws, (find? s.ds k).isSome = true := by
        intro k hk
        rw [← hws] at hk
        obtain ⟨d, hd, _⟩ := winners_pageoutable _ _ _ _ _ h.nd k hk
        simp [hd]
      obtain ⟨r1, r2, r3, r4, r5⟩ := pageOutAll_jobs ws { s with lock := true, count := ws.length } hfound h.ids h.bound
      have hlen : 0 < ws.length := by
        cases ws with
        | nil => simp at he
        | cons _ _ => simp
      refine ⟨pageOutAll_nd ws _ h.nd, r1, r2, ?_, ?_⟩
      · rw [r4, r5]; simp; exact hlen
      · rw [r5, r3]
        have := h.countJobs
        simp; omega

/-! ### the other handlers -/

theorem base_afterClose (s : St) (k : String) (h : Base s) : Base (afterClose s k) := by
  unfold afterClose
  cases find? s.ds k with
  | none => exact h
  | some d =>
    simp only
    split
    · exact base_purge s k h
    · exact h

theorem base_step (s : St) (op : Op) (h : Base s) : Base (step s op).1 := by
  cases op with
  | add k size deser t =>
    simp only [step, add]
    split
    · exact h
    · split
      · exact h
      · split
        · exact base_pageOutAtLeast s _ t h
        · rename_i h1 _ _
          refine base_of_frame s _ h ?_ rfl rfl rfl rfl
          apply nd_append _ _ _ h.nd
          cases hf : find? s.ds k with
          | none => rfl
          | some d => simp [hf] at h1
  | cwrite k size tok =>
    simp only [step, cwrite]
    split
    · exact h
    cases find? s.segs k with
    | some g => exact h
    | none =>
      simp only
      refine base_of_frame s _ h ?_ rfl rfl rfl rfl
      cases find? s.ds k with
      | none => exact h.nd
      | some d => exact nd_set _ _ _ h.nd
  | closeW k =>
    simp only [step, closeCb]
    cases hf : find? s.ds k with
    | none => exact h
    | some d =>
      simp only [↓reduceIte]
      split
      · exact h
      · exact base_afterClose _ k (base_of_frame s _ h (nd_set _ _ _ h.nd) rfl rfl rfl rfl)
  | closeR k rdid =>
    simp only [step, closeCb]
    cases hf : find? s.ds k with
    | none => exact h
    | some d =>
      simp only
      split
      · split
        · exact h
        · exact base_afterClose _ k (base_of_frame s _ h (nd_set _ _ _ h.nd) rfl rfl rfl rfl)
      · split
        · exact h
        · exact base_afterClose _ k (base_of_frame s _ h (nd_set _ _ _ h.nd) rfl rfl rfl rfl)
  | get k t cands =>
    simp only [step, get]
    cases hf : find? s.ds k with
    | none => exact h
    | some d =>
      simp only
      split
      · exact h
      · exact h
      · exact h
      · split
        · exact base_pageOutAtLeast s _ t h
        · refine ⟨nd_set _ _ _ h.nd, ?_, ?_, h.lockCount, ?_⟩
          · simp only [pageIn]
            rw [List.pairwise_append]
            refine ⟨h.ids, by simp, ?_⟩
            intro a ha b hb
            simp at hb; subst hb
            have := h.bound a ha; simp; omega
          · intro j hj
            simp only [pageIn] at hj ⊢
            rcases List.mem_append.mp hj with hj | hj
            · have := h.bound j hj; omega
            · simp at hj; subst hj; simp
          · simp only [pageIn]; rw [outJobs_append]; simp; exact h.countJobs
      · split
        · exact h
        · exact base_of_frame s _ h (nd_set _ _ _ h.nd) rfl rfl rfl rfl
  | purge k => exact base_purge s k h
  | freeSpace => exact h
  | io id inj =>
    simp only [step, ioStep]
    cases hf : findJob s.jobs id with
    | none => exact h
    | some j =>
      simp only
      have key : ∀ (s' : St) (r : Bool), s'.ds = s.ds → s'.jobs = setJobIo s.jobs id r → s'.nextJob = s.nextJob →
          s'.lock = s.lock → s'.count = s.count → Base s' := by
        intro s' r e1 e2 e3 e4 e5
        refine ⟨by rw [e1]; exact h.nd, ?_, ?_, by rw [e4, e5]; exact h.lockCount, ?_⟩
        · rw [e2]; exact pairwise_setJobIo (fun j => j.id) (fun _ _ => rfl) _ _ _ h.ids
        · intro j' hj'
          rw [e2] at hj'; rw [e3]
          obtain ⟨j0, hj0, e⟩ := (mem_setJobIo _ _ _ _).mp hj'
          have := h.bound j0 hj0
          subst e; split <;> simpa using this
        · rw [e5, e2, outJobs_setJobIo]; exact h.countJobs
      split
      · exact h
      · cases j.kind with
        | out =>
          simp only
          split
          · exact key _ false rfl rfl rfl rfl rfl
          · cases find? s.segs j.key with
            | none => exact key _ false rfl rfl rfl rfl rfl
            | some g => exact key _ true rfl rfl rfl rfl rfl
        | inn =>
          simp only
          split
          · exact key _ false rfl rfl rfl rfl rfl
          · cases find? s.segs j.key with
            | some g => exact key _ false rfl rfl rfl rfl rfl
            | none =>
              simp only
              split
              · exact key _ false rfl rfl rfl rfl rfl
              · split
                · exact key _ true rfl rfl rfl rfl rfl
                · split
                  · exact key _ true rfl rfl rfl rfl rfl
                  · exact key _ false rfl rfl rfl rfl rfl
  | cb id =>
    simp only [step, cbStep]
    cases hf : findJob s.jobs id with
    | none => exact h
    | some j =>
      simp only
      obtain ⟨hjm, hjid⟩ := findJob_some _ _ _ hf
      cases hio : j.io with
      | none => exact h
      | some r =>
        simp only
        have hcnt := outJobs_eraseJob s.jobs j hjm h.ids
        rw [hjid] at hcnt
        have hpw : (eraseJob s.jobs id).Pairwise (fun a b => a.id ≠ b.id) := pairwise_eraseJob _ _ h.ids
        have hbd : ∀ j' ∈ eraseJob s.jobs id, j'.id < s.nextJob := by
          intro j' hj'; exact h.bound j' ((mem_eraseJob _ _ _).mp hj').1
        -- the state after the job left the pool, before the counter is touched
        have dec : ∀ (s' : St), Nd s'.ds → s'.jobs = eraseJob s.jobs id → s'.nextJob = s.nextJob → s'.lock = s.lock →
            s'.count = s.count → j.kind = .out → Base (decCount s') := by
          intro s' e1 e2 e3 e4 e5 hk
          have hc := h.countJobs
          have hl := h.lockCount
          simp [hk] at hcnt
          refine ⟨e1, by simp only [decCount]; rw [e2]; exact hpw, by simp only [decCount]; rw [e2, e3]; exact hbd, ?_, ?_⟩
          · simp only [decCount, e4, e5]
            by_cases h0 : s.count - 1 = 0
            · simp [h0]
            · simp only [h0, ↓reduceIte]
              constructor
              · intro; omega
              · intro; apply hl.mpr; omega
          · simp only [decCount, e2, e5]; omega
        have keep : ∀ (s' : St), Nd s'.ds → s'.jobs = eraseJob s.jobs id → s'.nextJob = s.nextJob → s'.lock = s.lock →
            s'.count = s.count → j.kind = .inn → Base s' := by
          intro s' e1 e2 e3 e4 e5 hk
          simp [hk] at hcnt
          refine ⟨e1, by rw [e2]; exact hpw, by rw [e2, e3]; exact hbd, by rw [e4, e5]; exact h.lockCount, ?_⟩
          rw [e5, e2, hcnt]; exact h.countJobs
        have ndStatus : ∀ st, Nd (setStatusIfSame s.ds j.key j.gen st) := by
          intro st
          unfold setStatusIfSame
          cases find? s.ds j.key with
          | none => exact h.nd
          | some d => simp only; split; exact nd_set _ _ _ h.nd; exact h.nd
        cases hk : j.kind <;> cases r <;> simp only
        · -- out, failed
          obtain ⟨pj, pl, pc, pn, _⟩ := purgeFailed_frame { s with jobs := eraseJob s.jobs id } j.key
          exact dec _ (purgeFailed_nd _ _ h.nd) pj pn pl pc hk
        · exact dec _ (ndStatus _) rfl rfl rfl rfl hk
        · obtain ⟨pj, pl, pc, pn, _⟩ := purgeFailed_frame { s with jobs := eraseJob s.jobs id } j.key
          exact keep _ (purgeFailed_nd _ _ h.nd) pj pn pl pc hk
        · exact keep _ (ndStatus _) rfl rfl rfl rfl hk

theorem pageOutAll_free (ws : List String) : ∀ (s0 : St), (pageOutAll s0 ws).free = s0.free ∧ (pageOutAll s0 ws).cap = s0.cap ∧
    ∀ x, (find? (pageOutAll s0 ws).ds x).isSome = (find? s0.ds x).isSome := by
  induction ws with
  | nil => intro s0; exact ⟨rfl, rfl, fun _ => rfl⟩
  | cons k ws ih =>
    intro s0
    simp only [pageOutAll, List.foldl_cons]
    obtain ⟨h1, h2, h3⟩ := ih (pageOut s0 k)
    exact ⟨h1.trans (pageOut_frame s0 k).2.2.1, h2.trans (pageOut_frame s0 k).2.2.2.1,
      fun x => (h3 x).trans (pageOut_isSome s0 k x)⟩

theorem pageOutAtLeast_free (s : St) (a t : Nat) : (pageOutAtLeast s a t).free = s.free ∧ (pageOutAtLeast s a t).cap = s.cap ∧
    ∀ x, (find? (pageOutAtLeast s a t).ds x).isSome = (find? s.ds x).isSome := by
  unfold pageOutAtLeast
  split
  · exact ⟨rfl, rfl, fun _ => rfl⟩
  · simp only; split
    · exact ⟨rfl, rfl, fun _ => rfl⟩
    · exact pageOutAll_free _ _

/-- the I/O part of a disk job touches segments, files and the job's `io` field only -/
theorem ioStep_frame (s : St) (id : Nat) (inj : IoRes) :
    (ioStep s id inj).1.ds = s.ds ∧ (ioStep s id inj).1.free = s.free ∧ (ioStep s id inj).1.cap = s.cap ∧
    (ioStep s id inj).1.lock = s.lock ∧ (ioStep s id inj).1.count = s.count := by
  unfold ioStep
  cases findJob s.jobs id with
  | none => simp
  | some j =>
    simp only
    split
    · simp
    · cases j.kind with
      | out => simp only; split; simp; cases find? s.segs j.key <;> simp
      | inn =>
        simp only; split; simp
        cases find? s.segs j.key with
        | some g => simp
        | none => simp only; split; simp; split; simp; split <;> simp

theorem cwrite_frame (s : St) (k : String) (size tok : Nat) :
    (cwrite s k size tok).1.free = s.free ∧ (cwrite s k size tok).1.cap = s.cap ∧ (cwrite s k size tok).1.jobs = s.jobs ∧
    (cwrite s k size tok).1.lock = s.lock ∧ (cwrite s k size tok).1.count = s.count ∧ (cwrite s k size tok).1.files = s.files := by
  unfold cwrite
  split
  · simp
  · cases find? s.segs k <;> simp

theorem base_run (ops : List Op) : ∀ (s : St), Base s → Base (run s ops) := by
  induction ops with
  | nil => intro s h; exact h
  | cons op ops ih => intro s h; exact ih _ (base_step s op h)

end Aux
end EkwVerif.Shm
