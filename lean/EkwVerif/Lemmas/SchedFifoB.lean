/-
Tier F (FIFO delivery), part B: preservation of `InvFifo` (and of the auxiliary `InvFifoX`) by every
base step, relative to the full base invariant `InvAll`.
-/
import EkwVerif.Lemmas.SchedFifoA

namespace EkwVerif.Ctrl

/-! ### congruence -/

theorem sF_po_congr {s s' : Sys} (h1 : s'.inbox = s.inbox) (h2 : s'.env.pending = s.env.pending) :
    ∀ t, pendingOuts s' t = pendingOuts s t := by
  intro t; rw [sF_po, sF_po, h1, h2]

/-- a step that changes none of the fields Tier F talks about -/
theorem sF_congr {j : Job} {cl : Cluster} {s s' : Sys} (hF : InvFifo j cl s)
    (hran : s'.env.ran = s.env.ran) (hpo : ∀ t, pendingOuts s' t = pendingOuts s t)
    (hann : s'.ctl.announced = s.ctl.announced) (hdone : s'.ctl.doneC = s.ctl.doneC)
    (hdisp : s'.ctl.dispatched = s.ctl.dispatched) (hcomp : s'.ctl.computable = s.ctl.computable)
    (htracked : s'.ctl.tracked = s.ctl.tracked) (htracker : s'.ctl.tracker = s.ctl.tracker)
    (hidle : s'.ctl.idle = s.ctl.idle) (hfl : ∀ w t, s'.inFlight w t ↔ s.inFlight w t) :
    InvFifo j cl s' := by
  refine ⟨?_, ?_, ?_, ?_, ?_, ?_⟩
  · intro t ht; rw [hran] at ht; rw [hpo, hann]; exact hF.suffix t ht
  · intro t ht; rw [hdone] at ht; rw [hann]; exact hF.done_announced t ht
  · intro t ht; rw [hdisp] at ht; rw [hdone]
    rcases hF.disp_flight_or_done t ht with ⟨w, hw⟩ | hd
    · exact Or.inl ⟨w, (hfl w t).mpr hw⟩
    · exact Or.inr hd
  · intro t htl ht; rw [hdisp] at ht; rw [hcomp, htracked, htracker]; exact hF.undisp t htl ht
  · intro t ds ht hd; rw [htracked] at ht; rw [htracker] at hd; rw [hann]; exact hF.tracker_sound t ds ht hd
  · intro w hw
    rcases hF.workers_cover w hw with h | ⟨t, ht⟩
    · exact Or.inl (by rw [hidle]; exact h)
    · exact Or.inr ⟨t, (hfl w t).mpr ht⟩

theorem sF_po_nil {j : Job} {cl : Cluster} {s : Sys} (h2 : Inv2 j cl s) (t : Task) (hnr : s.env.ran t = false) :
    pendingOuts s t = [] := by
  have key : ∀ ev, ev ∈ s.allEv → sF_sel t ev = none := by
    intro ev hev
    cases ev with
    | pubW w ds =>
      have := (h2.ev_ran w ds hev).1
      have hne : ds.task ≠ t := by intro h; rw [h, hnr] at this; cases this
      exact sF_sel_pubW_other t w ds hne
    | pubT h ds => rfl
    | payload ds v => rfl
  rw [sF_po, ← List.filterMap_append, List.filterMap_eq_nil_iff]
  exact key

/-! ### init -/

theorem sF_init (j : Job) (cl : Cluster) (_wf : WF j cl) : InvFifo j cl (Sys.init j cl) := by
  refine ⟨?_, ?_, ?_, ?_, ?_, ?_⟩
  · intro t ht; simp [Sys.init, Env.init] at ht
  · intro t ht; simp [Sys.init, initCtl] at ht
  · intro t ht; simp [Sys.init, initCtl] at ht
  · intro t htl _
    simp only [Sys.init, initCtl, List.mem_filter, Job.taskIds, List.mem_range, decide_eq_true_eq]
    cases hx : j.inputs t with
    | nil => left; simp [htl]
    | cons a l => right; exact ⟨htl, a, by simp⟩
  · intro t ds _ hd
    simp only [Sys.init, initCtl] at hd ⊢
    exact ⟨hd, trivial⟩
  · intro w hw; left; simpa [Sys.init, initCtl] using hw

theorem sF_x_init (j : Job) (cl : Cluster) (wf : WF j cl) : InvFifoX (Sys.init j cl) :=
  ⟨fun t => by simpa [Sys.init, initCtl] using wf.inputsNodup t⟩

/-! ### the phase-only steps -/

theorem sF_step_enter (f : Sem) (j : Job) (cl : Cluster) (s s' : Sys) (hA : InvAll f j cl s) (hF : InvFifo j cl s)
    (hs : step f j cl s .enter = some s') : InvFifo j cl s' := by
  simp only [step] at hs
  split at hs; · cases hs
  rename_i hp
  have hp' : s.phase = .top := by simpa using hp
  have htodo : s.todo = [] := hA.h1.todo_phase (by simp [hp']) (by simp [hp']) (by simp [hp'])
  split at hs
  · cases hs; exact sF_congr hF rfl (fun _ => rfl) rfl rfl rfl rfl rfl rfl rfl (fun _ _ => Iff.rfl)
  · cases hs
    exact sF_congr hF rfl (fun _ => rfl) rfl rfl rfl rfl rfl rfl rfl
      (fun w t => by simp [Sys.inFlight, Sys.todoPairs, htodo])

theorem sF_step_endAssign (f : Sem) (j : Job) (cl : Cluster) (s s' : Sys) (hF : InvFifo j cl s)
    (hs : step f j cl s .endAssign = some s') : InvFifo j cl s' := by
  simp only [step] at hs
  split at hs; · cases hs
  cases hs; exact sF_congr hF rfl (fun _ => rfl) rfl rfl rfl rfl rfl rfl rfl (fun _ _ => Iff.rfl)

theorem sF_step_endPlan (f : Sem) (j : Job) (cl : Cluster) (s s' : Sys) (hF : InvFifo j cl s)
    (hs : step f j cl s .endPlan = some s') : InvFifo j cl s' := by
  simp only [step] at hs
  split at hs; · cases hs
  cases hs; exact sF_congr hF rfl (fun _ => rfl) rfl rfl rfl rfl rfl rfl rfl (fun _ _ => Iff.rfl)

theorem sF_step_endFlushF (f : Sem) (j : Job) (cl : Cluster) (s s' : Sys) (hF : InvFifo j cl s)
    (hs : step f j cl s .endFlushF = some s') : InvFifo j cl s' := by
  simp only [step] at hs
  split at hs; · cases hs
  cases hs; exact sF_congr hF rfl (fun _ => rfl) rfl rfl rfl rfl rfl rfl rfl (fun _ _ => Iff.rfl)

theorem sF_step_endFlush (f : Sem) (j : Job) (cl : Cluster) (s s' : Sys) (hF : InvFifo j cl s)
    (hs : step f j cl s .endFlush = some s') : InvFifo j cl s' := by
  simp only [step] at hs
  split at hs; · cases hs
  cases hs; exact sF_congr hF rfl (fun _ => rfl) rfl rfl rfl rfl rfl rfl rfl (fun _ _ => Iff.rfl)

theorem sF_step_endNotify (f : Sem) (j : Job) (cl : Cluster) (s s' : Sys) (hF : InvFifo j cl s)
    (hs : step f j cl s .endNotify = some s') : InvFifo j cl s' := by
  simp only [step] at hs
  split at hs; · cases hs
  cases hs; exact sF_congr hF rfl (fun _ => rfl) rfl rfl rfl rfl rfl rfl rfl (fun _ _ => Iff.rfl)

/-! ### assign -/

theorem sF_step_assign (f : Sem) (j : Job) (cl : Cluster) (s s' : Sys) (a : Asg) (hA : InvAll f j cl s)
    (hF : InvFifo j cl s) (hs : step f j cl s (.assign a) = some s') : InvFifo j cl s' := by
  simp only [step] at hs
  split at hs; · cases hs
  split at hs
  · cases hs
  · cases hs
    exact sF_congr hF rfl (fun _ => rfl) rfl rfl rfl rfl rfl rfl rfl (fun _ _ => Iff.rfl)
  · rename_i c2 prep has
    have hctl : s'.ctl = c2 := by cases hs; rfl
    have henv : s'.env = applyCmds j cl s.env (actCmds a prep) := by cases hs; rfl
    have htodo : s'.todo = s.todo ++ [(a, prep)] := by cases hs; rfl
    have hinb : s'.inbox = s.inbox := by cases hs; rfl
    clear hs
    obtain ⟨ho, hd0, hd', hcomp, hidle, hi', hon', hgpu⟩ := once_assignOne j cl s.ctl c2 a prep hA.h1.once has
    obtain ⟨fa, fd, ftd, ftr, fc⟩ := sF_assignOne_frames j cl s.ctl c2 a prep has
    obtain ⟨ep, er⟩ := sF_applyCmds_frame j cl (actCmds a prep) s.env
    have hfl : ∀ w t, s'.inFlight w t ↔ (s.inFlight w t ∨ (w, t) = (a.worker, a.task)) := by
      intro w t
      simp only [Sys.inFlight, Sys.todoPairs, hctl, hon', htodo, List.map_append, List.map_cons, List.map_nil,
        List.mem_append, List.mem_singleton]
      exact or_assoc.symm
    have hpo : ∀ t, pendingOuts s' t = pendingOuts s t := sF_po_congr hinb (by rw [henv]; exact ep)
    refine ⟨?_, ?_, ?_, ?_, ?_, ?_⟩
    · intro t ht
      rw [henv, er] at ht
      rw [hpo t, hctl, fa]
      exact hF.suffix t ht
    · intro t ht; rw [hctl, fd] at ht; rw [hctl, fa]; exact hF.done_announced t ht
    · intro t ht
      rw [hctl, hd'] at ht; rw [hctl, fd]
      by_cases hta : t = a.task
      · subst hta; exact Or.inl ⟨a.worker, (hfl _ _).mpr (Or.inr rfl)⟩
      · rw [upd_other _ _ _ _ hta] at ht
        rcases hF.disp_flight_or_done t ht with ⟨w, hw⟩ | hd
        · exact Or.inl ⟨w, (hfl _ _).mpr (Or.inl hw)⟩
        · exact Or.inr hd
    · intro t htl ht
      rw [hctl, hd'] at ht; rw [hctl, fc, ftd, ftr]
      have hta : t ≠ a.task := by intro h; subst h; simp at ht
      rw [upd_other _ _ _ _ hta] at ht
      rcases hF.undisp t htl ht with h | h
      · exact Or.inl ((List.mem_erase_of_ne hta).mpr h)
      · exact Or.inr h
    · intro t ds ht hd
      rw [hctl, ftd] at ht; rw [hctl, ftr] at hd; rw [hctl, fa]
      exact hF.tracker_sound t ds ht hd
    · intro w hw
      rw [hctl, hi']
      by_cases hwa : w = a.worker
      · subst hwa; exact Or.inr ⟨a.task, (hfl _ _).mpr (Or.inr rfl)⟩
      · rcases hF.workers_cover w hw with h | ⟨t, ht⟩
        · exact Or.inl ((List.mem_erase_of_ne hwa).mpr h)
        · exact Or.inr ⟨t, (hfl _ _).mpr (Or.inl ht)⟩

/-! ### plan1 -/

theorem sF_step_plan1 (f : Sem) (j : Job) (cl : Cluster) (s s' : Sys) (hF : InvFifo j cl s)
    (hs : step f j cl s .plan1 = some s') : InvFifo j cl s' := by
  simp only [step] at hs
  split at hs; · cases hs
  split at hs
  · cases hs
  · rename_i a prep rest htd
    split at hs
    · cases hs
    · cases hs
      exact sF_congr hF rfl (fun _ => rfl) rfl rfl rfl rfl rfl rfl rfl (fun _ _ => Iff.rfl)
    · rename_i c2 hpl
      cases hs
      obtain ⟨f1, f2, f3, f4, f5, f6, f7⟩ := planOne_frames j s.ctl c2 a prep hpl
      obtain ⟨g1, g2⟩ := sF_planOne_frames j s.ctl c2 a prep hpl
      refine sF_congr hF rfl (fun _ => rfl) g1 g2 f2 f1 f3 f4 f5 ?_
      intro w t
      simp only [Sys.inFlight, Sys.todoPairs, f6, htd, List.map_cons, List.mem_append, List.mem_cons]
      grind

/-! ### flush -/

theorem sF_step_flushF1 (f : Sem) (j : Job) (cl : Cluster) (s s' : Sys) (hF : InvFifo j cl s)
    (hs : step f j cl s .flushF1 = some s') : InvFifo j cl s' := by
  simp only [step] at hs
  split at hs; · cases hs
  split at hs
  · cases hs
  · rename_i ds hst rest hq
    cases hs
    obtain ⟨ep, er⟩ := sF_applyCmd_frame j cl s.env (.fetch ds hst)
    exact sF_congr hF er (sF_po_congr rfl ep) (by simp) (by simp) (by simp) (by simp) (by simp) (by simp) (by simp)
      (fun w t => by simp [Sys.inFlight, Sys.todoPairs])

theorem sF_step_flushP1 (f : Sem) (j : Job) (cl : Cluster) (s s' : Sys) (hF : InvFifo j cl s)
    (hs : step f j cl s .flushP1 = some s') : InvFifo j cl s' := by
  simp only [step] at hs
  split at hs; · cases hs
  split at hs
  · cases hs
  · rename_i ds rest hq
    split at hs
    · cases hs
    · cases hs
      exact sF_congr hF rfl (fun _ => rfl) rfl rfl rfl rfl rfl rfl rfl (fun _ _ => Iff.rfl)
    · rename_i c2 cmds hph
      cases hs
      obtain ⟨ep, er⟩ := sF_applyCmds_frame j cl cmds s.env
      refine sF_congr hF er (sF_po_congr rfl ep) ?_ ?_ ?_ ?_ ?_ ?_ ?_ ?_
      · simpa using purgeHosts_announced _ _ _ _ _ _ hph
      · simpa using purgeHosts_doneC _ _ _ _ _ _ hph
      · simpa using purgeHosts_dispatched _ _ _ _ _ _ hph
      · simpa using purgeHosts_computable _ _ _ _ _ _ hph
      · simpa using purgeHosts_tracked _ _ _ _ _ _ hph
      · simpa using purgeHosts_tracker _ _ _ _ _ _ hph
      · simpa using purgeHosts_idle _ _ _ _ _ _ hph
      · intro w t
        have := purgeHosts_ongoing _ _ _ _ _ _ hph
        simp [Sys.inFlight, Sys.todoPairs, this]

/-! ### recv (FIFO) -/

theorem sF_step_recv (f : Sem) (j : Job) (cl : Cluster) (s s' : Sys) (evs : List Event) (hA : InvAll f j cl s)
    (hF : InvFifo j cl s) (hfifo : ∀ pend, takeEvents s.env.pending evs = some pend →
      ∀ t, evs.filterMap (noticeOf t) ++ pend.filterMap (noticeOf t) = s.env.pending.filterMap (noticeOf t))
    (hs : step f j cl s (.recv evs) = some s') : InvFifo j cl s' := by
  simp only [step] at hs
  split at hs; · cases hs
  rename_i hc
  have hp : s.phase = .waiting := by
    simp only [bne_iff_ne, ne_eq, Bool.or_eq_true, not_or, Decidable.not_not] at hc; simpa using hc.1
  have hinb : s.inbox = [] := hA.h2.inbox_phase (by simp [hp]) (by simp [hp])
  split at hs
  · cases hs
  · rename_i pend htk
    cases hs
    have hall := hfifo pend htk
    obtain ⟨m1, m2⟩ := sF_markDelivered_frame evs { s.env with pending := pend }
    refine sF_congr hF m2 ?_ rfl rfl rfl rfl rfl rfl rfl (fun _ _ => Iff.rfl)
    intro t
    rw [sF_po, sF_po]
    simp only [m1, hinb, List.filterMap_nil, List.nil_append]
    rw [← sF_sel_noticeOf]; exact hall t

/-- the global discipline (a batch is a prefix of ALL pending events) is a special case of per-producer FIFO -/
theorem fifoStep_of_prefix (x : SysX) (evs : List Event) (h : evs = x.sys.env.pending.take evs.length) :
    fifoStep x (.base (.recv evs)) := by
  intro pend htk t
  have h1 := sF_takeEvents_prefix evs.length x.sys.env.pending
  rw [← h, htk] at h1
  have h2 : pend = x.sys.env.pending.drop evs.length := Option.some.inj h1
  rw [h2, ← List.filterMap_append]
  conv => lhs; arg 2; arg 1; rw [h]
  rw [List.take_append_drop]

/-! ### environment steps -/

theorem sF_envStep_io (f : Sem) (j : Job) (e e' : Env) (i : Nat) (h : envStep f j e (.io i) = some e') :
    e'.ran = e.ran ∧ ∀ t, e'.pending.filterMap (sF_sel t) = e.pending.filterMap (sF_sel t) := by
  simp only [envStep] at h
  split at h
  · cases h
  · rename_i o ho
    cases o with
    | transmit ds src tgt =>
      dsimp only at h
      split at h
      · cases h; exact ⟨by simp, fun t => by simp⟩
      · split at h
        · cases h; exact ⟨rfl, fun t => rfl⟩
        · cases h
          refine ⟨rfl, fun t => ?_⟩
          simp [List.filterMap_append, sF_sel]
    | fetch ds src =>
      dsimp only at h
      split at h
      · cases h; exact ⟨by simp, fun t => by simp⟩
      · cases h
        refine ⟨rfl, fun t => ?_⟩
        simp [List.filterMap_append, sF_sel]

theorem sF_run_po (f : Sem) (j : Job) (w : Worker) (t : Task) (args : List Val) (s : Sys) (e0 : Env)
    (hp : e0.pending = s.env.pending) (t' : Task) :
    pendingOuts { s with env := publishOutputs f j w t args e0 } t' =
      pendingOuts s t' ++ (if t = t' then List.range (j.nOut t) else []) := by
  rw [sF_po, sF_po]
  simp only [(publishOutputs_frame f j w t args e0).2.2.2.2.2.2.2, hp, List.filterMap_append, sF_sel_outputs,
    List.append_assoc]

theorem sF_step_env (f : Sem) (j : Job) (cl : Cluster) (s s' : Sys) (es : EnvStep) (hA : InvAll f j cl s)
    (hF : InvFifo j cl s) (hs : step f j cl s (.env es) = some s') : InvFifo j cl s' := by
  simp only [step] at hs
  split at hs; · cases hs
  cases he : envStep f j s.env es with
  | none => simp [he] at hs
  | some e' =>
    simp only [he, Option.map_some, Option.some.injEq] at hs
    subst hs
    cases es with
    | io i =>
      obtain ⟨h1, h2⟩ := sF_envStep_io f j s.env e' i he
      refine sF_congr hF h1 ?_ rfl rfl rfl rfl rfl rfl rfl (fun _ _ => Iff.rfl)
      intro t
      rw [sF_po, sF_po]
      simp only [h2]
    | run w t =>
      simp only [envStep] at he
      split at he
      · rename_i hc
        cases he
        obtain ⟨_, _, _, _, h5, _, _, h8⟩ := publishOutputs_frame f j w t
          ((j.inputs t).map (fun d => (s.env.present w.host d).getD ""))
          { s.env with queued := s.env.queued.erase (w, t), ran := upd s.env.ran t true }
        have hq : (w, t) ∈ s.env.queued := by
          simp only [Bool.and_eq_true, List.contains_iff_mem] at hc; exact hc.1
        have hnr : s.env.ran t = false := hA.h2.queued_not_ran w t hq
        refine ⟨?_, hF.done_announced, hF.disp_flight_or_done, hF.undisp, hF.tracker_sound, hF.workers_cover⟩
        intro t' ht'
        simp only [h5] at ht'
        have hpo' := sF_run_po f j w t ((j.inputs t).map (fun d => (s.env.present w.host d).getD "")) s
          { s.env with queued := s.env.queued.erase (w, t), ran := upd s.env.ran t true } rfl t'
        rw [hpo']
        by_cases htt : t' = t
        · subst htt
          refine ⟨0, Nat.zero_le _, ?_, fun k hk => absurd hk (Nat.not_lt_zero k)⟩
          rw [sF_po_nil hA.h2 t' hnr]
          simp
        · rw [upd_other _ _ _ _ htt] at ht'
          obtain ⟨m, hm, hpm, hann⟩ := hF.suffix t' ht'
          refine ⟨m, hm, ?_, hann⟩
          rw [if_neg (Ne.symm htt), List.append_nil]
          exact hpm
      · cases he

/-! ### notify1 -/

theorem sF_idle_sub (idle : List Worker) (w x : Worker) (b : Bool) (h : x ∈ idle) :
    x ∈ (if b = true then idle else idle ++ [w]) := by
  split
  · exact h
  · exact List.mem_append.mpr (Or.inl h)

theorem sF_step_notify1 (f : Sem) (j : Job) (cl : Cluster) (s s' : Sys) (hA : InvAll f j cl s)
    (hA' : InvAll f j cl s') (hF : InvFifo j cl s) (hX : InvFifoX s)
    (hs : step f j cl s .notify1 = some s') : InvFifo j cl s' := by
  simp only [step] at hs
  split at hs; · cases hs
  rename_i hc
  have hp : s.phase = .notifying := by simpa using hc
  have htodo : s.todo = [] := hA.h1.todo_phase (by simp [hp]) (by simp [hp]) (by simp [hp])
  split at hs
  · cases hs
  rename_i ev rest hib
  split at hs
  · cases hs
  · -- a crash here is excluded by the (post-state) base invariant
    rename_i e he
    cases hs
    exfalso
    rcases notifyEvent_err' j s.ctl ev e he with rfl | rfl
    · exact hA'.h2.no_err_tracker (by simp [Sys.crash])
    · exact hA'.h2.no_err_ongoing (by simp [Sys.crash])
  · rename_i c2 hne
    have hctl : s'.ctl = c2 := by cases hs; rfl
    have henv : s'.env = s.env := by cases hs; rfl
    have htodo' : s'.todo = [] := by cases hs; exact htodo
    have hinb : s'.inbox = rest := by cases hs; rfl
    clear hs
    obtain ⟨t1, t2, t3, t4⟩ := sF_notifyEvent_track j s.ctl c2 ev hne
    obtain ⟨hdisp, _⟩ := notifyEvent_workers j s.ctl c2 ev hne
    have hdone := sF_notifyEvent_done j s.ctl c2 ev hne
    have hfl0 : ∀ w t, s.inFlight w t ↔ (w, t) ∈ s.ctl.ongoing := by
      intro w t; simp [Sys.inFlight, Sys.todoPairs, htodo]
    have hfl1 : ∀ w t, s'.inFlight w t ↔ (w, t) ∈ c2.ongoing := by
      intro w t; simp [Sys.inFlight, Sys.todoPairs, htodo', hctl]
    have hpo_none : ∀ t, sF_sel t ev = none → pendingOuts s' t = pendingOuts s t := by
      intro t h
      rw [sF_po, sF_po, hib, hinb, henv, List.filterMap_cons, h]
    have hpo_some : ∀ t k, sF_sel t ev = some k → pendingOuts s t = k :: pendingOuts s' t := by
      intro t k h
      rw [sF_po, sF_po, hib, hinb, henv, List.filterMap_cons, h]
      rfl
    -- the head notice of a task is the first of its outstanding ones
    have hhead : ∀ w ds, ev = Event.pubW w ds → ds.out < j.nOut ds.task ∧
        (∀ k, k < ds.out → s.ctl.announced ⟨ds.task, k⟩ = true) ∧
        pendingOuts s' ds.task = (List.range (j.nOut ds.task)).drop (ds.out + 1) := by
      intro w ds hev
      have hmem : Event.pubW w ds ∈ s.allEv := by simp [Sys.allEv, hib, hev]
      have hran := (hA.h2.ev_ran w ds hmem).1
      obtain ⟨m, hm, hpm, hann⟩ := hF.suffix ds.task hran
      rw [hpo_some ds.task ds.out (by rw [hev]; exact sF_sel_pubW_same w ds)] at hpm
      obtain ⟨e1, e2, e3⟩ := sF_drop_range_cons _ _ _ _ hpm.symm
      subst e1
      exact ⟨e2, hann, e3⟩
    have hmono : ∀ d, s.ctl.announced d = true → c2.announced d = true := fun d h => (t4 d).mpr (Or.inl h)
    refine ⟨?_, ?_, ?_, ?_, ?_, ?_⟩
    · -- suffix
      intro t ht
      rw [henv] at ht
      rw [hctl]
      cases hsel : sF_sel t ev with
      | none =>
        obtain ⟨m, hm, hpm, hann⟩ := hF.suffix t ht
        exact ⟨m, hm, by rw [hpo_none t hsel]; exact hpm, fun k hk => hmono _ (hann k hk)⟩
      | some k =>
        obtain ⟨w, hev⟩ := (sF_sel_some t ev k).mp hsel
        obtain ⟨h1, h2, h3⟩ := hhead w ⟨t, k⟩ hev
        refine ⟨k + 1, h1, h3, ?_⟩
        intro k' hk'
        by_cases hlt : k' < k
        · exact hmono _ (h2 k' hlt)
        · have : k' = k := by omega
          subst this
          exact (t4 _).mpr (Or.inr (by rw [hev]; rfl))
    · -- done_announced
      intro t ht k hk
      rw [hctl] at ht ⊢
      rcases hdone with ⟨hd, _, _⟩ | ⟨w, ds, hev, hlast, hd, _⟩
      · rw [hd] at ht; exact hmono _ (hF.done_announced t ht k hk)
      · rw [hd] at ht
        by_cases htt : t = ds.task
        · obtain ⟨h1, h2, _⟩ := hhead w ds hev
          have hl : ds.out + 1 = j.nOut ds.task := by simpa [Job.isLast] using hlast
          subst htt
          by_cases hk' : k < ds.out
          · exact hmono _ (h2 k hk')
          · have : k = ds.out := by omega
            subst this
            exact (t4 _).mpr (Or.inr (by rw [hev]; rfl))
        · rw [upd_other _ _ _ _ htt] at ht
          exact hmono _ (hF.done_announced t ht k hk)
    · -- disp_flight_or_done
      intro t ht
      rw [hctl, hdisp] at ht
      rw [hctl]
      rcases hdone with ⟨hd, _, hon⟩ | ⟨w, ds, hev, hlast, hd, hmem, hon, hi⟩
      · rcases hF.disp_flight_or_done t ht with ⟨w', hw'⟩ | hd0
        · exact Or.inl ⟨w', (hfl1 _ _).mpr (by rw [hon]; exact (hfl0 _ _).mp hw')⟩
        · exact Or.inr (by rw [hd]; exact hd0)
      · by_cases htt : t = ds.task
        · right; rw [hd, htt]; simp
        · rcases hF.disp_flight_or_done t ht with ⟨w', hw'⟩ | hd0
          · refine Or.inl ⟨w', (hfl1 _ _).mpr ?_⟩
            rw [hon]
            have hne2 : (w', t) ≠ (w, ds.task) := by
              intro heq; exact htt (Prod.mk.inj heq).2
            exact (List.mem_erase_of_ne hne2).mpr ((hfl0 _ _).mp hw')
          · exact Or.inr (by rw [hd, upd_other _ _ _ _ htt]; exact hd0)
    · -- undisp
      intro t htl ht
      rw [hctl, hdisp] at ht
      rw [hctl]
      exact t2 t (hF.undisp t htl ht)
    · -- tracker_sound
      intro t d ht hd
      rw [hctl] at ht hd ⊢
      obtain ⟨x1, x2, x3⟩ := t3 t d ht hd
      obtain ⟨y1, y2⟩ := hF.tracker_sound t d x1 x2
      refine ⟨y1, ?_⟩
      cases hx : c2.announced d with
      | false => rfl
      | true =>
        exfalso
        rcases (t4 d).mp hx with h | h
        · rw [y2] at h; cases h
        · have hcons : t ∈ j.consumers d := by
            simp only [Job.consumers, Job.taskIds, List.mem_filter, List.mem_range, List.contains_iff_mem]
            exact ⟨hA.h2x.tracked_valid t x1, y1⟩
          have hnd : s.ctl.doneC t = false := by
            cases hdn : s.ctl.doneC t with
            | false => rfl
            | true =>
              exfalso
              have := (hA.h2.ran_disp t (hA.h2.done_ran t hdn)).1
              have := (hA.h1.once.blocked t d x1 x2).1
              omega
          obtain ⟨p1, p2⟩ := hA.h2.ptrack_sound d t hcons hnd
          exact x3 d h p1 p2 (hX.tracker_nodup t) rfl
    · -- workers_cover
      intro w0 hw0
      rw [hctl]
      rcases hdone with ⟨_, hi, hon⟩ | ⟨w, ds, hev, hlast, hd, hmem, hon, hi⟩
      · rcases hF.workers_cover w0 hw0 with h | ⟨t0, h⟩
        · exact Or.inl (by rw [hi]; exact h)
        · exact Or.inr ⟨t0, (hfl1 _ _).mpr (by rw [hon]; exact (hfl0 _ _).mp h)⟩
      · by_cases hw : w0 = w
        · subst hw
          by_cases hcond : ((s.ctl.ongoing.erase (w0, ds.task)).any (·.1 == w0) || s.ctl.idle.contains w0) = true
          · rw [hi, if_pos hcond]
            rcases Bool.or_eq_true _ _ ▸ hcond with hany | hcont
            · simp only [List.any_eq_true, beq_iff_eq] at hany
              obtain ⟨⟨pw, pt⟩, hp1, hp2⟩ := hany
              simp only at hp2
              subst hp2
              exact Or.inr ⟨pt, (hfl1 _ _).mpr (by rw [hon]; exact hp1)⟩
            · exact Or.inl (by simpa using hcont)
          · rw [hi, if_neg hcond]
            exact Or.inl (by simp)
        · rcases hF.workers_cover w0 hw0 with h | ⟨t0, h⟩
          · exact Or.inl (by rw [hi]; exact sF_idle_sub _ _ _ _ h)
          · refine Or.inr ⟨t0, (hfl1 _ _).mpr ?_⟩
            rw [hon]
            have hne2 : (w0, t0) ≠ (w, ds.task) := by
              intro heq; exact hw (Prod.mk.inj heq).1
            exact (List.mem_erase_of_ne hne2).mpr ((hfl0 _ _).mp h)

/-! ### all base steps -/

theorem sF_step (f : Sem) (j : Job) (cl : Cluster) (s s' : Sys) (st : Step) (wf : WF j cl)
    (hA : InvAll f j cl s) (hF : InvFifo j cl s) (hX : InvFifoX s)
    (hfifo : ∀ evs, st = .recv evs → ∀ pend, takeEvents s.env.pending evs = some pend →
      ∀ t, evs.filterMap (noticeOf t) ++ pend.filterMap (noticeOf t) = s.env.pending.filterMap (noticeOf t))
    (hs : step f j cl s st = some s') : InvFifo j cl s' := by
  have hA' : InvAll f j cl s' := invAll_step f j cl s s' st wf hA hs
  cases st with
  | enter => exact sF_step_enter f j cl s s' hA hF hs
  | assign a => exact sF_step_assign f j cl s s' a hA hF hs
  | endAssign => exact sF_step_endAssign f j cl s s' hF hs
  | plan1 => exact sF_step_plan1 f j cl s s' hF hs
  | endPlan => exact sF_step_endPlan f j cl s s' hF hs
  | flushF1 => exact sF_step_flushF1 f j cl s s' hF hs
  | endFlushF => exact sF_step_endFlushF f j cl s s' hF hs
  | flushP1 => exact sF_step_flushP1 f j cl s s' hF hs
  | endFlush => exact sF_step_endFlush f j cl s s' hF hs
  | recv evs => exact sF_step_recv f j cl s s' evs hA hF (hfifo evs rfl) hs
  | notify1 => exact sF_step_notify1 f j cl s s' hA hA' hF hX hs
  | endNotify => exact sF_step_endNotify f j cl s s' hF hs
  | env es => exact sF_step_env f j cl s s' es hA hF hs

/-- the auxiliary conjunct (trackers have no duplicates) is preserved by every base step -/
theorem sF_x_step (f : Sem) (j : Job) (cl : Cluster) (s s' : Sys) (st : Step) (hX : InvFifoX s)
    (hs : step f j cl s st = some s') : InvFifoX s' := by
  have key : (∀ t, (s.ctl.tracker t).Nodup → (s'.ctl.tracker t).Nodup) → InvFifoX s' :=
    fun h => ⟨fun t => h t (hX.tracker_nodup t)⟩
  apply key
  cases st with
  | enter =>
    simp only [step] at hs
    split at hs; · cases hs
    split at hs <;> (cases hs; exact fun t h => h)
  | assign a =>
    simp only [step] at hs
    split at hs; · cases hs
    split at hs
    · cases hs
    · cases hs; exact fun t h => h
    · rename_i c2 prep has
      cases hs
      obtain ⟨_, _, _, ftr, _⟩ := sF_assignOne_frames j cl s.ctl c2 a prep has
      intro t h; simp only [ftr]; exact h
  | endAssign =>
    simp only [step] at hs
    split at hs; · cases hs
    cases hs; exact fun t h => h
  | plan1 =>
    simp only [step] at hs
    split at hs; · cases hs
    split at hs
    · cases hs
    · split at hs
      · cases hs
      · cases hs; exact fun t h => h
      · rename_i c2 hpl
        cases hs
        obtain ⟨_, _, _, f4, _⟩ := planOne_frames j s.ctl c2 _ _ hpl
        intro t h; simp only [f4]; exact h
  | endPlan =>
    simp only [step] at hs
    split at hs; · cases hs
    cases hs; exact fun t h => h
  | flushF1 =>
    simp only [step] at hs
    split at hs; · cases hs
    split at hs
    · cases hs
    · cases hs; intro t h; simpa using h
  | endFlushF =>
    simp only [step] at hs
    split at hs; · cases hs
    cases hs; exact fun t h => h
  | flushP1 =>
    simp only [step] at hs
    split at hs; · cases hs
    split at hs
    · cases hs
    · split at hs
      · cases hs
      · cases hs; exact fun t h => h
      · rename_i c2 cmds hph
        cases hs
        have := purgeHosts_tracker _ _ _ _ _ _ hph
        intro t h; simp only [this]; exact h
  | endFlush =>
    simp only [step] at hs
    split at hs; · cases hs
    cases hs; exact fun t h => h
  | recv evs =>
    simp only [step] at hs
    split at hs; · cases hs
    split at hs
    · cases hs
    · cases hs; exact fun t h => h
  | notify1 =>
    simp only [step] at hs
    split at hs; · cases hs
    split at hs
    · cases hs
    · split at hs
      · cases hs
      · cases hs; exact fun t h => h
      · rename_i c2 hne
        cases hs
        exact (sF_notifyEvent_track j s.ctl c2 _ hne).1
  | endNotify =>
    simp only [step] at hs
    split at hs; · cases hs
    cases hs; exact fun t h => h
  | env es =>
    simp only [step] at hs
    split at hs; · cases hs
    cases he : envStep f j s.env es with
    | none => simp [he] at hs
    | some e' =>
      simp only [he, Option.map_some, Option.some.injEq] at hs
      subst hs
      exact fun t h => h

end EkwVerif.Ctrl
