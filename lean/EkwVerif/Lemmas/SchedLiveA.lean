/-
Tier L (liveness bookkeeping, any event order; `InvLive`, SchedLiveDefs.lean), part A: frame lemmas and the
specification of `notifyEvent` that the preservation proof needs.
-/
import EkwVerif.Lemmas.SchedInvDefs
import EkwVerif.Lemmas.CtrlFinal

namespace EkwVerif.Ctrl

/-- extra conjunct needed to make `InvLive.tracker_sound` inductive: trackers have no duplicates -/
structure InvLiveX (s : Sys) : Prop where
  tracker_nodup : ∀ t, (s.ctl.tracker t).Nodup

/-! ### environment frames -/

theorem sL_applyCmd_frame (j : Job) (cl : Cluster) (e : Env) (cmd : Cmd) :
    (applyCmd j cl e cmd).pending = e.pending ∧ (applyCmd j cl e cmd).ran = e.ran := by
  cases cmd <;> simp [applyCmd]

theorem sL_applyCmds_frame (j : Job) (cl : Cluster) (l : List Cmd) (e : Env) :
    (applyCmds j cl e l).pending = e.pending ∧ (applyCmds j cl e l).ran = e.ran := by
  induction l generalizing e with
  | nil => exact ⟨rfl, rfl⟩
  | cons x l ih =>
    have h1 := ih (applyCmd j cl e x)
    have h2 := sL_applyCmd_frame j cl e x
    simp only [applyCmds, List.foldl_cons] at h1 ⊢
    exact ⟨h1.1.trans h2.1, h1.2.trans h2.2⟩

theorem sL_markDelivered_frame (l : List Event) (e : Env) :
    (markDelivered e l).pending = e.pending ∧ (markDelivered e l).ran = e.ran := by
  induction l generalizing e with
  | nil => simp [markDelivered]
  | cons x l ih =>
    simp only [markDelivered, List.foldl_cons] at ih ⊢
    cases x <;> simp [ih]

/-! ### controller frames -/

theorem sL_planOne_frames (j : Job) (c c' : Ctl) (a : Asg) (prep : List (Ds × Host)) (h : planOne j c a prep = .ok c') :
    c'.announced = c.announced ∧ c'.doneC = c.doneC := by
  have fold : ∀ (l : List Ds) (w : Worker) (c0 : Ctl),
      let r := l.foldl (fun c ds => setPreparingAt c ds w) c0
      r.announced = c0.announced ∧ r.doneC = c0.doneC := by
    intro l w
    induction l with
    | nil => intro c0; simp
    | cons x l ih => intro c0; simp only [List.foldl_cons]; have := ih (setPreparingAt c0 x w); simpa using this
  have fold2 : ∀ (l : List (Ds × Host)) (w : Worker) (c0 : Ctl),
      let r := l.foldl (fun c p => setPreparingAt c p.1 w) c0
      r.announced = c0.announced ∧ r.doneC = c0.doneC := by
    intro l w
    induction l with
    | nil => intro c0; simp
    | cons x l ih => intro c0; simp only [List.foldl_cons]; have := ih (setPreparingAt c0 x.1 w); simpa using this
  unfold planOne at h
  split at h
  · cases h
  · dsimp only at h
    split at h
    · cases h
    · simp only [Except.ok.injEq] at h
      subst h
      have h1 := fold2 prep a.worker c
      have h2 := fold (j.outputsOf a.task) a.worker (prep.foldl (fun c p => setPreparingAt c p.1 a.worker) c)
      dsimp only at h1 h2
      exact ⟨by simp [h2.1, h1.1], by simp [h2.2, h1.2]⟩

theorem sL_assignOne_frames (j : Job) (cl : Cluster) (c c' : Ctl) (a : Asg) (p : List (Ds × Host))
    (hr : assignOne j cl c a = .ok (c', p)) :
    c'.announced = c.announced ∧ c'.doneC = c.doneC ∧ c'.tracked = c.tracked ∧ c'.tracker = c.tracker ∧
    c'.computable = c.computable.erase a.task := by
  unfold assignOne at hr
  split at hr; · cases hr
  split at hr; · cases hr
  split at hr; · cases hr
  split at hr; · cases hr
  rename_i c2 prep hb
  simp only [Except.ok.injEq, Prod.mk.injEq] at hr
  obtain ⟨rfl, rfl⟩ := hr
  have f1 := buildPrep_computable _ _ _ _ _ _ _ hb
  have f3 := buildPrep_tracked _ _ _ _ _ _ _ hb
  have f4 := buildPrep_tracker _ _ _ _ _ _ _ hb
  have f5 := buildPrep_announced _ _ _ _ _ _ _ hb
  have f6 := buildPrep_doneC _ _ _ _ _ _ _ hb
  exact ⟨by simp [f5], by simp [f6], by simp [f3], by simp [f4], by simp [f1]⟩

/-! ### `consider_computable`: what happens to the trackers -/

theorem sL_considerChild_spec (c : Ctl) (ds : Ds) (ch : Task) :
    (∀ t, (c.tracker t).Nodup → ((considerChild c ds ch).tracker t).Nodup) ∧
    (∀ t, (t ∈ c.computable ∨ (c.tracked t = true ∧ ∃ d, d ∈ c.tracker t)) →
      (t ∈ (considerChild c ds ch).computable ∨
        ((considerChild c ds ch).tracked t = true ∧ ∃ d, d ∈ (considerChild c ds ch).tracker t))) ∧
    (∀ t d, (considerChild c ds ch).tracked t = true → d ∈ (considerChild c ds ch).tracker t →
      c.tracked t = true ∧ d ∈ c.tracker t ∧ (t = ch → (c.tracker t).Nodup → d ≠ ds)) := by
  unfold considerChild
  split
  · rename_i hc
    simp only [Bool.and_eq_true, List.contains_iff_mem] at hc
    obtain ⟨htr, hmem⟩ := hc
    dsimp only
    split
    · rename_i hemp
      refine ⟨?_, ?_, ?_⟩
      · intro t hn
        by_cases htc : t = ch
        · subst htc; simp only [upd_same]; exact hn.erase _
        · simp only [upd_other _ _ _ _ htc]; exact hn
      · intro t ht
        by_cases htc : t = ch
        · subst htc; left; simp
        · simp only [upd_other _ _ _ _ htc, List.mem_append, List.mem_singleton]
          rcases ht with ht | ht
          · exact Or.inl (Or.inl ht)
          · exact Or.inr ht
      · intro t d ht hd
        by_cases htc : t = ch
        · subst htc; simp at ht
        · simp only [upd_other _ _ _ _ htc] at ht hd
          exact ⟨ht, hd, fun h => absurd h htc⟩
    · rename_i hemp
      refine ⟨?_, ?_, ?_⟩
      · intro t hn
        by_cases htc : t = ch
        · subst htc; simp only [upd_same]; exact hn.erase _
        · simp only [upd_other _ _ _ _ htc]; exact hn
      · intro t ht
        by_cases htc : t = ch
        · subst htc
          right
          simp only [upd_same]
          refine ⟨htr, ?_⟩
          cases hx : (c.tracker t).erase ds with
          | nil => simp [hx] at hemp
          | cons y ys => exact ⟨y, by simp⟩
        · simp only [upd_other _ _ _ _ htc]
          exact ht
      · intro t d ht hd
        by_cases htc : t = ch
        · subst htc
          simp only [upd_same] at hd
          refine ⟨ht, List.mem_of_mem_erase hd, fun _ hn => ?_⟩
          intro heq; subst heq
          exact (List.Nodup.not_mem_erase hn) hd
        · simp only [upd_other _ _ _ _ htc] at hd
          exact ⟨ht, hd, fun h => absurd h htc⟩
  · rename_i hc
    refine ⟨fun t hn => hn, fun t ht => ht, ?_⟩
    intro t d ht hd
    refine ⟨ht, hd, ?_⟩
    intro htc _ heq
    subst htc; subst heq
    apply hc
    simp [ht, hd]

theorem sL_fold_spec (ds : Ds) (l : List Task) (c : Ctl) :
    (∀ t, (c.tracker t).Nodup → ((l.foldl (fun c ch => considerChild c ds ch) c).tracker t).Nodup) ∧
    (∀ t, (t ∈ c.computable ∨ (c.tracked t = true ∧ ∃ d, d ∈ c.tracker t)) →
      (t ∈ (l.foldl (fun c ch => considerChild c ds ch) c).computable ∨
        ((l.foldl (fun c ch => considerChild c ds ch) c).tracked t = true ∧
          ∃ d, d ∈ (l.foldl (fun c ch => considerChild c ds ch) c).tracker t))) ∧
    (∀ t d, (l.foldl (fun c ch => considerChild c ds ch) c).tracked t = true →
      d ∈ (l.foldl (fun c ch => considerChild c ds ch) c).tracker t →
      c.tracked t = true ∧ d ∈ c.tracker t ∧ (t ∈ l → (c.tracker t).Nodup → d ≠ ds)) := by
  induction l generalizing c with
  | nil =>
    refine ⟨fun t hn => hn, fun t ht => ht, fun t d ht hd => ⟨ht, hd, fun h => by cases h⟩⟩
  | cons a l ih =>
    simp only [List.foldl_cons]
    obtain ⟨a1, a2, a3⟩ := sL_considerChild_spec c ds a
    obtain ⟨b1, b2, b3⟩ := ih (considerChild c ds a)
    refine ⟨fun t hn => b1 t (a1 t hn), fun t ht => b2 t (a2 t ht), ?_⟩
    intro t d ht hd
    obtain ⟨x1, x2, x3⟩ := b3 t d ht hd
    obtain ⟨y1, y2, y3⟩ := a3 t d x1 x2
    refine ⟨y1, y2, ?_⟩
    intro hmem hn
    rcases List.mem_cons.mp hmem with rfl | hmem
    · exact y3 rfl hn
    · exact x3 hmem (a1 t hn)

theorem sL_considerComputable_spec (c : Ctl) (ds : Ds) :
    (∀ t, (c.tracker t).Nodup → ((considerComputable c ds).tracker t).Nodup) ∧
    (∀ t, (t ∈ c.computable ∨ (c.tracked t = true ∧ ∃ d, d ∈ c.tracker t)) →
      (t ∈ (considerComputable c ds).computable ∨
        ((considerComputable c ds).tracked t = true ∧ ∃ d, d ∈ (considerComputable c ds).tracker t))) ∧
    (∀ t d, (considerComputable c ds).tracked t = true → d ∈ (considerComputable c ds).tracker t →
      c.tracked t = true ∧ d ∈ c.tracker t ∧
        (c.ptracked ds = true → t ∈ c.ptrack ds → (c.tracker t).Nodup → d ≠ ds)) := by
  unfold considerComputable
  dsimp only
  obtain ⟨a1, a2, a3⟩ := sL_fold_spec ds (if c.ptracked ds = true then c.ptrack ds else []) c
  refine ⟨a1, a2, ?_⟩
  intro t d ht hd
  obtain ⟨x1, x2, x3⟩ := a3 t d ht hd
  refine ⟨x1, x2, ?_⟩
  intro hp hm
  exact x3 (by simp [hp, hm])

/-! ### `notifyEvent` -/

/-- the dataset an event announces -/
def sL_evDs : Event → Option Ds
  | .pubW _ ds => some ds
  | .pubT _ ds => some ds
  | .payload _ _ => none

/-- trackers, computable, announced across one notified event -/
theorem sL_notifyEvent_track (j : Job) (c c' : Ctl) (ev : Event) (h : notifyEvent j c ev = .ok c') :
    (∀ t, (c.tracker t).Nodup → (c'.tracker t).Nodup) ∧
    (∀ t, (t ∈ c.computable ∨ (c.tracked t = true ∧ ∃ d, d ∈ c.tracker t)) →
      (t ∈ c'.computable ∨ (c'.tracked t = true ∧ ∃ d, d ∈ c'.tracker t))) ∧
    (∀ t d, c'.tracked t = true → d ∈ c'.tracker t →
      c.tracked t = true ∧ d ∈ c.tracker t ∧
        (∀ ds, sL_evDs ev = some ds → c.ptracked ds = true → t ∈ c.ptrack ds → (c.tracker t).Nodup → d ≠ ds)) ∧
    (∀ d, c'.announced d = true ↔ (c.announced d = true ∨ sL_evDs ev = some d)) := by
  cases ev with
  | payload ds v =>
    simp only [notifyEvent, Except.ok.injEq] at h; subst h
    refine ⟨fun t hn => hn, fun t ht => ht, fun t d ht hd => ⟨ht, hd, fun ds hx => by cases hx⟩, ?_⟩
    intro d; simp [sL_evDs]
  | pubT hst ds =>
    simp only [notifyEvent, Except.ok.injEq] at h; subst h
    obtain ⟨a1, a2, a3⟩ := sL_considerComputable_spec (considerFetch j (markAvailable c hst ds) ds hst) ds
    simp only [considerFetch_tracker, markAvailable_tracker, considerFetch_tracked, markAvailable_tracked,
      considerFetch_computable, markAvailable_computable, considerFetch_ptrack, markAvailable_ptrack,
      considerFetch_ptracked, markAvailable_ptracked] at a1 a2 a3
    refine ⟨a1, a2, ?_, ?_⟩
    · intro t d ht hd
      obtain ⟨x1, x2, x3⟩ := a3 t d ht hd
      refine ⟨x1, x2, ?_⟩
      intro ds' hds'
      simp only [sL_evDs, Option.some.injEq] at hds'
      subst hds'
      exact x3
    · intro d
      simp only [considerComputable_announced, considerFetch_announced, markAvailable, sL_evDs, Option.some.injEq]
      by_cases hd : d = ds
      · subst hd; simp
      · simp [hd, Ne.symm hd]
  | pubW w ds =>
    obtain ⟨a1, a2, a3⟩ := sL_considerComputable_spec (considerFetch j (markAvailable c w.host ds) ds w.host) ds
    simp only [considerFetch_tracker, markAvailable_tracker, considerFetch_tracked, markAvailable_tracked,
      considerFetch_computable, markAvailable_computable, considerFetch_ptrack, markAvailable_ptrack,
      considerFetch_ptracked, markAvailable_ptracked] at a1 a2 a3
    have hann : ∀ d, (considerComputable (considerFetch j (markAvailable c w.host ds) ds w.host) ds).announced d = true ↔
        (c.announced d = true ∨ sL_evDs (Event.pubW w ds) = some d) := by
      intro d
      simp only [considerComputable_announced, considerFetch_announced, markAvailable, sL_evDs, Option.some.injEq]
      by_cases hd : d = ds
      · subst hd; simp
      · simp [hd, Ne.symm hd]
    have a3' : ∀ t d, (considerComputable (considerFetch j (markAvailable c w.host ds) ds w.host) ds).tracked t = true →
        d ∈ (considerComputable (considerFetch j (markAvailable c w.host ds) ds w.host) ds).tracker t →
        c.tracked t = true ∧ d ∈ c.tracker t ∧
        (∀ ds', sL_evDs (Event.pubW w ds) = some ds' → c.ptracked ds' = true → t ∈ c.ptrack ds' →
          (c.tracker t).Nodup → d ≠ ds') := by
      intro t d ht hd
      obtain ⟨x1, x2, x3⟩ := a3 t d ht hd
      refine ⟨x1, x2, ?_⟩
      intro ds' hds'
      simp only [sL_evDs, Option.some.injEq] at hds'
      subst hds'
      exact x3
    simp only [notifyEvent] at h
    split at h
    · split at h
      · cases h
      · rename_i c2 hc2
        have e1 := completeInputs_tracker _ _ _ _ _ hc2
        have e2 := completeInputs_tracked _ _ _ _ _ hc2
        have e3 := completeInputs_computable _ _ _ _ _ hc2
        have e4 := completeInputs_announced _ _ _ _ _ hc2
        simp only [markPublished_tracker, markPublished_tracked, markPublished_computable, markPublished_announced] at e1 e2 e3 e4
        split at h
        · simp only [Except.ok.injEq] at h; subst h
          simp only [e1, e2, e3, e4]
          exact ⟨a1, a2, a3', hann⟩
        · cases h
    · simp only [Except.ok.injEq] at h; subst h
      simp only [markPublished_tracker, markPublished_tracked, markPublished_computable, markPublished_announced]
      exact ⟨a1, a2, a3', hann⟩

/-- completion bookkeeping across one notified event: the completions, `idle` and `ongoing` move only when a worker's
notice completes its task, i.e. when the notices of ALL outputs of the task have then been processed -/
theorem sL_notifyEvent_done (j : Job) (c c' : Ctl) (ev : Event) (h : notifyEvent j c ev = .ok c') :
    (c'.doneC = c.doneC ∧ c'.idle = c.idle ∧ c'.ongoing = c.ongoing) ∨
    (∃ w ds, ev = Event.pubW w ds ∧ (∀ k, k < j.nOut ds.task → c'.published ⟨ds.task, k⟩ = true) ∧
       c'.doneC = upd c.doneC ds.task true ∧
       (w, ds.task) ∈ c.ongoing ∧ c'.ongoing = c.ongoing.erase (w, ds.task) ∧
       c'.idle = (if (c.ongoing.erase (w, ds.task)).any (·.1 == w) || c.idle.contains w then c.idle
                  else c.idle ++ [w])) := by
  cases ev with
  | payload ds v => simp only [notifyEvent, Except.ok.injEq] at h; subst h; exact Or.inl ⟨rfl, rfl, rfl⟩
  | pubT hst ds => simp only [notifyEvent, Except.ok.injEq] at h; subst h; exact Or.inl ⟨by simp, by simp, by simp⟩
  | pubW w ds =>
    simp only [notifyEvent] at h
    split at h
    · rename_i hall
      have hall' := (allPublished_iff j _ ds.task).mp hall
      split at h
      · cases h
      · rename_i c2 hc2
        have e0 := completeInputs_published _ _ _ _ _ hc2
        have e1 := completeInputs_doneC _ _ _ _ _ hc2
        have e2 := completeInputs_idle _ _ _ _ _ hc2
        have e3 := completeInputs_ongoing _ _ _ _ _ hc2
        simp only [markPublished_doneC, markPublished_idle, markPublished_ongoing,
          considerComputable_doneC, considerFetch_doneC, markAvailable_doneC,
          considerComputable_idle, considerFetch_idle, markAvailable_idle,
          considerComputable_ongoing, considerFetch_ongoing, markAvailable_ongoing] at e1 e2 e3
        split at h
        · rename_i hin
          simp only [Except.ok.injEq] at h; subst h
          refine Or.inr ⟨w, ds, rfl, ?_, by simp [e1], ?_, by simp [e3], ?_⟩
          · intro k hk; simp only [e0]; exact hall' k hk
          · rw [← e3]; simpa using hin
          · simp only [e2, e3]
        · cases h
    · simp only [Except.ok.injEq] at h; subst h
      exact Or.inl ⟨by simp, by simp, by simp⟩

end EkwVerif.Ctrl
