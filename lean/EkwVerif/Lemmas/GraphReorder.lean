/-
Helper lemmas for Props/C11.lean: the graph re-listed in the order in which `Transformer.transform`
finishes its nodes is well formed and every node denotes / computes what it did.
-/
import EkwVerif.Lemmas.GraphTraverse
import EkwVerif.Lemmas.GraphFuse

namespace EkwVerif.Graph.Aux
open EkwVerif.Graph

/-- a node with its references re-indexed to positions in `ord` -/
def reNode (ord : List Nat) (n : Node) : Node :=
  { n with inputs := n.inputs.map fun x => (x.1, (ord.idxOf x.2.1, x.2.2)) }

def reAt (ns : List Node) (ord : List Nat) (i : Nat) : Node :=
  match ns[i]? with
  | none => { name := [], outputs := [], payload := nonePayload, inputs := [] }
  | some n => reNode ord n

theorem reorder_nodes (g : Graph) (ord : List Nat) : (reorder g ord).nodes = ord.map (reAt g.nodes ord) := rfl

theorem lookup_reNode (ord : List Nat) (n : Node) (k : Name) :
    (reNode ord n).inputs.lookup k = (n.inputs.lookup k).map fun r => (ord.idxOf r.1, r.2) := by
  unfold reNode
  simp only
  induction n.inputs with
  | nil => rfl
  | cons x ins ih =>
    obtain ⟨k', r⟩ := x
    simp only [List.map_cons, List.lookup_cons]
    cases (k == k') with
    | false => exact ih
    | true => rfl

/-- well-formedness from the positions -/
theorem wf_of_positions (l : List Node) (h : ∀ (p : Nat) (n : Node), l[p]? = some n → NodeOK (l.take p) n) : WFNodes l := by
  suffices hs : ∀ k, k ≤ l.length → WFNodes (l.take k) by
    have := hs l.length (Nat.le_refl _)
    rwa [List.take_length] at this
  intro k
  induction k with
  | zero => intro _; simp [WFNodes, wfFrom]
  | succ k ih =>
    intro hk
    have hlt : k < l.length := by omega
    have hget : l[k]? = some l[k] := List.getElem?_eq_getElem hlt
    have htake : l.take (k + 1) = l.take k ++ [l[k]] := by rw [List.take_add_one, hget]; rfl
    rw [htake]
    exact (wf_snoc _ _).2 ⟨ih (by omega), h k _ hget⟩

/-- facts about a finishing order: positions -/
structure OrdOK (ns : List Node) (ord : List Nat) : Prop where
  nodup : ord.Nodup
  closed : ∀ i ∈ ord, ∃ n, ns[i]? = some n ∧ ∀ x ∈ n.inputs, x.2.1 ∈ ord ∧ ord.idxOf x.2.1 < ord.idxOf i

theorem ordOK_of_topo (ns : List Node) (ord : List Nat) (h : TopoFrom ns [] ord) : OrdOK ns ord := by
  refine ⟨by simpa using topoFrom_nodup ns [] ord h (by simp), ?_⟩
  intro i hi
  obtain ⟨n, hn, _⟩ := topoFrom_closed ns [] ord h i hi
  refine ⟨n, hn, fun x hx => ?_⟩
  rcases topoFrom_before ns [] ord h i hi n hn x hx with h1 | h1
  · cases h1
  · exact h1

theorem get_idxOf (ord : List Nat) (i : Nat) (hi : i ∈ ord) : ord[ord.idxOf i]? = some i := by
  have hlt := List.idxOf_lt_length_iff.2 hi
  rw [List.getElem?_eq_getElem hlt, List.getElem_idxOf hlt]

theorem reorder_get (ns : List Node) (ord : List Nat) (i : Nat) (n : Node) (hi : i ∈ ord) (hn : ns[i]? = some n) :
    (ord.map (reAt ns ord))[ord.idxOf i]? = some (reNode ord n) := by
  rw [List.getElem?_map, get_idxOf ord i hi]
  simp [reAt, hn]

theorem reorder_wf (g : Graph) (h : g.WF) (ord : List Nat) (hord : OrdOK g.nodes ord) (hs : ∀ s ∈ g.sinks, s ∈ ord) :
    (reorder g ord).WF := by
  refine ⟨?_, ?_⟩
  · rw [reorder_nodes]
    apply wf_of_positions
    intro p m hm
    rw [List.getElem?_map] at hm
    cases hp : ord[p]? with
    | none => simp [hp] at hm
    | some i =>
      simp only [hp, Option.map_some, Option.some.injEq] at hm
      have hplt : p < ord.length := (List.getElem?_eq_some_iff.1 hp).1
      have hi : i ∈ ord := List.mem_of_getElem? hp
      have hpi : ord.idxOf i = p := by
        have := hord.nodup.idxOf_getElem p hplt
        rw [List.getElem?_eq_getElem hplt] at hp
        cases hp
        exact this
      obtain ⟨n, hn, hpar⟩ := hord.closed i hi
      have hm' : m = reNode ord n := by rw [← hm]; simp [reAt, hn]
      subst hm'
      have hok := wf_get g.nodes h.nodes i n hn
      refine ⟨?_, ?_⟩
      · have : (reNode ord n).inputs.map (·.1) = n.inputs.map (·.1) := by simp [reNode, Function.comp_def]
        rw [this]; exact hok.1
      · intro y hy
        simp only [reNode, List.mem_map] at hy
        obtain ⟨x, hx, rfl⟩ := hy
        obtain ⟨hjm, hjlt⟩ := hpar x hx
        obtain ⟨m0, hm0, ho⟩ := hok.2 x hx
        have hm0' : g.nodes[x.2.1]? = some m0 := get_of_prefix' (List.take_prefix i g.nodes) hm0
        refine ⟨reNode ord m0, ?_, ho⟩
        show (List.take p (ord.map (reAt g.nodes ord)))[ord.idxOf x.2.1]? = _
        rw [List.getElem?_take_of_lt (by omega)]
        exact reorder_get g.nodes ord x.2.1 m0 hjm hm0'
  · intro s hs'
    simp only [reorder, List.mem_map] at hs'
    obtain ⟨s0, hs0, rfl⟩ := hs'
    show ord.idxOf s0 < (ord.map (reAt g.nodes ord)).length
    rw [List.length_map]
    exact List.idxOf_lt_length_iff.2 (hs s0 hs0)
where
  get_of_prefix' {α : Type} {a b : List α} (h : a <+: b) {i : Nat} {x : α} (hx : a[i]? = some x) : b[i]? = some x := by
    obtain ⟨t, rfl⟩ := h
    exact get_append_of_some hx t

/-- every finished node denotes in the re-listed graph what it denotes in the input -/
theorem den_reorder (ns : List Node) (hwf : WFNodes ns) (ord : List Nat) (hord : OrdOK ns ord) :
    ∀ i, i ∈ ord → den (ord.map (reAt ns ord)) (ord.idxOf i) = den ns i := by
  intro i
  induction i using Nat.strongRecOn with
  | _ i ih =>
    intro hi
    obtain ⟨n, hn, hpar⟩ := hord.closed i hi
    have hilt : i < ns.length := (List.getElem?_eq_some_iff.1 hn).1
    have hget := reorder_get ns ord i n hi hn
    rw [den_at _ _ _ hget, den_at ns i n hn]
    congr 1
    refine termOf_congr _ _ (reNode ord n) n rfl rfl ?_
    intro k
    rw [lookup_reNode]
    cases hl : n.inputs.lookup k with
    | none => rfl
    | some r =>
      simp only [Option.map_some]
      have hmem := mem_of_lookup hl
      obtain ⟨hjm, hjlt⟩ := hpar _ hmem
      have hjlt' : r.1 < i := by
        have := nodeOK_lt (wf_get ns hwf i n hn) _ hmem
        simp only [List.length_take] at this; omega
      have hple : ord.idxOf i ≤ (ord.map (reAt ns ord)).length := by
        simp only [List.length_map]; exact Nat.le_of_lt (List.idxOf_lt_length_iff.2 hi)
      rw [denAll_take_get _ _ _ hjlt hple, denAll_take_get ns i r.1 hjlt' (Nat.le_of_lt hilt), ih r.1 hjlt' hjm]

/-- … and has the same value under every interpretation -/
theorem eval_reorder {V : Type} (I : Interp V) (ns : List Node) (hwf : WFNodes ns) (ord : List Nat) (hord : OrdOK ns ord) :
    ∀ i, i ∈ ord → eval I (ord.map (reAt ns ord)) (ord.idxOf i) = eval I ns i := by
  intro i
  induction i using Nat.strongRecOn with
  | _ i ih =>
    intro hi
    obtain ⟨n, hn, hpar⟩ := hord.closed i hi
    have hilt : i < ns.length := (List.getElem?_eq_some_iff.1 hn).1
    have hget := reorder_get ns ord i n hi hn
    rw [eval_at I _ _ _ hget, eval_at I ns i n hn]
    congr 1
    funext o
    simp only [nodeVal]
    congr 1
    funext k
    rw [lookup_reNode]
    cases hl : n.inputs.lookup k with
    | none => rfl
    | some r =>
      simp only [Option.map_some, Option.bind_some]
      have hmem := mem_of_lookup hl
      obtain ⟨hjm, hjlt⟩ := hpar _ hmem
      have hjlt' : r.1 < i := by
        have := nodeOK_lt (wf_get ns hwf i n hn) _ hmem
        simp only [List.length_take] at this; omega
      have hple : ord.idxOf i ≤ (ord.map (reAt ns ord)).length := by
        simp only [List.length_map]; exact Nat.le_of_lt (List.idxOf_lt_length_iff.2 hi)
      have h1 := storeEnv_take I (ord.map (reAt ns ord)) (ord.idxOf i) (ord.idxOf r.1, r.2) hjlt hple
      have h2 := storeEnv_take I ns i r hjlt' (Nat.le_of_lt hilt)
      show storeEnv I _ (ord.idxOf r.1, r.2) = storeEnv I _ r
      rw [h1, h2, storeEnv_eq, storeEnv_eq, ih r.1 hjlt' hjm]

end EkwVerif.Graph.Aux
