/-
Extra tier: what the controller remembers about the assignments of the current iteration
(`Sys.todo`) between `assign` and `plan`. Found necessary for `.plan1` (reported by the i4b proof
slice): nothing else constrains the `prep` lists stored in `todo`.
-/
import EkwVerif.Lemmas.CtrlInvDefs

namespace EkwVerif.Ctrl

structure InvT (j : Job) (s : Sys) : Prop where
  todo_prep : ∀ a prep, (a, prep) ∈ s.todo → ∀ p, p ∈ prep →
      s.ctl.hostDs a.worker.host p.1 ≠ .missing ∧ p.1 ∈ j.inputs a.task
  /-- no output of a task assigned in the current iteration has been announced yet (found by the i4a slice) -/
  todo_unannounced : ∀ w t, (w, t) ∈ s.todoPairs → ∀ k, s.ctl.announced ⟨t, k⟩ = false

end EkwVerif.Ctrl
