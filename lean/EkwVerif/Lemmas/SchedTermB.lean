/-
Termination of the extended system, part B: DEADLOCK FREEDOM. In every reachable state of the extended system
(controller + scheduler bookkeeping + abstract executors) on a feasible cluster, unless the controller loop has exited
(`finished`), some step is enabled; in every phase other than `waiting` it is a step of the CONTROLLER — in particular
inside `assign()` / `_assignment_heuristic`, where the existence of an admissible assignment is `sT_assign_exists`.
-/
import EkwVerif.Lemmas.SchedTermA

set_option linter.unusedVariables false
set_option linter.unusedSimpArgs false

namespace EkwVerif.Ctrl

def StepX.isEnv : StepX → Bool
  | .base (.env _) => true
  | _ => false

theorem sT_not_crashed (f : Sem) (j : Job) (cl : Cluster) (wf : WF j cl) (s : Sys) (hr : Reachable f j cl s) :
    s.err = none ∧ s.phase ≠ .crashed := by
  have h := invAll_reachable f j cl wf s hr
  have hF := invF_reachable f j cl s hr
  have herr : s.err = none := by
    cases he : s.err with
    | none => rfl
    | some e =>
      have hm := hF.err_msg e he
      simp only [crashMsgs, List.mem_cons, List.not_mem_nil, or_false] at hm
      rcases hm with rfl | rfl | rfl | rfl | rfl | rfl
      · exact absurd he h.h4.no_err_notfound
      · exact absurd he h.h2.no_err_plan
      · exact absurd he h.h1.no_double_add
      · exact absurd he h.h4.no_err_pop
      · exact absurd he h.h2.no_err_tracker
      · exact absurd he h.h2.no_err_ongoing
  refine ⟨herr, ?_⟩
  intro hp
  have := hF.err_phase.mpr hp
  simp [herr] at this

/-- the base steps that the extended system passes through unchanged -/
def sT_plain : Step → Bool
  | .endPlan | .flushF1 | .endFlushF | .flushP1 | .endFlush | .recv _ | .endNotify | .env _ => true
  | _ => false

theorem sT_stepX_plain (f : Sem) (j : Job) (cl : Cluster) (cm : Comps) (x : SysX) (st : Step) (s' : Sys)
    (hp : sT_plain st = true) (he : x.sch.schErr = none) (hs : step f j cl x.sys st = some s') :
    stepX f j cl cm x (.base st) = some { sys := s', sch := x.sch } := by
  cases st <;> simp only [sT_plain, Bool.false_eq_true] at hp <;> simp [stepX, he, hs]

/-- **A controller step is enabled** in every reachable state whose phase is neither `finished` nor `waiting`. -/
theorem sT_ctrl_enabled (f : Sem) (j : Job) (cl : Cluster) (cm : Comps) (wf : WF j cl) (wfc : WFC j cm) (x : SysX)
    (hr : ReachableX f j cl cm x) (hnf : x.sys.phase ≠ .finished) (hnw : x.sys.phase ≠ .waiting) :
    ∃ st x', stepX f j cl cm x st = some x' ∧ st.isEnv = false := by
  have hX := invX_reachable f j cl cm wf wfc x hr
  have hE := sT_invE_reachable f j cl cm x hr
  have hR := sL_reachableX_base f j cl cm x hr
  have hnc := (sT_not_crashed f j cl wf x.sys hR).2
  have hne : x.sch.schErr = none := hX.hS.no_schErr
  have hnes : x.sch.schErr.isSome = false := by rw [hne]; rfl
  cases hph : x.sys.phase with
  | finished => exact absurd hph hnf
  | waiting => exact absurd hph hnw
  | crashed => exact absurd hph hnc
  | top =>
    have : ∃ s', step f j cl x.sys .enter = some s' := by
      cases hst : step f j cl x.sys .enter with
      | some s' => exact ⟨s', rfl⟩
      | none =>
        exfalso
        simp only [step, hph] at hst
        split at hst
        · rename_i hc; simp at hc
        · split at hst <;> cases hst
    obtain ⟨s', hs'⟩ := this
    exact ⟨.base .enter, _, by simp only [stepX, hnes, hs', Option.map_some]; rfl, rfl⟩
  | planning =>
    cases htd : x.sys.todo with
    | nil =>
      have hs' : step f j cl x.sys .endPlan = some { x.sys with phase := .flushF } := by
        simp [step, hph, htd]
      exact ⟨.base .endPlan, _, sT_stepX_plain f j cl cm x _ _ rfl hne hs', rfl⟩
    | cons p rest =>
      obtain ⟨a, prep⟩ := p
      have : ∃ s', step f j cl x.sys .plan1 = some s' := by
        simp only [step, hph, htd]
        cases hpl : planOne j x.sys.ctl a prep with
        | ok c => exact ⟨_, rfl⟩
        | error e =>
          cases e with
          | raised m => exact ⟨_, rfl⟩
          | oracle m =>
            exfalso
            unfold planOne at hpl
            split at hpl
            · cases hpl
            · dsimp only at hpl
              split at hpl <;> cases hpl
      obtain ⟨s', hs'⟩ := this
      exact ⟨.base .plan1, _, by simp only [stepX, hnes, htd, hs', Option.map_some]; rfl, rfl⟩
  | flushF =>
    cases hq : x.sys.ctl.fetchQ with
    | nil =>
      have hs' : step f j cl x.sys .endFlushF = some { x.sys with phase := .flushP } := by
        simp [step, hph, hq]
      exact ⟨.base .endFlushF, _, sT_stepX_plain f j cl cm x _ _ rfl hne hs', rfl⟩
    | cons p rest =>
      have : ∃ s', step f j cl x.sys .flushF1 = some s' := by
        simp only [step, hph, hq]
        exact ⟨_, rfl⟩
      obtain ⟨s', hs'⟩ := this
      exact ⟨.base .flushF1, _, sT_stepX_plain f j cl cm x _ _ rfl hne hs', rfl⟩
  | flushP =>
    cases hq : x.sys.ctl.purgeQ with
    | nil =>
      have : ∃ s', step f j cl x.sys .endFlush = some s' := by
        simp only [step, hph, hq]
        exact ⟨_, rfl⟩
      obtain ⟨s', hs'⟩ := this
      exact ⟨.base .endFlush, _, sT_stepX_plain f j cl cm x _ _ rfl hne hs', rfl⟩
    | cons ds rest =>
      have : ∃ s', step f j cl x.sys .flushP1 = some s' := by
        simp only [step, hph, hq]
        cases hpu : purgeHosts cl ds x.sys.ctl cl.hosts with
        | ok r => obtain ⟨c, cmds⟩ := r; exact ⟨_, rfl⟩
        | error e =>
          have := purgeHosts_err _ _ _ _ _ hpu
          subst this
          exact ⟨_, rfl⟩
      obtain ⟨s', hs'⟩ := this
      exact ⟨.base .flushP1, _, sT_stepX_plain f j cl cm x _ _ rfl hne hs', rfl⟩
  | notifying =>
    cases hib : x.sys.inbox with
    | nil =>
      have hs' : step f j cl x.sys .endNotify = some { x.sys with phase := .top } := by
        simp [step, hph, hib]
      exact ⟨.base .endNotify, _, sT_stepX_plain f j cl cm x _ _ rfl hne hs', rfl⟩
    | cons ev rest =>
      have : ∃ s', step f j cl x.sys .notify1 = some s' := by
        simp only [step, hph, hib]
        cases hn : notifyEvent j x.sys.ctl ev with
        | ok c => exact ⟨_, rfl⟩
        | error e =>
          cases e with
          | raised m => exact ⟨_, rfl⟩
          | oracle m =>
            exfalso
            cases ev with
            | payload ds v => simp [notifyEvent] at hn
            | pubT hh ds => simp [notifyEvent] at hn
            | pubW w ds =>
              simp only [notifyEvent] at hn
              split at hn
              · split at hn
                · rename_i e2 hci
                  simp only [Except.error.injEq] at hn
                  subst hn
                  have : ∀ (l : List Ds) (c0 : Ctl) (e : Err), completeInputs j ds.task c0 l = .error e →
                      e = .raised "KeyError: purging_tracker removal" := by
                    intro l
                    induction l with
                    | nil => intro c0 e h0; simp [completeInputs] at h0
                    | cons y l ih =>
                      intro c0 e h0
                      unfold completeInputs at h0
                      split at h0
                      · exact ih _ _ h0
                      · simp only [Except.error.injEq] at h0; exact h0.symm
                  have := this _ _ _ hci
                  cases this
                · split at hn <;> cases hn
              · cases hn
      obtain ⟨s', hs'⟩ := this
      refine ⟨.base .notify1, ?_⟩
      simp only [stepX, hnes, hib, hs', Option.map_some, Bool.false_eq_true, if_false]
      exact ⟨_, rfl, rfl⟩
  | assigning =>
    have hSE := hE.asg hph
    have hphb : (x.sys.phase != Phase.assigning) = false := by simp [hph]
    have hok := hX.hS.stage_ok
    cases hstage : x.sch.stage with
    | off => exact absurd hSE (stageE_off hstage)
    | done =>
      have hs' : step f j cl x.sys .endAssign = some { x.sys with phase := .planning } := by simp [step, hph]
      refine ⟨.base .endAssign, ?_⟩
      simp only [stepX, hnes, hstage, hs', Option.map_some, Bool.false_eq_true, if_false]
      exact ⟨_, rfl, rfl⟩
    | stepI pend =>
      cases pend with
      | nil =>
        refine ⟨.beginStepII, ?_⟩
        simp only [stepX, hnes, hphb, hstage, Bool.or_self, Bool.false_eq_true, if_false]
        split
        · exact ⟨_, rfl, rfl⟩
        · split <;> exact ⟨_, rfl, rfl⟩
      | cons c rest =>
        refine ⟨.awcBegin c, ?_⟩
        simp only [stepX, hnes, hphb, hstage, Bool.or_self, Bool.false_eq_true, if_false, List.contains_cons,
          beq_self_eq_true, Bool.true_or, if_true]
        exact ⟨_, rfl, rfl⟩
    | stepII comps i mig =>
      have hcne := ((stageE_stepII hstage).mp hSE).2
      cases mig with
      | nil =>
        have hs' : step f j cl x.sys .endAssign = some { x.sys with phase := .planning } := by simp [step, hph]
        refine ⟨.base .endAssign, ?_⟩
        simp only [stepX, hnes, hstage, hs', Option.map_some, Bool.false_eq_true, if_false]
        exact ⟨_, rfl, rfl⟩
      | cons h rest =>
        refine ⟨.migrate h, ?_⟩
        have hlen : 0 < comps.length := List.length_pos_iff.mpr hcne
        have hidx : i % comps.length < comps.length := Nat.mod_lt _ hlen
        simp only [stepX, hnes, hphb, hstage, Bool.or_self, Bool.false_eq_true, if_false, List.contains_cons,
          beq_self_eq_true, Bool.true_or, Bool.not_true, List.getElem?_eq_getElem hidx]
        exact ⟨_, rfl, rfl⟩
    | ready c ws k =>
      refine ⟨.awcEnter, ?_⟩
      simp only [stepX, hnes, hphb, hstage, Bool.or_self, Bool.false_eq_true, if_false]
      exact ⟨_, rfl, rfl⟩
    | inH c cls tasks workers ph cpuT cpuW k =>
      obtain ⟨e1, e2, e3, e4⟩ := (stageE_inH hstage).mp hSE
      cases ph with
      | p1 =>
        refine ⟨.hPhase2, ?_⟩
        simp only [stepX, hnes, hphb, hstage, Bool.or_self, Bool.false_eq_true, if_false]
        exact ⟨_, rfl, rfl⟩
      | p2 =>
        by_cases hemp : (tasks.isEmpty || workers.isEmpty) = true
        · refine ⟨.hEnd, ?_⟩
          simp only [stepX, hnes, hphb, hstage, Bool.or_self, Bool.false_eq_true, if_false, hemp, Bool.not_true]
          cases cls with
          | gpu => exact ⟨_, rfl, rfl⟩
          | cpu =>
            dsimp only
            split <;> exact ⟨_, rfl, rfl⟩
        · -- an admissible assignment exists: first task, first worker, the sources the scan finds
          simp only [Bool.or_eq_true, List.isEmpty_iff, not_or] at hemp
          obtain ⟨t, ht⟩ := List.exists_mem_of_ne_nil _ hemp.1
          obtain ⟨w, hw⟩ := List.exists_mem_of_ne_nil _ hemp.2
          simp only [StageOk, hstage] at hok
          obtain ⟨okW, okT, okG⟩ := hok
          have hwi := (okW w (List.mem_append.mpr (Or.inl hw))).1
          have htc := (okT t (List.mem_append.mpr (Or.inl ht))).1
          have hg : j.gpu t = true → cl.hasGpu w = true := by
            intro hgt
            cases cls with
            | gpu => exact okG rfl w hw
            | cpu => rw [e3 rfl t ht] at hgt; cases hgt
          let a : Asg := ⟨w, t, chooseCands cl.hosts x.sys.ctl (j.inputs t)⟩
          have hno := sT_assign_exists j cl x.sys.ctl w t hwi htc hg
          have : ∃ s', step f j cl x.sys (.assign a) = some s' := by
            simp only [step, hph, e1]
            cases has : assignOne j cl x.sys.ctl a with
            | ok r => obtain ⟨c2, prep⟩ := r; exact ⟨_, rfl⟩
            | error e =>
              cases e with
              | raised m => exact ⟨_, rfl⟩
              | oracle m => exact absurd has (hno m)
          obtain ⟨s', hs'⟩ := this
          refine ⟨.base (.assign a), ?_⟩
          have h1 : tasks.contains a.task = true := by simpa using ht
          have h2 : workers.contains a.worker = true := by simpa using hw
          simp only [stepX, hnes, hstage, h1, h2, hs', Option.map_some, Bool.false_eq_true, if_false, Bool.not_true,
            Bool.or_self]
          exact ⟨_, rfl, rfl⟩

/-- **Deadlock freedom.** On a feasible cluster, in every reachable state of the extended system in which the
controller loop has not exited, some step is enabled: a controller step in every phase but `waiting`; while the
controller blocks in `recv_events`, the delivery of a pending event or an executor step. -/
theorem sT_deadlock_free (f : Sem) (j : Job) (cl : Cluster) (cm : Comps) (wf : WF j cl) (wfc : WFC j cm)
    (feas : Feasible j cl) (x : SysX) (hr : ReachableX f j cl cm x) (hnf : x.sys.phase ≠ .finished) :
    ∃ st x', stepX f j cl cm x st = some x' := by
  by_cases hw : x.sys.phase = .waiting
  · have hX := invX_reachable f j cl cm wf wfc x hr
    have hne : x.sch.schErr = none := hX.hS.no_schErr
    rcases sI_no_idle_wait f j cl cm wf wfc feas x hr hw with hp | ⟨es, e', he⟩
    · obtain ⟨ev, hev⟩ := List.exists_mem_of_ne_nil _ hp
      have hs' : ∃ s', step f j cl x.sys (.recv [ev]) = some s' := by
        have hc : x.sys.env.pending.contains ev = true := by simpa using hev
        cases hst : step f j cl x.sys (.recv [ev]) with
        | some s' => exact ⟨s', rfl⟩
        | none =>
          exfalso
          simp [step, hw, takeEvents, hc, hev] at hst
      obtain ⟨s', hs'⟩ := hs'
      exact ⟨.base (.recv [ev]), _, sT_stepX_plain f j cl cm x _ _ rfl hne hs'⟩
    · have hs' : step f j cl x.sys (.env es) = some { x.sys with env := e' } := by
        simp only [step, hw, envStepP_eq f j x.sys.env es hX.hA.h1.no_trim, he]
        simp
      exact ⟨.base (.env es), _, sT_stepX_plain f j cl cm x _ _ rfl hne hs'⟩
  · obtain ⟨st, x', hs, _⟩ := sT_ctrl_enabled f j cl cm wf wfc x hr hnf hw
    exact ⟨st, x', hs⟩

end EkwVerif.Ctrl
