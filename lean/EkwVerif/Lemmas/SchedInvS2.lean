/-
Tier S (`InvS`, Lemmas/SchedInvDefs.lean) is preserved by the six scheduler-only steps of the
extended system (`Model/Sched.lean`): `awcBegin c`, `awcEnter`, `hPhase2`, `hEnd`, `beginStepII`,
`migrate h`.  These steps do not change the base state (`sS2_sys_eq_*`).

`hEnd` (cpu class) returns to step I / step II with lists stored in `x.sch.stepIIcomps`, which the
stage constructors `ready`/`inH` do not carry; the auxiliary invariant `InvS2X` records that the
stored list only contains valid component ids while the stage is `ready`/`inH`.  `InvS2X` is
proved here for `init` and for ALL steps (`sS2_x_step`).
-/
import EkwVerif.Lemmas.SchedInvDefs

namespace EkwVerif.Ctrl

set_option linter.unusedVariables false

/-! ### list helpers -/

theorem sS2_mem_addL {α : Type} [DecidableEq α] (l : List α) (a x : α) :
    x ∈ addL l a ↔ x ∈ l ∨ x = a := by
  unfold addL
  split
  · rename_i h
    have h' : a ∈ l := by simpa using h
    constructor
    · exact Or.inl
    · rintro (h1 | rfl)
      · exact h1
      · exact h'
  · simp

theorem sS2_mem_addAll {α : Type} [DecidableEq α] (l xs : List α) (x : α) :
    x ∈ addAll l xs ↔ x ∈ l ∨ x ∈ xs := by
  unfold addAll
  induction xs generalizing l with
  | nil => simp
  | cons a xs ih =>
    simp only [List.foldl_cons]
    rw [ih, sS2_mem_addL]
    simp only [List.mem_cons]
    grind

theorem sS2_mem_addAt (f : Worker → List Task) (ws : List Worker) (ts : List Task) (w : Worker) (t : Task) :
    t ∈ addAt f ws ts w ↔ t ∈ f w ∨ (w ∈ ws ∧ t ∈ ts) := by
  unfold addAt
  split
  · rename_i h
    have h' : w ∈ ws := by simpa using h
    rw [sS2_mem_addAll]
    grind
  · rename_i h
    have h' : ¬ w ∈ ws := by simpa using h
    grind

theorem sS2_mem_insertDesc (w : Nat → Nat) (c x : Nat) (l : List Nat) :
    x ∈ insertDesc w c l ↔ x = c ∨ x ∈ l := by
  induction l with
  | nil => simp [insertDesc]
  | cons d ds ih =>
    simp only [insertDesc]
    split
    · simp
    · simp only [List.mem_cons, ih]
      grind

theorem sS2_mem_sortDesc (w : Nat → Nat) (l : List Nat) (c : Nat) : c ∈ sortDesc w l ↔ c ∈ l := by
  unfold sortDesc
  induction l with
  | nil => simp
  | cons a l ih =>
    simp only [List.foldr_cons, sS2_mem_insertDesc, ih, List.mem_cons]

theorem sS2_mem_workersOf (cl : Cluster) (w : Worker) (h : w ∈ cl.ids) : w ∈ cl.workersOf w.host := by
  unfold Cluster.workersOf
  simp [h]

theorem sS2_guard {x : SysX} (h : ¬((x.sch.schErr.isSome || x.sys.phase != Phase.assigning) = true)) :
    x.sys.phase = .assigning := by
  simp only [Bool.or_eq_true, bne_iff_ne, ne_eq, not_or, Decidable.not_not] at h
  exact h.2

/-- an idle worker whose host belongs to component `c` is a key of `distDom c` -/
theorem sS2_idle_dist {f : Sem} {j : Job} {cl : Cluster} {cm : Comps} {x : SysX}
    (hA : InvAll f j cl x.sys) (hS : InvS j cl cm x) (w : Worker) (c : Nat)
    (hi : w ∈ x.sys.ctl.idle) (hc : x.sch.host2comp w.host = some c) : w ∈ x.sch.distDom c :=
  hS.host_dist w.host c hc w (sS2_mem_workersOf cl w (hA.h1.idle_known w hi))

/-! ### the auxiliary invariant about the stored step-I/step-II lists -/

def sS2_StoredOk (cm : Comps) (x : SysX) : Prop :=
  match x.sch.stage with
  | .ready _ _ _ => ∀ c, c ∈ x.sch.stepIIcomps → c < cm.n
  | .inH _ _ _ _ _ _ _ _ => ∀ c, c ∈ x.sch.stepIIcomps → c < cm.n
  | _ => True

structure InvS2X (cm : Comps) (x : SysX) : Prop where
  stored_ok : sS2_StoredOk cm x

theorem sS2_x_init (j : Job) (cl : Cluster) (cm : Comps) : InvS2X cm (SysX.init j cl cm) :=
  ⟨by simp [sS2_StoredOk, SysX.init, Sch.init]⟩

/-! ### the six steps keep the base state -/

theorem sS2_sys_eq_awcBegin (f : Sem) (j : Job) (cl : Cluster) (cm : Comps) (x x' : SysX) (c : Nat)
    (hs : stepX f j cl cm x (.awcBegin c) = some x') : x'.sys = x.sys := by
  simp only [stepX] at hs
  split at hs
  · cases hs
  · split at hs
    · split at hs
      · cases hs; rfl
      · cases hs
    · cases hs

theorem sS2_sys_eq_awcEnter (f : Sem) (j : Job) (cl : Cluster) (cm : Comps) (x x' : SysX)
    (hs : stepX f j cl cm x .awcEnter = some x') : x'.sys = x.sys := by
  simp only [stepX] at hs
  split at hs
  · cases hs
  · split at hs
    · cases hs; rfl
    · cases hs

theorem sS2_sys_eq_hPhase2 (f : Sem) (j : Job) (cl : Cluster) (cm : Comps) (x x' : SysX)
    (hs : stepX f j cl cm x .hPhase2 = some x') : x'.sys = x.sys := by
  simp only [stepX] at hs
  split at hs
  · cases hs
  · split at hs
    · cases hs; rfl
    · cases hs

theorem sS2_sys_eq_hEnd (f : Sem) (j : Job) (cl : Cluster) (cm : Comps) (x x' : SysX)
    (hs : stepX f j cl cm x .hEnd = some x') : x'.sys = x.sys := by
  simp only [stepX] at hs
  split at hs
  · cases hs
  · split at hs
    · split at hs
      · cases hs
      · split at hs
        · cases hs; rfl
        · split at hs <;> (cases hs; rfl)
    · cases hs

theorem sS2_sys_eq_beginStepII (f : Sem) (j : Job) (cl : Cluster) (cm : Comps) (x x' : SysX)
    (hs : stepX f j cl cm x .beginStepII = some x') : x'.sys = x.sys := by
  simp only [stepX] at hs
  split at hs
  · cases hs
  · split at hs
    · split at hs
      · cases hs; rfl
      · split at hs <;> (cases hs; rfl)
    · cases hs

theorem sS2_sys_eq_migrate (f : Sem) (j : Job) (cl : Cluster) (cm : Comps) (x x' : SysX) (h : Host)
    (hs : stepX f j cl cm x (.migrate h) = some x') : x'.sys = x.sys := by
  simp only [stepX] at hs
  split at hs
  · cases hs
  · split at hs
    · split at hs
      · cases hs
      · split at hs
        · cases hs
        · cases hs; rfl
    · cases hs

/-! ### frame: a step that keeps the base state and the dictionaries -/

theorem sS2_frame {j : Job} {cl : Cluster} {cm : Comps} {x x' : SysX} (hS : InvS j cl cm x)
    (hsys : x'.sys = x.sys) (h1 : x'.sch.host2comp = x.sch.host2comp) (h2 : x'.sch.weight = x.sch.weight)
    (h3 : x'.sch.distDom = x.sch.distDom) (h4 : x'.sch.values = x.sch.values)
    (h5 : x'.sch.ovDom = x.sch.ovDom) (h6 : x'.sch.schErr = none)
    (hp : x.sys.phase = .assigning) (hst : StageOk cl cm x') : InvS j cl cm x' := by
  refine ⟨?_, ?_, ?_, ?_, ?_, ?_, hst, ?_, h6⟩
  · rw [hsys, h4]; exact hS.values_comp
  · rw [h1, h3]; exact hS.host_dist
  · rw [h1]; exact hS.host_comp_lt
  · rw [hsys, h3, h5]; exact hS.ov_comp
  · rw [hsys, h3]; exact hS.flight_dist
  · rw [hsys, h2]; exact hS.weight_eq
  · intro h; rw [hsys] at h; exact absurd hp h

/-! ### `awcBegin c` -/

theorem sS2_step_awcBegin (f : Sem) (j : Job) (cl : Cluster) (cm : Comps) (x x' : SysX) (c : Nat)
    (wf : WF j cl) (wfc : WFC j cm) (hA : InvAll f j cl x.sys) (hS : InvS j cl cm x)
    (hs : stepX f j cl cm x (.awcBegin c) = some x') : InvS j cl cm x' := by
  simp only [stepX] at hs
  split at hs
  · cases hs
  · rename_i hg
    have hp := sS2_guard hg
    split at hs
    · rename_i pend hst
      split at hs
      · cases hs
        refine sS2_frame hS rfl rfl rfl rfl rfl rfl hS.no_schErr hp ?_
        simp only [StageOk]
        intro w hw
        simp only [List.mem_filter, beq_iff_eq] at hw
        exact hw
      · cases hs
    · cases hs

/-! ### `awcEnter` -/

theorem sS2_step_awcEnter (f : Sem) (j : Job) (cl : Cluster) (cm : Comps) (x x' : SysX)
    (wf : WF j cl) (wfc : WFC j cm) (hA : InvAll f j cl x.sys) (hS : InvS j cl cm x)
    (hs : stepX f j cl cm x .awcEnter = some x') : InvS j cl cm x' := by
  simp only [stepX] at hs
  split at hs
  · cases hs
  · rename_i hg
    have hp := sS2_guard hg
    split at hs
    · rename_i c ws k hst
      have hso := hS.stage_ok
      unfold StageOk at hso
      rw [hst] at hso
      dsimp only at hso
      have hstage : StageOk cl cm
          { x with
            sch :=
              { x.sch with
                stage :=
                  AStage.inH c Cls.gpu ((compTasks cm x.sys.ctl c).filter (fun t => j.gpu t))
                    (ws.filter (fun w => cl.hasGpu w)) HPhase.p1
                    ((compTasks cm x.sys.ctl c).filter (fun t => !(j.gpu t)))
                    (ws.filter (fun w => !(cl.hasGpu w))) k } } := by
        simp only [StageOk]
        refine ⟨?_, ?_, ?_⟩
        · intro w hw
          simp only [List.mem_append, List.mem_filter] at hw
          rcases hw with hw | hw <;> exact hso w hw.1
        · intro t ht
          simp only [List.mem_append, List.mem_filter, compTasks, beq_iff_eq] at ht
          rcases ht with ht | ht <;> exact ⟨ht.1.1, ht.1.2⟩
        · intro _ w hw
          simp only [List.mem_filter] at hw
          exact hw.2
      split at hs
      · rename_i hb
        exfalso
        simp only [Bool.and_eq_true, List.any_eq_true, Bool.not_eq_true', List.mem_filter] at hb
        obtain ⟨_, w, hw, hnw⟩ := hb
        have hd := sS2_idle_dist hA hS w c (hso w hw.1).1 (hso w hw.1).2
        simp [hd] at hnw
      · cases hs
        exact sS2_frame hS rfl rfl rfl rfl rfl rfl hS.no_schErr hp hstage
    · cases hs

/-! ### `hPhase2` -/

theorem sS2_step_hPhase2 (f : Sem) (j : Job) (cl : Cluster) (cm : Comps) (x x' : SysX)
    (wf : WF j cl) (wfc : WFC j cm) (hA : InvAll f j cl x.sys) (hS : InvS j cl cm x)
    (hs : stepX f j cl cm x .hPhase2 = some x') : InvS j cl cm x' := by
  simp only [stepX] at hs
  split at hs
  · cases hs
  · rename_i hg
    have hp := sS2_guard hg
    split at hs
    · rename_i c cls tasks workers cpuT cpuW k hst
      have hso := hS.stage_ok
      unfold StageOk at hso
      rw [hst] at hso
      dsimp only at hso
      split at hs
      · rename_i hb
        exfalso
        simp only [List.any_eq_true, Bool.not_eq_true'] at hb
        obtain ⟨w, hw, t, ht, hnt⟩ := hb
        have hw' := hso.1 w (List.mem_append_left _ hw)
        have ht' := hso.2.1 t (List.mem_append_left _ ht)
        have hd := sS2_idle_dist hA hS w c hw'.1 hw'.2
        have ho := hS.ov_comp w t (by rw [ht'.2]; exact hd) ht'.1
        simp [ho] at hnt
      · cases hs
        refine sS2_frame hS rfl rfl rfl rfl rfl rfl hS.no_schErr hp ?_
        simp only [StageOk]
        exact hso
    · cases hs

/-! ### `hEnd` (needs `InvS2X` for the return to step I / step II) -/

theorem sS2_step_hEnd (f : Sem) (j : Job) (cl : Cluster) (cm : Comps) (x x' : SysX)
    (wf : WF j cl) (wfc : WFC j cm) (hA : InvAll f j cl x.sys) (hS : InvS j cl cm x) (hX : InvS2X cm x)
    (hs : stepX f j cl cm x .hEnd = some x') : InvS j cl cm x' := by
  simp only [stepX] at hs
  split at hs
  · cases hs
  · rename_i hg
    have hp := sS2_guard hg
    split at hs
    · rename_i c cls tasks workers cpuT cpuW k hst
      have hso := hS.stage_ok
      unfold StageOk at hso
      rw [hst] at hso
      dsimp only at hso
      have hxo := hX.stored_ok
      unfold sS2_StoredOk at hxo
      rw [hst] at hxo
      dsimp only at hxo
      split at hs
      · cases hs
      · split at hs
        · -- gpu call over: the cpu call starts
          have hw' : ∀ w, w ∈ cpuW ++ workers.filter (fun w => x.sys.ctl.idle.contains w) →
              w ∈ x.sys.ctl.idle ∧ x.sch.host2comp w.host = some c := by
            intro w hw
            simp only [List.mem_append, List.mem_filter] at hw
            rcases hw with hw | hw
            · exact hso.1 w (List.mem_append_right _ hw)
            · exact hso.1 w (List.mem_append_left _ hw.1)
          split at hs
          · rename_i hb
            exfalso
            simp only [Bool.and_eq_true, List.any_eq_true, Bool.not_eq_true'] at hb
            obtain ⟨_, w, hw, hnw⟩ := hb
            have hd := sS2_idle_dist hA hS w c (hw' w hw).1 (hw' w hw).2
            simp [hd] at hnw
          · cases hs
            refine sS2_frame hS rfl rfl rfl rfl rfl rfl hS.no_schErr hp ?_
            simp only [StageOk]
            refine ⟨?_, ?_, ?_⟩
            · intro w hw
              rw [List.append_nil] at hw
              exact hw' w hw
            · intro t ht
              rw [List.append_nil] at ht
              exact hso.2.1 t (List.mem_append_right _ ht)
            · intro h; cases h
        · split at hs
          · cases hs
            refine sS2_frame hS rfl rfl rfl rfl rfl rfl hS.no_schErr hp ?_
            simp only [StageOk]
            exact hxo
          · cases hs
            refine sS2_frame hS rfl rfl rfl rfl rfl rfl hS.no_schErr hp ?_
            simp only [StageOk]
            exact hxo
    · cases hs

/-! ### `beginStepII` -/

theorem sS2_step_beginStepII (f : Sem) (j : Job) (cl : Cluster) (cm : Comps) (x x' : SysX)
    (wf : WF j cl) (wfc : WFC j cm) (hA : InvAll f j cl x.sys) (hS : InvS j cl cm x)
    (hs : stepX f j cl cm x .beginStepII = some x') : InvS j cl cm x' := by
  simp only [stepX] at hs
  split at hs
  · cases hs
  · rename_i hg
    have hp := sS2_guard hg
    split at hs
    · split at hs
      · cases hs
        refine sS2_frame hS rfl rfl rfl rfl rfl rfl hS.no_schErr hp ?_
        simp only [StageOk]
      · split at hs
        · cases hs
          refine sS2_frame hS rfl rfl rfl rfl rfl rfl hS.no_schErr hp ?_
          simp only [StageOk]
        · cases hs
          refine sS2_frame hS rfl rfl rfl rfl rfl rfl hS.no_schErr hp ?_
          simp only [StageOk]
          intro c hc
          rw [sS2_mem_sortDesc] at hc
          simp only [List.mem_filter, List.mem_range] at hc
          exact hc.1
    · cases hs

/-! ### `migrate h` -/

theorem sS2_step_migrate (f : Sem) (j : Job) (cl : Cluster) (cm : Comps) (x x' : SysX) (h : Host)
    (wf : WF j cl) (wfc : WFC j cm) (hA : InvAll f j cl x.sys) (hS : InvS j cl cm x)
    (hs : stepX f j cl cm x (.migrate h) = some x') : InvS j cl cm x' := by
  simp only [stepX] at hs
  split at hs
  · cases hs
  · rename_i hg
    have hp := sS2_guard hg
    split at hs
    · rename_i comps i mig hst
      have hso := hS.stage_ok
      unfold StageOk at hso
      rw [hst] at hso
      dsimp only at hso
      split at hs
      · cases hs
      · split at hs
        · cases hs
        · rename_i c hget
          have hcm : c ∈ comps := List.mem_of_getElem? hget
          have hcn : c < cm.n := hso c hcm
          cases hs
          refine ⟨?_, ?_, ?_, ?_, ?_, ?_, ?_, ?_, hS.no_schErr⟩
          · exact hS.values_comp
          · -- host_dist
            intro h' c' hh w hw
            dsimp only at hh ⊢
            by_cases e : h' = h
            · subst e
              rw [upd_same] at hh
              cases hh
              rw [upd_same, sS2_mem_addAll]
              exact Or.inr hw
            · rw [upd_other _ _ _ _ e] at hh
              have hd := hS.host_dist h' c' hh w hw
              by_cases e2 : c' = c
              · subst e2
                rw [upd_same, sS2_mem_addAll]
                exact Or.inl hd
              · rw [upd_other _ _ _ _ e2]; exact hd
          · -- host_comp_lt
            intro h' c' hh
            dsimp only at hh
            by_cases e : h' = h
            · subst e
              rw [upd_same] at hh
              cases hh
              exact hcn
            · rw [upd_other _ _ _ _ e] at hh
              exact hS.host_comp_lt h' c' hh
          · -- ov_comp
            intro w t hw ht
            dsimp only at hw ht ⊢
            rw [sS2_mem_addAt]
            by_cases e : cm.compOf t = c
            · rw [e, upd_same, sS2_mem_addAll] at hw
              rcases hw with hw | hw
              · exact Or.inl (hS.ov_comp w t (by rw [e]; exact hw) ht)
              · exact Or.inr ⟨hw, by rw [← e]; exact hS.values_comp t ht⟩
            · rw [upd_other _ _ _ _ e] at hw
              exact Or.inl (hS.ov_comp w t hw ht)
          · -- flight_dist
            intro w t hf
            dsimp only at hf ⊢
            have hd := hS.flight_dist w t hf
            by_cases e : cm.compOf t = c
            · rw [e, upd_same, sS2_mem_addAll]
              exact Or.inl (by rw [← e]; exact hd)
            · rw [upd_other _ _ _ _ e]; exact hd
          · exact hS.weight_eq
          · -- stage_ok
            simp only [StageOk]
            intro w hw
            simp only [List.mem_filter, beq_iff_eq] at hw
            refine ⟨hw.1, ?_⟩
            rw [hw.2, upd_same]
          · intro hh; exact absurd hp hh
    · cases hs

/-! ### `InvS2X` is preserved by every step -/

/-- the two fields `sS2_StoredOk` looks at -/
def sS2_SameSt (a b : Sch) : Prop := a.stage = b.stage ∧ a.stepIIcomps = b.stepIIcomps

theorem sS2_storedOk_congr {cm : Comps} {x x' : SysX} (hX : InvS2X cm x) (h : sS2_SameSt x'.sch x.sch) :
    InvS2X cm x' := by
  constructor
  have := hX.stored_ok
  unfold sS2_StoredOk at this ⊢
  rw [h.1, h.2]
  exact this

theorem sS2_foldl_same {β : Type} (g : Sch → β → Sch) (hg : ∀ sc b, sS2_SameSt (g sc b) sc) (l : List β) (sc : Sch) :
    sS2_SameSt (l.foldl g sc) sc := by
  induction l generalizing sc with
  | nil => exact ⟨rfl, rfl⟩
  | cons b l ih =>
    simp only [List.foldl_cons]
    have h1 := ih (g sc b)
    have h2 := hg sc b
    exact ⟨h1.1.trans h2.1, h1.2.trans h2.2⟩

theorem sS2_planChildren_same (cm : Comps) (sc : Sch) (w : Worker) (children : List Task) :
    sS2_SameSt (planChildren cm sc w children) sc := by
  unfold planChildren
  apply sS2_foldl_same
  intro sc ch
  dsimp only
  split <;> exact ⟨rfl, rfl⟩

theorem sS2_notifyChildren_same (cm : Comps) (cl : Cluster) (pre post : Ctl) (sc : Sch) (ds : Ds) (host : Host) :
    sS2_SameSt (notifyChildren cm cl pre post sc ds host) sc := by
  unfold notifyChildren
  apply sS2_foldl_same
  intro sc ch
  dsimp only
  split <;> split <;> exact ⟨rfl, rfl⟩

theorem sS2_x_step_base (f : Sem) (j : Job) (cl : Cluster) (cm : Comps) (x x' : SysX) (st : Step)
    (hX : InvS2X cm x) (hs : stepX f j cl cm x (.base st) = some x') : InvS2X cm x' := by
  have hxo := hX.stored_ok
  cases st <;> simp only [stepX] at hs <;> split at hs <;> try (cases hs; done)
  case enter =>
    simp only [Option.map_eq_some_iff] at hs
    obtain ⟨s', _, rfl⟩ := hs
    constructor
    split <;> simp [sS2_StoredOk]
  case assign a =>
    split at hs
    · rename_i c cls tasks workers phase cpuT cpuW k hst
      split at hs
      · cases hs
      · simp only [Option.map_eq_some_iff] at hs
        obtain ⟨s', _, rfl⟩ := hs
        unfold sS2_StoredOk at hxo
        rw [hst] at hxo
        dsimp only at hxo
        split
        · exact sS2_storedOk_congr hX ⟨rfl, rfl⟩
        · constructor
          split <;> (simp only [sS2_StoredOk]; exact hxo)
    · cases hs
  case endAssign =>
    split at hs
    · simp only [Option.map_eq_some_iff] at hs
      obtain ⟨s', _, rfl⟩ := hs
      exact ⟨by simp [sS2_StoredOk]⟩
    · simp only [Option.map_eq_some_iff] at hs
      obtain ⟨s', _, rfl⟩ := hs
      exact ⟨by simp [sS2_StoredOk]⟩
    · cases hs
  case plan1 =>
    split at hs
    · cases hs
    · rename_i a prep tl htodo
      simp only [Option.map_eq_some_iff] at hs
      obtain ⟨s', _, rfl⟩ := hs
      split
      · exact sS2_storedOk_congr hX ⟨rfl, rfl⟩
      · refine sS2_storedOk_congr hX ?_
        have h1 := sS2_foldl_same (fun sc (p : Ds × Host) => planChildren cm sc a.worker (x.sys.ctl.ptrack p.1))
          (fun sc p => sS2_planChildren_same cm sc _ _) prep x.sch
        have h2 := sS2_foldl_same (fun sc ds => planChildren cm sc a.worker (j.consumers ds))
          (fun sc ds => sS2_planChildren_same cm sc _ _) (j.outputsOf a.task)
          (prep.foldl (fun sc (p : Ds × Host) => planChildren cm sc a.worker (x.sys.ctl.ptrack p.1)) x.sch)
        exact ⟨h2.1.trans h1.1, h2.2.trans h1.2⟩
  case notify1 =>
    split at hs
    · cases hs
    · simp only [Option.map_eq_some_iff] at hs
      obtain ⟨s', _, rfl⟩ := hs
      split
      · exact sS2_storedOk_congr hX ⟨rfl, rfl⟩
      · split
        · exact sS2_storedOk_congr hX (sS2_notifyChildren_same ..)
        · exact sS2_storedOk_congr hX (sS2_notifyChildren_same ..)
        · exact sS2_storedOk_congr hX ⟨rfl, rfl⟩
  all_goals
    simp only [Option.map_eq_some_iff] at hs
    obtain ⟨s', _, rfl⟩ := hs
    exact sS2_storedOk_congr hX ⟨rfl, rfl⟩

theorem sS2_x_step_awcBegin (f : Sem) (j : Job) (cl : Cluster) (cm : Comps) (x x' : SysX) (c : Nat)
    (hS : InvS j cl cm x) (hs : stepX f j cl cm x (.awcBegin c) = some x') : InvS2X cm x' := by
  simp only [stepX] at hs
  split at hs
  · cases hs
  · split at hs
    · rename_i pend hst
      have hso := hS.stage_ok
      unfold StageOk at hso
      rw [hst] at hso
      dsimp only at hso
      split at hs
      · cases hs
        constructor
        simp only [sS2_StoredOk]
        intro c' hc'
        exact hso c' (List.mem_of_mem_erase hc')
      · cases hs
    · cases hs

theorem sS2_x_step_awcEnter (f : Sem) (j : Job) (cl : Cluster) (cm : Comps) (x x' : SysX)
    (hX : InvS2X cm x) (hs : stepX f j cl cm x .awcEnter = some x') : InvS2X cm x' := by
  simp only [stepX] at hs
  split at hs
  · cases hs
  · split at hs
    · rename_i c ws k hst
      have hxo := hX.stored_ok
      unfold sS2_StoredOk at hxo
      rw [hst] at hxo
      dsimp only at hxo
      cases hs
      constructor
      split <;> (simp only [sS2_StoredOk]; exact hxo)
    · cases hs

theorem sS2_x_step_hPhase2 (f : Sem) (j : Job) (cl : Cluster) (cm : Comps) (x x' : SysX)
    (hX : InvS2X cm x) (hs : stepX f j cl cm x .hPhase2 = some x') : InvS2X cm x' := by
  simp only [stepX] at hs
  split at hs
  · cases hs
  · split at hs
    · rename_i c cls tasks workers cpuT cpuW k hst
      have hxo := hX.stored_ok
      unfold sS2_StoredOk at hxo
      rw [hst] at hxo
      dsimp only at hxo
      cases hs
      constructor
      split <;> (simp only [sS2_StoredOk]; exact hxo)
    · cases hs

theorem sS2_x_step_hEnd (f : Sem) (j : Job) (cl : Cluster) (cm : Comps) (x x' : SysX)
    (hX : InvS2X cm x) (hs : stepX f j cl cm x .hEnd = some x') : InvS2X cm x' := by
  simp only [stepX] at hs
  split at hs
  · cases hs
  · split at hs
    · rename_i c cls tasks workers cpuT cpuW k hst
      have hxo := hX.stored_ok
      unfold sS2_StoredOk at hxo
      rw [hst] at hxo
      dsimp only at hxo
      split at hs
      · cases hs
      · split at hs
        · cases hs
          constructor
          split <;> (simp only [sS2_StoredOk]; exact hxo)
        · split at hs <;> (cases hs; exact ⟨by simp only [sS2_StoredOk]⟩)
    · cases hs

theorem sS2_x_step_beginStepII (f : Sem) (j : Job) (cl : Cluster) (cm : Comps) (x x' : SysX)
    (hs : stepX f j cl cm x .beginStepII = some x') : InvS2X cm x' := by
  simp only [stepX] at hs
  split at hs
  · cases hs
  · split at hs
    · split at hs
      · cases hs; exact ⟨by simp only [sS2_StoredOk]⟩
      · split at hs <;> (cases hs; exact ⟨by simp only [sS2_StoredOk]⟩)
    · cases hs

theorem sS2_x_step_migrate (f : Sem) (j : Job) (cl : Cluster) (cm : Comps) (x x' : SysX) (h : Host)
    (hS : InvS j cl cm x) (hs : stepX f j cl cm x (.migrate h) = some x') : InvS2X cm x' := by
  simp only [stepX] at hs
  split at hs
  · cases hs
  · split at hs
    · rename_i comps i mig hst
      have hso := hS.stage_ok
      unfold StageOk at hso
      rw [hst] at hso
      dsimp only at hso
      split at hs
      · cases hs
      · split at hs
        · cases hs
        · cases hs
          constructor
          simp only [sS2_StoredOk]
          exact hso
    · cases hs

/-- `InvS2X` is preserved by every step of the extended system (given `InvS` before the step) -/
theorem sS2_x_step (f : Sem) (j : Job) (cl : Cluster) (cm : Comps) (x x' : SysX) (st : StepX)
    (hS : InvS j cl cm x) (hX : InvS2X cm x) (hs : stepX f j cl cm x st = some x') : InvS2X cm x' := by
  cases st with
  | base st => exact sS2_x_step_base f j cl cm x x' st hX hs
  | awcBegin c => exact sS2_x_step_awcBegin f j cl cm x x' c hS hs
  | beginStepII => exact sS2_x_step_beginStepII f j cl cm x x' hs
  | migrate h => exact sS2_x_step_migrate f j cl cm x x' h hS hs
  | awcEnter => exact sS2_x_step_awcEnter f j cl cm x x' hX hs
  | hPhase2 => exact sS2_x_step_hPhase2 f j cl cm x x' hX hs
  | hEnd => exact sS2_x_step_hEnd f j cl cm x x' hX hs

/-- the scheduler-only steps -/
def sS2_schedOnly : StepX → Bool
  | .base _ => false
  | _ => true

theorem sS2_sys_eq (f : Sem) (j : Job) (cl : Cluster) (cm : Comps) (x x' : SysX) (st : StepX)
    (hst : sS2_schedOnly st = true) (hs : stepX f j cl cm x st = some x') : x'.sys = x.sys := by
  cases st with
  | base st => cases hst
  | awcBegin c => exact sS2_sys_eq_awcBegin f j cl cm x x' c hs
  | beginStepII => exact sS2_sys_eq_beginStepII f j cl cm x x' hs
  | migrate h => exact sS2_sys_eq_migrate f j cl cm x x' h hs
  | awcEnter => exact sS2_sys_eq_awcEnter f j cl cm x x' hs
  | hPhase2 => exact sS2_sys_eq_hPhase2 f j cl cm x x' hs
  | hEnd => exact sS2_sys_eq_hEnd f j cl cm x x' hs

/-- `InvS` is preserved by the six scheduler-only steps (given `InvS2X`, used by `hEnd`) -/
theorem sS2_step_schedOnly (f : Sem) (j : Job) (cl : Cluster) (cm : Comps) (x x' : SysX) (st : StepX)
    (wf : WF j cl) (wfc : WFC j cm) (hA : InvAll f j cl x.sys) (hS : InvS j cl cm x) (hX : InvS2X cm x)
    (hst : sS2_schedOnly st = true) (hs : stepX f j cl cm x st = some x') : InvS j cl cm x' := by
  cases st with
  | base st => cases hst
  | awcBegin c => exact sS2_step_awcBegin f j cl cm x x' c wf wfc hA hS hs
  | beginStepII => exact sS2_step_beginStepII f j cl cm x x' wf wfc hA hS hs
  | migrate h => exact sS2_step_migrate f j cl cm x x' h wf wfc hA hS hs
  | awcEnter => exact sS2_step_awcEnter f j cl cm x x' wf wfc hA hS hs
  | hPhase2 => exact sS2_step_hPhase2 f j cl cm x x' wf wfc hA hS hs
  | hEnd => exact sS2_step_hEnd f j cl cm x x' wf wfc hA hS hX hs

end EkwVerif.Ctrl
