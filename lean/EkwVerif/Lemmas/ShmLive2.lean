/-
Liveness ingredients, second part (audit items C09-2, C09-4):
  * a page-out job returns its size whatever its outcome (success: the callback credits it; failure: the callback's
    `purge(key, is_failed_job=True)` drops the dataset and credits it) -- true only with the fix of the failed-job purge;
  * completing ALL pending jobs of ANY state reached by a history (both kinds, I/O part done or not, any outcomes)
    empties the pool and frees `pageout_all` (a batch in flight always ends);
  * the environment steps that do so, as a list of `Op`s (what happens during the sleeps of `_send_command`);
  * `_send_command`'s loop: the answer of the first attempt that is not `wait` is the result, if the budget reaches it.
-/
import EkwVerif.Lemmas.ShmLive

namespace EkwVerif.Shm
open Aux
namespace Aux

/-- the I/O part of job `id` with outcome/fault `inj`, then its callback -/
def completeWith (s : St) (id : Nat) (inj : IoRes) : St := (cbStep (ioStep s id inj).1 id).1

/-- complete the given jobs one after the other; `inj id` = what happens to the I/O part of job `id` -/
def drainWith (s : St) (js : List Job) (inj : Nat → IoRes) : St := js.foldl (fun u j => completeWith u j.id (inj j.id)) s

/-- the same as environment steps of a history -/
def drainOps (js : List Job) (inj : Nat → IoRes) : List Op := js.flatMap (fun j => [Op.io j.id (inj j.id), Op.cb j.id])

theorem run_append (a b : List Op) : ∀ (s : St), run s (a ++ b) = run (run s a) b := by
  induction a with
  | nil => intro s; rfl
  | cons x a ih => intro s; simp only [List.cons_append, run]; exact ih _

theorem run_drainOps (js : List Job) (inj : Nat → IoRes) : ∀ (s : St), run s (drainOps js inj) = drainWith s js inj := by
  induction js with
  | nil => intro s; rfl
  | cons j js ih =>
    intro s
    have e : drainOps (j :: js) inj = [Op.io j.id (inj j.id), Op.cb j.id] ++ drainOps js inj := by
      simp [drainOps, List.flatMap_cons]
    rw [e, run_append, ih]
    simp [run, step, drainWith, completeWith]

theorem complete_eq (s : St) (id : Nat) : complete s id = completeWith s id .ok := rfl

/-- `SafeRun` does not restrict disk-job steps -/
theorem safeRun_drainOps (js : List Job) (inj : Nat → IoRes) : ∀ (s : St), SafeRun s (drainOps js inj) := by
  induction js with
  | nil => intro s; trivial
  | cons j js ih =>
    intro s
    have e : drainOps (j :: js) inj = Op.io j.id (inj j.id) :: Op.cb j.id :: drainOps js inj := by
      simp [drainOps, List.flatMap_cons]
    rw [e]
    exact ⟨rfl, rfl, ih _⟩

theorem safeRun_append (a b : List Op) : ∀ (s : St), SafeRun s a → SafeRun (run s a) b → SafeRun s (a ++ b) := by
  induction a with
  | nil => intro s _ h; exact h
  | cons x a ih => intro s h1 h2; exact ⟨h1.1, ih _ h1.2 h2⟩

theorem base_completeWith (s : St) (id : Nat) (inj : IoRes) (hb : Base s) : Base (completeWith s id inj) :=
  base_step _ (.cb id) (base_step s (.io id inj) hb)

theorem core_completeWith (s : St) (id : Nat) (inj : IoRes) (hb : Base s) (hc : Core s) : Core (completeWith s id inj) :=
  core_step _ (.cb id) (base_step s (.io id inj) hb) (core_step s (.io id inj) hb hc rfl) rfl

/-! ### the pool empties, whatever the jobs are -/

theorem ioStep_jobs (s : St) (id : Nat) (inj : IoRes) (j : Job) (hf : findJob s.jobs id = some j) :
    (j.io.isSome = true ∧ (ioStep s id inj).1.jobs = s.jobs) ∨ ∃ r, (ioStep s id inj).1.jobs = setJobIo s.jobs id r := by
  unfold ioStep
  simp only [hf]
  split
  · rename_i hio; exact Or.inl ⟨hio, rfl⟩
  · cases j.kind with
    | out =>
      simp only; split
      · exact Or.inr ⟨false, rfl⟩
      · cases find? s.segs j.key with
        | none => exact Or.inr ⟨false, rfl⟩
        | some g => exact Or.inr ⟨true, rfl⟩
    | inn =>
      simp only; split
      · exact Or.inr ⟨false, rfl⟩
      · cases find? s.segs j.key with
        | some g => exact Or.inr ⟨false, rfl⟩
        | none =>
          simp only; split
          · exact Or.inr ⟨false, rfl⟩
          · split
            · exact Or.inr ⟨true, rfl⟩
            · split
              · exact Or.inr ⟨true, rfl⟩
              · exact Or.inr ⟨false, rfl⟩

/-- after its I/O part has been attempted, job `id` has a result -/
theorem ioStep_io_some (s : St) (id : Nat) (inj : IoRes) (j : Job) (hf : findJob s.jobs id = some j) (hp : s.jobs.Pairwise (fun a b => a.id ≠ b.id)) :
    ∃ j', findJob (ioStep s id inj).1.jobs id = some j' ∧ j'.io.isSome = true ∧ j'.kind = j.kind ∧ j'.key = j.key := by
  obtain ⟨hj, hid⟩ := findJob_some _ _ _ hf
  rcases ioStep_jobs s id inj j hf with ⟨hio, h⟩ | ⟨r, h⟩
  · rw [h]; exact ⟨j, hf, hio, rfl, rfl⟩
  · rw [h]
    have hj' : { j with io := some r } ∈ setJobIo s.jobs id r := by
      rw [mem_setJobIo]; exact ⟨j, hj, by simp [hid]⟩
    have hp' : (setJobIo s.jobs id r).Pairwise (fun a b => a.id ≠ b.id) :=
      pairwise_setJobIo (fun j => j.id) (fun _ _ => rfl) _ _ _ hp
    have := findJob_of_mem _ { j with io := some r } hj' hp'
    simp only [hid] at this
    exact ⟨_, this, rfl, rfl, rfl⟩

theorem cbStep_jobs (s : St) (id : Nat) (j : Job) (hf : findJob s.jobs id = some j) (hio : j.io.isSome = true) :
    (cbStep s id).1.jobs = eraseJob s.jobs id := by
  unfold cbStep
  simp only [hf]
  cases h : j.io with
  | none => simp [h] at hio
  | some r =>
    simp only
    cases j.kind <;> cases r <;> simp only [decCount]
    · exact (purgeFailed_frame _ _).1
    · exact (purgeFailed_frame _ _).1

theorem eraseJob_of_jobs_eq (js : List Job) (id : Nat) (r : Bool) : eraseJob (setJobIo js id r) id = eraseJob js id :=
  eraseJob_setJobIo js id r

/-- completing a pending job removes exactly that job from the pool, whatever it is and whatever happens -/
theorem completeWith_jobs (s : St) (j : Job) (inj : IoRes) (hb : Base s) (hj : j ∈ s.jobs) :
    (completeWith s j.id inj).jobs = eraseJob s.jobs j.id := by
  have hf := findJob_of_mem s.jobs j hj hb.ids
  obtain ⟨j', hf', hio', _, _⟩ := ioStep_io_some s j.id inj j hf hb.ids
  unfold completeWith
  rw [cbStep_jobs _ _ j' hf' hio']
  rcases ioStep_jobs s j.id inj j hf with ⟨_, h⟩ | ⟨r, h⟩
  · rw [h]
  · rw [h, eraseJob_setJobIo]

/-- **A batch in flight always ends**: completing all pending jobs of a state satisfying `Base` (every state reached by
any history) -- page-outs and page-ins, I/O part already done or not, each succeeding or failing -- leaves an empty
pool, and `pageout_all` free. -/
theorem drainWith_quiesces (inj : Nat → IoRes) (l : List Job) : ∀ (s : St), Base s → s.jobs = l →
    (drainWith s l inj).jobs = [] ∧ (drainWith s l inj).lock = false ∧ Base (drainWith s l inj) := by
  induction l with
  | nil =>
    intro s hb hl
    refine ⟨hl, ?_, hb⟩
    have h0 : s.count = 0 := by rw [hb.countJobs, hl]; rfl
    show s.lock = false
    cases hlk : s.lock
    · rfl
    · have := hb.lockCount.mp hlk; omega
  | cons j js ih =>
    intro s hb hl
    have hj : j ∈ s.jobs := by rw [hl]; simp
    have hjobs : (completeWith s j.id (inj j.id)).jobs = js := by
      rw [completeWith_jobs s j (inj j.id) hb hj, hl]
      exact eraseJob_head j js (by rw [← hl]; exact hb.ids)
    exact ih _ (base_completeWith s j.id (inj j.id) hb) hjobs

theorem core_drainWith (inj : Nat → IoRes) (l : List Job) : ∀ (s : St), Base s → Core s → Core (drainWith s l inj) ∧ Base (drainWith s l inj) := by
  induction l with
  | nil => intro s hb hc; exact ⟨hc, hb⟩
  | cons j js ih =>
    intro s hb hc
    exact ih _ (base_completeWith s j.id (inj j.id) hb) (core_completeWith s j.id (inj j.id) hb hc)

/-! ### a page-out job returns its size, whatever its outcome -/

theorem find?_erase_absent {α : Type} (l : List (String × α)) (k x : String) : x ≠ k → find? (erase l k) x = find? l x :=
  fun h => find?_erase_ne l k x h

theorem completeWith_out (s : St) (j : Job) (inj : IoRes) (hb : Base s) (hc : Core s) (hj : j ∈ s.jobs) (hk : j.kind = .out)
    (hio : j.io = none) :
    (completeWith s j.id inj).free = s.free + j.size ∧ (completeWith s j.id inj).cap = s.cap ∧
    (completeWith s j.id inj).jobs = eraseJob s.jobs j.id ∧
    (∀ x, x ≠ j.key → find? (completeWith s j.id inj).ds x = find? s.ds x ∧
        find? (completeWith s j.id inj).segs x = find? s.segs x ∧ find? (completeWith s j.id inj).files x = find? s.files x) ∧
    (∀ x, find? s.ds x = none → find? (completeWith s j.id inj).ds x = none) := by
  have hf := findJob_of_mem s.jobs j hj hb.ids
  obtain ⟨d, hd, hgen, hsize, hstat⟩ := hc.jobLink j hj
  have hst : d.status = .pagingOut := by simpa [hk, jobStatus] using hstat
  have hjobs := completeWith_jobs s j inj hb hj
  have last : ∀ (P : St → Prop) (s' : St), (∀ x, x ≠ j.key → find? s'.ds x = find? s.ds x) →
      (∀ x, find? s.ds x = none → find? s'.ds x = none) := by
    intro _ s' h x hx
    by_cases e : x = j.key
    · subst e; rw [hd] at hx; cases hx
    · rw [h x e]; exact hx
  -- the two ways a page-out can fail leave everything but the job's result as it was
  have failed : (ioStep s j.id inj).1 = { s with jobs := setJobIo s.jobs j.id false } →
      (completeWith s j.id inj).free = s.free + j.size ∧ (completeWith s j.id inj).cap = s.cap ∧
      (∀ x, x ≠ j.key → find? (completeWith s j.id inj).ds x = find? s.ds x ∧
        find? (completeWith s j.id inj).segs x = find? s.segs x ∧ find? (completeWith s j.id inj).files x = find? s.files x) := by
    intro e1
    have hj' : { j with io := some false } ∈ setJobIo s.jobs j.id false := by
      rw [mem_setJobIo]; exact ⟨j, hj, by simp⟩
    have hp' : (setJobIo s.jobs j.id false).Pairwise (fun a b => a.id ≠ b.id) :=
      pairwise_setJobIo (fun j => j.id) (fun _ _ => rfl) _ _ _ hb.ids
    have hf' : findJob (setJobIo s.jobs j.id false) j.id = some { j with io := some false } :=
      findJob_of_mem _ { j with io := some false } hj' hp'
    have hne : (d.status == Status.onDisk) = false := by simp [hst]
    have e3 : completeWith s j.id inj =
        decCount { s with jobs := eraseJob (setJobIo s.jobs j.id false) j.id, segs := erase s.segs j.key,
                          free := s.free + d.size, ds := erase s.ds j.key } := by
      unfold completeWith
      rw [e1]
      simp [cbStep, hf', hk, purgeFailed, hd, hne]
    rw [e3]
    refine ⟨by simp [decCount, hsize], rfl, ?_⟩
    intro x hx
    exact ⟨find?_erase_ne _ _ _ hx, find?_erase_ne _ _ _ hx, rfl⟩
  by_cases hinj : inj = .ok
  · subst hinj
    cases hg : find? s.segs j.key with
    | none =>
      have e1 : (ioStep s j.id .ok).1 = { s with jobs := setJobIo s.jobs j.id false } := by
        simp [ioStep, hf, hio, hk, hg]
      obtain ⟨a, b, c⟩ := failed e1
      exact ⟨a, b, hjobs, c, last (fun _ => True) _ (fun x hx => (c x hx).1)⟩
    | some g =>
      obtain ⟨r1, r2, r3, r4, r5⟩ := complete_out s j hb hc hj hk hio g hg
      have e1 : (ioStep s j.id .ok).1 = { s with files := put s.files j.key g, segs := erase s.segs j.key, jobs := setJobIo s.jobs j.id true } := by
        simp [ioStep, hf, hio, hk, hg]
      have hj' : { j with io := some true } ∈ setJobIo s.jobs j.id true := by
        rw [mem_setJobIo]; exact ⟨j, hj, by simp⟩
      have hp' : (setJobIo s.jobs j.id true).Pairwise (fun a b => a.id ≠ b.id) :=
        pairwise_setJobIo (fun j => j.id) (fun _ _ => rfl) _ _ _ hb.ids
      have hf' : findJob (setJobIo s.jobs j.id true) j.id = some { j with io := some true } :=
        findJob_of_mem _ { j with io := some true } hj' hp'
      have e3 : completeWith s j.id .ok =
          decCount { s with files := put s.files j.key g, segs := erase s.segs j.key, jobs := eraseJob (setJobIo s.jobs j.id true) j.id,
                            ds := set s.ds j.key { d with status := .onDisk }, free := s.free + j.size } := by
        unfold completeWith
        rw [e1]
        simp [cbStep, hf', hk, setStatusIfSame, hd, hgen]
      have hothers : ∀ x, x ≠ j.key → find? (completeWith s j.id .ok).ds x = find? s.ds x ∧
          find? (completeWith s j.id .ok).segs x = find? s.segs x ∧ find? (completeWith s j.id .ok).files x = find? s.files x := by
        intro x hx
        rw [e3]
        refine ⟨find?_set_ne _ _ _ _ hx, find?_erase_ne _ _ _ hx, ?_⟩
        simp only [decCount, put_find?, hx, ↓reduceIte]
      exact ⟨r1, r2, hjobs, hothers, last (fun _ => True) _ (fun x hx => (hothers x hx).1)⟩
  · have e1 : (ioStep s j.id inj).1 = { s with jobs := setJobIo s.jobs j.id false } := by
      simp [ioStep, hf, hio, hk, hinj]
    obtain ⟨a, b, c⟩ := failed e1
    exact ⟨a, b, hjobs, c, last (fun _ => True) _ (fun x hx => (c x hx).1)⟩

/-- completing a batch of fresh page-out jobs -- each one succeeding or failing -- returns the sum of their sizes,
empties the pool, touches no dataset, segment or file outside the batch and brings no key into existence -/
theorem drainWith_outs (inj : Nat → IoRes) (l : List Job) : ∀ (s : St), Base s → Core s → s.jobs = l →
    (∀ j ∈ l, j.kind = .out ∧ j.io = none) →
    (drainWith s l inj).free = s.free + (l.map (·.size)).sum ∧ (drainWith s l inj).cap = s.cap ∧ (drainWith s l inj).jobs = [] ∧
    (∀ x, (∀ j ∈ l, j.key ≠ x) → find? (drainWith s l inj).ds x = find? s.ds x ∧
        find? (drainWith s l inj).segs x = find? s.segs x ∧ find? (drainWith s l inj).files x = find? s.files x) ∧
    (∀ x, find? s.ds x = none → find? (drainWith s l inj).ds x = none) := by
  induction l with
  | nil => intro s _ _ hl _; exact ⟨by simp [drainWith], rfl, hl, fun _ _ => ⟨rfl, rfl, rfl⟩, fun _ h => h⟩
  | cons j js ih =>
    intro s hb hc hl hall
    have hj : j ∈ s.jobs := by rw [hl]; simp
    obtain ⟨hk, hio⟩ := hall j (by simp)
    obtain ⟨r1, r2, r3, r4, r5⟩ := completeWith_out s j (inj j.id) hb hc hj hk hio
    have hb' := base_completeWith s j.id (inj j.id) hb
    have hc' := core_completeWith s j.id (inj j.id) hb hc
    have hjobs : (completeWith s j.id (inj j.id)).jobs = js := by
      rw [r3, hl]; exact eraseJob_head j js (by rw [← hl]; exact hb.ids)
    have hall' : ∀ j' ∈ js, j'.kind = .out ∧ j'.io = none := fun j' hj' => hall j' (List.mem_cons_of_mem _ hj')
    obtain ⟨q1, q2, q3, q4, q5⟩ := ih (completeWith s j.id (inj j.id)) hb' hc' hjobs hall'
    have e : drainWith s (j :: js) inj = drainWith (completeWith s j.id (inj j.id)) js inj := by simp [drainWith]
    rw [e]
    refine ⟨?_, by rw [q2, r2], q3, ?_, fun x hx => q5 x (r5 x hx)⟩
    · rw [q1, r1]; simp; omega
    · intro x hx
      have hxj : x ≠ j.key := fun e => hx j (by simp) e.symm
      obtain ⟨a1, a2, a3⟩ := q4 x (fun j' hj' => hx j' (List.mem_cons_of_mem _ hj'))
      obtain ⟨b1, b2, b3⟩ := r4 x hxj
      exact ⟨a1.trans b1, a2.trans b2, a3.trans b3⟩

/-! ### datasets that are not winners are not touched by `page_out_at_least` -/

theorem pageOut_other (s : St) (k x : String) (h : x ≠ k) : find? (pageOut s k).ds x = find? s.ds x := by
  unfold pageOut
  cases find? s.ds k with
  | none => rfl
  | some d => simp only; exact find?_set_ne _ _ _ _ h

theorem pageOutAll_other (ws : List String) : ∀ (s : St) (x : String), x ∉ ws →
    find? (pageOutAll s ws).ds x = find? s.ds x ∧ (pageOutAll s ws).segs = s.segs ∧ (pageOutAll s ws).files = s.files := by
  induction ws with
  | nil => intro s x _; exact ⟨rfl, rfl, rfl⟩
  | cons k ws ih =>
    intro s x hx
    simp only [pageOutAll, List.foldl_cons]
    have h1 : x ≠ k := fun e => hx (e ▸ List.mem_cons_self)
    have h2 : x ∉ ws := fun e => hx (List.mem_cons_of_mem _ e)
    obtain ⟨r1, r2, r3⟩ := ih (pageOut s k) x h2
    exact ⟨r1.trans (pageOut_other s k x h1), r2.trans (pageOut_frame s k).2.2.2.2.1, r3.trans (pageOut_frame s k).2.2.2.2.2.1⟩

theorem pageOutAll_segs (ws : List String) : ∀ (s : St), (pageOutAll s ws).segs = s.segs := by
  induction ws with
  | nil => intro s; rfl
  | cons k ws ih => intro s; simp only [pageOutAll, List.foldl_cons]; exact (ih _).trans (pageOut_frame s k).2.2.2.2.1

/-! ### `_send_command` -/

/-- the first attempt is answered: that is the result (one request sent), provided there is any budget -/
theorem sendLoop_first (ask : St → Attempt → St × Option ClientOut) (a : Attempt) (rest : List Attempt) (budget : Nat) (s : St) (n : Nat)
    (hb : 0 < budget) (s' : St) (r : ClientOut) (h : ask (run s a.env) a = (s', some r)) :
    sendLoop ask (a :: rest) budget s n = (s', r, n + 1) := by
  have : ¬ budget = 0 := by omega
  simp [sendLoop, this, h]

/-- the first attempt is answered `wait`: the pause is taken off the budget and the loop goes on -/
theorem sendLoop_wait (ask : St → Attempt → St × Option ClientOut) (a : Attempt) (rest : List Attempt) (budget : Nat) (s : St) (n : Nat)
    (hb : 0 < budget) (s' : St) (h : ask (run s a.env) a = (s', none)) :
    sendLoop ask (a :: rest) budget s n = sendLoop ask rest (budget - min sleepMs budget) s' (n + 1) := by
  have : ¬ budget = 0 := by omega
  simp [sendLoop, this, h]

/-- `TimeoutError` is raised only when the budget is used up, and `wait` is never fatal: if the call ends in `timeout`
with `m` requests sent in total, the pauses taken after them cover the whole budget (`budget ≤ (m - n) * 100`), i.e. the
loop kept asking for as long as it was allowed to. (`hno`: a single request is never ANSWERED `timeout`.) -/
theorem sendLoop_timeout (ask : St → Attempt → St × Option ClientOut) (hno : ∀ s a s', ask s a ≠ (s', some .timeout)) :
    ∀ (sched : List Attempt) (budget : Nat) (s : St) (n : Nat) (s' : St) (m : Nat),
    sendLoop ask sched budget s n = (s', .timeout, m) → n ≤ m ∧ budget ≤ (m - n) * sleepMs := by
  intro sched
  induction sched with
  | nil =>
    intro budget s n s' m h
    simp only [sendLoop] at h
    by_cases hb : budget = 0
    · simp [hb] at h; obtain ⟨_, rfl⟩ := h; simp [hb]
    · simp [hb] at h
  | cons a rest ih =>
    intro budget s n s' m h
    simp only [sendLoop] at h
    by_cases hb : budget = 0
    · simp [hb] at h; obtain ⟨_, rfl⟩ := h; simp [hb]
    · simp only [hb, ↓reduceIte] at h
      cases hask : ask (run s a.env) a with
      | mk s1 o =>
        cases o with
        | some r =>
          simp only [hask] at h
          have hr : r = .timeout := by cases h; rfl
          subst hr
          exact absurd hask (hno _ _ _)
        | none =>
          simp only [hask] at h
          obtain ⟨h1, h2⟩ := ih _ _ _ _ _ h
          constructor
          · omega
          · have h3 : budget - min sleepMs budget ≤ (m - (n + 1)) * sleepMs := h2
            unfold sleepMs at *
            omega

theorem askAdd_no_timeout (k : String) (size : Nat) (deser : String) : ∀ s a s', askAdd k size deser s a ≠ (s', some .timeout) := by
  intro s a s' h
  unfold askAdd at h
  split at h <;> cases h

theorem askGet_no_timeout (k : String) : ∀ s a s', askGet k s a ≠ (s', some .timeout) := by
  intro s a s' h
  unfold askGet at h
  split at h <;> cases h

end Aux
end EkwVerif.Shm
