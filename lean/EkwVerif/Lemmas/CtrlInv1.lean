/-
Tier 1 of the controller invariant: dispatch and worker accounting.
Enough for C02 "exactly once / to a known, free worker / GPU" and for C03 "no `double add`".
-/
import EkwVerif.Lemmas.CtrlOnce

namespace EkwVerif.Ctrl

def Sys.todoPairs (s : Sys) : List (Worker × Task) := s.todo.map (fun p => (p.1.worker, p.1.task))

/-- the task has been dispatched to the worker and its completion has not been notified -/
def Sys.inFlight (s : Sys) (w : Worker) (t : Task) : Prop := (w, t) ∈ s.ctl.ongoing ∨ (w, t) ∈ s.todoPairs

structure Inv1 (cl : Cluster) (s : Sys) : Prop where
  once : Once s.ctl
  disp_eq : ∀ t, s.env.dispatchedE t = s.ctl.dispatched t
  idle_nodup : s.ctl.idle.Nodup
  idle_free : ∀ w, w ∈ s.ctl.idle → ∀ t, ¬ s.inFlight w t
  idle_known : ∀ w, w ∈ s.ctl.idle → w ∈ cl.ids
  flight_known : ∀ w t, s.inFlight w t → w ∈ cl.ids
  flight_disp : ∀ w t, s.inFlight w t → s.ctl.dispatched t = 1
  queued_flight : ∀ w t, (w, t) ∈ s.env.queued → s.inFlight w t
  queued_nodup : s.env.queued.Nodup
  ev_disp : ∀ w ds, Event.pubW w ds ∈ s.inbox ++ s.env.pending → s.ctl.dispatched ds.task = 1
  ev_not_queued : ∀ w ds, Event.pubW w ds ∈ s.inbox ++ s.env.pending → (w, ds.task) ∉ s.env.queued
  todo_phase : s.phase ≠ .assigning → s.phase ≠ .planning → s.phase ≠ .crashed → s.todo = []
  todo_nodup : s.todoPairs.Nodup
  todo_not_ongoing : ∀ p, p ∈ s.todoPairs → p ∉ s.ctl.ongoing
  no_dd : "C02 double-dispatch" ∉ s.env.viol
  no_busy : "C02 busy-worker" ∉ s.env.viol
  no_unknown : "C02 unknown-worker" ∉ s.env.viol
  no_gpu : "C02 gpu" ∉ s.env.viol
  no_double_add : s.err ≠ some "ValueError: double add"
  /-- the task sequence of a queued task carried a `publish` set naming every declared output of the task -/
  no_trim : ∀ w t, (w, t) ∈ s.env.queued → s.env.trimmed t = false

/-- without a trimmed publish set on a queued task the system's environment step is the all-outputs step `envStep` -/
theorem envStepP_eq (f : Sem) (j : Job) (e : Env) (es : EnvStep)
    (h : ∀ w t, (w, t) ∈ e.queued → e.trimmed t = false) : envStepP f j e es = envStep f j e es := by
  cases es with
  | io i => rfl
  | run w t =>
    simp only [envStepP]
    split
    · rename_i ht
      have hq : (w, t) ∉ e.queued := fun hq => by rw [h w t hq] at ht; cases ht
      simp [envRunSpec, envStep, hq]
    · rfl

/-! ### effect of commands and environment steps on the fields Tier 1 talks about -/

theorem mem_viol_taskSeq (j : Job) (cl : Cluster) (e : Env) (w : Worker) (t : Task) (m : String) {pb : List Ds} :
    m ∈ (applyCmd j cl e (.taskSeq w t pb)).viol ↔
      m ∈ e.viol ∨ (cl.ids.contains w = false ∧ m = "C02 unknown-worker")
      ∨ ((!(e.queued.any (·.1 == w))) = false ∧ m = "C02 busy-worker")
      ∨ ((e.dispatchedE t == 0) = false ∧ m = "C02 double-dispatch")
      ∨ ((!(j.gpu t) || cl.hasGpu w) = false ∧ m = "C02 gpu")
      ∨ ((j.inputs t).all (fun d => e.produced d) = false ∧ m = "C02 input-not-produced")
      ∨ ((j.inputs t).all (fun d => !(e.purged.contains (w.host, d))) = false ∧ m = "C04 input-purged-on-target")
      ∨ ((j.inputs t).all (fun d => (e.present w.host d).isSome || inboundTransmit e d w.host) = false
            ∧ m = "C02 input-neither-present-nor-in-transfer") := by
  simp only [applyCmd, mem_flag, flag_queued, flag_dispatchedE, flag_produced, flag_purged, flag_present,
    inboundTransmit, flag_outstanding, or_assoc]

theorem mem_viol_transmit (j : Job) (cl : Cluster) (e : Env) (ds : Ds) (a b : Host) (m : String) :
    m ∈ (applyCmd j cl e (.transmit ds a b)).viol ↔
      m ∈ e.viol ∨ ((e.present a ds).isSome = false ∧ m = "C04 transmit-from-missing") := by
  simp only [applyCmd, mem_flag, flag_present]

theorem mem_viol_fetch (j : Job) (cl : Cluster) (e : Env) (ds : Ds) (a : Host) (m : String) :
    m ∈ (applyCmd j cl e (.fetch ds a)).viol ↔
      m ∈ e.viol ∨ ((e.present a ds).isSome = false ∧ m = "C04 fetch-from-missing") := by
  simp only [applyCmd, mem_flag, flag_present]

theorem mem_viol_purge (j : Job) (cl : Cluster) (e : Env) (ds : Ds) (h : Host) (m : String) :
    m ∈ (applyCmd j cl e (.purge h ds)).viol ↔
      m ∈ e.viol ∨ ((!(outboundIO e ds h)) = false ∧ m = "C04 purge-while-outstanding-from")
      ∨ ((j.consumers ds).all (fun t => e.ran t) = false ∧ m = "C04 purge-before-consumer-done")
      ∨ ((!(j.ext.contains ds) || e.delivered ds) = false ∧ m = "C04 purge-before-output-delivered")
      ∨ ((!(e.queued.any (fun q => q.1.host == h && (j.inputs q.2).contains ds))) = false
            ∧ m = "C04 purge-needed-by-queued-task") := by
  simp only [applyCmd, mem_flag, flag_queued, flag_ran, flag_delivered, outboundIO, flag_outstanding, or_assoc]

/-- commands other than `taskSeq` do not touch the dispatch bookkeeping of the environment -/
theorem applyCmd_queued_notTask (j : Job) (cl : Cluster) (e : Env) (cmd : Cmd) (h : ∀ w t pb, cmd ≠ .taskSeq w t pb) :
    (applyCmd j cl e cmd).queued = e.queued ∧ (applyCmd j cl e cmd).dispatchedE = e.dispatchedE := by
  cases cmd with
  | taskSeq w t pb => exact absurd rfl (h w t pb)
  | transmit ds a b => simp [applyCmd]
  | fetch ds a => simp [applyCmd]
  | purge a ds => simp [applyCmd]

theorem applyCmd_trimmed_notTask (j : Job) (cl : Cluster) (e : Env) (cmd : Cmd) (h : ∀ w t pb, cmd ≠ .taskSeq w t pb) :
    (applyCmd j cl e cmd).trimmed = e.trimmed ∧ (applyCmd j cl e cmd).pubOf = e.pubOf := by
  cases cmd with
  | taskSeq w t pb => exact absurd rfl (h w t pb)
  | transmit ds a b => simp [applyCmd]
  | fetch ds a => simp [applyCmd]
  | purge a ds => simp [applyCmd]

theorem applyCmds_trimmed_notTask (j : Job) (cl : Cluster) (cmds : List Cmd) (e : Env)
    (h : ∀ cmd ∈ cmds, ∀ w t pb, cmd ≠ .taskSeq w t pb) :
    (applyCmds j cl e cmds).trimmed = e.trimmed ∧ (applyCmds j cl e cmds).pubOf = e.pubOf := by
  induction cmds generalizing e with
  | nil => simp [applyCmds]
  | cons c cs ih =>
    have h1 := applyCmd_trimmed_notTask j cl e c (h c (by simp))
    have := ih (applyCmd j cl e c) (fun cmd hm => h cmd (by simp [hm]))
    simp only [applyCmds, List.foldl_cons] at this ⊢
    exact ⟨by rw [this.1, h1.1], by rw [this.2, h1.2]⟩

theorem applyCmd_viol_c02_notTask (j : Job) (cl : Cluster) (e : Env) (cmd : Cmd) (h : ∀ w t pb, cmd ≠ .taskSeq w t pb)
    (m : String) (hm : m = "C02 double-dispatch" ∨ m = "C02 busy-worker" ∨ m = "C02 unknown-worker" ∨ m = "C02 gpu")
    (hv : m ∉ e.viol) : m ∉ (applyCmd j cl e cmd).viol := by
  cases cmd with
  | taskSeq w t pb => exact absurd rfl (h w t pb)
  | transmit ds a b => rw [mem_viol_transmit]; rcases hm with rfl | rfl | rfl | rfl <;> simp [hv]
  | fetch ds a => rw [mem_viol_fetch]; rcases hm with rfl | rfl | rfl | rfl <;> simp [hv]
  | purge a ds => rw [mem_viol_purge]; rcases hm with rfl | rfl | rfl | rfl <;> simp [hv]

theorem applyCmds_notTask (j : Job) (cl : Cluster) (cmds : List Cmd) (e : Env)
    (h : ∀ cmd ∈ cmds, ∀ w t pb, cmd ≠ .taskSeq w t pb) :
    (applyCmds j cl e cmds).queued = e.queued ∧ (applyCmds j cl e cmds).dispatchedE = e.dispatchedE ∧
    ∀ m, (m = "C02 double-dispatch" ∨ m = "C02 busy-worker" ∨ m = "C02 unknown-worker" ∨ m = "C02 gpu") →
      m ∉ e.viol → m ∉ (applyCmds j cl e cmds).viol := by
  induction cmds generalizing e with
  | nil => simp [applyCmds]
  | cons c cs ih =>
    have hc := h c (by simp)
    have hcs : ∀ cmd ∈ cs, ∀ w t pb, cmd ≠ .taskSeq w t pb := fun cmd hm => h cmd (by simp [hm])
    have h1 := applyCmd_queued_notTask j cl e c hc
    have := ih (applyCmd j cl e c) hcs
    simp only [applyCmds, List.foldl_cons] at this ⊢
    refine ⟨by rw [this.1, h1.1], by rw [this.2.1, h1.2], ?_⟩
    intro m hm hv
    exact this.2.2 m hm (applyCmd_viol_c02_notTask j cl e c hc m hm hv)

theorem purgeHosts_cmds (cl : Cluster) (ds : Ds) (l : List Host) (c c' : Ctl) (cmds : List Cmd)
    (hr : purgeHosts cl ds c l = .ok (c', cmds)) : ∀ cmd ∈ cmds, ∃ h, cmd = .purge h ds := by
  induction l generalizing c c' cmds with
  | nil => simp only [purgeHosts, Except.ok.injEq, Prod.mk.injEq] at hr; obtain ⟨_, rfl⟩ := hr; simp
  | cons a l ih =>
    unfold purgeHosts at hr
    split at hr
    · exact ih _ _ _ hr
    · split at hr
      · cases hr
      · dsimp only at hr
        split at hr
        · cases hr
        · rename_i c2 cm2 hc2
          cases hr
          intro cmd hm
          rcases List.mem_cons.mp hm with rfl | hm
          · exact ⟨a, rfl⟩
          · exact ih _ _ _ hc2 cmd hm

theorem publishOutputs_frame (f : Sem) (j : Job) (w : Worker) (t : Task) (args : List Val) (e : Env) :
    (publishOutputs f j w t args e).queued = e.queued ∧ (publishOutputs f j w t args e).dispatchedE = e.dispatchedE ∧
    (publishOutputs f j w t args e).viol = e.viol ∧ (publishOutputs f j w t args e).outstanding = e.outstanding ∧
    (publishOutputs f j w t args e).ran = e.ran ∧ (publishOutputs f j w t args e).delivered = e.delivered ∧
    (publishOutputs f j w t args e).purged = e.purged ∧
    (publishOutputs f j w t args e).pending = e.pending ++ (j.outputsOf t).map (fun ds => Event.pubW w ds) := by
  unfold publishOutputs
  generalize j.outputsOf t = l
  induction l generalizing e with
  | nil => simp
  | cons a l ih =>
    simp only [List.foldl_cons]
    have := ih { e with present := upd e.present w.host (upd (e.present w.host) a (some (f t a.out args))),
                         produced := upd e.produced a true, pending := e.pending ++ [Event.pubW w a] }
    obtain ⟨h1, h2, h3, h4, h5, h6, h7, h8⟩ := this
    refine ⟨h1, h2, h3, h4, h5, h6, h7, ?_⟩
    rw [h8]; simp

theorem publishList_trimmed (f : Sem) (w : Worker) (t : Task) (args : List Val) (l : List Ds) (e : Env) :
    (publishList f w t args l e).trimmed = e.trimmed ∧ (publishList f w t args l e).pubOf = e.pubOf ∧
    (publishList f w t args l e).queued = e.queued := by
  unfold publishList
  induction l generalizing e with
  | nil => simp
  | cons a l ih => simp only [List.foldl_cons]; rw [(ih _).1, (ih _).2.1, (ih _).2.2]; simp

theorem publishOutputs_eq_list (f : Sem) (j : Job) (w : Worker) (t : Task) (args : List Val) (e : Env) :
    publishOutputs f j w t args e = publishList f w t args (j.outputsOf t) e := rfl

/-- an environment step changes neither the recorded publish sets nor the `trimmed` flags -/
theorem envStep_trimmed (f : Sem) (j : Job) (e e' : Env) (es : EnvStep) (h : envStep f j e es = some e') :
    e'.trimmed = e.trimmed ∧ e'.pubOf = e.pubOf := by
  cases es with
  | run w t =>
    simp only [envStep] at h
    split at h
    · cases h
      rw [publishOutputs_eq_list]
      have := publishList_trimmed f w t ((j.inputs t).map (fun d => (e.present w.host d).getD "")) (j.outputsOf t)
        { e with queued := e.queued.erase (w, t), ran := upd e.ran t true }
      exact ⟨this.1, this.2.1⟩
    · cases h
  | io i =>
    simp only [envStep] at h
    split at h
    · cases h
    · rename_i o ho
      cases o with
      | transmit ds src tgt =>
        dsimp only at h
        split at h
        · cases h; simp
        · split at h <;> (cases h; exact ⟨rfl, rfl⟩)
      | fetch ds src =>
        dsimp only at h
        split at h
        · cases h; simp
        · cases h; exact ⟨rfl, rfl⟩

/-- what an environment step does to the fields Tier 1 talks about -/
theorem envStep_tier1 (f : Sem) (j : Job) (e e' : Env) (es : EnvStep) (h : envStep f j e es = some e') :
    e'.dispatchedE = e.dispatchedE ∧
    (∀ m, (m = "C02 double-dispatch" ∨ m = "C02 busy-worker" ∨ m = "C02 unknown-worker" ∨ m = "C02 gpu") →
      m ∉ e.viol → m ∉ e'.viol) ∧
    ((∃ w t, (w, t) ∈ e.queued ∧ e'.queued = e.queued.erase (w, t) ∧
        ∀ ev, ev ∈ e'.pending → ev ∈ e.pending ∨ ∃ ds, ev = Event.pubW w ds ∧ ds.task = t) ∨
     (e'.queued = e.queued ∧ ∀ ev, ev ∈ e'.pending → ev ∈ e.pending ∨ ∀ w ds, ev ≠ Event.pubW w ds)) := by
  cases es with
  | run w t =>
    simp only [envStep] at h
    split at h
    · rename_i hc
      cases h
      have pf := publishOutputs_frame f j w t ((j.inputs t).map (fun d => (e.present w.host d).getD ""))
        { e with queued := e.queued.erase (w, t), ran := upd e.ran t true }
      obtain ⟨h1, h2, h3, _, _, _, _, h8⟩ := pf
      refine ⟨by rw [h2], fun m _ hv => by rw [h3]; exact hv, Or.inl ⟨w, t, ?_, by rw [h1], ?_⟩⟩
      · simp only [Bool.and_eq_true, List.contains_iff_mem] at hc; exact hc.1
      · intro ev hev
        rw [h8] at hev
        rcases List.mem_append.mp hev with hev | hev
        · exact Or.inl hev
        · simp only [List.mem_map] at hev
          obtain ⟨ds, hds, rfl⟩ := hev
          refine Or.inr ⟨ds, rfl, ?_⟩
          simp only [Job.outputsOf, List.mem_map] at hds
          obtain ⟨k, _, rfl⟩ := hds
          rfl
    · cases h
  | io i =>
    simp only [envStep] at h
    split at h
    · cases h
    · rename_i o ho
      cases o with
      | transmit ds src tgt =>
        dsimp only at h
        split at h
        · cases h
          refine ⟨by simp, ?_, Or.inr ⟨by simp, fun ev hev => Or.inl (by simpa using hev)⟩⟩
          intro m hm hv
          rw [mem_flag]
          rcases hm with rfl | rfl | rfl | rfl <;> simp [hv]
        · split at h
          · cases h; exact ⟨rfl, fun m _ hv => hv, Or.inr ⟨rfl, fun ev hev => Or.inl hev⟩⟩
          · cases h
            refine ⟨rfl, fun m _ hv => hv, Or.inr ⟨rfl, fun ev hev => ?_⟩⟩
            simp only [List.mem_append, List.mem_singleton] at hev
            rcases hev with hev | rfl
            · exact Or.inl hev
            · exact Or.inr (by intro w d; simp)
      | fetch ds src =>
        dsimp only at h
        split at h
        · cases h
          refine ⟨by simp, ?_, Or.inr ⟨by simp, fun ev hev => Or.inl (by simpa using hev)⟩⟩
          intro m hm hv
          rw [mem_flag]
          rcases hm with rfl | rfl | rfl | rfl <;> simp [hv]
        · cases h
          refine ⟨rfl, fun m _ hv => hv, Or.inr ⟨rfl, fun ev hev => ?_⟩⟩
          simp only [List.mem_append, List.mem_singleton] at hev
          rcases hev with hev | rfl
          · exact Or.inl hev
          · exact Or.inr (by intro w d; simp)

/-! ### preservation -/

theorem inv1_init (j : Job) (cl : Cluster) (hw : cl.ids.Nodup) : Inv1 cl (Sys.init j cl) := by
  refine ⟨once_init j cl, ?_, ?_, ?_, ?_, ?_, ?_, ?_, ?_, ?_, ?_, ?_, ?_, ?_, ?_, ?_, ?_, ?_, ?_, ?_⟩
  all_goals simp_all [Sys.init, initCtl, Env.init, Sys.inFlight, Sys.todoPairs]

/-- a step that changes neither the dispatch/worker bookkeeping nor the C02 monitors -/
theorem Inv1.congr {cl : Cluster} {s s' : Sys} (h : Inv1 cl s)
    (honce : Once s'.ctl) (hd : s'.ctl.dispatched = s.ctl.dispatched) (hde : s'.env.dispatchedE = s.env.dispatchedE)
    (hidle : s'.ctl.idle = s.ctl.idle) (hong : s'.ctl.ongoing = s.ctl.ongoing) (htodo : s'.todo = s.todo)
    (hq : s'.env.queued = s.env.queued)
    (hev : ∀ w ds, Event.pubW w ds ∈ s'.inbox ++ s'.env.pending → Event.pubW w ds ∈ s.inbox ++ s.env.pending)
    (hphase : (s'.phase ≠ .assigning → s'.phase ≠ .planning → s'.phase ≠ .crashed → s.todo = []))
    (hviol : ∀ m, (m = "C02 double-dispatch" ∨ m = "C02 busy-worker" ∨ m = "C02 unknown-worker" ∨ m = "C02 gpu") →
      m ∉ s.env.viol → m ∉ s'.env.viol)
    (herr : s'.err ≠ some "ValueError: double add")
    (htr : s'.env.trimmed = s.env.trimmed := by rfl) : Inv1 cl s' := by
  have hfl : ∀ w t, s'.inFlight w t ↔ s.inFlight w t := by
    intro w t; simp only [Sys.inFlight, Sys.todoPairs, hong, htodo]
  refine ⟨honce, ?_, ?_, ?_, ?_, ?_, ?_, ?_, ?_, ?_, ?_, ?_, ?_, ?_, ?_, ?_, ?_, ?_, herr,
    fun w t hq' => by rw [htr]; rw [hq] at hq'; exact h.no_trim w t hq'⟩
  · intro t; rw [hde, hd]; exact h.disp_eq t
  · rw [hidle]; exact h.idle_nodup
  · intro w hw t; rw [hfl]; rw [hidle] at hw; exact h.idle_free w hw t
  · intro w hw; rw [hidle] at hw; exact h.idle_known w hw
  · intro w t hf; exact h.flight_known w t ((hfl w t).mp hf)
  · intro w t hf; rw [hd]; exact h.flight_disp w t ((hfl w t).mp hf)
  · intro w t hq'; rw [hfl]; rw [hq] at hq'; exact h.queued_flight w t hq'
  · rw [hq]; exact h.queued_nodup
  · intro w ds he; rw [hd]; exact h.ev_disp w ds (hev _ _ he)
  · intro w ds he; rw [hq]; exact h.ev_not_queued w ds (hev _ _ he)
  · intro h1 h2 h3; rw [htodo]; exact hphase h1 h2 h3
  · simp only [Sys.todoPairs, htodo]; exact h.todo_nodup
  · intro p hp; simp only [Sys.todoPairs, htodo] at hp; rw [hong]; exact h.todo_not_ongoing p hp
  · exact hviol _ (Or.inl rfl) h.no_dd
  · exact hviol _ (Or.inr (Or.inl rfl)) h.no_busy
  · exact hviol _ (Or.inr (Or.inr (Or.inl rfl))) h.no_unknown
  · exact hviol _ (Or.inr (Or.inr (Or.inr rfl))) h.no_gpu


theorem takeEvents_sub : ∀ (evs pend pend' : List Event), takeEvents pend evs = some pend' →
    (∀ e, e ∈ evs ++ pend' → e ∈ pend) := by
  intro evs
  induction evs with
  | nil => intro pend pend' h e he; simp only [takeEvents, Option.some.injEq] at h; subst h; simpa using he
  | cons x evs ih =>
    intro pend pend' h e he
    simp only [takeEvents] at h
    split at h
    · rename_i hx
      have := ih _ _ h
      rcases List.mem_append.mp he with he | he
      · rcases List.mem_cons.mp he with rfl | he
        · simpa using hx
        · exact List.mem_of_mem_erase (this e (List.mem_append.mpr (Or.inl he)))
      · exact List.mem_of_mem_erase (this e (List.mem_append.mpr (Or.inr he)))
    · cases h

theorem purgeHosts_err (cl : Cluster) (ds : Ds) (l : List Host) (c : Ctl) (e : Err)
    (hr : purgeHosts cl ds c l = .error e) : e = .raised "KeyError: host2ds pop" := by
  induction l generalizing c with
  | nil => simp [purgeHosts] at hr
  | cons a l ih =>
    unfold purgeHosts at hr
    split at hr
    · exact ih _ hr
    · split at hr
      · simp only [Except.error.injEq] at hr; exact hr.symm
      · dsimp only at hr
        split at hr
        · rename_i e2 he2
          simp only [Except.error.injEq] at hr; subst hr
          exact ih _ he2
        · cases hr

end EkwVerif.Ctrl
