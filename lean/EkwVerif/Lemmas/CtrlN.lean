/-
The non-atomic layer (Model/CtrlN.lean): projection onto the base system, the invariant `InvN` of the hidden
(computed, unpublished) outputs, and what follows for running tasks.
-/
import EkwVerif.Lemmas.CtrlLast
import EkwVerif.Model.CtrlN

namespace EkwVerif.Ctrl

/-- forgetting `hidden`, a run of the layered system is a run of the base system -/
theorem reachableN_sys (f : Sem) (j : Job) (cl : Cluster) (x : SysN) (hr : ReachableN f j cl x) :
    Reachable f j cl x.sys := by
  induction hr with
  | init => exact Reachable.init
  | step x x' st _ hs ih =>
    cases st with
    | start w t =>
      simp only [stepN] at hs
      split at hs; · cases hs
      cases he : step f j cl x.sys (.env (.run w t)) with
      | none => simp [he] at hs
      | some s' => simp only [he, Option.map_some, Option.some.injEq] at hs; subst hs; exact Reachable.step _ _ _ ih he
    | yield t =>
      simp only [stepN] at hs
      split at hs
      · cases hs
      · cases hs; exact ih
    | base b =>
      simp only [stepN] at hs
      split at hs
      · cases he : step f j cl x.sys b with
        | none => simp [he] at hs
        | some s' => simp only [he, Option.map_some, Option.some.injEq] at hs; subst hs; exact Reachable.step _ _ _ ih he
      · cases hs

structure InvN (j : Job) (x : SysN) : Prop where
  range : ∀ ds, x.hidden ds = true → ds.out < j.nOut ds.task
  /-- outputs are published in index order: the hidden outputs of a task are a final segment -/
  up : ∀ t k k', x.hidden ⟨t, k⟩ = true → k ≤ k' → k' < j.nOut t → x.hidden ⟨t, k'⟩ = true
  unannounced : ∀ ds, x.hidden ds = true → x.sys.ctl.announced ds = false
  inbox : ∀ ev, ev ∈ x.sys.inbox → (∀ d v, ev ≠ .payload d v) → x.hidden (evDs ev) = false

theorem invN_init (j : Job) (cl : Cluster) : InvN j (SysN.init j cl) := by
  constructor <;> simp [SysN.init, Sys.init]

theorem nextHidden_spec (j : Job) (hd : Hidden) (t : Task) (k : Nat) (h : nextHidden j hd t = some k) :
    hd ⟨t, k⟩ = true ∧ k < j.nOut t ∧ ∀ k0, k0 < k → hd ⟨t, k0⟩ = false := by
  unfold nextHidden at h
  have h1 := List.find?_some h
  have h2 := List.mem_of_find?_eq_some h
  refine ⟨h1, by simpa using h2, ?_⟩
  intro k0 hk0
  rw [List.find?_range_eq_some] at h
  have := h.2.2 k0 hk0
  simpa using this

theorem envRun_inv (f : Sem) (j : Job) (cl : Cluster) (s s' : Sys) (w : Worker) (t : Task)
    (hs : step f j cl s (.env (.run w t)) = some s') :
    (w, t) ∈ s.env.queued ∧ s'.ctl = s.ctl ∧ s'.inbox = s.inbox := by
  simp only [step] at hs
  split at hs; · cases hs
  simp only [envStepP] at hs
  split at hs
  · simp only [envRunSpec] at hs
    split at hs
    · rename_i hc
      simp only [Option.map_some, Option.some.injEq] at hs; subst hs
      simp only [Bool.and_eq_true, List.contains_iff_mem] at hc
      exact ⟨hc.1, rfl, rfl⟩
    · simp at hs
  · simp only [envStep] at hs
    split at hs
    · rename_i hc
      simp only [Option.map_some, Option.some.injEq] at hs; subst hs
      simp only [Bool.and_eq_true, List.contains_iff_mem] at hc
      exact ⟨hc.1, rfl, rfl⟩
    · simp at hs

theorem invN_step (f : Sem) (j : Job) (cl : Cluster) (x x' : SysN) (st : StepN) (hall : InvAll f j cl x.sys)
    (h : InvN j x) (hs : stepN f j cl x st = some x') : InvN j x' := by
  cases st with
  | start w t =>
    simp only [stepN] at hs
    split at hs; · cases hs
    cases he : step f j cl x.sys (.env (.run w t)) with
    | none => simp [he] at hs
    | some s' =>
      simp only [he, Option.map_some, Option.some.injEq] at hs; subst hs
      obtain ⟨hq, hctl, hinb⟩ := envRun_inv f j cl _ _ _ _ he
      have hnr : x.sys.env.ran t = false := hall.h2.queued_not_ran w t hq
      have hnp : ∀ ds : Ds, ds.task = t → x.sys.env.produced ds = false := by
        intro ds hds
        cases hp : x.sys.env.produced ds with
        | false => rfl
        | true => have := ((hall.h2.produced_iff ds).mp hp).1; rw [hds, hnr] at this; cases this
      have hcases : ∀ ds : Ds, hideOutputs j x.hidden t ds = true → (ds.task = t ∧ ds.out < j.nOut t) ∨ x.hidden ds = true := by
        intro ds hd
        simp only [hideOutputs, Bool.or_eq_true, Bool.and_eq_true, beq_iff_eq, decide_eq_true_eq] at hd
        exact hd
      constructor
      · intro ds hd
        rcases hcases ds hd with ⟨h1, h2⟩ | h1
        · rw [h1]; exact h2
        · exact h.range ds h1
      · intro t0 k k' hd hk hk'
        rcases hcases _ hd with ⟨h1, _⟩ | h1
        · simp only at h1; subst h1
          simp [hideOutputs, hk']
        · have := h.up t0 k k' h1 hk hk'
          simp [hideOutputs, this]
      · intro ds hd
        simp only [hctl]
        rcases hcases ds hd with ⟨h1, _⟩ | h1
        · cases ha : x.sys.ctl.announced ds with
          | false => rfl
          | true => have := hall.h2.announced_produced ds ha; rw [hnp ds h1] at this; cases this
        · exact h.unannounced ds h1
      · intro ev hev hnp'
        simp only [hinb] at hev
        have hold := h.inbox ev hev hnp'
        show hideOutputs j x.hidden t (evDs ev) = false
        cases hh : hideOutputs j x.hidden t (evDs ev) with
        | false => rfl
        | true =>
          rcases hcases _ hh with ⟨h1, _⟩ | h1
          · exfalso
            have hm : ev ∈ x.sys.allEv := by simp [Sys.allEv, hev]
            cases ev with
            | pubW w' ds =>
              have := (hall.h2.ev_ran w' ds hm).1
              simp only [evDs] at h1; rw [h1, hnr] at this; cases this
            | pubT h' ds =>
              have := hall.h2x.evT_produced h' ds hm
              simp only [evDs] at h1; rw [hnp ds h1] at this; cases this
            | payload d v => exact hnp' d v rfl
          · rw [hold] at h1; cases h1
  | yield t =>
    simp only [stepN] at hs
    split at hs
    · cases hs
    · rename_i k hk
      cases hs
      obtain ⟨n1, n2, n3⟩ := nextHidden_spec j x.hidden t k hk
      have hsub : ∀ ds, upd x.hidden ⟨t, k⟩ false ds = true → x.hidden ds = true ∧ ds ≠ ⟨t, k⟩ := by
        intro ds hd
        by_cases hx : ds = ⟨t, k⟩
        · subst hx; simp at hd
        · rw [upd_other _ _ _ _ hx] at hd; exact ⟨hd, hx⟩
      constructor
      · intro ds hd; exact h.range ds (hsub ds hd).1
      · intro t0 k0 k' hd hk0 hk'
        obtain ⟨h1, h2⟩ := hsub _ hd
        have := h.up t0 k0 k' h1 hk0 hk'
        by_cases hx : (⟨t0, k'⟩ : Ds) = ⟨t, k⟩
        · exfalso
          simp only [Ds.mk.injEq] at hx
          obtain ⟨rfl, rfl⟩ := hx
          have hlt : k0 < k' := by
            rcases Nat.lt_or_ge k0 k' with hl | hg
            · exact hl
            · exfalso; apply h2; have : k0 = k' := by omega
              rw [this]
          have := n3 k0 hlt
          rw [h1] at this; cases this
        · show upd x.hidden ⟨t, k⟩ false ⟨t0, k'⟩ = true
          rw [upd_other _ _ _ _ hx]; exact this
      · intro ds hd; exact h.unannounced ds (hsub ds hd).1
      · intro ev hev hnp
        have := h.inbox ev hev hnp
        show upd x.hidden ⟨t, k⟩ false (evDs ev) = false
        by_cases hx : evDs ev = ⟨t, k⟩
        · rw [hx]; simp
        · rw [upd_other _ _ _ _ hx]; exact this
  | base b =>
    simp only [stepN] at hs
    split at hs
    · rename_i hallow
      cases he : step f j cl x.sys b with
      | none => simp [he] at hs
      | some s' =>
        simp only [he, Option.map_some, Option.some.injEq] at hs; subst hs
        obtain ⟨g1, _, _, _, g5⟩ := step_ghosts f j cl _ _ _ he
        constructor
        · exact h.range
        · exact h.up
        · intro ds hd
          cases ha : s'.ctl.announced ds with
          | false => rfl
          | true =>
            exfalso
            rcases g1 ds ha with h' | ⟨_, ev, rest, hin, hds, hnp⟩
            · rw [h.unannounced ds hd] at h'; cases h'
            · have := h.inbox ev (by rw [hin]; exact List.mem_cons_self) (fun d v => hnp v d)
              rw [← hds] at this; simp only at hd; rw [hd] at this; cases this
        · intro ev hev hnp
          rcases g5 ev hev with h' | ⟨evs, hb, hm⟩
          · exact h.inbox ev h' hnp
          · subst hb
            simp only [baseAllowed, List.all_eq_true] at hallow
            have := hallow ev hm
            cases ev with
            | pubW w ds => simpa [evVisible, evDs] using this
            | pubT h' ds => simpa [evVisible, evDs] using this
            | payload d v => exact absurd rfl (hnp d v)
    · cases hs

theorem invN_reachable (f : Sem) (j : Job) (cl : Cluster) (wf : WF j cl) (x : SysN) (hr : ReachableN f j cl x) : InvN j x := by
  induction hr with
  | init => exact invN_init j cl
  | step x x' st hx hs ih =>
    exact invN_step f j cl x x' st (invAll_reachable f j cl wf _ (reachableN_sys f j cl x hx)) ih hs

/-- a task whose last output has been announced is not running -/
theorem not_running_of_last (j : Job) (x : SysN) (h : InvN j x) (t : Task)
    (ha : x.sys.ctl.announced ⟨t, j.nOut t - 1⟩ = true) : x.running j t = false := by
  cases hr : x.running j t with
  | false => rfl
  | true =>
    exfalso
    unfold SysN.running isRunning at hr
    cases hk : nextHidden j x.hidden t with
    | none => simp [hk] at hr
    | some k =>
      obtain ⟨n1, n2, _⟩ := nextHidden_spec j x.hidden t k hk
      have := h.up t k (j.nOut t - 1) n1 (by omega) (by omega)
      have h2 := h.unannounced _ this
      rw [ha] at h2; cases h2

end EkwVerif.Ctrl
