/-
Tier 3 of the controller invariant — part C: `notify1` and the environment steps.
-/
import EkwVerif.Lemmas.CtrlInv3B

namespace EkwVerif.Ctrl

/-! ### notify1 -/

/-- the head of the inbox is dropped (it is not re-examined); the controller keeps `fetchIssued`
and `outputs`; the new `fetchQ` is justified separately -/
theorem i3_drop_event {f : Sem} {j : Job} {cl : Cluster} {s s' : Sys} (h3 : Inv3 f j cl s)
    (ev : Event) (rest : List Event) (hib : s.inbox = ev :: rest)
    (hfi : s'.ctl.fetchIssued = s.ctl.fetchIssued) (hout : s'.ctl.outputs = s.ctl.outputs)
    (hfq : ∀ ds h, (ds, h) ∈ s'.ctl.fetchQ → ds ∈ j.ext ∧ s'.ctl.outputs ds = none ∧ ds ∉ s'.ctl.fetchIssued ∧
      s'.ctl.dsHost ds h = .available)
    (hnd : (s'.ctl.fetchQ.map (·.1)).Nodup)
    (henv : s'.env = s.env) (hinb : s'.inbox = rest) : Inv3 f j cl s' := by
  have hall : s.allEv = ev :: s'.allEv := by simp [Sys.allEv, hib, hinb, henv]
  refine i3_mono h3 hfi hout hfq hnd ?_ ?_ ?_ ?_ ?_ ?_ ?_ ?_ ?_
  · intro ds h hm; rw [henv] at hm; exact hm
  · intro ds; rw [henv]; exact Nat.le_refl _
  · intro ds h _ hp; rw [henv]; exact hp
  · intro h ds v hp; rw [henv] at hp; exact h3.store_sound h ds v hp
  · intro ds hd; rw [henv]; exact hd
  · intro ds v hm; rw [hall]; exact List.mem_cons_of_mem _ hm
  · intro ds; rw [hall, List.filter_cons]; split <;> simp
  · intro ds v hm; rw [hinb] at hm; rw [henv]
    exact h3.inbox_delivered ds v (by rw [hib]; exact List.mem_cons_of_mem _ hm)
  · rw [henv]; exact h3.no_purge_before_delivered

theorem i3_considerFetch_fetchQ (j : Job) (c : Ctl) (ds : Ds) (h : Host) :
    (considerFetch j c ds h).fetchQ =
      if (j.ext.contains ds && (c.outputs ds).isNone && !(c.fetchQ.any (·.1 == ds)) && !(c.fetchIssued.contains ds)) = true
      then c.fetchQ ++ [(ds, h)] else c.fetchQ := by
  unfold considerFetch
  split <;> rfl

theorem i3_markAvailable_dsHost (c : Ctl) (h : Host) (ds : Ds) :
    (markAvailable c h ds).dsHost = upd c.dsHost ds (upd (c.dsHost ds) h .available) := rfl

/-- what `notify` of a `DatasetPublished` does to the fetch pipeline -/
theorem i3_notifyEvent_pub (j : Job) (c c' : Ctl) (ev : Event) (h : Host) (ds : Ds)
    (hev : ev = .pubT h ds ∨ ∃ w, ev = .pubW w ds ∧ w.host = h)
    (hr : notifyEvent j c ev = .ok c') :
    c'.outputs = c.outputs ∧ c'.fetchIssued = c.fetchIssued ∧
    c'.dsHost = upd c.dsHost ds (upd (c.dsHost ds) h .available) ∧
    c'.fetchQ = (considerFetch j (markAvailable c h ds) ds h).fetchQ := by
  rcases hev with rfl | ⟨w, rfl, rfl⟩
  · simp only [notifyEvent, Except.ok.injEq] at hr
    subst hr
    refine ⟨by simp, by simp, ?_, by simp⟩
    simp only [considerComputable_dsHost, considerFetch_dsHost]
    rfl
  · simp only [notifyEvent] at hr
    split at hr
    · split at hr
      · cases hr
      · rename_i c2 hc2
        have e1 := completeInputs_outputs _ _ _ _ _ hc2
        have e2 := completeInputs_fetchIssued _ _ _ _ _ hc2
        have e3 := completeInputs_dsHost _ _ _ _ _ hc2
        have e4 := completeInputs_fetchQ _ _ _ _ _ hc2
        simp only [markPublished_outputs, markPublished_fetchIssued, markPublished_dsHost, markPublished_fetchQ,
          considerComputable_outputs, considerFetch_outputs, markAvailable_outputs,
          considerComputable_fetchIssued, considerFetch_fetchIssued, markAvailable_fetchIssued,
          considerComputable_dsHost, considerFetch_dsHost, considerComputable_fetchQ] at e1 e2 e3 e4
        split at hr
        · simp only [Except.ok.injEq] at hr; subst hr
          exact ⟨e1, e2, by simp only [e3]; rfl, e4⟩
        · cases hr
    · simp only [Except.ok.injEq] at hr; subst hr
      refine ⟨by simp, by simp, ?_, by simp⟩
      simp only [markPublished_dsHost, considerComputable_dsHost, considerFetch_dsHost]
      rfl

theorem i3_notify_payload_core {f : Sem} {j : Job} {cl : Cluster} {s s' : Sys} (h3 : Inv3 f j cl s)
    (ds : Ds) (v : Val) (rest : List Event) (hib : s.inbox = Event.payload ds v :: rest)
    (c1 : s'.ctl.fetchQ = s.ctl.fetchQ) (c2 : s'.ctl.fetchIssued = s.ctl.fetchIssued)
    (c3 : s'.ctl.outputs = upd s.ctl.outputs ds (some v)) (c4 : s'.ctl.dsHost = s.ctl.dsHost)
    (e1 : s'.env = s.env) (e2 : s'.inbox = rest) : Inv3 f j cl s' := by
  have hall : s.allEv = Event.payload ds v :: s'.allEv := by simp [Sys.allEv, hib, e2, e1]
  have hin : Event.payload ds v ∈ s.allEv := by rw [hall]; exact List.mem_cons_self
  obtain ⟨q1, q2, q3, q4, q5⟩ := h3.payload_ok ds v hin
  have hdel : s.env.delivered ds = true := h3.inbox_delivered ds v (by rw [hib]; exact List.mem_cons_self)
  have hcnt := h3.payload_count ds
  rw [hall, List.filter_cons_of_pos (by simp [isPayloadOf])] at hcnt
  have hnopay : ∀ v', Event.payload ds v' ∉ s'.allEv :=
    i3_no_payload_of_len0 _ _ (by simp only [List.length_cons] at hcnt; omega)
  have hsubev : ∀ e, e ∈ s'.allEv → e ∈ s.allEv := fun e he => by rw [hall]; exact List.mem_cons_of_mem _ he
  refine ⟨?_, ?_, ?_, ?_, ?_, ?_, ?_, ?_, ?_, ?_⟩
  · intro d h hm
    rw [c1] at hm
    obtain ⟨a1, a2, a3, a4⟩ := h3.fetchQ_ok d h hm
    have hne : d ≠ ds := by intro heq; subst heq; exact a3 q3
    exact ⟨a1, by rw [c3, upd_other _ _ _ _ hne]; exact a2, by rw [c2]; exact a3, by rw [c4]; exact a4⟩
  · rw [c1]; exact h3.fetchQ_nodup
  · intro d h hm
    rw [e1] at hm
    obtain ⟨a1, a2, a3, a4, a5⟩ := h3.fetch_out d h hm
    have hne : d ≠ ds := by intro heq; subst heq; exact q4 h hm
    exact ⟨a1, by rw [c3, upd_other _ _ _ _ hne]; exact a2, by rw [c2]; exact a3,
      fun v' hv' => a4 v' (hsubev _ hv'), by rw [e1]; exact a5⟩
  · intro d; rw [e1]; exact h3.fetch_count d
  · intro d v' hm
    have hne : d ≠ ds := by intro heq; subst heq; exact hnopay v' hm
    obtain ⟨a1, a2, a3, a4, a5⟩ := h3.payload_ok d v' (hsubev _ hm)
    exact ⟨a1, by rw [c3, upd_other _ _ _ _ hne]; exact a2, by rw [c2]; exact a3, by rw [e1]; exact a4, a5⟩
  · intro d
    have := h3.payload_count d
    rw [hall, List.filter_cons] at this
    split at this
    · simp only [List.length_cons] at this; omega
    · exact this
  · intro d v' hm
    rw [c3] at hm
    by_cases hne : d = ds
    · subst hne
      simp only [upd_same, Option.some.injEq] at hm
      subst hm
      exact ⟨q5, by rw [e1]; exact hdel, q1, by rw [e1]; exact q4, hnopay⟩
    · rw [upd_other _ _ _ _ hne] at hm
      obtain ⟨a1, a2, a3, a4, a5⟩ := h3.outputs_ok d v' hm
      exact ⟨a1, by rw [e1]; exact a2, a3, by rw [e1]; exact a4, fun v'' hv'' => a5 v'' (hsubev _ hv'')⟩
  · intro d v' hm
    rw [e2] at hm; rw [e1]
    exact h3.inbox_delivered d v' (by rw [hib]; exact List.mem_cons_of_mem _ hm)
  · intro h d v' hp; rw [e1] at hp; exact h3.store_sound h d v' hp
  · rw [e1]; exact h3.no_purge_before_delivered

/-- `notify` of a `DatasetPublished` for `ds` at `h` -/
theorem i3_notify_pub_core {f : Sem} {j : Job} {cl : Cluster} {s s' : Sys} (h3 : Inv3 f j cl s)
    (ev : Event) (rest : List Event) (hib : s.inbox = ev :: rest) (h : Host) (ds : Ds)
    (c1 : s'.ctl.outputs = s.ctl.outputs) (c2 : s'.ctl.fetchIssued = s.ctl.fetchIssued)
    (c3 : s'.ctl.dsHost = upd s.ctl.dsHost ds (upd (s.ctl.dsHost ds) h .available))
    (c4 : s'.ctl.fetchQ = (considerFetch j (markAvailable s.ctl h ds) ds h).fetchQ)
    (e1 : s'.env = s.env) (e2 : s'.inbox = rest) : Inv3 f j cl s' := by
  have hav : ∀ d h', s.ctl.dsHost d h' = .available → s'.ctl.dsHost d h' = .available := by
    intro d h' hd
    rw [c3]
    by_cases hne : d = ds
    · subst hne
      by_cases hh : h' = h
      · subst hh; simp
      · simpa [upd_other _ _ _ _ hh] using hd
    · simpa [upd_other _ _ _ _ hne] using hd
  have hold : ∀ d h', (d, h') ∈ s.ctl.fetchQ → d ∈ j.ext ∧ s'.ctl.outputs d = none ∧ d ∉ s'.ctl.fetchIssued ∧
      s'.ctl.dsHost d h' = .available := by
    intro d h' hm
    obtain ⟨a1, a2, a3, a4⟩ := h3.fetchQ_ok d h' hm
    exact ⟨a1, by rw [c1]; exact a2, by rw [c2]; exact a3, hav d h' a4⟩
  rw [i3_considerFetch_fetchQ] at c4
  simp only [markAvailable_outputs, markAvailable_fetchQ, markAvailable_fetchIssued] at c4
  refine i3_drop_event h3 ev rest hib c2 c1 ?_ ?_ e1 e2
  · intro d h' hm
    rw [c4] at hm
    split at hm
    · rename_i hc
      simp only [Bool.and_eq_true, List.contains_iff_mem, Option.isNone_iff_eq_none, Bool.not_eq_true',
        List.any_eq_false, beq_iff_eq] at hc
      obtain ⟨⟨⟨k1, k2⟩, _⟩, k4⟩ := hc
      rcases List.mem_append.mp hm with hm | hm
      · exact hold d h' hm
      · simp only [List.mem_singleton, Prod.mk.injEq] at hm
        obtain ⟨rfl, rfl⟩ := hm
        refine ⟨k1, by rw [c1]; exact k2, by rw [c2]; simpa using k4, ?_⟩
        rw [c3]; simp
    · exact hold d h' hm
  · rw [c4]
    split
    · rename_i hc
      simp only [Bool.and_eq_true, Bool.not_eq_true', List.any_eq_false, beq_iff_eq] at hc
      obtain ⟨⟨_, k3⟩, _⟩ := hc
      simp only [List.map_append, List.map_cons, List.map_nil]
      refine List.nodup_append.mpr ⟨h3.fetchQ_nodup, by simp, ?_⟩
      intro a ha b hb
      simp only [List.mem_singleton] at hb; subst hb
      simp only [List.mem_map] at ha
      obtain ⟨p, hp, rfl⟩ := ha
      exact k3 p hp
    · exact h3.fetchQ_nodup

theorem i3_step_notify1 (f : Sem) (j : Job) (cl : Cluster) (s s' : Sys) (_wf : WF j cl)
    (_h1 : Inv1 cl s) (_h2 : Inv2 j cl s) (h3 : Inv3 f j cl s) (_h4 : Inv4 j cl s)
    (hs : step f j cl s .notify1 = some s') : Inv3 f j cl s' := by
  simp only [step] at hs
  split at hs; · cases hs
  split at hs
  · cases hs
  · rename_i ev rest hib
    split at hs
    · cases hs
    · cases hs
      exact i3_drop_event h3 ev rest hib rfl rfl (fun ds h hm => h3.fetchQ_ok ds h hm) h3.fetchQ_nodup rfl rfl
    · rename_i c2 hne
      cases hs
      cases ev with
      | payload ds v =>
        simp only [notifyEvent, Except.ok.injEq] at hne
        subst hne
        exact i3_notify_payload_core h3 ds v rest hib rfl rfl rfl rfl rfl rfl
      | pubT h ds =>
        obtain ⟨g1, g2, g3, g4⟩ := i3_notifyEvent_pub j s.ctl c2 _ h ds (Or.inl rfl) hne
        exact i3_notify_pub_core h3 _ rest hib h ds g1 g2 g3 g4 rfl rfl
      | pubW w ds =>
        obtain ⟨g1, g2, g3, g4⟩ := i3_notifyEvent_pub j s.ctl c2 _ w.host ds (Or.inr ⟨w, rfl, rfl⟩) hne
        exact i3_notify_pub_core h3 _ rest hib w.host ds g1 g2 g3 g4 rfl rfl

/-! ### environment steps -/

/-- an environment step that may drop outstanding fetches, only adds sound values to the stores and
only adds non-payload events -/
theorem i3_env_mono {f : Sem} {j : Job} {cl : Cluster} {s : Sys} (h3 : Inv3 f j cl s) (e' : Env) (extra : List Event)
    (hsub : ∀ ds h, IO.fetch ds h ∈ e'.outstanding → IO.fetch ds h ∈ s.env.outstanding)
    (hlen : ∀ ds, (e'.outstanding.filter (isFetchOf ds)).length ≤ (s.env.outstanding.filter (isFetchOf ds)).length)
    (hpres : ∀ h ds, (s.env.present h ds).isSome = true → (e'.present h ds).isSome = true)
    (hsound : ∀ h ds v, e'.present h ds = some v → den f j ds = some v)
    (hdel : e'.delivered = s.env.delivered)
    (hpend : e'.pending = s.env.pending ++ extra) (hextra : ∀ ds v, Event.payload ds v ∉ extra)
    (hviol : "C04 purge-before-output-delivered" ∉ e'.viol) : Inv3 f j cl { s with env := e' } := by
  have hall : Sys.allEv { s with env := e' } = s.allEv ++ extra := by
    simp only [Sys.allEv, hpend, List.append_assoc]
  refine i3_mono h3 rfl rfl (fun ds h hm => h3.fetchQ_ok ds h hm) h3.fetchQ_nodup hsub hlen
    (fun ds h _ hp => hpres h ds hp) hsound (fun ds hd => by simp only [hdel]; exact hd) ?_ ?_ ?_ hviol
  · intro ds v hm
    rw [hall] at hm
    rcases List.mem_append.mp hm with hm | hm
    · exact hm
    · exact absurd hm (hextra ds v)
  · intro ds
    rw [hall, List.filter_append, List.length_append, i3_len0_of_no_payload extra ds (hextra ds)]
    exact Nat.le_refl _
  · intro ds v hm
    simp only [hdel]
    exact h3.inbox_delivered ds v hm

theorem i3_publishOutputs_present (f : Sem) (w : Worker) (t : Task) (args : List Val) (l : List Ds) (e : Env)
    (h : Host) (ds : Ds) :
    ((l.foldl (fun e ds =>
      { e with present := upd e.present w.host (upd (e.present w.host) ds (some (f t ds.out args))),
               produced := upd e.produced ds true,
               pending := e.pending ++ [Event.pubW w ds] }) e).present h ds) =
      if h = w.host ∧ ds ∈ l then some (f t ds.out args) else e.present h ds := by
  induction l generalizing e with
  | nil => simp
  | cons a l ih =>
    simp only [List.foldl_cons]
    rw [ih]
    simp only [List.mem_cons]
    by_cases hh : h = w.host
    · subst hh
      by_cases hl : ds ∈ l
      · simp [hl]
      · by_cases hd : ds = a
        · subst hd; simp [hl]
        · simp [hl, hd]
    · simp [hh]

theorem i3_mem_outputsOf (j : Job) (t : Task) (ds : Ds) : ds ∈ j.outputsOf t ↔ ds.task = t ∧ ds.out < j.nOut t := by
  simp only [Job.outputsOf, List.mem_map, List.mem_range]
  constructor
  · rintro ⟨k, hk, rfl⟩; exact ⟨rfl, hk⟩
  · rintro ⟨rfl, hk⟩; exact ⟨ds.out, hk, rfl⟩

theorem i3_io_fetch_core {f : Sem} {j : Job} {cl : Cluster} {s : Sys} (h3 : Inv3 f j cl s) (e' : Env)
    (i : Nat) (ds : Ds) (src : Host) (v : Val) (ho : s.env.outstanding[i]? = some (IO.fetch ds src))
    (hv : s.env.present src ds = some v)
    (e1 : e'.outstanding = s.env.outstanding.eraseIdx i) (e2 : e'.present = s.env.present)
    (e3 : e'.delivered = s.env.delivered) (e4 : e'.pending = s.env.pending ++ [Event.payload ds v])
    (e5 : e'.viol = s.env.viol) : Inv3 f j cl { s with env := e' } := by
  have hm : IO.fetch ds src ∈ s.env.outstanding := List.mem_of_getElem? ho
  obtain ⟨q1, q2, q3, q4, _⟩ := h3.fetch_out ds src hm
  have hcnt := i3_eraseIdx_filter (isFetchOf ds) s.env.outstanding i _ ho
  simp only [isFetchOf, beq_self_eq_true, if_true] at hcnt
  have hc1 := h3.fetch_count ds
  have hnof : ∀ h, IO.fetch ds h ∉ e'.outstanding := by
    rw [e1]; exact i3_no_fetch_of_len0 _ _ (by omega)
  have hsub : ∀ d h, IO.fetch d h ∈ e'.outstanding → IO.fetch d h ∈ s.env.outstanding := by
    intro d h hh; rw [e1] at hh; exact i3_mem_of_mem_eraseIdx _ _ _ hh
  have hall : Sys.allEv { s with env := e' } = s.allEv ++ [Event.payload ds v] := by
    simp only [Sys.allEv, e4, List.append_assoc]
  refine ⟨fun d h hq => h3.fetchQ_ok d h hq, h3.fetchQ_nodup, ?_, ?_, ?_, ?_, ?_, ?_, ?_, ?_⟩
  · intro d h hh
    obtain ⟨a1, a2, a3, a4, a5⟩ := h3.fetch_out d h (hsub d h hh)
    have hne : d ≠ ds := by intro heq; subst heq; exact hnof h hh
    refine ⟨a1, a2, a3, ?_, by simp only [e2]; exact a5⟩
    intro v' hv'
    rw [hall] at hv'
    rcases List.mem_append.mp hv' with hv' | hv'
    · exact a4 v' hv'
    · simp only [List.mem_singleton, Event.payload.injEq] at hv'
      exact hne hv'.1
  · intro d
    have := i3_eraseIdx_filter (isFetchOf d) s.env.outstanding i _ ho
    have h0 := h3.fetch_count d
    simp only [e1]
    omega
  · intro d v' hm'
    rw [hall] at hm'
    rcases List.mem_append.mp hm' with hm' | hm'
    · obtain ⟨a1, a2, a3, a4, a5⟩ := h3.payload_ok d v' hm'
      exact ⟨a1, a2, a3, fun h hh => a4 h (hsub d h hh), a5⟩
    · simp only [List.mem_singleton, Event.payload.injEq] at hm'
      obtain ⟨rfl, rfl⟩ := hm'
      exact ⟨q1, q2, q3, hnof, h3.store_sound src d v' hv⟩
  · intro d
    rw [hall, List.filter_append, List.length_append]
    by_cases hd : d = ds
    · subst hd
      rw [i3_len0_of_no_payload _ _ q4]
      simp [isPayloadOf]
    · rw [List.filter_cons_of_neg (by simp [i3_isPayloadOf_ne _ _ _ hd])]
      simpa using h3.payload_count d
  · intro d v' ho'
    obtain ⟨a1, a2, a3, a4, a5⟩ := h3.outputs_ok d v' ho'
    have hne : d ≠ ds := by intro heq; subst heq; simp only at ho'; rw [q2] at ho'; cases ho'
    refine ⟨a1, by simp only [e3]; exact a2, a3, fun h hh => a4 h (hsub d h hh), ?_⟩
    intro v'' hv''
    rw [hall] at hv''
    rcases List.mem_append.mp hv'' with hv'' | hv''
    · exact a5 v'' hv''
    · simp only [List.mem_singleton, Event.payload.injEq] at hv''
      exact hne hv''.1
  · intro d v' hm'; simp only [e3]; exact h3.inbox_delivered d v' hm'
  · intro h d v' hp; simp only [e2] at hp; exact h3.store_sound h d v' hp
  · simp only [e5]; exact h3.no_purge_before_delivered

theorem i3_step_env (f : Sem) (j : Job) (cl : Cluster) (s s' : Sys) (wf : WF j cl) (es : EnvStep)
    (h1 : Inv1 cl s) (h2 : Inv2 j cl s) (h3 : Inv3 f j cl s) (_h4 : Inv4 j cl s)
    (hs : step f j cl s (.env es) = some s') : Inv3 f j cl s' := by
  simp only [step] at hs
  split at hs; · cases hs
  rw [envStepP_eq f j s.env es h1.no_trim] at hs
  cases he : envStep f j s.env es with
  | none => simp [he] at hs
  | some e' =>
    simp only [he, Option.map_some, Option.some.injEq] at hs
    subst hs
    cases es with
    | run w t =>
      simp only [envStep] at he
      split at he
      · rename_i hc
        simp only [Bool.and_eq_true, List.contains_iff_mem, List.all_eq_true] at hc
        obtain ⟨hq, hin⟩ := hc
        cases he
        have ht : t < j.tasks.length := h2.flight_valid w t (h1.queued_flight w t hq)
        have pf := publishOutputs_frame f j w t ((j.inputs t).map (fun d => (s.env.present w.host d).getD ""))
          { s.env with queued := s.env.queued.erase (w, t), ran := upd s.env.ran t true }
        obtain ⟨_, _, p3, p4, _, p6, _, p8⟩ := pf
        have pp : ∀ h ds, (publishOutputs f j w t ((j.inputs t).map (fun d => (s.env.present w.host d).getD ""))
            { s.env with queued := s.env.queued.erase (w, t), ran := upd s.env.ran t true }).present h ds =
            if h = w.host ∧ ds ∈ j.outputsOf t then
              some (f t ds.out ((j.inputs t).map (fun d => (s.env.present w.host d).getD "")))
            else s.env.present h ds := by
          intro h ds
          unfold publishOutputs
          rw [i3_publishOutputs_present]
        have hargs : (j.inputs t).map (fun d => (s.env.present w.host d).getD "") =
            (j.inputs t).map (fun d => (den f j d).getD "") := by
          apply List.map_congr_left
          intro d hd
          have := hin d hd
          cases hp : s.env.present w.host d with
          | none => rw [hp] at this; simp at this
          | some v => rw [h3.store_sound _ _ _ hp]
        refine i3_env_mono h3 _ ((j.outputsOf t).map (fun ds => Event.pubW w ds)) ?_ ?_ ?_ ?_ p6 p8 ?_ ?_
        · intro ds h hm; rw [p4] at hm; exact hm
        · intro ds; rw [p4]; exact Nat.le_refl _
        · intro h ds hp
          rw [pp]
          split
          · rfl
          · exact hp
        · intro h ds v hp
          rw [pp] at hp
          split at hp
          · rename_i hc
            obtain ⟨_, hmem⟩ := hc
            rw [i3_mem_outputsOf] at hmem
            obtain ⟨hdt, hk⟩ := hmem
            simp only [Option.some.injEq] at hp
            subst hp
            cases ds with
            | mk dt k =>
              simp only at hdt hk ⊢
              subst hdt
              rw [i3_den_eq f j cl wf dt k ht hk, hargs]
          · exact h3.store_sound h ds v hp
        · intro ds v hm; simp at hm
        · rw [p3]; exact h3.no_purge_before_delivered
      · cases he
    | io i =>
      simp only [envStep] at he
      split at he
      · cases he
      · rename_i o ho
        have hsubE : ∀ ds h, IO.fetch ds h ∈ s.env.outstanding.eraseIdx i → IO.fetch ds h ∈ s.env.outstanding :=
          fun ds h hh => i3_mem_of_mem_eraseIdx _ _ _ hh
        have hlenE : ∀ ds, ((s.env.outstanding.eraseIdx i).filter (isFetchOf ds)).length ≤
            (s.env.outstanding.filter (isFetchOf ds)).length := by
          intro ds
          have := i3_eraseIdx_filter (isFetchOf ds) s.env.outstanding i o ho
          omega
        cases o with
        | transmit ds src tgt =>
          dsimp only at he
          split at he
          · cases he
            refine i3_env_mono h3 _ [] (by simpa using hsubE) (by simpa using hlenE) (by simp)
              (by simpa using h3.store_sound) (by simp) (by simp) (by simp) ?_
            rw [mem_flag]; simp [h3.no_purge_before_delivered]
          · rename_i v hv
            split at he
            · cases he
              exact i3_env_mono h3 _ [] hsubE hlenE (fun _ _ hp => hp) h3.store_sound rfl (by simp) (by simp)
                h3.no_purge_before_delivered
            · cases he
              refine i3_env_mono h3 _ [Event.pubT tgt ds] hsubE hlenE ?_ ?_ rfl rfl (by simp)
                h3.no_purge_before_delivered
              · intro h d hp
                simp only
                by_cases hh : h = tgt
                · subst hh
                  by_cases hd : d = ds
                  · subst hd; simp
                  · simpa [upd_other _ _ _ _ hd] using hp
                · simpa [upd_other _ _ _ _ hh] using hp
              · intro h d v' hp
                simp only at hp
                by_cases hh : h = tgt
                · subst hh
                  by_cases hd : d = ds
                  · subst hd
                    simp only [upd_same, Option.some.injEq] at hp
                    subst hp
                    exact h3.store_sound src d v hv
                  · rw [upd_same, upd_other _ _ _ _ hd] at hp; exact h3.store_sound _ _ _ hp
                · rw [upd_other _ _ _ _ hh] at hp; exact h3.store_sound _ _ _ hp
        | fetch ds src =>
          dsimp only at he
          split at he
          · cases he
            refine i3_env_mono h3 _ [] (by simpa using hsubE) (by simpa using hlenE) (by simp)
              (by simpa using h3.store_sound) (by simp) (by simp) (by simp) ?_
            rw [mem_flag]; simp [h3.no_purge_before_delivered]
          · rename_i v hv
            cases he
            exact i3_io_fetch_core h3 _ i ds src v ho hv rfl rfl rfl rfl rfl

end EkwVerif.Ctrl
