/-
Progress of `scheduler.api.assign` (C03): an iteration of the controller loop entered (after ANY history
of event deliveries) with something computable and nothing ongoing yields at least one assignment before
`assign()` returns (`sP_progress : ProgressStmt f j cl cm`).

Proof: at the entry state pick a *universal* idle worker `g` (a GPU worker if some task needs a
GPU). While no assignment has been made (`todo = []`) the controller state and the component
weights stay as at entry, and the stage of `assign()` always still owes `g` a visit to a
component of positive weight (`sP_PendSt`); by the KEY LEMMA (`sP_weight_has_computable`) such a
component has a computable task, so the heuristic cannot return for it without an assignment, and
`endAssign` is never enabled.
-/
import EkwVerif.Lemmas.SchedProgressDefs

set_option linter.unusedVariables false

namespace EkwVerif.Ctrl

/-! ### the facts carried from the entry state -/

/-- snapshot of the entry state: controller state `c0`, weights `w0`, the universal idle worker `g` -/
structure sP_Entry (j : Job) (cl : Cluster) (cm : Comps) (c0 : Ctl) (w0 : Nat → Nat) (g : Worker) : Prop where
  g_idle : g ∈ c0.idle
  univ : ∀ t, t ∈ c0.computable → j.gpu t = true → cl.hasGpu g = true
  key : ∀ c, w0 c > 0 → ∃ t, t ∈ c0.computable ∧ cm.compOf t = c
  some_comp : ∃ c, c < cm.n ∧ w0 c > 0

/-- inside `_assignment_heuristic` for a component that owes `g` an assignment: `g` is (or will be) among the
workers and the lists are the full snapshots of the computable tasks of the component -/
def sP_Served (j : Job) (cl : Cluster) (cm : Comps) (c0 : Ctl) (g : Worker) (c : Nat) :
    Cls → List Task → List Worker → List Task → List Worker → Prop
  | .gpu, tasks, workers, cpuT, cpuW =>
    (cl.hasGpu g = true → g ∈ workers) ∧ (cl.hasGpu g = false → g ∈ cpuW) ∧
    ∀ t, t ∈ c0.computable → cm.compOf t = c → (j.gpu t = true → t ∈ tasks) ∧ (j.gpu t = false → t ∈ cpuT)
  | .cpu, tasks, workers, _, _ =>
    g ∈ workers ∧ ∀ t, t ∈ c0.computable → cm.compOf t = c → t ∈ tasks

/-- what the remaining step-I list (`k = false`) / the step-II lists (`k = true`) still owe `g` -/
def sP_Stored (w0 : Nat → Nat) (g : Worker) (h2c : Host → Option Nat) (sc : List Nat) (sm : List Host) : Bool → Prop
  | false => ∀ c', h2c g.host = some c' → w0 c' > 0 → c' ∈ sc
  | true => g.host ∈ sm ∧ sc ≠ [] ∧ ∀ c, c ∈ sc → w0 c > 0

/-- "the stage still owes `g` an assignment" -/
def sP_PendSt (j : Job) (cl : Cluster) (cm : Comps) (c0 : Ctl) (w0 : Nat → Nat) (g : Worker)
    (h2c : Host → Option Nat) (sc : List Nat) (sm : List Host) : AStage → Prop
  | .off => False
  | .done => False
  | .stepI pend => sP_Stored w0 g h2c pend [] false
  | .stepII comps _ mig => sP_Stored w0 g h2c comps mig true
  | .ready c ws k => (w0 c > 0 ∧ g ∈ ws) ∨ sP_Stored w0 g h2c sc sm k
  | .inH c cls tasks workers _ cpuT cpuW k =>
    (w0 c > 0 ∧ sP_Served j cl cm c0 g c cls tasks workers cpuT cpuW) ∨ sP_Stored w0 g h2c sc sm k

/-- the invariant along `AssignStar` while no assignment has been made -/
structure sP_Good (j : Job) (cl : Cluster) (cm : Comps) (c0 : Ctl) (w0 : Nat → Nat) (g : Worker) (y : SysX) : Prop where
  phase : y.sys.phase = .assigning
  todo : y.sys.todo = []
  ctl : y.sys.ctl = c0
  weight : y.sch.weight = w0
  pend : sP_PendSt j cl cm c0 w0 g y.sch.host2comp y.sch.stepIIcomps y.sch.stepIImig y.sch.stage

theorem sP_good_of {j : Job} {cl : Cluster} {cm : Comps} {c0 : Ctl} {w0 : Nat → Nat} {g : Worker} {y z : SysX}
    (hG : sP_Good j cl cm c0 w0 g y) (hsys : z.sys = y.sys) (hw : z.sch.weight = y.sch.weight)
    (hp : sP_PendSt j cl cm c0 w0 g z.sch.host2comp z.sch.stepIIcomps z.sch.stepIImig z.sch.stage) :
    sP_Good j cl cm c0 w0 g z :=
  ⟨by rw [hsys]; exact hG.phase, by rw [hsys]; exact hG.todo, by rw [hsys]; exact hG.ctl, by rw [hw]; exact hG.weight, hp⟩

/-! ### the scheduler-only steps -/

theorem sP_step_awcBegin (f : Sem) (j : Job) (cl : Cluster) (cm : Comps) (c0 : Ctl) (w0 : Nat → Nat) (g : Worker)
    (y z : SysX) (c : Nat) (hE : sP_Entry j cl cm c0 w0 g) (hG : sP_Good j cl cm c0 w0 g y)
    (hs : stepX f j cl cm y (.awcBegin c) = some z) : sP_Good j cl cm c0 w0 g z := by
  have hp := hG.pend
  simp only [stepX] at hs
  split at hs
  · cases hs
  split at hs
  · rename_i pend hst
    split at hs
    · rename_i hc
      cases hs
      rw [hst] at hp
      simp only [sP_PendSt, sP_Stored] at hp
      refine sP_good_of hG rfl rfl ?_
      simp only [sP_PendSt, sP_Stored]
      by_cases h1 : y.sch.host2comp g.host = some c ∧ w0 c > 0
      · refine Or.inl ⟨h1.2, ?_⟩
        rw [hG.ctl]
        simp only [List.mem_filter, beq_iff_eq]
        exact ⟨hE.g_idle, h1.1⟩
      · refine Or.inr ?_
        intro c' hc' hw'
        have hne : c' ≠ c := by
          intro he; subst he; exact h1 ⟨hc', hw'⟩
        exact (List.mem_erase_of_ne hne).mpr (hp c' hc' hw')
    · cases hs
  · cases hs

theorem sP_step_awcEnter (f : Sem) (j : Job) (cl : Cluster) (cm : Comps) (c0 : Ctl) (w0 : Nat → Nat) (g : Worker)
    (y z : SysX) (hE : sP_Entry j cl cm c0 w0 g) (hG : sP_Good j cl cm c0 w0 g y)
    (hs : stepX f j cl cm y .awcEnter = some z) : sP_Good j cl cm c0 w0 g z := by
  have hp := hG.pend
  simp only [stepX] at hs
  split at hs
  · cases hs
  split at hs
  · rename_i c ws k hst
    rw [hst] at hp
    simp only [sP_PendSt] at hp
    have key : (w0 c > 0 ∧ sP_Served j cl cm c0 g c .gpu (List.filter (fun t => j.gpu t) (compTasks cm y.sys.ctl c))
        (List.filter (fun w => cl.hasGpu w) ws) (List.filter (fun t => !(j.gpu t)) (compTasks cm y.sys.ctl c))
        (List.filter (fun w => !(cl.hasGpu w)) ws)) ∨
        sP_Stored w0 g y.sch.host2comp y.sch.stepIIcomps y.sch.stepIImig k := by
      rcases hp with ⟨hw, hg⟩ | hp
      · refine Or.inl ⟨hw, ?_⟩
        simp only [sP_Served, List.mem_filter, compTasks, hG.ctl, beq_iff_eq, Bool.not_eq_true']
        refine ⟨fun h => ⟨hg, h⟩, fun h => ⟨hg, h⟩, ?_⟩
        intro t ht hc
        exact ⟨fun h => ⟨⟨ht, hc⟩, h⟩, fun h => ⟨⟨ht, hc⟩, h⟩⟩
      · exact Or.inr hp
    split at hs <;> (cases hs; exact sP_good_of hG rfl rfl (by simp only [sP_PendSt]; exact key))
  · cases hs

theorem sP_step_hPhase2 (f : Sem) (j : Job) (cl : Cluster) (cm : Comps) (c0 : Ctl) (w0 : Nat → Nat) (g : Worker)
    (y z : SysX) (hE : sP_Entry j cl cm c0 w0 g) (hG : sP_Good j cl cm c0 w0 g y)
    (hs : stepX f j cl cm y .hPhase2 = some z) : sP_Good j cl cm c0 w0 g z := by
  have hp := hG.pend
  simp only [stepX] at hs
  split at hs
  · cases hs
  split at hs
  · rename_i c cls tasks workers cpuT cpuW k hst
    rw [hst] at hp
    simp only [sP_PendSt] at hp
    split at hs <;> (cases hs; exact sP_good_of hG rfl rfl (by simp only [sP_PendSt]; exact hp))
  · cases hs

theorem sP_step_hEnd (f : Sem) (j : Job) (cl : Cluster) (cm : Comps) (c0 : Ctl) (w0 : Nat → Nat) (g : Worker)
    (y z : SysX) (hE : sP_Entry j cl cm c0 w0 g) (hG : sP_Good j cl cm c0 w0 g y)
    (hs : stepX f j cl cm y .hEnd = some z) : sP_Good j cl cm c0 w0 g z := by
  have hp := hG.pend
  simp only [stepX] at hs
  split at hs
  · cases hs
  split at hs
  · rename_i c cls tasks workers cpuT cpuW k hst
    rw [hst] at hp
    simp only [sP_PendSt] at hp
    split at hs
    · cases hs
    rename_i hne
    have hex : tasks = [] ∨ workers = [] := by
      simp only [Bool.not_eq_true', Bool.not_eq_false, Bool.or_eq_true, List.isEmpty_iff] at hne
      exact hne
    cases cls with
    | gpu =>
      simp only at hs
      have key : (w0 c > 0 ∧ sP_Served j cl cm c0 g c .cpu cpuT
          (cpuW ++ List.filter (fun w => y.sys.ctl.idle.contains w) workers) [] []) ∨
          sP_Stored w0 g y.sch.host2comp y.sch.stepIIcomps y.sch.stepIImig k := by
        rcases hp with ⟨hw, hsv⟩ | hp
        · refine Or.inl ⟨hw, ?_⟩
          simp only [sP_Served] at hsv ⊢
          obtain ⟨hg1, hg2, hts⟩ := hsv
          cases hgg : cl.hasGpu g with
          | true =>
            have hgw := hg1 hgg
            have htn : tasks = [] := by
              rcases hex with h | h
              · exact h
              · rw [h] at hgw; cases hgw
            refine ⟨?_, ?_⟩
            · refine List.mem_append.mpr (Or.inr ?_)
              simp only [List.mem_filter, List.contains_iff_mem]
              exact ⟨hgw, by rw [hG.ctl]; exact hE.g_idle⟩
            · intro t ht hc
              cases hgt : j.gpu t with
              | true =>
                have := (hts t ht hc).1 hgt
                rw [htn] at this; cases this
              | false => exact (hts t ht hc).2 hgt
          | false =>
            refine ⟨List.mem_append.mpr (Or.inl (hg2 hgg)), ?_⟩
            intro t ht hc
            cases hgt : j.gpu t with
            | true =>
              have := hE.univ t ht hgt
              rw [hgg] at this; cases this
            | false => exact (hts t ht hc).2 hgt
        · exact Or.inr hp
      split at hs <;> (cases hs; exact sP_good_of hG rfl rfl (by simp only [sP_PendSt]; exact key))
    | cpu =>
      simp only at hs
      have hst' : sP_Stored w0 g y.sch.host2comp y.sch.stepIIcomps y.sch.stepIImig k := by
        rcases hp with ⟨hw, hsv⟩ | hp
        · exfalso
          simp only [sP_Served] at hsv
          obtain ⟨hgw, hts⟩ := hsv
          have htn : tasks = [] := by
            rcases hex with h | h
            · exact h
            · rw [h] at hgw; cases hgw
          obtain ⟨t, ht, hc⟩ := hE.key c hw
          have := hts t ht hc
          rw [htn] at this; cases this
        · exact hp
      cases k with
      | true =>
        simp only [if_true] at hs
        cases hs
        refine sP_good_of hG rfl rfl ?_
        simp only [sP_PendSt]
        exact hst'
      | false =>
        simp only [Bool.false_eq_true, if_false] at hs
        cases hs
        refine sP_good_of hG rfl rfl ?_
        simp only [sP_PendSt]
        simp only [sP_Stored] at hst' ⊢
        exact hst'
  · cases hs

theorem sP_step_beginStepII (f : Sem) (j : Job) (cl : Cluster) (cm : Comps) (c0 : Ctl) (w0 : Nat → Nat) (g : Worker)
    (y z : SysX) (hE : sP_Entry j cl cm c0 w0 g) (hG : sP_Good j cl cm c0 w0 g y)
    (hs : stepX f j cl cm y .beginStepII = some z) : sP_Good j cl cm c0 w0 g z := by
  have hp := hG.pend
  have hgi : g ∈ y.sys.ctl.idle := by rw [hG.ctl]; exact hE.g_idle
  simp only [stepX] at hs
  split at hs
  · cases hs
  split at hs
  · rename_i hst
    rw [hst] at hp
    simp only [sP_PendSt, sP_Stored] at hp
    split at hs
    · rename_i hie
      exfalso
      simp only [List.isEmpty_iff] at hie
      rw [hie] at hgi; cases hgi
    split at hs
    · rename_i hce
      exfalso
      obtain ⟨c, hc, hw⟩ := hE.some_comp
      simp only [List.isEmpty_iff] at hce
      have : c ∈ sortDesc y.sch.weight ((List.range cm.n).filter (fun c => decide (y.sch.weight c > 0))) := by
        rw [sS2_mem_sortDesc]
        simp only [List.mem_filter, List.mem_range, decide_eq_true_eq]
        exact ⟨hc, by rw [hG.weight]; exact hw⟩
      rw [hce] at this; cases this
    · rename_i hce
      cases hs
      refine sP_good_of hG rfl rfl ?_
      simp only [sP_PendSt, sP_Stored]
      refine ⟨?_, ?_, ?_⟩
      · rw [List.mem_eraseDups]
        refine List.mem_map.mpr ⟨g, ?_, rfl⟩
        simp only [List.mem_filter]
        refine ⟨hgi, ?_⟩
        cases hh : y.sch.host2comp g.host with
        | none => rfl
        | some c' =>
          simp only [beq_iff_eq]
          have := hp c' hh
          rw [hG.weight]
          cases hw : w0 c' with
          | zero => rfl
          | succ n => exact absurd (this (by omega)) (by simp)
      · intro h
        simp only [List.isEmpty_iff] at hce
        exact hce h
      · intro c hc
        rw [sS2_mem_sortDesc] at hc
        simp only [List.mem_filter, List.mem_range, decide_eq_true_eq] at hc
        rw [← hG.weight]; exact hc.2
  · cases hs

theorem sP_step_migrate (f : Sem) (j : Job) (cl : Cluster) (cm : Comps) (c0 : Ctl) (w0 : Nat → Nat) (g : Worker)
    (y z : SysX) (h : Host) (hE : sP_Entry j cl cm c0 w0 g) (hG : sP_Good j cl cm c0 w0 g y)
    (hs : stepX f j cl cm y (.migrate h) = some z) : sP_Good j cl cm c0 w0 g z := by
  have hp := hG.pend
  have hgi : g ∈ y.sys.ctl.idle := by rw [hG.ctl]; exact hE.g_idle
  simp only [stepX] at hs
  split at hs
  · cases hs
  split at hs
  · rename_i comps i mig hst
    rw [hst] at hp
    simp only [sP_PendSt, sP_Stored] at hp
    obtain ⟨hgm, hcne, hcw⟩ := hp
    split at hs
    · cases hs
    split at hs
    · cases hs
    · rename_i c hc
      cases hs
      have hcm : c ∈ comps := List.mem_of_getElem? hc
      refine sP_good_of hG rfl rfl ?_
      simp only [sP_PendSt, sP_Stored]
      by_cases hh : g.host = h
      · refine Or.inl ⟨hcw c hcm, ?_⟩
        simp only [List.mem_filter, beq_iff_eq]
        exact ⟨hgi, hh⟩
      · refine Or.inr ⟨?_, hcne, hcw⟩
        exact (List.mem_erase_of_ne hh).mpr hgm
  · cases hs

/-! ### the base steps -/

/-- in phase `assigning` only `assign`, `endAssign` and environment steps are enabled; what they do -/
theorem sP_base_step (f : Sem) (j : Job) (cl : Cluster) (s s' : Sys) (st : Step) (hph : s.phase = .assigning)
    (hs : step f j cl s st = some s') :
    s'.phase = .crashed ∨ (∃ l, l ≠ [] ∧ s'.todo = s.todo ++ l) ∨
    (s'.todo = s.todo ∧ s'.ctl = s.ctl ∧ ((st = .endAssign ∧ s'.phase = .planning) ∨
      ((∃ es, st = .env es) ∧ s'.phase = .assigning))) := by
  cases st with
  | enter => simp [step, hph] at hs
  | assign a =>
    simp only [step] at hs
    split at hs
    · cases hs
    split at hs
    · cases hs
    · cases hs; exact Or.inl rfl
    · cases hs; exact Or.inr (Or.inl ⟨_, by simp, rfl⟩)
  | endAssign =>
    simp only [step] at hs
    split at hs
    · cases hs
    · cases hs; exact Or.inr (Or.inr ⟨rfl, rfl, Or.inl ⟨rfl, rfl⟩⟩)
  | plan1 => simp [step, hph] at hs
  | endPlan => simp [step, hph] at hs
  | flushF1 => simp [step, hph] at hs
  | endFlushF => simp [step, hph] at hs
  | flushP1 => simp [step, hph] at hs
  | endFlush => simp [step, hph] at hs
  | recv evs => simp [step, hph] at hs
  | notify1 => simp [step, hph] at hs
  | endNotify => simp [step, hph] at hs
  | env es =>
    simp only [step] at hs
    split at hs
    · cases hs
    · cases he : envStepP f j s.env es with
      | none => simp [he] at hs
      | some e =>
        simp only [he, Option.map_some, Option.some.injEq] at hs
        subst hs
        exact Or.inr (Or.inr ⟨rfl, rfl, Or.inr ⟨⟨es, rfl⟩, hph⟩⟩)

/-- `endAssign` is not enabled while `g` is owed an assignment -/
theorem sP_no_endAssign (f : Sem) (j : Job) (cl : Cluster) (cm : Comps) (c0 : Ctl) (w0 : Nat → Nat) (g : Worker)
    (y z : SysX) (hG : sP_Good j cl cm c0 w0 g y)
    (hs : stepX f j cl cm y (.base .endAssign) = some z) : False := by
  have hp := hG.pend
  simp only [stepX] at hs
  split at hs
  · cases hs
  split at hs
  · rename_i hst
    rw [hst] at hp
    exact hp
  · rename_i hst
    rw [hst] at hp
    simp only [sP_PendSt, sP_Stored] at hp
    cases hp.1
  · cases hs

/-- **preservation**: a step from a state that owes `g` an assignment crashes, makes an assignment, or still owes it -/
theorem sP_step (f : Sem) (j : Job) (cl : Cluster) (cm : Comps) (c0 : Ctl) (w0 : Nat → Nat) (g : Worker)
    (y z : SysX) (st : StepX) (hE : sP_Entry j cl cm c0 w0 g) (hG : sP_Good j cl cm c0 w0 g y)
    (hs : stepX f j cl cm y st = some z) :
    z.sys.phase = .crashed ∨ z.sys.todo ≠ [] ∨ sP_Good j cl cm c0 w0 g z := by
  cases st with
  | base bst =>
    have hb := (sS1_base_sys f j cl cm y z bst hs).2
    rcases sP_base_step f j cl y.sys z.sys bst hG.phase hb with h | ⟨l, hl, h⟩ | ⟨ht, hc, h⟩
    · exact Or.inl h
    · refine Or.inr (Or.inl ?_)
      rw [h, hG.todo]; simpa using hl
    · rcases h with ⟨rfl, _⟩ | ⟨⟨es, rfl⟩, hph⟩
      · exact (sP_no_endAssign f j cl cm c0 w0 g y z hG hs).elim
      · have hsch := (sS1_plain_spec f j cl cm y z (.env es) (by simp [sS1_plain]) hs).2.2
        refine Or.inr (Or.inr ⟨hph, by rw [ht]; exact hG.todo, by rw [hc]; exact hG.ctl, by rw [hsch]; exact hG.weight, ?_⟩)
        rw [hsch]; exact hG.pend
  | awcBegin c => exact Or.inr (Or.inr (sP_step_awcBegin f j cl cm c0 w0 g y z c hE hG hs))
  | awcEnter => exact Or.inr (Or.inr (sP_step_awcEnter f j cl cm c0 w0 g y z hE hG hs))
  | hPhase2 => exact Or.inr (Or.inr (sP_step_hPhase2 f j cl cm c0 w0 g y z hE hG hs))
  | hEnd => exact Or.inr (Or.inr (sP_step_hEnd f j cl cm c0 w0 g y z hE hG hs))
  | beginStepII => exact Or.inr (Or.inr (sP_step_beginStepII f j cl cm c0 w0 g y z hE hG hs))
  | migrate h => exact Or.inr (Or.inr (sP_step_migrate f j cl cm c0 w0 g y z h hE hG hs))

/-- once an assignment has been made, `todo` stays non-empty while inside `assign()` -/
theorem sP_step_todo (f : Sem) (j : Job) (cl : Cluster) (cm : Comps) (y z : SysX) (st : StepX)
    (hph : y.sys.phase = .assigning) (hne : y.sys.todo ≠ []) (hs : stepX f j cl cm y st = some z) :
    z.sys.phase = .crashed ∨ z.sys.todo ≠ [] := by
  rcases sL_stepX_proj f j cl cm y z st hs with h | ⟨bst, _, hb⟩
  · right; rw [h]; exact hne
  · rcases sP_base_step f j cl y.sys z.sys bst hph hb with h | ⟨l, hl, h⟩ | ⟨ht, _, _⟩
    · exact Or.inl h
    · right; rw [h]; simp [hne]
    · right; rw [ht]; exact hne

/-- the invariant along `AssignStar` -/
theorem sP_star (f : Sem) (j : Job) (cl : Cluster) (cm : Comps) (c0 : Ctl) (w0 : Nat → Nat) (g : Worker)
    (x1 x2 : SysX) (hE : sP_Entry j cl cm c0 w0 g) (hG : sP_Good j cl cm c0 w0 g x1)
    (h : AssignStar f j cl cm x1 x2) :
    x2.sys.phase = .crashed ∨ x2.sys.todo ≠ [] ∨ sP_Good j cl cm c0 w0 g x2 := by
  induction h with
  | refl => exact Or.inr (Or.inr hG)
  | step y z st _ hph hs ih =>
    rcases ih with h | h | h
    · rw [hph] at h; cases h
    · rcases sP_step_todo f j cl cm y z st hph h hs with h | h
      · exact Or.inl h
      · exact Or.inr (Or.inl h)
    · exact sP_step f j cl cm c0 w0 g y z st hE h hs

/-! ### the entry state -/

/-- **KEY LEMMA** (any event order, thanks to `hDA`: a completed task has all its outputs announced): with nothing in flight, a component that still has an undispatched task has a
computable task -/
theorem sP_undisp_has_computable (j : Job) (cl : Cluster) (cm : Comps) (s : Sys) (wf : WF j cl) (wfc : WFC j cm)
    (h1 : Inv1 cl s) (hF : InvLive j cl s)
    (hDA : ∀ t, s.ctl.doneC t = true → ∀ k, k < j.nOut t → s.ctl.announced ⟨t, k⟩ = true) (hnofl : ∀ w t, ¬ s.inFlight w t) (c : Nat) :
    ∀ n, ∀ t, t < n → t < j.tasks.length → cm.compOf t = c → s.ctl.dispatched t = 0 →
      ∃ t', t' ∈ s.ctl.computable ∧ cm.compOf t' = c := by
  intro n
  induction n with
  | zero => intro t ht; omega
  | succ n ih =>
    intro t ht htl hc h0
    rcases hF.undisp t htl h0 with h | ⟨htr, ds, hds⟩
    · exact ⟨t, h, hc⟩
    · obtain ⟨hin, hann⟩ := hF.tracker_sound t ds htr hds
      have hlt := wf.topo t ds hin
      have hcs : cm.compOf ds.task = c := by rw [wfc.edge_same t ds hin]; exact hc
      have hle := h1.once.le ds.task
      by_cases hd1 : s.ctl.dispatched ds.task = 1
      · exfalso
        rcases hF.disp_flight_or_done ds.task hd1 with ⟨w, hw⟩ | hdone
        · exact hnofl w ds.task hw
        · have h3 : s.ctl.announced ⟨ds.task, ds.out⟩ = true :=
            hDA ds.task hdone ds.out (wf.outs t ds hin)
          have h4 : (⟨ds.task, ds.out⟩ : Ds) = ds := rfl
          rw [h4, hann] at h3
          cases h3
      · exact ih ds.task (by omega) (by omega) hcs (by omega)

theorem sP_weight_has_computable (f : Sem) (j : Job) (cl : Cluster) (cm : Comps) (x : SysX) (wf : WF j cl) (wfc : WFC j cm)
    (hX : InvX f j cl cm x) (hF : InvLive j cl x.sys)
    (hDA : ∀ t, x.sys.ctl.doneC t = true → ∀ k, k < j.nOut t → x.sys.ctl.announced ⟨t, k⟩ = true) (hnofl : ∀ w t, ¬ x.sys.inFlight w t) (c : Nat)
    (hw : x.sch.weight c > 0) : ∃ t, t ∈ x.sys.ctl.computable ∧ cm.compOf t = c := by
  rw [hX.hS.weight_eq c] at hw
  unfold undispatched at hw
  obtain ⟨t, ht⟩ := List.exists_mem_of_length_pos hw
  simp only [List.mem_filter, Job.taskIds, List.mem_range, Bool.and_eq_true, beq_iff_eq] at ht
  exact sP_undisp_has_computable j cl cm x.sys wf wfc hX.hA.h1 hF hDA hnofl c (t + 1) t (by omega) ht.1 ht.2.1 ht.2.2

/-- a computable task makes the weight of its component positive -/
theorem sP_computable_weight (f : Sem) (j : Job) (cl : Cluster) (cm : Comps) (x : SysX) (wfc : WFC j cm)
    (hX : InvX f j cl cm x) (t : Task) (ht : t ∈ x.sys.ctl.computable) :
    cm.compOf t < cm.n ∧ x.sch.weight (cm.compOf t) > 0 := by
  have hlt := hX.hA.h2.comp_valid t ht
  refine ⟨wfc.comp_lt t hlt, ?_⟩
  rw [hX.hS.weight_eq]
  unfold undispatched
  apply List.length_pos_of_mem (a := t)
  simp only [List.mem_filter, Job.taskIds, List.mem_range, Bool.and_eq_true, beq_iff_eq]
  exact ⟨hlt, trivial, hX.hA.h1.once.comp t ht⟩

/-- the entry facts -/
theorem sP_entry (f : Sem) (j : Job) (cl : Cluster) (cm : Comps) (x : SysX) (wf : WF j cl) (wfc : WFC j cm)
    (feas : Feasible j cl) (hr : ReachableX f j cl cm x) (hph : x.sys.phase = .top)
    (hcomp : x.sys.ctl.hasComputable = true) (hong : x.sys.ctl.ongoing = []) :
    ∃ g, sP_Entry j cl cm x.sys.ctl x.sch.weight g := by
  have hX := invX_reachable f j cl cm wf wfc x hr
  have hF := sL_reachableX f j cl cm wf x hr
  have hDA := sL_done_announced f j cl wf x.sys (sL_reachableX_base f j cl cm x hr)
  have htodo : x.sys.todo = [] := hX.hA.h1.todo_phase (by simp [hph]) (by simp [hph]) (by simp [hph])
  have hnofl : ∀ w t, ¬ x.sys.inFlight w t := by
    intro w t h
    simp [Sys.inFlight, Sys.todoPairs, hong, htodo] at h
  have hidle : ∀ w, w ∈ cl.ids → w ∈ x.sys.ctl.idle := by
    intro w hw
    rcases hF.workers_cover w hw with h | ⟨t, h⟩
    · exact h
    · exact (hnofl w t h).elim
  have hsome : ∃ c, c < cm.n ∧ x.sch.weight c > 0 := by
    simp only [Ctl.hasComputable, gt_iff_lt, decide_eq_true_eq] at hcomp
    obtain ⟨t, ht⟩ := List.exists_mem_of_length_pos hcomp
    exact ⟨cm.compOf t, sP_computable_weight f j cl cm x wfc hX t ht⟩
  have hkey := sP_weight_has_computable f j cl cm x wf wfc hX hF hDA hnofl
  by_cases hg : ∃ t, t < j.tasks.length ∧ j.gpu t = true
  · obtain ⟨g, hgi, hgg⟩ := feas.gpu hg
    exact ⟨g, hidle g hgi, fun _ _ _ => hgg, hkey, hsome⟩
  · cases hids : cl.ids with
    | nil => exact absurd hids feas.some_worker
    | cons g rest =>
      refine ⟨g, hidle g (by rw [hids]; simp), ?_, hkey, hsome⟩
      intro t ht hgt
      exact (hg ⟨t, hX.hA.h2.comp_valid t ht, hgt⟩).elim

/-- the state after `enter` owes `g` an assignment -/
theorem sP_after_enter (f : Sem) (j : Job) (cl : Cluster) (cm : Comps) (x x1 : SysX) (g : Worker)
    (hE : sP_Entry j cl cm x.sys.ctl x.sch.weight g) (hph : x.sys.phase = .top)
    (hcomp : x.sys.ctl.hasComputable = true)
    (hs : stepX f j cl cm x (.base .enter) = some x1) : sP_Good j cl cm x.sys.ctl x.sch.weight g x1 := by
  obtain ⟨_, hb, hsch⟩ := sS1_enter_spec f j cl cm x x1 hs
  have hsys : x1.sys = { x.sys with phase := .assigning, mayAssign := x.sys.ctl.hasComputable, todo := [] } := by
    simp only [step, hph, hcomp] at hb
    simp only [bne_self_eq_false, Bool.false_eq_true, if_false, Bool.true_or, Bool.not_true, Option.some.injEq] at hb
    rw [← hb]; simp only [hcomp]
  refine ⟨by rw [hsys], by rw [hsys], by rw [hsys], by rw [hsch], ?_⟩
  rw [hsch]
  simp only [sS1_enterStage, hsys, hcomp, beq_self_eq_true, Bool.and_self, if_true, sP_PendSt, sP_Stored]
  intro c' hc' _
  rw [List.mem_eraseDups]
  exact List.mem_filterMap.mpr ⟨g, hE.g_idle, hc'⟩

/-- **Progress** -/
theorem sP_progress (f : Sem) (j : Job) (cl : Cluster) (cm : Comps) (wf : WF j cl) (wfc : WFC j cm)
    (feas : Feasible j cl) : ProgressStmt f j cl cm := by
  intro x x1 x2 hr hph hcomp hong hs hstar hpl
  obtain ⟨g, hE⟩ := sP_entry f j cl cm x wf wfc feas hr hph hcomp hong
  have hG := sP_after_enter f j cl cm x x1 g hE hph hcomp hs
  rcases sP_star f j cl cm x.sys.ctl x.sch.weight g x1 x2 hE hG hstar with h | h | h
  · rw [hpl] at h; cases h
  · exact h
  · have := h.phase
    rw [hpl] at this; cases this

end EkwVerif.Ctrl
