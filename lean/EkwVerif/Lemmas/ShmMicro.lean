/-
Thread-level model of the updates of `Manager.free_space` (audit item C08-1).

`free_space` is shared between the server thread (`add`: `free_space -= size`, `page_in`: `free_space -= ds.size`,
`purge`: `free_space += ds.size`) and the pool threads of `Disk` (the callbacks of `page_out`: `free_space += ds.size`,
and the `purge` they call on failure).  `x -= y` on an attribute is a READ followed by a WRITE; nothing in the language
makes the pair atomic.  Here every update is split into its micro steps
    acquire `pageout_one` (only if the site takes the lock)  ·  read  ·  write read+delta  ·  release
and threads interleave arbitrarily at micro-step granularity.

  * with the lock at every site (the code after `fix: Manager.add and Manager.page_in take pageout_one …`) every
    interleaving ends with `free = initial + Σ deltas of the completed updates`: no update is lost
    (`locked_updates_exact`), which is what the handler-atomic `free` of Model/Shm.lean assumes;
  * with one site unlocked (the code before the fix: `add` / `page_in`) there is an interleaving that loses an update
    (`unlocked_update_loses`): the server thread reads, a callback credits under the lock, the server thread writes.
    The harness reproduces exactly this schedule on the real Manager with a real second thread (op `race`).
-/
namespace EkwVerif.Shm.Micro

inductive Pc
  | idle                -- outside an update
  | entered             -- inside (holding the lock if the site locks), value not yet read
  | loaded (v : Int)    -- has read `v`
  | stored              -- has written, still inside
deriving DecidableEq, Repr

/-- a thread: does it take `pageout_one` around its updates, the deltas it still has to apply, where it is -/
structure Th where
  locking : Bool
  todo : List Int
  pc : Pc
deriving Repr

structure MSt where
  free : Int
  applied : Int              -- ghost: Σ deltas whose write has happened
  lock : Option Nat          -- holder of `pageout_one`
  ths : Nat → Th

def upd (f : Nat → Th) (i : Nat) (t : Th) : Nat → Th := fun j => if j = i then t else f j

/-- thread `i` makes its next micro step, if it can (`none` = blocked or finished) -/
def mstep (s : MSt) (i : Nat) : Option MSt :=
  let t := s.ths i
  match t.pc with
  | .idle =>
    match t.todo with
    | [] => none
    | _ :: _ =>
      if t.locking then
        (if s.lock.isSome then none else some { s with lock := some i, ths := upd s.ths i { t with pc := .entered } })
      else some { s with ths := upd s.ths i { t with pc := .entered } }
  | .entered => some { s with ths := upd s.ths i { t with pc := .loaded s.free } }
  | .loaded v =>
    match t.todo with
    | [] => none
    | d :: r => some { s with free := v + d, applied := s.applied + d, ths := upd s.ths i { t with todo := r, pc := .stored } }
  | .stored =>
    some { s with lock := if t.locking then none else s.lock, ths := upd s.ths i { t with pc := .idle } }

/-- a schedule = which thread moves next; a thread that cannot move is skipped -/
def mrun (s : MSt) : List Nat → MSt
  | [] => s
  | i :: is => mrun ((mstep s i).getD s) is

/-- every site takes the lock; whoever is inside an update holds it; whoever has read has read the current value -/
structure Inv (init : Int) (s : MSt) : Prop where
  allLock : ∀ i, (s.ths i).locking = true
  acct : s.free = init + s.applied
  holder : ∀ i, (s.ths i).pc ≠ .idle → s.lock = some i
  fresh : ∀ i v, (s.ths i).pc = .loaded v → v = s.free

theorem inv_mstep (init : Int) (s s' : MSt) (i : Nat) (h : Inv init s) (hs : mstep s i = some s') : Inv init s' := by
  obtain ⟨hl, ha, hh, hf⟩ := h
  unfold mstep at hs
  have hli := hl i
  cases hpc : (s.ths i).pc with
  | idle =>
    simp only [hpc] at hs
    cases htd : (s.ths i).todo with
    | nil => simp [htd] at hs
    | cons d r =>
      simp only [htd, hli, ↓reduceIte] at hs
      cases hlk : s.lock with
      | some o => simp [hlk] at hs
      | none =>
        simp only [hlk, Option.isSome_none, Bool.false_eq_true, ↓reduceIte, Option.some.injEq] at hs
        subst hs
        refine ⟨?_, ha, ?_, ?_⟩
        · intro j; simp only [upd]; split <;> simp_all
        · intro j hj
          simp only [upd] at hj
          by_cases e : j = i
          · simp [e]
          · simp only [e, ↓reduceIte] at hj
            have := hh j hj; rw [hlk] at this; cases this
        · intro j v hj
          simp only [upd] at hj
          by_cases e : j = i
          · simp [e] at hj
          · simp only [e, ↓reduceIte] at hj; exact hf j v hj
  | entered =>
    simp only [hpc, Option.some.injEq] at hs
    subst hs
    have hi := hh i (by rw [hpc]; simp)
    refine ⟨?_, ha, ?_, ?_⟩
    · intro j; simp only [upd]; split <;> simp_all
    · intro j hj
      simp only [upd] at hj
      by_cases e : j = i
      · simp [e, hi]
      · simp only [e, ↓reduceIte] at hj; exact hh j hj
    · intro j v hj
      simp only [upd] at hj
      by_cases e : j = i
      · simp [e] at hj; exact hj.symm
      · simp only [e, ↓reduceIte] at hj; exact hf j v hj
  | loaded v =>
    simp only [hpc] at hs
    cases htd : (s.ths i).todo with
    | nil => simp [htd] at hs
    | cons d r =>
      simp only [htd, Option.some.injEq] at hs
      subst hs
      have hi := hh i (by rw [hpc]; simp)
      have hv := hf i v hpc
      refine ⟨?_, ?_, ?_, ?_⟩
      · intro j; simp only [upd]; split <;> simp_all
      · simp only; rw [hv, ha]; omega
      · intro j hj
        simp only [upd] at hj
        by_cases e : j = i
        · simp [e, hi]
        · simp only [e, ↓reduceIte] at hj; exact hh j hj
      · intro j w hj
        simp only [upd] at hj
        by_cases e : j = i
        · simp [e] at hj
        · simp only [e, ↓reduceIte] at hj
          -- another thread inside an update would hold the lock too
          have h1 := hh j (by rw [hj]; simp)
          rw [hi] at h1; exact absurd (Option.some.inj h1).symm e
  | stored =>
    simp only [hpc, hli, ↓reduceIte, Option.some.injEq] at hs
    subst hs
    have hi := hh i (by rw [hpc]; simp)
    refine ⟨?_, ha, ?_, ?_⟩
    · intro j; simp only [upd]; split <;> simp_all
    · intro j hj
      simp only [upd] at hj
      by_cases e : j = i
      · simp [e] at hj
      · simp only [e, ↓reduceIte] at hj
        have h1 := hh j hj
        rw [hi] at h1; exact absurd (Option.some.inj h1).symm e
    · intro j w hj
      simp only [upd] at hj
      by_cases e : j = i
      · simp [e] at hj
      · simp only [e, ↓reduceIte] at hj; exact hf j w hj

theorem inv_mrun (init : Int) (sched : List Nat) : ∀ (s : MSt), Inv init s → Inv init (mrun s sched) := by
  induction sched with
  | nil => intro s h; exact h
  | cons i is ih =>
    intro s h
    simp only [mrun]
    cases hs : mstep s i with
    | none => simpa using ih s h
    | some s' => simpa using ih s' (inv_mstep init s s' i h hs)

/-- the initial state: nobody is inside an update, the lock is free -/
def start (free : Int) (ths : Nat → Th) : MSt := { free := free, applied := 0, lock := none, ths := ths }

/-- **No lost update when every site takes the lock**: for every number of threads, every list of pending updates per
thread and EVERY interleaving of their micro steps, `free` is the initial value plus the deltas of the updates whose
write has happened. -/
theorem locked_updates_exact (free : Int) (ths : Nat → Th) (hl : ∀ i, (ths i).locking = true) (hi : ∀ i, (ths i).pc = .idle)
    (sched : List Nat) :
    (mrun (start free ths) sched).free = free + (mrun (start free ths) sched).applied := by
  have h0 : Inv free (start free ths) := by
    refine ⟨hl, by simp [start], ?_, ?_⟩
    · intro i h; exact absurd (hi i) h
    · intro i v h; have h' : (ths i).pc = .loaded v := h; rw [hi i] at h'; cases h'
  exact (inv_mrun free sched _ h0).acct

/-- thread 0 = the server thread doing `add`'s `free_space -= 3` WITHOUT the lock (the code before the fix), thread 1 = a
pool thread running a page-out callback `free_space += 6` under `pageout_one` -/
def racyThreads : Nat → Th
  | 0 => { locking := false, todo := [-3], pc := .idle }
  | 1 => { locking := true, todo := [6], pc := .idle }
  | _ => { locking := true, todo := [], pc := .idle }

/-- server enters and reads (10); the callback enters, reads, writes 16, leaves; the server writes 10 - 3 -/
def racySchedule : List Nat := [0, 0, 1, 1, 1, 1, 0, 0]

/-- **With one unlocked site an update is lost**: both updates have completed (applied = +3), yet `free` is 7, not 13. -/
theorem unlocked_update_loses :
    (mrun (start 10 racyThreads) racySchedule).applied = 3 ∧ (mrun (start 10 racyThreads) racySchedule).free = 7 ∧
    ((mrun (start 10 racyThreads) racySchedule).ths 0).todo = [] ∧ ((mrun (start 10 racyThreads) racySchedule).ths 1).todo = [] := by
  decide

/-- the same two threads, both locking: the same schedule cannot interleave them (thread 1 is blocked while 0 is inside) -/
def lockedThreads : Nat → Th
  | 0 => { locking := true, todo := [-3], pc := .idle }
  | 1 => { locking := true, todo := [6], pc := .idle }
  | _ => { locking := true, todo := [], pc := .idle }

example : (mrun (start 10 lockedThreads) (racySchedule ++ [1, 1, 1, 1])).free = 13 := by decide

end EkwVerif.Shm.Micro
