/-
C16 helper lemmas, part 1: sets / dicts as lists, `dependants`, `param_source`, projections.
-/
import EkwVerif.Model.Presched

set_option linter.unusedSectionVars false
set_option linter.unusedVariables false

namespace EkwVerif.Presched.Aux
open EkwVerif.Presched

section Sets
variable {γ : Type} [DecidableEq γ]

theorem mem_sadd {s : List γ} {x y : γ} : y ∈ sadd s x ↔ y ∈ s ∨ y = x := by
  unfold sadd
  split
  · constructor
    · intro h; exact Or.inl h
    · rintro (h | h)
      · exact h
      · subst h; assumption
  · simp

theorem nodup_sadd {s : List γ} {x : γ} (h : s.Nodup) : (sadd s x).Nodup := by
  unfold sadd
  split
  · exact h
  · rename_i hx
    rw [List.nodup_append]
    refine ⟨h, by simp, ?_⟩
    intro a ha b hb
    simp at hb
    subst hb
    intro hab
    subst hab
    exact hx ha

theorem mem_sunion {t s : List γ} {y : γ} : y ∈ sunion s t ↔ y ∈ s ∨ y ∈ t := by
  unfold sunion
  induction t generalizing s with
  | nil => simp
  | cons x t ih =>
    simp only [List.foldl_cons, ih, mem_sadd, List.mem_cons]
    constructor
    · rintro ((h | h) | h)
      · exact Or.inl h
      · exact Or.inr (Or.inl h)
      · exact Or.inr (Or.inr h)
    · rintro (h | h | h)
      · exact Or.inl (Or.inl h)
      · exact Or.inl (Or.inr h)
      · exact Or.inr h

theorem nodup_sunion {t s : List γ} (h : s.Nodup) : (sunion s t).Nodup := by
  unfold sunion
  induction t generalizing s with
  | nil => simpa
  | cons x t ih => exact ih (nodup_sadd h)

theorem mem_toSet {l : List γ} {y : γ} : y ∈ toSet l ↔ y ∈ l := by
  have := mem_sunion (t := l) (s := []) (y := y)
  simpa [toSet, sunion] using this

theorem nodup_toSet {l : List γ} : (toSet l).Nodup :=
  nodup_sunion (t := l) (s := []) List.nodup_nil

end Sets

section Dicts
variable {κ ν : Type} [DecidableEq κ]

/-- the keys of a dict -/
def keys (m : List (κ × ν)) : List κ := m.map (·.1)

@[simp] theorem keys_nil : keys ([] : List (κ × ν)) = [] := rfl
@[simp] theorem keys_cons {p : κ × ν} {m : List (κ × ν)} : keys (p :: m) = p.1 :: keys m := rfl

theorem dlookup_dset {m : List (κ × ν)} {k k' : κ} {v : ν} :
    dlookup (dset m k v) k' = if k = k' then some v else dlookup m k' := by
  induction m with
  | nil => simp [dset, dlookup]
  | cons p m ih =>
    obtain ⟨a, b⟩ := p
    simp only [dset]
    by_cases h : a = k
    · subst h
      by_cases h2 : a = k' <;> simp [dlookup, h2]
    · simp only [h, ↓reduceIte, dlookup, ih]
      by_cases h2 : a = k'
      · subst h2
        simp [Ne.symm h]
      · simp [h2]

theorem dlookup_dset_self {m : List (κ × ν)} {k : κ} {v : ν} : dlookup (dset m k v) k = some v := by
  simp [dlookup_dset]

theorem dlookup_dset_ne {m : List (κ × ν)} {k k' : κ} {v : ν} (h : k ≠ k') :
    dlookup (dset m k v) k' = dlookup m k' := by
  simp [dlookup_dset, h]

theorem dlookup_derase {m : List (κ × ν)} {k k' : κ} :
    dlookup (derase m k) k' = if k = k' then none else dlookup m k' := by
  induction m with
  | nil => simp [derase, dlookup]
  | cons p m ih =>
    obtain ⟨a, b⟩ := p
    unfold derase at ih ⊢
    by_cases h : a = k
    · subst h
      simp only [List.filter_cons, ne_eq, not_true_eq_false, decide_false, Bool.false_eq_true,
        ↓reduceIte, ih, dlookup]
      by_cases h2 : a = k' <;> simp [h2]
    · simp only [List.filter_cons, ne_eq, h, not_false_eq_true, decide_true, ↓reduceIte, dlookup, ih]
      by_cases h2 : a = k'
      · subst h2
        simp [Ne.symm h]
      · simp [h2]

theorem dlookup_eq_none_iff {m : List (κ × ν)} {k : κ} : dlookup m k = none ↔ k ∉ keys m := by
  induction m with
  | nil => simp [dlookup]
  | cons p m ih =>
    obtain ⟨a, b⟩ := p
    simp only [dlookup, keys_cons, List.mem_cons, not_or]
    by_cases h : a = k
    · subst h; simp
    · simp [h, ih, Ne.symm h]

theorem dlookup_isSome_iff {m : List (κ × ν)} {k : κ} : (∃ v, dlookup m k = some v) ↔ k ∈ keys m := by
  have := dlookup_eq_none_iff (m := m) (k := k)
  cases h : dlookup m k with
  | none => simp [h] at this; simp [this]
  | some v => simp [h] at this; simp [this]

theorem mem_of_dlookup {m : List (κ × ν)} {k : κ} {v : ν} (h : dlookup m k = some v) : (k, v) ∈ m := by
  induction m with
  | nil => simp [dlookup] at h
  | cons p m ih =>
    obtain ⟨a, b⟩ := p
    simp only [dlookup] at h
    by_cases h2 : a = k
    · subst h2
      simp at h
      subst h
      simp
    · simp [h2] at h
      exact List.mem_cons_of_mem _ (ih h)

theorem dlookup_of_mem {m : List (κ × ν)} {k : κ} {v : ν} (hn : (keys m).Nodup) (h : (k, v) ∈ m) :
    dlookup m k = some v := by
  induction m with
  | nil => simp at h
  | cons p m ih =>
    obtain ⟨a, b⟩ := p
    simp only [keys_cons, List.nodup_cons] at hn
    simp only [List.mem_cons, Prod.mk.injEq] at h
    simp only [dlookup]
    rcases h with ⟨h1, h2⟩ | h
    · subst h1; subst h2; simp
    · have : a ≠ k := by
        intro hak
        subst hak
        exact hn.1 (List.mem_map.mpr ⟨(a, v), h, rfl⟩)
      simp [this, ih hn.2 h]

theorem mem_keys_dset {m : List (κ × ν)} {k k' : κ} {v : ν} :
    k' ∈ keys (dset m k v) ↔ k' = k ∨ k' ∈ keys m := by
  rw [← dlookup_isSome_iff, ← dlookup_isSome_iff]
  simp only [dlookup_dset]
  by_cases h : k = k'
  · subst h; simp
  · simp [h, Ne.symm h]

theorem nodup_keys_dset {m : List (κ × ν)} {k : κ} {v : ν} (h : (keys m).Nodup) :
    (keys (dset m k v)).Nodup := by
  induction m with
  | nil => simp [dset]
  | cons p m ih =>
    obtain ⟨a, b⟩ := p
    simp only [keys_cons, List.nodup_cons] at h
    simp only [dset]
    by_cases h2 : a = k
    · subst h2
      simp only [↓reduceIte, keys_cons, List.nodup_cons]
      exact h
    · simp only [h2, ↓reduceIte, keys_cons, List.nodup_cons]
      refine ⟨?_, ih h.2⟩
      rw [mem_keys_dset]
      rintro (h3 | h3)
      · exact h2 h3
      · exact h.1 h3

theorem dlookup_map_val {μ : Type} {m : List (κ × ν)} {g : κ × ν → μ} {k : κ} :
    dlookup (m.map (fun p => (p.1, g p))) k = (m.find? (fun p => p.1 = k)).map g := by
  induction m with
  | nil => simp [dlookup]
  | cons p m ih =>
    obtain ⟨a, b⟩ := p
    simp only [List.map_cons, dlookup, ih, List.find?_cons]
    by_cases h : a = k <;> simp [h]

end Dicts

section DefaultDict
variable {κ γ : Type} [DecidableEq κ] [DecidableEq γ]

theorem dget_dset {m : List (κ × List γ)} {k k' : κ} {s : List γ} :
    dget (dset m k s) k' = if k = k' then s else dget m k' := by
  unfold dget
  rw [dlookup_dset]
  split <;> simp

theorem dget_dadd {m : List (κ × List γ)} {k k' : κ} {x : γ} :
    dget (dadd m k x) k' = if k = k' then sadd (dget m k) x else dget m k' := by
  unfold dadd
  rw [dget_dset]

/-- every value of the dict is duplicate free -/
def ValsNodup (m : List (κ × List γ)) : Prop := ∀ k, (dget m k).Nodup

theorem valsNodup_nil : ValsNodup ([] : List (κ × List γ)) := by
  intro k; simp [dget, dlookup]

theorem valsNodup_dset {m : List (κ × List γ)} {k : κ} {s : List γ} (h : ValsNodup m) (hs : s.Nodup) :
    ValsNodup (dset m k s) := by
  intro k'
  rw [dget_dset]
  split
  · exact hs
  · exact h k'

theorem mem_dget_of_mem {m : List (κ × List γ)} {k : κ} {s : List γ} (hn : (keys m).Nodup)
    (h : (k, s) ∈ m) : dget m k = s := by
  unfold dget
  rw [dlookup_of_mem hn h]
  rfl

theorem mem_of_mem_dget {m : List (κ × List γ)} {k : κ} {x : γ} (h : x ∈ dget m k) :
    (k, dget m k) ∈ m := by
  unfold dget at h ⊢
  cases h2 : dlookup m k with
  | none => simp [h2] at h
  | some s => simpa using mem_of_dlookup h2

end DefaultDict

/-! ### a fold of `m[k].add(x)` over a list (shape of `dependants` and of `edge_i` after the fix) -/
section FoldDadd
variable {ε κ γ : Type} [DecidableEq κ] [DecidableEq γ]

theorem foldDadd_inv (fk : ε → κ) (fv : ε → γ) (es : List ε) (m : List (κ × List γ))
    (hk : (keys m).Nodup) (hv : ValsNodup m) :
    let r := es.foldl (fun m e => dadd m (fk e) (fv e)) m
    (keys r).Nodup ∧ ValsNodup r ∧
    (∀ k x, x ∈ dget r k ↔ x ∈ dget m k ∨ ∃ e ∈ es, fk e = k ∧ fv e = x) ∧
    (∀ k, k ∈ keys r ↔ k ∈ keys m ∨ ∃ e ∈ es, fk e = k) := by
  induction es generalizing m with
  | nil => simp_all
  | cons e es ih =>
    have hk' : (keys (dadd m (fk e) (fv e))).Nodup := nodup_keys_dset hk
    have hv' : ValsNodup (dadd m (fk e) (fv e)) := valsNodup_dset hv (nodup_sadd (hv _))
    obtain ⟨h1, h2, h3, h4⟩ := ih _ hk' hv'
    refine ⟨h1, h2, ?_, ?_⟩
    · intro k x
      simp only [List.foldl_cons]
      rw [h3 k x, dget_dadd]
      by_cases h : fk e = k
      · subst h
        simp only [↓reduceIte, mem_sadd, List.mem_cons, exists_eq_or_imp, true_and]
        constructor
        · rintro ((h | h) | h)
          · exact Or.inl h
          · exact Or.inr (Or.inl h.symm)
          · exact Or.inr (Or.inr h)
        · rintro (h | h | h)
          · exact Or.inl (Or.inl h)
          · exact Or.inl (Or.inr h.symm)
          · exact Or.inr h
      · simp [h]
    · intro k
      simp only [List.foldl_cons]
      rw [h4 k]
      unfold dadd
      rw [mem_keys_dset]
      simp only [List.mem_cons, exists_eq_or_imp]
      constructor
      · rintro ((h | h) | h)
        · exact Or.inr (Or.inl h.symm)
        · exact Or.inl h
        · exact Or.inr (Or.inr h)
      · rintro (h | h | h)
        · exact Or.inl (Or.inr h)
        · exact Or.inl (Or.inl h.symm)
        · exact Or.inr h

end FoldDadd

/-! ### `dependants` -/
section Views
variable {α β : Type} [DecidableEq α] [DecidableEq β]

theorem dependants_inv (es : List (Edge α β)) (m : List ((α × β) × List α))
    (hk : (keys m).Nodup) (hv : ValsNodup m) :
    let r := es.foldl (fun m e => dadd m (e.src, e.out) e.dst) m
    (keys r).Nodup ∧ ValsNodup r ∧
    (∀ ds t, t ∈ dget r ds ↔ t ∈ dget m ds ∨ ∃ e ∈ es, (e.src, e.out) = ds ∧ e.dst = t) ∧
    (∀ ds, ds ∈ keys r ↔ ds ∈ keys m ∨ ∃ e ∈ es, (e.src, e.out) = ds) := by
  induction es generalizing m with
  | nil => simp_all
  | cons e es ih =>
    have hk' : (keys (dadd m (e.src, e.out) e.dst)).Nodup := nodup_keys_dset hk
    have hv' : ValsNodup (dadd m (e.src, e.out) e.dst) := valsNodup_dset hv (nodup_sadd (hv _))
    obtain ⟨h1, h2, h3, h4⟩ := ih _ hk' hv'
    refine ⟨h1, h2, ?_, ?_⟩
    · intro ds t
      simp only [List.foldl_cons]
      rw [h3 ds t, dget_dadd]
      by_cases h : (e.src, e.out) = ds
      · subst h
        simp only [↓reduceIte, mem_sadd, List.mem_cons, exists_eq_or_imp, true_and]
        constructor
        · rintro ((h | h) | h)
          · exact Or.inl h
          · exact Or.inr (Or.inl h.symm)
          · exact Or.inr (Or.inr h)
        · rintro (h | h | h)
          · exact Or.inl (Or.inl h)
          · exact Or.inl (Or.inr h.symm)
          · exact Or.inr h
      · simp [h]
    · intro ds
      simp only [List.foldl_cons]
      rw [h4 ds]
      unfold dadd
      rw [mem_keys_dset]
      simp only [List.mem_cons, exists_eq_or_imp]
      constructor
      · rintro ((h | h) | h)
        · exact Or.inr (Or.inl h.symm)
        · exact Or.inl h
        · exact Or.inr (Or.inr h)
      · rintro (h | h | h)
        · exact Or.inl (Or.inr h)
        · exact Or.inl (Or.inl h.symm)
        · exact Or.inr h

theorem nodup_keys_dependants (es : List (Edge α β)) : (keys (dependants es)).Nodup :=
  (dependants_inv es [] (by simp) valsNodup_nil).1

theorem valsNodup_dependants (es : List (Edge α β)) : ValsNodup (dependants es) :=
  (dependants_inv es [] (by simp) valsNodup_nil).2.1

theorem mem_dget_dependants {es : List (Edge α β)} {ds : α × β} {t : α} :
    t ∈ dget (dependants es) ds ↔ ∃ e ∈ es, (e.src, e.out) = ds ∧ e.dst = t := by
  have := (dependants_inv es [] (by simp) valsNodup_nil).2.2.1 ds t
  unfold dependants
  simpa [dget, dlookup] using this

theorem mem_keys_dependants {es : List (Edge α β)} {ds : α × β} :
    ds ∈ keys (dependants es) ↔ ∃ e ∈ es, (e.src, e.out) = ds := by
  have := (dependants_inv es [] (by simp) valsNodup_nil).2.2.2 ds
  unfold dependants
  simpa using this

/-! ### `edge_o_proj` -/

theorem edgeOProj_inv (eo : List ((α × β) × List α)) (m : List (α × List α)) (hv : ValsNodup m) :
    let r := eo.foldl (fun m p => dset m p.1.1 (sunion (dget m p.1.1) p.2)) m
    ValsNodup r ∧
    (∀ a c, c ∈ dget r a ↔ c ∈ dget m a ∨ ∃ p ∈ eo, p.1.1 = a ∧ c ∈ p.2) := by
  induction eo generalizing m with
  | nil => simp_all
  | cons p eo ih =>
    have hv' : ValsNodup (dset m p.1.1 (sunion (dget m p.1.1) p.2)) :=
      valsNodup_dset hv (nodup_sunion (hv _))
    obtain ⟨h1, h2⟩ := ih _ hv'
    refine ⟨h1, ?_⟩
    intro a c
    simp only [List.foldl_cons]
    rw [h2 a c, dget_dset]
    by_cases h : p.1.1 = a
    · subst h
      simp only [↓reduceIte, mem_sunion, List.mem_cons, exists_eq_or_imp, true_and]
      constructor
      · rintro ((h | h) | h)
        · exact Or.inl h
        · exact Or.inr (Or.inl h)
        · exact Or.inr (Or.inr h)
      · rintro (h | h | h)
        · exact Or.inl (Or.inl h)
        · exact Or.inl (Or.inr h)
        · exact Or.inr h
    · simp [h]

/-- `edge_o_proj[a]` holds exactly the sink tasks of the edges leaving `a`. -/
theorem mem_edgeOP {job : Job α β} {a c : α} :
    c ∈ edgeOP job a ↔ ∃ e ∈ job.edges, e.src = a ∧ e.dst = c := by
  unfold edgeOP edgeOProj
  have := (edgeOProj_inv (dependants job.edges) [] valsNodup_nil).2 a c
  simp only [dget, dlookup, Option.getD_none, List.not_mem_nil, false_or] at this
  unfold dget
  rw [this]
  constructor
  · rintro ⟨p, hp, hpa, hc⟩
    have hd : dget (dependants job.edges) p.1 = p.2 :=
      mem_dget_of_mem (nodup_keys_dependants _) hp
    rw [← hd] at hc
    obtain ⟨e, he, hes, het⟩ := mem_dget_dependants.mp hc
    refine ⟨e, he, ?_, het⟩
    rw [← hpa, ← hes]
  · rintro ⟨e, he, hea, hec⟩
    have hc : c ∈ dget (dependants job.edges) (e.src, e.out) :=
      mem_dget_dependants.mpr ⟨e, he, rfl, hec⟩
    exact ⟨_, mem_of_mem_dget hc, hea, hc⟩

theorem nodup_edgeOP (job : Job α β) (a : α) : (edgeOP job a).Nodup :=
  (edgeOProj_inv (dependants job.edges) [] valsNodup_nil).1 a

/-! ### `param_source`, `edge_i`, `edge_i_proj` -/

/-- `rv[t][k]` of a dict of dicts -/
def dlookup2 (m : List (α × List (Key × (α × β)))) (t : α) (k : Key) : Option (α × β) :=
  dlookup ((dlookup m t).getD []) k

/-- the source of the last edge into input `k` of task `t` -/
def lastSrc (t : α) (k : Key) : List (Edge α β) → Option (α × β) → Option (α × β)
  | [], acc => acc
  | e :: es, acc => lastSrc t k es (if e.dst = t ∧ e.key = k then some (e.src, e.out) else acc)

/-- all rows of a dict of dicts have unique keys -/
def RowsNodup (m : List (α × List (Key × (α × β)))) : Prop :=
  ∀ t, (keys ((dlookup m t).getD [])).Nodup

theorem paramSource_inv (es : List (Edge α β)) (m : List (α × List (Key × (α × β))))
    (hk : (keys m).Nodup) (hr : RowsNodup m) :
    let r := es.foldl (fun m e => dset m e.dst (dset ((dlookup m e.dst).getD []) e.key (e.src, e.out))) m
    (keys r).Nodup ∧ RowsNodup r ∧
    (∀ t k, dlookup2 r t k = lastSrc t k es (dlookup2 m t k)) ∧
    (∀ t, t ∈ keys r ↔ t ∈ keys m ∨ ∃ e ∈ es, e.dst = t) := by
  induction es generalizing m with
  | nil => simp_all [lastSrc]
  | cons e es ih =>
    have hk' : (keys (dset m e.dst (dset ((dlookup m e.dst).getD []) e.key (e.src, e.out)))).Nodup :=
      nodup_keys_dset hk
    have hr' : RowsNodup (dset m e.dst (dset ((dlookup m e.dst).getD []) e.key (e.src, e.out))) := by
      intro t
      rw [dlookup_dset]
      split
      · exact nodup_keys_dset (hr _)
      · exact hr t
    obtain ⟨h1, h2, h3, h4⟩ := ih _ hk' hr'
    refine ⟨h1, h2, ?_, ?_⟩
    · intro t k
      simp only [List.foldl_cons, lastSrc]
      rw [h3 t k]
      congr 1
      unfold dlookup2
      rw [dlookup_dset]
      by_cases h : e.dst = t
      · subst h
        simp only [↓reduceIte, Option.getD_some, true_and]
        rw [dlookup_dset]
      · simp [h]
    · intro t
      simp only [List.foldl_cons]
      rw [h4 t, mem_keys_dset]
      simp only [List.mem_cons, exists_eq_or_imp]
      constructor
      · rintro ((h | h) | h)
        · exact Or.inr (Or.inl h.symm)
        · exact Or.inl h
        · exact Or.inr (Or.inr h)
      · rintro (h | h | h)
        · exact Or.inl (Or.inr h)
        · exact Or.inl (Or.inl h.symm)
        · exact Or.inr h

/-- no two edges feed the same input of the same task from different sources -/
def UniqueInputs (es : List (Edge α β)) : Prop :=
  ∀ e₁ ∈ es, ∀ e₂ ∈ es, e₁.dst = e₂.dst → e₁.key = e₂.key → e₁.src = e₂.src ∧ e₁.out = e₂.out

theorem lastSrc_some {t : α} {k : Key} {es : List (Edge α β)} {acc : Option (α × β)} {ds : α × β}
    (h : lastSrc t k es acc = some ds) :
    acc = some ds ∨ ∃ e ∈ es, e.dst = t ∧ e.key = k ∧ (e.src, e.out) = ds := by
  induction es generalizing acc with
  | nil => exact Or.inl h
  | cons e es ih =>
    simp only [lastSrc] at h
    rcases ih h with h | ⟨e', he', h'⟩
    · split at h
      · rename_i hc
        right
        refine ⟨e, by simp, hc.1, hc.2, ?_⟩
        simpa using h
      · exact Or.inl h
    · exact Or.inr ⟨e', List.mem_cons_of_mem _ he', h'⟩

theorem lastSrc_of_mem {t : α} {k : Key} {es : List (Edge α β)} {acc : Option (α × β)} {e : Edge α β}
    (hu : UniqueInputs es) (he : e ∈ es) (ht : e.dst = t) (hk : e.key = k) :
    lastSrc t k es acc = some (e.src, e.out) := by
  induction es generalizing acc with
  | nil => simp at he
  | cons e' es ih =>
    simp only [lastSrc]
    have hu' : UniqueInputs es := fun a ha b hb => hu a (List.mem_cons_of_mem _ ha) b (List.mem_cons_of_mem _ hb)
    by_cases hmem : e ∈ es
    · exact ih hu' hmem
    · have : e = e' := by
        rcases List.mem_cons.mp he with h | h
        · exact h
        · exact absurd h hmem
      subst this
      simp only [ht, hk, and_self, ↓reduceIte]
      -- no later edge overrides with a different source
      clear ih he hmem
      generalize hacc : some (e.src, e.out) = acc'
      have key : ∀ (l : List (Edge α β)), (∀ x ∈ l, x.dst = t → x.key = k → (x.src, x.out) = (e.src, e.out)) →
          lastSrc t k l (some (e.src, e.out)) = some (e.src, e.out) := by
        intro l
        induction l with
        | nil => intro _; rfl
        | cons x l ihl =>
          intro hx
          simp only [lastSrc]
          have hl := ihl (fun y hy => hx y (List.mem_cons_of_mem _ hy))
          split
          · rename_i hc
            rw [hx x (by simp) hc.1 hc.2]
            exact hl
          · exact hl
      rw [← hacc]
      apply key
      intro x hx hxt hxk
      have := hu x (List.mem_cons_of_mem _ hx) e (by simp) (by rw [hxt, ht]) (by rw [hxk, hk])
      rw [this.1, this.2]

theorem nodup_keys_paramSource (es : List (Edge α β)) : (keys (paramSource es)).Nodup :=
  (paramSource_inv es [] (by simp) (by intro t; simp [dlookup])).1

theorem rowsNodup_paramSource (es : List (Edge α β)) : RowsNodup (paramSource es) :=
  (paramSource_inv es [] (by simp) (by intro t; simp [dlookup])).2.1

theorem dlookup2_paramSource (es : List (Edge α β)) (t : α) (k : Key) :
    dlookup2 (paramSource es) t k = lastSrc t k es none := by
  have := (paramSource_inv es [] (by simp) (by intro t; simp [dlookup])).2.2.1 t k
  unfold paramSource
  simpa [dlookup2, dlookup] using this

theorem mem_keys_paramSource {es : List (Edge α β)} {t : α} :
    t ∈ keys (paramSource es) ↔ ∃ e ∈ es, e.dst = t := by
  have := (paramSource_inv es [] (by simp) (by intro t; simp [dlookup])).2.2.2 t
  unfold paramSource
  simpa using this

theorem keys_edgeIParams (es : List (Edge α β)) : keys (edgeIParams es) = keys (paramSource es) := by
  simp [edgeIParams, keys, List.map_map, Function.comp_def]

theorem dlookup_map_snd {κ ν μ : Type} [DecidableEq κ] {m : List (κ × ν)} {g : ν → μ} {k : κ} :
    dlookup (m.map (fun p => (p.1, g p.2))) k = (dlookup m k).map g := by
  induction m with
  | nil => simp [dlookup]
  | cons p m ih =>
    obtain ⟨a, b⟩ := p
    simp only [List.map_cons, dlookup, ih]
    by_cases h : a = k <;> simp [h]

theorem dlookup_edgeIParams (es : List (Edge α β)) (t : α) :
    dlookup (edgeIParams es) t = (dlookup (paramSource es) t).map
      (fun (row : List (Key × (α × β))) => toSet (row.map (fun q => q.2))) := by
  unfold edgeIParams
  exact dlookup_map_snd (κ := α) (g := fun (row : List (Key × (α × β))) => toSet (row.map (fun q => q.2)))

/-- under `UniqueInputs`, the executor's view `edgeIParams` holds exactly the sources of the edges entering `t`. -/
theorem mem_dget_edgeIParams {es : List (Edge α β)} (hu : UniqueInputs es) {t : α} {ds : α × β} :
    ds ∈ dget (edgeIParams es) t ↔ ∃ e ∈ es, e.dst = t ∧ (e.src, e.out) = ds := by
  unfold dget
  rw [dlookup_edgeIParams]
  cases hrow : dlookup (paramSource es) t with
  | none =>
    simp only [Option.map_none, Option.getD_none, List.not_mem_nil, false_iff, not_exists, not_and]
    intro e he het
    have : t ∈ keys (paramSource es) := mem_keys_paramSource.mpr ⟨e, he, het⟩
    rw [← dlookup_isSome_iff] at this
    obtain ⟨v, hv⟩ := this
    rw [hv] at hrow
    cases hrow
  | some row =>
    simp only [Option.map_some, Option.getD_some, mem_toSet, List.mem_map]
    have hrn : (keys row).Nodup := by
      have := rowsNodup_paramSource es t
      rw [hrow] at this
      exact this
    constructor
    · rintro ⟨⟨k, ds'⟩, hmem, hds⟩
      simp only at hds
      subst hds
      have hl : dlookup2 (paramSource es) t k = some ds' := by
        unfold dlookup2
        rw [hrow]
        exact dlookup_of_mem hrn hmem
      rw [dlookup2_paramSource] at hl
      rcases lastSrc_some hl with h | ⟨e, he, h1, _, h3⟩
      · cases h
      · exact ⟨e, he, h1, h3⟩
    · rintro ⟨e, he, het, heds⟩
      have hl := lastSrc_of_mem (acc := none) hu he het rfl
      rw [← dlookup2_paramSource] at hl
      unfold dlookup2 at hl
      rw [hrow] at hl
      exact ⟨(e.key, (e.src, e.out)), mem_of_dlookup hl, heds⟩

theorem nodup_dget_edgeIParams (es : List (Edge α β)) (t : α) : (dget (edgeIParams es) t).Nodup := by
  unfold dget
  rw [dlookup_edgeIParams]
  cases dlookup (paramSource es) t with
  | none => simp
  | some row => simpa using nodup_toSet

/-! `edge_i` after the fix -/

theorem nodup_keys_edgeI (es : List (Edge α β)) : (keys (edgeI es)).Nodup :=
  (foldDadd_inv (fun (e : Edge α β) => e.dst) (fun e => (e.src, e.out)) es [] (by simp) valsNodup_nil).1

/-- `edge_i[t]` holds exactly the sources of the edges entering `t` — for every edge list. -/
theorem mem_dget_edgeI {es : List (Edge α β)} {t : α} {ds : α × β} :
    ds ∈ dget (edgeI es) t ↔ ∃ e ∈ es, e.dst = t ∧ (e.src, e.out) = ds := by
  have := (foldDadd_inv (fun (e : Edge α β) => e.dst) (fun e => (e.src, e.out)) es [] (by simp) valsNodup_nil).2.2.1 t ds
  unfold edgeI
  simpa [dget, dlookup] using this

theorem nodup_dget_edgeI (es : List (Edge α β)) (t : α) : (dget (edgeI es) t).Nodup :=
  (foldDadd_inv (fun (e : Edge α β) => e.dst) (fun e => (e.src, e.out)) es [] (by simp) valsNodup_nil).2.1 t

theorem edgeIProj_lookup (ei : List (α × List (α × β))) (m : List (α × List α)) (hk : (keys ei).Nodup) (c : α) :
    dlookup (ei.foldl (fun m p => dset m p.1 (toSet (p.2.map (·.1)))) m) c =
      match dlookup ei c with
      | some inps => some (toSet (inps.map (·.1)))
      | none => dlookup m c := by
  induction ei generalizing m with
  | nil => simp [dlookup]
  | cons p ei ih =>
    obtain ⟨a, b⟩ := p
    simp only [keys_cons, List.nodup_cons] at hk
    simp only [List.foldl_cons, dlookup]
    rw [ih _ hk.2]
    by_cases h : a = c
    · subst h
      have : dlookup ei a = none := dlookup_eq_none_iff.mpr hk.1
      simp [this, dlookup_dset]
    · simp only [h, ↓reduceIte]
      cases dlookup ei c with
      | none => simp [dlookup_dset, h]
      | some v => simp

/-- `edge_i_proj[c]` holds exactly the source tasks of the edges entering `c`. -/
theorem mem_edgeIP {job : Job α β} {a c : α} :
    a ∈ edgeIP job c ↔ ∃ e ∈ job.edges, e.src = a ∧ e.dst = c := by
  unfold edgeIP edgeIProj dget
  have hk : (keys (edgeI job.edges)).Nodup := nodup_keys_edgeI _
  rw [edgeIProj_lookup _ _ hk]
  cases hrow : dlookup (edgeI job.edges) c with
  | none =>
    simp only [dlookup, Option.getD_none, List.not_mem_nil, false_iff, not_exists, not_and]
    intro e he hea hec
    have : (e.src, e.out) ∈ dget (edgeI job.edges) c := mem_dget_edgeI.mpr ⟨e, he, hec, rfl⟩
    unfold dget at this
    rw [hrow] at this
    simp at this
  | some inps =>
    simp only [Option.getD_some, mem_toSet, List.mem_map]
    have hd : dget (edgeI job.edges) c = inps := by unfold dget; rw [hrow]; rfl
    constructor
    · rintro ⟨ds, hds, hda⟩
      rw [← hd] at hds
      obtain ⟨e, he, hec, heds⟩ := mem_dget_edgeI.mp hds
      refine ⟨e, he, ?_, hec⟩
      rw [← hda, ← heds]
    · rintro ⟨e, he, hea, hec⟩
      refine ⟨(e.src, e.out), ?_, hea⟩
      rw [← hd]
      exact mem_dget_edgeI.mpr ⟨e, he, hec, rfl⟩

theorem nodup_edgeIP (job : Job α β) (c : α) : (edgeIP job c).Nodup := by
  unfold edgeIP edgeIProj dget
  have hk : (keys (edgeI job.edges)).Nodup := nodup_keys_edgeI _
  rw [edgeIProj_lookup _ _ hk]
  cases dlookup (edgeI job.edges) c with
  | none => simp [dlookup]
  | some inps => simpa using nodup_toSet

/-! ### `task_o` -/

theorem dlookup_taskO {tasks : List (α × List β)} (hn : (keys tasks).Nodup) {t : α} {outs : List β}
    (h : (t, outs) ∈ tasks) :
    dlookup (taskO tasks) t = some (toSet (outs.map (fun o => (t, o)))) := by
  unfold taskO
  have : (fun (p : α × List β) => (p.1, toSet (p.2.map (fun o => (p.1, o))))) =
      (fun p => (p.1, (fun (q : α × List β) => toSet (q.2.map (fun o => (q.1, o)))) p)) := rfl
  rw [this, dlookup_map_val]
  have hf : tasks.find? (fun p => p.1 = t) = some (t, outs) := by
    induction tasks with
    | nil => simp at h
    | cons p tasks ih =>
      simp only [keys_cons, List.nodup_cons] at hn
      rcases List.mem_cons.mp h with h | h
      · subst h; simp
      · have : p.1 ≠ t := by
          intro hp
          apply hn.1
          rw [hp]
          exact List.mem_map.mpr ⟨(t, outs), h, rfl⟩
        simp [this, ih hn.2 h]
  rw [hf]
  rfl

end Views

end EkwVerif.Presched.Aux
