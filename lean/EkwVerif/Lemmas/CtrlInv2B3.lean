/-
Tier 2 (`Inv2`) preservation, slice B, part 3: the step `.notify1` (one event of `notify`).
Needs the auxiliary tier `Inv2X` (see `CtrlInv2X.lean`) and, for the completion of a task (the notices of ALL its
outputs have been processed), `InvP.pub_once` (see `CtrlInvP.lean`).
-/
import EkwVerif.Lemmas.CtrlInv2B2
import EkwVerif.Lemmas.CtrlInvP

set_option linter.unusedVariables false
set_option linter.unusedSimpArgs false

namespace EkwVerif.Ctrl

/-- `notify` of a worker's `DatasetPublished` does not raise when the task is registered in the purging tracker of all
its inputs and is in `ongoing` (needed in case this notice completes the task) -/
theorem i2b_notifyEvent_pubW_ok (j : Job) (c : Ctl) (w : Worker) (ds : Ds) (hnd : (j.inputs ds.task).Nodup)
    (hin : ∀ src, src ∈ j.inputs ds.task → c.ptracked src = true ∧ ds.task ∈ c.ptrack src) (hon : (w, ds.task) ∈ c.ongoing)
    (e : Err) : notifyEvent j c (.pubW w ds) ≠ .error e := by
  simp only [notifyEvent]
  split
  · split
    · rename_i e2 hci
      exact absurd hci (i2b_completeInputs_ok j ds.task _ _ hnd (by simpa using hin) e2)
    · rename_i c4 hci
      have := completeInputs_ongoing _ _ _ _ _ hci
      split
      · simp
      · rename_i hno
        exfalso; apply hno
        rw [this]; simpa using hon
  · simp

theorem i2b_step_notify1 (f : Sem) (j : Job) (cl : Cluster) (s s' : Sys) (wf : WF j cl)
    (h1 : Inv1 cl s) (h2 : Inv2 j cl s) (h3 : Inv3 f j cl s) (h4 : Inv4 j cl s) (hx : Inv2X j s) (hP : InvP j s)
    (hs : step f j cl s .notify1 = some s') : Inv2 j cl s' := by
  simp only [step] at hs
  split at hs; · cases hs
  rename_i hc
  have hp : s.phase = .notifying := by simpa using hc
  have htodo : s.todo = [] := h1.todo_phase (by simp [hp]) (by simp [hp]) (by simp [hp])
  have hfu : (s.ctl.ongoing.map (·.2)).Nodup := by
    have := hx.flight_unique
    simpa [Sys.todoPairs, htodo] using this
  split at hs
  · cases hs
  · rename_i ev rest hib
    have hsub : ∀ e, (rest ++ s.env.pending).count e ≤ s.allEv.count e := by
      intro e; simp only [Sys.allEv, hib, List.cons_append]; exact List.count_le_count_cons
    have hhead : ev ∈ s.allEv := by simp [Sys.allEv, hib]
    -- facts about an output notice at the head of the inbox: its task is still in flight
    have hflight : ∀ w ds, ev = Event.pubW w ds →
        (w, ds.task) ∈ s.ctl.ongoing ∧ s.ctl.doneC ds.task = false ∧ s.ctl.dispatched ds.task = 1 := by
      intro w ds he
      subst he
      have hf := h2.ev_flight w ds hhead
      refine ⟨?_, h2.flight_not_done _ _ hf, h1.flight_disp _ _ hf⟩
      simpa [Sys.inFlight, Sys.todoPairs, htodo] using hf
    split at hs
    · cases hs
    · rename_i e he
      exfalso
      cases ev with
      | payload ds v => simp [notifyEvent] at he
      | pubT a ds => simp [notifyEvent] at he
      | pubW w ds =>
        obtain ⟨k1, k2, _⟩ := hflight w ds rfl
        refine i2b_notifyEvent_pubW_ok j s.ctl w ds (wf.inputsNodup _) ?_ k1 _ he
        intro src hsrc
        exact h2.ptrack_sound src ds.task ((i2b_mem_consumers j src ds.task).mpr hsrc) k2
    · rename_i c2 hne
      cases hs
      cases ev with
      | payload ds v =>
        simp only [notifyEvent, Except.ok.injEq] at hne
        subst hne
        refine h2.i2b_congr rfl rfl rfl rfl rfl rfl rfl (fun _ h => h) ?_ rfl rfl rfl rfl rfl rfl hsub
          (fun hx' _ => absurd hp hx') (fun _ _ hv => hv) (fun _ _ he => he)
        intro d hd
        simp only
        by_cases hds : d = ds
        · subst hds; simp
        · rw [upd_other _ _ _ _ hds]; exact hd
      | pubT a ds =>
        simp only [notifyEvent, Except.ok.injEq] at hne
        subst hne
        exact i2b_inv2_announce j cl s h2 hx.tracked_valid ds a rest hsub hp (hx.evT_produced a ds hhead)
      | pubW w ds =>
        have hran := h2.ev_ran w ds hhead
        have hprod : s.env.produced ds = true := (h2.produced_iff ds).mpr hran
        have st0 := i2b_inv2_announce j cl s h2 hx.tracked_valid ds w.host rest hsub hp hprod
        -- recording the notice touches none of the fields Tier 2 talks about
        have st1 : Inv2 j cl { s with
            ctl := markPublished (considerComputable (considerFetch j (markAvailable s.ctl w.host ds) ds w.host) ds) ds,
            inbox := rest } :=
          st0.i2b_congr rfl rfl rfl rfl rfl rfl rfl (fun _ h => h) (fun _ h => h) rfl rfl rfl rfl rfl rfl (fun _ => Nat.le_refl _)
            (fun hx' _ => absurd hp hx') (fun _ _ hv => hv) (fun _ _ he => he)
        obtain ⟨k1, k2, k3⟩ := hflight w ds rfl
        simp only [notifyEvent] at hne
        split at hne
        · rename_i hall
          have hall' := (allPublished_iff j _ ds.task).mp hall
          simp only [markPublished, considerComputable_published, considerFetch_published, markAvailable_published] at hall'
          split at hne
          · cases hne
          · rename_i c4 hci
            split at hne
            · simp only [Except.ok.injEq] at hne
              subst hne
              refine i2b_inv2_complete j cl _ st1 ds.task w c4 _ _ htodo (by simpa using hfu) (by simpa using k1)
                hran.1 (by simpa using k3) ?_ hci
              intro w' ds' he' heq
              have he'' : Event.pubW w' ds' ∈ rest ++ s.env.pending := he'
              have hm : Event.pubW w' ds' ∈ s.allEv := i2b_mem_of_count_le hsub _ he''
              have hf := h2.ev_flight w' ds' hm
              have hon' : (w', ds.task) ∈ s.ctl.ongoing := by
                rw [← heq]; simpa [Sys.inFlight, Sys.todoPairs, htodo] using hf
              have hw : w' = w := i2b_snd_inj _ _ _ _ hfu hon' k1
              -- the notice of `ds'` is still on its way, so it is not recorded: it must be the notice being processed
              have hd : ds' = ds := by
                have hk := hall' ds'.out (by rw [← heq]; exact (h2.ev_ran w' ds' hm).2)
                have hds' : (⟨ds.task, ds'.out⟩ : Ds) = ds' := by rw [← heq]
                rw [hds'] at hk
                by_cases hdd : ds' = ds
                · exact hdd
                · rw [upd_other _ _ _ _ hdd, hP.pub_once w' ds' hm] at hk; cases hk
              subst hw; subst hd
              have c1 := List.count_pos_iff.mpr he''
              have c2 := h2.ev_count w' ds'
              simp only [Sys.allEv, hib, List.cons_append, List.count_cons, beq_self_eq_true, if_true] at c2
              omega
            · cases hne
        · simp only [Except.ok.injEq] at hne
          subst hne
          exact st1

end EkwVerif.Ctrl
