/-
Helper lemmas for `c07_retry_until_acked` (liveness half): the book-keeping invariant `AF` between
`awaiting_confirmation` and `futs_in_progress`, and the retry loop of `recv_loop`.
-/
import EkwVerif.Lemmas.Transfer
namespace EkwVerif.Transfer
namespace Aux

/-! ### book-keeping invariant of one data server (awaiting_confirmation vs futs_in_progress) -/

def keyIdx (i : Nat) : Key → Bool
  | .cmd c => c.idx = i
  | .pay _ => false

abbrev AW := List (Nat × Cmd × Option Nat)

structure AF (aw : AW) (fs : List Fut) : Prop where
  key_idx : ∀ e ∈ aw, e.1 = e.2.1.idx
  nodup : (aw.map (·.1)).Nodup
  fut_aw : ∀ f ∈ fs, ∀ c, f.key = .cmd c → lookup aw c.idx = some (c, none)
  fut_uniq : ∀ i, (fs.map (·.key)).countP (keyIdx i) ≤ 1

theorem lookup_setA_self {β : Type} (l : List (Nat × β)) (x : Nat) (v : β) : lookup (setA l x v) x = some v := by
  induction l with
  | nil => simp [setA, lookup]
  | cons e l ih =>
    obtain ⟨k, b⟩ := e
    by_cases hk : k = x
    · simp [setA, hk, lookup]
    · simp [setA, hk, lookup, ih]

theorem lookup_setA_ne {β : Type} (l : List (Nat × β)) (x y : Nat) (v : β) (hxy : x ≠ y) :
    lookup (setA l x v) y = lookup l y := by
  induction l with
  | nil => simp [setA, lookup, hxy]
  | cons e l ih =>
    obtain ⟨k, b⟩ := e
    by_cases hk : k = x
    · subst hk; simp [setA, lookup, hxy]
    · by_cases hy : k = y
      · subst hy; simp [setA, hk, lookup]
      · simp [setA, hk, lookup, hy, ih]

theorem keys_setA_some {β : Type} (l : List (Nat × β)) (x : Nat) (v u : β) (h : lookup l x = some u) :
    (setA l x v).map (·.1) = l.map (·.1) := by
  induction l with
  | nil => simp [lookup] at h
  | cons e l ih =>
    obtain ⟨k, b⟩ := e
    by_cases hk : k = x
    · simp [setA, hk]
    · simp [lookup, hk] at h; simp [setA, hk, ih h]

theorem keys_setA_none {β : Type} (l : List (Nat × β)) (x : Nat) (v : β) (h : lookup l x = none) :
    (setA l x v).map (·.1) = l.map (·.1) ++ [x] := by
  induction l with
  | nil => simp [setA]
  | cons e l ih =>
    obtain ⟨k, b⟩ := e
    by_cases hk : k = x
    · simp [lookup, hk] at h
    · simp [lookup, hk] at h; simp [setA, hk, ih h]

theorem lookup_none_notin {β : Type} (l : List (Nat × β)) (x : Nat) (h : lookup l x = none) : x ∉ l.map (·.1) := by
  induction l with
  | nil => simp
  | cons e l ih =>
    obtain ⟨k, b⟩ := e
    by_cases hk : k = x
    · simp [lookup, hk] at h
    · simp [lookup, hk] at h
      simp only [List.map_cons, List.mem_cons, not_or]
      exact ⟨fun hh => hk hh.symm, ih h⟩

theorem mem_setA {β : Type} (l : List (Nat × β)) (x : Nat) (v : β) (e : Nat × β) (h : e ∈ setA l x v) :
    e ∈ l ∨ e = (x, v) := by
  induction l with
  | nil => simp [setA] at h; right; exact h
  | cons g l ih =>
    obtain ⟨k, b⟩ := g
    by_cases hk : k = x
    · simp [setA, hk] at h
      rcases h with h | h
      · right; exact h
      · left; simp [h]
    · simp [setA, hk] at h
      rcases h with h | h
      · left; simp [h]
      · rcases ih h with h | h
        · left; simp [h]
        · right; exact h

theorem nodup_setA {β : Type} (l : List (Nat × β)) (x : Nat) (v : β) (h : (l.map (·.1)).Nodup) :
    ((setA l x v).map (·.1)).Nodup := by
  cases hl : lookup l x with
  | none =>
    rw [keys_setA_none _ _ _ hl]
    have := lookup_none_notin _ _ hl
    rw [List.nodup_append]
    refine ⟨h, by simp, ?_⟩
    intro a ha b hb
    simp at hb; subst hb
    intro hab; subst hab; exact this ha
  | some u => rw [keys_setA_some _ _ _ _ hl]; exact h

theorem mem_lookup_nodup {β : Type} (l : List (Nat × β)) (k : Nat) (v : β) (hm : (k, v) ∈ l)
    (hn : (l.map (·.1)).Nodup) : lookup l k = some v := by
  induction l with
  | nil => simp at hm
  | cons e l ih =>
    obtain ⟨k', b⟩ := e
    simp only [List.map_cons, List.nodup_cons] at hn
    simp at hm
    rcases hm with ⟨rfl, rfl⟩ | hm
    · simp [lookup]
    · have hne : k' ≠ k := by
        intro hh; subst hh
        exact hn.1 (List.mem_map.mpr ⟨(k', v), hm, rfl⟩)
      simp [lookup, hne]; exact ih hm hn.2

/-- no future carries a command of index `i` -/
def NoFutIdx (fs : List Fut) (i : Nat) : Prop := ∀ f ∈ fs, ∀ c, f.key = .cmd c → c.idx ≠ i

theorem af_noFut {aw : AW} {fs : List Fut} (haf : AF aw fs) (i : Nat) (c : Cmd) (t : Nat)
    (hl : lookup aw i = some (c, some t)) : NoFutIdx fs i := by
  intro f hf c' hk hi
  have := haf.fut_aw f hf c' hk
  rw [hi, hl] at this
  simp at this

theorem cleanList_lookup (fs : List Fut) (aw : AW) (i : Nat) (hno : NoFutIdx fs i) :
    lookup (cleanList fs aw).1 i = lookup aw i := by
  induction fs generalizing aw with
  | nil => rfl
  | cons g gs ih =>
    have hno' : NoFutIdx gs i := fun f hf => hno f (List.mem_cons_of_mem _ hf)
    unfold cleanList
    split
    · exact ih aw hno'
    · exact ih aw hno'
    · split
      · rename_i c hk
        rw [ih _ hno']
        exact lookup_setA_ne _ _ _ _ (hno g (by simp) c hk)
      · exact ih aw hno'

theorem countP_keyIdx_zero (fs : List Fut) (i : Nat) (h : (fs.map (·.key)).countP (keyIdx i) = 0) : NoFutIdx fs i := by
  intro f hf c hk hi
  have : 0 < (fs.map (·.key)).countP (keyIdx i) := by
    rw [List.countP_pos_iff]
    exact ⟨f.key, List.mem_map.mpr ⟨f, hf, rfl⟩, by simp [hk, keyIdx, hi]⟩
  omega

theorem cleanList_af (fs : List Fut) (aw : AW) (haf : AF aw fs) :
    AF (cleanList fs aw).1 (cleanList fs aw).2 := by
  induction fs generalizing aw with
  | nil => exact haf
  | cons g gs ih =>
    have htail : AF aw gs := ⟨haf.key_idx, haf.nodup, fun f hf => haf.fut_aw f (List.mem_cons_of_mem _ hf),
      fun i => by have := haf.fut_uniq i; simp only [List.map_cons, List.countP_cons] at this; omega⟩
    unfold cleanList
    split
    · -- pending: kept
      rename_i hr
      have := ih aw htail
      refine ⟨this.key_idx, this.nodup, ?_, ?_⟩
      · intro f hf c hk
        simp at hf
        rcases hf with rfl | hf
        · -- its awaiting entry is untouched: no other future has this index
          have hu := haf.fut_uniq c.idx
          simp only [List.map_cons, List.countP_cons, hk, keyIdx, decide_true, if_true] at hu
          have h0 : (gs.map (·.key)).countP (keyIdx c.idx) = 0 := by omega
          rw [cleanList_lookup gs aw c.idx (countP_keyIdx_zero gs c.idx h0)]
          exact haf.fut_aw f (by simp) c hk
        · exact this.fut_aw f hf c hk
      · intro i
        have hu := haf.fut_uniq i
        have hsub : ∀ (l : List Fut) (a : AW), ((cleanList l a).2.map (·.key)).countP (keyIdx i) ≤ (l.map (·.key)).countP (keyIdx i) := by
          intro l
          induction l with
          | nil => intro a; simp [cleanList]
          | cons x xs ihx =>
            intro a
            unfold cleanList
            split
            · simp only [List.map_cons, List.countP_cons]; have := ihx a; omega
            · simp only [List.map_cons, List.countP_cons]; have := ihx a; omega
            · split
              · simp only [List.map_cons, List.countP_cons]; exact Nat.le_trans (ihx _) (Nat.le_add_right _ _)
              · simp only [List.map_cons, List.countP_cons]; have := ihx a; omega
        simp only [List.map_cons, List.countP_cons] at hu ⊢
        have := hsub gs aw
        omega
    · exact ih aw htail
    · rename_i t hr
      split
      · rename_i c hk
        apply ih
        have hl := haf.fut_aw g (by simp) c hk
        refine ⟨?_, ?_, ?_, htail.fut_uniq⟩
        · intro e he
          rcases mem_setA _ _ _ _ he with he | he
          · exact haf.key_idx e he
          · subst he; rfl
        · exact nodup_setA _ _ _ haf.nodup
        · intro f hf c' hk'
          have hu := haf.fut_uniq c.idx
          simp only [List.map_cons, List.countP_cons, hk, keyIdx, decide_true, if_true] at hu
          have h0 : (gs.map (·.key)).countP (keyIdx c.idx) = 0 := by omega
          have hne := countP_keyIdx_zero gs c.idx h0 f hf c' hk'
          rw [lookup_setA_ne _ _ _ _ (Ne.symm hne)]
          exact haf.fut_aw f (List.mem_cons_of_mem _ hf) c' hk'
      · exact ih aw htail

theorem set_keys (fs : List Fut) (i : Nat) (f f' : Fut) (h : fs[i]? = some f) (hk : f'.key = f.key) :
    (fs.set i f').map (·.key) = fs.map (·.key) := by
  induction fs generalizing i with
  | nil => rfl
  | cons g gs ih =>
    cases i with
    | zero => simp at h; subst h; simp [hk]
    | succ i => simp at h; simp [ih i h]

theorem af_keys {aw : AW} {fs fs' : List Fut} (haf : AF aw fs) (hk : fs'.map (·.key) = fs.map (·.key)) : AF aw fs' := by
  refine ⟨haf.key_idx, haf.nodup, ?_, ?_⟩
  · intro f hf c hc
    have : f.key ∈ fs.map (·.key) := by rw [← hk]; exact List.mem_map.mpr ⟨f, hf, rfl⟩
    obtain ⟨g, hg, hgk⟩ := List.mem_map.mp this
    exact haf.fut_aw g hg c (hgk.trans hc)
  · intro i; rw [hk]; exact haf.fut_uniq i

theorem report_fields (h : Nat) (m : EMsg) (e : Event) (w : World) (k : Nat) :
    ((w.report h m e).hosts k).awaiting = (w.hosts k).awaiting ∧
    ((w.report h m e).hosts k).acks = (w.hosts k).acks ∧
    ((w.report h m e).hosts k).invalid = (w.hosts k).invalid := by
  simp [World.report, World.setHost, World.emit]; split <;> simp_all

theorem sendOpen_fields (h : Nat) (c : Cmd) (flt : Fault) (w : World) (k : Nat) :
    ((sendOpen h c flt w).1.hosts k).awaiting = (w.hosts k).awaiting ∧
    ((sendOpen h c flt w).1.hosts k).acks = (w.hosts k).acks ∧
    ((sendOpen h c flt w).1.hosts k).invalid = (w.hosts k).invalid := by
  unfold sendOpen
  split
  · exact report_fields _ _ _ _ k
  · split
    · exact report_fields _ _ _ _ k
    · split
      · exact report_fields _ _ _ _ k
      · exact ⟨rfl, rfl, rfl⟩

theorem sendData_fields (h : Nat) (c : Cmd) (flt : Fault) (w : World) (k : Nat) :
    ((sendData h c flt w).1.hosts k).awaiting = (w.hosts k).awaiting ∧
    ((sendData h c flt w).1.hosts k).acks = (w.hosts k).acks ∧
    ((sendData h c flt w).1.hosts k).invalid = (w.hosts k).invalid := by
  unfold sendData
  split
  · exact report_fields _ _ _ _ k
  · split
    · exact report_fields _ _ _ _ k
    · exact ⟨rfl, rfl, rfl⟩

theorem storeStep_fields (h : Nat) (p : Payload) (st : Nat) (flt : Fault) (w : World) (k : Nat) :
    ((storeStep h p st flt w).1.hosts k).awaiting = (w.hosts k).awaiting ∧
    ((storeStep h p st flt w).1.hosts k).acks = (w.hosts k).acks ∧
    ((storeStep h p st flt w).1.hosts k).invalid = (w.hosts k).invalid := by
  unfold storeStep
  simp only
  split
  · split
    · exact report_fields _ _ _ _ k
    · split
      · exact ⟨rfl, rfl, rfl⟩
      · simp [World.setHost]; split <;> simp_all
  · split
    · exact report_fields _ _ _ _ k
    · simp [World.setHost, World.emit]; split <;> simp_all
  · split
    · exact report_fields _ _ _ _ k
    · exact report_fields _ _ _ _ k

theorem setFut_fields (h i : Nat) (f : Fut) (w : World) (k : Nat) :
    ((w.setFut h i f).hosts k).awaiting = (w.hosts k).awaiting ∧
    ((w.setFut h i f).hosts k).acks = (w.hosts k).acks ∧
    ((w.setFut h i f).hosts k).invalid = (w.hosts k).invalid ∧
    ((w.setFut h i f).hosts k).crashed = (w.hosts k).crashed ∧
    ((w.setFut h i f).hosts k).sock = (w.hosts k).sock ∧
    ((w.setFut h i f).hosts k).inbox = (w.hosts k).inbox ∧
    (w.setFut h i f).now = w.now := by
  simp [World.setFut, World.setHost]; split <;> simp_all

theorem setFut_keys (h i : Nat) (f f' : Fut) (w : World) (k : Nat)
    (hget : (w.hosts h).futs[i]? = some f) (hk : f'.key = f.key) :
    ((w.setFut h i f').hosts k).futs.map (·.key) = (w.hosts k).futs.map (·.key) := by
  simp only [World.setFut, World.setHost]
  split
  · rename_i hkk; subst hkk; simp only []; exact set_keys _ _ _ _ hget hk
  · rfl

theorem stepAt_fields (h i : Nat) (flt : Fault) (w : World) (k : Nat) :
    ((stepAt h i flt w).hosts k).awaiting = (w.hosts k).awaiting ∧
    ((stepAt h i flt w).hosts k).acks = (w.hosts k).acks ∧
    ((stepAt h i flt w).hosts k).invalid = (w.hosts k).invalid ∧
    ((stepAt h i flt w).hosts k).crashed = (w.hosts k).crashed ∧
    ((stepAt h i flt w).hosts k).futs.map (·.key) = (w.hosts k).futs.map (·.key) := by
  unfold stepAt
  split
  · simp
  · split
    · rename_i c st hget
      split
      · have h1 := sendOpen_fields h c flt w k
        have h2 := sendOpen_crashed h c flt w k
        have h3 := sendOpen_futs h c flt w
        have hs := setFut_fields h i ⟨.cmd c, if (sendOpen h c flt w).2 then 1 else 0,
          if (sendOpen h c flt w).2 then none else some (.ok w.now)⟩ (sendOpen h c flt w).1 k
        refine ⟨hs.1.trans h1.1, hs.2.1.trans h1.2.1, hs.2.2.1.trans h1.2.2, hs.2.2.2.1.trans h2, ?_⟩
        exact (setFut_keys h i ⟨.cmd c, st, none⟩ ⟨.cmd c, if (sendOpen h c flt w).2 then 1 else 0,
          if (sendOpen h c flt w).2 then none else some (.ok w.now)⟩ (sendOpen h c flt w).1 k (by rw [h3]; exact hget) rfl).trans
          (by rw [h3])
      · have h1 := sendData_fields h c flt w k
        have h2 := sendData_crashed h c flt w k
        have h3 := sendData_futs h c flt w
        have hs := setFut_fields h i ⟨.cmd c, st, some (sendData h c flt w).2⟩ (sendData h c flt w).1 k
        refine ⟨hs.1.trans h1.1, hs.2.1.trans h1.2.1, hs.2.2.1.trans h1.2.2, hs.2.2.2.1.trans h2, ?_⟩
        exact (setFut_keys h i ⟨.cmd c, st, none⟩ ⟨.cmd c, st, some (sendData h c flt w).2⟩ (sendData h c flt w).1 k
          (by rw [h3]; exact hget) rfl).trans (by rw [h3])
    · rename_i p st hget
      have h1 := storeStep_fields h p st flt w k
      have h2 := storeStep_crashed h p st flt w k
      have h3 := storeStep_futs h p st flt w
      have hs := setFut_fields h i ⟨.pay p, (storeStep h p st flt w).2.getD st,
        if (storeStep h p st flt w).2.isSome then none else some (.ok w.now)⟩ (storeStep h p st flt w).1 k
      refine ⟨hs.1.trans h1.1, hs.2.1.trans h1.2.1, hs.2.2.1.trans h1.2.2, hs.2.2.2.1.trans h2, ?_⟩
      exact (setFut_keys h i ⟨.pay p, st, none⟩ ⟨.pay p, (storeStep h p st flt w).2.getD st,
        if (storeStep h p st flt w).2.isSome then none else some (.ok w.now)⟩ (storeStep h p st flt w).1 k
        (by rw [h3]; exact hget) rfl).trans (by rw [h3])
    · simp

theorem runAt_fields (h i : Nat) (w : World) (k : Nat) :
    ((runAt h i w).hosts k).awaiting = (w.hosts k).awaiting ∧
    ((runAt h i w).hosts k).acks = (w.hosts k).acks ∧
    ((runAt h i w).hosts k).invalid = (w.hosts k).invalid ∧
    ((runAt h i w).hosts k).crashed = (w.hosts k).crashed ∧
    ((runAt h i w).hosts k).futs.map (·.key) = (w.hosts k).futs.map (·.key) := by
  unfold runAt
  have a := stepAt_fields h i .none w k
  have b := stepAt_fields h i .none (stepAt h i .none w) k
  have c := stepAt_fields h i .none (stepAt h i .none (stepAt h i .none w)) k
  exact ⟨c.1.trans (b.1.trans a.1), c.2.1.trans (b.2.1.trans a.2.1), c.2.2.1.trans (b.2.2.1.trans a.2.2.1),
    c.2.2.2.1.trans (b.2.2.2.1.trans a.2.2.2.1), c.2.2.2.2.trans (b.2.2.2.2.trans a.2.2.2.2)⟩

theorem runChoice_fields (h c : Nat) (w : World) (k : Nat) :
    ((runChoice h c w).hosts k).awaiting = (w.hosts k).awaiting ∧
    ((runChoice h c w).hosts k).acks = (w.hosts k).acks ∧
    ((runChoice h c w).hosts k).invalid = (w.hosts k).invalid ∧
    ((runChoice h c w).hosts k).crashed = (w.hosts k).crashed ∧
    ((runChoice h c w).hosts k).futs.map (·.key) = (w.hosts k).futs.map (·.key) := by
  unfold runChoice
  simp only
  split
  · simp
  · split
    · simp
    · exact runAt_fields h _ w k

/-- state of host `h` in which the confirmation of `idx` is overdue and nothing forbids the retry -/
structure RP (h idx : Nat) (c : Cmd) (t : Nat) (w : World) : Prop where
  af : AF (w.hosts h).awaiting (w.hosts h).futs
  alive : (w.hosts h).crashed = false
  entry : lookup (w.hosts h).awaiting idx = some (c, some t)
  noack : idx ∉ (w.hosts h).acks
  valid : c.ds ∉ (w.hosts h).invalid

/-- every element of the retry queue still has a time stamp (its send is not in progress) -/
def RQ (h : Nat) (q : List Nat) (w : World) : Prop :=
  ∀ e ∈ q, ∃ c' t', lookup (w.hosts h).awaiting e = some (c', some t')

theorem rp_runChoice {h idx c t} (x : Nat) {w : World} (hp : RP h idx c t w) : RP h idx c t (runChoice h x w) := by
  have hf := runChoice_fields h x w h
  refine ⟨?_, ?_, ?_, ?_, ?_⟩
  · rw [hf.1]; exact af_keys hp.af hf.2.2.2.2
  · rw [hf.2.2.2.1]; exact hp.alive
  · rw [hf.1]; exact hp.entry
  · rw [hf.2.1]; exact hp.noack
  · rw [hf.2.2.1]; exact hp.valid

theorem rq_runChoice {h q} (x : Nat) {w : World} (hq : RQ h q w) : RQ h q (runChoice h x w) := by
  intro e he; rw [(runChoice_fields h x w h).1]; exact hq e he

theorem rp_cleanAll {h idx c t} {w : World} (hp : RP h idx c t w) : RP h idx c t (cleanAll h w) := by
  have hno := af_noFut hp.af idx c t hp.entry
  unfold cleanAll
  simp only [hp.alive]
  refine ⟨?_, ?_, ?_, ?_, ?_⟩
  · simpa [World.setHost] using cleanList_af _ _ hp.af
  · simpa [World.setHost] using hp.alive
  · simp only [World.setHost, if_true, Bool.false_eq_true, if_false]
    rw [cleanList_lookup _ _ _ hno]; exact hp.entry
  · simpa [World.setHost] using hp.noack
  · simpa [World.setHost] using hp.valid

theorem rq_cleanAll {h q idx c t} {w : World} (hp : RP h idx c t w) (hq : RQ h q w) : RQ h q (cleanAll h w) := by
  intro e he
  obtain ⟨c', t', hl⟩ := hq e he
  have hno := af_noFut hp.af e c' t' hl
  refine ⟨c', t', ?_⟩
  unfold cleanAll
  simp only [hp.alive, World.setHost, if_true, Bool.false_eq_true, if_false]
  rw [cleanList_lookup _ _ _ hno]; exact hl

theorem rp_maybeClean {h idx c t q} (fuel : Nat) (sched : List Nat) {w : World} (hp : RP h idx c t w) (hq : RQ h q w) :
    RP h idx c t (maybeClean h fuel sched w).1 ∧ RQ h q (maybeClean h fuel sched w).1 := by
  induction fuel generalizing sched w with
  | zero => exact ⟨rp_cleanAll hp, rq_cleanAll hp hq⟩
  | succ n ih =>
    unfold maybeClean
    simp only
    split
    · exact ⟨rp_cleanAll hp, rq_cleanAll hp hq⟩
    · exact ih _ (rp_runChoice _ (rp_cleanAll hp)) (rq_runChoice _ (rq_cleanAll hp hq))

theorem hasKey_false {aw : AW} {fs : List Fut} (haf : AF aw fs) (e : Nat) (c : Cmd) (t : Nat)
    (hl : lookup aw e = some (c, some t)) : hasKey fs (.cmd c) = false := by
  have hidx : e = c.idx := haf.key_idx _ (lookup_mem _ _ _ hl)
  cases hh : hasKey fs (.cmd c) with
  | false => rfl
  | true =>
    simp [hasKey] at hh
    obtain ⟨f, hf, hk⟩ := hh
    have := haf.fut_aw f hf c hk
    rw [← hidx, hl] at this
    simp at this

theorem countP_keyIdx_of_noFut (fs : List Fut) (i : Nat) (hno : NoFutIdx fs i) : (fs.map (·.key)).countP (keyIdx i) = 0 := by
  rw [List.countP_eq_zero]
  intro k hk
  obtain ⟨f, hf, rfl⟩ := List.mem_map.mp hk
  cases hfk : f.key with
  | cmd c => simp [keyIdx]; exact hno f hf c hfk
  | pay p => simp [keyIdx]

theorem af_erase' {aw : AW} {fs : List Fut} (haf : AF aw fs) (e : Nat) (hno : NoFutIdx fs e) : AF (eraseA aw e) fs := by
  refine ⟨fun x hx => haf.key_idx x (mem_eraseA _ _ _ hx), ?_, ?_, haf.fut_uniq⟩
  · unfold eraseA
    exact List.Nodup.sublist (List.Sublist.map _ List.filter_sublist) haf.nodup
  · intro f hf c' hk
    rw [lookup_eraseA_ne _ _ _ (Ne.symm (hno f hf c' hk))]
    exact haf.fut_aw f hf c' hk

theorem af_erase {aw : AW} {fs : List Fut} (haf : AF aw fs) (e : Nat) (c : Cmd) (t : Nat)
    (hl : lookup aw e = some (c, some t)) : AF (eraseA aw e) fs :=
  af_erase' haf e (af_noFut haf e c t hl)

theorem af_resubmit' {aw : AW} {fs : List Fut} (haf : AF aw fs) (e : Nat) (c : Cmd)
    (hidx : e = c.idx) (hno : NoFutIdx fs e) : AF (setA aw e (c, none)) (fs ++ [⟨.cmd c, 0, none⟩]) := by
  refine ⟨?_, nodup_setA _ _ _ haf.nodup, ?_, ?_⟩
  · intro x hx
    rcases mem_setA _ _ _ _ hx with hx | hx
    · exact haf.key_idx x hx
    · subst hx; exact hidx
  · intro f hf c' hk
    simp at hf
    rcases hf with hf | hf
    · rw [lookup_setA_ne _ _ _ _ (Ne.symm (hno f hf c' hk))]
      exact haf.fut_aw f hf c' hk
    · subst hf
      simp at hk; subst hk
      rw [← hidx]; exact lookup_setA_self _ _ _
  · intro i
    have h0 := countP_keyIdx_of_noFut fs e hno
    have hu := haf.fut_uniq i
    rw [List.map_append, List.countP_append]
    by_cases hi : c.idx = i
    · have hei : e = i := hidx.trans hi
      subst hei
      simp [h0, List.countP_cons, keyIdx, hi]
    · simp only [List.map_cons, List.map_nil, List.countP_cons, List.countP_nil, keyIdx, hi, decide_false]
      simpa using hu

theorem af_resubmit {aw : AW} {fs : List Fut} (haf : AF aw fs) (e : Nat) (c : Cmd) (t : Nat)
    (hl : lookup aw e = some (c, some t)) : AF (setA aw e (c, none)) (fs ++ [⟨.cmd c, 0, none⟩]) :=
  af_resubmit' haf e c (haf.key_idx _ (lookup_mem _ _ _ hl)) (af_noFut haf e c t hl)

theorem retryOne_other {h idx c t q} (e : Nat) {w : World} (hp : RP h idx c t w) (hq : RQ h (e :: q) w)
    (hne : e ≠ idx) (hnd : e ∉ q) :
    RP h idx c t (retryOne h e w) ∧ RQ h q (retryOne h e w) := by
  obtain ⟨c', t', hl⟩ := hq e (by simp)
  have hk := hasKey_false hp.af e c' t' hl
  have hq' : RQ h q w := fun x hx => hq x (List.mem_cons_of_mem _ hx)
  unfold retryOne
  simp only [hp.alive, hl, hk, Bool.false_eq_true, if_false]
  split
  · refine ⟨⟨?_, ?_, ?_, ?_, ?_⟩, ?_⟩
    · simpa [World.setHost] using af_erase hp.af e c' t' hl
    · simpa [World.setHost] using hp.alive
    · simp only [World.setHost, if_true]; rw [lookup_eraseA_ne _ _ _ hne]; exact hp.entry
    · simpa [World.setHost] using hp.noack
    · simpa [World.setHost] using hp.valid
    · intro x hx
      obtain ⟨c2, t2, h2⟩ := hq' x hx
      refine ⟨c2, t2, ?_⟩
      simp only [World.setHost, if_true]
      rw [lookup_eraseA_ne _ _ _ (fun hh => hnd (by rw [hh]; exact hx))]; exact h2
  · split
    · refine ⟨⟨?_, ?_, ?_, ?_, ?_⟩, ?_⟩
      · simpa [World.setHost] using af_erase hp.af e c' t' hl
      · simpa [World.setHost] using hp.alive
      · simp only [World.setHost, if_true]; rw [lookup_eraseA_ne _ _ _ hne]; exact hp.entry
      · simpa [World.setHost] using hp.noack
      · simpa [World.setHost] using hp.valid
      · intro x hx
        obtain ⟨c2, t2, h2⟩ := hq' x hx
        refine ⟨c2, t2, ?_⟩
        simp only [World.setHost, if_true]
        rw [lookup_eraseA_ne _ _ _ (fun hh => hnd (by rw [hh]; exact hx))]; exact h2
    · refine ⟨⟨?_, ?_, ?_, ?_, ?_⟩, ?_⟩
      · simpa [World.setHost, World.emit] using af_resubmit hp.af e c' t' hl
      · simpa [World.setHost, World.emit] using hp.alive
      · simp only [World.setHost, World.emit, if_true]; rw [lookup_setA_ne _ _ _ _ hne]; exact hp.entry
      · simpa [World.setHost, World.emit] using hp.noack
      · simpa [World.setHost, World.emit] using hp.valid
      · intro x hx
        obtain ⟨c2, t2, h2⟩ := hq' x hx
        refine ⟨c2, t2, ?_⟩
        simp only [World.setHost, World.emit, if_true]
        rw [lookup_setA_ne _ _ _ _ (fun hh => hnd (by rw [hh]; exact hx))]; exact h2

theorem retryOne_self {h idx c t} {w : World} (hp : RP h idx c t w) :
    resubmitCnt (retryOne h idx w).log h idx = resubmitCnt w.log h idx + 1 := by
  have hk := hasKey_false hp.af idx c t hp.entry
  have hidx : idx = c.idx := hp.af.key_idx _ (lookup_mem _ _ _ hp.entry)
  have hna : c.idx ∉ (w.hosts h).acks := hidx ▸ hp.noack
  unfold retryOne
  simp only [hp.alive, hp.entry, hk, Bool.false_eq_true, if_false, hna, hp.valid]
  simp [World.emit, World.setHost, resubmitCnt, List.countP_cons, hidx]

theorem resubmit_mono_mstep {w w' : World} (hs : MStep w w') (h idx : Nat) :
    resubmitCnt w.log h idx ≤ resubmitCnt w'.log h idx := by
  obtain ⟨evs, hl, _⟩ := (summ_mstep hs).log
  rw [hl]
  simp only [resubmitCnt, List.countP_append]; omega

theorem resubmit_mono_mstar {w w' : World} (hs : MStar w w') (h idx : Nat) :
    resubmitCnt w.log h idx ≤ resubmitCnt w'.log h idx := by
  induction hs with
  | refl => exact Nat.le_refl _
  | tail _ hstep ih => exact Nat.le_trans ih (resubmit_mono_mstep hstep h idx)

theorem retryLoop_resubmits {h idx c t} (q : List Nat) (sched : List Nat) {w : World}
    (hp : RP h idx c t w) (hq : RQ h q w) (hnd : q.Nodup) (hin : idx ∈ q) :
    resubmitCnt w.log h idx < resubmitCnt (retryLoop h q sched w).1.log h idx := by
  induction q generalizing sched w with
  | nil => simp at hin
  | cons e q ih =>
    unfold retryLoop
    simp only [hp.alive, Bool.false_eq_true, if_false]
    have hm := rp_maybeClean (q := e :: q) (w.hosts h).futs.length sched hp hq
    have hmono := resubmit_mono_mstar (mclean_mstar h sched w) h idx
    have hnd' := List.nodup_cons.mp hnd
    by_cases he : e = idx
    · subst he
      have h1 := retryOne_self hm.1
      have h2 := resubmit_mono_mstar (retryLoop_mstar h q (mclean h sched w).2 (retryOne h e (mclean h sched w).1)) h e
      unfold mclean at h1 h2 hmono ⊢
      omega
    · have hin' : idx ∈ q := by
        rcases List.mem_cons.mp hin with hh | hh
        · exact absurd hh.symm he
        · exact hh
      have h1 := retryOne_other e hm.1 hm.2 he hnd'.1
      have h2 := ih (mclean h sched w).2 h1.1 h1.2 hnd'.2 hin'
      have h3 := resubmit_mono_mstar (MStar.single (MStep.retry h e (mclean h sched w).1)) h idx
      unfold mclean at h2 h3 hmono ⊢
      omega

/-! ### `AF` holds in every reachable world -/

def AFW (w : World) : Prop := ∀ h, AF (w.hosts h).awaiting (w.hosts h).futs

theorem afw_same {w w' : World} (ha : AFW w)
    (h1 : ∀ h, (w'.hosts h).awaiting = (w.hosts h).awaiting)
    (h2 : ∀ h, (w'.hosts h).futs = (w.hosts h).futs) : AFW w' := by
  intro h; rw [h1, h2]; exact ha h

macro "afw_same_tac" ha:ident : tactic => `(tactic|
  first
  | exact $ha
  | (apply afw_same $ha <;> intro k <;> (try simp [World.setHost, World.emit, World.crash, World.report]) <;>
      (try split) <;> (try simp_all)))

theorem afw_deliver (i : Nat) (dup : Bool) {w : World} (ha : AFW w) : AFW (deliver i dup w) := by
  unfold deliver
  cases dup <;> simp only [] <;> split <;> (try split) <;> afw_same_tac ha

theorem afw_inject (h : Nat) (m : Msg) {w : World} (ha : AFW w) : AFW (inject h m w) := by
  unfold inject
  split <;> (try split) <;> afw_same_tac ha

theorem afw_recvOne (h : Nat) {w : World} (ha : AFW w) : AFW (recvOne h w).1 := by
  unfold recvOne
  simp only
  split
  · exact ha
  · split
    · exact ha
    · afw_same_tac ha
    · split <;> afw_same_tac ha

theorem afw_ctrlRecv (i : Nat) (dup : Bool) {w : World} (ha : AFW w) : AFW (ctrlRecv i dup w) := by
  unfold ctrlRecv
  cases dup <;> simp only [] <;> split <;> (try split) <;> afw_same_tac ha

theorem afw_cleanAll (h : Nat) {w : World} (ha : AFW w) : AFW (cleanAll h w) := by
  unfold cleanAll
  split
  · exact ha
  · intro k
    by_cases hk : k = h
    · subst hk; simpa [World.setHost] using cleanList_af _ _ (ha k)
    · simpa [World.setHost, hk] using ha k

theorem afw_stepAt (h i : Nat) (flt : Fault) {w : World} (ha : AFW w) : AFW (stepAt h i flt w) := by
  intro k
  have hf := stepAt_fields h i flt w k
  rw [hf.1]; exact af_keys (ha k) hf.2.2.2.2

theorem afw_injectE (h ds : Nat) {w : World} (ha : AFW w) : AFW (injectE h ds w) := by
  unfold injectE; afw_same_tac ha

theorem afw_execHandle (h : Nat) {w : World} (ha : AFW w) : AFW (execHandle h w) := by
  unfold execHandle
  simp only
  split
  · exact ha
  · afw_same_tac ha
  · afw_same_tac ha
  · split <;> afw_same_tac ha

theorem lookup_filter {β : Type} (l : List (Nat × β)) (p : Nat × β → Bool) (k : Nat) (v : β)
    (hl : lookup l k = some v) (hp : p (k, v) = true) : lookup (l.filter p) k = some v := by
  induction l with
  | nil => simp [lookup] at hl
  | cons e l ih =>
    obtain ⟨k', b⟩ := e
    by_cases hk : k' = k
    · subst hk
      simp [lookup] at hl; subst hl
      simp [List.filter_cons, hp, lookup]
    · simp [lookup, hk] at hl
      simp only [List.filter_cons]
      split
      · simp [lookup, hk]; exact ih hl
      · exact ih hl

theorem afw_handleHead (h : Nat) {w : World} (ha : AFW w)
    (guard : ∀ ds rest, (w.hosts h).inbox = .purge ds :: rest → inProgress (w.hosts h).futs ds = 0) :
    AFW (handleHead h w) := by
  unfold handleHead
  simp only
  split
  · exact ha
  · split
    · exact ha
    · rename_i m rest hin
      have hah := ha h
      cases m with
      | cmd c =>
        simp only [handleMsg, World.setHost, if_true]
        split
        · afw_same_tac ha
        · split
          · afw_same_tac ha
          · rename_i hnone _
            have hnone' : lookup (w.hosts h).awaiting c.idx = none := by
              cases hl : lookup (w.hosts h).awaiting c.idx with
              | none => rfl
              | some v => simp [hl] at hnone
            have hno : NoFutIdx (w.hosts h).futs c.idx := by
              intro f hf c' hk hi
              have := hah.fut_aw f hf c' hk
              rw [hi, hnone'] at this; cases this
            intro k
            by_cases hk : k = h
            · subst hk
              simpa [World.emit] using af_resubmit' hah c.idx c rfl hno
            · simpa [World.emit, hk] using ha k
      | pay p =>
        simp only [handleMsg, World.setHost, if_true]
        split
        · afw_same_tac ha
        · intro k
          by_cases hk : k = h
          · subst hk
            simp only [if_true]
            refine ⟨hah.key_idx, hah.nodup, ?_, ?_⟩
            · intro f hf c hc
              simp at hf
              rcases hf with hf | hf
              · exact hah.fut_aw f hf c hc
              · subst hf; simp at hc
            · intro i
              have := hah.fut_uniq i
              simpa [List.countP_append, List.countP_cons, keyIdx] using this
          · simpa [hk] using ha k
      | ack i => simp only [handleMsg, World.setHost, if_true]; afw_same_tac ha
      | purge ds =>
        have hg := guard ds rest hin
        have hfilt : AF ((w.hosts h).awaiting.filter (fun e => e.2.1.ds ≠ ds)) (w.hosts h).futs := by
          refine ⟨fun e he => hah.key_idx e (List.mem_filter.mp he).1,
            List.Nodup.sublist (List.Sublist.map _ List.filter_sublist) hah.nodup, ?_, hah.fut_uniq⟩
          intro f hf c hc
          apply lookup_filter _ _ _ _ (hah.fut_aw f hf c hc)
          have := inProgress_zero _ _ hg f hf
          simp [hc, Key.ds] at this
          simp [this]
        simp only [handleMsg, purgeAct, World.setHost, if_true]
        intro k
        by_cases hk : k = h
        · subst hk; simpa [World.setHost, World.emit] using hfilt
        · simpa [World.setHost, World.emit, hk] using ha k

theorem afw_retryOne (h e : Nat) {w : World} (ha : AFW w) : AFW (retryOne h e w) := by
  have hah := ha h
  unfold retryOne
  simp only
  split
  · exact ha
  · split
    · afw_same_tac ha
    · rename_i c x hl
      split
      · afw_same_tac ha
      · rename_i hk
        have hidx : e = c.idx := hah.key_idx _ (lookup_mem _ _ _ hl)
        have hno : NoFutIdx (w.hosts h).futs e := by
          intro f hf c' hc hi
          have h1 := hah.fut_aw f hf c' hc
          rw [hi, hl] at h1
          simp at h1
          apply hk
          simp [hasKey]
          exact ⟨f, hf, by rw [hc, h1.1]⟩
        split
        · intro k
          by_cases hkk : k = h
          · subst hkk; simpa [World.setHost] using af_erase' hah e hno
          · simpa [World.setHost, hkk] using ha k
        · split
          · intro k
            by_cases hkk : k = h
            · subst hkk; simpa [World.setHost] using af_erase' hah e hno
            · simpa [World.setHost, hkk] using ha k
          · intro k
            by_cases hkk : k = h
            · subst hkk; simpa [World.setHost, World.emit] using af_resubmit' hah e c hidx hno
            · simpa [World.setHost, World.emit, hkk] using ha k

theorem afw_mstep {w w' : World} (hs : MStep w w') (ha : AFW w) : AFW w' := by
  cases hs with
  | clean h => exact afw_cleanAll h ha
  | run h i flt => exact afw_stepAt h i flt ha
  | deliver i dup => exact afw_deliver i dup ha
  | drop i => exact ha
  | inject h m => exact afw_inject h m ha
  | recv h => exact afw_recvOne h ha
  | ctrl i dup => exact afw_ctrlRecv i dup ha
  | handle h _ guard => exact afw_handleHead h ha guard
  | retry h e => exact afw_retryOne h e ha
  | advance d => exact ha
  | exec h => exact afw_execHandle h ha
  | injectE h ds => exact afw_injectE h ds ha

theorem afw_mstar {w w' : World} (hs : MStar w w') (ha : AFW w) : AFW w' := by
  induction hs with
  | refl => exact ha
  | tail _ hstep ih => exact afw_mstep hstep ih

/-! ### one timer iteration of `recv_loop` re-submits an overdue transfer -/

theorem report_io (h : Nat) (m : EMsg) (e : Event) (w : World) (k : Nat) :
    ((w.report h m e).hosts k).sock = (w.hosts k).sock ∧ ((w.report h m e).hosts k).inbox = (w.hosts k).inbox ∧
    (w.report h m e).now = w.now := by
  simp [World.report, World.setHost, World.emit]; split <;> simp_all

theorem stepAt_io (h i : Nat) (flt : Fault) (w : World) (k : Nat) :
    ((stepAt h i flt w).hosts k).sock = (w.hosts k).sock ∧ ((stepAt h i flt w).hosts k).inbox = (w.hosts k).inbox ∧
    (stepAt h i flt w).now = w.now := by
  unfold stepAt
  split
  · simp
  · split
    · rename_i c st hget
      split
      · have hs := setFut_fields h i ⟨.cmd c, if (sendOpen h c flt w).2 then 1 else 0,
          if (sendOpen h c flt w).2 then none else some (.ok w.now)⟩ (sendOpen h c flt w).1 k
        have h1 : ((sendOpen h c flt w).1.hosts k).sock = (w.hosts k).sock ∧
            ((sendOpen h c flt w).1.hosts k).inbox = (w.hosts k).inbox ∧ (sendOpen h c flt w).1.now = w.now := by
          unfold sendOpen
          split
          · exact report_io _ _ _ _ k
          · split
            · exact report_io _ _ _ _ k
            · split
              · exact report_io _ _ _ _ k
              · exact ⟨rfl, rfl, rfl⟩
        exact ⟨hs.2.2.2.2.1.trans h1.1, hs.2.2.2.2.2.1.trans h1.2.1, hs.2.2.2.2.2.2.trans h1.2.2⟩
      · have hs := setFut_fields h i ⟨.cmd c, st, some (sendData h c flt w).2⟩ (sendData h c flt w).1 k
        have h1 : ((sendData h c flt w).1.hosts k).sock = (w.hosts k).sock ∧
            ((sendData h c flt w).1.hosts k).inbox = (w.hosts k).inbox ∧ (sendData h c flt w).1.now = w.now := by
          unfold sendData
          split
          · exact report_io _ _ _ _ k
          · split
            · exact report_io _ _ _ _ k
            · exact ⟨rfl, rfl, rfl⟩
        exact ⟨hs.2.2.2.2.1.trans h1.1, hs.2.2.2.2.2.1.trans h1.2.1, hs.2.2.2.2.2.2.trans h1.2.2⟩
    · rename_i p st hget
      have hs := setFut_fields h i ⟨.pay p, (storeStep h p st flt w).2.getD st,
        if (storeStep h p st flt w).2.isSome then none else some (.ok w.now)⟩ (storeStep h p st flt w).1 k
      have h1 : ((storeStep h p st flt w).1.hosts k).sock = (w.hosts k).sock ∧
          ((storeStep h p st flt w).1.hosts k).inbox = (w.hosts k).inbox ∧ (storeStep h p st flt w).1.now = w.now := by
        unfold storeStep
        simp only
        split
        · split
          · exact report_io _ _ _ _ k
          · split
            · exact ⟨rfl, rfl, rfl⟩
            · simp [World.setHost]; split <;> simp_all
        · split
          · exact report_io _ _ _ _ k
          · simp [World.setHost, World.emit]; split <;> simp_all
        · split
          · exact report_io _ _ _ _ k
          · exact report_io _ _ _ _ k
      exact ⟨hs.2.2.2.2.1.trans h1.1, hs.2.2.2.2.2.1.trans h1.2.1, hs.2.2.2.2.2.2.trans h1.2.2⟩
    · simp

theorem runChoice_io (h c : Nat) (w : World) (k : Nat) :
    ((runChoice h c w).hosts k).sock = (w.hosts k).sock ∧ ((runChoice h c w).hosts k).inbox = (w.hosts k).inbox ∧
    (runChoice h c w).now = w.now := by
  unfold runChoice
  simp only
  split
  · simp
  · split
    · simp
    · rename_i i _
      unfold runAt
      have a := stepAt_io h i .none w k
      have b := stepAt_io h i .none (stepAt h i .none w) k
      have c := stepAt_io h i .none (stepAt h i .none (stepAt h i .none w)) k
      exact ⟨c.1.trans (b.1.trans a.1), c.2.1.trans (b.2.1.trans a.2.1), c.2.2.trans (b.2.2.trans a.2.2)⟩

theorem cleanAll_io (h : Nat) (w : World) (k : Nat) :
    ((cleanAll h w).hosts k).sock = (w.hosts k).sock ∧ ((cleanAll h w).hosts k).inbox = (w.hosts k).inbox ∧
    (cleanAll h w).now = w.now := by
  unfold cleanAll
  split
  · simp
  · simp [World.setHost]; split <;> simp_all

theorem maybeClean_io (h : Nat) (fuel : Nat) (sched : List Nat) (w : World) (k : Nat) :
    (((maybeClean h fuel sched w).1.hosts k).sock = (w.hosts k).sock ∧
     ((maybeClean h fuel sched w).1.hosts k).inbox = (w.hosts k).inbox ∧
     (maybeClean h fuel sched w).1.now = w.now) := by
  induction fuel generalizing sched w with
  | zero => exact cleanAll_io h w k
  | succ n ih =>
    unfold maybeClean
    simp only
    split
    · exact cleanAll_io h w k
    · have h1 := cleanAll_io h w k
      have h2 := runChoice_io h (sched.headD 0) (cleanAll h w) k
      have h3 := ih sched.tail (runChoice h (sched.headD 0) (cleanAll h w))
      exact ⟨h3.1.trans (h2.1.trans h1.1), h3.2.1.trans (h2.2.1.trans h1.2.1), h3.2.2.trans (h2.2.2.trans h1.2.2)⟩

def isDue (now : Nat) (e : Nat × Cmd × Option Nat) : Bool :=
  match e.2.2 with
  | some t => decide (0 < t ∧ t + grace < now)
  | none => false

theorem dueQueue_eq (aw : AW) (now : Nat) : dueQueue aw now = (aw.filter (isDue now)).map (·.1) := rfl

theorem dueQueue_nodup (aw : AW) (now : Nat) (hn : (aw.map (·.1)).Nodup) : (dueQueue aw now).Nodup := by
  rw [dueQueue_eq]
  exact List.Nodup.sublist (List.Sublist.map _ List.filter_sublist) hn

theorem dueQueue_rq (aw : AW) (now : Nat) (hn : (aw.map (·.1)).Nodup) (e : Nat) (he : e ∈ dueQueue aw now) :
    ∃ c t, lookup aw e = some (c, some t) := by
  rw [dueQueue_eq] at he
  obtain ⟨x, hx, hxe⟩ := List.mem_map.mp he
  obtain ⟨hm, hd⟩ := List.mem_filter.mp hx
  obtain ⟨k, c, o⟩ := x
  simp at hxe; subst hxe
  cases o with
  | none => simp [isDue] at hd
  | some t => exact ⟨c, t, mem_lookup_nodup _ _ _ hm hn⟩

theorem mem_dueQueue (aw : AW) (now idx : Nat) (c : Cmd) (t : Nat) (hl : lookup aw idx = some (c, some t))
    (hd : 0 < t ∧ t + grace < now) : idx ∈ dueQueue aw now := by
  rw [dueQueue_eq]
  refine List.mem_map.mpr ⟨(idx, c, some t), List.mem_filter.mpr ⟨lookup_mem _ _ _ hl, ?_⟩, rfl⟩
  simp [isDue, hd]

theorem tickRest_resubmits (h idx : Nat) (c : Cmd) (t : Nat) (r1 : World × List Nat)
    (hm : RP h idx c t r1.1) (hsock : (r1.1.hosts h).sock = []) (hinb : (r1.1.hosts h).inbox = [])
    (hdue : 0 < t ∧ t + grace < r1.1.now) :
    resubmitCnt r1.1.log h idx < resubmitCnt (tickRest h r1).log h idx := by
  unfold tickRest
  have hrecv : recvAll h ((r1.1.hosts h).sock.length + 1) r1.1 = r1.1 := by
    simp [hsock, recvAll, recvOne, hm.alive]
  simp only [hrecv]
  have hhandle : handleAll h (r1.1.hosts h).inbox.length r1.2 r1.1 = (r1.1, r1.2) := by
    simp [hinb, handleAll]
  simp only [hhandle, hm.alive, Bool.false_eq_true, if_false]
  exact retryLoop_resubmits (dueQueue (r1.1.hosts h).awaiting r1.1.now) r1.2 hm
    (fun e he => dueQueue_rq _ _ hm.af.nodup e he) (dueQueue_nodup _ _ hm.af.nodup)
    (mem_dueQueue _ _ _ _ _ hm.entry hdue)

theorem tick_resubmits (h idx : Nat) (c : Cmd) (t : Nat) (sched : List Nat) (w : World)
    (hp : RP h idx c t w) (hs : (w.hosts h).sock = []) (hi : (w.hosts h).inbox = [])
    (hd : 0 < t ∧ t + grace < w.now) :
    resubmitCnt w.log h idx < resubmitCnt (tick h [] sched w).log h idx := by
  have hm := rp_maybeClean (q := []) (w.hosts h).futs.length sched hp (by intro e he; simp at he)
  have hio := maybeClean_io h (w.hosts h).futs.length sched w h
  have hmono := resubmit_mono_mstar (mclean_mstar h sched w) h idx
  unfold tick
  simp only [feed, hp.alive, Bool.false_eq_true, if_false]
  have := tickRest_resubmits h idx c t (mclean h sched w) hm.1 (hio.1.trans hs) (hio.2.1.trans hi)
    (by rw [show (mclean h sched w).1.now = w.now from hio.2.2]; exact hd)
  omega

end Aux
end EkwVerif.Transfer
