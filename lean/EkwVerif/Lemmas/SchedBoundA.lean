/-
Bounded number of scheduling rounds (C03), part A: the potential function `sB_phi` and what every
base step does to it.

`sB_phi j s` = Σ_{t undispatched} (1 + |inputs t|) + Σ_{t not run} nOut t + |outstanding| + |pending|
             + #(requested outputs whose fetch has not been issued).
No base step increases it; a successful `assign` and every `recv` decrease it by at least one.
-/
import EkwVerif.Lemmas.SchedProgress

set_option linter.unusedVariables false

namespace EkwVerif.Ctrl

/-- the bound on the number of iterations of the controller loop: a function of the job only -/
def roundBound (j : Job) : Nat :=
  (j.taskIds.map (fun t => 1 + (j.inputs t).length + j.nOut t)).sum + j.ext.length + 1

/-- contribution of task `t`: `1 + |inputs|` while undispatched, `nOut` while its body has not run -/
def sB_tw (j : Job) (d : Task → Nat) (r : Task → Bool) (t : Task) : Nat :=
  (if d t = 0 then 1 + (j.inputs t).length else 0) + (if r t = true then 0 else j.nOut t)

/-- requested outputs whose fetch command has not been issued -/
def sB_unissued (ext iss : List Ds) : Nat := (ext.filter (fun d => !iss.contains d)).length

def sB_phi (j : Job) (s : Sys) : Nat :=
  (j.taskIds.map (sB_tw j s.ctl.dispatched s.env.ran)).sum + s.env.outstanding.length + s.env.pending.length
    + sB_unissued j.ext s.ctl.fetchIssued

/-! ### list sums -/

theorem sB_sum_congr (l : List Nat) (g g' : Nat → Nat) (h : ∀ x, x ∈ l → g' x = g x) :
    (l.map g').sum = (l.map g).sum := by
  induction l with
  | nil => rfl
  | cons a l ih =>
    simp only [List.map_cons, List.sum_cons]
    rw [h a (by simp), ih (fun x hx => h x (by simp [hx]))]

theorem sB_sum_upd (l : List Nat) (g g' : Nat → Nat) (t : Nat) (hn : l.Nodup) (ht : t ∈ l)
    (hg : ∀ x, x ≠ t → g' x = g x) : (l.map g').sum + g t = (l.map g).sum + g' t := by
  induction l with
  | nil => cases ht
  | cons a l ih =>
    simp only [List.map_cons, List.sum_cons]
    have hn' := List.nodup_cons.mp hn
    by_cases hat : a = t
    · subst hat
      have : (l.map g').sum = (l.map g).sum :=
        sB_sum_congr l g g' (fun x hx => hg x (by intro he; subst he; exact hn'.1 hx))
      omega
    · have hmem : t ∈ l := by
        rcases List.mem_cons.mp ht with h | h
        · exact absurd h.symm hat
        · exact h
      have := ih hn'.2 hmem
      rw [hg a hat]
      omega

theorem sB_taskIds_nodup (j : Job) : j.taskIds.Nodup := by
  simp [Job.taskIds, List.nodup_range]

theorem sB_nOut_zero (j : Job) (t : Task) (h : t ∉ j.taskIds) : j.nOut t = 0 := by
  simp only [Job.taskIds, List.mem_range, Nat.not_lt] at h
  simp [Job.nOut, List.getElem?_eq_none h]

/-- `sB_phi` depends only on five fields -/
theorem sB_phi_congr (j : Job) (s s' : Sys) (hd : s'.ctl.dispatched = s.ctl.dispatched) (hr : s'.env.ran = s.env.ran)
    (ho : s'.env.outstanding = s.env.outstanding) (hp : s'.env.pending = s.env.pending)
    (hf : s'.ctl.fetchIssued = s.ctl.fetchIssued) : sB_phi j s' = sB_phi j s := by
  simp only [sB_phi, hd, hr, ho, hp, hf]

/-- the closed form of the initial potential -/
theorem sB_phi_init (j : Job) (cl : Cluster) : sB_phi j (Sys.init j cl) + 1 = roundBound j := by
  simp only [sB_phi, roundBound, Sys.init, initCtl, Env.init, sB_unissued, List.length_nil, Nat.add_zero]
  have h1 : (j.ext.filter (fun d => !([] : List Ds).contains d)).length = j.ext.length := by
    simp
  have h2 : (j.taskIds.map (sB_tw j (fun _ => 0) (fun _ => false))).sum =
      (j.taskIds.map (fun t => 1 + (j.inputs t).length + j.nOut t)).sum := by
    apply sB_sum_congr
    intro x _
    simp [sB_tw]
  rw [h1, h2]

/-! ### commands -/

def sB_cmdIO : Cmd → Nat
  | .transmit _ _ _ => 1
  | .fetch _ _ => 1
  | _ => 0

theorem sB_applyCmd_out (j : Job) (cl : Cluster) (e : Env) (cmd : Cmd) :
    (applyCmd j cl e cmd).outstanding.length = e.outstanding.length + sB_cmdIO cmd := by
  cases cmd <;> simp [applyCmd, sB_cmdIO]

theorem sB_applyCmds_out (j : Job) (cl : Cluster) (l : List Cmd) (e : Env) :
    (applyCmds j cl e l).outstanding.length = e.outstanding.length + (l.map sB_cmdIO).sum := by
  induction l generalizing e with
  | nil => simp [applyCmds]
  | cons x l ih =>
    have h1 := ih (applyCmd j cl e x)
    simp only [applyCmds, List.foldl_cons, List.map_cons, List.sum_cons] at h1 ⊢
    rw [h1, sB_applyCmd_out]
    omega

theorem sB_actCmds_io (j : Job) (a : Asg) (prep : List (Ds × Host)) : ((actCmds j a prep).map sB_cmdIO).sum ≤ prep.length := by
  have key : ∀ (l : List (Ds × Host)),
      ((l.map (fun p => Cmd.transmit p.1 p.2 a.worker.host) ++ [Cmd.taskSeq a.worker a.task (asgOutputs j a.task)]).map sB_cmdIO).sum = l.length := by
    intro l
    induction l with
    | nil => simp [sB_cmdIO]
    | cons x l ih =>
      simp only [List.map_cons, List.cons_append, List.sum_cons, List.length_cons] at ih ⊢
      rw [ih]; simp only [sB_cmdIO]; omega
  unfold actCmds
  rw [key]
  exact List.length_filter_le _ _

theorem sB_purgeCmds_io (ds : Ds) (cmds : List Cmd) (h : ∀ cmd ∈ cmds, ∃ h, cmd = .purge h ds) :
    (cmds.map sB_cmdIO).sum = 0 := by
  induction cmds with
  | nil => rfl
  | cons x l ih =>
    simp only [List.map_cons, List.sum_cons]
    rw [ih (fun c hc => h c (by simp [hc]))]
    obtain ⟨hh, rfl⟩ := h x (by simp)
    rfl

/-! ### controller frames -/

theorem sB_buildPrep_length (cl : Cluster) (w : Worker) (cands : List (Ds × Host)) (l : List Ds) (c c' : Ctl)
    (p : List (Ds × Host)) (hr : buildPrep cl w cands c l = .ok (c', p)) : p.length ≤ l.length := by
  induction l generalizing c c' p with
  | nil => simp only [buildPrep, Except.ok.injEq, Prod.mk.injEq] at hr; obtain ⟨_, rfl⟩ := hr; simp
  | cons a l ih =>
    unfold buildPrep at hr
    split at hr
    · have := ih _ _ _ hr
      simp only [List.length_cons]; omega
    · split at hr
      · split at hr
        · cases hr
        · rename_i c2 p2 hb
          simp only [Except.ok.injEq, Prod.mk.injEq] at hr
          obtain ⟨_, rfl⟩ := hr
          have := ih _ _ _ hb
          simp only [List.length_cons]; omega
      · split at hr
        · split at hr
          · dsimp only at hr
            split at hr
            · cases hr
            · rename_i c2 p2 hb
              simp only [Except.ok.injEq, Prod.mk.injEq] at hr
              obtain ⟨_, rfl⟩ := hr
              have := ih _ _ _ hb
              simp only [List.length_cons]; omega
          · cases hr
        · split at hr <;> cases hr

theorem sB_assignOne (j : Job) (cl : Cluster) (c c' : Ctl) (a : Asg) (p : List (Ds × Host))
    (hr : assignOne j cl c a = .ok (c', p)) :
    c'.dispatched = upd c.dispatched a.task (c.dispatched a.task + 1) ∧ c'.fetchIssued = c.fetchIssued ∧
    a.task ∈ c.computable ∧ p.length ≤ (j.inputs a.task).length := by
  unfold assignOne at hr
  split at hr; · cases hr
  split at hr; · cases hr
  rename_i hcomp
  split at hr; · cases hr
  split at hr; · cases hr
  rename_i c2 prep hb
  simp only [Except.ok.injEq, Prod.mk.injEq] at hr
  obtain ⟨rfl, rfl⟩ := hr
  have f2 := buildPrep_dispatched _ _ _ _ _ _ _ hb
  have f3 := buildPrep_fetchIssued _ _ _ _ _ _ _ hb
  exact ⟨by simp [f2], by simp [f3], by simpa using hcomp, sB_buildPrep_length _ _ _ _ _ _ _ hb⟩

theorem sB_fold_setPrep {α : Type} (g : α → Ds) (l : List α) (w : Worker) (c0 : Ctl) :
    (l.foldl (fun c p => setPreparingAt c (g p) w) c0).fetchIssued = c0.fetchIssued := by
  induction l generalizing c0 with
  | nil => rfl
  | cons x l ih => simp only [List.foldl_cons]; rw [ih]; simp

theorem sB_planOne (j : Job) (c c' : Ctl) (a : Asg) (prep : List (Ds × Host)) (h : planOne j c a prep = .ok c') :
    c'.fetchIssued = c.fetchIssued := by
  unfold planOne at h
  split at h
  · cases h
  · dsimp only at h
    split at h
    · cases h
    · simp only [Except.ok.injEq] at h
      subst h
      have h1 := sB_fold_setPrep (fun p : Ds × Host => p.1) prep a.worker c
      have h2 := sB_fold_setPrep (fun d : Ds => d) (j.outputsOf a.task) a.worker
        (prep.foldl (fun c p => setPreparingAt c p.1 a.worker) c)
      simp only at h1 h2 ⊢
      rw [h2, h1]

theorem sB_notifyEvent (j : Job) (c c' : Ctl) (ev : Event) (hr : notifyEvent j c ev = .ok c') :
    c'.fetchIssued = c.fetchIssued := by
  cases ev with
  | payload ds v =>
    simp only [notifyEvent, Except.ok.injEq] at hr
    subst hr; rfl
  | pubT hst ds =>
    simp only [notifyEvent, Except.ok.injEq] at hr
    subst hr
    simp
  | pubW w ds =>
    simp only [notifyEvent] at hr
    split at hr
    · split at hr
      · cases hr
      · rename_i c2 hc2
        have h2 := completeInputs_fetchIssued _ _ _ _ _ hc2
        split at hr
        · simp only [Except.ok.injEq] at hr; subst hr
          simp only [h2]; simp
        · cases hr
    · simp only [Except.ok.injEq] at hr; subst hr; simp

/-! ### the fetch counter -/

theorem sB_unissued_le (ext iss : List Ds) (d : Ds) : sB_unissued ext (iss ++ [d]) ≤ sB_unissued ext iss := by
  unfold sB_unissued
  induction ext with
  | nil => simp
  | cons x l ih =>
    simp only [List.filter_cons]
    by_cases h1 : iss.contains x = true
    · have h2 : (iss ++ [d]).contains x = true := by
        simp only [List.contains_iff_mem, List.mem_append] at h1 ⊢; exact Or.inl h1
      simp only [h1, h2, Bool.not_true, Bool.false_eq_true, if_false]
      exact ih
    · have h1' : iss.contains x = false := by simpa using h1
      simp only [h1', Bool.not_false, if_true, List.length_cons]
      split
      · simp only [List.length_cons]; omega
      · omega

theorem sB_unissued_lt (ext iss : List Ds) (d : Ds) (hd : d ∈ ext) (hn : d ∉ iss) :
    sB_unissued ext (iss ++ [d]) + 1 ≤ sB_unissued ext iss := by
  induction ext with
  | nil => cases hd
  | cons x l ih =>
    by_cases hx : x = d
    · subst hx
      have h1 : iss.contains x = false := by simpa using hn
      have h2 : (iss ++ [x]).contains x = true := by simp
      have h3 := sB_unissued_le l iss x
      simp only [sB_unissued, List.filter_cons, h1, h2, Bool.not_true, Bool.not_false, Bool.false_eq_true, if_false,
        if_true, List.length_cons] at h3 ⊢
      omega
    · have hmem : d ∈ l := by
        rcases List.mem_cons.mp hd with h | h
        · exact absurd h.symm hx
        · exact h
      have := ih hmem
      simp only [sB_unissued, List.filter_cons] at this ⊢
      have h2 : (iss ++ [d]).contains x = iss.contains x := by
        cases h : iss.contains x with
        | true => simp only [List.contains_iff_mem, List.mem_append] at h ⊢; exact Or.inl h
        | false =>
          have : x ∉ iss := by simpa using h
          simp [this, hx]
      rw [h2]
      split
      · simp only [List.length_cons]; omega
      · exact this

/-! ### events -/

theorem sB_takeEvents_length : ∀ (evs pend pend' : List Event), takeEvents pend evs = some pend' →
    pend'.length + evs.length = pend.length := by
  intro evs
  induction evs with
  | nil => intro pend pend' h; simp only [takeEvents, Option.some.injEq] at h; subst h; rfl
  | cons x evs ih =>
    intro pend pend' h
    simp only [takeEvents] at h
    split at h
    · rename_i hx
      have hm : x ∈ pend := by simpa using hx
      have := ih _ _ h
      rw [List.length_erase_of_mem hm] at this
      have hpos : 0 < pend.length := List.length_pos_of_mem hm
      simp only [List.length_cons]; omega
    · cases h

end EkwVerif.Ctrl
