/-
Tier S (`InvS`, scheduler bookkeeping of the extended system `Model/Sched.lean`), slice S1:
projection onto the base system, initialisation, and preservation by every BASE step
(`StepX.base st`). The auxiliary invariant `InvS1X` (SchedInvS1B.lean) that makes `InvS` inductive
is preserved by every step of the extended system (`sS1_auxX_step`), including the scheduler-only ones.

Parts: SchedInvS1A (list helpers, `planChildren`/`notifyChildren`, projection, per-constructor
description of `stepX (.base st)`), SchedInvS1B (`InvS1X`), SchedInvS1C (init, plain steps, enter,
endAssign, plan1), SchedInvS1D (notify1, assign).
-/
import EkwVerif.Lemmas.SchedInvS1D

set_option linter.unusedVariables false

namespace EkwVerif.Ctrl

/-- the base invariant holds for the base part of every reachable state of the extended system -/
theorem sS1_invAll_reachableX (f : Sem) (j : Job) (cl : Cluster) (cm : Comps) (wf : WF j cl) (x : SysX)
    (hr : ReachableX f j cl cm x) : InvAll f j cl x.sys :=
  invAll_reachable f j cl wf x.sys (sS1_reachableX_base f j cl cm x hr)

/-- **`InvS` is preserved by every base step** (given the base invariant and the auxiliary invariant) -/
theorem sS1_step_base (f : Sem) (j : Job) (cl : Cluster) (cm : Comps) (x x' : SysX) (st : Step) (wf : WF j cl)
    (wfc : WFC j cm) (hA : InvAll f j cl x.sys) (hS : InvS j cl cm x) (hX : InvS1X j cm x)
    (hs : stepX f j cl cm x (.base st) = some x') : InvS j cl cm x' := by
  have hA' : InvAll f j cl x'.sys := invAll_step f j cl x.sys x'.sys st wf hA (sS1_base_sys f j cl cm x x' st hs).2
  cases st with
  | enter => exact sS1_step_enter f j cl cm x x' hA hS hs
  | assign a => exact sS1_step_assign f j cl cm x x' a wf wfc hA hA' hS hX hs
  | endAssign => exact sS1_step_endAssign f j cl cm x x' hS hs
  | plan1 => exact sS1_step_plan1 f j cl cm x x' wf wfc hA hS hX hs
  | notify1 => exact sS1_step_notify1 f j cl cm x x' wf wfc hA hS hX hs
  | endPlan => exact sS1_step_plain f j cl cm x x' _ (by simp [sS1_plain]) hS hs
  | flushF1 => exact sS1_step_plain f j cl cm x x' _ (by simp [sS1_plain]) hS hs
  | endFlushF => exact sS1_step_plain f j cl cm x x' _ (by simp [sS1_plain]) hS hs
  | flushP1 => exact sS1_step_plain f j cl cm x x' _ (by simp [sS1_plain]) hS hs
  | endFlush => exact sS1_step_plain f j cl cm x x' _ (by simp [sS1_plain]) hS hs
  | recv evs => exact sS1_step_plain f j cl cm x x' _ (by simp [sS1_plain]) hS hs
  | endNotify => exact sS1_step_plain f j cl cm x x' _ (by simp [sS1_plain]) hS hs
  | env es => exact sS1_step_plain f j cl cm x x' _ (by simp [sS1_plain]) hS hs

/-- the invariants a base step of the extended system preserves, bundled -/
theorem sS1_step_base_all (f : Sem) (j : Job) (cl : Cluster) (cm : Comps) (x x' : SysX) (st : Step) (wf : WF j cl)
    (wfc : WFC j cm) (hA : InvAll f j cl x.sys) (hS : InvS j cl cm x) (hX : InvS1X j cm x)
    (hs : stepX f j cl cm x (.base st) = some x') :
    InvAll f j cl x'.sys ∧ InvS j cl cm x' ∧ InvS1X j cm x' :=
  ⟨invAll_step f j cl x.sys x'.sys st wf hA (sS1_base_sys f j cl cm x x' st hs).2,
    sS1_step_base f j cl cm x x' st wf wfc hA hS hX hs,
    sS1_auxX_step f j cl cm x x' (.base st) wf hA hX hs⟩

end EkwVerif.Ctrl
