/-
Helper lemmas for Props/C11.lean: `Graph.__add__` and `join_namespaced`.
-/
import EkwVerif.Lemmas.GraphExpandVal

namespace EkwVerif.Graph.Aux
open EkwVerif.Graph

theorem termOf_shift (TA accB : List Term) (n : Node) :
    termOf (TA ++ accB) (shiftNode TA.length n) = termOf accB n := by
  refine termOf_congr _ _ (shiftNode TA.length n) n rfl rfl ?_
  intro k
  show (match (shiftIns TA.length n.inputs).lookup k with
        | none => none
        | some (j, o) => match (TA ++ accB)[j]? with | none => none | some t => some (o, t)) = _
  rw [lookup_shiftIns]
  cases n.inputs.lookup k with
  | none => rfl
  | some r =>
    simp only [Option.map_some]
    rw [List.getElem?_append_right (by omega)]
    simp only [Nat.add_sub_cancel_left]
    rfl

theorem denFrom_shift (TA : List Term) (B : List Node) (accB : List Term) :
    denFrom (TA ++ accB) (B.map (shiftNode TA.length)) = TA ++ denFrom accB B := by
  induction B generalizing accB with
  | nil => rfl
  | cons n B ih =>
    simp only [List.map_cons, denFrom]
    rw [termOf_shift, List.append_assoc]
    exact ih _

/-- the terms of a sum: those of the first operand followed by those of the second -/
theorem denAll_add (A B : List Node) : denAll (A ++ B.map (shiftNode A.length)) = denAll A ++ denAll B := by
  unfold denAll
  rw [denFrom_append]
  have hlen : (denFrom [] A).length = A.length := denAll_length A
  have := denFrom_shift (denFrom [] A) B []
  rw [hlen, List.append_nil] at this
  exact this

theorem sinkDen_add (g1 g2 : Graph) (h1 : ∀ s ∈ g1.sinks, s < g1.nodes.length) :
    (addGraphs g1 g2).sinkDen = g1.sinkDen ++ g2.sinkDen := by
  simp only [Graph.sinkDen, addGraphs, List.map_append, List.map_map]
  congr 1
  · apply List.map_congr_left
    intro s hs
    simp only [den]
    rw [denAll_add, List.getElem?_append_left (by simpa using h1 s hs)]
  · apply List.map_congr_left
    intro s _
    simp only [Function.comp, den]
    rw [denAll_add]
    have : (denAll g1.nodes).length = g1.nodes.length := denAll_length _
    rw [← this, List.getElem?_append_right (by omega)]
    simp

theorem nodeOK_shift (A P : List Node) (n : Node) (hok : NodeOK P n) :
    NodeOK (A ++ P.map (shiftNode A.length)) (shiftNode A.length n) := by
  refine ⟨by simpa [shiftNode, shiftIns_keys] using hok.1, ?_⟩
  intro x hx
  simp only [shiftNode, shiftIns, List.mem_map] at hx
  obtain ⟨x0, hx0, rfl⟩ := hx
  obtain ⟨m0, hm0, ho⟩ := hok.2 x0 hx0
  refine ⟨shiftNode A.length m0, ?_, ho⟩
  simp only
  rw [List.getElem?_append_right (by omega)]
  simp [hm0]

theorem wf_add (g1 g2 : Graph) (h1 : g1.WF) (h2 : g2.WF) : (addGraphs g1 g2).WF := by
  refine ⟨?_, ?_⟩
  · show WFNodes (g1.nodes ++ g2.nodes.map (shiftNode g1.nodes.length))
    suffices h : ∀ k, k ≤ g2.nodes.length → WFNodes (g1.nodes ++ (g2.nodes.take k).map (shiftNode g1.nodes.length)) by
      have := h g2.nodes.length (Nat.le_refl _)
      rwa [List.take_length] at this
    intro k
    induction k with
    | zero => intro _; simpa using h1.nodes
    | succ k ih =>
      intro hk
      have hlt : k < g2.nodes.length := by omega
      have hget : g2.nodes[k]? = some g2.nodes[k] := List.getElem?_eq_getElem hlt
      have htake : g2.nodes.take (k + 1) = g2.nodes.take k ++ [g2.nodes[k]] := by rw [List.take_add_one, hget]; rfl
      rw [htake, List.map_append, ← List.append_assoc]
      exact (wf_snoc _ _).2 ⟨ih (by omega), nodeOK_shift g1.nodes (g2.nodes.take k) g2.nodes[k] (wf_get g2.nodes h2.nodes k _ hget)⟩
  · intro s hs
    simp only [addGraphs, List.mem_append, List.mem_map, List.length_append, List.length_map] at hs ⊢
    rcases hs with hs | ⟨s0, hs0, rfl⟩
    · have := h1.sinks s hs; omega
    · have := h2.sinks s0 hs0; omega

/-- one namespace: `rename_nodes` -/
theorem renameNs_spec (p : Name × Graph) (h : p.2.WF) :
    ∃ r, renameNs p = .ok r ∧ r.WF ∧ r.sinkDen = p.2.sinkDen ∧ r.nodes = p.2.nodes.map (renameNode (prefixed p.1)) := by
  refine ⟨_, rename_eq (prefixed p.1) p.2 h, ⟨?_, ?_⟩, ?_, rfl⟩
  · have : ∀ (pre ns : List Node), wfFrom pre ns → wfFrom (pre.map (renameNode (prefixed p.1))) (ns.map (renameNode (prefixed p.1))) := by
      intro pre ns
      induction ns generalizing pre with
      | nil => intro _; trivial
      | cons n ns ih =>
        intro hw
        obtain ⟨hn, hrest⟩ := hw
        refine ⟨?_, ?_⟩
        · exact (nodeOK_rename (prefixed p.1) pre n).2 hn
        · have := ih (pre ++ [n]) hrest
          simpa using this
    exact this [] p.2.nodes h.nodes
  · intro s hs; simpa using h.sinks s hs
  · simp [Graph.sinkDen, den_rename]

theorem join_fold (rest : List (Name × Graph)) (hrest : ∀ q ∈ rest, q.2.WF) :
    ∀ (acc : Graph), acc.WF →
      ∃ g', foldE (fun acc q => match renameNs q with | .error e => .error e | .ok r' => .ok (addGraphs acc r')) acc rest = .ok g' ∧
        g'.WF ∧ g'.sinkDen = acc.sinkDen ++ rest.flatMap (fun q => q.2.sinkDen) := by
  induction rest with
  | nil => intro acc hacc; exact ⟨acc, rfl, hacc, by simp⟩
  | cons q rest ih =>
    intro acc hacc
    obtain ⟨r, hr, hrwf, hrden, _⟩ := renameNs_spec q (hrest q (by simp))
    obtain ⟨g', hg', hwf', hden'⟩ := ih (fun q' hq' => hrest q' (by simp [hq'])) (addGraphs acc r) (wf_add acc r hacc hrwf)
    refine ⟨g', by simp only [foldE, hr]; exact hg', hwf', ?_⟩
    rw [hden', sinkDen_add acc r hacc.sinks, hrden]
    simp

end EkwVerif.Graph.Aux
