/-
Helper lemmas for C06: the invariant of the acknowledged-send model and its preservation by
every step (adversary unrestricted). No property theorem lives here.
-/
import EkwVerif.Model.Ack

namespace EkwVerif.Ack
open EkwVerif.Frames

/-! ### the two wire shapes of an acknowledged message (`dataFrames`, `bodyOf`) -/

theorem bodyOf_inj {m m' : Nat} (h : bodyOf m = bodyOf m') : m = m' := (parsedBody_inj h).2

theorem bodyOf_ne_ack (m i : Nat) : bodyOf m ≠ Parsed.msg (Msg.ack i) := parsedBody_ne_ack _ _ _

@[simp] theorem isAck_bodyOf (sy : Option SynId) (m : Nat) : (⟨sy, bodyOf m⟩ : Delivery).isAck = false := by
  simp only [bodyOf]; cases shapeOf m <;> rfl

theorem shapeOf_plain {m : Nat} (h : m < dataBase) : shapeOf m = .plain := by
  simp only [shapeOf]; rw [if_neg (by omega)]
theorem shapeOf_data {m : Nat} (h : dataBase ≤ m) : shapeOf m = .data := by
  simp only [shapeOf]; rw [if_pos h]

/-- an ordinary message is returned as itself -/
theorem bodyOf_plain {m : Nat} (h : m < dataBase) : bodyOf m = Parsed.msg (Msg.app m) := by
  simp only [bodyOf, shapeOf_plain h, parsedBody]
/-- a DatasetTransmitPayload is returned as header + value -/
theorem bodyOf_data {m : Nat} (h : dataBase ≤ m) : bodyOf m = Parsed.payload m (Frame.msg (Msg.app m)) := by
  simp only [bodyOf, shapeOf_data h, parsedBody]
theorem dataFrames_plain (i a : Nat) {m : Nat} (h : m < dataBase) :
    dataFrames i a m = [Frame.syn i a, Frame.msg (Msg.app m)] := by
  simp only [dataFrames, bodyFrames, shapeOf_plain h, wireBody]
theorem dataFrames_data (i a : Nat) {m : Nat} (h : dataBase ≤ m) :
    dataFrames i a m = [Frame.syn i a, Frame.hdr m, Frame.msg (Msg.app m)] := by
  simp only [dataFrames, bodyFrames, shapeOf_data h, wireBody]

theorem dataFrames_inj {i a m i' a' m' : Nat} (h : dataFrames i a m = dataFrames i' a' m') :
    i = i' ∧ a = a' ∧ m = m' := by
  simp only [dataFrames, bodyFrames, List.cons.injEq, Frame.syn.injEq] at h
  exact ⟨h.1.1, h.1.2, (wireBody_inj h.2).2⟩

theorem dataFrames_ne_ack (i a m j : Nat) : dataFrames i a m ≠ ackFrames j := by
  simp [dataFrames, ackFrames]

theorem dataFrames_ne_local (i a m m' : Nat) : dataFrames i a m ≠ [Frame.msg (Msg.app m')] := by
  simp [dataFrames]

/-- `_recv_one` on a genuine acknowledged message, whatever its shape (closed form): always the
Ack; a Syn seen before: nothing returned, nothing recorded; else recorded and returned -/
theorem recvOne_dataFrames (acked : Nat → Nat → Bool) (i a m : Nat) :
    recvOne acked (dataFrames i a m) =
      if acked i a then { ack := some (a, i), res := .ok none }
      else { ack := some (a, i), mark := some (i, a), res := .ok (some (bodyOf m)) } :=
  recvOne_syn_wireBody acked i a (shapeOf m) m

/-- What may be on the wire / in a receive queue addressed to `dst`. -/
def PktOk (s : Sys) (dst : Nat) (fs : List Frame) : Prop :=
  (∃ a i m h, fs = dataFrames i a m ∧ (s.ep a).log i = some (h, m) ∧ (s.ep a).hosts0 h = some dst)
  ∨ (∃ i b, fs = ackFrames i ∧ (s.ep b).acked i dst = true)
  ∨ (∃ m, fs = [Frame.msg (Msg.app m)])

structure Inv (s : Sys) : Prop where
  max_pos : 1 ≤ s.maxRetries
  wire_net : ∀ p ∈ s.net, PktOk s p.dst p.frames
  wire_inbox : ∀ b fs, fs ∈ (s.ep b).inbox → PktOk s b fs
  del_ok : ∀ b d i a, d ∈ (s.ep b).delivered → d.syn = some (i, a) →
    (∃ h m, (s.ep a).log i = some (h, m) ∧ (s.ep a).hosts0 h = some b ∧ d.body = bodyOf m)
      ∧ (s.ep b).acked i a = true
  del_nodup : ∀ b, ((s.ep b).delivered.filterMap (·.syn)).Nodup
  acked_del : ∀ b i a, (s.ep b).acked i a = true → ∃ d ∈ (s.ep b).delivered, d.syn = some (i, a)
  infl : ∀ a i, i < (s.ep a).idx → ((s.ep a).inflight i).isSome ∨
    ∃ h m b, (s.ep a).log i = some (h, m) ∧ (s.ep a).hosts0 h = some b ∧ (s.ep b).acked i a = true
  log_lt : ∀ a i v, (s.ep a).log i = some v → i < (s.ep a).idx
  infl_rec : ∀ a i r, (s.ep a).inflight i = some r → i < (s.ep a).idx → (s.ep a).log i = some (r.host, r.msg)
  ghost : ∀ a i r, (s.ep a).inflight i = some r → (s.ep a).idx ≤ i → (s.ep a).hosts r.host = none
  hosts_mono : ∀ a h, (s.ep a).hosts h = none ∨ (s.ep a).hosts h = (s.ep a).hosts0 h
  budget : ∀ a i r, (s.ep a).inflight i = some r → i < (s.ep a).idx →
    ((s.ep a).sends i : Int) + r.remaining = (s.maxRetries : Int) + 1
  exhausted : ∀ a i r, (s.ep a).inflight i = some r → i < (s.ep a).idx → r.remaining ≤ 0 → (s.ep a).raised = true
  over : ∀ a i, s.maxRetries < (s.ep a).sends i → (s.ep a).raised = true
  sent_le : ∀ a i r, (s.ep a).inflight i = some r → r.sentAt ≤ (s.ep a).now
  sends_pos : ∀ a i, i < (s.ep a).idx → 1 ≤ (s.ep a).sends i
  batch_ok : ∀ a d i, d ∈ (s.ep a).batch → d.body = Parsed.msg (Msg.ack i) →
    ∃ c, (s.ep c).acked i a = true

/-- monotone part of the state that `PktOk` and friends depend on -/
structure Mono (s s' : Sys) : Prop where
  log : ∀ a i v, (s.ep a).log i = some v → (s'.ep a).log i = some v
  hosts0 : ∀ a, (s'.ep a).hosts0 = (s.ep a).hosts0
  acked : ∀ b i a, (s.ep b).acked i a = true → (s'.ep b).acked i a = true

theorem PktOk.mono {s s' : Sys} (h : Mono s s') {dst : Nat} {fs : List Frame} (hp : PktOk s dst fs) :
    PktOk s' dst fs := by
  rcases hp with ⟨a, i, m, hh, rfl, hl, h0⟩ | ⟨i, b, rfl, ha⟩ | ⟨m, rfl⟩
  · exact Or.inl ⟨a, i, m, hh, rfl, h.log _ _ _ hl, by rw [h.hosts0]; exact h0⟩
  · exact Or.inr (Or.inl ⟨i, b, rfl, h.acked _ _ _ ha⟩)
  · exact Or.inr (Or.inr ⟨m, rfl⟩)

@[simp] theorem setEp_ep (s : Sys) (a : Nat) (e : Endpoint) (b : Nat) :
    (setEp s a e).ep b = if b = a then e else s.ep b := rfl
@[simp] theorem setEp_net (s : Sys) (a : Nat) (e : Endpoint) : (setEp s a e).net = s.net := rfl
@[simp] theorem setEp_max (s : Sys) (a : Nat) (e : Endpoint) : (setEp s a e).maxRetries = s.maxRetries := rfl

theorem init_inv (maxRetries : Nat) (cfg : Nat → Nat × (Nat → Option Nat)) (h : 1 ≤ maxRetries) :
    Inv (init maxRetries cfg) := by
  constructor <;> simp [init, mkEndpoint, h]

/-! ### normal forms of the steps: `(step s).ep b = { s.ep b with <changed fields> }` -/

theorem tick_ep (s : Sys) (a dt b : Nat) :
    (tick s a dt).ep b = { s.ep b with now := (s.ep b).now + if b = a then dt else 0 } := by
  simp only [tick, setEp_ep]; split <;> simp_all
@[simp] theorem tick_net (s : Sys) (a dt : Nat) : (tick s a dt).net = s.net := rfl
@[simp] theorem tick_max (s : Sys) (a dt : Nat) : (tick s a dt).maxRetries = s.maxRetries := rfl

theorem popHost_ep (s : Sys) (a h0 b : Nat) :
    (popHost s a h0).ep b =
      { s.ep b with hosts := fun h => if b = a ∧ h = h0 then none else (s.ep b).hosts h } := by
  simp only [popHost, setEp_ep]; split
  · subst_vars; simp; rfl
  · simp_all
@[simp] theorem popHost_net (s : Sys) (a h : Nat) : (popHost s a h).net = s.net := rfl
@[simp] theorem popHost_max (s : Sys) (a h : Nat) : (popHost s a h).maxRetries = s.maxRetries := rfl

theorem localMsg_ep (s : Sys) (a m b : Nat) :
    (localMsg s a m).ep b =
      { s.ep b with inbox := if b = a then (s.ep b).inbox ++ [[Frame.msg (Msg.app m)]] else (s.ep b).inbox
                    locals := if b = a then (s.ep b).locals ++ [m] else (s.ep b).locals } := by
  simp only [localMsg, setEp_ep]; split <;> simp_all
@[simp] theorem localMsg_net (s : Sys) (a m : Nat) : (localMsg s a m).net = s.net := rfl
@[simp] theorem localMsg_max (s : Sys) (a m : Nat) : (localMsg s a m).maxRetries = s.maxRetries := rfl

theorem arrive_ep (s : Sys) (p : Packet) (b : Nat) :
    (arrive s p).ep b =
      { s.ep b with inbox := if b = p.dst then (s.ep b).inbox ++ [p.frames] else (s.ep b).inbox } := by
  simp only [arrive, setEp_ep]; split <;> simp_all
@[simp] theorem arrive_net (s : Sys) (p : Packet) : (arrive s p).net = s.net := rfl
@[simp] theorem arrive_max (s : Sys) (p : Packet) : (arrive s p).maxRetries = s.maxRetries := rfl

theorem tick_inv {s : Sys} (h : Inv s) (a dt : Nat) : Inv (tick s a dt) := by
  obtain ⟨h1, h2, h3, h4, h5, h6, h7, h8, h9, h10, h11, h12, h13, h14, h15, h16, h17⟩ := h
  constructor <;> simp only [tick_ep, tick_net, tick_max, PktOk]
  · exact h1
  · exact h2
  · exact h3
  · exact h4
  · exact h5
  · exact h6
  · exact h7
  · exact h8
  · exact h9
  · exact h10
  · exact h11
  · exact h12
  · exact h13
  · exact h14
  · intro b i r hr; have := h15 b i r hr; omega
  · exact h16
  · exact h17

theorem popHost_inv {s : Sys} (h : Inv s) (a h0 : Nat) : Inv (popHost s a h0) := by
  obtain ⟨h1, h2, h3, h4, h5, h6, h7, h8, h9, h10, h11, h12, h13, h14, h15, h16, h17⟩ := h
  constructor <;> simp only [popHost_ep, popHost_net, popHost_max, PktOk]
  · exact h1
  · exact h2
  · exact h3
  · exact h4
  · exact h5
  · exact h6
  · exact h7
  · exact h8
  · exact h9
  · intro b i r hr hi; split
    · rfl
    · exact h10 b i r hr hi
  · intro b h; split
    · exact Or.inl rfl
    · exact h11 b h
  · exact h12
  · exact h13
  · exact h14
  · exact h15
  · exact h16
  · exact h17

theorem localMsg_inv {s : Sys} (h : Inv s) (a m : Nat) : Inv (localMsg s a m) := by
  obtain ⟨h1, h2, h3, h4, h5, h6, h7, h8, h9, h10, h11, h12, h13, h14, h15, h16, h17⟩ := h
  constructor <;> simp only [localMsg_ep, localMsg_net, localMsg_max, PktOk]
  · exact h1
  · exact h2
  · intro b fs hfs
    split at hfs
    · rcases List.mem_append.mp hfs with hfs | hfs
      · exact h3 b fs hfs
      · simp at hfs; exact Or.inr (Or.inr ⟨m, hfs⟩)
    · exact h3 b fs hfs
  · exact h4
  · exact h5
  · exact h6
  · exact h7
  · exact h8
  · exact h9
  · exact h10
  · exact h11
  · exact h12
  · exact h13
  · exact h14
  · exact h15
  · exact h16
  · exact h17

theorem drop_inv {s : Sys} (h : Inv s) (k : Nat) : Inv (drop s k) := by
  obtain ⟨h1, h2, h3, h4, h5, h6, h7, h8, h9, h10, h11, h12, h13, h14, h15, h16, h17⟩ := h
  constructor <;> simp only [drop, PktOk]
  · exact h1
  · intro p hp; exact h2 p (List.mem_of_mem_eraseIdx hp)
  · exact h3
  · exact h4
  · exact h5
  · exact h6
  · exact h7
  · exact h8
  · exact h9
  · exact h10
  · exact h11
  · exact h12
  · exact h13
  · exact h14
  · exact h15
  · exact h16
  · exact h17

theorem arrive_inv {s : Sys} (h : Inv s) (p : Packet) (hp : PktOk s p.dst p.frames) : Inv (arrive s p) := by
  obtain ⟨h1, h2, h3, h4, h5, h6, h7, h8, h9, h10, h11, h12, h13, h14, h15, h16, h17⟩ := h
  simp only [PktOk] at hp
  constructor <;> simp only [arrive_ep, arrive_net, arrive_max, PktOk]
  · exact h1
  · exact h2
  · intro b fs hfs
    split at hfs
    · rcases List.mem_append.mp hfs with hfs | hfs
      · exact h3 b fs hfs
      · simp at hfs; subst_vars; exact hp
    · exact h3 b fs hfs
  · exact h4
  · exact h5
  · exact h6
  · exact h7
  · exact h8
  · exact h9
  · exact h10
  · exact h11
  · exact h12
  · exact h13
  · exact h14
  · exact h15
  · exact h16
  · exact h17

theorem deliver_inv {s : Sys} (h : Inv s) (k : Nat) : Inv (deliver s k) := by
  unfold deliver
  split
  · exact h
  · rename_i p hp
    have hmem : p ∈ s.net := List.mem_of_getElem? hp
    have hok := h.wire_net p hmem
    exact arrive_inv (s := { s with net := s.net.eraseIdx k }) (drop_inv h k) p hok

theorem dup_inv {s : Sys} (h : Inv s) (k : Nat) : Inv (dup s k) := by
  unfold dup
  split
  · exact h
  · rename_i p hp
    exact arrive_inv h p (h.wire_net p (List.mem_of_getElem? hp))

theorem send_none_ep {s : Sys} {a h : Nat} (m : Nat) (hh : (s.ep a).hosts h = none) (b : Nat) :
    (send s a h m).ep b = { s.ep b with
      inflight := fun j => if b = a ∧ j = (s.ep a).idx
        then some ⟨h, m, (s.ep a).now, s.maxRetries⟩ else (s.ep b).inflight j } := by
  simp only [send, hh, setEp_ep]; split
  · subst_vars; simp; rfl
  · simp_all
theorem send_none_net {s : Sys} {a h : Nat} (m : Nat) (hh : (s.ep a).hosts h = none) :
    (send s a h m).net = s.net := by simp [send, hh]
@[simp] theorem send_max (s : Sys) (a h m : Nat) : (send s a h m).maxRetries = s.maxRetries := by
  cases hh : (s.ep a).hosts h <;> simp [send, hh]

theorem send_some_ep {s : Sys} {a h d : Nat} (m : Nat) (hh : (s.ep a).hosts h = some d) (b : Nat) :
    (send s a h m).ep b = { s.ep b with
      inflight := fun j => if b = a ∧ j = (s.ep a).idx
        then some ⟨h, m, (s.ep a).now, s.maxRetries⟩ else (s.ep b).inflight j
      idx := if b = a then (s.ep b).idx + 1 else (s.ep b).idx
      log := fun j => if b = a ∧ j = (s.ep a).idx then some (h, m) else (s.ep b).log j
      sends := fun j => if b = a ∧ j = (s.ep a).idx then 1 else (s.ep b).sends j } := by
  simp only [send, hh, setEp_ep]; split
  · subst_vars; simp; refine ⟨rfl, rfl, rfl⟩
  · simp_all
theorem send_some_net {s : Sys} {a h d : Nat} (m : Nat) (hh : (s.ep a).hosts h = some d) :
    (send s a h m).net = s.net ++ [⟨d, dataFrames (s.ep a).idx a m⟩] := by simp [send, hh]

theorem send_inv {s : Sys} (hi : Inv s) (a h m : Nat) : Inv (send s a h m) := by
  obtain ⟨h1, h2, h3, h4, h5, h6, h7, h8, h9, h10, h11, h12, h13, h14, h15, h16, h17⟩ := hi
  cases hh : (s.ep a).hosts h with
  | none =>
    constructor <;> simp only [send_none_ep m hh, send_none_net m hh, send_max, PktOk]
    · exact h1
    · exact h2
    · exact h3
    · exact h4
    · exact h5
    · exact h6
    · intro b i hi; have := h7 b i hi; grind
    · exact h8
    · intro b i r hr hi; grind
    · intro b i r hr hi; grind
    · exact h11
    · intro b i r hr hi; grind
    · intro b i r hr hi; grind
    · exact h14
    · intro b i r hr; grind
    · exact h16
    · exact h17
  | some d =>
    have hd0 : (s.ep a).hosts0 h = some d := by have := h11 a h; grind
    have hlognone : (s.ep a).log (s.ep a).idx = none := by
      cases hl : (s.ep a).log (s.ep a).idx with
      | none => rfl
      | some v => have := h8 a _ v hl; omega
    constructor <;> simp only [send_some_ep m hh, send_some_net m hh, send_max, PktOk]
    · exact h1
    · intro p hp
      rcases List.mem_append.mp hp with hp | hp
      · have := h2 p hp; simp only [PktOk] at this; grind
      · simp at hp; subst hp; left; exact ⟨a, (s.ep a).idx, m, h, rfl, by simp, by simpa using hd0⟩
    · intro b fs hfs; have := h3 b fs hfs; simp only [PktOk] at this; grind
    · intro b d' i a' hd' hs; have := h4 b d' i a' hd' hs; grind
    · exact h5
    · exact h6
    · intro b i hi; grind
    · intro b i v hv; grind
    · intro b i r hr hi; grind
    · intro b i r hr hi; grind
    · exact h11
    · intro b i r hr hi; grind
    · intro b i r hr hi; grind
    · intro b i hi; grind
    · intro b i r hr; grind
    · intro b i hi; grind
    · exact h17


/-- the retry of idx `i` at `a` actually retransmits -/
def Fires (s : Sys) (a i : Nat) (r : Rec) (d : Nat) : Prop :=
  (s.ep a).inflight i = some r ∧ r.sentAt + (s.ep a).grace < (s.ep a).now ∧ (s.ep a).hosts r.host = some d

theorem retryOne_cases (s : Sys) (a i : Nat) :
    retryOne s a i = (s, false) ∨ ∃ r d, Fires s a i r d := by
  cases hr : (s.ep a).inflight i with
  | none => left; simp [retryOne, hr]
  | some r =>
    by_cases hexp : r.sentAt + (s.ep a).grace < (s.ep a).now
    · cases hh : (s.ep a).hosts r.host with
      | none => left; simp [retryOne, hr, hexp, hh]
      | some d => right; exact ⟨r, d, hr, hexp, hh⟩
    · left; simp [retryOne, hr, hexp]

theorem retryOne_fire_ep {s : Sys} {a i : Nat} {r : Rec} {d : Nat} (hf : Fires s a i r d) (b : Nat) :
    (retryOne s a i).1.ep b = { s.ep b with
      inflight := fun j => if b = a ∧ j = i
        then some { r with sentAt := (s.ep a).now, remaining := r.remaining - 1 } else (s.ep b).inflight j
      sends := fun j => if b = a ∧ j = i then (s.ep a).sends i + 1 else (s.ep b).sends j
      raised := if b = a then ((s.ep a).raised || decide (r.remaining - 1 ≤ 0)) else (s.ep b).raised } := by
  obtain ⟨h1, h2, h3⟩ := hf
  simp only [retryOne, h1, h2, h3, if_true, setEp_ep]; split
  · subst_vars; simp; refine ⟨rfl, rfl⟩
  · simp_all
theorem retryOne_fire_net {s : Sys} {a i : Nat} {r : Rec} {d : Nat} (hf : Fires s a i r d) :
    (retryOne s a i).1.net = s.net ++ [⟨d, dataFrames i a r.msg⟩] := by
  obtain ⟨h1, h2, h3⟩ := hf
  simp [retryOne, h1, h2, h3]
theorem retryOne_fire_raise {s : Sys} {a i : Nat} {r : Rec} {d : Nat} (hf : Fires s a i r d) :
    (retryOne s a i).2 = decide (r.remaining - 1 ≤ 0) := by
  obtain ⟨h1, h2, h3⟩ := hf
  simp [retryOne, h1, h2, h3]
@[simp] theorem retryOne_max (s : Sys) (a i : Nat) : (retryOne s a i).1.maxRetries = s.maxRetries := by
  rcases retryOne_cases s a i with h | ⟨r, d, h1, h2, h3⟩
  · rw [h]
  · simp [retryOne, h1, h2, h3]

theorem retryOne_inv {s : Sys} (hi : Inv s) (a i : Nat) : Inv (retryOne s a i).1 := by
  rcases retryOne_cases s a i with h | ⟨r, d, hf⟩
  · rw [h]; exact hi
  · obtain ⟨h1, h2, h3, h4, h5, h6, h7, h8, h9, h10, h11, h12, h13, h14, h15, h16, h17⟩ := hi
    have hf' := hf
    obtain ⟨hr, hexp, hh⟩ := hf'
    have hlt : i < (s.ep a).idx := by
      rcases Nat.lt_or_ge i (s.ep a).idx with h | h
      · exact h
      · have := h10 a i r hr h; simp [this] at hh
    have hlog := h9 a i r hr hlt
    have hd0 : (s.ep a).hosts0 r.host = some d := by have := h11 a r.host; grind
    have hbud := h12 a i r hr hlt
    constructor <;> simp only [retryOne_fire_ep hf, retryOne_fire_net hf, retryOne_max, PktOk]
    · exact h1
    · intro p hp
      rcases List.mem_append.mp hp with hp | hp
      · exact h2 p hp
      · simp at hp; subst hp; left; exact ⟨a, i, r.msg, r.host, rfl, hlog, hd0⟩
    · exact h3
    · exact h4
    · exact h5
    · exact h6
    · intro b j hj; have := h7 b j hj; grind
    · exact h8
    · intro b j r' hr' hj; grind
    · intro b j r' hr' hj; grind
    · exact h11
    · intro b j r' hr' hj; grind
    · intro b j r' hr' hj; grind
    · intro b j hj; grind
    · intro b j r' hr'; grind
    · intro b j hj; grind
    · exact h17

theorem retryList_inv {s : Sys} (hi : Inv s) (a : Nat) (l : List Nat) : Inv (retryList s a l) := by
  induction l generalizing s with
  | nil => exact hi
  | cons i is ih =>
    simp only [retryList]
    split
    · exact retryOne_inv hi a i
    · exact ih (retryOne_inv hi a i)

theorem retry_inv {s : Sys} (hi : Inv s) (a : Nat) : Inv (retry s a) := retryList_inv hi a _


theorem collect_empty {s : Sys} {b : Nat} (hin : (s.ep b).inbox = []) : collect s b = s := by
  simp [collect, hin]

theorem collect_data_dup_ep {s : Sys} {b i a m : Nat} {rest : List (List Frame)}
    (hin : (s.ep b).inbox = dataFrames i a m :: rest) (hack : (s.ep b).acked i a = true) (c : Nat) :
    (collect s b).ep c = { s.ep c with inbox := if c = b then rest else (s.ep c).inbox } := by
  simp only [collect, hin, recvOne_dataFrames, hack, if_true, setEp_ep]; split <;> simp_all
theorem collect_data_net {s : Sys} {b i a m : Nat} {rest : List (List Frame)}
    (hin : (s.ep b).inbox = dataFrames i a m :: rest) :
    (collect s b).net = s.net ++ [⟨a, ackFrames i⟩] := by
  cases hack : (s.ep b).acked i a <;> simp [collect, hin, recvOne_dataFrames, hack]

theorem collect_data_new_ep {s : Sys} {b i a m : Nat} {rest : List (List Frame)}
    (hin : (s.ep b).inbox = dataFrames i a m :: rest) (hack : (s.ep b).acked i a = false) (c : Nat) :
    (collect s b).ep c = { s.ep c with
        inbox := if c = b then rest else (s.ep c).inbox
        acked := fun i' a' => if c = b ∧ i' = i ∧ a' = a then true else (s.ep c).acked i' a'
        delivered := if c = b then (s.ep c).delivered ++ [⟨some (i, a), bodyOf m⟩]
                     else (s.ep c).delivered
        batch := if c = b then (s.ep c).batch ++ [⟨some (i, a), bodyOf m⟩]
                 else (s.ep c).batch } := by
  simp only [collect, hin, recvOne_dataFrames, hack, setEp_ep]
  split
  · subst_vars; simp
  · simp_all

theorem collect_ack_ep {s : Sys} {b i : Nat} {rest : List (List Frame)}
    (hin : (s.ep b).inbox = ackFrames i :: rest) (c : Nat) :
    (collect s b).ep c = { s.ep c with
        inbox := if c = b then rest else (s.ep c).inbox
        batch := if c = b then (s.ep c).batch ++ [⟨none, Parsed.msg (Msg.ack i)⟩] else (s.ep c).batch } := by
  simp only [collect, hin, recvOne, ackFrames, parseBody, Except.map, Delivery.isAck, setEp_ep]
  split
  · subst_vars; simp
  · simp_all
theorem collect_ack_net {s : Sys} {b i : Nat} {rest : List (List Frame)}
    (hin : (s.ep b).inbox = ackFrames i :: rest) : (collect s b).net = s.net := by
  simp [collect, hin, recvOne, ackFrames, parseBody, Except.map]

theorem collect_local_ep {s : Sys} {b m : Nat} {rest : List (List Frame)}
    (hin : (s.ep b).inbox = [Frame.msg (Msg.app m)] :: rest) (c : Nat) :
    (collect s b).ep c = { s.ep c with
        inbox := if c = b then rest else (s.ep c).inbox
        delivered := if c = b then (s.ep c).delivered ++ [⟨none, Parsed.msg (Msg.app m)⟩]
                     else (s.ep c).delivered
        batch := if c = b then (s.ep c).batch ++ [⟨none, Parsed.msg (Msg.app m)⟩] else (s.ep c).batch } := by
  simp only [collect, hin, recvOne, parseBody, Except.map, Delivery.isAck, setEp_ep]
  split
  · subst_vars; simp
  · simp_all
theorem collect_local_net {s : Sys} {b m : Nat} {rest : List (List Frame)}
    (hin : (s.ep b).inbox = [Frame.msg (Msg.app m)] :: rest) : (collect s b).net = s.net := by
  simp [collect, hin, recvOne, parseBody, Except.map]

@[simp] theorem collect_max (s : Sys) (b : Nat) : (collect s b).maxRetries = s.maxRetries := by
  cases hin : (s.ep b).inbox <;> simp [collect, hin]

/-! `process`, `commit`, `abort` -/

theorem setEp_self (s : Sys) (a : Nat) : setEp s a (s.ep a) = s := by
  cases s with
  | mk ep net mx =>
    simp only [setEp]
    congr 1
    funext j
    simp only [upd]
    split
    · subst_vars; rfl
    · rfl

theorem process_empty {s : Sys} {a : Nat} (feeds stage : Bool) (hb : (s.ep a).batch = []) :
    process s a feeds stage = s := by
  simp only [process, processEp, hb]; exact setEp_self s a

theorem process_ack_ep {s : Sys} {a i : Nat} {sy : Option SynId} {rest : List Delivery} (feeds stage : Bool)
    (hb : (s.ep a).batch = ⟨sy, Parsed.msg (Msg.ack i)⟩ :: rest) (c : Nat) :
    (process s a feeds stage).ep c = { s.ep c with
        batch := if c = a then rest else (s.ep c).batch
        inflight := fun j => if c = a ∧ feeds = true ∧ j = i then none else (s.ep c).inflight j } := by
  cases feeds <;>
    simp only [process, processEp, hb, senderAck, setEp_ep] <;>
    split <;> rename_i hc <;> first | (subst hc; simp; try rfl) | simp [hc]

theorem process_msg_ep {s : Sys} {a : Nat} {d : Delivery} {rest : List Delivery} (feeds stage : Bool)
    (hb : (s.ep a).batch = d :: rest) (hd : d.isAck = false) (c : Nat) :
    (process s a feeds stage).ep c = { s.ep c with
        batch := if c = a then rest else (s.ep c).batch
        staged := if c = a ∧ stage = true then (s.ep c).staged ++ [d] else (s.ep c).staged
        handled := if c = a ∧ stage = false then (s.ep c).handled ++ [d] else (s.ep c).handled } := by
  obtain ⟨sy, body⟩ := d
  cases body with
  | msg m =>
    cases m with
    | ack i => simp [Delivery.isAck] at hd
    | app m =>
      cases stage <;> simp only [process, processEp, hb, setEp_ep] <;> split <;> rename_i hc <;>
        first | (subst hc; simp) | simp [hc]
  | payload h v =>
    cases stage <;> simp only [process, processEp, hb, setEp_ep] <;> split <;> rename_i hc <;>
      first | (subst hc; simp) | simp [hc]

@[simp] theorem process_net (s : Sys) (a : Nat) (feeds stage : Bool) : (process s a feeds stage).net = s.net := rfl
@[simp] theorem process_max (s : Sys) (a : Nat) (feeds stage : Bool) :
    (process s a feeds stage).maxRetries = s.maxRetries := rfl

theorem commit_ep (s : Sys) (a c : Nat) :
    (commit s a).ep c = { s.ep c with
        handled := if c = a then (s.ep c).handled ++ (s.ep c).staged else (s.ep c).handled
        staged := if c = a then [] else (s.ep c).staged } := by
  simp only [commit, setEp_ep]; split <;> simp_all
@[simp] theorem commit_net (s : Sys) (a : Nat) : (commit s a).net = s.net := rfl
@[simp] theorem commit_max (s : Sys) (a : Nat) : (commit s a).maxRetries = s.maxRetries := rfl

theorem abort_ep (s : Sys) (a c : Nat) :
    (abort s a).ep c = { s.ep c with
        lost := if c = a then (s.ep c).lost ++ (s.ep c).staged ++ payloads (s.ep c).batch else (s.ep c).lost
        batch := if c = a then [] else (s.ep c).batch
        staged := if c = a then [] else (s.ep c).staged
        aborts := if c = a then (s.ep c).aborts + 1 else (s.ep c).aborts } := by
  simp only [abort, abortEp, setEp_ep]; split <;> simp_all
@[simp] theorem abort_net (s : Sys) (a : Nat) : (abort s a).net = s.net := rfl
@[simp] theorem abort_max (s : Sys) (a : Nat) : (abort s a).maxRetries = s.maxRetries := rfl

theorem collect_inv {s : Sys} (hi : Inv s) (b : Nat) : Inv (collect s b) := by
  cases hin : (s.ep b).inbox with
  | nil => rw [collect_empty hin]; exact hi
  | cons fs rest =>
    have hok := hi.wire_inbox b fs (by simp [hin])
    obtain ⟨h1, h2, h3, h4, h5, h6, h7, h8, h9, h10, h11, h12, h13, h14, h15, h16, h17⟩ := hi
    have hrest : ∀ gs, gs ∈ rest → gs ∈ (s.ep b).inbox := by intro gs hg; simp [hin, hg]
    rcases hok with ⟨a, i, m, h, rfl, hl, h0⟩ | ⟨i, c, rfl, hc⟩ | ⟨m, rfl⟩
    · -- data frame
      cases hack : (s.ep b).acked i a with
      | true =>
        constructor <;> simp only [collect_data_dup_ep hin hack, collect_data_net hin, collect_max, PktOk]
        · exact h1
        · intro p hp
          rcases List.mem_append.mp hp with hp | hp
          · exact h2 p hp
          · simp at hp; subst hp; right; left; exact ⟨i, b, rfl, hack⟩
        · intro c gs hg; split at hg
          · subst_vars; exact h3 _ gs (hrest gs hg)
          · exact h3 c gs hg
        · exact h4
        · exact h5
        · exact h6
        · exact h7
        · exact h8
        · exact h9
        · exact h10
        · exact h11
        · exact h12
        · exact h13
        · exact h14
        · exact h15
        · exact h16
        · exact h17
      | false =>
        have hfresh : ∀ d ∈ (s.ep b).delivered, d.syn ≠ some (i, a) := by
          intro d hd hs; have := (h4 b d i a hd hs).2; simp [hack] at this
        constructor <;> simp only [collect_data_new_ep hin hack, collect_data_net hin, collect_max, PktOk]
        · exact h1
        · intro p hp
          rcases List.mem_append.mp hp with hp | hp
          · have := h2 p hp; simp only [PktOk] at this; grind
          · simp at hp; subst hp; right; left; exact ⟨i, b, rfl, by simp⟩
        · intro c gs hg
          have : gs ∈ (s.ep c).inbox := by
            split at hg
            · subst_vars; exact hrest gs hg
            · exact hg
          have := h3 c gs this; simp only [PktOk] at this; grind
        · intro c d i' a' hd hs
          split at hd
          · subst_vars
            rcases List.mem_append.mp hd with hd | hd
            · have := h4 _ d i' a' hd hs; grind
            · simp at hd; subst hd; simp at hs; obtain ⟨rfl, rfl⟩ := hs
              exact ⟨⟨h, m, hl, h0, rfl⟩, by simp⟩
          · have := h4 c d i' a' hd hs; grind
        · intro c; split
          · subst_vars
            rw [List.filterMap_append, List.nodup_append]
            refine ⟨h5 _, by simp, ?_⟩
            intro x hx y hy
            simp at hy; subst hy
            simp only [List.mem_filterMap] at hx
            obtain ⟨d, hd, hs⟩ := hx
            intro heq; subst heq; exact hfresh d hd hs
          · exact h5 c
        · intro c i' a' hacked
          split
          · subst_vars
            by_cases he : i' = i ∧ a' = a
            · obtain ⟨rfl, rfl⟩ := he
              exact ⟨_, List.mem_append_right _ (List.mem_singleton.mpr rfl), rfl⟩
            · simp only [true_and, he, if_false] at hacked
              obtain ⟨d, hd, hs⟩ := h6 _ i' a' hacked
              exact ⟨d, List.mem_append_left _ hd, hs⟩
          · rename_i hne
            simp only [hne, false_and, if_false] at hacked
            exact h6 c i' a' hacked
        · intro c j hj; have := h7 c j hj; grind
        · exact h8
        · exact h9
        · exact h10
        · exact h11
        · exact h12
        · exact h13
        · exact h14
        · exact h15
        · exact h16
        · intro c d i' hd hb
          have hold : d ∈ (s.ep c).batch := by
            split at hd
            · rcases List.mem_append.mp hd with hd | hd
              · exact hd
              · simp at hd; subst hd; exact absurd hb (bodyOf_ne_ack _ _)
            · exact hd
          obtain ⟨c', hc'⟩ := h17 c d i' hold hb
          exact ⟨c', by grind⟩
    · -- ack frame: some listener c has (i, b) in its acked set; the Ack joins the batch
      constructor <;> simp only [collect_ack_ep hin, collect_ack_net hin, collect_max, PktOk]
      · exact h1
      · exact h2
      · intro c' gs hg; split at hg
        · subst_vars; exact h3 _ gs (hrest gs hg)
        · exact h3 c' gs hg
      · exact h4
      · exact h5
      · exact h6
      · exact h7
      · exact h8
      · exact h9
      · exact h10
      · exact h11
      · exact h12
      · exact h13
      · exact h14
      · exact h15
      · exact h16
      · intro c' d i' hd hb
        split at hd
        · subst_vars
          rcases List.mem_append.mp hd with hd | hd
          · exact h17 _ d i' hd hb
          · simp at hd; subst hd; simp at hb; subst hb; exact ⟨c, hc⟩
        · exact h17 c' d i' hd hb
    · -- local un-acknowledged message
      constructor <;> simp only [collect_local_ep hin, collect_local_net hin, collect_max, PktOk]
      · exact h1
      · exact h2
      · intro c gs hg; split at hg
        · subst_vars; exact h3 _ gs (hrest gs hg)
        · exact h3 c gs hg
      · intro c d i' a' hd hs
        split at hd
        · subst_vars
          rcases List.mem_append.mp hd with hd | hd
          · exact h4 _ d i' a' hd hs
          · simp at hd; subst hd; simp at hs
        · exact h4 c d i' a' hd hs
      · intro c; split
        · subst_vars; simp [List.filterMap_append]; exact h5 _
        · exact h5 c
      · intro c i' a' hacked
        obtain ⟨d, hd, hs⟩ := h6 c i' a' hacked
        split
        · exact ⟨d, List.mem_append_left _ hd, hs⟩
        · exact ⟨d, hd, hs⟩
      · exact h7
      · exact h8
      · exact h9
      · exact h10
      · exact h11
      · exact h12
      · exact h13
      · exact h14
      · exact h15
      · exact h16
      · intro c d i' hd hb
        split at hd
        · subst_vars
          rcases List.mem_append.mp hd with hd | hd
          · exact h17 _ d i' hd hb
          · simp at hd; subst hd; simp at hb
        · exact h17 c d i' hd hb

theorem process_inv {s : Sys} (hi : Inv s) (a : Nat) (feeds stage : Bool) : Inv (process s a feeds stage) := by
  cases hb : (s.ep a).batch with
  | nil => rw [process_empty feeds stage hb]; exact hi
  | cons d rest =>
    have hrest : ∀ d', d' ∈ rest → d' ∈ (s.ep a).batch := by intro d' h; simp [hb, h]
    cases hd : d.isAck with
    | false =>
      obtain ⟨h1, h2, h3, h4, h5, h6, h7, h8, h9, h10, h11, h12, h13, h14, h15, h16, h17⟩ := hi
      constructor <;> simp only [process_msg_ep feeds stage hb hd, process_net, process_max, PktOk]
      · exact h1
      · exact h2
      · exact h3
      · exact h4
      · exact h5
      · exact h6
      · exact h7
      · exact h8
      · exact h9
      · exact h10
      · exact h11
      · exact h12
      · exact h13
      · exact h14
      · exact h15
      · exact h16
      · intro c d' i' hd' hb'
        split at hd'
        · subst_vars; exact h17 _ d' i' (hrest d' hd') hb'
        · exact h17 c d' i' hd' hb'
    | true =>
      obtain ⟨sy, body⟩ := d
      have : ∃ i, body = Parsed.msg (Msg.ack i) := by
        cases body with
        | msg m => cases m with
          | ack i => exact ⟨i, rfl⟩
          | app m => simp [Delivery.isAck] at hd
        | payload h v => simp [Delivery.isAck] at hd
      obtain ⟨i, rfl⟩ := this
      obtain ⟨c, hc⟩ := hi.batch_ok a ⟨sy, Parsed.msg (Msg.ack i)⟩ i (by simp [hb]) rfl
      obtain ⟨h1, h2, h3, h4, h5, h6, h7, h8, h9, h10, h11, h12, h13, h14, h15, h16, h17⟩ := hi
      obtain ⟨d, hd', hs⟩ := h6 c i a hc
      obtain ⟨⟨hh, mm, hlog, hh0, -⟩, -⟩ := h4 c d i a hd' hs
      constructor <;> simp only [process_ack_ep feeds stage hb, process_net, process_max, PktOk]
      · exact h1
      · exact h2
      · exact h3
      · exact h4
      · exact h5
      · exact h6
      · intro c' j hj
        by_cases hcase : c' = a ∧ feeds = true ∧ j = i
        · obtain ⟨rfl, -, rfl⟩ := hcase
          right; exact ⟨hh, mm, c, hlog, hh0, hc⟩
        · have := h7 c' j hj; simp only [hcase, if_false]; exact this
      · exact h8
      · intro c' j r hr hj; split at hr
        · cases hr
        · exact h9 c' j r hr hj
      · intro c' j r hr hj; split at hr
        · cases hr
        · exact h10 c' j r hr hj
      · exact h11
      · intro c' j r hr hj; split at hr
        · cases hr
        · exact h12 c' j r hr hj
      · intro c' j r hr hj; split at hr
        · cases hr
        · exact h13 c' j r hr hj
      · exact h14
      · intro c' j r hr; split at hr
        · cases hr
        · exact h15 c' j r hr
      · exact h16
      · intro c' d' i' hd'' hb'
        split at hd''
        · subst_vars; exact h17 _ d' i' (hrest d' hd'') hb'
        · exact h17 c' d' i' hd'' hb'

theorem commit_inv {s : Sys} (hi : Inv s) (a : Nat) : Inv (commit s a) := by
  obtain ⟨h1, h2, h3, h4, h5, h6, h7, h8, h9, h10, h11, h12, h13, h14, h15, h16, h17⟩ := hi
  constructor <;> simp only [commit_ep, commit_net, commit_max, PktOk]
  · exact h1
  · exact h2
  · exact h3
  · exact h4
  · exact h5
  · exact h6
  · exact h7
  · exact h8
  · exact h9
  · exact h10
  · exact h11
  · exact h12
  · exact h13
  · exact h14
  · exact h15
  · exact h16
  · exact h17

theorem abort_inv {s : Sys} (hi : Inv s) (a : Nat) : Inv (abort s a) := by
  obtain ⟨h1, h2, h3, h4, h5, h6, h7, h8, h9, h10, h11, h12, h13, h14, h15, h16, h17⟩ := hi
  constructor <;> simp only [abort_ep, abort_net, abort_max, PktOk]
  · exact h1
  · exact h2
  · exact h3
  · exact h4
  · exact h5
  · exact h6
  · exact h7
  · exact h8
  · exact h9
  · exact h10
  · exact h11
  · exact h12
  · exact h13
  · exact h14
  · exact h15
  · exact h16
  · intro c d i hd hb
    split at hd
    · simp at hd
    · exact h17 c d i hd hb

theorem step_inv {s : Sys} (hi : Inv s) (op : Op) : Inv (step s op) := by
  cases op with
  | send a h m => exact send_inv hi a h m
  | localMsg a m => exact localMsg_inv hi a m
  | drop k => exact drop_inv hi k
  | deliver k => exact deliver_inv hi k
  | dup k => exact dup_inv hi k
  | collect a => exact collect_inv hi a
  | process a f st => exact process_inv hi a f st
  | commit a => exact commit_inv hi a
  | abort a => exact abort_inv hi a
  | retry a => exact retry_inv hi a
  | tick a dt => exact tick_inv hi a dt
  | popHost a h => exact popHost_inv hi a h

theorem run_inv {s : Sys} (hi : Inv s) (ops : List Op) : Inv (run s ops) := by
  induction ops generalizing s with
  | nil => exact hi
  | cons op ops ih => exact ih (step_inv hi op)


/-- facts relating a state to any later state -/
structure Later (s s' : Sys) : Prop where
  acked : ∀ b i a, (s.ep b).acked i a = true → (s'.ep b).acked i a = true
  idx : ∀ a, (s.ep a).idx ≤ (s'.ep a).idx
  log : ∀ a i v, (s.ep a).log i = some v → (s'.ep a).log i = some v
  raised : ∀ a, (s.ep a).raised = true → (s'.ep a).raised = true
  hostsNone : ∀ a h, (s.ep a).hosts h = none → (s'.ep a).hosts h = none
  grace : ∀ a, (s'.ep a).grace = (s.ep a).grace
  max : s'.maxRetries = s.maxRetries
  delivered : ∀ b d, d ∈ (s.ep b).delivered → d ∈ (s'.ep b).delivered
  handled : ∀ b d, d ∈ (s.ep b).handled → d ∈ (s'.ep b).handled
  lost : ∀ b d, d ∈ (s.ep b).lost → d ∈ (s'.ep b).lost
  aborts : ∀ b, (s.ep b).aborts ≤ (s'.ep b).aborts
  now : ∀ a, (s.ep a).now ≤ (s'.ep a).now
  inflNone : ∀ a i, i < (s.ep a).idx → (s.ep a).inflight i = none →
    (s'.ep a).inflight i = none ∧ (s'.ep a).sends i = (s.ep a).sends i
  inflSome : ∀ a i r, i < (s.ep a).idx → (s.ep a).inflight i = some r →
    (s'.ep a).inflight i = none ∨
      ∃ r', (s'.ep a).inflight i = some r' ∧ r'.remaining ≤ r.remaining ∧ r'.host = r.host ∧ r'.msg = r.msg

theorem Later.refl (s : Sys) : Later s s := by
  constructor <;> intros <;> simp_all

theorem Later.trans {s1 s2 s3 : Sys} (h12 : Later s1 s2) (h23 : Later s2 s3) : Later s1 s3 := by
  constructor
  · intro b i a h; exact h23.acked _ _ _ (h12.acked _ _ _ h)
  · intro a; exact Nat.le_trans (h12.idx a) (h23.idx a)
  · intro a i v h; exact h23.log _ _ _ (h12.log _ _ _ h)
  · intro a h; exact h23.raised _ (h12.raised _ h)
  · intro a h hh; exact h23.hostsNone _ _ (h12.hostsNone _ _ hh)
  · intro a; rw [h23.grace, h12.grace]
  · rw [h23.max, h12.max]
  · intro b d h; exact h23.delivered _ _ (h12.delivered _ _ h)
  · intro b d h; exact h23.handled _ _ (h12.handled _ _ h)
  · intro b d h; exact h23.lost _ _ (h12.lost _ _ h)
  · intro b; exact Nat.le_trans (h12.aborts b) (h23.aborts b)
  · intro a; exact Nat.le_trans (h12.now a) (h23.now a)
  · intro a i hi hn
    obtain ⟨h1, h2⟩ := h12.inflNone a i hi hn
    obtain ⟨h3, h4⟩ := h23.inflNone a i (Nat.lt_of_lt_of_le hi (h12.idx a)) h1
    exact ⟨h3, by rw [h4, h2]⟩
  · intro a i r hi hr
    have hi2 := Nat.lt_of_lt_of_le hi (h12.idx a)
    rcases h12.inflSome a i r hi hr with h | ⟨r', hr', h1, h2, h3⟩
    · left; exact (h23.inflNone a i hi2 h).1
    · rcases h23.inflSome a i r' hi2 hr' with h | ⟨r'', hr'', h4, h5, h6⟩
      · left; exact h
      · right; exact ⟨r'', hr'', by omega, by rw [h5, h2], by rw [h6, h3]⟩

theorem tick_later (s : Sys) (a dt : Nat) : Later s (tick s a dt) := by
  constructor <;> simp only [tick_ep, tick_max] <;> intros <;> simp_all
theorem popHost_later (s : Sys) (a h : Nat) : Later s (popHost s a h) := by
  constructor <;> simp only [popHost_ep, popHost_max] <;> intros <;> simp_all
theorem localMsg_later (s : Sys) (a m : Nat) : Later s (localMsg s a m) := by
  constructor <;> simp only [localMsg_ep, localMsg_max] <;> intros <;> simp_all
theorem drop_later (s : Sys) (k : Nat) : Later s (drop s k) := by
  constructor <;> simp only [drop] <;> intros <;> simp_all
theorem arrive_later (s : Sys) (p : Packet) : Later s (arrive s p) := by
  constructor <;> simp only [arrive_ep, arrive_max] <;> intros <;> simp_all
theorem deliver_later (s : Sys) (k : Nat) : Later s (deliver s k) := by
  unfold deliver; split
  · exact Later.refl s
  · exact (drop_later s k).trans (arrive_later _ _)
theorem dup_later (s : Sys) (k : Nat) : Later s (dup s k) := by
  unfold dup; split
  · exact Later.refl s
  · exact arrive_later _ _

theorem send_later {s : Sys} (hi : Inv s) (a h m : Nat) : Later s (send s a h m) := by
  cases hh : (s.ep a).hosts h with
  | none =>
    constructor <;> simp only [send_none_ep m hh, send_max] <;> intros <;> simp_all <;> grind
  | some d =>
    have hlognone : ∀ v, (s.ep a).log (s.ep a).idx = some v → False := by
      intro v hl; have := hi.log_lt a _ v hl; omega
    constructor <;> simp only [send_some_ep m hh, send_max] <;> intros <;> simp_all <;> grind

theorem retryOne_later {s : Sys} (_hi : Inv s) (a i : Nat) : Later s (retryOne s a i).1 := by
  rcases retryOne_cases s a i with h | ⟨r, d, hf⟩
  · rw [h]; exact Later.refl s
  · have hf' := hf
    obtain ⟨hr, hexp, hh⟩ := hf'
    constructor <;> simp only [retryOne_fire_ep hf, retryOne_max] <;> intros <;> simp_all <;> grind

theorem retryList_later {s : Sys} (hi : Inv s) (a : Nat) (l : List Nat) : Later s (retryList s a l) := by
  induction l generalizing s with
  | nil => exact Later.refl s
  | cons i is ih =>
    simp only [retryList]
    split
    · exact retryOne_later hi a i
    · exact (retryOne_later hi a i).trans (ih (retryOne_inv hi a i))

theorem collect_later {s : Sys} (hi : Inv s) (b : Nat) : Later s (collect s b) := by
  cases hin : (s.ep b).inbox with
  | nil => rw [collect_empty hin]; exact Later.refl s
  | cons fs rest =>
    have hok := hi.wire_inbox b fs (by simp [hin])
    rcases hok with ⟨a, i, m, h, rfl, hl, h0⟩ | ⟨i, c, rfl, hc⟩ | ⟨m, rfl⟩
    · cases hack : (s.ep b).acked i a with
      | true =>
        constructor <;> simp only [collect_data_dup_ep hin hack, collect_max] <;> intros <;> simp_all
      | false =>
        constructor <;> simp only [collect_data_new_ep hin hack, collect_max] <;> intros <;> simp_all <;> grind
    · constructor <;> simp only [collect_ack_ep hin, collect_max] <;> intros <;> simp_all
    · constructor <;> simp only [collect_local_ep hin, collect_max] <;> intros <;> simp_all <;> grind

theorem process_later (s : Sys) (a : Nat) (feeds stage : Bool) : Later s (process s a feeds stage) := by
  cases hb : (s.ep a).batch with
  | nil => rw [process_empty feeds stage hb]; exact Later.refl s
  | cons d rest =>
    cases hd : d.isAck with
    | false =>
      constructor <;> simp only [process_msg_ep feeds stage hb hd, process_max] <;> intros <;> simp_all <;> grind
    | true =>
      obtain ⟨sy, body⟩ := d
      have : ∃ i, body = Parsed.msg (Msg.ack i) := by
        cases body with
        | msg m => cases m with
          | ack i => exact ⟨i, rfl⟩
          | app m => simp [Delivery.isAck] at hd
        | payload h v => simp [Delivery.isAck] at hd
      obtain ⟨i, rfl⟩ := this
      constructor <;> simp only [process_ack_ep feeds stage hb, process_max] <;> intros <;> simp_all <;> grind

theorem commit_later (s : Sys) (a : Nat) : Later s (commit s a) := by
  constructor <;> simp only [commit_ep, commit_max] <;> intros <;> simp_all <;> grind
theorem abort_later (s : Sys) (a : Nat) : Later s (abort s a) := by
  constructor <;> simp only [abort_ep, abort_max] <;> intros <;> simp_all <;> grind

theorem step_later {s : Sys} (hi : Inv s) (op : Op) : Later s (step s op) := by
  cases op with
  | send a h m => exact send_later hi a h m
  | localMsg a m => exact localMsg_later s a m
  | drop k => exact drop_later s k
  | deliver k => exact deliver_later s k
  | dup k => exact dup_later s k
  | collect a => exact collect_later hi a
  | process a f st => exact process_later s a f st
  | commit a => exact commit_later s a
  | abort a => exact abort_later s a
  | retry a => exact retryList_later hi a _
  | tick a dt => exact tick_later s a dt
  | popHost a h => exact popHost_later s a h

theorem run_later {s : Sys} (hi : Inv s) (ops : List Op) : Later s (run s ops) := by
  induction ops generalizing s with
  | nil => exact Later.refl s
  | cons op ops ih => exact (step_later hi op).trans (ih (step_inv hi op))


theorem retryOne_other (s : Sys) {a b : Nat} (hne : a ≠ b) (j : Nat) :
    ((retryOne s b j).1.ep a).inflight = (s.ep a).inflight := by
  rcases retryOne_cases s b j with h | ⟨r, d, hf⟩
  · rw [h]
  · rw [retryOne_fire_ep hf]; funext k; simp [hne]

theorem retryList_other (s : Sys) {a b : Nat} (hne : a ≠ b) (l : List Nat) :
    ((retryList s b l).ep a).inflight = (s.ep a).inflight := by
  induction l generalizing s with
  | nil => rfl
  | cons j js ih =>
    simp only [retryList]; split
    · exact retryOne_other s hne j
    · rw [ih, retryOne_other s hne j]

theorem retryOne_keeps (s : Sys) (a j i : Nat) (r : Rec) (hr : (s.ep a).inflight i = some r) :
    ∃ r', ((retryOne s a j).1.ep a).inflight i = some r' := by
  rcases retryOne_cases s a j with h | ⟨r0, d, hf⟩
  · rw [h]; exact ⟨r, hr⟩
  · rw [retryOne_fire_ep hf]; simp only; split
    · exact ⟨_, rfl⟩
    · exact ⟨r, hr⟩

theorem retryList_keeps (s : Sys) (a i : Nat) (l : List Nat) (r : Rec) (hr : (s.ep a).inflight i = some r) :
    ∃ r', ((retryList s a l).ep a).inflight i = some r' := by
  induction l generalizing s r with
  | nil => exact ⟨r, hr⟩
  | cons j js ih =>
    simp only [retryList]
    obtain ⟨r1, hr1⟩ := retryOne_keeps s a j i r hr
    split
    · exact ⟨r1, hr1⟩
    · exact ih _ r1 hr1

/-- An in-flight record of an accepted message changes only through `maybe_retry` of its own
sender and disappears only when that sender's loop feeds it the matching `Ack`. -/
theorem step_infl {s : Sys} (hi : Inv s) (op : Op) (a i : Nat) (r : Rec)
    (hlt : i < (s.ep a).idx) (hr : (s.ep a).inflight i = some r) :
    (∃ r', ((step s op).ep a).inflight i = some r' ∧ (op ≠ Op.retry a → r' = r)) ∨
    (((step s op).ep a).inflight i = none ∧
      ∃ stage sy rest, op = Op.process a true stage ∧
        (s.ep a).batch = ⟨sy, Parsed.msg (Msg.ack i)⟩ :: rest) := by
  cases op with
  | send b h m =>
    left; refine ⟨r, ?_, fun _ => rfl⟩
    simp only [step]
    cases hh : (s.ep b).hosts h with
    | none =>
      rw [send_none_ep m hh]; simp only; split
      · rename_i hc; obtain ⟨rfl, rfl⟩ := hc; omega
      · exact hr
    | some d =>
      rw [send_some_ep m hh]; simp only; split
      · rename_i hc; obtain ⟨rfl, rfl⟩ := hc; omega
      · exact hr
  | localMsg b m => left; exact ⟨r, by simp only [step, localMsg_ep]; exact hr, fun _ => rfl⟩
  | drop k => left; exact ⟨r, hr, fun _ => rfl⟩
  | deliver k =>
    left; refine ⟨r, ?_, fun _ => rfl⟩
    simp only [step, deliver]; split
    · exact hr
    · rw [arrive_ep]; exact hr
  | dup k =>
    left; refine ⟨r, ?_, fun _ => rfl⟩
    simp only [step, dup]; split
    · exact hr
    · rw [arrive_ep]; exact hr
  | tick b dt => left; exact ⟨r, by simp only [step, tick_ep]; exact hr, fun _ => rfl⟩
  | popHost b h => left; exact ⟨r, by simp only [step, popHost_ep]; exact hr, fun _ => rfl⟩
  | retry b =>
    left
    by_cases hab : a = b
    · subst hab
      obtain ⟨r', hr'⟩ := retryList_keeps s a i _ r hr
      exact ⟨r', hr', fun h => absurd rfl h⟩
    · refine ⟨r, ?_, fun _ => rfl⟩
      simp only [step, retry]; rw [retryList_other s hab]; exact hr
  | commit b => left; exact ⟨r, by simp only [step, commit_ep]; exact hr, fun _ => rfl⟩
  | abort b => left; exact ⟨r, by simp only [step, abort_ep]; exact hr, fun _ => rfl⟩
  | collect b =>
    simp only [step]
    left; refine ⟨r, ?_, fun _ => rfl⟩
    cases hin : (s.ep b).inbox with
    | nil => rw [collect_empty hin]; exact hr
    | cons fs rest =>
      have hok := hi.wire_inbox b fs (by simp [hin])
      rcases hok with ⟨a', i', m, h, rfl, hl, h0⟩ | ⟨i', c, rfl, hc⟩ | ⟨m, rfl⟩
      · cases hack : (s.ep b).acked i' a' with
        | true => rw [collect_data_dup_ep hin hack]; exact hr
        | false => rw [collect_data_new_ep hin hack]; exact hr
      · rw [collect_ack_ep hin]; exact hr
      · rw [collect_local_ep hin]; exact hr
  | process b feeds stage =>
    simp only [step]
    cases hb : (s.ep b).batch with
    | nil => left; rw [process_empty feeds stage hb]; exact ⟨r, hr, fun _ => rfl⟩
    | cons d rest =>
      cases hd : d.isAck with
      | false =>
        left; refine ⟨r, ?_, fun _ => rfl⟩
        rw [process_msg_ep feeds stage hb hd]; exact hr
      | true =>
        obtain ⟨sy, body⟩ := d
        have : ∃ i', body = Parsed.msg (Msg.ack i') := by
          cases body with
          | msg m => cases m with
            | ack i' => exact ⟨i', rfl⟩
            | app m => simp [Delivery.isAck] at hd
          | payload h v => simp [Delivery.isAck] at hd
        obtain ⟨i', rfl⟩ := this
        by_cases hcase : a = b ∧ feeds = true ∧ i = i'
        · obtain ⟨rfl, rfl, rfl⟩ := hcase
          right; refine ⟨?_, stage, sy, rest, rfl, hb⟩
          rw [process_ack_ep true stage hb]; simp
        · left; refine ⟨r, ?_, fun _ => rfl⟩
          rw [process_ack_ep feeds stage hb]; simp only [hcase, if_false]; exact hr

theorem run_append (s : Sys) (l1 l2 : List Op) : run s (l1 ++ l2) = run (run s l1) l2 := by
  induction l1 generalizing s with
  | nil => rfl
  | cons op l1 ih => simp [run, ih]

/-- progress of idx `i` of sender `a` towards "acknowledged or raised": at most `k` retries left -/
def Prog (s : Sys) (a i h : Nat) (k : Int) : Prop :=
  (s.ep a).raised = true ∨ (s.ep a).hosts h = none ∨ (s.ep a).inflight i = none ∨
    ∃ r', (s.ep a).inflight i = some r' ∧ r'.remaining ≤ k ∧ r'.host = h

theorem Prog.later {s s' : Sys} {a i h : Nat} {k : Int} (hl : Later s s') (hi : i < (s.ep a).idx)
    (hp : Prog s a i h k) : Prog s' a i h k := by
  rcases hp with hp | hp | hp | ⟨r', hr', h1, h2⟩
  · exact Or.inl (hl.raised a hp)
  · exact Or.inr (Or.inl (hl.hostsNone a h hp))
  · exact Or.inr (Or.inr (Or.inl (hl.inflNone a i hi hp).1))
  · rcases hl.inflSome a i r' hi hr' with hn | ⟨r'', hr'', h3, h4, _⟩
    · exact Or.inr (Or.inr (Or.inl hn))
    · exact Or.inr (Or.inr (Or.inr ⟨r'', hr'', by omega, by rw [h4, h2]⟩))

theorem Prog.weaken {s : Sys} {a i h : Nat} {k k' : Int} (hk : k ≤ k') (hp : Prog s a i h k) : Prog s a i h k' := by
  rcases hp with hp | hp | hp | ⟨r', hr', h1, h2⟩
  · exact Or.inl hp
  · exact Or.inr (Or.inl hp)
  · exact Or.inr (Or.inr (Or.inl hp))
  · exact Or.inr (Or.inr (Or.inr ⟨r', hr', by omega, h2⟩))

theorem retryList_hits {a i : Nat} {r : Rec} :
    ∀ (l : List Nat) (s : Sys), Inv s → i ∈ l → i < (s.ep a).idx → (s.ep a).inflight i = some r →
      r.sentAt + (s.ep a).grace < (s.ep a).now → Prog (retryList s a l) a i r.host (r.remaining - 1) := by
  intro l
  induction l with
  | nil => intro s _ hm; simp at hm
  | cons j js ih =>
    intro s hi hm hlt hr hexp
    by_cases hji : j = i
    · subst hji
      cases hh : (s.ep a).hosts r.host with
      | none => exact Prog.later (retryList_later hi a _) hlt (Or.inr (Or.inl hh))
      | some d =>
        have hf : Fires s a j r d := ⟨hr, hexp, hh⟩
        have h1 : Prog (retryOne s a j).1 a j r.host (r.remaining - 1) := by
          right; right; right
          refine ⟨{ r with sentAt := (s.ep a).now, remaining := r.remaining - 1 }, ?_, Int.le_refl _, rfl⟩
          rw [retryOne_fire_ep hf]; simp
        have hidx : ((retryOne s a j).1.ep a).idx = (s.ep a).idx := by rw [retryOne_fire_ep hf]
        simp only [retryList]
        split
        · exact h1
        · exact Prog.later (retryList_later (retryOne_inv hi a j) a js) (by rw [hidx]; exact hlt) h1
    · have hm' : i ∈ js := by
        rcases List.mem_cons.mp hm with h | h
        · exact absurd h.symm hji
        · exact h
      rcases retryOne_cases s a j with h | ⟨rj, d, hf⟩
      · simp only [retryList, h]
        exact ih s hi hm' hlt hr hexp
      · simp only [retryList]
        split
        · rename_i hraise
          left
          rw [retryOne_fire_raise hf] at hraise
          rw [retryOne_fire_ep hf]; simp [hraise]
        · have hij : ¬ i = j := fun h => hji h.symm
          refine ih _ (retryOne_inv hi a j) hm' ?_ ?_ ?_
          · rw [retryOne_fire_ep hf]; exact hlt
          · rw [retryOne_fire_ep hf]; simp only [hij, and_false, if_false]; exact hr
          · rw [retryOne_fire_ep hf]; exact hexp

/-- the in-flight record of idx `i` at `a`, if any, is older than the resend grace -/
def Expired (s : Sys) (a i : Nat) : Prop :=
  ∀ r, (s.ep a).inflight i = some r → r.sentAt + (s.ep a).grace < (s.ep a).now

theorem Expired.afterStep {s : Sys} {a i : Nat} (hi : Inv s) (hlt : i < (s.ep a).idx) (he : Expired s a i)
    (op : Op) (hop : op ≠ Op.retry a) : Expired (step s op) a i := by
  intro r' hr'
  have hl := step_later hi op
  cases hr : (s.ep a).inflight i with
  | none => have := (hl.inflNone a i hlt hr).1; rw [this] at hr'; cases hr'
  | some r =>
    rcases step_infl hi op a i r hlt hr with ⟨r'', hr'', heq⟩ | ⟨hn, _⟩
    · rw [hr''] at hr'; cases hr'
      rw [heq hop, hl.grace]
      have := he r hr; have := hl.now a; omega
    · rw [hn] at hr'; cases hr'

theorem Expired.afterRun {s : Sys} {a i : Nat} (hi : Inv s) (hlt : i < (s.ep a).idx) (he : Expired s a i)
    (ops : List Op) (hops : Op.retry a ∉ ops) : Expired (run s ops) a i := by
  induction ops generalizing s with
  | nil => exact he
  | cons op ops ih =>
    have hop : op ≠ Op.retry a := by intro h; exact hops (by simp [h])
    have hl := step_later hi op
    exact ih (step_inv hi op) (Nat.lt_of_lt_of_le hlt (hl.idx a)) (he.afterStep hi hlt op hop)
      (by intro h; exact hops (List.mem_cons_of_mem _ h))

theorem Expired.afterTick {s : Sys} {a i : Nat} (hi : Inv s) (dt : Nat) (hdt : (s.ep a).grace < dt) :
    Expired (tick s a dt) a i := by
  intro r hr
  rw [tick_ep] at hr ⊢
  simp only at hr ⊢
  have := hi.sent_le a i r hr
  simp; omega

theorem Prog.afterRetry {s : Sys} {a i h : Nat} {k : Int} (hi : Inv s) (hlt : i < (s.ep a).idx)
    (hp : Prog s a i h k) (he : Expired s a i) : Prog (retry s a) a i h (k - 1) := by
  have hl : Later s (retry s a) := retryList_later hi a _
  rcases hp with hp | hp | hp | ⟨r', hr', h1, h2⟩
  · exact Prog.later hl hlt (Or.inl hp)
  · exact Prog.later hl hlt (Or.inr (Or.inl hp))
  · exact Prog.later hl hlt (Or.inr (Or.inr (Or.inl hp)))
  · have := retryList_hits (a := a) (i := i) (r := r') (List.range ((s.ep a).idx + 1)) s hi
      (by simp; omega) hlt hr' (he r' hr')
    rw [h2] at this
    exact Prog.weaken (by omega) this

/-- One timer round at `a`: anything, then a's clock jumps by more than the grace, then anything
except `maybe_retry` at `a` (e.g. the receive part of a loop iteration), then `maybe_retry` at `a`. -/
structure Round where
  pre : List Op
  dt : Nat
  mid : List Op

def Round.ops (a : Nat) (r : Round) : List Op := r.pre ++ [Op.tick a r.dt] ++ r.mid ++ [Op.retry a]

def roundsOps (a : Nat) : List Round → List Op
  | [] => []
  | r :: rs => r.ops a ++ roundsOps a rs

theorem Prog.afterRounds {a i h g : Nat} :
    ∀ (rs : List Round) (s : Sys) (k : Int), Inv s → i < (s.ep a).idx → (s.ep a).grace = g →
      (∀ r ∈ rs, g < r.dt ∧ Op.retry a ∉ r.mid) → Prog s a i h k →
      Prog (run s (roundsOps a rs)) a i h (k - rs.length) ∧ Inv (run s (roundsOps a rs)) ∧
        i < ((run s (roundsOps a rs)).ep a).idx := by
  intro rs
  induction rs with
  | nil => intro s k hi hlt _ _ hp; simpa [roundsOps, run] using ⟨hp, hi, hlt⟩
  | cons r rs ih =>
    intro s k hi hlt hg hrs hp
    obtain ⟨hdt, hmid⟩ := hrs r (by simp)
    -- pre
    have hi1 := run_inv hi r.pre
    have hl1 := run_later hi r.pre
    have hlt1 := Nat.lt_of_lt_of_le hlt (hl1.idx a)
    have hp1 := Prog.later hl1 hlt hp
    have hg1 : ((run s r.pre).ep a).grace = g := by rw [hl1.grace, hg]
    -- tick
    have hi2 := tick_inv hi1 a r.dt
    have hl2 := tick_later (run s r.pre) a r.dt
    have hlt2 := Nat.lt_of_lt_of_le hlt1 (hl2.idx a)
    have hp2 := Prog.later hl2 hlt1 hp1
    have he2 : Expired (tick (run s r.pre) a r.dt) a i := Expired.afterTick hi1 r.dt (by rw [hg1]; exact hdt)
    -- mid
    have hi3 := run_inv hi2 r.mid
    have hl3 := run_later hi2 r.mid
    have hlt3 := Nat.lt_of_lt_of_le hlt2 (hl3.idx a)
    have hp3 := Prog.later hl3 hlt2 hp2
    have he3 := he2.afterRun hi2 hlt2 r.mid hmid
    -- retry
    have hi4 := retry_inv hi3 a
    have hl4 : Later _ (retry (run (tick (run s r.pre) a r.dt) r.mid) a) := retryList_later hi3 a _
    have hlt4 := Nat.lt_of_lt_of_le hlt3 (hl4.idx a)
    have hp4 := Prog.afterRetry hi3 hlt3 hp3 he3
    have hg4 : ((retry (run (tick (run s r.pre) a r.dt) r.mid) a).ep a).grace = g := by
      rw [hl4.grace, hl3.grace, hl2.grace, hg1]
    have hrun : run s (roundsOps a (r :: rs)) =
        run (retry (run (tick (run s r.pre) a r.dt) r.mid) a) (roundsOps a rs) := by
      simp [roundsOps, Round.ops, run_append, run, step]
    rw [hrun]
    have := ih _ (k - 1) hi4 hlt4 hg4 (fun r' hr' => hrs r' (List.mem_cons_of_mem _ hr')) hp4
    refine ⟨Prog.weaken ?_ this.1, this.2⟩
    simp; omega


theorem retryOne_sends (s : Sys) (a j b i : Nat) :
    ((retryOne s a j).1.ep b).sends i ≤ (s.ep b).sends i + (if b = a ∧ i = j then 1 else 0) := by
  rcases retryOne_cases s a j with h | ⟨r, d, hf⟩
  · rw [h]; simp only; omega
  · rw [retryOne_fire_ep hf]; simp only; split <;> simp_all

theorem retryList_sends (a b i : Nat) :
    ∀ (l : List Nat) (s : Sys), l.Nodup →
      ((retryList s a l).ep b).sends i ≤ (s.ep b).sends i + (if b = a ∧ i ∈ l then 1 else 0) := by
  intro l
  induction l with
  | nil => intro s _; simp [retryList]
  | cons j js ih =>
    intro s hnd
    have hj : j ∉ js := (List.nodup_cons.mp hnd).1
    have hjs : js.Nodup := (List.nodup_cons.mp hnd).2
    have h1 := retryOne_sends s a j b i
    simp only [retryList]
    split
    · have : (if b = a ∧ i = j then 1 else 0) ≤ (if b = a ∧ i ∈ j :: js then 1 else 0) := by
        split <;> simp_all
      omega
    · have h2 := ih (retryOne s a j).1 hjs
      have : (if b = a ∧ i = j then 1 else 0) + (if b = a ∧ i ∈ js then 1 else 0)
          ≤ (if b = a ∧ i ∈ j :: js then 1 else 0) := by
        by_cases hb : b = a
        · by_cases hij : i = j
          · subst hij; simp [hb, hj]
          · by_cases hm : i ∈ js <;> simp [hb, hij, hm]
        · simp [hb]
      omega

/-- one step transmits a given message at most once more -/
theorem step_sends_le {s : Sys} (hi : Inv s) (op : Op) (a i : Nat) :
    ((step s op).ep a).sends i ≤ (s.ep a).sends i + 1 := by
  cases op with
  | send b h m =>
    simp only [step]
    cases hh : (s.ep b).hosts h with
    | none => rw [send_none_ep m hh]; simp
    | some d => rw [send_some_ep m hh]; simp only; split <;> omega
  | localMsg b m => simp [step, localMsg_ep]
  | drop k => simp [step, drop]
  | deliver k => simp only [step, deliver]; split <;> simp [arrive_ep]
  | dup k => simp only [step, dup]; split <;> simp [arrive_ep]
  | tick b dt => simp [step, tick_ep]
  | popHost b h => simp [step, popHost_ep]
  | retry b =>
    have := retryList_sends b a i (List.range ((s.ep b).idx + 1)) s List.nodup_range
    simp only [step, retry]
    split at this <;> omega
  | commit b => simp [step, commit_ep]
  | abort b => simp [step, abort_ep]
  | collect b =>
    simp only [step]
    cases hin : (s.ep b).inbox with
    | nil => rw [collect_empty hin]; omega
    | cons fs rest =>
      have hok := hi.wire_inbox b fs (by simp [hin])
      rcases hok with ⟨a', i', m, h, rfl, hl, h0⟩ | ⟨i', c, rfl, hc⟩ | ⟨m, rfl⟩
      · cases hack : (s.ep b).acked i' a' with
        | true => rw [collect_data_dup_ep hin hack]; simp
        | false => rw [collect_data_new_ep hin hack]; simp
      · rw [collect_ack_ep hin]; simp
      · rw [collect_local_ep hin]; simp
  | process b feeds stage =>
    have := (process_later s b feeds stage)
    simp only [step]
    cases hb : (s.ep b).batch with
    | nil => rw [process_empty feeds stage hb]; omega
    | cons d rest =>
      cases hd : d.isAck with
      | false => rw [process_msg_ep feeds stage hb hd]; simp
      | true =>
        obtain ⟨sy, body⟩ := d
        have : ∃ i', body = Parsed.msg (Msg.ack i') := by
          cases body with
          | msg m => cases m with
            | ack i' => exact ⟨i', rfl⟩
            | app m => simp [Delivery.isAck] at hd
          | payload h v => simp [Delivery.isAck] at hd
        obtain ⟨i', rfl⟩ := this
        rw [process_ack_ep feeds stage hb]; simp

/-- in reachable states `_recv_one` never raises: every queued frame list is a legal shape -/
theorem step_errors {s : Sys} (hi : Inv s) (op : Op) (a : Nat) :
    ((step s op).ep a).errors = (s.ep a).errors := by
  cases op with
  | send b h m =>
    simp only [step]
    cases hh : (s.ep b).hosts h with
    | none => rw [send_none_ep m hh]
    | some d => rw [send_some_ep m hh]
  | localMsg b m => simp [step, localMsg_ep]
  | drop k => simp [step, drop]
  | deliver k => simp only [step, deliver]; split <;> simp [arrive_ep]
  | dup k => simp only [step, dup]; split <;> simp [arrive_ep]
  | tick b dt => simp [step, tick_ep]
  | popHost b h => simp [step, popHost_ep]
  | retry b =>
    simp only [step, retry]
    generalize List.range ((s.ep b).idx + 1) = l
    induction l generalizing s with
    | nil => rfl
    | cons j js ih =>
      have h1 : ((retryOne s b j).1.ep a).errors = (s.ep a).errors := by
        rcases retryOne_cases s b j with h | ⟨r, d, hf⟩
        · rw [h]
        · rw [retryOne_fire_ep hf]
      simp only [retryList]; split
      · exact h1
      · rw [ih (retryOne_inv hi b j), h1]
  | commit b => simp [step, commit_ep]
  | abort b => simp [step, abort_ep]
  | collect b =>
    simp only [step]
    cases hin : (s.ep b).inbox with
    | nil => rw [collect_empty hin]
    | cons fs rest =>
      have hok := hi.wire_inbox b fs (by simp [hin])
      rcases hok with ⟨a', i', m, h, rfl, hl, h0⟩ | ⟨i', c, rfl, hc⟩ | ⟨m, rfl⟩
      · cases hack : (s.ep b).acked i' a' with
        | true => rw [collect_data_dup_ep hin hack]
        | false => rw [collect_data_new_ep hin hack]
      · rw [collect_ack_ep hin]
      · rw [collect_local_ep hin]
  | process b feeds stage =>
    simp only [step]
    cases hb : (s.ep b).batch with
    | nil => rw [process_empty feeds stage hb]
    | cons d rest =>
      cases hd : d.isAck with
      | false => rw [process_msg_ep feeds stage hb hd]
      | true =>
        obtain ⟨sy, body⟩ := d
        have : ∃ i', body = Parsed.msg (Msg.ack i') := by
          cases body with
          | msg m => cases m with
            | ack i' => exact ⟨i', rfl⟩
            | app m => simp [Delivery.isAck] at hd
          | payload h v => simp [Delivery.isAck] at hd
        obtain ⟨i', rfl⟩ := this
        rw [process_ack_ep feeds stage hb]


end EkwVerif.Ack

/-! ### the frame-sequence parser -/
namespace EkwVerif.Frames

theorem legal_iff (fs : List Frame) (syn : Option SynId) (p : Parsed) :
    Legal fs syn p ↔
      (∃ m, fs = [.msg m] ∧ syn = none ∧ p = .msg m) ∨
      (∃ h v, fs = [.hdr h, v] ∧ syn = none ∧ p = .payload h v) ∨
      (∃ i a m, fs = [.syn i a, .msg m] ∧ syn = some (i, a) ∧ p = .msg m) ∨
      (∃ i a h v, fs = [.syn i a, .hdr h, v] ∧ syn = some (i, a) ∧ p = .payload h v) := by
  constructor
  · intro h
    cases h with
    | plain m => exact Or.inl ⟨m, rfl, rfl, rfl⟩
    | data h v => exact Or.inr (Or.inl ⟨h, v, rfl, rfl, rfl⟩)
    | synPlain i a m => exact Or.inr (Or.inr (Or.inl ⟨i, a, m, rfl, rfl, rfl⟩))
    | synData i a h v => exact Or.inr (Or.inr (Or.inr ⟨i, a, h, v, rfl, rfl, rfl⟩))
  · rintro (⟨m, rfl, rfl, rfl⟩ | ⟨h, v, rfl, rfl, rfl⟩ | ⟨i, a, m, rfl, rfl, rfl⟩ | ⟨i, a, h, v, rfl, rfl, rfl⟩)
    · exact .plain m
    · exact .data h v
    · exact .synPlain i a m
    · exact .synData i a h v

theorem parse_iff (fs : List Frame) (syn : Option SynId) (p : Parsed) :
    parse fs = .ok (syn, p) ↔ Legal fs syn p := by
  rw [legal_iff]
  rcases fs with _ | ⟨f, _ | ⟨g, _ | ⟨h, _ | ⟨k, rest⟩⟩⟩⟩
  · simp [parse]
  · cases f <;> simp [parse, parseBody, Except.map] <;> grind
  · cases f <;> cases g <;> simp [parse, parseBody, Except.map] <;> grind
  · cases f <;> cases g <;> simp [parse, parseBody, Except.map] <;> grind
  · cases f <;> cases g <;> simp [parse, parseBody, Except.map]

theorem recv_some_iff (acked : Nat → Nat → Bool) (fs : List Frame) (p : Parsed) :
    (recvOne acked fs).res = .ok (some p) ↔
      ∃ syn, Legal fs syn p ∧ ∀ i a, syn = some (i, a) → acked i a = false := by
  simp only [legal_iff]
  rcases fs with _ | ⟨f, _ | ⟨g, _ | ⟨h, _ | ⟨k, rest⟩⟩⟩⟩
  · simp [recvOne]
  · cases f <;> simp [recvOne, parseBody, Except.map] <;> grind
  · cases f <;> cases g <;> simp [recvOne, parseBody, Except.map] <;> (try split) <;> (try simp_all) <;> (try grind)
  · cases f <;> cases g <;> simp [recvOne, parseBody, Except.map] <;> (try split) <;> (try simp_all) <;> (try grind)
  · cases f <;> cases g <;> simp [recvOne, parseBody, Except.map] <;> (try split) <;> (try simp_all)

theorem recv_none_iff (acked : Nat → Nat → Bool) (fs : List Frame) :
    (recvOne acked fs).res = .ok none ↔
      ∃ i a f rest, fs = Frame.syn i a :: f :: rest ∧ acked i a = true := by
  rcases fs with _ | ⟨f, _ | ⟨g, rest⟩⟩
  · simp [recvOne]
  · cases f <;> simp [recvOne, parseBody, Except.map]
  · cases f
    · rename_i i a
      cases hacked : acked i a
      · simp [recvOne, hacked, Except.map]; cases parseBody Err.hdrLen3 Err.len2 (g :: rest) <;> simp [hacked]
      · simp [recvOne, hacked]; exact ⟨i, a, ⟨rfl, rfl⟩, hacked⟩
    all_goals (simp [recvOne, Except.map]; cases parseBody Err.hdrLen2 Err.len1 _ <;> simp)

theorem recv_ack_iff (acked : Nat → Nat → Bool) (fs : List Frame) (ad i : Nat) :
    (recvOne acked fs).ack = some (ad, i) ↔ ∃ rest, fs = Frame.syn i ad :: rest := by
  rcases fs with _ | ⟨f, _ | ⟨g, rest⟩⟩
  · simp [recvOne]
  · cases f <;> simp [recvOne] <;> grind
  · cases f <;> simp [recvOne] <;> (try split) <;> simp <;> grind

theorem recv_mark_iff (acked : Nat → Nat → Bool) (fs : List Frame) (i a : Nat) :
    (recvOne acked fs).mark = some (i, a) ↔
      ∃ f rest, fs = Frame.syn i a :: f :: rest ∧ acked i a = false := by
  rcases fs with _ | ⟨f, _ | ⟨g, rest⟩⟩
  · simp [recvOne]
  · cases f <;> simp [recvOne]
  · cases f <;> simp [recvOne] <;> (try split) <;> (try simp_all) <;> (try grind)

end EkwVerif.Frames
