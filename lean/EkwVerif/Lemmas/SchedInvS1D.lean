/-
Tier S, slice S1, part D: `InvS` is preserved by `notify1` and `assign`.
-/
import EkwVerif.Lemmas.SchedInvS1C

set_option linter.unusedVariables false
set_option linter.unusedSimpArgs false

namespace EkwVerif.Ctrl

/-! ### notify1 -/

theorem sS1_notifySch_frames (cm : Comps) (cl : Cluster) (pre post : Ctl) (sc : Sch) (ev : Event) :
    (sS1_notifySch cm cl pre post sc ev).host2comp = sc.host2comp ∧
    (sS1_notifySch cm cl pre post sc ev).weight = sc.weight ∧
    (sS1_notifySch cm cl pre post sc ev).distDom = sc.distDom ∧
    (sS1_notifySch cm cl pre post sc ev).values = sc.values ∧
    (sS1_notifySch cm cl pre post sc ev).stage = sc.stage ∧
    (sS1_notifySch cm cl pre post sc ev).schErr = sc.schErr ∧
    (∀ w t, t ∈ sc.ovDom w → t ∈ (sS1_notifySch cm cl pre post sc ev).ovDom w) ∧
    (∀ ds, sS1_evDs ev = some ds → ∀ ch, ch ∈ (if pre.ptracked ds then pre.ptrack ds else []) →
      ch ∈ post.computable → ch ∉ pre.computable →
      ∀ w, w ∈ sc.distDom (cm.compOf ch) → ch ∈ (sS1_notifySch cm cl pre post sc ev).ovDom w) := by
  cases ev with
  | pubW w ds =>
    obtain ⟨a1, a2, a3, a4, a5, a6, a7, a8⟩ := sS1_notifyChildren cm cl pre post sc ds w.host
    refine ⟨a1, a2, a3, a4, a5, a6, a7, ?_⟩
    intro ds' hds'
    simp only [sS1_evDs, Option.some.injEq] at hds'
    subst hds'
    exact a8
  | pubT h ds =>
    obtain ⟨a1, a2, a3, a4, a5, a6, a7, a8⟩ := sS1_notifyChildren cm cl pre post sc ds h
    refine ⟨a1, a2, a3, a4, a5, a6, a7, ?_⟩
    intro ds' hds'
    simp only [sS1_evDs, Option.some.injEq] at hds'
    subst hds'
    exact a8
  | payload ds v =>
    refine ⟨rfl, rfl, rfl, rfl, rfl, rfl, fun _ _ h => h, ?_⟩
    intro ds' hds'
    simp [sS1_evDs] at hds'

theorem sS1_step_notify1 (f : Sem) (j : Job) (cl : Cluster) (cm : Comps) (x x' : SysX) (wf : WF j cl) (wfc : WFC j cm)
    (hA : InvAll f j cl x.sys) (hS : InvS j cl cm x) (hX : InvS1X j cm x)
    (hs : stepX f j cl cm x (.base .notify1) = some x') : InvS j cl cm x' := by
  have h1 := hA.h1
  have h2 := hA.h2
  obtain ⟨_, hb, ev, rest, hin, hsch⟩ := sS1_notify1_spec f j cl cm x x' hs
  obtain ⟨hph, ev', rest', hin', hcase⟩ := sS1_notify1_frames f j cl x.sys x'.sys hb
  rw [hin] at hin'
  simp only [List.cons.injEq] at hin'
  obtain ⟨rfl, rfl⟩ := hin'
  have hstg : x.sch.stage = .off ∨ x.sch.stage = .done := hS.stage_phase (by simp [hph])
  have htodo : x.sys.todo = [] := h1.todo_phase (by simp [hph]) (by simp [hph]) (by simp [hph])
  rcases hcase with ⟨hctl, htd, hph'⟩ | ⟨c2, hne, hctl, htd, hph'⟩
  · have hsch' : x'.sch = x.sch := by rw [hsch]; simp [hph']
    refine hS.sS1_congr (by rw [hsch']) (by rw [hsch']) (by rw [hsch']) (by rw [hctl]) (by rw [hctl]; exact fun _ h => h)
      (by rw [hsch']; exact fun _ _ h => h) (by rw [hsch']; exact fun _ _ h => h) ?_ ?_ ?_ (by rw [hsch']; exact hS.no_schErr)
    · intro w t hf
      simpa only [Sys.inFlight, Sys.todoPairs, htd, hctl] using hf
    · exact sS1_stageOk_offdone cl cm x' (by rw [hsch']; exact hstg)
    · intro _; rw [hsch']; exact hstg
  · have hsch' : x'.sch = sS1_notifySch cm cl x.sys.ctl c2 x.sch ev := by
      rw [hsch, hctl]; simp [hph', hph]
    obtain ⟨a1, a2, a3, a4, a5, a6, a7, a8⟩ := sS1_notifySch_frames cm cl x.sys.ctl c2 x.sch ev
    rw [← hsch'] at a1 a2 a3 a4 a5 a6 a7 a8
    obtain ⟨hd, hwk⟩ := notifyEvent_workers j x.sys.ctl c2 ev hne
    obtain ⟨hpt, hcmono, hcnew⟩ := sS1_notifyEvent_frames j x.sys.ctl c2 ev hne
    have ho := once_notifyEvent j x.sys.ctl c2 ev h1.once hne
    -- the announced dataset's producer has been dispatched (and planned: `todo` is empty)
    have hdisp : ∀ ds, sS1_evDs ev = some ds → x.sys.ctl.dispatched ds.task = 1 := by
      intro ds hds
      cases ev with
      | pubW w d =>
        simp only [sS1_evDs, Option.some.injEq] at hds; subst hds
        exact h1.ev_disp w d (by rw [hin]; simp)
      | pubT h d =>
        simp only [sS1_evDs, Option.some.injEq] at hds; subst hds
        have hp := hA.h2x.evT_produced h d (by simp [Sys.allEv, hin])
        exact (h2.ran_disp d.task ((h2.produced_iff d).mp hp).1).1
      | payload d v => simp [sS1_evDs] at hds
    have hsub : ∀ p, p ∈ c2.ongoing → p ∈ x.sys.ctl.ongoing := by
      intro p hp
      rcases hwk with ⟨_, hon⟩ | ⟨w, t, _, hon, _⟩
      · rw [hon] at hp; exact hp
      · rw [hon] at hp; exact List.mem_of_mem_erase hp
    refine ⟨?_, ?_, ?_, ?_, ?_, ?_, ?_, ?_, ?_⟩
    · -- values_comp
      intro t ht
      rw [hctl] at ht
      rw [a4]
      rcases hcnew t ht with hold | ⟨ds, hds, hch⟩
      · exact hS.values_comp t hold
      · have hmem : t ∈ x.sys.ctl.ptrack ds := by
          split at hch
          · exact hch
          · cases hch
        have hc := hX.ptrack_sub ds t hmem
        rcases hX.plan_values ds t hc (hdisp ds hds) (by intro w hw; simp [Sys.todoPairs, htodo] at hw) with h | h
        · exact h
        · have := ho.comp t ht
          rw [hd] at this
          omega
    · intro h c hc w hw; rw [a3]; rw [a1] at hc; exact hS.host_dist h c hc w hw
    · intro h c hc; rw [a1] at hc; exact hS.host_comp_lt h c hc
    · -- ov_comp
      intro w t hw ht
      rw [a3] at hw
      rw [hctl] at ht
      by_cases hpre : t ∈ x.sys.ctl.computable
      · exact a7 w t (hS.ov_comp w t hw hpre)
      · rcases hcnew t ht with hold | ⟨ds, hds, hch⟩
        · exact absurd hold hpre
        · exact a8 ds hds t hch ht hpre w hw
    · -- flight_dist
      intro w t hf
      rw [a3]
      refine hS.flight_dist w t ?_
      simp only [Sys.inFlight, Sys.todoPairs, htd, hctl] at hf ⊢
      rcases hf with hf | hf
      · exact Or.inl (hsub _ hf)
      · exact Or.inr hf
    · intro c
      rw [a2, sS1_undispatched_congr j cm x.sys.ctl x'.sys.ctl (by rw [hctl, hd])]
      exact hS.weight_eq c
    · exact sS1_stageOk_offdone cl cm x' (by rw [a5]; exact hstg)
    · intro _; rw [a5]; exact hstg
    · rw [a6]; exact hS.no_schErr

/-! ### assign -/

theorem sS1_filter_count (l : List Nat) (p q : Nat → Bool) (a : Nat) (hq : ∀ t, t ≠ a → q t = p t)
    (hqa : q a = false) (hpa : p a = true) (hnd : l.Nodup) :
    (l.filter q).length = (l.filter p).length - (if a ∈ l then 1 else 0) := by
  induction l with
  | nil => simp
  | cons x l ih =>
    have hnd' := List.nodup_cons.mp hnd
    have ih' := ih hnd'.2
    by_cases hx : x = a
    · subst hx
      have hnl : x ∉ l := hnd'.1
      simp only [hnl, if_false] at ih'
      simp [List.filter_cons, hqa, hpa, ih']
    · have hqx := hq x hx
      have hne : a ≠ x := fun h => hx h.symm
      have hmem : (a ∈ x :: l) ↔ a ∈ l := by simp [hne]
      simp only [List.filter_cons, hqx, hmem]
      cases hpx : p x with
      | false => simpa using ih'
      | true =>
        simp only [if_true, List.length_cons]
        by_cases hal : a ∈ l
        · have : 0 < (l.filter p).length := List.length_pos_of_mem (List.mem_filter.mpr ⟨hal, hpa⟩)
          simp only [hal, if_true] at ih' ⊢
          omega
        · simp only [hal, if_false] at ih' ⊢
          omega

theorem sS1_undispatched_assign (j : Job) (cm : Comps) (c c2 : Ctl) (a : Task) (halt : a < j.tasks.length)
    (hd0 : c.dispatched a = 0) (hd : c2.dispatched = upd c.dispatched a 1) (comp : Nat) :
    undispatched j cm c2 comp = if cm.compOf a = comp then undispatched j cm c comp - 1 else undispatched j cm c comp := by
  unfold undispatched
  rw [hd]
  split
  · rename_i hc
    have := sS1_filter_count j.taskIds (fun t => cm.compOf t == comp && c.dispatched t == 0)
      (fun t => cm.compOf t == comp && upd c.dispatched a 1 t == 0) a
      (by intro t ht; simp [upd_other _ _ _ _ ht]) (by simp) (by simp [hc, hd0])
      (by simp [Job.taskIds, List.nodup_range])
    rw [this]
    have hm : a ∈ j.taskIds := by simp [Job.taskIds, halt]
    simp [hm]
  · rename_i hc
    congr 1
    apply List.filter_congr
    intro t _
    by_cases hta : t = a
    · subst hta; simp [hc]
    · simp [upd_other _ _ _ _ hta]

theorem sS1_assignSch_eq (sc : Sch) (c : Nat) (st' : AStage) (a : Asg) (h : a.task ∈ sc.values c) :
    (sS1_assignSch sc c st' a).host2comp = sc.host2comp ∧
    (sS1_assignSch sc c st' a).distDom = sc.distDom ∧
    (sS1_assignSch sc c st' a).ovDom = sc.ovDom ∧
    (sS1_assignSch sc c st' a).schErr = sc.schErr ∧
    (sS1_assignSch sc c st' a).weight = upd sc.weight c (sc.weight c - 1) := by
  unfold sS1_assignSch
  have : (sc.values c).contains a.task = true := by simpa using h
  dsimp only
  rw [if_pos this]
  exact ⟨rfl, rfl, rfl, rfl, rfl⟩

theorem sS1_step_assign (f : Sem) (j : Job) (cl : Cluster) (cm : Comps) (x x' : SysX) (a : Asg) (wf : WF j cl)
    (wfc : WFC j cm) (hA : InvAll f j cl x.sys) (hA' : InvAll f j cl x'.sys) (hS : InvS j cl cm x) (hX : InvS1X j cm x)
    (hs : stepX f j cl cm x (.base (.assign a)) = some x') : InvS j cl cm x' := by
  have h1 := hA.h1
  have h2 := hA.h2
  obtain ⟨_, hb, c, cls, tasks, workers, phase, cpuT, cpuW, k, hstage, hat, haw, hsch⟩ := sS1_assign_spec f j cl cm x x' a hs
  obtain ⟨hph, hcase⟩ := sS1_assign_frames f j cl x.sys x'.sys a hb
  rcases hcase with ⟨_, _, _, herr⟩ | ⟨c2, prep, has, hctl, htd, hph'⟩
  · exact absurd herr hA'.h4.no_err_notfound
  · have hsch' : x'.sch = sS1_assignSch x.sch c (.inH c cls (tasks.erase a.task) (workers.erase a.worker) phase cpuT cpuW k) a := by
      rw [hsch]; simp [hph', hph]
    obtain ⟨ho, hd0, hd', hcomp, hidle, hi', hon', hgpu⟩ := once_assignOne j cl x.sys.ctl c2 a prep h1.once has
    obtain ⟨_, _, _, _, _, _, _, _, fcomp, _⟩ := i2a_assignOne_frames j cl x.sys.ctl c2 a prep has
    have hso := hS.stage_ok
    unfold StageOk at hso
    rw [hstage] at hso
    dsimp only at hso
    obtain ⟨soW, soT, soG⟩ := hso
    have hn := hX.stage_nodup
    simp only [sS1_StageNodup, hstage] at hn
    obtain ⟨hnW, hnT⟩ := hn
    have hca : cm.compOf a.task = c := (soT a.task (List.mem_append.mpr (Or.inl hat))).2
    have hwa := soW a.worker (List.mem_append.mpr (Or.inl haw))
    have hval : a.task ∈ x.sch.values c := by rw [← hca]; exact hS.values_comp a.task hcomp
    obtain ⟨b1, b2, b3, b4, b5⟩ := sS1_assignSch_eq x.sch c (.inH c cls (tasks.erase a.task) (workers.erase a.worker) phase cpuT cpuW k) a hval
    rw [← hsch'] at b1 b2 b3 b4 b5
    have hst' : x'.sch.stage = .inH c cls (tasks.erase a.task) (workers.erase a.worker) phase cpuT cpuW k := by
      rw [hsch']; rfl
    have hcsub : ∀ t, t ∈ x'.sys.ctl.computable → t ∈ x.sys.ctl.computable ∧ t ≠ a.task := by
      intro t ht
      rw [hctl, fcomp] at ht
      have := (List.Nodup.mem_erase_iff h1.once.nodup).mp ht
      exact ⟨this.2, this.1⟩
    have hwd : a.worker ∈ x.sch.distDom c :=
      hS.host_dist a.worker.host c hwa.2 a.worker ((sS1_mem_workersOf cl _ _).mpr ⟨h1.idle_known _ hidle, rfl⟩)
    refine ⟨?_, ?_, ?_, ?_, ?_, ?_, ?_, ?_, ?_⟩
    · intro t ht
      obtain ⟨h3, h4⟩ := hcsub t ht
      rw [hsch']
      exact sS1_assignSch_values _ _ _ _ _ _ h4 (hS.values_comp t h3)
    · intro h c' hc w hw; rw [b2]; rw [b1] at hc; exact hS.host_dist h c' hc w hw
    · intro h c' hc; rw [b1] at hc; exact hS.host_comp_lt h c' hc
    · intro w t hw ht
      rw [b2] at hw; rw [b3]
      exact hS.ov_comp w t hw (hcsub t ht).1
    · intro w t hf
      rw [b2]
      simp only [Sys.inFlight, Sys.todoPairs, htd, hctl, hon', List.map_append, List.map_cons, List.map_nil,
        List.mem_append, List.mem_singleton, Prod.mk.injEq] at hf
      rcases hf with hf | hf | ⟨rfl, rfl⟩
      · exact hS.flight_dist w t (Or.inl hf)
      · exact hS.flight_dist w t (Or.inr hf)
      · rw [hca]; exact hwd
    · intro c'
      rw [b5, sS1_undispatched_assign j cm x.sys.ctl x'.sys.ctl a.task (h2.comp_valid _ hcomp) hd0 (by rw [hctl, hd']) c', hca]
      by_cases hcc : c = c'
      · subst hcc; simp [hS.weight_eq]
      · have : c' ≠ c := fun h => hcc h.symm
        simp [hcc, upd_other _ _ _ _ this, hS.weight_eq]
    · unfold StageOk
      rw [hst']
      dsimp only
      have hnW' := List.nodup_append.mp hnW
      have hnT' := List.nodup_append.mp hnT
      refine ⟨?_, ?_, ?_⟩
      · intro w hw
        rw [b1, hctl, hi']
        have hw0 : w ∈ workers ++ cpuW ∧ w ≠ a.worker := by
          rcases List.mem_append.mp hw with hw | hw
          · have := (List.Nodup.mem_erase_iff hnW'.1).mp hw
            exact ⟨List.mem_append.mpr (Or.inl this.2), this.1⟩
          · exact ⟨List.mem_append.mpr (Or.inr hw), fun h => hnW'.2.2 a.worker haw w hw h.symm⟩
        have := soW w hw0.1
        exact ⟨(List.mem_erase_of_ne hw0.2).mpr this.1, this.2⟩
      · intro t ht
        rw [hctl, fcomp]
        have ht0 : t ∈ tasks ++ cpuT ∧ t ≠ a.task := by
          rcases List.mem_append.mp ht with ht | ht
          · have := (List.Nodup.mem_erase_iff hnT'.1).mp ht
            exact ⟨List.mem_append.mpr (Or.inl this.2), this.1⟩
          · exact ⟨List.mem_append.mpr (Or.inr ht), fun h => hnT'.2.2 a.task hat t ht h.symm⟩
        have := soT t ht0.1
        exact ⟨(List.mem_erase_of_ne ht0.2).mpr this.1, this.2⟩
      · intro hg w hw
        exact soG hg w (List.mem_of_mem_erase hw)
    · intro hne
      rw [hph', hph] at hne
      exact absurd rfl hne
    · rw [b4]; exact hS.no_schErr

end EkwVerif.Ctrl
