/-
Tier 4 (`Inv4`) preservation, slice A, step `.assign a`.
-/
import EkwVerif.Lemmas.CtrlInv4A
import EkwVerif.Lemmas.CtrlInvT

namespace EkwVerif.Ctrl

theorem i4a_eligible_false (s : Status) : s.eligible = false ↔ s = .missing := by
  cases s <;> simp [Status.eligible]

theorem i4a_eligible_true (s : Status) : s.eligible = true ↔ s ≠ .missing := by
  cases s <;> simp [Status.eligible]

/-- the inputs for which `build_assignment` has to order a transmit -/
def i4a_tx (c : Ctl) (w : Worker) (l : List Ds) (ds : Ds) : Prop :=
  ds ∈ l ∧ c.workerDs w ds = .missing ∧ c.hostDs w.host ds = .missing

/-- what `buildPrep` does to the statuses and which prep entries it returns -/
theorem i4a_buildPrep_spec (cl : Cluster) (w : Worker) (cands : List (Ds × Host)) (l : List Ds) (c c' : Ctl)
    (p : List (Ds × Host)) (hnd : l.Nodup) (hr : buildPrep cl w cands c l = .ok (c', p)) :
    (∀ ds, i4a_tx c w l ds → c'.hostDs w.host ds = .preparing ∧ c'.dsHost ds w.host = .preparing) ∧
    (∀ h ds, ¬ (h = w.host ∧ i4a_tx c w l ds) → c'.hostDs h ds = c.hostDs h ds ∧ c'.dsHost ds h = c.dsHost ds h) ∧
    (∀ ds src, (ds, src) ∈ p → ds ∈ l ∧ c.workerDs w ds = .missing ∧
        ((src = w.host ∧ c.hostDs w.host ds ≠ .missing) ∨
         (c.hostDs w.host ds = .missing ∧ c.dsHost ds src = .available))) ∧
    (∀ ds, ds ∈ l → c.workerDs w ds ≠ .missing ∨ c.hostDs w.host ds ≠ .missing ∨
        ∃ src, (ds, src) ∈ p ∧ c.dsHost ds src = .available) := by
  induction l generalizing c c' p with
  | nil =>
    simp only [buildPrep, Except.ok.injEq, Prod.mk.injEq] at hr
    obtain ⟨rfl, rfl⟩ := hr
    simp [i4a_tx]
  | cons a l ih =>
    have hnd' := (List.nodup_cons.mp hnd)
    unfold buildPrep at hr
    split at hr
    · rename_i hel
      rw [i4a_eligible_true] at hel
      obtain ⟨i1, i2, i3, i4⟩ := ih _ _ _ hnd'.2 hr
      have htx : ∀ ds, i4a_tx c w (a :: l) ds ↔ i4a_tx c w l ds := by
        intro ds; simp only [i4a_tx, List.mem_cons]; grind
      refine ⟨fun ds h => i1 ds ((htx ds).mp h), fun h ds hn => i2 h ds (by rw [← htx]; exact hn), ?_, ?_⟩
      · intro ds src hm
        have := i3 ds src hm
        exact ⟨List.mem_cons_of_mem _ this.1, this.2⟩
      · intro ds hm
        rcases List.mem_cons.mp hm with rfl | hm
        · exact Or.inl hel
        · exact i4 ds hm
    · rename_i hnel
      simp only [Bool.not_eq_true, i4a_eligible_false] at hnel
      split at hr
      · rename_i hel
        rw [i4a_eligible_true] at hel
        split at hr
        · cases hr
        · rename_i c2 p2 hc2
          cases hr
          obtain ⟨i1, i2, i3, i4⟩ := ih _ _ _ hnd'.2 hc2
          have htx : ∀ ds, i4a_tx c w (a :: l) ds ↔ i4a_tx c w l ds := by
            intro ds; simp only [i4a_tx, List.mem_cons]; grind
          refine ⟨fun ds h => i1 ds ((htx ds).mp h), fun h ds hn => i2 h ds (by rw [← htx]; exact hn), ?_, ?_⟩
          · intro ds src hm
            rcases List.mem_cons.mp hm with heq | hm
            · simp only [Prod.mk.injEq] at heq
              obtain ⟨rfl, rfl⟩ := heq
              exact ⟨List.mem_cons_self, hnel, Or.inl ⟨rfl, hel⟩⟩
            · have := i3 ds src hm
              exact ⟨List.mem_cons_of_mem _ this.1, this.2⟩
          · intro ds hm
            rcases List.mem_cons.mp hm with rfl | hm
            · exact Or.inr (Or.inl hel)
            · rcases i4 ds hm with h | h | ⟨src, h, h'⟩
              · exact Or.inl h
              · exact Or.inr (Or.inl h)
              · exact Or.inr (Or.inr ⟨src, List.mem_cons_of_mem _ h, h'⟩)
      · rename_i hnel2
        simp only [Bool.not_eq_true, i4a_eligible_false] at hnel2
        split at hr
        · rename_i x src hfind
          split at hr
          · rename_i hav
            have hav' : c.dsHost a src = .available := by simpa using hav
            dsimp only at hr
            split at hr
            · cases hr
            · rename_i c2 p2 hc2
              cases hr
              obtain ⟨i1, i2, i3, i4⟩ := ih _ _ _ hnd'.2 hc2
              simp only at i1 i2 i3 i4
              have hne : ∀ ds, ds ∈ l → ds ≠ a := by
                intro ds hm heq; subst heq; exact hnd'.1 hm
              have htx : ∀ ds, ds ∈ l →
                  (i4a_tx { c with hostDs := upd c.hostDs w.host (upd (c.hostDs w.host) a .preparing),
                                   dsHost := upd c.dsHost a (upd (c.dsHost a) w.host .preparing) } w l ds ↔
                    i4a_tx c w l ds) := by
                intro ds hm
                have := hne ds hm
                simp only [i4a_tx, upd_same, upd_other _ _ _ _ this]
              have hna : ¬
                  (i4a_tx { c with hostDs := upd c.hostDs w.host (upd (c.hostDs w.host) a .preparing),
                                   dsHost := upd c.dsHost a (upd (c.dsHost a) w.host .preparing) } w l a) := by
                intro h; exact hnd'.1 h.1
              refine ⟨?_, ?_, ?_, ?_⟩
              · intro ds htxd
                obtain ⟨hm, hw, hh⟩ := htxd
                rcases List.mem_cons.mp hm with rfl | hm
                · have := i2 w.host ds (fun h => hna h.2)
                  simp only [upd_same] at this
                  exact this
                · exact i1 ds ((htx ds hm).mpr ⟨hm, hw, hh⟩)
              · intro h ds hn
                have hda : ¬ (h = w.host ∧ ds = a) := by
                  rintro ⟨rfl, rfl⟩
                  exact hn ⟨rfl, List.mem_cons_self, hnel, hnel2⟩
                have hn2 : ¬ (h = w.host ∧
                  i4a_tx { c with hostDs := upd c.hostDs w.host (upd (c.hostDs w.host) a .preparing),
                                  dsHost := upd c.dsHost a (upd (c.dsHost a) w.host .preparing) } w l ds) := by
                  rintro ⟨rfl, htxd⟩
                  have hm := htxd.1
                  have := (htx ds hm).mp htxd
                  exact hn ⟨rfl, List.mem_cons_of_mem _ hm, this.2⟩
                have := i2 h ds hn2
                rw [this.1, this.2]
                constructor
                · by_cases hh : h = w.host
                  · subst hh
                    have hd : ds ≠ a := fun e => hda ⟨rfl, e⟩
                    simp [upd, hd]
                  · simp [upd, hh]
                · by_cases hd : ds = a
                  · subst hd
                    have hh : h ≠ w.host := fun e => hda ⟨e, rfl⟩
                    simp [upd, hh]
                  · simp [upd, hd]
              · intro ds src' hm
                rcases List.mem_cons.mp hm with heq | hm
                · simp only [Prod.mk.injEq] at heq
                  obtain ⟨rfl, rfl⟩ := heq
                  exact ⟨List.mem_cons_self, hnel, Or.inr ⟨hnel2, hav'⟩⟩
                · have := i3 ds src' hm
                  have hd := hne ds this.1
                  simp only [upd_same, upd_other _ _ _ _ hd] at this
                  exact ⟨List.mem_cons_of_mem _ this.1, this.2⟩
              · intro ds hm
                rcases List.mem_cons.mp hm with rfl | hm
                · exact Or.inr (Or.inr ⟨src, List.mem_cons_self, hav'⟩)
                · have hd := hne ds hm
                  have := i4 ds hm
                  simp only [upd_same, upd_other _ _ _ _ hd] at this
                  rcases this with h | h | ⟨src', h, h'⟩
                  · exact Or.inl h
                  · exact Or.inr (Or.inl h)
                  · exact Or.inr (Or.inr ⟨src', List.mem_cons_of_mem _ h, h'⟩)
          · cases hr
        · split at hr <;> cases hr

/-- the only exception `buildPrep` can raise, and when -/
theorem i4a_buildPrep_err (cl : Cluster) (w : Worker) (cands : List (Ds × Host)) (l : List Ds) (c : Ctl)
    (msg : String) (hnd : l.Nodup) (hr : buildPrep cl w cands c l = .error (.raised msg)) :
    ∃ ds, ds ∈ l ∧ ∀ h, h ∈ cl.hosts → c.dsHost ds h ≠ .available := by
  induction l generalizing c with
  | nil => simp [buildPrep] at hr
  | cons a l ih =>
    have hnd' := (List.nodup_cons.mp hnd)
    unfold buildPrep at hr
    split at hr
    · obtain ⟨ds, hm, h⟩ := ih _ hnd'.2 hr
      exact ⟨ds, List.mem_cons_of_mem _ hm, h⟩
    · split at hr
      · split at hr
        · rename_i e3 h3
          simp only [Except.error.injEq] at hr; subst hr
          obtain ⟨ds, hm, h⟩ := ih _ hnd'.2 h3
          exact ⟨ds, List.mem_cons_of_mem _ hm, h⟩
        · cases hr
      · split at hr
        · split at hr
          · dsimp only at hr
            split at hr
            · rename_i e3 h3
              simp only [Except.error.injEq] at hr; subst hr
              obtain ⟨ds, hm, h⟩ := ih _ hnd'.2 h3
              have hd : ds ≠ a := by intro heq; subst heq; exact hnd'.1 hm
              refine ⟨ds, List.mem_cons_of_mem _ hm, ?_⟩
              intro hh hmem
              have := h hh hmem
              simpa only [upd_other _ _ _ _ hd] using this
            · cases hr
          · simp at hr
        · split at hr
          · simp at hr
          · rename_i hany
            refine ⟨a, List.mem_cons_self, ?_⟩
            intro hh hmem hav
            apply hany
            simp only [List.any_eq_true, beq_iff_eq]
            exact ⟨hh, hmem, hav⟩

theorem i4a_assignOne_err (j : Job) (cl : Cluster) (c : Ctl) (a : Asg) (msg : String)
    (hr : assignOne j cl c a = .error (.raised msg)) :
    a.task ∈ c.computable ∧ buildPrep cl a.worker a.cands c (j.inputs a.task) = .error (.raised msg) := by
  unfold assignOne at hr
  split at hr; · simp at hr
  split at hr; · simp at hr
  rename_i hcomp
  split at hr; · simp at hr
  split at hr
  · rename_i e hb
    simp only [Except.error.injEq] at hr; subst hr
    exact ⟨by simpa using hcomp, hb⟩
  · cases hr

theorem i4a_assignOne_spec (j : Job) (cl : Cluster) (c c2 : Ctl) (a : Asg) (prep : List (Ds × Host))
    (hnd : (j.inputs a.task).Nodup) (hr : assignOne j cl c a = .ok (c2, prep)) :
    a.task ∈ c.computable ∧ a.worker ∈ c.idle ∧
    c2.workerDs = c.workerDs ∧ c2.doneC = c.doneC ∧ c2.outputs = c.outputs ∧ c2.announced = c.announced ∧
    c2.ongoing = c.ongoing ∧
    (∀ ds, i4a_tx c a.worker (j.inputs a.task) ds →
        c2.hostDs a.worker.host ds = .preparing ∧ c2.dsHost ds a.worker.host = .preparing) ∧
    (∀ h ds, ¬ (h = a.worker.host ∧ i4a_tx c a.worker (j.inputs a.task) ds) →
        c2.hostDs h ds = c.hostDs h ds ∧ c2.dsHost ds h = c.dsHost ds h) ∧
    (∀ ds src, (ds, src) ∈ prep → ds ∈ j.inputs a.task ∧ c.workerDs a.worker ds = .missing ∧
        ((src = a.worker.host ∧ c.hostDs a.worker.host ds ≠ .missing) ∨
         (c.hostDs a.worker.host ds = .missing ∧ c.dsHost ds src = .available))) ∧
    (∀ ds, ds ∈ j.inputs a.task → c.workerDs a.worker ds ≠ .missing ∨ c.hostDs a.worker.host ds ≠ .missing ∨
        ∃ src, (ds, src) ∈ prep ∧ c.dsHost ds src = .available) := by
  unfold assignOne at hr
  split at hr; · cases hr
  rename_i hidle
  split at hr; · cases hr
  rename_i hcomp
  split at hr; · cases hr
  split at hr; · cases hr
  rename_i cb prep' hb
  simp only [Except.ok.injEq, Prod.mk.injEq] at hr
  obtain ⟨rfl, rfl⟩ := hr
  obtain ⟨s1, s2, s3, s4⟩ := i4a_buildPrep_spec _ _ _ _ _ _ _ hnd hb
  have f1 : cb.workerDs = c.workerDs := buildPrep_workerDs _ _ _ _ _ _ _ hb
  have f2 : cb.doneC = c.doneC := buildPrep_doneC _ _ _ _ _ _ _ hb
  have f3 : cb.outputs = c.outputs := buildPrep_outputs _ _ _ _ _ _ _ hb
  have f4 : cb.announced = c.announced := buildPrep_announced _ _ _ _ _ _ _ hb
  have f5 : cb.ongoing = c.ongoing := buildPrep_ongoing _ _ _ _ _ _ _ hb
  exact ⟨by simpa using hcomp, by simpa using hidle, f1, f2, f3, f4, f5, s1, s2, s3, s4⟩

/-! ### the environment side -/

/-- a batch of transmit commands whose sources hold the dataset -/
theorem i4a_applyTransmits (j : Job) (cl : Cluster) (tgt : Host) (l : List (Ds × Host)) (e : Env)
    (hp : ∀ p, p ∈ l → (e.present p.2 p.1).isSome = true) :
    (applyCmds j cl e (l.map (fun p => Cmd.transmit p.1 p.2 tgt))).present = e.present ∧
    (applyCmds j cl e (l.map (fun p => Cmd.transmit p.1 p.2 tgt))).queued = e.queued ∧
    (applyCmds j cl e (l.map (fun p => Cmd.transmit p.1 p.2 tgt))).pending = e.pending ∧
    (applyCmds j cl e (l.map (fun p => Cmd.transmit p.1 p.2 tgt))).ran = e.ran ∧
    (applyCmds j cl e (l.map (fun p => Cmd.transmit p.1 p.2 tgt))).produced = e.produced ∧
    (applyCmds j cl e (l.map (fun p => Cmd.transmit p.1 p.2 tgt))).purged = e.purged ∧
    (applyCmds j cl e (l.map (fun p => Cmd.transmit p.1 p.2 tgt))).viol = e.viol ∧
    (applyCmds j cl e (l.map (fun p => Cmd.transmit p.1 p.2 tgt))).outstanding =
      e.outstanding ++ l.map (fun p => IO.transmit p.1 p.2 tgt) := by
  induction l generalizing e with
  | nil => simp [applyCmds]
  | cons x l ih =>
    have hx := hp x (by simp)
    have := ih (applyCmd j cl e (.transmit x.1 x.2 tgt))
      (by intro p hm; simpa [applyCmd] using hp p (by simp [hm]))
    simp only [applyCmds, List.map_cons, List.foldl_cons] at this ⊢
    obtain ⟨a1, a2, a3, a4, a5, a6, a7, a8⟩ := this
    refine ⟨by rw [a1]; simp [applyCmd], by rw [a2]; simp [applyCmd], by rw [a3]; simp [applyCmd],
      by rw [a4]; simp [applyCmd], by rw [a5]; simp [applyCmd], by rw [a6]; simp [applyCmd],
      by rw [a7]; simp [applyCmd, Env.flag, hx], by rw [a8]; simp [applyCmd]⟩

theorem i4a_inbound_mono (e e' : Env) (extra : List IO) (h : e'.outstanding = e.outstanding ++ extra)
    (ds : Ds) (hh : Host) (hi : inboundTransmit e ds hh = true) : inboundTransmit e' ds hh = true := by
  simp only [inboundTransmit, h, List.any_append, Bool.or_eq_true] at hi ⊢
  exact Or.inl hi

theorem i4a_inbound_new (e : Env) (ds : Ds) (src tgt : Host) (h : IO.transmit ds src tgt ∈ e.outstanding) :
    inboundTransmit e ds tgt = true := by
  simp only [inboundTransmit, List.any_eq_true]
  exact ⟨_, h, by simp⟩

theorem i4a_host_mem (cl : Cluster) (w : Worker) (h : w ∈ cl.ids) : w.host ∈ cl.hosts := by
  simp only [Cluster.hosts, Cluster.ids, List.mem_map, List.mem_eraseDups] at h ⊢
  obtain ⟨p, hp, rfl⟩ := h
  exact ⟨p, hp, rfl⟩

/-- facts about the inputs of a computable task -/
theorem i4a_inputs_facts (j : Job) (cl : Cluster) (s : Sys) (t : Task) (h1 : Inv1 cl s) (h2 : Inv2 j cl s)
    (hcomp : t ∈ s.ctl.computable) :
    s.ctl.dispatched t = 0 ∧ s.ctl.doneC t = false ∧
    ∀ d, d ∈ j.inputs t → s.ctl.announced d = true ∧ t ∈ j.consumers d ∧ needed j s.ctl d := by
  have hd0 := h1.once.comp t hcomp
  have hnd : s.ctl.doneC t = false := by
    cases hdc : s.ctl.doneC t with
    | false => rfl
    | true =>
      have := (h2.ran_disp t (h2.done_ran t hdc)).1
      omega
  refine ⟨hd0, hnd, ?_⟩
  intro d hd
  have hcons : t ∈ j.consumers d := by
    simp only [Job.consumers, Job.taskIds, List.mem_filter, List.mem_range, List.contains_iff_mem]
    exact ⟨h2.comp_valid t hcomp, hd⟩
  exact ⟨h2.ready t (Or.inl hcomp) d hd, hcons, Or.inl ⟨t, hcons, hnd⟩⟩

theorem i4a_step_assign (f : Sem) (j : Job) (cl : Cluster) (s s' : Sys) (a : Asg) (wf : WF j cl)
    (h1 : Inv1 cl s) (h2 : Inv2 j cl s) (_h3 : Inv3 f j cl s) (h4 : Inv4 j cl s) (hT : InvT j s)
    (hs : step f j cl s (.assign a) = some s') : Inv4 j cl s' := by
  simp only [step] at hs
  split at hs; · cases hs
  split at hs
  · cases hs
  · -- the crash branch is impossible
    rename_i e he
    exfalso
    obtain ⟨hcomp, hb⟩ := i4a_assignOne_err j cl s.ctl a e he
    obtain ⟨_, _, hin⟩ := i4a_inputs_facts j cl s a.task h1 h2 hcomp
    obtain ⟨ds, hm, hno⟩ := i4a_buildPrep_err _ _ _ _ _ _ (wf.inputsNodup a.task) hb
    obtain ⟨han, hcons, _⟩ := hin ds hm
    have hndone := (i4a_inputs_facts j cl s a.task h1 h2 hcomp).2.1
    obtain ⟨hh, hhm, hav⟩ := h4.avail_somewhere ds han ⟨a.task, hcons, hndone⟩
    exact hno hh hhm hav
  · rename_i c2 prep has
    cases hs
    obtain ⟨hcomp, hidle, e_wd, e_done, e_outs, e_ann, e_ong, S1, S2, S3, S4⟩ :=
      i4a_assignOne_spec j cl s.ctl c2 a prep (wf.inputsNodup a.task) has
    obtain ⟨hd0, hndone, hin⟩ := i4a_inputs_facts j cl s a.task h1 h2 hcomp
    have hwk : a.worker ∈ cl.ids := h1.idle_known a.worker hidle
    have hwh : a.worker.host ∈ cl.hosts := i4a_host_mem cl a.worker hwk
    have hneed : ∀ ds, needed j c2 ds ↔ needed j s.ctl ds := by
      intro ds; simp only [needed, e_done, e_outs]
    -- statuses only go from missing to preparing
    have hmono : ∀ h ds, s.ctl.hostDs h ds ≠ .missing → c2.hostDs h ds ≠ .missing := by
      intro h ds hne
      have : ¬ (h = a.worker.host ∧ i4a_tx s.ctl a.worker (j.inputs a.task) ds) := by
        rintro ⟨rfl, htx⟩; exact hne htx.2.2
      rw [(S2 h ds this).1]; exact hne
    have hback : ∀ h ds, c2.hostDs h ds ≠ .missing →
        s.ctl.hostDs h ds ≠ .missing ∨ (h = a.worker.host ∧ i4a_tx s.ctl a.worker (j.inputs a.task) ds) := by
      intro h ds hne
      by_cases hc : h = a.worker.host ∧ i4a_tx s.ctl a.worker (j.inputs a.task) ds
      · exact Or.inr hc
      · rw [(S2 h ds hc).1] at hne; exact Or.inl hne
    have havail : ∀ ds h, c2.dsHost ds h = .available ↔ s.ctl.dsHost ds h = .available := by
      intro ds h
      by_cases hc : h = a.worker.host ∧ i4a_tx s.ctl a.worker (j.inputs a.task) ds
      · obtain ⟨rfl, htx⟩ := hc
        have hm := (h4.keys _ _).mp htx.2.2
        rw [(S1 ds htx).2, hm]; simp
      · rw [(S2 h ds hc).2]
    -- a prep entry with a foreign source
    have hforeign : ∀ ds src, (ds, src) ∈ prep → src ≠ a.worker.host →
        ds ∈ j.inputs a.task ∧ i4a_tx s.ctl a.worker (j.inputs a.task) ds ∧ s.ctl.dsHost ds src = .available := by
      intro ds src hm hne
      obtain ⟨k1, k2, k3⟩ := S3 ds src hm
      rcases k3 with ⟨k3, _⟩ | ⟨k3, k4⟩
      · exact absurd k3 hne
      · exact ⟨k1, ⟨k1, k2, k3⟩, k4⟩
    -- an input that needs a transmit has a foreign source in prep
    have hsrc : ∀ ds, i4a_tx s.ctl a.worker (j.inputs a.task) ds →
        ∃ src, (ds, src) ∈ prep ∧ src ≠ a.worker.host ∧ s.ctl.dsHost ds src = .available := by
      intro ds htx
      rcases S4 ds htx.1 with k | k | ⟨src, k, k'⟩
      · exact absurd htx.2.1 k
      · exact absurd htx.2.2 k
      · refine ⟨src, k, ?_, k'⟩
        rintro rfl
        have hm := (h4.keys _ _).mp htx.2.2
        rw [hm] at k'; cases k'
    -- the environment after the commands
    have henv : applyCmds j cl s.env (actCmds j a prep) =
        applyCmd j cl (applyCmds j cl s.env ((prep.filter (fun p => p.2 != a.worker.host)).map
          (fun p => Cmd.transmit p.1 p.2 a.worker.host))) (.taskSeq a.worker a.task (asgOutputs j a.task)) := by
      simp [applyCmds, actCmds, List.foldl_append]
    have hsrcp : ∀ p, p ∈ prep.filter (fun p => p.2 != a.worker.host) → (s.env.present p.2 p.1).isSome = true := by
      intro p hm
      simp only [List.mem_filter, bne_iff_ne, ne_eq] at hm
      obtain ⟨k1, _, k3⟩ := hforeign p.1 p.2 hm.1 hm.2
      exact h4.avail_present p.2 p.1 k3 (hin p.1 k1).2.2
    obtain ⟨t1, t2, t3, t4, t5, t6, t7, t8⟩ := i4a_applyTransmits j cl a.worker.host _ s.env hsrcp
    generalize hE : applyCmds j cl s.env ((prep.filter (fun p => p.2 != a.worker.host)).map
          (fun p => Cmd.transmit p.1 p.2 a.worker.host)) = e1 at henv t1 t2 t3 t4 t5 t6 t7 t8
    rw [henv]
    have q1 : (applyCmd j cl e1 (.taskSeq a.worker a.task (asgOutputs j a.task))).present = s.env.present := by simp [applyCmd, t1]
    have q2 : (applyCmd j cl e1 (.taskSeq a.worker a.task (asgOutputs j a.task))).queued = s.env.queued ++ [(a.worker, a.task)] := by
      simp [applyCmd, t2]
    have q3 : (applyCmd j cl e1 (.taskSeq a.worker a.task (asgOutputs j a.task))).pending = s.env.pending := by simp [applyCmd, t3]
    have q4 : (applyCmd j cl e1 (.taskSeq a.worker a.task (asgOutputs j a.task))).ran = s.env.ran := by simp [applyCmd, t4]
    have q5 : (applyCmd j cl e1 (.taskSeq a.worker a.task (asgOutputs j a.task))).produced = s.env.produced := by simp [applyCmd, t5]
    have q6 : (applyCmd j cl e1 (.taskSeq a.worker a.task (asgOutputs j a.task))).purged = s.env.purged := by simp [applyCmd, t6]
    have q8 : (applyCmd j cl e1 (.taskSeq a.worker a.task (asgOutputs j a.task))).outstanding = s.env.outstanding ++
        (prep.filter (fun p => p.2 != a.worker.host)).map (fun p => IO.transmit p.1 p.2 a.worker.host) := by
      simp [applyCmd, t8]
    have hnewT : ∀ ds src, (ds, src) ∈ prep → src ≠ a.worker.host →
        IO.transmit ds src a.worker.host ∈ s.env.outstanding ++
          (prep.filter (fun p => p.2 != a.worker.host)).map (fun p => IO.transmit p.1 p.2 a.worker.host) := by
      intro ds src hm hne
      refine List.mem_append.mpr (Or.inr ?_)
      simp only [List.mem_map, List.mem_filter, bne_iff_ne, ne_eq]
      exact ⟨(ds, src), ⟨hm, hne⟩, rfl⟩
    -- every input is present on the target host or has an inbound transmit
    have hinput : ∀ (e : Env), e.present = s.env.present → e.outstanding = s.env.outstanding ++
          (prep.filter (fun p => p.2 != a.worker.host)).map (fun p => IO.transmit p.1 p.2 a.worker.host) →
        ∀ h ds, c2.hostDs h ds ≠ .missing → needed j s.ctl ds → s.ctl.announced ds = true →
          (e.present h ds).isSome = true ∨ inboundTransmit e ds h = true := by
      intro e ep eo h ds hne hn han
      rcases hback h ds hne with hold | ⟨rfl, htx⟩
      · rcases h4.status_present h ds hold hn han with k | k
        · exact Or.inl (by rw [ep]; exact k)
        · exact Or.inr (i4a_inbound_mono s.env e _ eo ds h k)
      · obtain ⟨src, k1, k2, _⟩ := hsrc ds htx
        exact Or.inr (i4a_inbound_new e ds src _ (by rw [eo]; exact hnewT ds src k1 k2))
    -- the monitors of the task sequence command
    have hviol : ∀ m, m ∈ (applyCmd j cl e1 (.taskSeq a.worker a.task (asgOutputs j a.task))).viol → m ∈ s.env.viol ∨
        m = "C02 unknown-worker" ∨ m = "C02 busy-worker" ∨ m = "C02 double-dispatch" ∨ m = "C02 gpu" ∨
        m = "C02 input-not-produced" := by
      intro m hm
      rw [mem_viol_taskSeq] at hm
      have K1 : (j.inputs a.task).all (fun d => !(e1.purged.contains (a.worker.host, d))) = true := by
        simp only [List.all_eq_true, Bool.not_eq_true', t6]
        intro d hd
        cases hc : s.env.purged.contains (a.worker.host, d) with
        | false => rfl
        | true =>
          exact absurd (hin d hd).2.2 (h4.purged_unneeded _ _ (by simpa using hc))
      have K2 : (j.inputs a.task).all (fun d => (e1.present a.worker.host d).isSome ||
          inboundTransmit e1 d a.worker.host) = true := by
        simp only [List.all_eq_true, Bool.or_eq_true]
        intro d hd
        obtain ⟨han, _, hn⟩ := hin d hd
        refine hinput e1 t1 t8 a.worker.host d ?_ hn han
        by_cases hmiss : s.ctl.hostDs a.worker.host d = .missing
        · have hwm : s.ctl.workerDs a.worker d = .missing := by
            cases hw : s.ctl.workerDs a.worker d with
            | missing => rfl
            | preparing => exact absurd hmiss (h4.workerDs_ok a.worker d (by simp [hw])).1
            | available => exact absurd hmiss (h4.workerDs_ok a.worker d (by simp [hw])).1
          rw [(S1 d ⟨hd, hwm, hmiss⟩).1]; simp
        · exact hmono _ _ hmiss
      rw [K1, K2, t7] at hm
      rcases hm with k | ⟨_, k⟩ | ⟨_, k⟩ | ⟨_, k⟩ | ⟨_, k⟩ | ⟨_, k⟩ | ⟨k, _⟩ | ⟨k, _⟩
      · exact Or.inl k
      · exact Or.inr (Or.inl k)
      · exact Or.inr (Or.inr (Or.inl k))
      · exact Or.inr (Or.inr (Or.inr (Or.inl k)))
      · exact Or.inr (Or.inr (Or.inr (Or.inr (Or.inl k))))
      · exact Or.inr (Or.inr (Or.inr (Or.inr (Or.inr k))))
      · cases k
      · cases k
    have hnv : ∀ m, m ∉ s.env.viol → m ≠ "C02 unknown-worker" → m ≠ "C02 busy-worker" →
        m ≠ "C02 double-dispatch" → m ≠ "C02 gpu" → m ≠ "C02 input-not-produced" →
        m ∉ (applyCmd j cl e1 (.taskSeq a.worker a.task (asgOutputs j a.task))).viol := by
      intro m k0 k1 k2 k3 k4 k5 hm
      rcases hviol m hm with k | k | k | k | k | k
      · exact k0 k
      · exact k1 k
      · exact k2 k
      · exact k3 k
      · exact k4 k
      · exact k5 k
    have hfl : ∀ w t, Sys.inFlight
          { s with ctl := c2, env := applyCmd j cl e1 (.taskSeq a.worker a.task (asgOutputs j a.task)), todo := s.todo ++ [(a, prep)] }
          w t ↔ (s.inFlight w t ∨ (w, t) = (a.worker, a.task)) := by
      intro w t
      simp only [Sys.inFlight, Sys.todoPairs, e_ong, List.map_append, List.map_cons, List.map_nil, List.mem_append,
        List.mem_singleton]
      constructor
      · rintro (k | k | k)
        · exact Or.inl (Or.inl k)
        · exact Or.inl (Or.inr k)
        · exact Or.inr k
      · rintro ((k | k) | k)
        · exact Or.inl k
        · exact Or.inr (Or.inl k)
        · exact Or.inr (Or.inr k)
    refine ⟨?_, ?_, ?_, ?_, ?_, ?_, ?_, ?_, ?_, ?_, ?_, ?_, ?_, ?_, ?_, ?_, ?_, ?_, ?_, ?_, ?_, ?_, ?_⟩
    · -- keys
      intro h ds
      by_cases hc : h = a.worker.host ∧ i4a_tx s.ctl a.worker (j.inputs a.task) ds
      · obtain ⟨rfl, htx⟩ := hc
        have := S1 ds htx
        simp [this.1, this.2]
      · have := S2 h ds hc
        simp only [this.1, this.2]
        exact h4.keys h ds
    · -- status_hosts
      intro h ds hne
      by_cases hc : h = a.worker.host ∧ i4a_tx s.ctl a.worker (j.inputs a.task) ds
      · rw [hc.1]; exact hwh
      · simp only [(S2 h ds hc).2] at hne
        exact h4.status_hosts h ds hne
    · -- workerDs_ok
      intro w ds hne
      simp only [e_wd] at hne
      have := h4.workerDs_ok w ds hne
      exact ⟨hmono _ _ this.1, this.2⟩
    · -- avail_present
      intro h ds hav hn
      simp only [q1]
      exact h4.avail_present h ds ((havail ds h).mp hav) ((hneed ds).mp hn)
    · -- status_present
      intro h ds hne hn han
      simp only [e_ann] at han
      exact hinput _ q1 q8 h ds hne ((hneed ds).mp hn) han
    · -- transmit_out
      intro ds src tgt hm
      simp only [q8] at hm
      simp only [q1, q2]
      rcases List.mem_append.mp hm with hold | hnew
      · obtain ⟨p1, p2, p3, w, t, k1, k2, k3⟩ := h4.transmit_out ds src tgt hold
        exact ⟨p1, p2, hmono _ _ p3, w, t, List.mem_append.mpr (Or.inl k1), k2, k3⟩
      · simp only [List.mem_map, List.mem_filter, bne_iff_ne, ne_eq] at hnew
        obtain ⟨p, ⟨hpm, hpne⟩, heq⟩ := hnew
        simp only [IO.transmit.injEq] at heq
        obtain ⟨rfl, rfl, rfl⟩ := heq
        obtain ⟨k1, htx, k3⟩ := hforeign p.1 p.2 hpm hpne
        obtain ⟨han, _, hn⟩ := hin p.1 k1
        refine ⟨h4.avail_present p.2 p.1 k3 hn, ?_, ?_, a.worker, a.task, by simp, rfl, k1⟩
        · cases hpr : s.env.present a.worker.host p.1 with
          | none => rfl
          | some v =>
            exfalso
            rcases h4.present_status a.worker.host p.1 (by simp [hpr]) with k | ⟨w', _, k⟩
            · exact k htx.2.2
            · have := hT.todo_unannounced w' p.1.task k p.1.out
              rw [this] at han; cases han
        · rw [(S1 p.1 htx).1]; simp
    · -- flight_present
      intro w t hf hr k hk hn
      simp only [q4] at hr
      simp only [q1]
      rcases (hfl w t).mp hf with hf | heq
      · exact h4.flight_present w t hf hr k hk ((hneed _).mp hn)
      · simp only [Prod.mk.injEq] at heq
        obtain ⟨_, rfl⟩ := heq
        have := (h2.ran_disp _ hr).1
        omega
    · -- present_status
      intro h ds hp
      simp only [q1] at hp
      rcases h4.present_status h ds hp with k | ⟨w, k1, k2⟩
      · exact Or.inl (hmono _ _ k)
      · refine Or.inr ⟨w, k1, ?_⟩
        simp only [Sys.todoPairs, List.map_append, List.mem_append] at k2 ⊢
        exact Or.inl k2
    · -- ongoing_status
      intro w t hm hr k hk
      simp only [e_ong] at hm
      simp only [q4] at hr
      exact hmono _ _ (h4.ongoing_status w t hm hr k hk)
    · -- evW_present
      intro w ds he
      simp only [Sys.allEv, q3] at he
      have := h4.evW_present w ds he
      exact ⟨this.1, fun hn => by simp only [q1]; exact this.2 ((hneed ds).mp hn)⟩
    · -- evT_present
      intro h ds he
      simp only [Sys.allEv, q3] at he
      have := h4.evT_present h ds he
      exact ⟨this.1, fun hn => by simp only [q1]; exact this.2 ((hneed ds).mp hn)⟩
    · -- avail_somewhere
      intro ds han hex
      simp only [e_ann, e_done] at han hex
      obtain ⟨h, k1, k2⟩ := h4.avail_somewhere ds han hex
      exact ⟨h, k1, (havail ds h).mpr k2⟩
    · -- purged_unneeded
      intro h ds hm hn
      simp only [q6] at hm
      exact h4.purged_unneeded h ds hm ((hneed ds).mp hn)
    · -- present_produced
      intro h ds hp
      simp only [q1] at hp
      simp only [q5]
      exact h4.present_produced h ds hp
    · exact hnv _ h4.no_transmit_from_missing (by simp) (by simp) (by simp) (by simp) (by simp)
    · exact hnv _ h4.no_fetch_from_missing (by simp) (by simp) (by simp) (by simp) (by simp)
    · exact hnv _ h4.no_purge_while_outstanding (by simp) (by simp) (by simp) (by simp) (by simp)
    · exact hnv _ h4.no_input_purged (by simp) (by simp) (by simp) (by simp) (by simp)
    · exact hnv _ h4.no_input_absent (by simp) (by simp) (by simp) (by simp) (by simp)
    · exact hnv _ h4.no_io_gone_t (by simp) (by simp) (by simp) (by simp) (by simp)
    · exact hnv _ h4.no_io_gone_f (by simp) (by simp) (by simp) (by simp) (by simp)
    · exact h4.no_err_notfound
    · exact h4.no_err_pop

end EkwVerif.Ctrl
