/-
`Core` is preserved by the disk-job steps (I/O part, callback part) and hence by every `Conform`
step; lifted to histories by induction (no bound on length, keys, jobs).
-/
import EkwVerif.Lemmas.ShmCore

namespace EkwVerif.Shm
open Aux
namespace Aux

/-! ### the I/O part of a disk job -/

theorem mem_setJobIo_cases (js : List Job) (id : Nat) (r : Bool) (j j' : Job)
    (hids : js.Pairwise (fun a b => a.id ≠ b.id)) (hj : j ∈ js) (hid : j.id = id)
    (h : j' ∈ setJobIo js id r) : j' = { j with io := some r } ∨ (j' ∈ js ∧ j'.id ≠ id) := by
  obtain ⟨j0, hj0, e⟩ := (mem_setJobIo _ _ _ _).mp h
  by_cases h0 : j0.id = id
  · have : j0 = j := pw_unique (fun j => j.id) js hids j0 j hj0 hj (by rw [h0, hid])
    subst this; rw [if_pos h0] at e; exact Or.inl e
  · rw [if_neg h0] at e; subst e; exact Or.inr ⟨hj0, h0⟩

theorem core_io (s s' : St) (id : Nat) (r : Bool) (j : Job) (hb : Base s) (hc : Core s)
    (hj : j ∈ s.jobs) (hid : j.id = id) (hio : j.io = none)
    (e1 : s'.ds = s.ds) (e2 : s'.free = s.free) (e3 : s'.cap = s.cap) (e4 : s'.jobs = setJobIo s.jobs id r)
    (hnd : Nd s'.segs)
    (hso : ∀ k, k ≠ j.key → find? s'.segs k = find? s.segs k)
    (hfo : ∀ k, k ≠ j.key → find? s'.files k = find? s.files k)
    (hsegK : ∀ g, find? s'.segs j.key = some g → find? s.segs j.key = some g ∨ g.size = j.size)
    (hdone : j.kind = .out → r = true → find? s'.segs j.key = none)
    (hOut : j.kind = .out → ∀ size tok, find? s.segs j.key = some ⟨size, tok⟩ →
        (r = true → find? s'.files j.key = some ⟨size, tok⟩) ∧ (r = false → find? s'.segs j.key = some ⟨size, tok⟩))
    (hIn : j.kind = .inn → ∀ size tok, size = j.size → find? s.files j.key = some ⟨size, tok⟩ →
        r = true → find? s'.segs j.key = some ⟨size, tok⟩) : Core s' := by
  have hother : ∀ j' ∈ s.jobs, j'.id ≠ id → j'.key ≠ j.key := by
    intro j' hj' hne e
    have := pw_unique (fun j => j.key) s.jobs hc.jobKeys j' j hj' hj e
    subst this; exact hne hid
  obtain ⟨dj, hdj, hgen, hsize, hstat⟩ := hc.jobLink j hj
  refine ⟨hnd, by rw [e1, e2, e3]; exact hc.acct, ?_, ?_, ?_, ?_, ?_⟩
  · rw [e4]; exact pairwise_setJobIo (fun j => j.key) (fun _ _ => rfl) _ _ _ hc.jobKeys
  · intro j' hj'
    rw [e4] at hj'; rw [e1]
    obtain ⟨j0, hj0, e⟩ := (mem_setJobIo _ _ _ _).mp hj'
    obtain ⟨d0, h0, r0⟩ := hc.jobLink j0 hj0
    subst e; split <;> exact ⟨d0, h0, r0⟩
  · intro j' hj' hk hio'
    rw [e4] at hj'
    rcases mem_setJobIo_cases _ _ _ _ _ hb.ids hj hid hj' with e | ⟨hm, hne⟩
    · subst e; simp at hio' hk ⊢; exact hdone hk hio'
    · rw [hso _ (hother j' hm hne)]; exact hc.outDone j' hm hk hio'
  · intro k g hg
    rw [e1]
    by_cases hk : k = j.key
    · subst hk
      rcases hsegK g hg with h | h
      · exact hc.segLink _ g h
      · refine ⟨dj, hdj, ?_, by rw [h, hsize]⟩
        cases hkind : j.kind <;> simp [hkind, jobStatus] at hstat <;> simp [hstat, Status.resident]
    · rw [hso k hk] at hg; exact hc.segLink k g hg
  · intro k d tok hd hw
    rw [e1] at hd; rw [e4]
    by_cases hk : k = j.key
    · subst hk
      have hdd : d = dj := by rw [hdj] at hd; exact (Option.some.inj hd).symm
      rw [hdd] at hw ⊢
      have hold := hc.content j.key dj tok hdj hw
      rw [hstat] at hold ⊢
      cases hkind : j.kind
      · -- page-out
        simp only [hkind, jobStatus, Holds] at hold ⊢
        have hsg := (hold j hj rfl).2 (by simp [hio])
        obtain ⟨o1, o2⟩ := hOut hkind dj.size tok hsg
        intro j' hj' hk'
        rcases mem_setJobIo_cases _ _ _ _ _ hb.ids hj hid hj' with e | ⟨hm, hne⟩
        · subst e
          cases r
          · simp; exact o2 rfl
          · simp; exact o1 rfl
        · exact absurd hk' (hother j' hm hne)
      · -- page-in
        simp only [hkind, jobStatus, Holds] at hold ⊢
        have hfl := (hold j hj rfl).1 hio
        intro j' hj' hk'
        rcases mem_setJobIo_cases _ _ _ _ _ hb.ids hj hid hj' with e | ⟨hm, hne⟩
        · subst e
          refine ⟨by simp, ?_⟩
          intro hr; simp at hr
          exact hIn hkind dj.size tok hsize hfl hr
        · exact absurd hk' (hother j' hm hne)
    · rw [hso k hk, hfo k hk]
      refine holds_mono _ _ s.jobs _ _ _ _ _ ?_ (hc.content k d tok hd hw)
      intro j' hj' hk'
      rcases mem_setJobIo_cases _ _ _ _ _ hb.ids hj hid hj' with e | ⟨hm, _⟩
      · subst e; simp at hk'; exact absurd hk'.symm hk
      · exact hm

theorem core_ioStep (s : St) (id : Nat) (inj : IoRes) (hb : Base s) (hc : Core s) : Core (ioStep s id inj).1 := by
  unfold ioStep
  cases hf : findJob s.jobs id with
  | none => exact hc
  | some j =>
    simp only
    obtain ⟨hj, hid⟩ := findJob_some _ _ _ hf
    split
    · exact hc
    · rename_i hio
      have hio' : j.io = none := by cases h : j.io <;> simp [h] at hio ⊢
      -- "failed, nothing changed"
      have failed : ∀ (s' : St), s'.ds = s.ds → s'.free = s.free → s'.cap = s.cap → s'.jobs = setJobIo s.jobs id false →
          s'.segs = s.segs → s'.files = s.files → Core s' := by
        intro s' e1 e2 e3 e4 e5 e6
        refine core_io s s' id false j hb hc hj hid hio' e1 e2 e3 e4 (by rw [e5]; exact hc.ndSegs)
          (fun k _ => by rw [e5]) (fun k _ => by rw [e6]) (fun g hg => Or.inl (by rw [e5] at hg; exact hg))
          (fun _ hh => absurd hh (by decide)) ?_ (fun _ _ _ _ _ hh => absurd hh (by decide))
        intro _ size tok h
        exact ⟨fun hh => absurd hh (by decide), fun _ => by rw [e5]; exact h⟩
      cases hkind : j.kind with
      | out =>
        simp only
        split
        · exact failed _ rfl rfl rfl rfl rfl rfl
        · cases hg : find? s.segs j.key with
          | none => exact failed _ rfl rfl rfl rfl rfl rfl
          | some g =>
            simp only
            refine core_io s _ id true j hb hc hj hid hio' rfl rfl rfl rfl (nd_erase _ _ hc.ndSegs)
              (fun k hk => find?_erase_ne _ _ _ hk) (fun k hk => by simp only [put_find?, hk, ↓reduceIte]) ?_
              (fun _ _ => find?_erase_self _ _ hc.ndSegs) ?_ (fun h => by rw [hkind] at h; cases h)
            · intro g' hg'; simp only at hg'; rw [find?_erase_self _ _ hc.ndSegs] at hg'; cases hg'
            · intro _ size tok h
              rw [hg] at h; cases h
              exact ⟨fun _ => by simp only [put_find?, ↓reduceIte], fun hh => absurd hh (by decide)⟩
      | inn =>
        simp only
        split
        · exact failed _ rfl rfl rfl rfl rfl rfl
        · cases hg : find? s.segs j.key with
          | some g => exact failed _ rfl rfl rfl rfl rfl rfl
          | none =>
            simp only
            -- a fresh segment of the job's size appears under the key
            have fresh : ∀ (r : Bool) (data : Nat) (s' : St), s'.ds = s.ds → s'.free = s.free → s'.cap = s.cap →
                s'.jobs = setJobIo s.jobs id r → s'.segs = s.segs ++ [(j.key, { size := j.size, data := data })] →
                s'.files = s.files →
                (r = true → ∀ size tok, size = j.size → find? s.files j.key = some ⟨size, tok⟩ → data = tok) → Core s' := by
              intro r data s' e1 e2 e3 e4 e5 e6 hdata
              refine core_io s s' id r j hb hc hj hid hio' e1 e2 e3 e4 (by rw [e5]; exact nd_append _ _ _ hc.ndSegs hg)
                (fun k hk => by rw [e5]; exact find?_append_ne _ _ _ _ hk) (fun k _ => by rw [e6]) ?_
                (fun h => by rw [hkind] at h; cases h) (fun h => by rw [hkind] at h; cases h) ?_
              · intro g' hg'
                rw [e5, find?_append_self _ _ _ hg] at hg'; cases hg'; exact Or.inr rfl
              · intro _ size tok hs hfile hr
                rw [e5, find?_append_self _ _ _ hg, hdata hr size tok hs hfile, hs]
            split
            · rename_i hnone
              exact fresh false 0 _ rfl rfl rfl rfl rfl rfl (fun hh => absurd hh (by decide))
            · rename_i f hsome
              have hfile : find? s.files j.key = some f := by
                by_cases hi : inj = .failLate
                · simp [hi] at hsome
                · simpa [hi] using hsome
              split
              · rename_i hsz
                refine fresh true f.data _ rfl rfl rfl rfl rfl rfl ?_
                intro _ size tok _ hfile'
                rw [hfile] at hfile'; cases hfile'; rfl
              · rename_i hsz
                split
                · -- a file shorter than the dataset: success, but never the file of a dataset whose bytes are tracked
                  refine fresh true _ _ rfl rfl rfl rfl rfl rfl ?_
                  intro _ size tok hs hfile'
                  rw [hfile] at hfile'; cases hfile'; exact absurd hs hsz
                · exact fresh false _ _ rfl rfl rfl rfl rfl rfl (fun hh => absurd hh (by decide))

/-! ### the callback part of a disk job -/

theorem core_eraseJob (s : St) (id : Nat) (hc : Core s) : Core { s with jobs := eraseJob s.jobs id } := by
  refine ⟨hc.ndSegs, hc.acct, pairwise_eraseJob _ _ hc.jobKeys, ?_, ?_, hc.segLink, ?_⟩
  · intro j hj; exact hc.jobLink j ((mem_eraseJob _ _ _).mp hj).1
  · intro j hj; exact hc.outDone j ((mem_eraseJob _ _ _).mp hj).1
  · intro k d tok hd hw
    exact holds_mono _ _ s.jobs _ _ _ _ _ (fun j hj _ => ((mem_eraseJob _ _ _).mp hj).1) (hc.content k d tok hd hw)

theorem core_cbStep (s : St) (id : Nat) (hb : Base s) (hc : Core s) : Core (cbStep s id).1 := by
  unfold cbStep
  cases hf : findJob s.jobs id with
  | none => exact hc
  | some j =>
    simp only
    obtain ⟨hj, hid⟩ := findJob_some _ _ _ hf
    cases hio : j.io with
    | none => exact hc
    | some r =>
      simp only
      have hc1 := core_eraseJob s id hc
      have hnone : ∀ j' ∈ eraseJob s.jobs id, j'.key ≠ j.key := by
        intro j' hj' e
        obtain ⟨hm, hne⟩ := (mem_eraseJob _ _ _).mp hj'
        have := pw_unique (fun j => j.key) s.jobs hc.jobKeys j' j hm hj e
        subst this; exact hne hid
      obtain ⟨d, hd, hgen, hsize, hstat⟩ := hc.jobLink j hj
      have hsame : ∀ st, setStatusIfSame s.ds j.key j.gen st = set s.ds j.key { d with status := st } := by
        intro st; simp [setStatusIfSame, hd, hgen]
      have hold := hc.content j.key d
      -- the dataset reaches its final status `st`; `free` grows by `add`
      have settle : ∀ (st : Status) (add : Nat) (s' : St), s'.ds = set s.ds j.key { d with status := st } →
          s'.free = s.free + add → s'.cap = s.cap → s'.segs = s.segs → s'.files = s.files → s'.jobs = eraseJob s.jobs id →
          weight { d with status := st } + add = weight d →
          (∀ g, find? s.segs j.key = some g → st.resident = true) →
          (∀ tok, d.wrote = some tok → Holds (find? s.segs j.key) (find? s.files j.key) (eraseJob s.jobs id) j.key st d.size tok) →
          Core s' := by
        intro st add s' e1 e2 e3 e4 e5 e6 hw hres hcont
        refine ⟨by rw [e4]; exact hc.ndSegs, ?_, by rw [e6]; exact hc1.jobKeys, ?_, ?_, ?_, ?_⟩
        · have := total_set weight s.ds j.key { d with status := st } d hd
          have ha := hc.acct
          rw [e1, e2, e3]; unfold residentTotal at *; omega
        · intro j' hj'
          rw [e6] at hj'; rw [e1]
          obtain ⟨d0, h0, r0⟩ := hc1.jobLink j' hj'
          exact ⟨d0, by rw [find?_set_ne _ _ _ _ (hnone j' hj')]; exact h0, r0⟩
        · intro j' hj'; rw [e6] at hj'; rw [e4]; exact hc1.outDone j' hj'
        · intro k g hg
          rw [e4] at hg; rw [e1]
          obtain ⟨d0, h0, r0⟩ := hc.segLink k g hg
          by_cases hk : k = j.key
          · subst hk; rw [hd] at h0; cases h0
            exact ⟨_, find?_set_self _ _ _ _ hd, hres g hg, r0.2⟩
          · exact ⟨d0, by rw [find?_set_ne _ _ _ _ hk]; exact h0, r0⟩
        · intro k d0 tok h0 hw0
          rw [e1] at h0; rw [e4, e5, e6]
          by_cases hk : k = j.key
          · subst hk; rw [find?_set_self _ _ _ _ hd] at h0; cases h0
            exact hcont tok hw0
          · rw [find?_set_ne _ _ _ _ hk] at h0
            exact hc1.content k d0 tok h0 hw0
      cases hkind : j.kind <;> cases r <;> simp only
      · -- page-out failed: purge by key
        have h2 := core_purgeFailed { s with jobs := eraseJob s.jobs id } j.key hb.nd hc1 hnone
        exact core_frame _ _ h2 rfl rfl rfl rfl rfl rfl
      · -- page-out succeeded: on disk, space returned
        have hst : d.status = .pagingOut := by simpa [hkind, jobStatus] using hstat
        have h2 : Core { s with jobs := eraseJob s.jobs id, ds := setStatusIfSame s.ds j.key j.gen .onDisk, free := s.free + j.size } := by
          refine settle .onDisk j.size _ (hsame _) rfl rfl rfl rfl rfl ?_ ?_ ?_
          · simp [weight, hst, Status.resident, hsize]
          · intro g hg; rw [hc.outDone j hj hkind hio] at hg; cases hg
          · intro tok hw
            have := hold tok hd hw
            rw [hst] at this
            simp only [Holds] at this ⊢
            exact (this j hj rfl).1 hio
        exact core_frame _ _ h2 rfl rfl rfl rfl rfl rfl
      · -- page-in failed: purge by key
        exact core_purgeFailed { s with jobs := eraseJob s.jobs id } j.key hb.nd hc1 hnone
      · -- page-in succeeded: in memory
        have hst : d.status = .pagedIn := by simpa [hkind, jobStatus] using hstat
        refine settle .inMemory 0 _ (hsame _) rfl rfl rfl rfl rfl ?_ ?_ ?_
        · simp [weight, hst, Status.resident]
        · intro _ _; rfl
        · intro tok hw
          have := hold tok hd hw
          rw [hst] at this
          simp only [Holds] at this ⊢
          exact (this j hj rfl).2 hio

/-! ### every step, every history -/

theorem core_step (s : St) (op : Op) (hb : Base s) (hc : Core s) (hcf : Conform s op) : Core (step s op).1 := by
  cases op with
  | add k size deser t => exact core_add s k size deser t hb.nd hc
  | cwrite k size tok => exact core_cwrite s k size tok hc (conform_cwrite s k size tok hcf)
  | closeW k => exact core_closeCb s k "" hb.nd hc
  | closeR k rdid => exact core_closeCb s k rdid hb.nd hc
  | get k t cands => exact core_get s k t cands hb.nd hc
  | purge k =>
    refine core_purge s k hb.nd hc ?_
    intro d hd hr
    exact no_job_at s hc k d hd (conform_purge s k hcf d hd hr)
  | freeSpace => exact hc
  | io id inj => exact core_ioStep s id inj hb hc
  | cb id => exact core_cbStep s id hb hc

theorem core_run (ops : List Op) : ∀ (s : St), Base s → Core s → SafeRun s ops → Base (run s ops) ∧ Core (run s ops) := by
  induction ops with
  | nil => intro s hb hc _; exact ⟨hb, hc⟩
  | cons op ops ih =>
    intro s hb hc hs
    exact ih _ (base_step s op hb) (core_step s op hb hc hs.1) hs.2

end Aux
end EkwVerif.Shm
