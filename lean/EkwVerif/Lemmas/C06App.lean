/-
Helper lemmas for C06, application level: where an accepted message is (`handled`, `staged`,
`batch`, `lost`), preserved by every step — also by the steps of a frame-forging adversary.
No property theorem lives here.
-/
import EkwVerif.Lemmas.C06Inv

namespace EkwVerif.Ack
open EkwVerif.Frames

/-- Everything the Listener accepted (`delivered`) is in exactly one of four places; something is
in `lost` only after an abandoned iteration. Holds whatever is put on the wire (no `Inv` needed). -/
structure InvA (s : Sys) : Prop where
  split : ∀ a, ((s.ep a).handled ++ (s.ep a).lost ++ (s.ep a).staged ++ payloads (s.ep a).batch).Perm
    (s.ep a).delivered
  lost_aborts : ∀ a, (s.ep a).lost ≠ [] → 0 < (s.ep a).aborts

/-- the step does not touch the application-side fields -/
def AppSame (s s' : Sys) : Prop := ∀ a,
  (s'.ep a).handled = (s.ep a).handled ∧ (s'.ep a).lost = (s.ep a).lost ∧
  (s'.ep a).staged = (s.ep a).staged ∧ (s'.ep a).batch = (s.ep a).batch ∧
  (s'.ep a).delivered = (s.ep a).delivered ∧ (s'.ep a).aborts = (s.ep a).aborts

theorem AppSame.refl (s : Sys) : AppSame s s := fun _ => ⟨rfl, rfl, rfl, rfl, rfl, rfl⟩

theorem AppSame.trans {s1 s2 s3 : Sys} (h12 : AppSame s1 s2) (h23 : AppSame s2 s3) : AppSame s1 s3 := by
  intro a
  obtain ⟨a1, a2, a3, a4, a5, a6⟩ := h12 a
  obtain ⟨b1, b2, b3, b4, b5, b6⟩ := h23 a
  exact ⟨b1.trans a1, b2.trans a2, b3.trans a3, b4.trans a4, b5.trans a5, b6.trans a6⟩

theorem InvA.of_same {s s' : Sys} (h : InvA s) (hs : AppSame s s') : InvA s' := by
  constructor
  · intro a; obtain ⟨h1, h2, h3, h4, h5, _⟩ := hs a; rw [h1, h2, h3, h4, h5]; exact h.split a
  · intro a; obtain ⟨_, h2, _, _, _, h6⟩ := hs a; rw [h2, h6]; exact h.lost_aborts a

theorem init_invA (maxRetries : Nat) (cfg : Nat → Nat × (Nat → Option Nat)) : InvA (init maxRetries cfg) := by
  constructor <;> simp [init, mkEndpoint, payloads]

theorem tick_same (s : Sys) (a dt : Nat) : AppSame s (tick s a dt) := by
  intro b; simp [tick_ep]
theorem popHost_same (s : Sys) (a h : Nat) : AppSame s (popHost s a h) := by
  intro b; simp [popHost_ep]
theorem localMsg_same (s : Sys) (a m : Nat) : AppSame s (localMsg s a m) := by
  intro b; simp [localMsg_ep]
theorem drop_same (s : Sys) (k : Nat) : AppSame s (drop s k) := by
  intro b; simp [drop]
theorem arrive_same (s : Sys) (p : Packet) : AppSame s (arrive s p) := by
  intro b; simp [arrive_ep]
theorem deliver_same (s : Sys) (k : Nat) : AppSame s (deliver s k) := by
  unfold deliver; split
  · exact AppSame.refl s
  · exact (drop_same s k).trans (arrive_same _ _)
theorem dup_same (s : Sys) (k : Nat) : AppSame s (dup s k) := by
  unfold dup; split
  · exact AppSame.refl s
  · exact arrive_same _ _
theorem send_same (s : Sys) (a h m : Nat) : AppSame s (send s a h m) := by
  intro b
  cases hh : (s.ep a).hosts h with
  | none => simp [send_none_ep m hh]
  | some d => simp [send_some_ep m hh]
theorem retryOne_same (s : Sys) (a i : Nat) : AppSame s (retryOne s a i).1 := by
  rcases retryOne_cases s a i with h | ⟨r, d, hf⟩
  · rw [h]; exact AppSame.refl s
  · intro b; simp [retryOne_fire_ep hf]
theorem retryList_same (s : Sys) (a : Nat) (l : List Nat) : AppSame s (retryList s a l) := by
  induction l generalizing s with
  | nil => exact AppSame.refl s
  | cons i is ih =>
    simp only [retryList]; split
    · exact retryOne_same s a i
    · exact (retryOne_same s a i).trans (ih _)
theorem inject_same (s : Sys) (a : Nat) (fs : List Frame) : AppSame s (inject s a fs) := by
  intro b; simp only [inject, setEp_ep]; split <;> simp_all

theorem payloads_append (l1 l2 : List Delivery) : payloads (l1 ++ l2) = payloads l1 ++ payloads l2 := by
  simp [payloads]
theorem payloads_single_ack {d : Delivery} (h : d.isAck = true) : payloads [d] = [] := by
  simp [payloads, h]
theorem payloads_single_msg {d : Delivery} (h : d.isAck = false) : payloads [d] = [d] := by
  simp [payloads, h]
theorem payloads_cons_ack {d : Delivery} (l : List Delivery) (h : d.isAck = true) : payloads (d :: l) = payloads l := by
  simp [payloads, h]
theorem payloads_cons_msg {d : Delivery} (l : List Delivery) (h : d.isAck = false) :
    payloads (d :: l) = d :: payloads l := by
  simp [payloads, h]

theorem collect_ep_other (s : Sys) {b c : Nat} (h : c ≠ b) : (collect s b).ep c = s.ep c := by
  cases hin : (s.ep b).inbox with
  | nil => rw [collect_empty hin]
  | cons fs rest => simp [collect, hin, setEp_ep, h]

/-- permutations of concatenations, by counting -/
theorem perm_of_count {l1 l2 : List Delivery} (h : ∀ x, l1.count x = l2.count x) : l1.Perm l2 :=
  List.perm_iff_count.mpr h

/-- `collect` at `b` for an arbitrary (possibly forged) frame list -/
theorem collect_invA {s : Sys} (h : InvA s) (b : Nat) : InvA (collect s b) := by
  cases hin : (s.ep b).inbox with
  | nil => rw [collect_empty hin]; exact h
  | cons fs rest =>
    have key : ∀ a, a ≠ b → (collect s b).ep a = s.ep a := fun a ha => collect_ep_other s ha
    constructor
    · intro a
      by_cases hab : a = b
      · subst hab
        have hs := fun x => List.perm_iff_count.mp (h.split a) x
        simp only [collect, hin, setEp_ep, ↓reduceIte]
        cases hres : (recvOne (s.ep a).acked fs).res with
        | error e =>
          apply perm_of_count; intro x; have := hs x
          simp only [abortEp, payloads, List.filter_nil, List.count_append, List.count_nil] at this ⊢
          omega
        | ok o =>
          cases o with
          | none => exact h.split a
          | some p =>
            apply perm_of_count; intro x; have := hs x
            cases hd : (⟨(recvOne (s.ep a).acked fs).mark, p⟩ : Delivery).isAck with
            | true =>
              simp only [hd, payloads_append, payloads_single_ack hd, List.count_append, List.count_nil, ↓reduceIte] at this ⊢
              omega
            | false =>
              simp only [hd, payloads_append, payloads_single_msg hd, List.count_append, Bool.false_eq_true, ↓reduceIte] at this ⊢
              omega
      · rw [key a hab]; exact h.split a
    · intro a
      by_cases hab : a = b
      · subst hab
        have hl := h.lost_aborts a
        simp only [collect, hin, setEp_ep, ↓reduceIte]
        cases hres : (recvOne (s.ep a).acked fs).res with
        | error e => simp [abortEp]
        | ok o =>
          cases o with
          | none => exact hl
          | some p => exact hl
      · rw [key a hab]; exact h.lost_aborts a

theorem process_invA {s : Sys} (h : InvA s) (a : Nat) (feeds stage : Bool) : InvA (process s a feeds stage) := by
  cases hb : (s.ep a).batch with
  | nil => rw [process_empty feeds stage hb]; exact h
  | cons d rest =>
    cases hd : d.isAck with
    | false =>
      constructor
      · intro c
        have hs := fun x => List.perm_iff_count.mp (h.split c) x
        simp only [process_msg_ep feeds stage hb hd]
        by_cases hc : c = a
        · subst hc
          apply perm_of_count; intro x; have := hs x
          rw [hb, payloads_cons_msg _ hd] at this
          cases stage <;>
            simp only [true_and, and_true, and_false, ↓reduceIte, Bool.false_eq_true, Bool.true_eq_false,
              List.count_append, List.count_cons, List.count_nil] at this ⊢ <;>
            omega
        · simpa [hc] using h.split c
      · intro c; simp only [process_msg_ep feeds stage hb hd]; exact h.lost_aborts c
    | true =>
      obtain ⟨sy, body⟩ := d
      have : ∃ i, body = Parsed.msg (Msg.ack i) := by
        cases body with
        | msg m => cases m with
          | ack i => exact ⟨i, rfl⟩
          | app m => simp [Delivery.isAck] at hd
        | payload h v => simp [Delivery.isAck] at hd
      obtain ⟨i, rfl⟩ := this
      constructor
      · intro c
        have hs := h.split c
        simp only [process_ack_ep feeds stage hb]
        by_cases hc : c = a
        · subst hc
          rw [hb, payloads_cons_ack _ hd] at hs
          simpa using hs
        · simpa [hc] using hs
      · intro c; simp only [process_ack_ep feeds stage hb]; exact h.lost_aborts c

theorem commit_invA {s : Sys} (h : InvA s) (a : Nat) : InvA (commit s a) := by
  constructor
  · intro c
    have hs := fun x => List.perm_iff_count.mp (h.split c) x
    simp only [commit_ep]
    by_cases hc : c = a
    · subst hc
      apply perm_of_count; intro x; have := hs x
      simp only [↓reduceIte, List.count_append, List.count_nil] at this ⊢
      omega
    · simpa [hc] using h.split c
  · intro c; simp only [commit_ep]; exact h.lost_aborts c

theorem abort_invA {s : Sys} (h : InvA s) (a : Nat) : InvA (abort s a) := by
  constructor
  · intro c
    have hs := fun x => List.perm_iff_count.mp (h.split c) x
    simp only [abort_ep]
    by_cases hc : c = a
    · subst hc
      apply perm_of_count; intro x; have := hs x
      simp only [↓reduceIte, payloads, List.filter_nil, List.count_append, List.count_nil] at this ⊢
      omega
    · simpa [hc] using h.split c
  · intro c
    simp only [abort_ep]
    by_cases hc : c = a
    · subst hc; simp
    · simpa [hc] using h.lost_aborts c

theorem step_invA {s : Sys} (h : InvA s) (op : Op) : InvA (step s op) := by
  cases op with
  | send a h' m => exact h.of_same (send_same s a h' m)
  | localMsg a m => exact h.of_same (localMsg_same s a m)
  | drop k => exact h.of_same (drop_same s k)
  | deliver k => exact h.of_same (deliver_same s k)
  | dup k => exact h.of_same (dup_same s k)
  | collect a => exact collect_invA h a
  | process a f st => exact process_invA h a f st
  | commit a => exact commit_invA h a
  | abort a => exact abort_invA h a
  | retry a => exact h.of_same (retryList_same s a _)
  | tick a dt => exact h.of_same (tick_same s a dt)
  | popHost a h' => exact h.of_same (popHost_same s a h')

theorem run_invA {s : Sys} (h : InvA s) (ops : List Op) : InvA (run s ops) := by
  induction ops generalizing s with
  | nil => exact h
  | cons op ops ih => exact ih (step_invA h op)

theorem stepF_invA {s : Sys} (h : InvA s) (op : OpF) : InvA (stepF s op) := by
  cases op with
  | op o => exact step_invA h o
  | inject a fs => exact h.of_same (inject_same s a fs)

theorem runF_invA {s : Sys} (h : InvA s) (ops : List OpF) : InvA (runF s ops) := by
  induction ops generalizing s with
  | nil => exact h
  | cons op ops ih => exact ih (stepF_invA h op)

/-! ### what survives a frame-forging adversary: no Syn is accepted twice -/

structure InvF (s : Sys) : Prop where
  del_acked : ∀ b d i a, d ∈ (s.ep b).delivered → d.syn = some (i, a) → (s.ep b).acked i a = true
  del_nodup : ∀ b, ((s.ep b).delivered.filterMap (·.syn)).Nodup

/-- the step does not touch the Listener-side fields -/
def LSame (s s' : Sys) : Prop := ∀ a,
  (s'.ep a).delivered = (s.ep a).delivered ∧ (s'.ep a).acked = (s.ep a).acked

theorem LSame.refl (s : Sys) : LSame s s := fun _ => ⟨rfl, rfl⟩
theorem LSame.trans {s1 s2 s3 : Sys} (h12 : LSame s1 s2) (h23 : LSame s2 s3) : LSame s1 s3 := by
  intro a
  obtain ⟨a1, a2⟩ := h12 a
  obtain ⟨b1, b2⟩ := h23 a
  exact ⟨b1.trans a1, b2.trans a2⟩

theorem InvF.of_same {s s' : Sys} (h : InvF s) (hs : LSame s s') : InvF s' := by
  constructor
  · intro b d i a; obtain ⟨h1, h2⟩ := hs b; rw [h1, h2]; exact h.del_acked b d i a
  · intro b; obtain ⟨h1, _⟩ := hs b; rw [h1]; exact h.del_nodup b

theorem init_invF (maxRetries : Nat) (cfg : Nat → Nat × (Nat → Option Nat)) : InvF (init maxRetries cfg) := by
  constructor <;> simp [init, mkEndpoint]

theorem tick_lsame (s : Sys) (a dt : Nat) : LSame s (tick s a dt) := by
  intro b; simp [tick_ep]
theorem popHost_lsame (s : Sys) (a h : Nat) : LSame s (popHost s a h) := by
  intro b; simp [popHost_ep]
theorem localMsg_lsame (s : Sys) (a m : Nat) : LSame s (localMsg s a m) := by
  intro b; simp [localMsg_ep]
theorem drop_lsame (s : Sys) (k : Nat) : LSame s (drop s k) := by
  intro b; simp [drop]
theorem arrive_lsame (s : Sys) (p : Packet) : LSame s (arrive s p) := by
  intro b; simp [arrive_ep]
theorem deliver_lsame (s : Sys) (k : Nat) : LSame s (deliver s k) := by
  unfold deliver; split
  · exact LSame.refl s
  · exact (drop_lsame s k).trans (arrive_lsame _ _)
theorem dup_lsame (s : Sys) (k : Nat) : LSame s (dup s k) := by
  unfold dup; split
  · exact LSame.refl s
  · exact arrive_lsame _ _
theorem send_lsame (s : Sys) (a h m : Nat) : LSame s (send s a h m) := by
  intro b
  cases hh : (s.ep a).hosts h with
  | none => simp [send_none_ep m hh]
  | some d => simp [send_some_ep m hh]
theorem retryOne_lsame (s : Sys) (a i : Nat) : LSame s (retryOne s a i).1 := by
  rcases retryOne_cases s a i with h | ⟨r, d, hf⟩
  · rw [h]; exact LSame.refl s
  · intro b; simp [retryOne_fire_ep hf]
theorem retryList_lsame (s : Sys) (a : Nat) (l : List Nat) : LSame s (retryList s a l) := by
  induction l generalizing s with
  | nil => exact LSame.refl s
  | cons i is ih =>
    simp only [retryList]; split
    · exact retryOne_lsame s a i
    · exact (retryOne_lsame s a i).trans (ih _)
theorem inject_lsame (s : Sys) (a : Nat) (fs : List Frame) : LSame s (inject s a fs) := by
  intro b; simp only [inject, setEp_ep]; split <;> simp_all
theorem process_lsame (s : Sys) (a : Nat) (feeds stage : Bool) : LSame s (process s a feeds stage) := by
  intro b
  cases hb : (s.ep a).batch with
  | nil => rw [process_empty feeds stage hb]; exact ⟨rfl, rfl⟩
  | cons d rest =>
    cases hd : d.isAck with
    | false => rw [process_msg_ep feeds stage hb hd]; exact ⟨rfl, rfl⟩
    | true =>
      obtain ⟨sy, body⟩ := d
      have : ∃ i', body = Parsed.msg (Msg.ack i') := by
        cases body with
        | msg m => cases m with
          | ack i' => exact ⟨i', rfl⟩
          | app m => simp [Delivery.isAck] at hd
        | payload h v => simp [Delivery.isAck] at hd
      obtain ⟨i', rfl⟩ := this
      rw [process_ack_ep feeds stage hb]; exact ⟨rfl, rfl⟩
theorem commit_lsame (s : Sys) (a : Nat) : LSame s (commit s a) := by
  intro b; simp [commit_ep]
theorem abort_lsame (s : Sys) (a : Nat) : LSame s (abort s a) := by
  intro b; simp [abort_ep]

/-- Listener-side effect of `collect` for an arbitrary frame list -/
theorem collect_listener {s : Sys} {b : Nat} {fs : List Frame} {rest : List (List Frame)}
    (hin : (s.ep b).inbox = fs :: rest) :
    ((collect s b).ep b).acked = (match (recvOne (s.ep b).acked fs).mark with
        | some (i, ad) => fun i' ad' => if i' = i ∧ ad' = ad then true else (s.ep b).acked i' ad'
        | none => (s.ep b).acked) ∧
    ((collect s b).ep b).delivered = (match (recvOne (s.ep b).acked fs).res with
        | .ok (some p) =>
          if (⟨(recvOne (s.ep b).acked fs).mark, p⟩ : Delivery).isAck then (s.ep b).delivered
          else (s.ep b).delivered ++ [⟨(recvOne (s.ep b).acked fs).mark, p⟩]
        | _ => (s.ep b).delivered) := by
  simp only [collect, hin, setEp_ep, ↓reduceIte]
  cases hres : (recvOne (s.ep b).acked fs).res with
  | error e => exact ⟨rfl, rfl⟩
  | ok o =>
    cases o with
    | none => exact ⟨rfl, rfl⟩
    | some p => exact ⟨rfl, rfl⟩

theorem collect_invF {s : Sys} (h : InvF s) (b : Nat) : InvF (collect s b) := by
  cases hin : (s.ep b).inbox with
  | nil => rw [collect_empty hin]; exact h
  | cons fs rest =>
    obtain ⟨hack, hdel⟩ := collect_listener hin
    have hmono : ∀ i a, (s.ep b).acked i a = true → ((collect s b).ep b).acked i a = true := by
      intro i a hia; rw [hack]
      cases (recvOne (s.ep b).acked fs).mark with
      | none => exact hia
      | some x => obtain ⟨i0, a0⟩ := x; simp only; split <;> simp_all
    -- what a fresh delivery looks like
    have hnew : ∀ p, (recvOne (s.ep b).acked fs).res = .ok (some p) →
        ∀ i a, (recvOne (s.ep b).acked fs).mark = some (i, a) →
          (s.ep b).acked i a = false ∧ ((collect s b).ep b).acked i a = true := by
      intro p _ i a hm
      have := (recv_mark_iff (s.ep b).acked fs i a).mp hm
      obtain ⟨f, rest', _, hfalse⟩ := this
      refine ⟨hfalse, ?_⟩
      rw [hack, hm]; simp
    constructor
    · intro c d i a hd hs
      by_cases hcb : c = b
      · subst hcb
        rw [hdel] at hd
        cases hres : (recvOne (s.ep c).acked fs).res with
        | error e => rw [hres] at hd; exact hmono i a (h.del_acked c d i a hd hs)
        | ok o =>
          cases o with
          | none => rw [hres] at hd; exact hmono i a (h.del_acked c d i a hd hs)
          | some p =>
            rw [hres] at hd
            simp only at hd
            split at hd
            · exact hmono i a (h.del_acked c d i a hd hs)
            · rcases List.mem_append.mp hd with hd | hd
              · exact hmono i a (h.del_acked c d i a hd hs)
              · simp at hd; subst hd; simp only at hs
                exact (hnew p hres i a hs).2
      · rw [collect_ep_other s hcb] at hd ⊢; exact h.del_acked c d i a hd hs
    · intro c
      by_cases hcb : c = b
      · subst hcb
        rw [hdel]
        cases hres : (recvOne (s.ep c).acked fs).res with
        | error e => exact h.del_nodup c
        | ok o =>
          cases o with
          | none => exact h.del_nodup c
          | some p =>
            simp only
            split
            · exact h.del_nodup c
            · rw [List.filterMap_append, List.nodup_append]
              refine ⟨h.del_nodup c, by cases (recvOne (s.ep c).acked fs).mark <;> simp, ?_⟩
              intro x hx y hy
              cases hm : (recvOne (s.ep c).acked fs).mark with
              | none => simp [hm] at hy
              | some ia =>
                obtain ⟨i, a⟩ := ia
                simp [hm] at hy; subst hy
                simp only [List.mem_filterMap] at hx
                obtain ⟨d, hd, hs⟩ := hx
                intro heq; subst heq
                have := h.del_acked c d i a hd hs
                rw [(hnew p hres i a hm).1] at this; cases this
      · rw [collect_ep_other s hcb]; exact h.del_nodup c

theorem step_invF {s : Sys} (h : InvF s) (op : Op) : InvF (step s op) := by
  cases op with
  | send a h' m => exact h.of_same (send_lsame s a h' m)
  | localMsg a m => exact h.of_same (localMsg_lsame s a m)
  | drop k => exact h.of_same (drop_lsame s k)
  | deliver k => exact h.of_same (deliver_lsame s k)
  | dup k => exact h.of_same (dup_lsame s k)
  | collect a => exact collect_invF h a
  | process a f st => exact h.of_same (process_lsame s a f st)
  | commit a => exact h.of_same (commit_lsame s a)
  | abort a => exact h.of_same (abort_lsame s a)
  | retry a => exact h.of_same (retryList_lsame s a _)
  | tick a dt => exact h.of_same (tick_lsame s a dt)
  | popHost a h' => exact h.of_same (popHost_lsame s a h')

theorem stepF_invF {s : Sys} (h : InvF s) (op : OpF) : InvF (stepF s op) := by
  cases op with
  | op o => exact step_invF h o
  | inject a fs => exact h.of_same (inject_lsame s a fs)

theorem runF_invF {s : Sys} (h : InvF s) (ops : List OpF) : InvF (runF s ops) := by
  induction ops generalizing s with
  | nil => exact h
  | cons op ops ih => exact ih (stepF_invF h op)

/-! ### `lost` / `aborts` move only by an abandoned iteration (no forged frames) -/

theorem step_lost {s : Sys} (hi : Inv s) (op : Op) (b : Nat) (hop : op ≠ Op.abort b) :
    ((step s op).ep b).lost = (s.ep b).lost ∧ ((step s op).ep b).aborts = (s.ep b).aborts := by
  have same : ∀ s', AppSame s s' → (s'.ep b).lost = (s.ep b).lost ∧ (s'.ep b).aborts = (s.ep b).aborts :=
    fun s' h => ⟨(h b).2.1, (h b).2.2.2.2.2⟩
  cases op with
  | send a h' m => exact same _ (send_same s a h' m)
  | localMsg a m => exact same _ (localMsg_same s a m)
  | drop k => exact same _ (drop_same s k)
  | deliver k => exact same _ (deliver_same s k)
  | dup k => exact same _ (dup_same s k)
  | retry a => exact same _ (retryList_same s a _)
  | tick a dt => exact same _ (tick_same s a dt)
  | popHost a h' => exact same _ (popHost_same s a h')
  | commit a => simp [step, commit_ep]
  | abort a =>
    have : ¬ b = a := by rintro rfl; exact hop rfl
    simp [step, abort_ep, this]
  | collect a =>
    simp only [step]
    cases hin : (s.ep a).inbox with
    | nil => rw [collect_empty hin]; exact ⟨rfl, rfl⟩
    | cons fs rest =>
      have hok := hi.wire_inbox a fs (by simp [hin])
      rcases hok with ⟨a', i', m, h, rfl, hl, h0⟩ | ⟨i', c, rfl, hc⟩ | ⟨m, rfl⟩
      · cases hack : (s.ep a).acked i' a' with
        | true => rw [collect_data_dup_ep hin hack]; exact ⟨rfl, rfl⟩
        | false => rw [collect_data_new_ep hin hack]; exact ⟨rfl, rfl⟩
      · rw [collect_ack_ep hin]; exact ⟨rfl, rfl⟩
      · rw [collect_local_ep hin]; exact ⟨rfl, rfl⟩
  | process a feeds stage =>
    simp only [step]
    cases hb : (s.ep a).batch with
    | nil => rw [process_empty feeds stage hb]; exact ⟨rfl, rfl⟩
    | cons d rest =>
      cases hd : d.isAck with
      | false => rw [process_msg_ep feeds stage hb hd]; exact ⟨rfl, rfl⟩
      | true =>
        obtain ⟨sy, body⟩ := d
        have : ∃ i', body = Parsed.msg (Msg.ack i') := by
          cases body with
          | msg m => cases m with
            | ack i' => exact ⟨i', rfl⟩
            | app m => simp [Delivery.isAck] at hd
          | payload h v => simp [Delivery.isAck] at hd
        obtain ⟨i', rfl⟩ := this
        rw [process_ack_ep feeds stage hb]; exact ⟨rfl, rfl⟩

theorem run_lost {s : Sys} (hi : Inv s) (ops : List Op) (b : Nat) (hop : Op.abort b ∉ ops) :
    ((run s ops).ep b).lost = (s.ep b).lost ∧ ((run s ops).ep b).aborts = (s.ep b).aborts := by
  induction ops generalizing s with
  | nil => exact ⟨rfl, rfl⟩
  | cons op ops ih =>
    simp only [run]
    obtain ⟨h1, h2⟩ := ih (step_inv hi op) (fun hm => hop (List.mem_cons_of_mem _ hm))
    obtain ⟨g1, g2⟩ := step_lost hi op b (fun he => hop (by simp [he]))
    exact ⟨h1.trans g1, h2.trans g2⟩

/-- counting a delivery = counting its Syn, when the Syn determines the delivery -/
theorem count_eq_filterMap (d : Delivery) (key : SynId) (hd : d.syn = some key) :
    ∀ (l : List Delivery), (∀ d' ∈ l, d'.syn = some key → d' = d) →
      l.count d = (l.filterMap (·.syn)).count key := by
  intro l
  induction l with
  | nil => intro _; rfl
  | cons x xs ih =>
    intro hu
    have ih' := ih (fun d' hd' => hu d' (List.mem_cons_of_mem _ hd'))
    by_cases hxd : x = d
    · subst hxd; simp [List.filterMap_cons, hd, ih']
    · have hne : x.syn ≠ some key := fun h => hxd (hu x (by simp) h)
      rw [List.count_cons_of_ne (by simpa using hxd)]
      cases hs : x.syn with
      | none => simp [List.filterMap_cons, hs, ih']
      | some k =>
        have : k ≠ key := by intro h; subst h; exact hne hs
        simp [List.filterMap_cons, hs, ih', List.count_cons, this]

end EkwVerif.Ack
