/-
C13 — value arrays, part 2: join, broadcast, arithmetic between actions, std, transform, expand.

For the operations whose index-space bookkeeping is xarray's (`xr.concat`, `broadcast_like`) the SHAPE of the value
array (dimensions, coordinates, scalar coordinates) is taken from the model's shape computation — the lemmas `*_sh` show
that it depends on the operands' shapes only, never on their nodes — while the VALUES are given directly.
-/
import EkwVerif.Lemmas.C13Val

namespace EkwVerif.Fluent

variable {V : Type}

/-- the index space of a node array -/
def shOf (r : NodeArray) : List Dim × List (String × Coord) := (r.dims, r.scalars)

/-- **`join`, values**: along a dimension both have, `A`'s positions come first, then `B`'s; a `B` without that
dimension is one more slice; along a new dimension position 0 is `A`, position 1 is `B` (each broadcast by NAME along
the dimensions it lacks: a value array does not depend on the index of a dimension it does not have) -/
def vjoinVal (A B : VArr V) (d : String) : Ix → V := fun ix =>
  match A.sh.findDim d with
  | some x =>
    if ix d < x.labels.length then A.val ix else
      (match B.sh.findDim d with
       | some _ => B.val (ix.set d (ix d - x.labels.length))
       | none => B.val ix)
  | none => if ix d = 0 then A.val ix else B.val ix

def vjoinCore (A B : VArr V) (dim : DimArg) : VArr V :=
  match joinCore A.sh B.sh dim with
  | .error _ => A
  | .ok sh => ⟨sh.dims, sh.scalars, vjoinVal A B dim.dimName⟩

/-- `match_coord_values`: the other array under the coordinate values of `A` (its values are untouched) -/
def vmatch (A B : VArr V) : VArr V :=
  match matchCoords A.sh B.sh with
  | .error _ => B
  | .ok sh => ⟨sh.dims, sh.scalars, B.val⟩

def vjoin (A B : VArr V) (dim : DimArg) (mtch : Bool) : VArr V :=
  vjoinCore A (if mtch then vmatch A B else B) dim

/-- **`broadcast`, values**: every position holds `A`'s value at the same named position -/
def vbroadcast (A B : VArr V) (exclude : List String) : VArr V :=
  match broadcastX A.sh B.sh exclude with
  | .error _ => A
  | .ok sh => ⟨sh.dims, sh.scalars, A.val⟩

/-- **arithmetic between two actions, values**: the function applied to the two values at the same named position,
in this order (dimensions only one of them has are broadcast) -/
def varith (S : Sem V) (fn : String) (A B : VArr V) : VArr V :=
  match arithAction fn A.sh B.sh with
  | .error _ => A
  | .ok sh => ⟨sh.dims, sh.scalars, fun ix => S.fn fn [] [.val (A.val ix), .val (B.val ix)]⟩

/-- arithmetic with a number -/
def varithScalar (S : Sem V) (fn : String) (k : Static) (A : VArr V) : VArr V :=
  { A with val := fun ix => S.fn fn [] [.val (A.val ix), .lit k] }

/-- **`transform`, values**: the results of `f` for the parameters, joined along the dimension (each result first gets
the dimension with its label unless it already carries a coordinate of that name); a single result is handed back
without the dimension -/
def vtransformLoop {P : Type} (f : VArr V → P → VArr V) (dname : String) (values : List Coord) (axis : Nat) (A : VArr V) :
    List P → Nat → Option (VArr V) → Option (VArr V)
  | [], _, res => res
  | p :: ps, index, res =>
    let R := f A p
    let R := if R.sh.hasCoord dname then R else vaddDim R dname (values.getD index default) axis
    let res' := match res with
      | none => R
      | some acc => vjoin acc R (.name dname) false
    vtransformLoop f dname values axis A ps (index + 1) (some res')

def vtransform {P : Type} (f : VArr V → P → VArr V) (params : List P) (dim : DimArg) (axis : Nat) (A : VArr V) : VArr V :=
  let values := match dim with
    | .name _ => intLabels params.length
    | .coord _ ls => ls
  match vtransformLoop f dim.dimName values axis A params 0 none with
  | none => A
  | some res => vsqueeze res dim.dimName false

/-- **`expand`, values**: position `i` of the new dimension holds `take(value, index_i, dim=internal_dim)` -/
def vexpand (S : Sem V) (dim : DimArg) (spec : ExpandSpec) (kw : List (String × Static)) (axis : Nat) (A : VArr V) : VArr V :=
  match expandParams spec with
  | .error _ => A
  | .ok (internal, params) =>
    vtransform (fun X index => vmap S { fn := "take", tmpl := [.inp 0, .lit index], kw := ("dim", internal) :: kw } none X)
      params dim axis A

namespace Aux

/-! #### shapes depend on shapes only -/

theorem joinCore_sh' (D1 D2 : List Dim) (S1 S2 : List (String × Coord)) (n1 n1' n2 n2' : Ix → Expr) (dim : DimArg) :
    (joinCore ⟨D1, S1, n1⟩ ⟨D2, S2, n2⟩ dim).map shOf = (joinCore ⟨D1, S1, n1'⟩ ⟨D2, S2, n2'⟩ dim).map shOf := by
  simp only [joinCore, NodeArray.findDim, NodeArray.scalar?]
  split <;> simp only [joinExisting, joinSlice, joinNew, scalarClash, NodeArray.findDim, NodeArray.scalar?]
  all_goals (repeat' split)
  all_goals (first | rfl | simp_all [Except.map, shOf])

theorem matchCoords_sh' (D1 D2 : List Dim) (S1 S2 : List (String × Coord)) (n1 n1' n2 n2' : Ix → Expr) :
    (matchCoords ⟨D1, S1, n1⟩ ⟨D2, S2, n2⟩).map shOf = (matchCoords ⟨D1, S1, n1'⟩ ⟨D2, S2, n2'⟩).map shOf := by
  have h1 : matchDim ⟨D1, S1, n1⟩ = matchDim ⟨D1, S1, n1'⟩ := funext fun y => rfl
  have h2 : matchScalar ⟨D1, S1, n1⟩ = matchScalar ⟨D1, S1, n1'⟩ := funext fun y => rfl
  simp only [matchCoords, h1, h2]
  cases List.mapM (matchDim ⟨D1, S1, n1'⟩) D2 with
  | error e => rfl
  | ok ds =>
    simp only []
    cases List.mapM (matchScalar ⟨D1, S1, n1'⟩) S2 <;> rfl

theorem broadcastX_sh' (D1 D2 : List Dim) (S1 S2 : List (String × Coord)) (n1 n1' n2 n2' : Ix → Expr) (ex : List String) :
    (broadcastX ⟨D1, S1, n1⟩ ⟨D2, S2, n2⟩ ex).map shOf = (broadcastX ⟨D1, S1, n1'⟩ ⟨D2, S2, n2'⟩ ex).map shOf := by
  have h1 : broadcastCheckDim ⟨D1, S1, n1⟩ = broadcastCheckDim ⟨D1, S1, n1'⟩ := funext fun y => rfl
  have h2 : broadcastCheckScalar ⟨D1, S1, n1⟩ = broadcastCheckScalar ⟨D1, S1, n1'⟩ := funext fun y => rfl
  simp only [broadcastX, h1, h2, NodeArray.findDim, bind, Except.bind]
  repeat' split
  all_goals (first | rfl | simp_all [Except.map, shOf, pure, Except.pure])

theorem reduce0_eq (p : Payload) (x : Dim) (rest : List Dim) (sc : List (String × Coord)) (n : Ix → Expr) :
    reduce p none "" 0 false ⟨x :: rest, sc, n⟩ = .ok (reduceCore p x.name ⟨x :: rest, sc, n⟩) := by
  simp [reduce, defaultDim, bind, Except.bind, reduceBatched_zero, reduceFinish, NodeArray.findDim, withYields]

theorem reduce0_sh' (p : Payload) (D1 : List Dim) (S1 : List (String × Coord)) (n1 n1' : Ix → Expr) :
    (reduce p none "" 0 false ⟨D1, S1, n1⟩).map shOf = (reduce p none "" 0 false ⟨D1, S1, n1'⟩).map shOf := by
  cases D1 with
  | nil => rfl
  | cons x rest =>
    have e : ∀ n, reduce p none "" 0 false ⟨x :: rest, S1, n⟩ = .ok (reduceCore p x.name ⟨x :: rest, S1, n⟩) := by
      intro n
      simp [reduce, defaultDim, bind, Except.bind, reduceBatched_zero, reduceFinish, NodeArray.findDim, withYields]
    rw [e, e]; rfl

/-- the same statements for arbitrary arrays of equal shape -/
theorem shOf_eq {a a' : NodeArray} (h : shOf a = shOf a') : a.dims = a'.dims ∧ a.scalars = a'.scalars := by
  simpa [shOf] using h

theorem joinCore_sh {a a' b b' : NodeArray} (ha : shOf a = shOf a') (hb : shOf b = shOf b') (dim : DimArg) :
    (joinCore a b dim).map shOf = (joinCore a' b' dim).map shOf := by
  obtain ⟨D1, S1, n1⟩ := a; obtain ⟨D1', S1', n1'⟩ := a'; obtain ⟨D2, S2, n2⟩ := b; obtain ⟨D2', S2', n2'⟩ := b'
  obtain ⟨rfl, rfl⟩ := shOf_eq ha
  obtain ⟨rfl, rfl⟩ := shOf_eq hb
  exact joinCore_sh' _ _ _ _ _ _ _ _ _

theorem matchCoords_sh {a a' b b' : NodeArray} (ha : shOf a = shOf a') (hb : shOf b = shOf b') :
    (matchCoords a b).map shOf = (matchCoords a' b').map shOf := by
  obtain ⟨D1, S1, n1⟩ := a; obtain ⟨D1', S1', n1'⟩ := a'; obtain ⟨D2, S2, n2⟩ := b; obtain ⟨D2', S2', n2'⟩ := b'
  obtain ⟨rfl, rfl⟩ := shOf_eq ha
  obtain ⟨rfl, rfl⟩ := shOf_eq hb
  exact matchCoords_sh' _ _ _ _ _ _ _ _

theorem broadcastX_sh {a a' b b' : NodeArray} (ha : shOf a = shOf a') (hb : shOf b = shOf b') (ex : List String) :
    (broadcastX a b ex).map shOf = (broadcastX a' b' ex).map shOf := by
  obtain ⟨D1, S1, n1⟩ := a; obtain ⟨D1', S1', n1'⟩ := a'; obtain ⟨D2, S2, n2⟩ := b; obtain ⟨D2', S2', n2'⟩ := b'
  obtain ⟨rfl, rfl⟩ := shOf_eq ha
  obtain ⟨rfl, rfl⟩ := shOf_eq hb
  exact broadcastX_sh' _ _ _ _ _ _ _ _ _

theorem reduce0_sh (p : Payload) {a a' : NodeArray} (ha : shOf a = shOf a') :
    (reduce p none "" 0 false a).map shOf = (reduce p none "" 0 false a').map shOf := by
  obtain ⟨D1, S1, n1⟩ := a; obtain ⟨D1', S1', n1'⟩ := a'
  obtain ⟨rfl, rfl⟩ := shOf_eq ha
  exact reduce0_sh' _ _ _ _ _

theorem map_ok_sh {x y : Except Err NodeArray} (h : x.map shOf = y.map shOf) {r : NodeArray} (hx : x = .ok r) :
    ∃ r', y = .ok r' ∧ shOf r' = shOf r := by
  subst hx
  cases y with
  | error e => simp [Except.map] at h
  | ok r' => exact ⟨r', rfl, by simpa [Except.map] using h.symm⟩

theorem shOf_good {S : Sem V} {a : NodeArray} {A : VArr V} (g : Good S a A) : shOf a = shOf A.sh := by
  simp [shOf, VArr.sh, g.dims, g.scalars]

/-! #### what the nodes of a join are -/

theorem joinCore_node (a b r : NodeArray) (dim : DimArg) (h : joinCore a b dim = .ok r) :
    ∀ ix, r.node ix =
      (match a.findDim dim.dimName with
       | some x =>
         if ix dim.dimName < x.labels.length then a.node ix else
           (match b.findDim dim.dimName with
            | some _ => b.node (ix.set dim.dimName (ix dim.dimName - x.labels.length))
            | none => b.node ix)
       | none => if ix dim.dimName = 0 then a.node ix else b.node ix) := by
  intro ix
  unfold joinCore at h
  split at h
  · rename_i d x y hx hy
    simp only [DimArg.dimName] at hx hy ⊢
    simp only [hx, hy]
    simp only [joinExisting] at h
    repeat' split at h
    all_goals (cases h; try rfl)
  · rename_i d x hx hy
    simp only [DimArg.dimName] at hx hy ⊢
    simp only [hx, hy]
    split at h
    · cases h
    · simp only [joinSlice] at h
      repeat' split at h
      all_goals (cases h; try rfl)
  · rename_i hx hy
    simp only [hx]
    simp only [joinNew] at h
    repeat' split at h
    all_goals (cases h; try rfl)
  · cases h

theorem mergeDims_names (da db : List Dim) : (mergeDims da db).map (·.name) = da.map (·.name) := by
  simp only [mergeDims, List.map_map]
  apply List.map_congr_left
  intro z _
  simp only [Function.comp]
  split
  · rename_i y hf
    have hyn : y.name = z.name := by simpa using List.find?_some hf
    split
    · rfl
    · split
      · exact hyn
      · rfl
  · rfl

/-- the dimension names of a join are the join dimension and names of the operands -/
theorem joinCore_names (a b r : NodeArray) (dim : DimArg) (h : joinCore a b dim = .ok r) :
    ∀ x ∈ r.dims, x.name = dim.dimName ∨ x.name ∈ a.dims.map (·.name) ∨ x.name ∈ b.dims.map (·.name) := by
  have key : ∀ (l : List Dim) (f : Dim → Dim), (∀ z, (f z).name = z.name) → ∀ x ∈ l.map f, x.name ∈ l.map (·.name) := by
    intro l f hf x hx
    obtain ⟨z, hz, rfl⟩ := List.mem_map.mp hx
    rw [hf z]; exact List.mem_map_of_mem hz
  have hm : ∀ x ∈ mergeDims a.dims b.dims, x.name ∈ a.dims.map (·.name) := by
    intro x hx
    rw [← mergeDims_names a.dims b.dims]
    exact List.mem_map_of_mem hx
  intro x hx
  unfold joinCore at h
  split at h
  · simp only [joinExisting] at h
    repeat' split at h
    all_goals (cases h)
    all_goals
      obtain ⟨z, hz, rfl⟩ := List.mem_map.mp hx
      refine Or.inr (Or.inl ?_)
      split
      · exact hm z hz
      · exact hm z hz
  · split at h
    · cases h
    · simp only [joinSlice] at h
      repeat' split at h
      all_goals (cases h)
      all_goals
        obtain ⟨z, hz, rfl⟩ := List.mem_map.mp hx
        refine Or.inr (Or.inl ?_)
        split
        · exact hm z hz
        · exact hm z hz
  · simp only [joinNew] at h
    repeat' split at h
    all_goals (cases h)
    all_goals
      rename_i nd hnd
      simp only [List.mem_cons, List.mem_append, List.mem_filter] at hx
      rcases hx with rfl | hx | hx
      · refine Or.inl ?_
        unfold joinNewDim at hnd
        repeat' split at hnd
        all_goals (cases hnd)
        all_goals rfl
      · exact Or.inr (Or.inl (hm x hx))
      · exact Or.inr (Or.inr (List.mem_map_of_mem hx.1))
  · cases h

theorem mergeScalars_sub (sa sb s : List (String × Coord)) (h : mergeScalars sa sb = .ok s) :
    ∀ x ∈ s, x ∈ sa ∨ x ∈ sb := by
  unfold mergeScalars at h
  split at h
  · cases h
  · cases h
    intro x hx
    rcases List.mem_append.mp hx with hx | hx
    · exact Or.inl hx
    · exact Or.inr (List.mem_filter.mp hx).1

theorem eraseScalar_sub (s : List (String × Coord)) (d : String) : ∀ x ∈ eraseScalar s d, x ∈ s := by
  intro x hx
  exact (List.mem_filter.mp hx).1

theorem joinCore_scalars (a b r : NodeArray) (dim : DimArg) (h : joinCore a b dim = .ok r) :
    ∀ x ∈ r.scalars, x ∈ a.scalars ∨ x ∈ b.scalars := by
  intro x hx
  unfold joinCore at h
  split at h
  · simp only [joinExisting] at h
    repeat' split at h
    all_goals (cases h)
    all_goals
      rename_i sc hsc _
      exact mergeScalars_sub _ _ _ hsc x hx
  · split at h
    · cases h
    · simp only [joinSlice] at h
      repeat' split at h
      all_goals (cases h)
      all_goals
        rename_i sc hsc
        rcases mergeScalars_sub _ _ _ hsc x hx with h1 | h1
        · exact Or.inl (eraseScalar_sub _ _ x h1)
        · exact Or.inr (eraseScalar_sub _ _ x h1)
  · simp only [joinNew] at h
    repeat' split at h
    all_goals (cases h)
    all_goals
      rename_i sc hsc _ _ _
      rcases mergeScalars_sub _ _ _ hsc x hx with h1 | h1
      · exact Or.inl (eraseScalar_sub _ _ x h1)
      · exact Or.inr (eraseScalar_sub _ _ x h1)
  · cases h

theorem good_joinCore {S : Sem V} {a b r : NodeArray} {A B : VArr V} (ga : Good S a A) (gb : Good S b B) (dim : DimArg)
    (hd : ¬ Reserved dim.dimName) (h : joinCore a b dim = .ok r) : Good S r (vjoinCore A B dim) := by
  obtain ⟨sh, hsh, hshe⟩ := map_ok_sh (joinCore_sh (shOf_good ga) (shOf_good gb) dim) h
  obtain ⟨hsd, hss⟩ := shOf_eq hshe
  have hfa : A.sh.findDim dim.dimName = a.findDim dim.dimName := findDim_congr (by simp [VArr.sh, ga.dims]) _
  have hfb : B.sh.findDim dim.dimName = b.findDim dim.dimName := findDim_congr (by simp [VArr.sh, gb.dims]) _
  have hnode := joinCore_node a b r dim h
  unfold vjoinCore
  rw [hsh]
  refine ⟨hsd.symm, hss.symm, ?_, ?_, ?_, ?_⟩
  rotate_right
  · intro sc hsc
    rcases joinCore_scalars a b r dim h sc hsc with h1 | h1
    · exact ga.hygs sc h1
    · exact gb.hygs sc h1
  · intro ix
    rw [hnode ix]
    simp only [vjoinVal, hfa, hfb]
    cases a.findDim dim.dimName with
    | none => simp only []; split <;> simp [ga.val, gb.val]
    | some x =>
      simp only []
      split
      · exact ga.val ix
      · cases b.findDim dim.dimName <;> simp [gb.val]
  · intro n hr ix v
    have hne : n ≠ dim.dimName := ne_of_not_reserved hr hd
    rw [hnode, hnode, set_ne ix n _ v (Ne.symm hne)]
    cases a.findDim dim.dimName with
    | none => simp only []; split <;> first | exact ga.fresh n hr _ _ | exact gb.fresh n hr _ _
    | some x =>
      simp only []
      split
      · exact ga.fresh n hr _ _
      · cases b.findDim dim.dimName with
        | none => exact gb.fresh n hr _ _
        | some y =>
          simp only []
          rw [set_comm ix n _ v _ hne]
          exact gb.fresh n hr _ _
  · intro x hx
    rcases joinCore_names a b r dim h x hx with hx | hx | hx
    · rw [hx]; exact hd
    · obtain ⟨z, hz, hzn⟩ := List.mem_map.mp hx
      rw [← hzn]; exact ga.hyg z hz
    · obtain ⟨z, hz, hzn⟩ := List.mem_map.mp hx
      rw [← hzn]; exact gb.hyg z hz

theorem good_match {S : Sem V} {a b b' : NodeArray} {A B : VArr V} (ga : Good S a A) (gb : Good S b B)
    (h : matchCoords a b = .ok b') : Good S b' (vmatch A B) := by
  obtain ⟨sh, hsh, hshe⟩ := map_ok_sh (matchCoords_sh (shOf_good ga) (shOf_good gb)) h
  obtain ⟨hsd, hss⟩ := shOf_eq hshe
  obtain ⟨hnode, hnames, hsnames⟩ := matchCoords_spec a b b' h
  unfold vmatch
  rw [hsh]
  refine ⟨hsd.symm, hss.symm, ?_, ?_, ?_, ?_⟩
  rotate_right
  · intro sc hsc
    have : sc.1 ∈ b.scalars.map (·.1) := hsnames ▸ List.mem_map_of_mem hsc
    obtain ⟨z, hz, hzn⟩ := List.mem_map.mp this
    rw [← hzn]; exact gb.hygs z hz
  · intro ix; rw [hnode]; exact gb.val ix
  · intro n hr ix v; rw [hnode]; exact gb.fresh n hr ix v
  · intro x hx
    have : x.name ∈ b.dims.map (·.name) := hnames ▸ List.mem_map_of_mem hx
    obtain ⟨z, hz, hzn⟩ := List.mem_map.mp this
    rw [← hzn]; exact gb.hyg z hz

theorem good_join {S : Sem V} {a b r : NodeArray} {A B : VArr V} (ga : Good S a A) (gb : Good S b B) (dim : DimArg)
    (mtch : Bool) (hd : ¬ Reserved dim.dimName) (h : join a b dim mtch = .ok r) : Good S r (vjoin A B dim mtch) := by
  unfold join at h
  unfold vjoin
  cases mtch with
  | false => exact good_joinCore ga gb dim hd (by simpa using h)
  | true =>
    simp only [↓reduceIte] at h ⊢
    split at h
    · cases h
    · rename_i b' hb'
      exact good_joinCore ga (good_match ga gb hb') dim hd h

/-! #### broadcast -/

theorem broadcastX_node (a b r : NodeArray) (ex : List String) (h : broadcastX a b ex = .ok r) :
    (∀ ix, r.node ix = mkNode trivialPayload [a.node ix]) ∧ r.scalars = a.scalars ∧
    (∀ x ∈ r.dims, x.name ∈ a.dims.map (·.name) ∨ x.name ∈ b.dims.map (·.name)) := by
  simp only [broadcastX, bind, Except.bind] at h
  repeat' split at h
  all_goals (first | (cases h; done) | skip)
  all_goals
    simp only [pure, Except.pure] at h
    cases h
    refine ⟨fun _ => rfl, rfl, ?_⟩
    intro x hx
    simp only [List.mem_append, List.mem_map, List.mem_filter] at hx
    rcases hx with (⟨y, ⟨hy, _⟩, rfl⟩ | ⟨hx, _⟩) | ⟨hx, _⟩
    · cases hf : a.findDim y.name with
      | none => exact Or.inr (List.mem_map_of_mem hy)
      | some z =>
        simp only []
        split
        · obtain ⟨hzm, hzn⟩ := findDim_mem hf
          exact Or.inl (List.mem_map_of_mem hzm)
        · exact Or.inr (List.mem_map_of_mem hy)
    · exact Or.inl (List.mem_map_of_mem hx)
    · exact Or.inl (List.mem_map_of_mem hx)

theorem good_broadcast {S : Sem V} (L : Laws S) {a b r : NodeArray} {A B : VArr V} (ga : Good S a A) (gb : Good S b B)
    (ex : List String) (h : broadcastX a b ex = .ok r) : Good S r (vbroadcast A B ex) := by
  obtain ⟨sh, hsh, hshe⟩ := map_ok_sh (broadcastX_sh (shOf_good ga) (shOf_good gb) ex) h
  obtain ⟨hsd, hss⟩ := shOf_eq hshe
  obtain ⟨hnode, hrs, hnames⟩ := broadcastX_node a b r ex h
  unfold vbroadcast
  rw [hsh]
  refine ⟨hsd.symm, hss.symm, ?_, ?_, ?_, fun sc hsc => ga.hygs sc (hrs ▸ hsc)⟩
  · intro ix
    rw [hnode, eval_mkNode]
    simp [trivialPayload, Payload.apply, fillTmpl, resolve, L.trivial, ga.val]
  · intro n hr ix v
    rw [hnode, hnode, ga.fresh n hr]
  · intro x hx
    rcases hnames x hx with hx | hx
    · obtain ⟨z, hz, hzn⟩ := List.mem_map.mp hx
      rw [← hzn]; exact ga.hyg z hz
    · obtain ⟨z, hz, hzn⟩ := List.mem_map.mp hx
      rw [← hzn]; exact gb.hyg z hz

/-! #### arithmetic -/

theorem good_arithScalar {S : Sem V} {a : NodeArray} {A : VArr V} (g : Good S a A) (fn : String) (k : Static) :
    Good S (arithScalar fn k a) (varithScalar S fn k A) := by
  have := good_map g { fn := fn, tmpl := [.inp 0, .lit k] } none (by simp)
  refine Good.congr this rfl rfl ?_
  intro ix
  simp [vmap, vyield, varithScalar, Payload.apply, fillTmpl, resolve]

theorem join_sh {a a' b b' : NodeArray} (ha : shOf a = shOf a') (hb : shOf b = shOf b') (dim : DimArg) (m : Bool) :
    (join a b dim m).map shOf = (join a' b' dim m).map shOf := by
  unfold join
  cases m with
  | false => simpa using joinCore_sh ha hb dim
  | true =>
    simp only [↓reduceIte]
    have hm := matchCoords_sh ha hb
    cases h1 : matchCoords a b with
    | error e =>
      cases h2 : matchCoords a' b' with
      | error e' => simp [h1, h2, Except.map] at hm ⊢; exact hm
      | ok y => simp [h1, h2, Except.map] at hm
    | ok x =>
      cases h2 : matchCoords a' b' with
      | error e' => simp [h1, h2, Except.map] at hm
      | ok y =>
        simp only [h1, h2, Except.map] at hm ⊢
        exact joinCore_sh ha (by simpa using hm) dim

theorem arith_sh {a a' b b' : NodeArray} (ha : shOf a = shOf a') (hb : shOf b = shOf b') (fn : String) :
    (arithAction fn a b).map shOf = (arithAction fn a' b').map shOf := by
  have hj := join_sh ha hb (.name datatypeDim) true
  simp only [arithAction, bind, Except.bind]
  cases h1 : join a b (.name datatypeDim) true with
  | error e =>
    cases h2 : join a' b' (.name datatypeDim) true with
    | error e' => simp [h1, h2, Except.map] at hj ⊢; exact hj
    | ok y => simp [h1, h2, Except.map] at hj
  | ok x =>
    cases h2 : join a' b' (.name datatypeDim) true with
    | error e' => simp [h1, h2, Except.map] at hj
    | ok y =>
      simp only [h1, h2, Except.map] at hj ⊢
      exact reduce0_sh _ (by simpa using hj)

theorem reduce0_scalars (p : Payload) (j r : NodeArray) (h : reduce p none "" 0 false j = .ok r) : r.scalars = j.scalars := by
  obtain ⟨D, Sc, n⟩ := j
  cases D with
  | nil => simp [reduce, defaultDim, bind, Except.bind] at h
  | cons x rest =>
    have e : reduce p none "" 0 false ⟨x :: rest, Sc, n⟩ = .ok (reduceCore p x.name ⟨x :: rest, Sc, n⟩) := by
      simp [reduce, defaultDim, bind, Except.bind, reduceBatched_zero, reduceFinish, NodeArray.findDim, withYields]
    rw [e] at h
    cases h; rfl

theorem arith_scalars (fn : String) (a b r : NodeArray) (h : arithAction fn a b = .ok r) :
    ∀ x ∈ r.scalars, x.1 ∈ a.scalars.map (·.1) ∨ x.1 ∈ b.scalars.map (·.1) := by
  simp only [arithAction, bind, Except.bind] at h
  split at h
  · cases h
  · rename_i j hj
    have hrs := reduce0_scalars _ j r h
    simp only [join, ↓reduceIte] at hj
    split at hj
    · cases hj
    · rename_i b' hb'
      obtain ⟨_, _, hsn⟩ := matchCoords_spec a b b' hb'
      intro x hx
      rw [hrs] at hx
      rcases joinCore_scalars a b' j _ hj x hx with h1 | h1
      · exact Or.inl (List.mem_map_of_mem h1)
      · exact Or.inr (hsn ▸ List.mem_map_of_mem h1)

theorem good_arith {S : Sem V} {a b r : NodeArray} {A B : VArr V} (ga : Good S a A) (gb : Good S b B) (fn : String)
    (h : arithAction fn a b = .ok r) : Good S r (varith S fn A B) := by
  obtain ⟨sh, hsh, hshe⟩ := map_ok_sh (arith_sh (shOf_good ga) (shOf_good gb) fn) h
  obtain ⟨hsd, hss⟩ := shOf_eq hshe
  have hda := not_dim_of_reserved ga reserved_datatype
  have hdb := not_dim_of_reserved gb reserved_datatype
  obtain ⟨hnames, hnode⟩ := c13_value_arith fn a b r hda hdb h
  unfold varith
  rw [hsh]
  refine ⟨hsd.symm, hss.symm, ?_, ?_, ?_, ?_⟩
  rotate_right
  · intro sc hsc
    rcases arith_scalars fn a b r h sc hsc with h1 | h1
    · obtain ⟨z, hz, hzn⟩ := List.mem_map.mp h1
      rw [← hzn]; exact ga.hygs z hz
    · obtain ⟨z, hz, hzn⟩ := List.mem_map.mp h1
      rw [← hzn]; exact gb.hygs z hz
  · intro ix
    rw [hnode, eval_mkNode]
    rw [ga.fresh _ reserved_datatype, gb.fresh _ reserved_datatype]
    simp [Payload.apply, fillTmpl, resolve, List.range_succ, ga.val, gb.val]
  · intro n hr ix v
    rw [hnode, hnode]
    by_cases hn : n = datatypeDim
    · subst hn; simp only [set_set]
    · rw [set_comm ix n _ v 0 hn, set_comm ix n _ v 1 hn, ga.fresh n hr, gb.fresh n hr]
  · intro x hx
    have : x.name ∈ r.dims.map (·.name) := List.mem_map_of_mem hx
    rw [hnames] at this
    rcases List.mem_append.mp this with hm | hm
    · obtain ⟨z, hz, hzn⟩ := List.mem_map.mp hm
      rw [← hzn]; exact ga.hyg z hz
    · obtain ⟨z, hz, hzn⟩ := List.mem_map.mp (List.mem_filter.mp hm).1
      rw [← hzn]; exact gb.hyg z hz

/-! #### the shape of arithmetic between two arrays of the same shape (what the `std` rewrite needs) -/

theorem mergeDims_indexed (da db : List Dim) (h : ∀ x ∈ da, x.indexed = true) : mergeDims da db = da := by
  unfold mergeDims
  conv => rhs; rw [← List.map_id da]
  apply List.map_congr_left
  intro x hx
  simp only [id]
  split
  · simp [h x hx]
  · rfl

theorem allIndexed_of_indexed (l : List Dim) (h : ∀ x ∈ l, x.indexed = true) : allIndexed l = l := by
  unfold allIndexed
  conv => rhs; rw [← List.map_id l]
  apply List.map_congr_left
  intro x hx
  simp [h x hx]

theorem eraseScalar_none (s : List (String × Coord)) (d : String) (h : ∀ x ∈ s, x.1 ≠ d) : eraseScalar s d = s := by
  unfold eraseScalar
  apply List.filter_eq_self.mpr
  intro x hx
  simpa using h x hx

theorem joinNewDim_name (dim : DimArg) (sa sb : Option Coord) (nd : Dim) (h : joinNewDim dim sa sb = .ok nd) :
    nd.name = dim.dimName := by
  unfold joinNewDim at h
  split at h
  · split at h
    · cases h; rfl
    · cases h
  · cases h; rfl
  · cases h; rfl
  · cases h

theorem arith_same_shape (fn : String) (a b r : NodeArray)
    (hd : b.dims.map (·.name) = a.dims.map (·.name)) (hidx : ∀ x ∈ a.dims, x.indexed = true)
    (hsn : b.scalars.map (·.1) = a.scalars.map (·.1))
    (hdt : a.findDim datatypeDim = none) (hsdt : ∀ s ∈ a.scalars, s.1 ≠ datatypeDim)
    (h : arithAction fn a b = .ok r) : r.dims = a.dims ∧ r.scalars = a.scalars := by
  simp only [arithAction, bind, Except.bind] at h
  split at h
  · cases h
  · rename_i j hj
    simp only [join, ↓reduceIte] at hj
    split at hj
    · cases hj
    · rename_i b' hb'
      obtain ⟨_, hbn, hbsn⟩ := matchCoords_spec a b b' hb'
      have hdb' : b'.findDim datatypeDim = none := by
        rw [findDim_none_iff, hbn, hd, ← findDim_none_iff]; exact hdt
      have hc : joinCore a b' (.name datatypeDim) = joinNew a b' (.name datatypeDim) := by
        simp only [joinCore, DimArg.dimName, hdt, hdb']
      rw [hc] at hj
      simp only [joinNew, DimArg.dimName] at hj
      split at hj
      · cases hj
      split at hj
      · cases hj
      split at hj
      · cases hj
      rename_i sc hsc
      split at hj
      · cases hj
      rename_i nd hnd
      · cases hj
        have hndn : nd.name = datatypeDim := joinNewDim_name _ _ _ nd hnd
        -- the join has dimensions `**datatype**` followed by those of `a`
        have hfil : b'.dims.filter (fun y => (a.findDim y.name).isNone) = [] := by
          apply List.filter_eq_nil_iff.mpr
          intro y hy
          have : y.name ∈ a.dims.map (·.name) := by rw [← hd, ← hbn]; exact List.mem_map_of_mem hy
          have hs : (a.findDim y.name) ≠ none := fun hn => ((findDim_none_iff a y.name).mp hn) this
          cases hf : a.findDim y.name with
          | none => exact absurd hf hs
          | some _ => simp
        rw [mergeDims_indexed a.dims b'.dims hidx, hfil, List.append_nil] at h
        rw [reduce0_eq] at h
        cases h
        constructor
        · simp only [reduceCore]
          have hdrop : dropDim (nd :: a.dims) nd.name = a.dims := by
            have : dropDim (nd :: a.dims) nd.name = dropDim a.dims nd.name := by simp [dropDim]
            rw [this, hndn]
            exact dropDim_of_not_mem _ _ ((findDim_none_iff a datatypeDim).mp hdt)
          rw [hdrop]
          exact allIndexed_of_indexed _ hidx
        · simp only [reduceCore]
          rw [eraseScalar_none a.scalars _ hsdt] at hsc
          have hsdt' : ∀ s ∈ b'.scalars, s.1 ≠ datatypeDim := by
            intro s hs heq
            have : s.1 ∈ a.scalars.map (·.1) := by rw [← hsn, ← hbsn]; exact List.mem_map_of_mem hs
            obtain ⟨z, hz, hzn⟩ := List.mem_map.mp this
            exact hsdt z hz (hzn.trans heq)
          rw [eraseScalar_none b'.scalars _ hsdt'] at hsc
          unfold mergeScalars at hsc
          split at hsc
          · cases hsc
          · cases hsc
            have : b'.scalars.filter (fun x => !a.scalars.any (·.1 = x.1)) = [] := by
              apply List.filter_eq_nil_iff.mpr
              intro y hy
              have : y.1 ∈ a.scalars.map (·.1) := by rw [← hsn, ← hbsn]; exact List.mem_map_of_mem hy
              obtain ⟨z, hz, hzn⟩ := List.mem_map.mp this
              have hany : a.scalars.any (fun x => decide (x.1 = y.1)) = true :=
                List.any_eq_true.mpr ⟨z, hz, by simpa using hzn⟩
              simp [hany]
            simp [this]

/-! #### std -/

theorem varithScalar_val (S : Sem V) (fn : String) (k : Static) (X : VArr V) (ix : Ix) :
    (varithScalar S fn k X).val ix = S.fn fn [] [.val (X.val ix), .lit k] := rfl

theorem allIndexed_indexed (l : List Dim) : ∀ x ∈ allIndexed l, x.indexed = true := by
  intro x hx
  simp only [allIndexed, List.mem_map] at hx
  obtain ⟨y, _, rfl⟩ := hx
  by_cases h : y.indexed <;> simp [h]

theorem vreduce_indexed (S : Sem V) (p : Payload) (d0 : String) (keep : Bool) (A : VArr V) :
    ∀ x ∈ (vreduce S p none d0 keep A).dims, x.indexed = true := by
  intro x hx
  simp only [vreduce, vyield] at hx
  cases keep with
  | false => exact allIndexed_indexed _ x (by simpa [restDims] using hx)
  | true =>
    simp only [↓reduceIte, vaddDim, List.mem_append, List.mem_singleton] at hx
    rcases hx with (hx | rfl) | hx
    · exact allIndexed_indexed _ x (List.mem_of_mem_take (by simpa [restDims] using hx))
    · rfl
    · exact allIndexed_indexed _ x (List.mem_of_mem_drop (by simpa [restDims] using hx))

/-- the shape of a reduction depends on the shape of the operand only -/
theorem vreduce_shape (S : Sem V) (p q : Payload) (d0 : String) (keep : Bool) (A A' : VArr V)
    (h1 : A.dims = A'.dims) (h2 : A.scalars = A'.scalars) :
    (vreduce S p none d0 keep A).dims = (vreduce S q none d0 keep A').dims ∧
    (vreduce S p none d0 keep A).scalars = (vreduce S q none d0 keep A').scalars := by
  have hsh : A.sh.dims = A'.sh.dims := by simp [VArr.sh, h1]
  have hd : vdefaultDim A d0 = vdefaultDim A' d0 := by simp [vdefaultDim, h1]
  simp only [vreduce, vyield, hd, restDims, h2, keptLabel_congr hsh, axisOf_congr hsh]
  cases keep <;> simp [vaddDim, VArr.sh, h1]

/-- **`std`**: whatever the batch size, the node array realises the plain standard deviation along the dimension. -/
theorem good_std {S : Sem V} (L : Laws S) {a r : NodeArray} {A : VArr V} (g : Good S a A) (d0 : String)
    (b : Nat) (keep : Bool) (kw : List (String × Static))
    (hsum : IsBatchable ((backendPayload "sum" kw).apply S)) (h : std d0 b keep kw a = .ok r) :
    Good S r (vreduce S (backendPayload "std" kw) none d0 keep A) := by
  simp only [std, bind, Except.bind] at h
  split at h
  · cases h
  · rename_i d hd
    have hdd : d = vdefaultDim A d0 := defaultDim_eq g d0 d hd
    split at h
    · cases h
    · split at h
      · -- not batched: one `std` node
        have := good_reduce g _ (fun hb => absurd hb (not_batchable_std kw)) none (by simp) d 0 keep h
        rw [hdd, vreduce_dim] at this
        exact this
      · rename_i hnb
        split at h
        · cases h
        · rename_i m hm
          split at h
          · cases h
          · rename_i s hs
            split at h
            · cases h
            · rename_i diff hdiff
              simp only [pure, Except.pure] at h
              cases h
              -- the pieces of the rewrite, each with its meaning
              have gm := good_mean L g d b keep kw hsum hm
              rw [hdd, vreduce_dim] at gm
              have gmsq := good_arithScalar gm "pow" (.num 2)
              have ga2 := good_arithScalar g "pow" (.num 2)
              have gs := good_named ga2 "sum" d b keep kw (fun _ => hsum) hs
              have hdd2 : d = vdefaultDim (varithScalar S "pow" (.num 2) A) d0 := by simpa [vdefaultDim, varithScalar] using hdd
              rw [hdd2, vreduce_dim] at gs
              have gnorm := good_arithScalar gs "divide" (natStatic (a.dimSize d))
              have gdiff := good_arith gnorm gmsq "subtract" hdiff
              have gr := good_arithScalar gdiff "pow" (.num (1 / 2))
              -- shapes
              obtain ⟨hs1, hs2⟩ := vreduce_shape S (backendPayload "sum" kw) (backendPayload "mean" kw) d0 keep
                (varithScalar S "pow" (.num 2) A) A rfl rfl
              obtain ⟨hs3, hs4⟩ := vreduce_shape S (backendPayload "sum" kw) (backendPayload "std" kw) d0 keep
                (varithScalar S "pow" (.num 2) A) A rfl rfl
              have hshape := arith_same_shape "subtract" _ _ diff
                (by rw [gmsq.dims, gnorm.dims]; exact congrArg (List.map (·.name)) hs1.symm)
                (by intro x hx; rw [gnorm.dims] at hx; exact vreduce_indexed S _ d0 keep _ x hx)
                (by rw [gmsq.scalars, gnorm.scalars]; exact congrArg (List.map (·.1)) hs2.symm)
                (not_dim_of_reserved gnorm reserved_datatype)
                (fun sc hsc heq => gnorm.hygs sc hsc (heq ▸ reserved_datatype))
                hdiff
              have hsz : A.sh.dimSize (vdefaultDim A d0) = a.dimSize d := by
                rw [← hdd]; exact dimSize_congr (by simp [VArr.sh, g.dims]) d
              have hpos : 2 ≤ a.dimSize d := by
                simp at hnb
                omega
              refine Good.congr gr ?_ ?_ ?_
              · show (varith S "subtract" _ _).dims = _
                rw [← gdiff.dims, hshape.1, gnorm.dims]
                exact hs3
              · show (varith S "subtract" _ _).scalars = _
                rw [← gdiff.scalars, hshape.2, gnorm.scalars]
                exact hs4
              · intro ix
                -- values: unfold the four layers, then the `mean` and `std` laws
                have hvd : (varith S "subtract" (varithScalar S "divide" (natStatic (a.dimSize d))
                      (vreduce S (backendPayload "sum" kw) none d0 keep (varithScalar S "pow" (.num 2) A)))
                      (varithScalar S "pow" (.num 2) (vreduce S (backendPayload "mean" kw) none d0 keep A))).val ix
                    = S.fn "subtract" []
                        [.val ((varithScalar S "divide" (natStatic (a.dimSize d))
                          (vreduce S (backendPayload "sum" kw) none d0 keep (varithScalar S "pow" (.num 2) A))).val ix),
                         .val ((varithScalar S "pow" (.num 2) (vreduce S (backendPayload "mean" kw) none d0 keep A)).val ix)] := by
                  have := gdiff.val ix
                  obtain ⟨_, hnode⟩ := c13_value_arith "subtract" _ _ diff (not_dim_of_reserved gnorm reserved_datatype)
                    (not_dim_of_reserved gmsq reserved_datatype) hdiff
                  rw [hnode, eval_mkNode, gnorm.fresh _ reserved_datatype, gmsq.fresh _ reserved_datatype] at this
                  rw [← this]
                  simp [Payload.apply, fillTmpl, resolve, List.range_succ, gnorm.val, gmsq.val]
                have hne : (List.range (a.dimSize d)).map (fun i => A.val (ix.set (vdefaultDim A d0) i)) ≠ [] := by
                  intro hnil
                  have := congrArg List.length hnil
                  simp at this
                  omega
                have hA2 : (vreduce S (backendPayload "sum" kw) none d0 keep (varithScalar S "pow" (.num 2) A)).val ix
                    = semRed S "sum" kw (((List.range (a.dimSize d)).map (fun i => A.val (ix.set (vdefaultDim A d0) i))).map (semSq S)) := by
                  rw [vreduce_val, apply_backend]
                  have hsz2 : (varithScalar S "pow" (.num 2) A).sh.dimSize (vdefaultDim (varithScalar S "pow" (.num 2) A) d0) = a.dimSize d := hsz
                  have hd2 : vdefaultDim (varithScalar S "pow" (.num 2) A) d0 = vdefaultDim A d0 := rfl
                  rw [hsz2, hd2]
                  simp [semSq, varithScalar, List.map_map, Function.comp_def]
                have hM : (vreduce S (backendPayload "mean" kw) none d0 keep A).val ix
                    = semRed S "mean" kw ((List.range (a.dimSize d)).map (fun i => A.val (ix.set (vdefaultDim A d0) i))) := by
                  rw [vreduce_val, apply_backend, hsz]
                show S.fn "pow" [] [.val _, .lit (.num (1 / 2))] = _
                rw [hvd, varithScalar_val, varithScalar_val, hA2, hM, vreduce_val, apply_backend, hsz,
                  L.std kw _ hne, L.mean kw _ hne]
                simp [semSq]

/-! #### transform -/

/-- both absent, or a node array realising a value array -/
def OptGood (S : Sem V) : Option NodeArray → Option (VArr V) → Prop
  | none, none => True
  | some r, some R => Good S r R
  | _, _ => False

/-- one piece gets the dimension unless it already has a coordinate of that name -/
def stepDim (dname : String) (values : List Coord) (axis index : Nat) (r : NodeArray) : Except Err NodeArray :=
  if r.hasCoord dname then pure r else
    match values[index]? with
    | none => throw Err.index
    | some v => addDim r dname v axis

def stepJoin (dname : String) (res : Option NodeArray) (r : NodeArray) : Except Err NodeArray :=
  match res with
  | none => pure r
  | some acc => join acc r (.name dname) false

theorem transformLoop_cons {P : Type} (f : NodeArray → P → Except Err NodeArray) (dname : String) (values : List Coord)
    (axis : Nat) (a : NodeArray) (p : P) (ps : List P) (index : Nat) (res : Option NodeArray) :
    transformLoop f dname values axis a (p :: ps) index res =
      (f a p >>= fun r => stepDim dname values axis index r >>= fun r2 => stepJoin dname res r2 >>= fun res' =>
        transformLoop f dname values axis a ps (index + 1) (some res')) := by
  simp only [transformLoop, stepDim, stepJoin, bind, Except.bind]
  cases f a p with
  | error e => rfl
  | ok r =>
    simp only [pure, Except.pure]
    split
    · cases res <;> rfl
    · cases values[index]? with
      | none => rfl
      | some v =>
        simp only []
        cases addDim r dname v axis with
        | error e => rfl
        | ok r2 => cases res <;> rfl

theorem good_transformLoop {S : Sem V} {P : Type} (f : NodeArray → P → Except Err NodeArray) (fv : VArr V → P → VArr V)
    (a : NodeArray) (A : VArr V) (hf : ∀ p r, f a p = .ok r → Good S r (fv A p))
    (dname : String) (hd : ¬ Reserved dname) (values : List Coord) (axis : Nat) :
    ∀ (ps : List P) (index : Nat) (res : Option NodeArray) (Res : Option (VArr V)) (out : Option NodeArray),
      OptGood S res Res → transformLoop f dname values axis a ps index res = .ok out →
      OptGood S out (vtransformLoop fv dname values axis A ps index Res) := by
  intro ps
  induction ps with
  | nil =>
    intro index res Res out hg h
    simp only [transformLoop] at h
    cases h
    exact hg
  | cons p ps ih =>
    intro index res Res out hg h
    rw [transformLoop_cons] at h
    cases hr : f a p with
    | error e => simp [hr, bind, Except.bind] at h
    | ok r =>
      have gr := hf p r hr
      simp only [hr, bind, Except.bind] at h
      cases hr2 : stepDim dname values axis index r with
      | error e => simp [hr2] at h
      | ok r2 =>
        simp only [hr2] at h
        -- the piece with its dimension
        have gr2 : Good S r2 (if (fv A p).sh.hasCoord dname then fv A p
            else vaddDim (fv A p) dname (values.getD index default) axis) := by
          have hc : (fv A p).sh.hasCoord dname = r.hasCoord dname :=
            hasCoord_congr (by simp [VArr.sh, gr.dims]) (by simp [VArr.sh, gr.scalars]) dname
          rw [hc]
          unfold stepDim at hr2
          by_cases hcc : r.hasCoord dname = true
          · simp only [hcc, ↓reduceIte, pure, Except.pure] at hr2 ⊢
            cases hr2
            exact gr
          · simp only [hcc] at hr2 ⊢
            cases hv : values[index]? with
            | none => simp [hv] at hr2
            | some v =>
              simp only [hv] at hr2
              have : values.getD index default = v := by simp [List.getD, hv]
              simp only [Bool.false_eq_true, ↓reduceIte, this]
              exact good_addDim gr dname v axis hd hr2
        cases hres' : stepJoin dname res r2 with
        | error e => simp [hres'] at h
        | ok res' =>
          simp only [hres'] at h
          apply ih (index + 1) (some res') _ out _ h
          unfold stepJoin at hres'
          cases res with
          | none =>
            cases Res with
            | none =>
              simp only [pure, Except.pure] at hres'
              cases hres'
              exact gr2
            | some _ => exact absurd hg (by simp [OptGood])
          | some acc =>
            cases Res with
            | none => exact absurd hg (by simp [OptGood])
            | some Acc =>
              exact good_join hg gr2 (.name dname) false hd hres'

def dimValues {P : Type} (dim : DimArg) (params : List P) : List Coord :=
  match dim with
  | .name _ => intLabels params.length
  | .coord _ ls => ls

theorem transform_eq {P : Type} (f : NodeArray → P → Except Err NodeArray) (params : List P) (dim : DimArg) (axis : Nat)
    (a : NodeArray) :
    transform f params dim axis a =
      (transformLoop f dim.dimName (dimValues dim params) axis a params 0 none >>= fun o =>
        match o with
        | none => throw Err.value
        | some res => squeeze res dim.dimName false) := by
  simp only [transform, dimValues, bind, Except.bind]
  cases dim <;> rfl

theorem good_transform {S : Sem V} {P : Type} (f : NodeArray → P → Except Err NodeArray) (fv : VArr V → P → VArr V)
    {a r : NodeArray} {A : VArr V} (hf : ∀ p r, f a p = .ok r → Good S r (fv A p))
    (params : List P) (dim : DimArg) (hd : ¬ Reserved dim.dimName) (axis : Nat)
    (h : transform f params dim axis a = .ok r) : Good S r (vtransform fv params dim axis A) := by
  rw [transform_eq] at h
  cases hout : transformLoop f dim.dimName (dimValues dim params) axis a params 0 none with
  | error e => simp [hout, bind, Except.bind] at h
  | ok out =>
    simp only [hout, bind, Except.bind] at h
    have hg := good_transformLoop f fv a A hf dim.dimName hd (dimValues dim params) axis params 0 none none out
      (by simp [OptGood]) hout
    have hv : vtransform fv params dim axis A =
        (match vtransformLoop fv dim.dimName (dimValues dim params) axis A params 0 none with
         | none => A
         | some res => vsqueeze res dim.dimName false) := by
      simp only [vtransform, dimValues]
    rw [hv]
    cases out with
    | none => simp [throw, throwThe, MonadExceptOf.throw] at h
    | some res =>
      simp only [] at h
      cases hR : vtransformLoop fv dim.dimName (dimValues dim params) axis A params 0 none with
      | none => rw [hR] at hg; exact absurd hg (by simp [OptGood])
      | some Res =>
        rw [hR] at hg
        simp only []
        exact good_squeeze hg dim.dimName false h

theorem good_expand {S : Sem V} {a r : NodeArray} {A : VArr V} (g : Good S a A) (dim : DimArg) (spec : ExpandSpec)
    (kw : List (String × Static)) (axis : Nat) (hd : ¬ Reserved dim.dimName)
    (h : expandG dim spec kw axis a = .ok r) : Good S r (vexpand S dim spec kw axis A) := by
  unfold expandG at h
  unfold vexpand
  split at h
  · cases h
  · rename_i internal params hp
    simp only [hp]
    have hf : ∀ (p : Static) (r : NodeArray), expandTransformKw internal kw a p = .ok r →
        Good S r (vmap S { fn := "take", tmpl := [.inp 0, .lit p], kw := ("dim", internal) :: kw } none A) := by
      intro p r hr
      simp only [expandTransformKw] at hr
      cases hr
      exact good_map g _ none (by simp)
    split at h
    · split at h
      · cases h
      · exact good_transform _ _ hf params _ hd axis h
    · exact good_transform _ _ hf params _ hd axis h

end Aux

end EkwVerif.Fluent
