/-
C13 — VALUE arrays: the NumPy-level meaning of the fluent operations, written without nodes.

A `VArr V` lives over the same index space as a node array (dimensions with their coordinate labels, scalar
coordinates) but holds a VALUE at every position. The operations `v…` below say what each fluent operation means
for values — an indexed family of values over coordinates — and never mention nodes, payload graphs, batching, the
`mean`/`std` rewrites, the join-then-reduce encoding of arithmetic or the loop of `transform`.

`Good S r R` ties a node array `r` to a value array `R`: same dimensions / coordinates / scalar coordinates, and the
node at every position evaluates (under the interpretation `S` of the payload functions) to the value at that
position. The lemmas `good_*` show, operation by operation, that the node array the model constructs is `Good` for the
value array the meaning prescribes. Props/C13Den.lean assembles them by induction over programs.
-/
import EkwVerif.Props.C13

namespace EkwVerif.Fluent

structure VArr (V : Type) where
  dims : List Dim
  scalars : List (String × Coord)
  val : Ix → V

/-- the index space of a value array, as a node array with dummy nodes (so that `findDim`, `dimSize`, `axisOf`,
`scalar?`, `hasCoord` need not be written twice) -/
def VArr.sh {V : Type} (A : VArr V) : NodeArray := ⟨A.dims, A.scalars, fun _ => default⟩

/-- names the implementation reserves for itself: the dimensions the batching loop introduces and the dimension
arithmetic between actions joins on. A program must not use them. -/
def Reserved (n : String) : Prop := (∃ (lvl : Nat) (s : String), n = batchDimName lvl s) ∨ n = datatypeDim

/-- `r` (nodes) realises `R` (values) under the interpretation `S`. The last two fields are hygiene: no dimension has
a reserved name (nor does a scalar coordinate), and no node depends on the index given for a reserved name. -/
structure Good {V : Type} (S : Sem V) (r : NodeArray) (R : VArr V) : Prop where
  dims : r.dims = R.dims
  scalars : r.scalars = R.scalars
  val : ∀ ix, (r.node ix).eval S = R.val ix
  fresh : ∀ n, Reserved n → Indep r n
  hyg : ∀ x ∈ r.dims, ¬ Reserved x.name
  hygs : ∀ s ∈ r.scalars, ¬ Reserved s.1

/-- the square `pow(v, 2)` as the payloads of the `std` rewrite compute it -/
def semSq {V : Type} (S : Sem V) (v : V) : V := S.fn "pow" [] [.val v, .lit (.num 2)]

/-- a reduction function of the backends applied to several values -/
def semRed {V : Type} (S : Sem V) (name : String) (kw : List (String × Static)) (vals : List V) : V :=
  S.fn name kw (vals.map ArgV.val)

/-- What the program-level theorems assume about the interpretation `S` of the payload functions — each item is a
statement about FUNCTIONS ON VALUES, none about graphs:
* `trivial` is the identity (`backends.trivial`);
* the mean of `n` values is their sum divided by `n`;
* the standard deviation of `n` values is `pow(Σx²/n − (Σx/n)², 1/2)` (population variance, `ddof = 0`).
`c13_laws_rat` shows that the exact rational interpretation `ratSem` satisfies all three, with `std` DEFINED as the root
of the mean squared deviation from the mean. (That a payload marked batchable denotes a batchable function is a separate
hypothesis, `Batchable S Bat`, about the payloads a program uses.) -/
structure Laws {V : Type} (S : Sem V) : Prop where
  trivial : ∀ kw v, S.fn "trivial" kw [.val v] = v
  mean : ∀ kw (vals : List V), vals ≠ [] →
    semRed S "mean" kw vals = S.fn "divide" [] [.val (semRed S "sum" kw vals), .lit (natStatic vals.length)]
  std : ∀ kw (vals : List V), vals ≠ [] →
    semRed S "std" kw vals =
      S.fn "pow" [] [.val (S.fn "subtract" []
        [.val (S.fn "divide" [] [.val (semRed S "sum" kw (vals.map (semSq S))), .lit (natStatic vals.length)]),
         .val (semSq S (S.fn "divide" [] [.val (semRed S "sum" kw vals), .lit (natStatic vals.length)]))]),
        .lit (.num (1 / 2))]

/-- Every payload in the class `Bat` that is marked batchable denotes a batchable function. C15 proves it of the backend
functions that carry `@batchable`; for a user function it is the user's promise `func.batchable = True`. -/
def Batchable {V : Type} (S : Sem V) (Bat : Payload → Prop) : Prop :=
  ∀ p : Payload, Bat p → p.batchable = true → IsBatchable (p.apply S)

namespace Aux

/-- the marks the translator read from backends/__init__.py: `mean`, `std`, `stack` are NOT batchable (so the rewrites
of mean/std are needed, and stack refuses a batch size), `sum` is -/
theorem marks : isBatchableName "mean" = false ∧ isBatchableName "std" = false ∧ isBatchableName "stack" = false ∧
    isBatchableName "sum" = true := by decide

theorem Good.congr {V : Type} {S : Sem V} {r : NodeArray} {R R' : VArr V} (g : Good S r R)
    (h1 : R.dims = R'.dims) (h2 : R.scalars = R'.scalars) (h3 : ∀ ix, R.val ix = R'.val ix) : Good S r R' :=
  ⟨g.dims.trans h1, g.scalars.trans h2, fun ix => (g.val ix).trans (h3 ix), g.fresh, g.hyg, g.hygs⟩

/-! #### shape accessors depend on the shape only -/

theorem findDim_congr {a b : NodeArray} (h : a.dims = b.dims) (d : String) : a.findDim d = b.findDim d := by
  simp [NodeArray.findDim, h]

theorem dimSize_congr {a b : NodeArray} (h : a.dims = b.dims) (d : String) : a.dimSize d = b.dimSize d := by
  simp [NodeArray.dimSize, findDim_congr h]

theorem axisOf_congr {a b : NodeArray} (h : a.dims = b.dims) (d : String) : a.axisOf d = b.axisOf d := by
  simp [NodeArray.axisOf, h]

theorem scalar?_congr {a b : NodeArray} (h : a.scalars = b.scalars) (d : String) : a.scalar? d = b.scalar? d := by
  simp [NodeArray.scalar?, h]

theorem hasCoord_congr {a b : NodeArray} (h1 : a.dims = b.dims) (h2 : a.scalars = b.scalars) (d : String) :
    a.hasCoord d = b.hasCoord d := by
  simp [NodeArray.hasCoord, findDim_congr h1, scalar?_congr h2]

theorem keptLabel_congr {a b : NodeArray} (h : a.dims = b.dims) (d : String) : keptLabel a d = keptLabel b d := by
  simp [keptLabel, findDim_congr h]

theorem dimNames_congr {a b : NodeArray} (h : a.dims = b.dims) : a.dimNames = b.dimNames := by
  simp [NodeArray.dimNames, h]

theorem findDim_mem {a : NodeArray} {d : String} {x : Dim} (h : a.findDim d = some x) : x ∈ a.dims ∧ x.name = d := by
  unfold NodeArray.findDim at h
  exact ⟨List.mem_of_find?_eq_some h, by simpa using List.find?_some h⟩

/-! #### reserved names -/

theorem reserved_batch (lvl : Nat) (s : String) : Reserved (batchDimName lvl s) := Or.inl ⟨lvl, s, rfl⟩

theorem reserved_datatype : Reserved datatypeDim := Or.inr rfl

theorem ne_of_not_reserved {n d : String} (hn : Reserved n) (hd : ¬ Reserved d) : n ≠ d := by
  intro h; subst h; exact hd hn

/-- hygiene gives the freshness hypothesis of `c13_batch_invariant` -/
theorem batchFresh_of_good {V : Type} {S : Sem V} {r : NodeArray} {R : VArr V} (g : Good S r R) (d : String) :
    BatchFresh r d := by
  intro lvl s _
  refine ⟨g.fresh _ (reserved_batch lvl s), ?_⟩
  intro hmem
  simp only [NodeArray.dimNames, List.mem_map] at hmem
  obtain ⟨x, hx, hn⟩ := hmem
  exact g.hyg x hx (hn ▸ reserved_batch lvl s)

theorem not_dim_of_reserved {V : Type} {S : Sem V} {r : NodeArray} {R : VArr V} (g : Good S r R) {n : String}
    (hn : Reserved n) : r.findDim n = none := by
  rw [findDim_none_iff]
  intro hmem
  simp only [List.mem_map] at hmem
  obtain ⟨x, hx, hxn⟩ := hmem
  exact g.hyg x hx (hxn ▸ hn)

/-- a short name (fewer than 6 characters) is not reserved — enough for the examples -/
theorem not_reserved_of_short (n : String) (h : n.length < 6) : ¬ Reserved n := by
  intro hr
  rcases hr with ⟨lvl, s, rfl⟩ | rfl
  · have := batchDimName_length lvl s
    have h6 : 6 ≤ (batchDimName lvl s).length := by
      simp [batchDimName, String.length_append]
      have : ("batch.").length = 6 := by decide
      omega
    omega
  · revert h; decide

/-! #### independence of an index under re-indexing -/

theorem indep_set_const {a : NodeArray} {n d : String} {i : Nat} {f : Ix → Expr}
    (hf : ∀ ix, f ix = a.node (ix.set d i)) (hI : n ≠ d → Indep a n) : ∀ (ix : Ix) (v : Nat), f (ix.set n v) = f ix := by
  intro ix v
  rw [hf, hf]
  by_cases h : n = d
  · subst h; rw [set_set]
  · rw [set_comm ix n d v i h]; exact hI h _ _

end Aux

/-! ### the meaning of the operations, on values -/

variable {V : Type}

/-- `from_source`: the value at a position is the value of the source node there (row-major numbering) -/
def vsource (S : Sem V) (dims : List (String × List Coord)) (base : Nat) : VArr V :=
  let ds := dims.map (fun (n, l) => ({ name := n, labels := l, indexed := true } : Dim))
  { dims := ds, scalars := [], val := fun ix => S.src (base + flatIndex ds ix) }

/-- a generator result: a new LAST dimension over the outputs (a payload declared with ONE output is its output) -/
def vyield (S : Sem V) (A : VArr V) : Option (String × List Coord) → VArr V
  | none => A
  | some (y, ls) =>
    { dims := A.dims ++ [{ name := y, labels := ls, indexed := true }], scalars := A.scalars,
      val := fun ix => if ls.length = 1 then A.val ix else S.out (ix y) (A.val ix) }

/-- `map`: the payload function applied to the value at each position -/
def vmap (S : Sem V) (p : Payload) (yields : Option (String × List Coord)) (A : VArr V) : VArr V :=
  vyield S { A with val := fun ix => p.apply S [A.val ix] } yields

/-- `map` with an array of payloads: the payload AT THE SAME POSITION applied to the value there -/
def vmapMany (S : Sem V) (ps : List Payload) (A : VArr V) : VArr V :=
  { A with val := fun ix => (ps.getD (flatIndex A.dims ix) default).apply S [A.val ix] }

/-- a new dimension of size one -/
def vaddDim (A : VArr V) (name : String) (label : Coord) (axis : Nat) : VArr V :=
  { A with dims := A.dims.take axis ++ [{ name := name, labels := [label], indexed := true }] ++ A.dims.drop axis }

/-- the dimension a reduction works on: the named one, the first one for `""` -/
def vdefaultDim (A : VArr V) (d : String) : String :=
  if d = "" then (match A.dims with | [] => "" | x :: _ => x.name) else d

/-- **`reduce`** (and with it every named reduction, whatever the batch size): the payload function applied to the
values along the dimension, in coordinate order; the dimension disappears — or stays with size one at its place
(`keep_dim`); every other dimension has a coordinate afterwards. No batching here: the batch size is no part of the
meaning. -/
def vreduce (S : Sem V) (p : Payload) (yields : Option (String × List Coord)) (d0 : String) (keep : Bool) (A : VArr V) :
    VArr V :=
  let d := vdefaultDim A d0
  let core : VArr V :=
    { dims := restDims A.sh d, scalars := A.scalars,
      val := fun ix => p.apply S ((List.range (A.sh.dimSize d)).map (fun i => A.val (ix.set d i))) }
  let y := vyield S core yields
  if keep then vaddDim y d (keptLabel A.sh d) (A.sh.axisOf d) else y

/-- a dimension of size one removed (its label stays behind as a scalar coordinate unless dropped) -/
def vsqueeze (A : VArr V) (d : String) (drop : Bool) : VArr V :=
  match A.sh.findDim d with
  | some x =>
    if x.labels.length == 1 then
      { dims := dropDim A.dims d,
        scalars := if drop || !x.indexed then A.scalars else A.scalars ++ [(d, x.labels.headD default)],
        val := fun ix => A.val (ix.set d 0) }
    else A
  | none => A

/-- **`stack` / `concatenate`**: the backend's `stack` / `concat` of the values along the dimension; of a single value:
that value (the dimension goes away, or stays with `keep_dim`) -/
def vcombine (S : Sem V) (method : String) (kw : List (String × Static)) (d : String) (keep : Bool) (A : VArr V) : VArr V :=
  if A.sh.dimSize d = 1 then (if keep then A else vsqueeze A d false)
  else vreduce S (backendPayload method kw) none d keep A

/-- the values at position(s) `s` of dimension `x` -/
def vpick (A : VArr V) (x : Dim) (s : Sel Nat) (drop : Bool) : VArr V :=
  match s with
  | .one i =>
    { dims := dropDim A.dims x.name,
      scalars := if drop || !x.indexed then A.scalars else A.scalars ++ [(x.name, x.labels.getD i default)],
      val := fun ix => A.val (ix.set x.name i) }
  | .many is =>
    { dims := A.dims.map (fun y => if y.name = x.name then
                  { y with labels := if x.indexed then is.map (fun i => x.labels.getD i default) else intLabels is.length }
                else y),
      scalars := A.scalars,
      val := fun ix => A.val (ix.set x.name (is.getD (ix x.name) 0)) }

/-- the position a selection value addresses: THE position carrying that label; a dimension without coordinate is
addressed by position -/
def selLoc (x : Dim) (c : Coord) : Except Err Nat :=
  if x.indexed then locate x.labels c else
  match c with
  | .int i => if 0 ≤ i ∧ i.toNat < x.labels.length then .ok i.toNat else .error .index
  | .str _ => .error .outOfScope

/-- **`select`**: the values at the position(s) whose label(s) are given (a criterion on something that is no
dimension selects nothing: it can only restate a scalar coordinate) -/
def vselect (d : String) (s : Sel Coord) (drop : Bool) (A : VArr V) : VArr V :=
  match A.sh.findDim d with
  | none => A
  | some x =>
    match s with
    | .one c => match selLoc x c with
      | .ok i => vpick A x (.one i) drop
      | .error _ => A
    | .many cs => match cs.mapM (selLoc x) with
      | .ok is => vpick A x (.many is) drop
      | .error _ => A

/-- **`iselect`**: the values at the given position(s) -/
def viselect (d : String) (s : Sel Nat) (drop : Bool) (A : VArr V) : VArr V :=
  match A.sh.findDim d with
  | none => A
  | some x => vpick A x s drop

def vselectN (crit : List (String × Sel Coord)) (drop : Bool) (A : VArr V) : VArr V :=
  crit.foldl (fun acc c => vselect c.1 c.2 drop acc) A

def viselectN (crit : List (String × Sel Nat)) (drop : Bool) (A : VArr V) : VArr V :=
  crit.foldl (fun acc c => viselect c.1 c.2 drop acc) A

namespace Aux

theorem good_source (S : Sem V) (dims : List (String × List Coord)) (base : Nat)
    (hn : ∀ x ∈ dims, ¬ Reserved x.1) : Good S (fromSource dims base) (vsource S dims base) := by
  refine ⟨rfl, rfl, fun _ => rfl, ?_, ?_, by simp [fromSource]⟩
  · intro n hr ix v
    simp only [fromSource]
    rw [flatIndex_indep]
    intro hmem
    simp only [List.map_map, List.mem_map] at hmem
    obtain ⟨x, hx, hxn⟩ := hmem
    simp only [Function.comp] at hxn
    exact hn x hx (hxn ▸ hr)
  · intro x hx
    simp only [fromSource, List.mem_map] at hx
    obtain ⟨y, hy, rfl⟩ := hx
    exact hn y hy

theorem good_withYields {S : Sem V} {r : NodeArray} {R : VArr V} (g : Good S r R) (yields : Option (String × List Coord))
    (hy : ∀ y, yields = some y → ¬ Reserved y.1) : Good S (withYields r yields) (vyield S R yields) := by
  match yields with
  | none => exact g
  | some (y, ls) =>
    have hyn : ¬ Reserved y := hy (y, ls) rfl
    refine ⟨by simp [withYields, vyield, g.dims], by simp [withYields, vyield, g.scalars], ?_, ?_, ?_, g.hygs⟩
    · intro ix
      simp only [withYields, vyield]
      split
      · exact g.val ix
      · simp [Expr.eval, g.val ix]
    · intro n hr ix v
      have hne : n ≠ y := ne_of_not_reserved hr hyn
      simp only [withYields]
      rw [g.fresh n hr, set_ne ix n y v (Ne.symm hne)]
    · intro x hx
      simp only [withYields, List.mem_append, List.mem_singleton] at hx
      rcases hx with hx | rfl
      · exact g.hyg x hx
      · exact hyn

theorem good_map {S : Sem V} {a : NodeArray} {A : VArr V} (g : Good S a A) (p : Payload)
    (yields : Option (String × List Coord)) (hy : ∀ y, yields = some y → ¬ Reserved y.1) :
    Good S (map p yields a) (vmap S p yields A) := by
  have g1 : Good S { a with node := fun ix => mkNode p [a.node ix] } { A with val := fun ix => p.apply S [A.val ix] } :=
    ⟨g.dims, g.scalars, fun ix => by simp [eval_mkNode, g.val ix], fun n hr ix v => by simp only []; rw [g.fresh n hr], g.hyg, g.hygs⟩
  exact good_withYields g1 yields hy

theorem good_mapMany {S : Sem V} {a : NodeArray} {A : VArr V} (g : Good S a A) (ps : List Payload) (shape : List Nat)
    {r : NodeArray} (h : mapMany ps shape a = .ok r) : Good S r (vmapMany S ps A) := by
  unfold mapMany at h
  split at h
  · cases h
  · cases h
    refine ⟨g.dims, g.scalars, ?_, ?_, g.hyg, g.hygs⟩
    · intro ix
      simp [vmapMany, eval_mkNode, g.val ix, g.dims]
    · intro n hr ix v
      simp only []
      rw [g.fresh n hr, flatIndex_indep]
      intro hmem
      simp only [List.mem_map] at hmem
      obtain ⟨x, hx, hxn⟩ := hmem
      exact g.hyg x hx (hxn ▸ hr)

theorem good_addDim {S : Sem V} {r r' : NodeArray} {R : VArr V} (g : Good S r R) (name : String) (label : Coord)
    (axis : Nat) (hn : ¬ Reserved name) (h : addDim r name label axis = .ok r') :
    Good S r' (vaddDim R name label axis) := by
  unfold addDim at h
  split at h
  · cases h
  · split at h
    · cases h
    · split at h
      · cases h
      · cases h
        refine ⟨by simp [vaddDim, g.dims], g.scalars, g.val, g.fresh, ?_, g.hygs⟩
        intro x hx
        simp only [List.mem_append, List.mem_singleton] at hx
        rcases hx with (hx | rfl) | hx
        · exact g.hyg x (List.mem_of_mem_take hx)
        · exact hn
        · exact g.hyg x (List.mem_of_mem_drop hx)

theorem defaultDim_eq {S : Sem V} {a : NodeArray} {A : VArr V} (g : Good S a A) (d0 d : String)
    (h : defaultDim d0 a = .ok d) : d = vdefaultDim A d0 := by
  unfold defaultDim at h
  unfold vdefaultDim
  split at h
  · rename_i h0
    simp only [h0, ↓reduceIte]
    rw [← g.dims]
    split at h
    · cases h
    · rename_i heq
      cases h; rw [heq]
  · rename_i h0
    simp only [h0, ↓reduceIte]
    cases h; rfl

theorem dropDim_hyg (l : List Dim) (d : String) (h : ∀ x ∈ l, ¬ Reserved x.name) :
    ∀ x ∈ allIndexed (dropDim l d), ¬ Reserved x.name := by
  intro x hx
  simp only [allIndexed, dropDim, List.mem_map, List.mem_filter] at hx
  obtain ⟨y, ⟨hy, _⟩, rfl⟩ := hx
  split <;> exact h y hy

theorem along_set_self (a : NodeArray) (d : String) (ix : Ix) (v : Nat) : a.along d (ix.set d v) = a.along d ix := by
  simp only [NodeArray.along]
  apply List.map_congr_left
  intro i _
  rw [set_set]

theorem reduceCore_indep (p : Payload) (d : String) (a : NodeArray) (n : String) (h : n = d ∨ Indep a n) :
    Indep (reduceCore p d a) n := by
  intro ix v
  simp only [reduceCore]
  rcases h with rfl | h
  · rw [along_set_self]
  · by_cases hn : n = d
    · subst hn; rw [along_set_self]
    · rw [along_indep a d n ix v hn h]

theorem batchLevel_indep (p : Payload) (d : String) (b lvl : Nat) (a : NodeArray) (n : String)
    (h : n = d ∨ Indep a n) (hne : n ≠ batchDimName lvl d) : Indep (batchLevel p d b lvl a) n := by
  intro ix v
  simp only [batchLevel]
  rw [set_ne ix n _ v (Ne.symm hne)]
  have : a.along d (ix.set n v) = a.along d ix := by
    rcases h with rfl | h
    · exact along_set_self a n ix v
    · by_cases hn : n = d
      · subst hn; exact along_set_self a n ix v
      · exact along_indep a d n ix v hn h
  rw [this]

theorem batchLoop_indep (p : Payload) (b : Nat) (n : String) :
    ∀ (fuel level : Nat) (d : String) (a : NodeArray) (x : String × NodeArray),
      batchLoop p b fuel level d a = .ok x → (n = d ∨ Indep a n) → (n = x.1 ∨ Indep x.2 n) := by
  intro fuel
  induction fuel with
  | zero =>
    intro level d a x h hq
    simp only [batchLoop] at h
    split at h
    · cases h
    · cases h; exact hq
  | succ fuel ih =>
    intro level d a x h hq
    simp only [batchLoop] at h
    split at h
    · apply ih _ _ _ x h
      by_cases hne : n = batchDimName level d
      · exact Or.inl hne
      · exact Or.inr (batchLevel_indep p d b level a n hq hne)
    · cases h; exact hq

theorem reduceBatched_indep (p : Payload) (d : String) (b : Nat) (a : NodeArray) (x : String × NodeArray) (n : String)
    (h : reduceBatched p d b a = .ok x) (hq : Indep a n) : n = x.1 ∨ Indep x.2 n := by
  simp only [reduceBatched] at h
  split at h
  · split at h
    · cases h
    · split at h
      · split at h
        · cases h
        · exact batchLoop_indep p b n _ 0 d a x h (Or.inr hq)
      · cases h; exact Or.inr hq
  · cases h; exact Or.inr hq

/-- **`reduce`, batched or not, yields or not, keep_dim or not, realises `vreduce`.** -/
theorem good_reduce {S : Sem V} {a r : NodeArray} {A : VArr V} (g : Good S a A) (p : Payload)
    (hB : p.batchable = true → IsBatchable (p.apply S))
    (yields : Option (String × List Coord)) (hy : ∀ y, yields = some y → ¬ Reserved y.1)
    (d0 : String) (b : Nat) (keep : Bool) (h : reduce p yields d0 b keep a = .ok r) :
    Good S r (vreduce S p yields d0 keep A) := by
  simp only [reduce, bind, Except.bind] at h
  split at h
  · cases h
  · rename_i d hd
    have hdd : d = vdefaultDim A d0 := defaultDim_eq g d0 d hd
    split at h
    · cases h
    · split at h
      · cases h
      · rename_i x hx
        simp only [reduceFinish] at h
        -- the dimension exists: either the batching looked it up, or the final transpose does
        have hdim : (a.findDim d).isSome := by
          cases hn : a.findDim d with
          | some _ => rfl
          | none =>
            exfalso
            simp only [reduceBatched, hn] at hx
            split at hx
            · cases hx
            · cases hx
              simp [hn] at h
        obtain ⟨hv, hdims, hsc, hsome⟩ := reduceBatched_spec S p hB a d b (batchFresh_of_good g d) hdim x hx
        have n1 : ¬ ((x.2.findDim x.1).isNone = true) := not_isNone_of_isSome _ hsome
        simp only [n1] at h
        -- the core of the reduction
        have gcore : Good S (reduceCore p x.1 x.2)
            { dims := restDims A.sh d, scalars := A.scalars,
              val := fun ix => p.apply S ((List.range (A.sh.dimSize d)).map (fun i => A.val (ix.set d i))) } := by
          refine ⟨?_, ?_, ?_, ?_, ?_, ?_⟩
          rotate_right
          · intro sc hsc'
            have : (reduceCore p x.1 x.2).scalars = a.scalars := hsc
            rw [this] at hsc'
            exact g.hygs sc hsc'
          · show allIndexed (dropDim x.2.dims x.1) = allIndexed (dropDim A.dims d)
            rw [hdims, g.dims]
          · show x.2.scalars = A.scalars
            rw [hsc, g.scalars]
          · intro ix
            rw [eval_reduceCore, hv ix]
            have : A.sh.dimSize d = a.dimSize d := dimSize_congr (by simp [VArr.sh, g.dims]) d
            simp [valsAlong, NodeArray.along, this, g.val, Function.comp_def]
          · intro n hr
            exact reduceCore_indep p x.1 x.2 n (reduceBatched_indep p d b a x n hx (g.fresh n hr))
          · intro y hy'
            have : (reduceCore p x.1 x.2).dims = allIndexed (dropDim a.dims d) := hdims
            rw [this] at hy'
            exact dropDim_hyg a.dims d g.hyg y hy'
        have gy := good_withYields gcore yields hy
        have hA1 : keptLabel a d = keptLabel A.sh d := keptLabel_congr (by simp [VArr.sh, g.dims]) d
        have hA2 : a.axisOf d = A.sh.axisOf d := axisOf_congr (by simp [VArr.sh, g.dims]) d
        have hdn : ¬ Reserved d := by
          obtain ⟨z, hz⟩ := Option.isSome_iff_exists.mp hdim
          obtain ⟨hzm, hzn⟩ := findDim_mem hz
          exact hzn ▸ g.hyg z hzm
        cases keep with
        | false =>
          simp only [Bool.false_eq_true, ↓reduceIte] at h
          cases h
          simpa [vreduce, ← hdd] using gy
        | true =>
          simp only [↓reduceIte] at h
          have := good_addDim gy d (keptLabel a d) (a.axisOf d) hdn h
          simpa [vreduce, ← hdd, hA1, hA2] using this

theorem vdefaultDim_idem (A : VArr V) (d0 : String) : vdefaultDim A (vdefaultDim A d0) = vdefaultDim A d0 := by
  unfold vdefaultDim
  by_cases h : d0 = ""
  · simp only [h, ↓reduceIte]
    cases hA : A.dims with
    | nil => simp
    | cons x rest => simp
  · simp [h]

theorem vreduce_dim (S : Sem V) (p : Payload) (y : Option (String × List Coord)) (d0 : String) (keep : Bool) (A : VArr V) :
    vreduce S p y (vdefaultDim A d0) keep A = vreduce S p y d0 keep A := by
  simp only [vreduce, vdefaultDim_idem]

theorem apply_backend (S : Sem V) (name : String) (kw : List (String × Static)) (vals : List V) :
    (backendPayload name kw).apply S vals = semRed S name kw vals := by
  simp only [Payload.apply, backendPayload, fillTmpl_nil, resolve_inputs, semRed]

theorem vreduce_dims (S : Sem V) (p q : Payload) (d0 : String) (keep : Bool) (A : VArr V) :
    (vreduce S p none d0 keep A).dims = (vreduce S q none d0 keep A).dims ∧
    (vreduce S p none d0 keep A).scalars = (vreduce S q none d0 keep A).scalars := by
  simp only [vreduce, vyield]
  cases keep <;> simp [vaddDim]

theorem vreduce_val (S : Sem V) (p : Payload) (d0 : String) (keep : Bool) (A : VArr V) (ix : Ix) :
    (vreduce S p none d0 keep A).val ix =
      p.apply S ((List.range (A.sh.dimSize (vdefaultDim A d0))).map (fun i => A.val (ix.set (vdefaultDim A d0) i))) := by
  simp only [vreduce, vyield]
  cases keep <;> simp [vaddDim]

/-- `sum`, `prod`, `min`, `max` -/
theorem good_named {S : Sem V} {a r : NodeArray} {A : VArr V} (g : Good S a A) (name : String) (d0 : String)
    (b : Nat) (keep : Bool) (kw : List (String × Static))
    (hB : (backendPayload name kw).batchable = true → IsBatchable ((backendPayload name kw).apply S))
    (h : named name d0 b keep kw a = .ok r) :
    Good S r (vreduce S (backendPayload name kw) none d0 keep A) :=
  good_reduce g _ hB none (by simp) d0 b keep h

theorem not_batchable_mean (kw : List (String × Static)) : (backendPayload "mean" kw).batchable ≠ true := by
  simp [backendPayload, marks.1]

theorem not_batchable_std (kw : List (String × Static)) : (backendPayload "std" kw).batchable ≠ true := by
  simp [backendPayload, marks.2.1]

theorem not_batchable_stack (kw : List (String × Static)) : (backendPayload "stack" kw).batchable ≠ true := by
  simp [backendPayload, marks.2.2.1]

/-- **`mean`**: whatever the batch size, the node array realises the plain mean along the dimension. -/
theorem good_mean {S : Sem V} (L : Laws S) {a r : NodeArray} {A : VArr V} (g : Good S a A) (d0 : String)
    (b : Nat) (keep : Bool) (kw : List (String × Static))
    (hsum : IsBatchable ((backendPayload "sum" kw).apply S)) (h : mean d0 b keep kw a = .ok r) :
    Good S r (vreduce S (backendPayload "mean" kw) none d0 keep A) := by
  simp only [mean, bind, Except.bind] at h
  split at h
  · cases h
  · rename_i d hd
    have hdd : d = vdefaultDim A d0 := defaultDim_eq g d0 d hd
    split at h
    · cases h
    · split at h
      · -- not batched: one `mean` node
        have := good_reduce g _ (fun hb => absurd hb (not_batchable_mean kw)) none (by simp) d 0 keep h
        rw [hdd, vreduce_dim] at this
        exact this
      · rename_i hnb
        split at h
        · cases h
        · rename_i s hs
          cases h
          have gs := good_named g "sum" d b keep kw (fun _ => hsum) hs
          rw [hdd, vreduce_dim] at gs
          have gm := good_map gs { fn := "divide", tmpl := [.inp 0, .lit (natStatic (a.dimSize d))] } none (by simp)
          have hsz : A.sh.dimSize (vdefaultDim A d0) = a.dimSize d := by
            rw [← hdd]; exact dimSize_congr (by simp [VArr.sh, g.dims]) d
          have hpos : 2 ≤ a.dimSize d := by
            simp at hnb
            omega
          obtain ⟨hd1, hd2⟩ := vreduce_dims S (backendPayload "sum" kw) (backendPayload "mean" kw) d0 keep A
          refine Good.congr gm ?_ ?_ ?_
          · simpa [vmap, vyield] using hd1
          · simpa [vmap, vyield] using hd2
          · intro ix
            simp only [vmap, vyield]
            rw [vreduce_val, vreduce_val, apply_backend, apply_backend, hsz]
            have hne : (List.range (a.dimSize d)).map (fun i => A.val (ix.set (vdefaultDim A d0) i)) ≠ [] := by
              intro hnil
              have := congrArg List.length hnil
              simp at this
              omega
            rw [L.mean kw _ hne]
            simp [Payload.apply, fillTmpl, resolve]

theorem dropDim_sub (l : List Dim) (d : String) (x : Dim) (h : x ∈ dropDim l d) : x ∈ l := by
  simp only [dropDim, List.mem_filter] at h
  exact h.1

theorem good_squeeze {S : Sem V} {a r : NodeArray} {A : VArr V} (g : Good S a A) (d : String) (drop : Bool)
    (h : squeeze a d drop = .ok r) : Good S r (vsqueeze A d drop) := by
  unfold squeeze at h
  unfold vsqueeze
  have hf : A.sh.findDim d = a.findDim d := findDim_congr (by simp [VArr.sh, g.dims]) d
  rw [hf]
  cases hx : a.findDim d with
  | none => simp only [hx] at h ⊢; cases h; exact g
  | some x =>
    simp only [hx] at h ⊢
    split at h
    · rename_i h1
      simp only [h1, ↓reduceIte]
      cases h
      refine ⟨by simp [g.dims], by simp [g.scalars], fun ix => g.val _, ?_, ?_, ?_⟩
      · intro n hr
        exact indep_set_const (a := a) (d := d) (i := 0) (fun _ => rfl) (fun _ => g.fresh n hr)
      · intro y hy
        exact g.hyg y (dropDim_sub _ _ _ hy)
      · intro sc hsc
        simp only [] at hsc
        split at hsc
        · exact g.hygs sc hsc
        · rcases List.mem_append.mp hsc with hsc | hsc
          · exact g.hygs sc hsc
          · simp only [List.mem_singleton] at hsc
            subst hsc
            obtain ⟨hxm, hxn⟩ := findDim_mem hx
            exact hxn ▸ g.hyg x hxm
    · rename_i h1
      simp only [h1]
      cases h; exact g

theorem good_pick {S : Sem V} {a : NodeArray} {A : VArr V} (g : Good S a A) (x : Dim) (hx : x ∈ a.dims) (s : Sel Nat)
    (drop : Bool) : Good S (pick a x s drop) (vpick A x s drop) := by
  have hxn : ¬ Reserved x.name := g.hyg x hx
  match s with
  | .one i =>
    refine ⟨by simp [pick, vpick, g.dims], by simp [pick, vpick, g.scalars], fun ix => g.val _, ?_, ?_, ?_⟩
    · intro n hr
      exact indep_set_const (a := a) (d := x.name) (i := i) (fun _ => rfl) (fun _ => g.fresh n hr)
    · intro y hy
      exact g.hyg y (dropDim_sub _ _ _ hy)
    · intro sc hsc
      simp only [pick] at hsc
      split at hsc
      · exact g.hygs sc hsc
      · rcases List.mem_append.mp hsc with hsc | hsc
        · exact g.hygs sc hsc
        · simp only [List.mem_singleton] at hsc
          subst hsc
          exact hxn
  | .many is =>
    refine ⟨by simp [pick, vpick, g.dims], by simp [pick, vpick, g.scalars], fun ix => g.val _, ?_, ?_, g.hygs⟩
    · intro n hr ix v
      have hne : n ≠ x.name := ne_of_not_reserved hr hxn
      simp only [pick]
      rw [set_ne ix n x.name v (Ne.symm hne), set_comm ix n x.name v _ hne]
      exact g.fresh n hr _ _
    · intro y hy
      simp only [pick, List.mem_map] at hy
      obtain ⟨z, hz, rfl⟩ := hy
      split
      · exact g.hyg z hz
      · exact g.hyg z hz

theorem select_one (a : NodeArray) (d : String) (c : Coord) (drop : Bool) (x : Dim) (hx : a.findDim d = some x) :
    select d (.one c) drop a = (selLoc x c).map (fun i => pick a x (.one i) drop) := by
  unfold select
  simp only [hx]
  show (selLoc x c >>= fun i => pure (pick a x (.one i) drop)) = _
  cases selLoc x c <;> rfl

theorem select_many (a : NodeArray) (d : String) (cs : List Coord) (drop : Bool) (x : Dim) (hx : a.findDim d = some x)
    (r : NodeArray) (h : select d (.many cs) drop a = .ok r) :
    (cs.mapM (selLoc x)).map (fun is => pick a x (.many is) drop) = .ok r := by
  unfold select at h
  simp only [hx] at h
  split at h
  · simp [throw, throwThe, MonadExceptOf.throw, bind, Except.bind] at h
  · have h' : (cs.mapM (selLoc x) >>= fun is => pure (pick a x (.many is) drop)) = Except.ok r := h
    simp only [pure, Except.pure, bind, Except.bind] at h'
    cases hm : cs.mapM (selLoc x) with
    | error e => simp [hm] at h'
    | ok is => simpa [hm, Except.map] using h'

theorem good_select {S : Sem V} {a r : NodeArray} {A : VArr V} (g : Good S a A) (d : String) (s : Sel Coord) (drop : Bool)
    (h : select d s drop a = .ok r) : Good S r (vselect d s drop A) := by
  unfold vselect
  have hf : A.sh.findDim d = a.findDim d := findDim_congr (by simp [VArr.sh, g.dims]) d
  rw [hf]
  cases hx : a.findDim d with
  | none =>
    -- a criterion on a scalar coordinate
    unfold select at h
    simp only [hx] at h ⊢
    split at h
    · split at h
      · cases h; exact g
      · cases h
    all_goals cases h
  | some x =>
    have hxm : x ∈ a.dims := (findDim_mem hx).1
    simp only []
    cases s with
    | one c =>
      rw [select_one a d c drop x hx] at h
      simp only []
      cases hi : selLoc x c with
      | error e => simp only [hi, Except.map] at h; cases h
      | ok i =>
        simp only [hi, Except.map] at h
        cases h
        exact good_pick g x hxm _ drop
    | many cs =>
      have h := select_many a d cs drop x hx r h
      simp only []
      cases his : cs.mapM (selLoc x) with
      | error e => simp only [his, Except.map] at h; cases h
      | ok is =>
        simp only [his, Except.map] at h
        cases h
        exact good_pick g x hxm _ drop

theorem good_iselect {S : Sem V} {a r : NodeArray} {A : VArr V} (g : Good S a A) (d : String) (s : Sel Nat) (drop : Bool)
    (h : iselect d s drop a = .ok r) : Good S r (viselect d s drop A) := by
  unfold iselect at h
  unfold viselect
  have hf : A.sh.findDim d = a.findDim d := findDim_congr (by simp [VArr.sh, g.dims]) d
  rw [hf]
  cases hx : a.findDim d with
  | none =>
    simp only [hx] at h
    split at h <;> cases h
  | some x =>
    have hxm : x ∈ a.dims := (findDim_mem hx).1
    simp only [hx] at h ⊢
    split at h
    · split at h
      · cases h; exact good_pick g x hxm _ drop
      · cases h
    · split at h
      · cases h; exact good_pick g x hxm _ drop
      · cases h

theorem good_foldlM {S : Sem V} {α : Type} (f : NodeArray → α → Except Err NodeArray) (vf : VArr V → α → VArr V)
    (hf : ∀ a A x r, Good S a A → f a x = .ok r → Good S r (vf A x)) :
    ∀ (l : List α) (a : NodeArray) (A : VArr V) (r : NodeArray), Good S a A → l.foldlM f a = .ok r →
      Good S r (l.foldl vf A) := by
  intro l
  induction l with
  | nil =>
    intro a A r g h
    simp only [List.foldlM, pure, Except.pure] at h
    cases h; exact g
  | cons x xs ih =>
    intro a A r g h
    simp only [List.foldlM, bind, Except.bind] at h
    split at h
    · cases h
    · rename_i a' ha'
      exact ih a' (vf A x) r (hf a A x a' g ha') h

theorem good_selectN {S : Sem V} {a r : NodeArray} {A : VArr V} (g : Good S a A) (crit : List (String × Sel Coord))
    (drop : Bool) (h : selectN crit drop a = .ok r) : Good S r (vselectN crit drop A) := by
  simp only [selectN, bind, Except.bind] at h
  split at h
  · cases h
  · exact good_foldlM (fun acc c => select c.1 c.2 drop acc) (fun acc c => vselect c.1 c.2 drop acc)
      (fun a A x r g h => good_select g x.1 x.2 drop h) crit a A r g h

theorem good_iselectN {S : Sem V} {a r : NodeArray} {A : VArr V} (g : Good S a A) (crit : List (String × Sel Nat))
    (drop : Bool) (h : iselectN crit drop a = .ok r) : Good S r (viselectN crit drop A) := by
  simp only [iselectN, bind, Except.bind] at h
  split at h
  · cases h
  · exact good_foldlM (fun acc c => iselect c.1 c.2 drop acc) (fun acc c => viselect c.1 c.2 drop acc)
      (fun a A x r g h => good_iselect g x.1 x.2 drop h) crit a A r g h

/-- `stack` / `concatenate` -/
theorem good_combine {S : Sem V} {a r : NodeArray} {A : VArr V} (g : Good S a A) (method : String)
    (kw : List (String × Static)) (d : String) (b : Nat) (keep : Bool)
    (hB : (backendPayload method kw).batchable = true → IsBatchable ((backendPayload method kw).apply S))
    (h : combine method kw d b keep a = .ok r) :
    Good S r (vcombine S method kw d keep A) := by
  unfold combine at h
  unfold vcombine
  have hsz : A.sh.dimSize d = a.dimSize d := dimSize_congr (by simp [VArr.sh, g.dims]) d
  rw [hsz]
  split at h
  · cases h
  · rename_i x hx
    have hsx : a.dimSize d = x.labels.length := by simp [NodeArray.dimSize, hx]
    rw [hsx]
    split at h
    · rename_i h1
      simp only [h1, ↓reduceIte]
      split at h
      · rename_i hk
        cases h; simp only [hk, ↓reduceIte]; exact g
      · rename_i hk
        simp only [hk]; exact good_squeeze g d false h
    · rename_i h1
      simp only [h1, ↓reduceIte]
      exact good_reduce g _ hB none (by simp) d b keep h

theorem good_flatten {S : Sem V} {a r : NodeArray} {A : VArr V} (g : Good S a A) (d : String) (axis : Int)
    (kw : List (String × Static)) (h : flattenKw d axis kw a = .ok r) :
    Good S r (vreduce S (backendPayload "stack" (("axis", .num axis) :: kw)) none d false A) :=
  good_reduce g _ (fun hb => absurd hb (not_batchable_stack _)) none (by simp) d 0 false h

end Aux

end EkwVerif.Fluent
