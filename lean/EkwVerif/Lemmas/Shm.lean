/-
Helper lemmas for Model/Shm.lean: association lists, totals, job lists, the lottery.
(No property theorems here.)
-/
import EkwVerif.Model.Shm

namespace EkwVerif.Shm
namespace Aux

/-! ### association lists -/

/-- unique keys, phrased through `find?` -/
def Nd {α : Type} : List (String × α) → Prop
  | [] => True
  | (k, _) :: l => find? l k = none ∧ Nd l

section assoc
variable {α : Type}

@[simp] theorem find?_nil (x : String) : find? ([] : List (String × α)) x = none := rfl

theorem find?_cons (k : String) (v : α) (l : List (String × α)) (x : String) :
    find? ((k, v) :: l) x = if k = x then some v else find? l x := rfl

theorem find?_set (l : List (String × α)) (k x : String) (w : α) :
    find? (set l k w) x = if x = k then (find? l k).map (fun _ => w) else find? l x := by
  induction l with
  | nil => simp [set]
  | cons a l ih =>
    obtain ⟨k', v⟩ := a
    by_cases h1 : k' = k
    · subst h1
      by_cases h2 : x = k'
      · subst h2; simp [set, find?_cons]
      · have : ¬ k' = x := fun h => h2 h.symm
        simp [set, find?_cons, h2, this]
    · by_cases h2 : x = k
      · subst h2
        have : ¬ k' = x := h1
        simp [set, find?_cons, h1, ih]
      · simp [set, find?_cons, h1, h2, ih]

theorem find?_set_self (l : List (String × α)) (k : String) (w d : α) (h : find? l k = some d) :
    find? (set l k w) k = some w := by simp [find?_set, h]

theorem find?_set_ne (l : List (String × α)) (k x : String) (w : α) (h : x ≠ k) :
    find? (set l k w) x = find? l x := by simp [find?_set, h]

theorem find?_erase_ne (l : List (String × α)) (k x : String) (h : x ≠ k) :
    find? (erase l k) x = find? l x := by
  induction l with
  | nil => simp [erase]
  | cons a l ih =>
    obtain ⟨k', v⟩ := a
    by_cases h1 : k' = k
    · subst h1
      have : ¬ k' = x := fun e => h e.symm
      simp [erase, find?_cons, this]
    · simp [erase, h1, find?_cons, ih]

theorem find?_erase_none (l : List (String × α)) (k x : String) (h : find? l x = none) :
    find? (erase l k) x = none := by
  induction l with
  | nil => simp [erase]
  | cons a l ih =>
    obtain ⟨k', v⟩ := a
    rw [find?_cons] at h
    by_cases h2 : k' = x
    · simp [h2] at h
    · simp [h2] at h
      by_cases h1 : k' = k
      · simp [erase, h1, h]
      · simp [erase, h1, find?_cons, h2, ih h]

theorem find?_erase_self (l : List (String × α)) (k : String) (h : Nd l) : find? (erase l k) k = none := by
  induction l with
  | nil => simp [erase]
  | cons a l ih =>
    obtain ⟨k', v⟩ := a
    by_cases h1 : k' = k
    · subst h1; simp [erase]; exact h.1
    · simp [erase, h1, find?_cons, ih h.2]

theorem find?_append (l : List (String × α)) (k x : String) (v : α) :
    find? (l ++ [(k, v)]) x = match find? l x with
      | some a => some a
      | none => if k = x then some v else none := by
  induction l with
  | nil => simp [find?_cons]
  | cons a l ih =>
    obtain ⟨k', v'⟩ := a
    by_cases h : k' = x
    · simp [find?_cons, h]
    · simp [find?_cons, h, ih]

theorem find?_append_some (l : List (String × α)) (k x : String) (v a : α) (h : find? l x = some a) :
    find? (l ++ [(k, v)]) x = some a := by simp [find?_append, h]

theorem find?_append_ne (l : List (String × α)) (k x : String) (v : α) (h : x ≠ k) :
    find? (l ++ [(k, v)]) x = find? l x := by
  have : ¬ k = x := fun e => h e.symm
  rw [find?_append]; cases find? l x <;> simp [this]

theorem find?_append_self (l : List (String × α)) (k : String) (v : α) (h : find? l k = none) :
    find? (l ++ [(k, v)]) k = some v := by simp [find?_append, h]

theorem nd_set (l : List (String × α)) (k : String) (w : α) (h : Nd l) : Nd (set l k w) := by
  induction l with
  | nil => simp [set, Nd]
  | cons a l ih =>
    obtain ⟨k', v⟩ := a
    by_cases h1 : k' = k
    · simp [set, h1, Nd]; subst h1; exact h
    · simp [set, h1, Nd]
      refine ⟨?_, ih h.2⟩
      rw [find?_set]; simp [h1, h.1]

theorem nd_erase (l : List (String × α)) (k : String) (h : Nd l) : Nd (erase l k) := by
  induction l with
  | nil => simp [erase, Nd]
  | cons a l ih =>
    obtain ⟨k', v⟩ := a
    by_cases h1 : k' = k
    · simp [erase, h1]; exact h.2
    · simp [erase, h1, Nd]
      exact ⟨find?_erase_none l k k' h.1, ih h.2⟩

theorem nd_append (l : List (String × α)) (k : String) (v : α) (h : Nd l) (hk : find? l k = none) :
    Nd (l ++ [(k, v)]) := by
  induction l with
  | nil => simp [Nd]
  | cons a l ih =>
    obtain ⟨k', v'⟩ := a
    rw [find?_cons] at hk
    by_cases h1 : k' = k
    · simp [h1] at hk
    · simp [h1] at hk
      simp only [List.cons_append, Nd]
      refine ⟨?_, ih h.2 hk⟩
      rw [find?_append_ne _ _ _ _ h1]; exact h.1

theorem find?_mem (l : List (String × α)) (k : String) (v : α) (h : find? l k = some v) : (k, v) ∈ l := by
  induction l with
  | nil => simp at h
  | cons a l ih =>
    obtain ⟨k', v'⟩ := a
    rw [find?_cons] at h
    by_cases h1 : k' = k
    · simp [h1] at h; simp [h1, h]
    · simp [h1] at h; exact List.mem_cons_of_mem _ (ih h)

theorem mem_find? (l : List (String × α)) (k : String) (v : α) (hn : Nd l) (h : (k, v) ∈ l) : find? l k = some v := by
  induction l with
  | nil => simp at h
  | cons a l ih =>
    obtain ⟨k', v'⟩ := a
    rcases List.mem_cons.mp h with h | h
    · cases h; simp [find?_cons]
    · have := ih hn.2 h
      by_cases h1 : k' = k
      · subst h1; rw [hn.1] at this; cases this
      · simp [find?_cons, h1, this]

theorem put_find? (l : List (String × α)) (k x : String) (w : α) :
    find? (put l k w) x = if x = k then some w else find? l x := by
  unfold put
  cases h : find? l k with
  | none =>
    by_cases hx : x = k
    · subst hx; simp [find?_append, h]
    · simp [find?_append_ne _ _ _ _ hx, hx]
  | some a => simp [find?_set, h]

/-! ### totals -/

theorem total_set (w : α → Nat) (l : List (String × α)) (k : String) (v old : α) (h : find? l k = some old) :
    total w (set l k v) + w old = total w l + w v := by
  induction l with
  | nil => simp at h
  | cons a l ih =>
    obtain ⟨k', v'⟩ := a
    rw [find?_cons] at h
    by_cases h1 : k' = k
    · simp [h1] at h; subst h; simp [set, h1, total]; omega
    · simp [h1] at h; have := ih h; simp [set, h1, total]; omega

theorem total_erase (w : α → Nat) (l : List (String × α)) (k : String) (old : α) (h : find? l k = some old) :
    total w (erase l k) + w old = total w l := by
  induction l with
  | nil => simp at h
  | cons a l ih =>
    obtain ⟨k', v'⟩ := a
    rw [find?_cons] at h
    by_cases h1 : k' = k
    · simp [h1] at h; subst h; simp [erase, h1, total]; omega
    · simp [h1] at h; have := ih h; simp [erase, h1, total]; omega

theorem total_append (w : α → Nat) (l : List (String × α)) (k : String) (v : α) :
    total w (l ++ [(k, v)]) = total w l + w v := by
  induction l with
  | nil => simp [total]
  | cons a l ih => obtain ⟨k', v'⟩ := a; simp [total, ih]; omega

end assoc

/-- Σ over one dict is bounded by Σ over another when every entry of the first is matched, key by
key, by an entry of the second that weighs at least as much. -/
theorem total_le_total {α β : Type} (wa : α → Nat) (wb : β → Nat) :
    ∀ (la : List (String × α)) (lb : List (String × β)), Nd la →
      (∀ k a, find? la k = some a → ∃ b, find? lb k = some b ∧ wa a ≤ wb b) →
      total wa la ≤ total wb lb := by
  intro la
  induction la with
  | nil => intro lb _ _; simp [total]
  | cons x la ih =>
    obtain ⟨k, a⟩ := x
    intro lb hn h
    obtain ⟨b, hb, hab⟩ := h k a (by simp [find?_cons])
    have h2 : total wa la ≤ total wb (erase lb k) := by
      apply ih _ hn.2
      intro k' a' hk'
      have hne : k' ≠ k := by
        intro e; subst e; rw [hn.1] at hk'; cases hk'
      have hne' : ¬ k = k' := fun e => hne e.symm
      obtain ⟨b', hb', hab'⟩ := h k' a' (by simp [find?_cons, hne', hk'])
      exact ⟨b', by rw [find?_erase_ne _ _ _ hne]; exact hb', hab'⟩
    have := total_erase wb lb k b hb
    simp only [total]; omega

/-! ### job lists -/

theorem pw_unique {β γ : Type} (f : β → γ) (l : List β) (h : l.Pairwise (fun a b => f a ≠ f b))
    (a b : β) (ha : a ∈ l) (hb : b ∈ l) (e : f a = f b) : a = b := by
  induction l with
  | nil => cases ha
  | cons x l ih =>
    rw [List.pairwise_cons] at h
    rcases List.mem_cons.mp ha with ha | ha <;> rcases List.mem_cons.mp hb with hb | hb
    · rw [ha, hb]
    · rw [ha] at e; exact absurd e (h.1 b hb)
    · rw [hb] at e; exact absurd e.symm (h.1 a ha)
    · exact ih h.2 ha hb

theorem findJob_some (js : List Job) (id : Nat) (j : Job) (h : findJob js id = some j) : j ∈ js ∧ j.id = id := by
  induction js with
  | nil => simp [findJob] at h
  | cons x js ih =>
    by_cases hx : x.id = id
    · simp [findJob, hx] at h; subst h; exact ⟨List.mem_cons_self, hx⟩
    · simp [findJob, hx] at h; exact ⟨List.mem_cons_of_mem _ (ih h).1, (ih h).2⟩

def outJobs (js : List Job) : Nat := (js.filter (fun j => j.kind = .out)).length

theorem outJobs_append (js : List Job) (j : Job) :
    outJobs (js ++ [j]) = outJobs js + (if j.kind = .out then 1 else 0) := by
  unfold outJobs; by_cases h : j.kind = .out <;> simp [List.filter_append, List.filter_cons, h]

theorem outJobs_setJobIo (js : List Job) (id : Nat) (r : Bool) : outJobs (setJobIo js id r) = outJobs js := by
  unfold outJobs setJobIo
  induction js with
  | nil => simp
  | cons x js ih =>
    simp only [List.map_cons, List.filter_cons]
    by_cases hx : x.id = id <;> by_cases hk : x.kind = .out <;> simp [hx, hk, ih]

theorem outJobs_eraseJob (js : List Job) (j : Job) (hj : j ∈ js) (hp : js.Pairwise (fun a b => a.id ≠ b.id)) :
    outJobs (eraseJob js j.id) + (if j.kind = .out then 1 else 0) = outJobs js := by
  induction js with
  | nil => cases hj
  | cons x js ih =>
    rw [List.pairwise_cons] at hp
    rcases List.mem_cons.mp hj with hj | hj
    · subst hj
      have : eraseJob (j :: js) j.id = js := by
        unfold eraseJob
        simp only [List.filter_cons, ne_eq, not_true_eq_false, decide_false, Bool.false_eq_true, ↓reduceIte]
        apply List.filter_eq_self.mpr
        intro a ha
        have := hp.1 a ha
        simp; exact fun e => this e.symm
      rw [this]
      unfold outJobs
      by_cases hk : j.kind = .out <;> simp [List.filter_cons, hk]
    · have hne : x.id ≠ j.id := hp.1 j hj
      have h2 := ih hj hp.2
      have : eraseJob (x :: js) j.id = x :: eraseJob js j.id := by
        unfold eraseJob; simp [List.filter_cons, hne]
      rw [this]
      unfold outJobs at *
      by_cases hk : x.kind = .out <;> simp [List.filter_cons, hk] <;> omega

theorem mem_eraseJob (js : List Job) (id : Nat) (j : Job) : j ∈ eraseJob js id ↔ j ∈ js ∧ j.id ≠ id := by
  unfold eraseJob; simp [List.mem_filter]

theorem mem_setJobIo (js : List Job) (id : Nat) (r : Bool) (j' : Job) :
    j' ∈ setJobIo js id r ↔ ∃ j ∈ js, j' = (if j.id = id then { j with io := some r } else j) := by
  unfold setJobIo; simp [List.mem_map, eq_comm]

theorem pairwise_eraseJob {R : Job → Job → Prop} (js : List Job) (id : Nat) (h : js.Pairwise R) :
    (eraseJob js id).Pairwise R := by
  unfold eraseJob; exact h.filter _

theorem pairwise_setJobIo {γ : Type} (f : Job → γ) (hf : ∀ j r, f { j with io := some r } = f j)
    (js : List Job) (id : Nat) (r : Bool) (h : js.Pairwise (fun a b => f a ≠ f b)) :
    (setJobIo js id r).Pairwise (fun a b => f a ≠ f b) := by
  unfold setJobIo
  rw [List.pairwise_map]
  refine h.imp ?_
  intro a b hab
  have ea : f (if a.id = id then { a with io := some r } else a) = f a := by split <;> simp [hf]
  have eb : f (if b.id = id then { b with io := some r } else b) = f b := by split <;> simp [hf]
  rw [ea, eb]; exact hab

/-! ### lottery -/

theorem ins_perm (lt : Entity → Entity → Bool) (x : Entity) (l : List Entity) : (ins lt x l).Perm (x :: l) := by
  induction l with
  | nil => simp [ins]
  | cons y ys ih =>
    unfold ins
    by_cases h : lt x y
    · simp [h]
    · simp [h]
      exact (List.Perm.cons y ih).trans (List.Perm.swap x y ys)

theorem sortBy_perm (lt : Entity → Entity → Bool) (l : List Entity) : (sortBy lt l).Perm l := by
  unfold sortBy
  suffices h : ∀ acc, (l.foldl (fun acc x => ins lt x acc) acc).Perm (acc ++ l) by simpa using h []
  induction l with
  | nil => intro acc; simp
  | cons x xs ih =>
    intro acc
    simp only [List.foldl_cons]
    refine (ih _).trans ?_
    refine ((ins_perm lt x acc).append_right xs).trans ?_
    exact List.perm_middle.symm

theorem three_way_perm (l : List Entity) :
    (l.filter isOnce ++ l.filter isMult ++ l.filter isNever).Perm l := by
  induction l with
  | nil => simp
  | cons x xs ih =>
    simp only [List.filter_cons]
    by_cases h0 : x.first == 0
    · have h1 : isOnce x = false := by simp [isOnce, h0]
      have h2 : isMult x = false := by simp [isMult, h0]
      have h3 : isNever x = true := by simp [isNever, h0]
      simp only [h1, h2, h3, Bool.false_eq_true, ↓reduceIte]
      refine List.perm_middle.trans (List.Perm.cons x ih)
    · by_cases h4 : x.first == x.last
      · have h1 : isOnce x = true := by simp [isOnce, h0, h4]
        have h2 : isMult x = false := by simp [isMult, h4]
        have h3 : isNever x = false := by simp [isNever, h0]
        simp only [h1, h2, h3, Bool.false_eq_true, ↓reduceIte, List.cons_append]
        exact List.Perm.cons x ih
      · have h1 : isOnce x = false := by simp [isOnce, h4]
        have h2 : isMult x = true := by simp [isMult, h0, h4]
        have h3 : isNever x = false := by simp [isNever, h0]
        simp only [h1, h2, h3, Bool.false_eq_true, ↓reduceIte]
        rw [List.append_assoc, List.cons_append]
        refine List.perm_middle.trans (List.Perm.cons x ?_)
        rw [← List.append_assoc]; exact ih

theorem lotteryOrder_perm (es : List Entity) : (lotteryOrder es).Perm es := by
  unfold lotteryOrder
  exact (((sortBy_perm _ _).append (sortBy_perm _ _)).append (sortBy_perm _ _)).trans (three_way_perm es)

theorem sweep_sublist (amount : Nat) (l : List Entity) (freed : Nat) :
    (sweep amount l freed).Sublist (l.map (·.key)) := by
  induction l generalizing freed with
  | nil => simp [sweep]
  | cons e es ih =>
    unfold sweep
    by_cases h : freed + e.size ≥ amount
    · simp [h]
    · simp only [h, ↓reduceIte, List.map_cons]
      exact (ih _).cons_cons _

theorem lottery_mem (es : List Entity) (amount : Nat) (k : String) (h : k ∈ lottery es amount) :
    ∃ e ∈ es, e.key = k := by
  have h1 := (sweep_sublist amount (lotteryOrder es) 0).subset h
  obtain ⟨e, he, hk⟩ := List.mem_map.mp h1
  exact ⟨e, (lotteryOrder_perm es).mem_iff.mp he, hk⟩

theorem lottery_nodup (es : List Entity) (amount : Nat) (h : (es.map (·.key)).Nodup) : (lottery es amount).Nodup := by
  have h1 := sweep_sublist amount (lotteryOrder es) 0
  have h2 : ((lotteryOrder es).map (·.key)).Nodup := (((lotteryOrder_perm es).map _).nodup_iff).mpr h
  exact h1.nodup h2

theorem candidates_mem (sc sr t : Nat) (ds : List (String × Dataset)) (e : Entity)
    (h : e ∈ candidates sc sr t ds) :
    ∃ d, (e.key, d) ∈ ds ∧ isPageoutable sc sr d t = true ∧ e.size = d.size := by
  induction ds with
  | nil => simp [candidates] at h
  | cons a l ih =>
    obtain ⟨k, d⟩ := a
    unfold candidates at h
    by_cases hp : isPageoutable sc sr d t = true
    · simp only [hp, ↓reduceIte] at h
      rcases List.mem_cons.mp h with h | h
      · subst h; exact ⟨d, by simp, hp, rfl⟩
      · obtain ⟨d', hd', r⟩ := ih h
        exact ⟨d', List.mem_cons_of_mem _ hd', r⟩
    · simp only [hp] at h
      obtain ⟨d', hd', r⟩ := ih h
      exact ⟨d', List.mem_cons_of_mem _ hd', r⟩

theorem candidates_keys_sublist (sc sr t : Nat) (ds : List (String × Dataset)) :
    ((candidates sc sr t ds).map (·.key)).Sublist (ds.map (·.1)) := by
  induction ds with
  | nil => simp [candidates]
  | cons a l ih =>
    obtain ⟨k, d⟩ := a
    unfold candidates
    by_cases hp : isPageoutable sc sr d t = true
    · simp only [hp, ↓reduceIte, List.map_cons]; exact ih.cons_cons _
    · simp only [hp, List.map_cons]; exact ih.cons _

theorem nd_keys_nodup {α : Type} (l : List (String × α)) (h : Nd l) : (l.map (·.1)).Nodup := by
  induction l with
  | nil => simp
  | cons a l ih =>
    obtain ⟨k, v⟩ := a
    simp only [List.map_cons, List.nodup_cons]
    refine ⟨?_, ih h.2⟩
    intro hm
    obtain ⟨⟨k', v'⟩, hm', e⟩ := List.mem_map.mp hm
    simp at e; subst e
    have := mem_find? l k' v' h.2 hm'
    rw [h.1] at this; cases this

/-- every winner of the eviction lottery is a stored dataset that `is_pageoutable` at `t` -/
theorem winners_pageoutable (sc sr t amount : Nat) (ds : List (String × Dataset)) (hn : Nd ds) (k : String)
    (h : k ∈ lottery (candidates sc sr t ds) amount) :
    ∃ d, find? ds k = some d ∧ isPageoutable sc sr d t = true := by
  obtain ⟨e, he, hk⟩ := lottery_mem _ _ _ h
  obtain ⟨d, hd, hp, _⟩ := candidates_mem _ _ _ _ _ he
  subst hk
  exact ⟨d, mem_find? _ _ _ hn hd, hp⟩

theorem winners_nodup (sc sr t amount : Nat) (ds : List (String × Dataset)) (hn : Nd ds) :
    (lottery (candidates sc sr t ds) amount).Nodup :=
  lottery_nodup _ _ ((candidates_keys_sublist sc sr t ds).nodup (nd_keys_nodup ds hn))

end Aux
end EkwVerif.Shm
