/-
Tier F (FIFO delivery): lift to the extended system (`Model/Sched.lean`) and the liveness-at-exit theorem:
when events are delivered in production order and the controller loop exits normally, the
completion of every task has been notified.
-/
import EkwVerif.Lemmas.SchedFifoB

namespace EkwVerif.Ctrl

/-! ### projection of the extended system onto the base system -/

theorem sF_map_sys {o : Option Sys} {g : Sys → SysX} {x' : SysX} (hg : ∀ s', (g s').sys = s')
    (h : o.map g = some x') : o = some x'.sys := by
  cases o with
  | none => simp at h
  | some s' =>
    simp only [Option.map_some, Option.some.injEq] at h
    subst h
    rw [hg]

/-- a `base` step of the extended system performs the base step on the base part -/
theorem sF_stepX_base (f : Sem) (j : Job) (cl : Cluster) (cm : Comps) (x x' : SysX) (bst : Step)
    (h : stepX f j cl cm x (.base bst) = some x') : step f j cl x.sys bst = some x'.sys := by
  cases bst with
  | enter =>
    simp only [stepX] at h
    split at h; · cases h
    exact sF_map_sys (fun s' => by split <;> rfl) h
  | assign a =>
    simp only [stepX] at h
    split at h; · cases h
    split at h
    · split at h
      · cases h
      · exact sF_map_sys (fun s' => by split <;> rfl) h
    · cases h
  | endAssign =>
    simp only [stepX] at h
    split at h; · cases h
    split at h
    · exact sF_map_sys (fun s' => rfl) h
    · exact sF_map_sys (fun s' => rfl) h
    · cases h
  | plan1 =>
    simp only [stepX] at h
    split at h; · cases h
    split at h
    · cases h
    · exact sF_map_sys (fun s' => by split <;> rfl) h
  | endPlan =>
    simp only [stepX] at h
    split at h; · cases h
    exact sF_map_sys (fun s' => rfl) h
  | flushF1 =>
    simp only [stepX] at h
    split at h; · cases h
    exact sF_map_sys (fun s' => rfl) h
  | endFlushF =>
    simp only [stepX] at h
    split at h; · cases h
    exact sF_map_sys (fun s' => rfl) h
  | flushP1 =>
    simp only [stepX] at h
    split at h; · cases h
    exact sF_map_sys (fun s' => rfl) h
  | endFlush =>
    simp only [stepX] at h
    split at h; · cases h
    exact sF_map_sys (fun s' => rfl) h
  | recv evs =>
    simp only [stepX] at h
    split at h; · cases h
    exact sF_map_sys (fun s' => rfl) h
  | notify1 =>
    simp only [stepX] at h
    split at h; · cases h
    split at h
    · cases h
    · refine sF_map_sys (fun s' => ?_) h
      split
      · rfl
      · split <;> rfl
  | endNotify =>
    simp only [stepX] at h
    split at h; · cases h
    exact sF_map_sys (fun s' => rfl) h
  | env es =>
    simp only [stepX] at h
    split at h; · cases h
    exact sF_map_sys (fun s' => rfl) h

/-- the scheduler-only steps keep the base state -/
theorem sF_stepX_sched (f : Sem) (j : Job) (cl : Cluster) (cm : Comps) (x x' : SysX) (st : StepX)
    (hst : ∀ bst, st ≠ .base bst) (h : stepX f j cl cm x st = some x') : x'.sys = x.sys := by
  cases st with
  | base bst => exact absurd rfl (hst bst)
  | awcBegin c =>
    simp only [stepX] at h
    repeat' (split at h)
    all_goals first | (cases h; rfl) | cases h
  | awcEnter =>
    simp only [stepX] at h
    repeat' (split at h)
    all_goals first | (cases h; rfl) | cases h
  | hPhase2 =>
    simp only [stepX] at h
    repeat' (split at h)
    all_goals first | (cases h; rfl) | cases h
  | hEnd =>
    simp only [stepX] at h
    repeat' (split at h)
    all_goals first | (cases h; rfl) | cases h
  | beginStepII =>
    simp only [stepX] at h
    repeat' (split at h)
    all_goals first | (cases h; rfl) | cases h
  | migrate hh =>
    simp only [stepX] at h
    repeat' (split at h)
    all_goals first | (cases h; rfl) | cases h

/-- every step of the extended system keeps the base state or performs a base step on it -/
theorem sF_stepX_proj (f : Sem) (j : Job) (cl : Cluster) (cm : Comps) (x x' : SysX) (st : StepX)
    (h : stepX f j cl cm x st = some x') :
    x'.sys = x.sys ∨ ∃ bst, st = .base bst ∧ step f j cl x.sys bst = some x'.sys := by
  cases st with
  | base bst => exact Or.inr ⟨bst, rfl, sF_stepX_base f j cl cm x x' bst h⟩
  | awcBegin c => exact Or.inl (sF_stepX_sched f j cl cm x x' _ (by intro b; simp) h)
  | awcEnter => exact Or.inl (sF_stepX_sched f j cl cm x x' _ (by intro b; simp) h)
  | hPhase2 => exact Or.inl (sF_stepX_sched f j cl cm x x' _ (by intro b; simp) h)
  | hEnd => exact Or.inl (sF_stepX_sched f j cl cm x x' _ (by intro b; simp) h)
  | beginStepII => exact Or.inl (sF_stepX_sched f j cl cm x x' _ (by intro b; simp) h)
  | migrate hh => exact Or.inl (sF_stepX_sched f j cl cm x x' _ (by intro b; simp) h)

/-- the base part of a (FIFO-)reachable extended state is reachable in the base system -/
theorem sF_reachable_base (f : Sem) (j : Job) (cl : Cluster) (cm : Comps) (x : SysX)
    (hr : ReachableFifo f j cl cm x) : Reachable f j cl x.sys := by
  induction hr with
  | init => exact Reachable.init
  | step x x' st _ _ hs ih =>
    rcases sF_stepX_proj f j cl cm x x' st hs with h | ⟨bst, _, h⟩
    · rw [h]; exact ih
    · exact Reachable.step _ _ bst ih h

theorem sF_reachableX_base (f : Sem) (j : Job) (cl : Cluster) (cm : Comps) (x : SysX)
    (hr : ReachableX f j cl cm x) : Reachable f j cl x.sys := by
  induction hr with
  | init => exact Reachable.init
  | step x x' st _ hs ih =>
    rcases sF_stepX_proj f j cl cm x x' st hs with h | ⟨bst, _, h⟩
    · rw [h]; exact ih
    · exact Reachable.step _ _ bst ih h

/-- FIFO-reachable states are reachable states of the extended system -/
theorem sF_reachableFifo_X (f : Sem) (j : Job) (cl : Cluster) (cm : Comps) (x : SysX)
    (hr : ReachableFifo f j cl cm x) : ReachableX f j cl cm x := by
  induction hr with
  | init => exact ReachableX.init
  | step x x' st _ _ hs ih => exact ReachableX.step x x' st ih hs

/-! ### Tier F holds in every FIFO-reachable state -/

theorem sF_reachable_both (f : Sem) (j : Job) (cl : Cluster) (cm : Comps) (x : SysX) (wf : WF j cl)
    (hr : ReachableFifo f j cl cm x) : InvFifo j cl x.sys ∧ InvFifoX x.sys := by
  induction hr with
  | init => exact ⟨sF_init j cl wf, sF_x_init j cl wf⟩
  | step x x' st hx hff hs ih =>
    rcases sF_stepX_proj f j cl cm x x' st hs with h | ⟨bst, hst, h⟩
    · rw [h]; exact ih
    · subst hst
      have hA := invAll_reachable f j cl wf x.sys (sF_reachable_base f j cl cm x hx)
      refine ⟨sF_step f j cl x.sys x'.sys bst wf hA ih.1 ih.2 ?_ h, sF_x_step f j cl x.sys x'.sys bst ih.2 h⟩
      intro evs hev
      subst hev
      exact hff

theorem sF_reachable (f : Sem) (j : Job) (cl : Cluster) (cm : Comps) (x : SysX) (wf : WF j cl)
    (hr : ReachableFifo f j cl cm x) : InvFifo j cl x.sys :=
  (sF_reachable_both f j cl cm x wf hr).1

/-! ### liveness at exit -/

/-- **Under FIFO delivery, when the controller loop exits normally every task's completion has been notified.** -/
theorem sF_done (f : Sem) (j : Job) (cl : Cluster) (cm : Comps) (x : SysX)
    (hr : ReachableFifo f j cl cm x) (wf : WF j cl) (hfin : x.sys.phase = .finished) :
    ∀ t, t < j.tasks.length → x.sys.ctl.doneC t = true := by
  have hR := sF_reachable_base f j cl cm x hr
  have hA := invAll_reachable f j cl wf _ hR
  have hFin := (invF_reachable f j cl _ hR).fin hfin
  have hF := sF_reachable f j cl cm x wf hr
  have hcomp : x.sys.ctl.computable = [] := by
    have := hFin.1
    simp only [Ctl.hasComputable, gt_iff_lt, decide_eq_false_iff_not, Nat.not_lt, Nat.le_zero_eq] at this
    exact List.eq_nil_of_length_eq_zero this
  have hong : x.sys.ctl.ongoing = [] := by
    have := hFin.2
    simp only [Ctl.hasAwaitable, Bool.or_eq_false_iff, gt_iff_lt, decide_eq_false_iff_not, Nat.not_lt,
      Nat.le_zero_eq] at this
    exact List.eq_nil_of_length_eq_zero this.1
  have htodo : x.sys.todo = [] := hA.h1.todo_phase (by simp [hfin]) (by simp [hfin]) (by simp [hfin])
  have hnofl : ∀ w t, ¬ x.sys.inFlight w t := by
    intro w t h
    simp [Sys.inFlight, Sys.todoPairs, hong, htodo] at h
  have key : ∀ n, ∀ t, t < n → t < j.tasks.length → x.sys.ctl.doneC t = true := by
    intro n
    induction n with
    | zero => intro t ht; omega
    | succ n ih =>
      intro t ht htl
      cases hd : x.sys.ctl.doneC t with
      | true => rfl
      | false =>
        exfalso
        have hle := hA.h1.once.le t
        by_cases h1 : x.sys.ctl.dispatched t = 1
        · rcases hF.disp_flight_or_done t h1 with ⟨w, hw⟩ | h
          · exact hnofl w t hw
          · rw [hd] at h; cases h
        · have h0 : x.sys.ctl.dispatched t = 0 := by omega
          rcases hF.undisp t htl h0 with h | ⟨htr, ds, hds⟩
          · rw [hcomp] at h; cases h
          · obtain ⟨hin, hann⟩ := hF.tracker_sound t ds htr hds
            have hlt := wf.topo t ds hin
            have hdone := ih ds.task (by omega) (by omega)
            have h3 : x.sys.ctl.announced ⟨ds.task, ds.out⟩ = true :=
              hF.done_announced ds.task hdone ds.out (wf.outs t ds hin)
            have h4 : (⟨ds.task, ds.out⟩ : Ds) = ds := rfl
            rw [h4, hann] at h3
            cases h3
  intro t ht
  exact key (t + 1) t (by omega) ht

end EkwVerif.Ctrl
