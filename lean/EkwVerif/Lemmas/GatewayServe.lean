/-
Serve-level lemmas for Props/C18: the poll loop of `serve` refined to the flat run over the
handled events, liveness of the loop, answers in kind.
-/
import EkwVerif.Lemmas.Gateway

namespace EkwVerif.Gateway

/-- Does output `o` answer event `e` in kind? The flag is the readiness of the event's socket at
poll time: a socket that is not registered is not read, a registered one is handled — a frontend
request gets the response of its class, a controller message is processed. -/
def answersP : Ev × Bool → Out → Bool
  | (_, false), o => o == .notRead
  | (.fe (.submit _ _), true), .spawned _ => true
  | (.fe (.progressOf _), true), .progress _ => true
  | (.fe (.getResult _ _), true), .result _ => true
  | (.fe .shutdown, true), .bye => true
  | (.fe .malformed, true), .rejected => true
  | (.ctrl _ _, true), .reported _ => true
  | _, _ => false

def answersAll : List (Ev × Bool) → List Out → Bool
  | [], [] => true
  | p :: ps, o :: os => answersP p o && answersAll ps os
  | _, _ => false

/-- no shutdown request -/
def NoShutdown (b : List Ev) : Prop := ∀ e ∈ b, e ≠ .fe .shutdown

/-- the events of a poll round with the readiness of their sockets at poll time -/
def flagged (s : St) (b : List Ev) : List (Ev × Bool) := b.map (fun e => (e, ready s e))

namespace Aux

theorem runH_append (s : St) (a b : List Ev) : runH s (a ++ b) = runH (runH s a) b := by
  simp [runH, List.foldl_append]

theorem runH_cons (s : St) (e : Ev) (evs : List Ev) : runH s (e :: evs) = runH (stepH s e) evs := by
  simp [runH]

theorem handle_answers (s s' : St) (e : Ev) (o : Out) (h : handle s e = some (s', o)) :
    answersP (e, true) o = true := by
  cases e with
  | fe q =>
    cases q with
    | submit cs fail =>
      simp only [handle, handleFe, Option.some.injEq, Prod.mk.injEq] at h
      rw [← h.2]; rfl
    | progressOf ids =>
      simp only [handle, handleFe, Option.some.injEq, Prod.mk.injEq] at h
      rw [← h.2]; rfl
    | getResult a b =>
      simp only [handle, handleFe, Option.some.injEq, Prod.mk.injEq] at h
      rw [← h.2]; rfl
    | shutdown =>
      simp only [handle, handleFe, Option.some.injEq, Prod.mk.injEq] at h
      rw [← h.2]; rfl
    | malformed =>
      simp only [handle, handleFe, Option.some.injEq, Prod.mk.injEq] at h
      rw [← h.2]; rfl
  | ctrl k m =>
    cases m with
    | garbage =>
      simp only [handle, handleCtrl, Option.some.injEq, Prod.mk.injEq] at h
      rw [← h.2]; rfl
    | report r =>
      simp only [handle, handleCtrl, Option.some.injEq, Prod.mk.injEq] at h
      rw [← h.2]; rfl

theorem answersP_served (p : Ev × Bool) (o : Out) (h : answersP p o = true) :
    o ≠ .died ∧ o ≠ .lost ∧ o ≠ .notServed := by
  obtain ⟨e, rdy⟩ := p
  cases rdy
  · have : o = .notRead := by simpa [answersP] using h
    subst this; simp
  · cases o <;> simp_all [answersP]

theorem answersAll_served (l : List (Ev × Bool)) (outs : List Out) (h : answersAll l outs = true) :
    ∀ o ∈ outs, o ≠ .died ∧ o ≠ .lost ∧ o ≠ .notServed := by
  induction l generalizing outs with
  | nil =>
    cases outs with
    | nil => simp
    | cons o os => simp [answersAll] at h
  | cons p ps ih =>
    cases outs with
    | nil => simp [answersAll] at h
    | cons o os =>
      simp only [answersAll, Bool.and_eq_true] at h
      intro x hx
      rcases List.mem_cons.mp hx with hx | hx
      · subst hx; exact answersP_served p x h.1
      · exact ih os h.2 x hx

theorem pollLoop_st (s : St) (brk : Bool) (l : List (Ev × Bool)) :
    (pollLoop s brk l).st = runH s (pollLoop s brk l).handled := by
  induction l generalizing s brk with
  | nil => simp [pollLoop, runH]
  | cons p l ih =>
    obtain ⟨e, rdy⟩ := p
    cases rdy
    · simp only [pollLoop, Bool.not_false, ↓reduceIte]
      exact ih s brk
    · simp only [pollLoop, Bool.not_true, Bool.false_eq_true, ↓reduceIte]
      cases hh : handle s e with
      | none => simp [runH]
      | some q =>
        obtain ⟨s', o⟩ := q
        simp only
        rw [runH_cons, ih s' (brkOf e brk)]
        simp [stepH, hh]

theorem pollLoop_handled_mem (s : St) (brk : Bool) (l : List (Ev × Bool)) (e : Ev)
    (h : e ∈ (pollLoop s brk l).handled) : (e, true) ∈ l := by
  induction l generalizing s brk with
  | nil => simp [pollLoop] at h
  | cons p l ih =>
    obtain ⟨e', rdy⟩ := p
    cases rdy
    · simp only [pollLoop, Bool.not_false, ↓reduceIte] at h
      exact List.mem_cons_of_mem _ (ih s brk h)
    · simp only [pollLoop, Bool.not_true, Bool.false_eq_true, ↓reduceIte] at h
      cases hh : handle s e' with
      | none => simp [hh] at h
      | some q =>
        obtain ⟨s', o⟩ := q
        simp only [hh, List.mem_cons] at h
        rcases h with h | h
        · subst h; exact List.mem_cons_self
        · exact List.mem_cons_of_mem _ (ih s' _ h)

theorem pollLoop_alive (s : St) (brk : Bool) (l : List (Ev × Bool)) :
    (pollLoop s brk l).dead = false ∧ answersAll l (pollLoop s brk l).outs = true := by
  induction l generalizing s brk with
  | nil => simp [pollLoop, answersAll]
  | cons p l ih =>
    obtain ⟨e, rdy⟩ := p
    cases rdy
    · simp only [pollLoop, Bool.not_false, ↓reduceIte, answersAll, Bool.and_eq_true]
      exact ⟨(ih s brk).1, by simp [answersP], (ih s brk).2⟩
    · simp only [pollLoop, Bool.not_true, Bool.false_eq_true, ↓reduceIte]
      cases hh : handle s e with
      | none => exact absurd hh (handle_ne_none s e)
      | some q =>
        obtain ⟨s', o⟩ := q
        simp only [answersAll, Bool.and_eq_true]
        exact ⟨(ih s' _).1, handle_answers s s' e o hh, (ih s' _).2⟩

theorem pollLoop_brk (s : St) (l : List (Ev × Bool)) (h : ∀ p ∈ l, p.1 ≠ .fe .shutdown) :
    (pollLoop s false l).brk = false := by
  induction l generalizing s with
  | nil => simp [pollLoop]
  | cons p l ih =>
    obtain ⟨e, rdy⟩ := p
    have hl : ∀ p ∈ l, p.1 ≠ .fe .shutdown := fun p hp => h p (List.mem_cons_of_mem _ hp)
    cases rdy
    · simp only [pollLoop, Bool.not_false, ↓reduceIte]
      exact ih s hl
    · simp only [pollLoop, Bool.not_true, Bool.false_eq_true, ↓reduceIte]
      cases hh : handle s e with
      | none => simp
      | some q =>
        obtain ⟨s', o⟩ := q
        simp only
        have he : e ≠ .fe .shutdown := h (e, true) List.mem_cons_self
        have : brkOf e false = false := by
          cases e with
          | fe q => cases q <;> simp_all [brkOf]
          | ctrl k m => rfl
        rw [this]; exact ih s' hl

theorem flagged_mem (s : St) (b : List Ev) (p : Ev × Bool) (h : p ∈ flagged s b) : p.1 ∈ b ∧ p.2 = ready s p.1 := by
  simp only [flagged, List.mem_map] at h
  obtain ⟨e, he, hp⟩ := h
  subst hp; exact ⟨he, rfl⟩

/-- one poll round of a running gateway -/
theorem poll_running (g : G) (b : List Ev) (hrun : g.phase = .running) :
    (poll g b).g.st = runH g.st (poll g b).handled ∧
    (∀ e ∈ (poll g b).handled, e ∈ b ∧ ready g.st e = true) ∧
    ((poll g b).g.phase ≠ .dead ∧ answersAll (flagged g.st b) (poll g b).outs = true) ∧
    (NoShutdown b → (poll g b).g.phase = .running) := by
  simp only [poll, hrun]
  refine ⟨pollLoop_st _ _ _, ?_, ?_, ?_⟩
  · intro e he
    have := pollLoop_handled_mem _ _ _ e he
    have := flagged_mem g.st b _ this
    exact ⟨this.1, this.2.symm⟩
  · have := pollLoop_alive g.st false (flagged g.st b)
    refine ⟨?_, this.2⟩
    simp only [flagged] at this
    rw [this.1]
    simp only [Bool.false_eq_true, ↓reduceIte]
    split <;> simp
  · intro hs
    have h1 := pollLoop_alive g.st false (flagged g.st b)
    have h2 := pollLoop_brk g.st (flagged g.st b) (fun p hp => hs p.1 (flagged_mem g.st b p hp).1)
    simp only [flagged] at h1 h2
    simp [h1.1, h2]

/-- a poll round after the loop has ended -/
theorem poll_ended (g : G) (b : List Ev) (h : g.phase ≠ .running) :
    (poll g b).g = g ∧ (poll g b).handled = [] ∧ ∀ o ∈ (poll g b).outs, o = .notServed := by
  cases hp : g.phase with
  | running => exact absurd hp h
  | stopped => simp [poll, hp]
  | dead => simp [poll, hp]

theorem serve_st (g : G) (bs : List (List Ev)) : (serve g bs).1.st = runH g.st (serve g bs).2.2 := by
  induction bs generalizing g with
  | nil => simp [serve, runH]
  | cons b bs ih =>
    simp only [serve]
    rw [runH_append, ih (poll g b).g]
    congr 1
    by_cases hrun : g.phase = .running
    · exact (poll_running g b hrun).1
    · have := poll_ended g b hrun
      rw [this.1, this.2.1]; simp [runH]

theorem serve_handled_mem (g : G) (bs : List (List Ev)) (e : Ev) (h : e ∈ (serve g bs).2.2) : ∃ b ∈ bs, e ∈ b := by
  induction bs generalizing g with
  | nil => simp [serve] at h
  | cons b bs ih =>
    simp only [serve] at h
    rcases List.mem_append.mp h with h | h
    · by_cases hrun : g.phase = .running
      · exact ⟨b, List.mem_cons_self, ((poll_running g b hrun).2.1 e h).1⟩
      · rw [(poll_ended g b hrun).2.1] at h; simp at h
    · obtain ⟨b', hb', he⟩ := ih (poll g b).g h
      exact ⟨b', List.mem_cons_of_mem _ hb', he⟩

/-- a job whose socket is closed stays closed over a poll round, and nothing is read from its socket -/
theorem poll_closed (g : G) (b : List Ev) (j : String) (job : Job) (hf : find? g.st j = some job)
    (hreg : job.registered = false) :
    (∃ job', find? (poll g b).g.st j = some job' ∧ job'.registered = false) ∧
    ∀ e ∈ (poll g b).handled, ∀ m, e ≠ .ctrl j m := by
  by_cases hrun : g.phase = .running
  · have hp := poll_running g b hrun
    constructor
    · rw [hp.1, find_run g.st _ j job hf]
      exact ⟨_, rfl, jobStep_foldl_unreg job _ hreg⟩
    · intro e he m hem
      have := (hp.2.1 e he).2
      subst hem
      simp [ready, hf, hreg] at this
  · have hp := poll_ended g b hrun
    rw [hp.1, hp.2.1]
    exact ⟨⟨job, hf, hreg⟩, by simp⟩

end Aux

end EkwVerif.Gateway
