/-
Tier F (FIFO delivery), part A: list facts, frame lemmas and the specification of `notifyEvent`
that the preservation proof of `InvFifo` needs.
-/
import EkwVerif.Lemmas.SchedInvDefs
import EkwVerif.Lemmas.CtrlFinal

namespace EkwVerif.Ctrl

/-- extra conjunct needed to make `InvFifo.tracker_sound` inductive: trackers have no duplicates -/
structure InvFifoX (s : Sys) : Prop where
  tracker_nodup : ∀ t, (s.ctl.tracker t).Nodup

/-! ### the selector of `pendingOuts` -/

def sF_sel (t : Task) : Event → Option Nat
  | .pubW _ ds => if ds.task == t then some ds.out else none
  | _ => none

theorem sF_sel_noticeOf (t : Task) : noticeOf t = sF_sel t := by
  funext ev; cases ev <;> rfl

theorem sF_sel_eq (t : Task) :
    (fun ev : Event => match ev with
      | .pubW _ ds => if ds.task == t then some ds.out else none
      | _ => none) = sF_sel t := by
  funext ev; cases ev <;> rfl

theorem sF_po (s : Sys) (t : Task) :
    pendingOuts s t = s.inbox.filterMap (sF_sel t) ++ s.env.pending.filterMap (sF_sel t) := by
  unfold pendingOuts Sys.allEv
  rw [List.filterMap_append]
  congr 1 <;> (apply List.filterMap_congr; intro ev _; cases ev <;> rfl)

theorem sF_sel_some (t : Task) (ev : Event) (k : Nat) :
    sF_sel t ev = some k ↔ ∃ w, ev = Event.pubW w ⟨t, k⟩ := by
  cases ev with
  | pubW w ds =>
    obtain ⟨a, b⟩ := ds
    simp only [sF_sel]
    constructor
    · intro h
      split at h
      · rename_i hc
        simp only [beq_iff_eq] at hc
        simp only [Option.some.injEq] at h
        subst hc; subst h; exact ⟨w, rfl⟩
      · cases h
    · rintro ⟨w', h⟩
      simp only [Event.pubW.injEq, Ds.mk.injEq] at h
      obtain ⟨_, rfl, rfl⟩ := h
      simp
  | pubT h ds => simp [sF_sel]
  | payload ds v => simp [sF_sel]

theorem sF_sel_pubW_other (t : Task) (w : Worker) (ds : Ds) (h : ds.task ≠ t) : sF_sel t (.pubW w ds) = none := by
  simp [sF_sel, h]

theorem sF_sel_pubW_same (w : Worker) (ds : Ds) : sF_sel ds.task (.pubW w ds) = some ds.out := by
  simp [sF_sel]

theorem sF_sel_pubT (t : Task) (h : Host) (ds : Ds) : sF_sel t (.pubT h ds) = none := rfl
theorem sF_sel_payload (t : Task) (ds : Ds) (v : Val) : sF_sel t (.payload ds v) = none := rfl

/-- the notices published by a run of `t`, seen by the selector of `t'` -/
theorem sF_sel_outputs (j : Job) (w : Worker) (t t' : Task) :
    ((j.outputsOf t).map (fun ds => Event.pubW w ds)).filterMap (sF_sel t') =
      if t = t' then List.range (j.nOut t) else [] := by
  unfold Job.outputsOf
  generalize List.range (j.nOut t) = l
  induction l with
  | nil => simp
  | cons a l ih =>
    simp only [List.map_cons, List.filterMap_cons]
    by_cases h : t = t'
    · subst h
      simp only [sF_sel, beq_self_eq_true, ↓reduceIte] at ih ⊢
      rw [ih]
    · simp only [sF_sel, beq_iff_eq, h, ↓reduceIte] at ih ⊢
      exact ih

theorem sF_drop_range_cons (n m x : Nat) (l : List Nat) (h : (List.range n).drop m = x :: l) :
    x = m ∧ m < n ∧ l = (List.range n).drop (m + 1) := by
  by_cases hm : m < n
  · rw [List.drop_eq_getElem_cons (by simpa using hm)] at h
    simp only [List.getElem_range, List.cons.injEq] at h
    exact ⟨h.1.symm, hm, h.2.symm⟩
  · rw [List.drop_of_length_le (by simp; omega)] at h
    cases h

theorem sF_takeEvents_prefix : ∀ (k : Nat) (l : List Event), takeEvents l (l.take k) = some (l.drop k)
  | 0, l => by simp [takeEvents]
  | k + 1, [] => by simp [takeEvents]
  | k + 1, a :: l => by
    simp only [List.take_succ_cons, takeEvents, List.contains_cons, beq_self_eq_true, Bool.true_or, ↓reduceIte,
      List.erase_cons_head, List.drop_succ_cons]
    exact sF_takeEvents_prefix k l

/-! ### environment frames -/

theorem sF_applyCmd_frame (j : Job) (cl : Cluster) (e : Env) (cmd : Cmd) :
    (applyCmd j cl e cmd).pending = e.pending ∧ (applyCmd j cl e cmd).ran = e.ran := by
  cases cmd <;> simp [applyCmd]

theorem sF_applyCmds_frame (j : Job) (cl : Cluster) (l : List Cmd) (e : Env) :
    (applyCmds j cl e l).pending = e.pending ∧ (applyCmds j cl e l).ran = e.ran := by
  induction l generalizing e with
  | nil => exact ⟨rfl, rfl⟩
  | cons x l ih =>
    have h1 := ih (applyCmd j cl e x)
    have h2 := sF_applyCmd_frame j cl e x
    simp only [applyCmds, List.foldl_cons] at h1 ⊢
    exact ⟨h1.1.trans h2.1, h1.2.trans h2.2⟩

theorem sF_markDelivered_frame (l : List Event) (e : Env) :
    (markDelivered e l).pending = e.pending ∧ (markDelivered e l).ran = e.ran := by
  induction l generalizing e with
  | nil => simp [markDelivered]
  | cons x l ih =>
    simp only [markDelivered, List.foldl_cons] at ih ⊢
    cases x <;> simp [ih]

/-! ### controller frames -/

theorem sF_planOne_frames (j : Job) (c c' : Ctl) (a : Asg) (prep : List (Ds × Host)) (h : planOne j c a prep = .ok c') :
    c'.announced = c.announced ∧ c'.doneC = c.doneC := by
  have fold : ∀ (l : List Ds) (w : Worker) (c0 : Ctl),
      let r := l.foldl (fun c ds => setPreparingAt c ds w) c0
      r.announced = c0.announced ∧ r.doneC = c0.doneC := by
    intro l w
    induction l with
    | nil => intro c0; simp
    | cons x l ih => intro c0; simp only [List.foldl_cons]; have := ih (setPreparingAt c0 x w); simpa using this
  have fold2 : ∀ (l : List (Ds × Host)) (w : Worker) (c0 : Ctl),
      let r := l.foldl (fun c p => setPreparingAt c p.1 w) c0
      r.announced = c0.announced ∧ r.doneC = c0.doneC := by
    intro l w
    induction l with
    | nil => intro c0; simp
    | cons x l ih => intro c0; simp only [List.foldl_cons]; have := ih (setPreparingAt c0 x.1 w); simpa using this
  unfold planOne at h
  split at h
  · cases h
  · dsimp only at h
    split at h
    · cases h
    · simp only [Except.ok.injEq] at h
      subst h
      have h1 := fold2 prep a.worker c
      have h2 := fold (j.outputsOf a.task) a.worker (prep.foldl (fun c p => setPreparingAt c p.1 a.worker) c)
      dsimp only at h1 h2
      exact ⟨by simp [h2.1, h1.1], by simp [h2.2, h1.2]⟩

theorem sF_assignOne_frames (j : Job) (cl : Cluster) (c c' : Ctl) (a : Asg) (p : List (Ds × Host))
    (hr : assignOne j cl c a = .ok (c', p)) :
    c'.announced = c.announced ∧ c'.doneC = c.doneC ∧ c'.tracked = c.tracked ∧ c'.tracker = c.tracker ∧
    c'.computable = c.computable.erase a.task := by
  unfold assignOne at hr
  split at hr; · cases hr
  split at hr; · cases hr
  split at hr; · cases hr
  split at hr; · cases hr
  rename_i c2 prep hb
  simp only [Except.ok.injEq, Prod.mk.injEq] at hr
  obtain ⟨rfl, rfl⟩ := hr
  have f1 := buildPrep_computable _ _ _ _ _ _ _ hb
  have f3 := buildPrep_tracked _ _ _ _ _ _ _ hb
  have f4 := buildPrep_tracker _ _ _ _ _ _ _ hb
  have f5 := buildPrep_announced _ _ _ _ _ _ _ hb
  have f6 := buildPrep_doneC _ _ _ _ _ _ _ hb
  exact ⟨by simp [f5], by simp [f6], by simp [f3], by simp [f4], by simp [f1]⟩

/-! ### `consider_computable`: what happens to the trackers -/

theorem sF_considerChild_spec (c : Ctl) (ds : Ds) (ch : Task) :
    (∀ t, (c.tracker t).Nodup → ((considerChild c ds ch).tracker t).Nodup) ∧
    (∀ t, (t ∈ c.computable ∨ (c.tracked t = true ∧ ∃ d, d ∈ c.tracker t)) →
      (t ∈ (considerChild c ds ch).computable ∨
        ((considerChild c ds ch).tracked t = true ∧ ∃ d, d ∈ (considerChild c ds ch).tracker t))) ∧
    (∀ t d, (considerChild c ds ch).tracked t = true → d ∈ (considerChild c ds ch).tracker t →
      c.tracked t = true ∧ d ∈ c.tracker t ∧ (t = ch → (c.tracker t).Nodup → d ≠ ds)) := by
  unfold considerChild
  split
  · rename_i hc
    simp only [Bool.and_eq_true, List.contains_iff_mem] at hc
    obtain ⟨htr, hmem⟩ := hc
    dsimp only
    split
    · rename_i hemp
      refine ⟨?_, ?_, ?_⟩
      · intro t hn
        by_cases htc : t = ch
        · subst htc; simp only [upd_same]; exact hn.erase _
        · simp only [upd_other _ _ _ _ htc]; exact hn
      · intro t ht
        by_cases htc : t = ch
        · subst htc; left; simp
        · simp only [upd_other _ _ _ _ htc, List.mem_append, List.mem_singleton]
          rcases ht with ht | ht
          · exact Or.inl (Or.inl ht)
          · exact Or.inr ht
      · intro t d ht hd
        by_cases htc : t = ch
        · subst htc; simp at ht
        · simp only [upd_other _ _ _ _ htc] at ht hd
          exact ⟨ht, hd, fun h => absurd h htc⟩
    · rename_i hemp
      refine ⟨?_, ?_, ?_⟩
      · intro t hn
        by_cases htc : t = ch
        · subst htc; simp only [upd_same]; exact hn.erase _
        · simp only [upd_other _ _ _ _ htc]; exact hn
      · intro t ht
        by_cases htc : t = ch
        · subst htc
          right
          simp only [upd_same]
          refine ⟨htr, ?_⟩
          cases hx : (c.tracker t).erase ds with
          | nil => simp [hx] at hemp
          | cons y ys => exact ⟨y, by simp⟩
        · simp only [upd_other _ _ _ _ htc]
          exact ht
      · intro t d ht hd
        by_cases htc : t = ch
        · subst htc
          simp only [upd_same] at hd
          refine ⟨ht, List.mem_of_mem_erase hd, fun _ hn => ?_⟩
          intro heq; subst heq
          exact (List.Nodup.not_mem_erase hn) hd
        · simp only [upd_other _ _ _ _ htc] at hd
          exact ⟨ht, hd, fun h => absurd h htc⟩
  · rename_i hc
    refine ⟨fun t hn => hn, fun t ht => ht, ?_⟩
    intro t d ht hd
    refine ⟨ht, hd, ?_⟩
    intro htc _ heq
    subst htc; subst heq
    apply hc
    simp [ht, hd]

theorem sF_fold_spec (ds : Ds) (l : List Task) (c : Ctl) :
    (∀ t, (c.tracker t).Nodup → ((l.foldl (fun c ch => considerChild c ds ch) c).tracker t).Nodup) ∧
    (∀ t, (t ∈ c.computable ∨ (c.tracked t = true ∧ ∃ d, d ∈ c.tracker t)) →
      (t ∈ (l.foldl (fun c ch => considerChild c ds ch) c).computable ∨
        ((l.foldl (fun c ch => considerChild c ds ch) c).tracked t = true ∧
          ∃ d, d ∈ (l.foldl (fun c ch => considerChild c ds ch) c).tracker t))) ∧
    (∀ t d, (l.foldl (fun c ch => considerChild c ds ch) c).tracked t = true →
      d ∈ (l.foldl (fun c ch => considerChild c ds ch) c).tracker t →
      c.tracked t = true ∧ d ∈ c.tracker t ∧ (t ∈ l → (c.tracker t).Nodup → d ≠ ds)) := by
  induction l generalizing c with
  | nil =>
    refine ⟨fun t hn => hn, fun t ht => ht, fun t d ht hd => ⟨ht, hd, fun h => by cases h⟩⟩
  | cons a l ih =>
    simp only [List.foldl_cons]
    obtain ⟨a1, a2, a3⟩ := sF_considerChild_spec c ds a
    obtain ⟨b1, b2, b3⟩ := ih (considerChild c ds a)
    refine ⟨fun t hn => b1 t (a1 t hn), fun t ht => b2 t (a2 t ht), ?_⟩
    intro t d ht hd
    obtain ⟨x1, x2, x3⟩ := b3 t d ht hd
    obtain ⟨y1, y2, y3⟩ := a3 t d x1 x2
    refine ⟨y1, y2, ?_⟩
    intro hmem hn
    rcases List.mem_cons.mp hmem with rfl | hmem
    · exact y3 rfl hn
    · exact x3 hmem (a1 t hn)

theorem sF_considerComputable_spec (c : Ctl) (ds : Ds) :
    (∀ t, (c.tracker t).Nodup → ((considerComputable c ds).tracker t).Nodup) ∧
    (∀ t, (t ∈ c.computable ∨ (c.tracked t = true ∧ ∃ d, d ∈ c.tracker t)) →
      (t ∈ (considerComputable c ds).computable ∨
        ((considerComputable c ds).tracked t = true ∧ ∃ d, d ∈ (considerComputable c ds).tracker t))) ∧
    (∀ t d, (considerComputable c ds).tracked t = true → d ∈ (considerComputable c ds).tracker t →
      c.tracked t = true ∧ d ∈ c.tracker t ∧
        (c.ptracked ds = true → t ∈ c.ptrack ds → (c.tracker t).Nodup → d ≠ ds)) := by
  unfold considerComputable
  dsimp only
  obtain ⟨a1, a2, a3⟩ := sF_fold_spec ds (if c.ptracked ds = true then c.ptrack ds else []) c
  refine ⟨a1, a2, ?_⟩
  intro t d ht hd
  obtain ⟨x1, x2, x3⟩ := a3 t d ht hd
  refine ⟨x1, x2, ?_⟩
  intro hp hm
  exact x3 (by simp [hp, hm])

/-! ### `notifyEvent` -/

/-- the dataset an event announces -/
def sF_evDs : Event → Option Ds
  | .pubW _ ds => some ds
  | .pubT _ ds => some ds
  | .payload _ _ => none

/-- trackers, computable, announced across one notified event -/
theorem sF_notifyEvent_track (j : Job) (c c' : Ctl) (ev : Event) (h : notifyEvent j c ev = .ok c') :
    (∀ t, (c.tracker t).Nodup → (c'.tracker t).Nodup) ∧
    (∀ t, (t ∈ c.computable ∨ (c.tracked t = true ∧ ∃ d, d ∈ c.tracker t)) →
      (t ∈ c'.computable ∨ (c'.tracked t = true ∧ ∃ d, d ∈ c'.tracker t))) ∧
    (∀ t d, c'.tracked t = true → d ∈ c'.tracker t →
      c.tracked t = true ∧ d ∈ c.tracker t ∧
        (∀ ds, sF_evDs ev = some ds → c.ptracked ds = true → t ∈ c.ptrack ds → (c.tracker t).Nodup → d ≠ ds)) ∧
    (∀ d, c'.announced d = true ↔ (c.announced d = true ∨ sF_evDs ev = some d)) := by
  cases ev with
  | payload ds v =>
    simp only [notifyEvent, Except.ok.injEq] at h; subst h
    refine ⟨fun t hn => hn, fun t ht => ht, fun t d ht hd => ⟨ht, hd, fun ds hx => by cases hx⟩, ?_⟩
    intro d; simp [sF_evDs]
  | pubT hst ds =>
    simp only [notifyEvent, Except.ok.injEq] at h; subst h
    obtain ⟨a1, a2, a3⟩ := sF_considerComputable_spec (considerFetch j (markAvailable c hst ds) ds hst) ds
    simp only [considerFetch_tracker, markAvailable_tracker, considerFetch_tracked, markAvailable_tracked,
      considerFetch_computable, markAvailable_computable, considerFetch_ptrack, markAvailable_ptrack,
      considerFetch_ptracked, markAvailable_ptracked] at a1 a2 a3
    refine ⟨a1, a2, ?_, ?_⟩
    · intro t d ht hd
      obtain ⟨x1, x2, x3⟩ := a3 t d ht hd
      refine ⟨x1, x2, ?_⟩
      intro ds' hds'
      simp only [sF_evDs, Option.some.injEq] at hds'
      subst hds'
      exact x3
    · intro d
      simp only [considerComputable_announced, considerFetch_announced, markAvailable, sF_evDs, Option.some.injEq]
      by_cases hd : d = ds
      · subst hd; simp
      · simp [hd, Ne.symm hd]
  | pubW w ds =>
    obtain ⟨a1, a2, a3⟩ := sF_considerComputable_spec (considerFetch j (markAvailable c w.host ds) ds w.host) ds
    simp only [considerFetch_tracker, markAvailable_tracker, considerFetch_tracked, markAvailable_tracked,
      considerFetch_computable, markAvailable_computable, considerFetch_ptrack, markAvailable_ptrack,
      considerFetch_ptracked, markAvailable_ptracked] at a1 a2 a3
    have hann : ∀ d, (considerComputable (considerFetch j (markAvailable c w.host ds) ds w.host) ds).announced d = true ↔
        (c.announced d = true ∨ sF_evDs (Event.pubW w ds) = some d) := by
      intro d
      simp only [considerComputable_announced, considerFetch_announced, markAvailable, sF_evDs, Option.some.injEq]
      by_cases hd : d = ds
      · subst hd; simp
      · simp [hd, Ne.symm hd]
    have a3' : ∀ t d, (considerComputable (considerFetch j (markAvailable c w.host ds) ds w.host) ds).tracked t = true →
        d ∈ (considerComputable (considerFetch j (markAvailable c w.host ds) ds w.host) ds).tracker t →
        c.tracked t = true ∧ d ∈ c.tracker t ∧
        (∀ ds', sF_evDs (Event.pubW w ds) = some ds' → c.ptracked ds' = true → t ∈ c.ptrack ds' →
          (c.tracker t).Nodup → d ≠ ds') := by
      intro t d ht hd
      obtain ⟨x1, x2, x3⟩ := a3 t d ht hd
      refine ⟨x1, x2, ?_⟩
      intro ds' hds'
      simp only [sF_evDs, Option.some.injEq] at hds'
      subst hds'
      exact x3
    simp only [notifyEvent] at h
    split at h
    · split at h
      · cases h
      · rename_i c2 hc2
        have e1 := completeInputs_tracker _ _ _ _ _ hc2
        have e2 := completeInputs_tracked _ _ _ _ _ hc2
        have e3 := completeInputs_computable _ _ _ _ _ hc2
        have e4 := completeInputs_announced _ _ _ _ _ hc2
        split at h
        · simp only [Except.ok.injEq] at h; subst h
          simp only [e1, e2, e3, e4]
          exact ⟨a1, a2, a3', hann⟩
        · cases h
    · simp only [Except.ok.injEq] at h; subst h
      exact ⟨a1, a2, a3', hann⟩

/-- completion bookkeeping across one notified event -/
theorem sF_notifyEvent_done (j : Job) (c c' : Ctl) (ev : Event) (h : notifyEvent j c ev = .ok c') :
    (c'.doneC = c.doneC ∧ c'.idle = c.idle ∧ c'.ongoing = c.ongoing) ∨
    (∃ w ds, ev = Event.pubW w ds ∧ j.isLast ds = true ∧ c'.doneC = upd c.doneC ds.task true ∧
       (w, ds.task) ∈ c.ongoing ∧ c'.ongoing = c.ongoing.erase (w, ds.task) ∧
       c'.idle = (if (c.ongoing.erase (w, ds.task)).any (·.1 == w) || c.idle.contains w then c.idle
                  else c.idle ++ [w])) := by
  cases ev with
  | payload ds v => simp only [notifyEvent, Except.ok.injEq] at h; subst h; exact Or.inl ⟨rfl, rfl, rfl⟩
  | pubT hst ds => simp only [notifyEvent, Except.ok.injEq] at h; subst h; exact Or.inl ⟨by simp, by simp, by simp⟩
  | pubW w ds =>
    simp only [notifyEvent] at h
    split at h
    · rename_i hlast
      split at h
      · cases h
      · rename_i c2 hc2
        have e1 := completeInputs_doneC _ _ _ _ _ hc2
        have e2 := completeInputs_idle _ _ _ _ _ hc2
        have e3 := completeInputs_ongoing _ _ _ _ _ hc2
        simp only [considerComputable_doneC, considerFetch_doneC, markAvailable_doneC,
          considerComputable_idle, considerFetch_idle, markAvailable_idle,
          considerComputable_ongoing, considerFetch_ongoing, markAvailable_ongoing] at e1 e2 e3
        split at h
        · rename_i hin
          simp only [Except.ok.injEq] at h; subst h
          refine Or.inr ⟨w, ds, rfl, hlast, by simp [e1], ?_, by simp [e3], ?_⟩
          · rw [← e3]; simpa using hin
          · simp only [e2, e3]
        · cases h
    · simp only [Except.ok.injEq] at h; subst h
      exact Or.inl ⟨by simp, by simp, by simp⟩

end EkwVerif.Ctrl
