/-
Helper lemmas for Props/C11.lean: total correctness and value preservation of `expand_graph`.
-/
import EkwVerif.Lemmas.GraphSplice
import EkwVerif.Lemmas.GraphFuse

namespace EkwVerif.Graph

/-! ### what a spliced sub-graph computes (the documented meaning of `expand_graph`) -/

/-- Value of sub-graph node `m` once spliced in place of a node whose inputs (by input NAME) carry
`vin`: a source that the input map connects to input `k` is applied to `{"input": vin k}`, every
other node is evaluated inside the sub-graph. -/
def subVal {V : Type} (I : Interp V) (vin : Name → Option V) (inames : List Name) (im : Option (List (Name × Name)))
    (acc : List (Name → V)) (m : Node) : Name → V :=
  match (if m.isSource then srcInput inames im m.name else none) with
  | some k => fun o => I m.payload (fun k' => if k' = inputName then vin k else none) o
  | none => nodeVal I (envOf acc) m

def subEvalFrom {V : Type} (I : Interp V) (vin : Name → Option V) (inames : List Name) (im : Option (List (Name × Name)))
    (acc : List (Name → V)) : List Node → List (Name → V)
  | [] => acc
  | m :: rest => subEvalFrom I vin inames im (acc ++ [subVal I vin inames im acc m]) rest

/-- Values of all nodes of the sub-graph `e.sub` spliced in place of node `n`. -/
def subEval {V : Type} (I : Interp V) (vin : Name → Option V) (n : Node) (e : Expansion) : List (Name → V) :=
  subEvalFrom I vin (n.inputs.map (·.1)) e.inputMap [] e.sub.nodes

/-- "The sub-graph denotes the node it replaces": for every node `n` of the graph that the expander
replaces by `e`, in every environment `vin` that provides exactly the inputs of `n`, the DEFAULT output
of the leaf selected for output `o` carries the value `n` itself computes at `o`. -/
def ExpandSound {V : Type} (I : Interp V) (ex : Node → Option Expansion) (ns : List Node) : Prop :=
  ∀ n ∈ ns, ∀ e, ex n = some e → ∀ (vin : Name → Option V), (∀ k, (vin k).isSome ↔ k ∈ n.inputs.map (·.1)) →
    ∀ o ∈ n.outputs, ∀ q, leafOf e o = some q → ∀ f, (subEval I vin n e)[q]? = some f →
      f defaultOutput = I n.payload vin o

/-! The same with overridden `splice_source` / `splice_sink` (`SpliceFns`): a mapped source is the node
`mkSource` (payload and input names of the override, all inputs carrying `vin k`), a selected sink is the node
`mkSink` (payload and input selection of the override). -/

def subValW {V : Type} (f : SpliceFns) (I : Interp V) (vin : Name → Option V) (pname : Name) (leafs : List Name)
    (inames : List Name) (im : Option (List (Name × Name))) (acc : List (Name → V)) (m : Node) : Name → V :=
  if m.isSource then
    match srcInput inames im m.name with
    | some k => fun o => I (f.src (prefixed pname m.name) m).2.1
        (fun k' => if k' ∈ (f.src (prefixed pname m.name) m).2.2 then vin k else none) o
    | none => nodeVal I (envOf acc) m
  else if m.isSink && leafs.contains m.name then
    nodeVal I (envOf acc) (mkSink f (prefixed pname m.name) m m.inputs)
  else nodeVal I (envOf acc) m

def subEvalFromW {V : Type} (f : SpliceFns) (I : Interp V) (vin : Name → Option V) (pname : Name) (leafs : List Name)
    (inames : List Name) (im : Option (List (Name × Name))) (acc : List (Name → V)) : List Node → List (Name → V)
  | [] => acc
  | m :: rest => subEvalFromW f I vin pname leafs inames im (acc ++ [subValW f I vin pname leafs inames im acc m]) rest

def subEvalW {V : Type} (f : SpliceFns) (I : Interp V) (vin : Name → Option V) (n : Node) (e : Expansion) : List (Name → V) :=
  subEvalFromW f I vin n.name (mapValues (outputsMap n.outputs e.outputMap)) (n.inputs.map (·.1)) e.inputMap [] e.sub.nodes

/-- "The sub-graph, spliced with the overrides `f`, denotes the node it replaces." -/
def ExpandSoundW {V : Type} (f : SpliceFns) (I : Interp V) (ex : Node → Option Expansion) (ns : List Node) : Prop :=
  ∀ n ∈ ns, ∀ e, ex n = some e → ∀ (vin : Name → Option V), (∀ k, (vin k).isSome ↔ k ∈ n.inputs.map (·.1)) →
    ∀ o ∈ n.outputs, ∀ q, leafOf e o = some q → ∀ g, (subEvalW f I vin n e)[q]? = some g →
      g defaultOutput = I n.payload vin o

/-- `__transform_output` of `_Expander` (it does not depend on the expander). -/
def xOutput (out : List Node) (t : XNode) (o : Name) : Except Err Ref :=
  match t with
  | .node i => nodeOutput out i o
  | .sub sg => subgraphOutput out sg o

theorem expander_output (f : SpliceFns) (ex : Node → Option Expansion) : (expanderW f ex).output = xOutput := rfl

namespace Aux
variable {V : Type}

/-! ### generic -/

theorem mapE_exists {α β ε : Type} (f : α → Except ε β) (l : List α) (h : ∀ a ∈ l, ∃ b, f a = .ok b) :
    ∃ bs, mapE f l = .ok bs := by
  induction l with
  | nil => exact ⟨[], rfl⟩
  | cons a l ih =>
    obtain ⟨b, hb⟩ := h a (by simp)
    obtain ⟨bs, hbs⟩ := ih (fun a' ha' => h a' (by simp [ha']))
    exact ⟨b :: bs, by simp [mapE, hb, hbs]⟩

/-- Two association lists that agree position by position on the keys and are related by `R` on the
values: their lookups are related. -/
theorem lookup_pointwise {β γ : Type} (R : β → γ → Prop) (xs : List (Name × β)) (ys : List (Name × γ))
    (hlen : ys.length = xs.length)
    (h : ∀ (p : Nat) (x : Name × β) (y : Name × γ), xs[p]? = some x → ys[p]? = some y → y.1 = x.1 ∧ R x.2 y.2) (k : Name) :
    (xs.lookup k = none ∧ ys.lookup k = none) ∨ ∃ r r', xs.lookup k = some r ∧ ys.lookup k = some r' ∧ R r r' := by
  induction xs generalizing ys with
  | nil => cases ys with | nil => exact Or.inl ⟨rfl, rfl⟩ | cons _ _ => simp at hlen
  | cons x xs ih =>
    cases ys with
    | nil => simp at hlen
    | cons y ys =>
      obtain ⟨xk, xv⟩ := x
      obtain ⟨yk, yv⟩ := y
      obtain ⟨h1, h2⟩ := h 0 (xk, xv) (yk, yv) (by simp) (by simp)
      simp only at h1 h2
      subst h1
      simp only [List.lookup_cons]
      cases hb : (k == yk) with
      | true => exact Or.inr ⟨xv, yv, rfl, rfl, h2⟩
      | false =>
        exact ih ys (by simpa using hlen) (fun p x' y' hx hy => h (p + 1) x' y' (by simpa using hx) (by simpa using hy))

theorem keys_pointwise {β γ : Type} (xs : List (Name × β)) (ys : List (Name × γ)) (hlen : ys.length = xs.length)
    (h : ∀ (p : Nat) (x : Name × β) (y : Name × γ), xs[p]? = some x → ys[p]? = some y → y.1 = x.1) :
    ys.map (·.1) = xs.map (·.1) := by
  induction xs generalizing ys with
  | nil => cases ys with | nil => rfl | cons _ _ => simp at hlen
  | cons x xs ih =>
    cases ys with
    | nil => simp at hlen
    | cons y ys =>
      simp only [List.map_cons]
      rw [h 0 x y (by simp) (by simp),
        ih ys (by simpa using hlen) (fun p x' y' hx hy => h (p + 1) x' y' (by simpa using hx) (by simpa using hy))]

theorem lookup_shiftIns (base : Nat) (ins : List (Name × Ref)) (k : Name) :
    (shiftIns base ins).lookup k = (ins.lookup k).map fun r => (base + r.1, r.2) := by
  induction ins with
  | nil => rfl
  | cons x ins ih =>
    obtain ⟨k', r⟩ := x
    simp only [shiftIns, List.map_cons, List.lookup_cons] at ih ⊢
    cases (k == k') with
    | false => exact ih
    | true => rfl

theorem shiftIns_keys (base : Nat) (ins : List (Name × Ref)) : (shiftIns base ins).map (·.1) = ins.map (·.1) := by
  simp [shiftIns, Function.comp_def]

theorem envOf_append_right (A acc : List (Name → V)) (j : Nat) (o : Name) :
    envOf (A ++ acc) (A.length + j, o) = envOf acc (j, o) := by
  simp [envOf, List.getElem?_append_right]

theorem envOf_append_left (A acc : List (Name → V)) (r : Ref) (h : r.1 < A.length) :
    envOf (A ++ acc) r = envOf A r := by
  simp [envOf, List.getElem?_append_left h]

/-! ### the value of a spliced block -/

theorem lookup_const (keys : List Name) (r : Ref) (k : Name) :
    (keys.map fun k' => (k', r)).lookup k = if k ∈ keys then some r else none := by
  induction keys with
  | nil => rfl
  | cons a keys ih =>
    simp only [List.map_cons, List.lookup_cons, List.mem_cons]
    by_cases hk : k = a
    · subst hk; simp
    · have : (k == a) = false := by simpa using hk
      simp only [this, ih, hk, false_or]

theorem cfgInputs_shift (base : Nat) (ins : List (Name × Ref)) (sel : Option (List (Name × Name))) :
    cfgInputs (shiftIns base ins) sel = shiftIns base (cfgInputs ins sel) := by
  cases sel with
  | none => rfl
  | some sel =>
    simp only [cfgInputs]
    induction sel with
    | nil => rfl
    | cons x sel ih =>
      rw [List.filterMap_cons, List.filterMap_cons, lookup_shiftIns]
      cases ins.lookup x.2 with
      | none => exact ih
      | some r => simp only [Option.map_some]; rw [ih]; rfl

/-- a node whose inputs are the shifted inputs of `m'` has, in the store, the value `m'` has in the block -/
theorem nodeVal_shift (I : Interp V) (A acc : List (Name → V)) (nm : Name) (outs : List Name) (pay : Payload)
    (ins : List (Name × Ref)) :
    nodeVal I (envOf (A ++ acc)) { name := nm, outputs := outs, payload := pay, inputs := shiftIns A.length ins } =
    nodeVal I (envOf acc) { name := nm, outputs := outs, payload := pay, inputs := ins } := by
  funext o
  simp only [nodeVal]
  congr 1
  funext k
  rw [lookup_shiftIns]
  cases ins.lookup k with
  | none => rfl
  | some r => simp only [Option.map_some, Option.bind_some]; exact envOf_append_right A acc r.1 r.2

/-- A spliced node, evaluated in the store, has the value the documented splice gives it. -/
theorem nodeVal_spliced (f : SpliceFns) (I : Interp V) (c : SplicerCfg) (A acc : List (Name → V)) (vin : Name → Option V)
    (ins : List (Name × Ref)) (inames : List Name) (im : Option (List (Name × Name)))
    (h1 : ∀ s, c.inputs.lookup s = (srcInput inames im s).bind fun k => ins.lookup k)
    (h2 : ∀ k r, ins.lookup k = some r → r.1 < A.length)
    (h3 : ∀ k, vin k = (ins.lookup k).bind (envOf A))
    (h4 : ∀ s k, srcInput inames im s = some k → ∃ r, ins.lookup k = some r) (m : Node) :
    nodeVal I (envOf (A ++ acc)) (splicedNodeW f c A.length m) =
      subValW f I vin c.name (mapValues c.outputs) inames im acc m := by
  unfold splicedNodeW subValW
  by_cases hsrc : m.isSource = true
  · have hemp : m.inputs = [] := by simpa [Node.isSource] using hsrc
    simp only [hsrc, if_true]
    rw [h1]
    cases hk : srcInput inames im m.name with
    | none =>
      simp only [Option.bind_none]
      funext o; simp [nodeVal, hemp]
    | some k =>
      obtain ⟨r, hl⟩ := h4 _ _ hk
      simp only [Option.bind_some, hl]
      funext o
      simp only [nodeVal, mkSource]
      congr 1
      funext k'
      rw [lookup_const]
      by_cases hk' : k' ∈ (f.src (prefixed c.name m.name) m).2.2
      · simp only [hk', if_true, Option.bind_some]
        rw [h3, hl, Option.bind_some, envOf_append_left A acc r (h2 k r hl)]
      · simp only [hk', if_false, Option.bind_none]
  · have hsrc' : m.isSource = false := by simpa using hsrc
    simp only [hsrc', Bool.false_eq_true, if_false]
    split
    · simp only [mkSink, shiftIns_keys, cfgInputs_shift]
      exact nodeVal_shift I A acc _ _ _ _
    · exact nodeVal_shift I A acc _ _ _ _

theorem evalFrom_spliced (f : SpliceFns) (I : Interp V) (c : SplicerCfg) (A : List (Name → V)) (vin : Name → Option V)
    (ins : List (Name × Ref)) (inames : List Name) (im : Option (List (Name × Name)))
    (h1 : ∀ s, c.inputs.lookup s = (srcInput inames im s).bind fun k => ins.lookup k)
    (h2 : ∀ k r, ins.lookup k = some r → r.1 < A.length)
    (h3 : ∀ k, vin k = (ins.lookup k).bind (envOf A))
    (h4 : ∀ s k, srcInput inames im s = some k → ∃ r, ins.lookup k = some r) (ns : List Node) (acc : List (Name → V)) :
    evalFrom I (A ++ acc) (ns.map (splicedNodeW f c A.length)) =
      A ++ subEvalFromW f I vin c.name (mapValues c.outputs) inames im acc ns := by
  induction ns generalizing acc with
  | nil => rfl
  | cons m ns ih =>
    simp only [List.map_cons, evalFrom, subEvalFromW]
    rw [nodeVal_spliced f I c A acc vin ins inames im h1 h2 h3 h4 m, List.append_assoc]
    exact ih _

/-- the values of a spliced sub-graph depend on the interpretation of ITS payloads only -/
theorem subEvalFrom_congr (I J : Interp V) (vin : Name → Option V) (inames : List Name) (im : Option (List (Name × Name)))
    (ns : List Node) (h : ∀ m ∈ ns, I m.payload = J m.payload) (acc : List (Name → V)) :
    subEvalFrom I vin inames im acc ns = subEvalFrom J vin inames im acc ns := by
  induction ns generalizing acc with
  | nil => rfl
  | cons m ns ih =>
    simp only [subEvalFrom]
    have hm : subVal I vin inames im acc m = subVal J vin inames im acc m := by
      unfold subVal nodeVal
      rw [h m (by simp)]
    rw [hm]
    exact ih (fun m' hm' => h m' (by simp [hm'])) _

theorem subEvalFrom_length (I : Interp V) (vin : Name → Option V) (inames : List Name) (im : Option (List (Name × Name)))
    (acc : List (Name → V)) (ns : List Node) : (subEvalFrom I vin inames im acc ns).length = acc.length + ns.length := by
  induction ns generalizing acc with
  | nil => simp [subEvalFrom]
  | cons m ns ih => simp [subEvalFrom, ih]; omega

theorem subEvalFromW_length (f : SpliceFns) (I : Interp V) (vin : Name → Option V) (pname : Name) (leafs : List Name)
    (inames : List Name) (im : Option (List (Name × Name))) (acc : List (Name → V)) (ns : List Node) :
    (subEvalFromW f I vin pname leafs inames im acc ns).length = acc.length + ns.length := by
  induction ns generalizing acc with
  | nil => simp [subEvalFromW]
  | cons m ns ih => simp [subEvalFromW, ih]; omega

/-- Values of a spliced block in the store. -/
theorem eval_spliced (f : SpliceFns) (I : Interp V) (c : SplicerCfg) (out : List Node) (vin : Name → Option V)
    (ins : List (Name × Ref)) (inames : List Name) (im : Option (List (Name × Name)))
    (h1 : ∀ s, c.inputs.lookup s = (srcInput inames im s).bind fun k => ins.lookup k)
    (h2 : ∀ k r, ins.lookup k = some r → r.1 < out.length)
    (h3 : ∀ k, vin k = (ins.lookup k).bind (storeEnv I out))
    (h4 : ∀ s k, srcInput inames im s = some k → ∃ r, ins.lookup k = some r) (ns : List Node) (q : Nat) :
    eval I (out ++ ns.map (splicedNodeW f c out.length)) (out.length + q) =
      (subEvalFromW f I vin c.name (mapValues c.outputs) inames im [] ns)[q]? := by
  unfold eval evalAll
  rw [evalFrom_append]
  have hlen : (evalFrom I [] out).length = out.length := evalAll_length I out
  have := evalFrom_spliced f I c (evalFrom I [] out) vin ins inames im h1 (by rw [hlen]; exact h2) h3 h4 ns []
  rw [hlen, List.append_nil] at this
  rw [this, ← hlen, List.getElem?_append_right (by omega)]
  simp

/-- the default methods of `Splicer` give the plain `subVal` -/
theorem subValW_default (I : Interp V) (vin : Name → Option V) (pname : Name) (leafs : List Name)
    (inames : List Name) (im : Option (List (Name × Name))) (acc : List (Name → V)) (m : Node) :
    subValW defaultSplice I vin pname leafs inames im acc m = subVal I vin inames im acc m := by
  unfold subValW subVal
  by_cases hsrc : m.isSource = true
  · simp only [hsrc, if_true]
    cases srcInput inames im m.name with
    | none => rfl
    | some k =>
      funext o
      simp only [defaultSplice]
      congr 1
      funext k'
      simp
  · have hsrc' : m.isSource = false := by simpa using hsrc
    simp only [hsrc', Bool.false_eq_true, if_false]
    split <;> rfl

theorem subEvalFromW_default (I : Interp V) (vin : Name → Option V) (pname : Name) (leafs : List Name)
    (inames : List Name) (im : Option (List (Name × Name))) (ns : List Node) (acc : List (Name → V)) :
    subEvalFromW defaultSplice I vin pname leafs inames im acc ns = subEvalFrom I vin inames im acc ns := by
  induction ns generalizing acc with
  | nil => rfl
  | cons m ns ih => simp only [subEvalFromW, subEvalFrom, subValW_default, ih]

theorem expandSoundW_default (I : Interp V) (ex : Node → Option Expansion) (ns : List Node) :
    ExpandSoundW defaultSplice I ex ns ↔ ExpandSound I ex ns := by
  unfold ExpandSoundW ExpandSound subEvalW subEval
  simp only [subEvalFromW_default]

/-! ### output lookup -/

theorem nodeOutput_ok {out : List Node} {t : Nat} {o : Name} {y : Ref} (h : nodeOutput out t o = .ok y) :
    y = (t, o) ∧ ∃ m, out[t]? = some m ∧ o ∈ m.outputs := by
  unfold nodeOutput at h
  cases hm : out[t]? with
  | none => simp [hm] at h
  | some m =>
    simp only [hm] at h
    split at h
    · rename_i hmem; cases h; exact ⟨rfl, m, rfl, hmem⟩
    · cases h

theorem nodeOutput_of {out : List Node} {t : Nat} {o : Name} {m : Node} (hm : out[t]? = some m) (ho : o ∈ m.outputs) :
    nodeOutput out t o = .ok (t, o) := by
  simp [nodeOutput, hm, ho]

theorem nodeOutput_mono {out out' : List Node} (hp : out <+: out') {t : Nat} {o : Name} {y : Ref}
    (h : nodeOutput out t o = .ok y) : nodeOutput out' t o = .ok y := by
  obtain ⟨rfl, m, hm, ho⟩ := nodeOutput_ok h
  exact nodeOutput_of (get_of_prefix hp hm) ho

theorem xOutput_mono {out out' : List Node} (hp : out <+: out') {t : XNode} {o : Name} {y : Ref}
    (h : xOutput out t o = .ok y) : xOutput out' t o = .ok y := by
  cases t with
  | node i => exact nodeOutput_mono hp h
  | sub sg =>
    simp only [xOutput, subgraphOutput] at h ⊢
    cases h1 : sg.outputMap.lookup o with
    | none => simp [h1] at h
    | some lname =>
      simp only [h1] at h ⊢
      cases h2 : sg.leaves.lookup lname with
      | none => simp [h2] at h
      | some l =>
        simp only [h2] at h ⊢
        exact nodeOutput_mono hp h

theorem lookup_map_self' (f : Name → Name) (outs : List Name) (o : Name) (h : o ∈ outs) :
    (outs.map fun o => (o, f o)).lookup o = some (f o) := by
  induction outs with
  | nil => cases h
  | cons a outs ih =>
    simp only [List.map_cons, List.lookup_cons]
    cases hb : (o == a) with
    | true => have : o = a := by simpa using hb
              subst this; rfl
    | false =>
      have hne : o ≠ a := by simpa using hb
      rcases List.mem_cons.1 h with h1 | h1
      · exact absurd h1 hne
      · exact ih h1

theorem lookup_outputsMap_mem (outs : List Name) (e : Expansion) (o : Name) (h : o ∈ outs) :
    (outputsMap outs e.outputMap).lookup o = some (leafName e o) := by
  unfold outputsMap leafName
  cases e.outputMap with
  | none => exact lookup_map_self' (fun o => o) outs o h
  | some om => exact lookup_map_self' (fun o => (om.lookup o).getD o) outs o h

theorem mapValues_outputsMap (outs : List Name) (e : Expansion) (o : Name) (h : o ∈ outs) :
    (mapValues (outputsMap outs e.outputMap)).contains (leafName e o) = true := by
  have := mem_of_lookup (lookup_outputsMap_mem outs e o h)
  simp only [mapValues, List.contains_eq_mem, List.mem_map, decide_eq_true_eq]
  exact ⟨_, this, rfl⟩

/-! ### well-formedness of a spliced block -/

theorem cfgInputs_keys (ins : List (Name × Ref)) (sel : List (Name × Name)) (h : ∀ x ∈ sel, x.2 ∈ ins.map (·.1)) :
    (cfgInputs ins (some sel)).map (·.1) = sel.map (·.1) := by
  simp only [cfgInputs]
  induction sel with
  | nil => rfl
  | cons x sel ih =>
    rw [List.filterMap_cons]
    cases hl : ins.lookup x.2 with
    | none => exact absurd (h x (by simp)) (lookup_none_iff.1 hl)
    | some r => simp only [Option.map_some, List.map_cons]; rw [ih (fun y hy => h y (by simp [hy]))]

theorem cfgInputs_mem (ins : List (Name × Ref)) (sel : Option (List (Name × Name))) (y : Name × Ref)
    (hy : y ∈ cfgInputs ins sel) : ∃ z ∈ ins, z.2 = y.2 := by
  cases sel with
  | none => exact ⟨y, hy, rfl⟩
  | some sel =>
    simp only [cfgInputs, List.mem_filterMap] at hy
    obtain ⟨x, _, hx⟩ := hy
    cases hl : ins.lookup x.2 with
    | none => simp [hl] at hx
    | some r =>
      simp only [hl, Option.map_some, Option.some.injEq] at hx
      exact ⟨(x.2, r), mem_of_lookup hl, by rw [← hx]⟩

theorem nodeOK_spliced (f : SpliceFns) (hf : SpliceOK f) (c : SplicerCfg) (out P : List Node) (a : Node) (hok : NodeOK P a)
    (hc : ∀ s r, c.inputs.lookup s = some r → ∃ m, out[r.1]? = some m ∧ r.2 ∈ m.outputs) :
    NodeOK (out ++ P.map (splicedNodeW f c out.length)) (splicedNodeW f c out.length a) := by
  have hrefs : ∀ x ∈ shiftIns out.length a.inputs,
      ∃ m, (out ++ P.map (splicedNodeW f c out.length))[x.2.1]? = some m ∧ x.2.2 ∈ m.outputs := by
    intro x hx
    simp only [shiftIns, List.mem_map] at hx
    obtain ⟨x0, hx0, rfl⟩ := hx
    obtain ⟨m0, hm0, ho⟩ := hok.2 x0 hx0
    refine ⟨splicedNodeW f c out.length m0, ?_, splicedNodeW_outputs f hf c _ m0 _ ho⟩
    simp only
    rw [List.getElem?_append_right (by omega)]
    simp [hm0]
  have hkeys : ((shiftIns out.length a.inputs).map (·.1)).Nodup := by simpa [shiftIns_keys] using hok.1
  unfold splicedNodeW
  split
  · rename_i hsrc
    have hemp : a.inputs = [] := by simpa [Node.isSource] using hsrc
    split
    · exact ⟨by simp [hemp], by simp [hemp]⟩
    · rename_i r hl
      refine ⟨?_, ?_⟩
      · simp only [mkSource, List.map_map]
        have : ((fun x : Name × Ref => x.1) ∘ fun k => (k, r)) = id := by funext k; rfl
        rw [this, List.map_id]
        exact hf.srcKeys _ _
      · intro x hx
        simp only [mkSource, List.mem_map] at hx
        obtain ⟨k, _, rfl⟩ := hx
        obtain ⟨m, hm, ho⟩ := hc _ _ hl
        exact ⟨m, get_append_of_some hm _, ho⟩
  · split
    · refine ⟨?_, ?_⟩
      · simp only [mkSink]
        cases hsel : (f.snk (prefixed c.name a.name) a ((shiftIns out.length a.inputs).map (·.1))).2.2 with
        | none => exact hkeys
        | some sel =>
          obtain ⟨h1, h2⟩ := hf.snkSel _ _ _ sel hkeys hsel
          rw [cfgInputs_keys _ sel h2]; exact h1
      · intro y hy
        simp only [mkSink] at hy
        obtain ⟨z, hz, hzy⟩ := cfgInputs_mem _ _ y hy
        rw [← hzy]; exact hrefs z hz
    · exact ⟨hkeys, hrefs⟩

theorem wf_spliced (f : SpliceFns) (hf : SpliceOK f) (c : SplicerCfg) (out ns : List Node) (hout : WFNodes out) (hns : WFNodes ns)
    (hc : ∀ s r, c.inputs.lookup s = some r → ∃ m, out[r.1]? = some m ∧ r.2 ∈ m.outputs) :
    WFNodes (out ++ ns.map (splicedNodeW f c out.length)) := by
  suffices h : ∀ k, k ≤ ns.length → WFNodes (out ++ (ns.take k).map (splicedNodeW f c out.length)) by
    have := h ns.length (Nat.le_refl _)
    rwa [List.take_length] at this
  intro k
  induction k with
  | zero => intro _; simpa using hout
  | succ k ih =>
    intro hk
    have hlt : k < ns.length := by omega
    have hget : ns[k]? = some ns[k] := List.getElem?_eq_getElem hlt
    have htake : ns.take (k + 1) = ns.take k ++ [ns[k]] := by
      rw [List.take_add_one, hget]; rfl
    rw [htake, List.map_append, ← List.append_assoc]
    exact (wf_snoc _ _).2 ⟨ih (by omega), nodeOK_spliced f hf c out (ns.take k) ns[k] (wf_get ns hns k _ hget) hc⟩

/-! ### `Splicer.graph`: the inner sinks -/

theorem spliceLeaves_inner (c : SplicerCfg) (out : List Node) (ts : List Nat) :
    ∀ (acc : List (Name × Nat) × List Nat),
      (spliceLeaves c out ts acc).2 =
        acc.2 ++ ts.filter fun t => !(mapValues c.outputs).contains (removePrefix (nameAt out t) (prefixOf c.name)) := by
  induction ts with
  | nil => intro acc; simp [spliceLeaves]
  | cons t ts ih =>
    intro acc
    simp only [spliceLeaves]
    by_cases hc : (mapValues c.outputs).contains (removePrefix (nameAt out t) (prefixOf c.name)) = true
    · rw [if_pos hc, ih]
      simp only [List.filter_cons, hc, Bool.not_true, Bool.false_eq_true, if_false]
    · rw [if_neg hc, ih]
      have : (mapValues c.outputs).contains (removePrefix (nameAt out t) (prefixOf c.name)) = false := by simpa using hc
      simp only [List.filter_cons, this, Bool.not_false, if_true, List.append_assoc, List.singleton_append]

theorem mem_dictSet (d : List (Name × Nat)) (k : Name) (v : Nat) (p : Name × Nat) (h : p ∈ dictSet d k v) :
    p ∈ d ∨ p = (k, v) := by
  induction d with
  | nil => simp only [dictSet, List.mem_singleton] at h; exact Or.inr h
  | cons x d ih =>
    obtain ⟨k', v'⟩ := x
    simp only [dictSet] at h
    split at h
    · rename_i hk
      have hk' : k' = k := by simpa using hk
      rcases List.mem_cons.1 h with h1 | h1
      · exact Or.inr (by rw [h1, hk'])
      · exact Or.inl (List.mem_cons_of_mem _ h1)
    · rcases List.mem_cons.1 h with h1 | h1
      · exact Or.inl (by rw [h1]; simp)
      · rcases ih h1 with h2 | h2
        · exact Or.inl (List.mem_cons_of_mem _ h2)
        · exact Or.inr h2

theorem spliceLeaves_entries (c : SplicerCfg) (out : List Node) (ts : List Nat) :
    ∀ (acc : List (Name × Nat) × List Nat), ∀ p ∈ (spliceLeaves c out ts acc).1, p ∈ acc.1 ∨ p.2 ∈ ts := by
  induction ts with
  | nil => intro acc p hp; exact Or.inl hp
  | cons t ts ih =>
    intro acc p hp
    simp only [spliceLeaves] at hp
    split at hp
    · rcases ih _ p hp with h1 | h1
      · rcases mem_dictSet _ _ _ _ h1 with h2 | h2
        · exact Or.inl h2
        · exact Or.inr (by rw [h2]; simp)
      · exact Or.inr (List.mem_cons_of_mem _ h1)
    · rcases ih _ p hp with h1 | h1
      · exact Or.inl h1
      · exact Or.inr (List.mem_cons_of_mem _ h1)

/-- the name of a spliced node with the prefix removed again is the sub-graph node's own name -/
theorem sname_spliced (f : SpliceFns) (c : SplicerCfg) (out ns : List Node) (q : Nat) (hq : q < ns.length) :
    removePrefix (nameAt (out ++ ns.map (splicedNodeW f c out.length)) (out.length + q)) (prefixOf c.name) = nameAt ns q := by
  have : (out ++ ns.map (splicedNodeW f c out.length))[out.length + q]? = some (splicedNodeW f c out.length ns[q]) := by
    rw [List.getElem?_append_right (by omega)]
    simp [hq]
  simp only [nameAt, this, List.getElem?_eq_getElem hq, splicedNodeW_name, removePrefix_prefixed]

/-! ### the invariant of the traversal of `_Expander` -/

/-- The transformed reference `y` is a valid reference into the store and carries what `x` carries in
the input graph. -/
def RefVal (I : Interp V) (pre out : List Node) (x y : Ref) : Prop :=
  storeEnv I out y = storeEnv I pre x ∧ ∃ m, out[y.1]? = some m ∧ y.2 ∈ m.outputs

theorem RefVal.mono {I : Interp V} {pre out : List Node} {x y : Ref} (h : RefVal I pre out x y) (hx : x.1 < pre.length)
    (pre' out' : List Node) : RefVal I (pre ++ pre') (out ++ out') x y := by
  obtain ⟨h1, m, hm, ho⟩ := h
  have hy : y.1 < out.length := (List.getElem?_eq_some_iff.1 hm).1
  exact ⟨by rw [storeEnv_append _ _ _ _ hy, storeEnv_append _ _ _ _ hx]; exact h1, m, get_append_of_some hm _, ho⟩

/-- `ins` are the inputs `xs` as `Transformer.transform` hands them to `_Expander.node`. -/
def InsOf (out : List Node) (done : List XNode) (xs ins : List (Name × Ref)) : Prop :=
  ins.length = xs.length ∧ ∀ (p : Nat) (x y : Name × Ref), xs[p]? = some x → ins[p]? = some y →
    y.1 = x.1 ∧ ∃ t, done[x.2.1]? = some t ∧ xOutput out t x.2.2 = .ok y.2

theorem InsOf.mono {out out' : List Node} {done : List XNode} {xs ins : List (Name × Ref)} (h : InsOf out done xs ins)
    (hp : out <+: out') (done' : List XNode) : InsOf out' (done ++ done') xs ins := by
  refine ⟨h.1, fun p x y hx hy => ?_⟩
  obtain ⟨h1, t, h2, h3⟩ := h.2 p x y hx hy
  exact ⟨h1, t, get_append_of_some h2 _, xOutput_mono hp h3⟩

/-- The block of store nodes (from `base` on) and the `_Subgraph` that replace node `n` expanded with `e`. -/
def BlockAt (f : SpliceFns) (out : List Node) (done : List XNode) (n : Node) (e : Expansion) (sg : Subgraph) : Prop :=
  ∃ (base : Nat) (ins : List (Name × Ref)), InsOf out done n.inputs ins ∧
    sg.name = n.name ∧ sg.outputMap = outputsMap n.outputs e.outputMap ∧
    (∀ (q : Nat) (mq : Node), e.sub.nodes[q]? = some mq →
      out[base + q]? = some (splicedNodeW f ⟨n.name, cfgInputs ins e.inputMap, outputsMap n.outputs e.outputMap⟩ base mq)) ∧
    (∀ o ∈ n.outputs, sg.leaves.lookup (leafName e o) = (leafOf e o).map (base + ·)) ∧
    (∀ p ∈ sg.leaves, ∃ q ∈ e.sub.sinks, p.2 = base + q) ∧
    sg.innerSinks = (e.sub.sinks.filter fun q =>
      !(mapValues (outputsMap n.outputs e.outputMap)).contains (nameAt e.sub.nodes q)).map (base + ·)

theorem BlockAt.mono {f : SpliceFns} {out out' : List Node} {done : List XNode} {n : Node} {e : Expansion} {sg : Subgraph}
    (h : BlockAt f out done n e sg) (hp : out <+: out') (done' : List XNode) : BlockAt f out' (done ++ done') n e sg := by
  obtain ⟨base, ins, h1, h2, h3, h4, h5, h6, h7⟩ := h
  exact ⟨base, ins, h1.mono hp done', h2, h3, fun q mq hq => get_of_prefix hp (h4 q mq hq), h5, h6, h7⟩

structure XV (f : SpliceFns) (I : Interp V) (ex : Node → Option Expansion) (pre : List Node) (st : List Node × List XNode) : Prop where
  wf : WFNodes st.1
  len : st.2.length = pre.length
  names : st.1.map (·.name) = pre.flatMap (expNames ex)
  outv : ∀ (i : Nat) (n : Node), pre[i]? = some n → ∀ o ∈ n.outputs, (∀ e, ex n = some e → leafOK e o = true) →
    ∃ t y, st.2[i]? = some t ∧ xOutput st.1 t o = .ok y ∧ RefVal I pre st.1 (i, o) y
  node : ∀ (i : Nat) (n : Node), pre[i]? = some n → ex n = none →
    ∃ ti m, st.2[i]? = some (.node ti) ∧ st.1[ti]? = some m ∧ m.name = n.name ∧ m.payload = n.payload ∧
      m.outputs = n.outputs ∧ InsOf st.1 st.2 n.inputs m.inputs ∧ eval I st.1 ti = eval I pre i
  block : ∀ (i : Nat) (n : Node) (e : Expansion), pre[i]? = some n → ex n = some e →
    ∃ sg, st.2[i]? = some (.sub sg) ∧ BlockAt f st.1 st.2 n e sg

/-- the inputs handed to `_Expander.node` -/
theorem expandV_inputs (f : SpliceFns) (I : Interp V) (ex : Node → Option Expansion) (pre : List Node) (a : Node) (hok : NodeOK pre a)
    (Hc : ∀ x ∈ a.inputs, ∀ pj, pre[x.2.1]? = some pj → ∀ e, ex pj = some e → leafOK e x.2.2 = true)
    (out : List Node) (done : List XNode) (hinv : XV f I ex pre (out, done)) :
    ∃ ins, transInputs (expanderW f ex) out done a.inputs = .ok ins ∧ InsOf out done a.inputs ins ∧
      ∀ (p : Nat) (x y : Name × Ref), a.inputs[p]? = some x → ins[p]? = some y → RefVal I pre out x.2 y.2 := by
  have hall : ∀ x ∈ a.inputs, ∃ t y, done[x.2.1]? = some t ∧ xOutput out t x.2.2 = .ok y ∧ RefVal I pre out x.2 y := by
    intro x hx
    obtain ⟨m0, hm0, ho⟩ := hok.2 x hx
    obtain ⟨t, y, h1, h2, h3⟩ := hinv.outv x.2.1 m0 hm0 x.2.2 ho (fun e he => Hc x hx m0 hm0 e he)
    exact ⟨t, y, h1, h2, h3⟩
  have hex : ∃ ins, transInputs (expanderW f ex) out done a.inputs = .ok ins := by
    unfold transInputs
    apply mapE_exists
    intro x hx
    obtain ⟨t, y, h1, h2, _⟩ := hall x hx
    exact ⟨(x.1, y), by simp [h1, expander_output f ex, h2]⟩
  obtain ⟨ins, hins⟩ := hex
  have hget : ∀ (p : Nat) (x y : Name × Ref), a.inputs[p]? = some x → ins[p]? = some y →
      y.1 = x.1 ∧ ∃ t, done[x.2.1]? = some t ∧ xOutput out t x.2.2 = .ok y.2 ∧ RefVal I pre out x.2 y.2 := by
    intro p x y hx hy
    unfold transInputs at hins
    obtain ⟨y', hy', hf⟩ := mapE_ok_get _ _ _ hins p x hx
    rw [hy] at hy'; cases hy'
    obtain ⟨t, y0, h1, h2, h3⟩ := hall x (List.mem_of_getElem? hx)
    simp only [h1, expander_output f ex, h2] at hf
    cases hf
    exact ⟨rfl, t, h1, h2, h3⟩
  refine ⟨ins, hins, ⟨mapE_ok_length _ _ _ hins, fun p x y hx hy => ?_⟩, fun p x y hx hy => ?_⟩
  · obtain ⟨h1, t, h2, h3, _⟩ := hget p x y hx hy
    exact ⟨h1, t, h2, h3⟩
  · exact (hget p x y hx hy).2.choose_spec.2.2

/-- what the clauses about ALREADY processed nodes become after one more node -/
theorem XV.old {f : SpliceFns} {I : Interp V} {ex : Node → Option Expansion} {pre : List Node} {out : List Node} {done : List XNode}
    (hinv : XV f I ex pre (out, done)) (a : Node) (more : List Node) (t : XNode) :
    (∀ (i : Nat) (n : Node), i < pre.length → (pre ++ [a])[i]? = some n → ∀ o ∈ n.outputs, (∀ e, ex n = some e → leafOK e o = true) →
      ∃ t' y, (done ++ [t])[i]? = some t' ∧ xOutput (out ++ more) t' o = .ok y ∧ RefVal I (pre ++ [a]) (out ++ more) (i, o) y) ∧
    (∀ (i : Nat) (n : Node), i < pre.length → (pre ++ [a])[i]? = some n → ex n = none →
      ∃ ti m, (done ++ [t])[i]? = some (.node ti) ∧ (out ++ more)[ti]? = some m ∧ m.name = n.name ∧ m.payload = n.payload ∧
        m.outputs = n.outputs ∧ InsOf (out ++ more) (done ++ [t]) n.inputs m.inputs ∧
        eval I (out ++ more) ti = eval I (pre ++ [a]) i) ∧
    (∀ (i : Nat) (n : Node) (e : Expansion), i < pre.length → (pre ++ [a])[i]? = some n → ex n = some e →
      ∃ sg, (done ++ [t])[i]? = some (.sub sg) ∧ BlockAt f (out ++ more) (done ++ [t]) n e sg) := by
  have hp : out <+: out ++ more := List.prefix_append _ _
  refine ⟨?_, ?_, ?_⟩
  · intro i n hi hn o ho hl
    rw [List.getElem?_append_left hi] at hn
    obtain ⟨t', y, h1, h2, h3⟩ := hinv.outv i n hn o ho hl
    exact ⟨t', y, get_append_of_some h1 _, xOutput_mono hp h2, h3.mono hi _ _⟩
  · intro i n hi hn he
    rw [List.getElem?_append_left hi] at hn
    obtain ⟨ti, m, h1, h2, h3, h4, h5, h6, h7⟩ := hinv.node i n hn he
    have hti : ti < out.length := (List.getElem?_eq_some_iff.1 h2).1
    exact ⟨ti, m, get_append_of_some h1 _, get_append_of_some h2 _, h3, h4, h5, h6.mono hp _,
      by rw [eval_append _ _ _ _ hti, eval_append _ _ _ _ hi]; exact h7⟩
  · intro i n e hi hn he
    rw [List.getElem?_append_left hi] at hn
    obtain ⟨sg, h1, h2⟩ := hinv.block i n e hn he
    exact ⟨sg, get_append_of_some h1 _, h2.mono hp _⟩

theorem nodeExpOK_spec {n : Node} {e : Expansion} (h : nodeExpOK n e = true) :
    WFNodes e.sub.nodes ∧ (∀ s ∈ e.sub.sinks, s < e.sub.nodes.length) ∧
    (match e.inputMap with | none => True | some im => ∀ x ∈ im, x.2 ∈ n.inputs.map (·.1)) := by
  simp only [nodeExpOK, Bool.and_eq_true, decide_eq_true_eq, List.all_eq_true] at h
  obtain ⟨⟨h1, h2⟩, h3⟩ := h
  refine ⟨h1, h2, ?_⟩
  cases him : e.inputMap with
  | none => trivial
  | some im =>
    simp only [him, List.all_eq_true, List.contains_eq_mem, decide_eq_true_eq] at h3
    exact h3

theorem leafOK_spec {e : Expansion} {o : Name} (h : leafOK e o = true) :
    ∃ q mq, leafOf e o = some q ∧ e.sub.nodes[q]? = some mq ∧ mq.name = leafName e o ∧
      ((mq.isSource = false ∧ mq.isSink = true) ∨ defaultOutput ∈ mq.outputs) := by
  unfold leafOK at h
  cases hq : leafOf e o with
  | none => simp [hq] at h
  | some q =>
    simp only [hq] at h
    cases hm : e.sub.nodes[q]? with
    | none => simp [hm] at h
    | some mq =>
      simp only [hm] at h
      have hname := (lastWith_some_mem _ _ _ hq).2
      simp only [nameAt, hm, beq_iff_eq] at hname
      refine ⟨q, mq, rfl, hm, hname, ?_⟩
      simp only [Bool.or_eq_true, Bool.and_eq_true, Bool.not_eq_true', List.contains_eq_mem, decide_eq_true_eq] at h
      exact h

/-- One node of the traversal of `_Expander`: it succeeds and keeps the invariant. -/
theorem expandV_step (f : SpliceFns) (hf : SpliceOK f) (I : Interp V) (ex : Node → Option Expansion) (pre : List Node) (a : Node) (hok : NodeOK pre a)
    (Ha : ∀ e, ex a = some e → nodeExpOK a e = true)
    (Hc : ∀ x ∈ a.inputs, ∀ pj, pre[x.2.1]? = some pj → ∀ e, ex pj = some e → leafOK e x.2.2 = true)
    (Hs : ∀ e, ex a = some e → ∀ (vin : Name → Option V), (∀ k, (vin k).isSome ↔ k ∈ a.inputs.map (·.1)) →
      ∀ o ∈ a.outputs, ∀ q, leafOf e o = some q → ∀ g, (subEvalW f I vin a e)[q]? = some g → g defaultOutput = I a.payload vin o)
    (st : List Node × List XNode) (hinv : XV f I ex pre st) :
    ∃ st', step (expanderW f ex) st a = .ok st' ∧ XV f I ex (pre ++ [a]) st' := by
  obtain ⟨out, done⟩ := st
  obtain ⟨ins, hins, hio, hrv⟩ := expandV_inputs f I ex pre a hok Hc out done hinv
  have hkeys : ins.map (·.1) = a.inputs.map (·.1) :=
    keys_pointwise a.inputs ins hio.1 (fun p x y hx hy => (hio.2 p x y hx hy).1)
  have hlk := lookup_pointwise (fun r r' => RefVal I pre out r r') a.inputs ins hio.1
    (fun p x y hx hy => ⟨(hio.2 p x y hx hy).1, hrv p x y hx hy⟩)
  have hlook : ∀ k, (ins.lookup k).bind (storeEnv I out) = (a.inputs.lookup k).bind (storeEnv I pre) := by
    intro k
    rcases hlk k with ⟨h1, h2⟩ | ⟨r, r', h1, h2, h3⟩
    · rw [h1, h2]; rfl
    · rw [h1, h2]; exact h3.1
  have hrefs : ∀ k r', ins.lookup k = some r' → ∃ m, out[r'.1]? = some m ∧ r'.2 ∈ m.outputs := by
    intro k r' hl
    rcases hlk k with ⟨_, h2⟩ | ⟨r, r'', _, h2, h3⟩
    · rw [hl] at h2; cases h2
    · rw [hl] at h2; cases h2; exact h3.2
  have hlast : eval I (pre ++ [a]) pre.length = some (nodeVal I (storeEnv I pre) a) := eval_snoc_last I pre a
  have hnew : ∀ (i : Nat) (n : Node), ¬ i < pre.length → (pre ++ [a])[i]? = some n → i = pre.length ∧ n = a := by
    intro i n hi hn
    have hlt := (List.getElem?_eq_some_iff.1 hn).1
    simp at hlt
    have : i = pre.length := by omega
    subst this
    simp at hn
    exact ⟨rfl, hn.symm⟩
  cases he : ex a with
  | none =>
    obtain ⟨hold1, hold2, hold3⟩ := hinv.old a [{ a with inputs := ins }] (.node out.length)
    refine ⟨(out ++ [{ a with inputs := ins }], done ++ [.node out.length]), ?_, ?_⟩
    · simp only [step, hins, nodeVisit_node_only (expanderW f ex) _ rfl rfl rfl rfl, expandNodeW, he]
    · have hnok : NodeOK out { a with inputs := ins } := by
        refine ⟨by simp only [hkeys]; exact hok.1, ?_⟩
        intro y hy
        obtain ⟨p, hp⟩ := List.getElem?_of_mem hy
        have hplt : p < a.inputs.length := by rw [← hio.1]; exact (List.getElem?_eq_some_iff.1 hp).1
        exact (hrv p a.inputs[p] y (List.getElem?_eq_getElem hplt) hp).2
      have hval : nodeVal I (storeEnv I out) { a with inputs := ins } = nodeVal I (storeEnv I pre) a := by
        funext o; simp only [nodeVal]; congr 1; funext k; exact hlook k
      have hev : eval I (out ++ [{ a with inputs := ins }]) out.length = eval I (pre ++ [a]) pre.length := by
        rw [eval_snoc_last, hlast]; exact congrArg some hval
      have hdget : (done ++ [XNode.node out.length])[pre.length]? = some (.node out.length) := by
        rw [← hinv.len]; simp
      refine ⟨(wf_snoc _ _).2 ⟨hinv.wf, hnok⟩, by simp [hinv.len], ?_, ?_, ?_, ?_⟩
      · simp [hinv.names, expNames, he]
      · intro i n hn o ho hl
        by_cases hi : i < pre.length
        · exact hold1 i n hi hn o ho hl
        · obtain ⟨rfl, rfl⟩ := hnew i n hi hn
          refine ⟨.node out.length, (out.length, o), hdget, nodeOutput_of (m := { n with inputs := ins }) (by simp) ho, ?_,
            { n with inputs := ins }, by simp, ho⟩
          rw [storeEnv_eq, storeEnv_eq, hev]
      · intro i n hn hex
        by_cases hi : i < pre.length
        · exact hold2 i n hi hn hex
        · obtain ⟨rfl, rfl⟩ := hnew i n hi hn
          exact ⟨out.length, { n with inputs := ins }, hdget, by simp, rfl, rfl, rfl,
            hio.mono (List.prefix_append _ _) _, hev⟩
      · intro i n e hn hex
        by_cases hi : i < pre.length
        · exact hold3 i n e hi hn hex
        · obtain ⟨rfl, rfl⟩ := hnew i n hi hn
          rw [he] at hex; cases hex
  | some e =>
    obtain ⟨hsubwf, hsinks, him⟩ := nodeExpOK_spec (Ha e he)
    have him' : match e.inputMap with | none => True | some im => ∀ x ∈ im, x.2 ∈ ins.map (·.1) := by
      rw [hkeys]; exact him
    obtain ⟨c, hcdef⟩ : ∃ c : SplicerCfg, c = ⟨a.name, cfgInputs ins e.inputMap, outputsMap a.outputs e.outputMap⟩ := ⟨_, rfl⟩
    have hcname : c.name = a.name := by rw [hcdef]
    have hcouts : c.outputs = outputsMap a.outputs e.outputMap := by rw [hcdef]
    have hinit : splicerInit a.name ins e.inputMap a.outputs e.outputMap = .ok c := by
      rw [hcdef]; exact splicerInit_eq _ _ _ _ _ him'
    have hc1 : ∀ s, c.inputs.lookup s = (srcInput (a.inputs.map (·.1)) e.inputMap s).bind fun k => ins.lookup k := by
      intro s; rw [hcdef, ← hkeys]; exact cfgInputs_lookup ins e.inputMap s him'
    have hcref : ∀ s r, c.inputs.lookup s = some r → ∃ m, out[r.1]? = some m ∧ r.2 ∈ m.outputs := by
      intro s r hl
      rw [hc1] at hl
      cases hk : srcInput (a.inputs.map (·.1)) e.inputMap s with
      | none => simp [hk] at hl
      | some k => simp only [hk, Option.bind_some] at hl; exact hrefs k r hl
    obtain ⟨out', hout'⟩ : ∃ out', out' = out ++ e.sub.nodes.map (splicedNodeW f c out.length) := ⟨_, rfl⟩
    obtain ⟨ts, hts⟩ : ∃ ts, ts = e.sub.sinks.map (out.length + ·) := ⟨_, rfl⟩
    obtain ⟨sg, hsg⟩ : ∃ sg : Subgraph, sg =
        { name := c.name, leaves := (spliceLeaves c out' ts ([], [])).1, outputMap := c.outputs,
          innerSinks := (spliceLeaves c out' ts ([], [])).2 } := ⟨_, rfl⟩
    have hstep : step (expanderW f ex) (out, done) a = .ok (out', done ++ [.sub sg]) := by
      simp only [step, hins, nodeVisit_node_only (expanderW f ex) _ rfl rfl rfl rfl, expandNodeW, he, hinit, transform,
        splicer_run_eq f hf c out _ hsubwf, sinksOf_shiftDone _ _ _ hsinks, splicerFin, hout', hts, hsg]
    have hget : ∀ (q : Nat) (mq : Node), e.sub.nodes[q]? = some mq → out'[out.length + q]? = some (splicedNodeW f c out.length mq) := by
      intro q mq hq
      rw [hout', List.getElem?_append_right (by omega)]
      simp [hq]
    have hsname : ∀ q ∈ e.sub.sinks, removePrefix (nameAt out' (out.length + q)) (prefixOf c.name) = nameAt e.sub.nodes q := by
      intro q hq; rw [hout']; exact sname_spliced f c out e.sub.nodes q (hsinks q hq)
    have hleaves : ∀ o ∈ a.outputs, sg.leaves.lookup (leafName e o) = (leafOf e o).map (out.length + ·) := by
      intro o ho
      rw [hsg]
      simp only
      rw [spliceLeaves_lookup_eq c out' (leafName e o) (by rw [hcouts]; exact mapValues_outputsMap a.outputs e o ho) ts ([], [])]
      simp only [List.lookup_nil]
      have := lastWith_map (fun t => removePrefix (nameAt out' t) (prefixOf c.name) == leafName e o) (out.length + ·)
        e.sub.sinks none
      simp only [Option.map_none] at this
      rw [hts, this]
      congr 1
      unfold leafOf
      apply lastWith_congr
      intro q hq
      show (removePrefix (nameAt out' (out.length + q)) (prefixOf c.name) == leafName e o) = (nameAt e.sub.nodes q == leafName e o)
      rw [hsname q hq]
    have hinner : sg.innerSinks = (e.sub.sinks.filter fun q =>
        !(mapValues (outputsMap a.outputs e.outputMap)).contains (nameAt e.sub.nodes q)).map (out.length + ·) := by
      rw [hsg]
      simp only
      rw [spliceLeaves_inner, hts, List.nil_append, List.filter_map, hcouts]
      congr 1
      apply List.filter_congr
      intro q hq
      simp only [Function.comp]
      rw [hsname q hq]
    have hentries : ∀ p ∈ sg.leaves, ∃ q ∈ e.sub.sinks, p.2 = out.length + q := by
      intro p hp
      rw [hsg] at hp
      rcases spliceLeaves_entries c out' ts ([], []) p hp with h1 | h1
      · cases h1
      · rw [hts] at h1
        obtain ⟨q, hq, hqe⟩ := List.mem_map.1 h1
        exact ⟨q, hq, hqe.symm⟩
    have hvin : ∀ k, (fun k => (a.inputs.lookup k).bind (storeEnv I pre)) k = (ins.lookup k).bind (storeEnv I out) :=
      fun k => (hlook k).symm
    have hev : ∀ q, eval I out' (out.length + q) =
        (subEvalW f I (fun k => (a.inputs.lookup k).bind (storeEnv I pre)) a e)[q]? := by
      intro q
      rw [hout']
      have h4 : ∀ s k, srcInput (a.inputs.map (·.1)) e.inputMap s = some k → ∃ r, ins.lookup k = some r := by
        intro s k hk
        have hkmem : k ∈ ins.map (·.1) := by
          rw [hkeys]
          unfold srcInput at hk
          cases hime : e.inputMap with
          | none =>
            simp only [hime] at hk
            split at hk
            · rename_i hc; cases hk; simpa using hc
            · cases hk
          | some im =>
            simp only [hime] at hk him
            exact him (s, k) (mem_of_lookup hk)
        cases hl : ins.lookup k with
        | none => exact absurd hkmem (lookup_none_iff.1 hl)
        | some r => exact ⟨r, rfl⟩
      have := eval_spliced f I c out _ ins (a.inputs.map (·.1)) e.inputMap hc1
        (fun k r hl => by obtain ⟨m, hm, _⟩ := hrefs k r hl; exact (List.getElem?_eq_some_iff.1 hm).1) hvin h4 e.sub.nodes q
      rw [hcname, hcouts] at this
      exact this
    have hdom : ∀ k, ((fun k => (a.inputs.lookup k).bind (storeEnv I pre)) k).isSome ↔ k ∈ a.inputs.map (·.1) := by
      intro k
      simp only
      cases hl : a.inputs.lookup k with
      | none => simp only [Option.bind_none, Option.isSome_none, Bool.false_eq_true, false_iff]; exact lookup_none_iff.1 hl
      | some r =>
        simp only [Option.bind_some]
        have hmem := mem_of_lookup hl
        obtain ⟨m0, hm0, _⟩ := hok.2 _ hmem
        have hlt : r.1 < pre.length := (List.getElem?_eq_some_iff.1 hm0).1
        obtain ⟨f, hf⟩ := eval_isSome I pre r.1 hlt
        rw [storeEnv_eq, hf]
        simp only [Option.map_some, Option.isSome_some, true_iff]
        exact List.mem_map.2 ⟨(k, r), hmem, rfl⟩
    have hp : out <+: out' := by rw [hout']; exact List.prefix_append _ _
    have hdget : (done ++ [XNode.sub sg])[pre.length]? = some (.sub sg) := by
      rw [← hinv.len]; simp
    obtain ⟨hold1, hold2, hold3⟩ := hinv.old a (e.sub.nodes.map (splicedNodeW f c out.length)) (.sub sg)
    rw [← hout'] at hold1 hold2 hold3
    refine ⟨(out', done ++ [.sub sg]), hstep, ?_, by simp [hinv.len], ?_, ?_, ?_, ?_⟩
    · show WFNodes out'
      rw [hout']; exact wf_spliced f hf c out e.sub.nodes hinv.wf hsubwf hcref
    · show out'.map (·.name) = (pre ++ [a]).flatMap (expNames ex)
      rw [hout']
      simp only [List.map_append, List.flatMap_append, hinv.names, List.flatMap_cons, List.flatMap_nil, List.append_nil,
        expNames, he, List.map_map]
      congr 1
      apply List.map_congr_left
      intro m _
      simp only [Function.comp, splicedNodeW_name, hcname]
    · intro i n hn o ho hl
      by_cases hi : i < pre.length
      · exact hold1 i n hi hn o ho hl
      · obtain ⟨rfl, rfl⟩ := hnew i n hi hn
        obtain ⟨q, mq, hq, hmq, hname, hcond⟩ := leafOK_spec (hl e he)
        have hqlt : q < e.sub.nodes.length := (List.getElem?_eq_some_iff.1 hmq).1
        have hdef : defaultOutput ∈ (splicedNodeW f c out.length mq).outputs := by
          rcases hcond with ⟨h1, h2⟩ | h1
          · have hcont : (mapValues c.outputs).contains mq.name = true := by
              rw [hcouts, hname]; exact mapValues_outputsMap n.outputs e o ho
            have hcont' : mq.name ∈ mapValues c.outputs := by simpa using hcont
            have : splicedNodeW f c out.length mq = mkSink f (prefixed c.name mq.name) mq (shiftIns out.length mq.inputs) := by
              simp [splicedNodeW, h1, h2, hcont']
            rw [this]
            exact hf.snkDefault _ _ _
          · exact splicedNodeW_outputs f hf c _ mq _ h1
        have hxo : xOutput out' (.sub sg) o = .ok (out.length + q, defaultOutput) := by
          simp only [xOutput, subgraphOutput]
          have h1 : sg.outputMap.lookup o = some (leafName e o) := by
            rw [hsg]; simp only; rw [hcouts]; exact lookup_outputsMap_mem n.outputs e o ho
          rw [h1]
          simp only
          rw [hleaves o ho, hq]
          simp only [Option.map_some]
          exact nodeOutput_of (hget q mq hmq) hdef
        refine ⟨.sub sg, (out.length + q, defaultOutput), hdget, hxo, ?_, _, hget q mq hmq, hdef⟩
        have hlen : (subEvalW f I (fun k => (n.inputs.lookup k).bind (storeEnv I pre)) n e).length = e.sub.nodes.length := by
          simp [subEvalW, subEvalFromW_length]
        have hfq : (subEvalW f I (fun k => (n.inputs.lookup k).bind (storeEnv I pre)) n e)[q]? =
            some (subEvalW f I (fun k => (n.inputs.lookup k).bind (storeEnv I pre)) n e)[q] :=
          List.getElem?_eq_getElem (by rw [hlen]; exact hqlt)
        have hsound := Hs e he _ hdom o ho q hq _ hfq
        rw [storeEnv_eq, storeEnv_eq, hev q, hfq, hlast]
        simp only [Option.map_some]
        rw [hsound]
        rfl
    · intro i n hn hex
      by_cases hi : i < pre.length
      · exact hold2 i n hi hn hex
      · obtain ⟨rfl, rfl⟩ := hnew i n hi hn
        rw [he] at hex; cases hex
    · intro i n e' hn hex
      by_cases hi : i < pre.length
      · exact hold3 i n e' hi hn hex
      · obtain ⟨rfl, rfl⟩ := hnew i n hi hn
        rw [he] at hex; cases hex
        refine ⟨sg, hdget, out.length, ins, hio.mono hp _, by rw [hsg, hcname], by rw [hsg, hcouts], ?_, hleaves, hentries, hinner⟩
        intro q mq hq
        rw [← hcdef]; exact hget q mq hq

theorem expandOK_spec {ex : Node → Option Expansion} {ns : List Node} (h : expandOK ex ns = true) :
    (∀ n ∈ ns, ∀ e, ex n = some e → nodeExpOK n e = true) ∧
    (∀ m ∈ ns, ∀ x ∈ m.inputs, ∀ pj, ns[x.2.1]? = some pj → ∀ e, ex pj = some e → leafOK e x.2.2 = true) := by
  simp only [expandOK, Bool.and_eq_true, List.all_eq_true] at h
  obtain ⟨h1, h2⟩ := h
  refine ⟨fun n hn e he => ?_, fun m hm x hx pj hpj e he => ?_⟩
  · have := h1 n hn; simpa [he] using this
  · have := h2 m hm x hx; simpa [hpj, he] using this

theorem XV.nil (f : SpliceFns) (I : Interp V) (ex : Node → Option Expansion) : XV f I ex [] ([], []) :=
  ⟨trivial, rfl, rfl, fun i n hn => by simp at hn, fun i n hn => by simp at hn, fun i n e hn => by simp at hn⟩

/-- The traversal of `_Expander` succeeds on every graph in the domain and establishes the invariant. -/
theorem expandV_run (f : SpliceFns) (hf : SpliceOK f) (I : Interp V) (ex : Node → Option Expansion) (ns : List Node) (hwf : WFNodes ns)
    (hok : expandOK ex ns = true) (hs : ExpandSoundW f I ex ns) :
    ∃ st, run (expanderW f ex) [] ns = .ok st ∧ XV f I ex ns st := by
  obtain ⟨hok1, hok2⟩ := expandOK_spec hok
  refine foldE_inv (step (expanderW f ex)) ns (XV f I ex) ([], []) (XV.nil f I ex) ?_
  intro pre a post b hl hb
  have ha : a ∈ ns := by rw [hl]; simp
  refine expandV_step f hf I ex pre a (wf_split pre a post (hl ▸ hwf)).2 (hok1 a ha) ?_ (hs a ha) b hb
  intro x hx pj hpj e he
  exact hok2 a ha x hx pj (by rw [hl]; exact get_append_of_some hpj _) e he

/-- With values in `Unit` every expander is sound: used to get the value-free facts. -/
theorem expandSound_unit (f : SpliceFns) (ex : Node → Option Expansion) (ns : List Node) :
    ExpandSoundW f (fun _ _ _ => ()) ex ns := by
  intro n _ e _ vin _ o _ q _ g _; rfl

/-- the sinks `_Expander.graph` collects -/
def xSinks (ts : List XNode) : List Nat :=
  ts.flatMap fun t =>
    match t with
    | .node i => [i]
    | .sub sg => sg.leaves.map (·.2) ++ sg.innerSinks

/-- `expand_graph` succeeds on every graph in the domain; its result with the invariant. -/
theorem expand_result (f : SpliceFns) (hf : SpliceOK f) (I : Interp V) (ex : Node → Option Expansion) (g : Graph) (h : g.WF)
    (hok : expandOK ex g.nodes = true) (hs : ExpandSoundW f I ex g.nodes) :
    ∃ out done, XV f I ex g.nodes (out, done) ∧
      expandGraphW f ex g = .ok { nodes := out, sinks := xSinks (g.sinks.map (done.getD · (.node 0))) } := by
  obtain ⟨⟨out, done⟩, hrun, hinv⟩ := expandV_run f hf I ex g.nodes h.nodes hok hs
  refine ⟨out, done, hinv, ?_⟩
  have hsk : ∀ x ∈ g.sinks, x < done.length := by
    intro x hx; rw [hinv.len]; exact h.sinks x hx
  simp only [expandGraphW, transform, hrun, sinksOf_total done (.node 0) g.sinks hsk]
  rfl

/-! ### names of the expanded graph -/

theorem append_dot_inj (a b x y : Name) (ha : '.' ∉ a) (hb : '.' ∉ b) (h : a ++ '.' :: x = b ++ '.' :: y) : a = b := by
  induction a generalizing b with
  | nil =>
    cases b with
    | nil => rfl
    | cons d b' =>
      simp only [List.nil_append, List.cons_append, List.cons.injEq] at h
      exact absurd (by rw [← h.1]; simp) hb
  | cons c a' ih =>
    cases b with
    | nil =>
      simp only [List.nil_append, List.cons_append, List.cons.injEq] at h
      exact absurd (by rw [h.1]; simp) ha
    | cons d b' =>
      simp only [List.cons_append, List.cons.injEq] at h
      rw [h.1, ih b' (fun hm => ha (List.mem_cons_of_mem _ hm)) (fun hm => hb (List.mem_cons_of_mem _ hm)) h.2]

theorem nodup_flatMap {α β : Type} (f : α → List β) (l : List α) (h1 : ∀ x ∈ l, (f x).Nodup)
    (h2 : l.Pairwise fun a b => ∀ z, z ∈ f a → z ∈ f b → False) : (l.flatMap f).Nodup := by
  induction l with
  | nil => simp
  | cons a l ih =>
    rw [List.pairwise_cons] at h2
    simp only [List.flatMap_cons]
    refine List.nodup_append.2 ⟨h1 a (by simp), ih (fun x hx => h1 x (by simp [hx])) h2.2, ?_⟩
    intro z hz w hw e
    obtain ⟨b, hb, hwb⟩ := List.mem_flatMap.1 hw
    exact h2.1 b hb z hz (e ▸ hwb)

theorem expNames_nodup (ex : Node → Option Expansion) (ns : List Node) (hn : (ns.map (·.name)).Nodup)
    (hdot : ∀ n ∈ ns, '.' ∉ n.name)
    (hsub : ∀ n ∈ ns, ∀ e, ex n = some e → (e.sub.nodes.map (·.name)).Nodup) :
    (ns.flatMap (expNames ex)).Nodup := by
  have hform : ∀ n z, z ∈ expNames ex n → z = n.name ∨ ∃ y, z = n.name ++ '.' :: y := by
    intro n z hz
    unfold expNames at hz
    cases he : ex n with
    | none => simp only [he, List.mem_singleton] at hz; exact Or.inl hz
    | some e =>
      simp only [he, List.mem_map] at hz
      obtain ⟨m, _, rfl⟩ := hz
      exact Or.inr ⟨m.name, by simp [prefixed, prefixOf]⟩
  apply nodup_flatMap
  · intro n hnmem
    unfold expNames
    cases he : ex n with
    | none => simp
    | some e =>
      simp only
      have := hsub n hnmem e he
      have h2 : (e.sub.nodes.map fun m => prefixed n.name m.name) = (e.sub.nodes.map (·.name)).map (prefixed n.name) := by
        simp [Function.comp_def]
      rw [h2]
      unfold List.Nodup at this ⊢
      exact List.Pairwise.map _ (fun a b hab e => hab (List.append_cancel_left e)) this
  · unfold List.Nodup at hn
    rw [List.pairwise_map] at hn
    have hn' : ns.Pairwise fun a b => a.name ≠ b.name ∧ '.' ∉ a.name ∧ '.' ∉ b.name := by
      rw [List.pairwise_iff_getElem] at hn ⊢
      intro i j hi hj hij
      exact ⟨hn i j hi hj hij, hdot _ (List.getElem_mem hi), hdot _ (List.getElem_mem hj)⟩
    refine hn'.imp ?_
    intro a b ⟨hab, hda, hdb⟩ z hza hzb
    rcases hform a z hza with h1 | ⟨y1, h1⟩ <;> rcases hform b z hzb with h2 | ⟨y2, h2⟩
    · exact hab (h1 ▸ h2)
    · rw [h1] at h2; exact hda (by rw [h2]; simp)
    · rw [h2] at h1; exact hdb (by rw [h1]; simp)
    · rw [h1] at h2; exact hab (append_dot_inj a.name b.name y1 y2 hda hdb h2)

end Aux
end EkwVerif.Graph
