/-
C16 helper lemmas, part 3: the layering loop of `enrich` (counting invariant of `remaining`).
-/
import EkwVerif.Lemmas.C16Maps
import EkwVerif.Lemmas.C16Flood

set_option linter.unusedSectionVars false
set_option linter.unusedVariables false

namespace EkwVerif.Presched.Aux
open EkwVerif.Presched

variable {α : Type} [DecidableEq α]

/-! ### more on `unvisited` (= number of elements of a list outside a set) -/

theorem unvisited_congr (l P P' : List α) (h : ∀ x ∈ l, (x ∈ P ↔ x ∈ P')) :
    unvisited l P = unvisited l P' := by
  induction l with
  | nil => rfl
  | cons a l ih =>
    simp only [unvisited]
    rw [ih (fun x hx => h x (List.mem_cons_of_mem _ hx))]
    have := h a (by simp)
    by_cases h1 : a ∈ P
    · rw [if_pos h1, if_pos (this.mp h1)]
    · rw [if_neg h1, if_neg (fun hc => h1 (this.mpr hc))]

theorem unvisited_eq_zero_iff (l P : List α) : unvisited l P = 0 ↔ ∀ x ∈ l, x ∈ P := by
  induction l with
  | nil => simp [unvisited]
  | cons a l ih =>
    simp only [unvisited, List.mem_cons, forall_eq_or_imp]
    by_cases h1 : a ∈ P
    · rw [if_pos h1]
      simp [ih, h1]
    · rw [if_neg h1]
      simp [h1]

theorem unvisited_pos (l P : List α) (x : α) (hx : x ∈ l) (hP : x ∉ P) : 1 ≤ unvisited l P := by
  rcases Nat.eq_zero_or_pos (unvisited l P) with h | h
  · exact absurd ((unvisited_eq_zero_iff l P).mp h x hx) hP
  · exact h

theorem unvisited_cons_of_not_mem (l P : List α) (x : α) (hx : x ∉ l) :
    unvisited l (x :: P) = unvisited l P := by
  apply unvisited_congr
  intro y hy
  constructor
  · intro h
    rcases List.mem_cons.mp h with h | h
    · subst h; exact absurd hy hx
    · exact h
  · exact List.mem_cons_of_mem _

theorem unvisited_cons_of_mem (l P : List α) (x : α) (hn : l.Nodup) (hx : x ∈ l) (hP : x ∉ P) :
    unvisited l (x :: P) + 1 = unvisited l P := by
  induction l with
  | nil => simp at hx
  | cons a l ih =>
    simp only [List.nodup_cons] at hn
    simp only [unvisited]
    by_cases hax : a = x
    · subst hax
      rw [if_neg hP, if_pos (by simp), unvisited_cons_of_not_mem l P a hn.1]
      omega
    · have hx' : x ∈ l := by
        rcases List.mem_cons.mp hx with h | h
        · exact absurd h.symm hax
        · exact h
      have := ih hn.2 hx'
      by_cases h1 : a ∈ P
      · rw [if_pos h1, if_pos (List.mem_cons_of_mem _ h1)]; omega
      · have h2 : a ∉ x :: P := by
          intro hc
          rcases List.mem_cons.mp hc with h | h
          · exact hax h
          · exact h1 h
        rw [if_neg h1, if_neg h2]; omega

theorem unvisited_mono (l P P' : List α) (h : ∀ x ∈ P, x ∈ P') : unvisited l P' ≤ unvisited l P := by
  induction l with
  | nil => simp [unvisited]
  | cons a l ih =>
    simp only [unvisited]
    by_cases h1 : a ∈ P
    · rw [if_pos h1, if_pos (h a h1)]; omega
    · rw [if_neg h1]; split <;> omega

/-! ### the graph a component lives in -/

structure GraphOK (ns : List α) (ch pa : α → List α) : Prop where
  ns_nodup : ns.Nodup
  ch_nodup : ∀ a, (ch a).Nodup
  pa_nodup : ∀ a, (pa a).Nodup
  ch_pa : ∀ a c, c ∈ ch a ↔ a ∈ pa c
  ch_closed : ∀ a ∈ ns, ∀ c ∈ ch a, c ∈ ns
  pa_closed : ∀ c ∈ ns, ∀ a ∈ pa c, a ∈ ns

/-- encoding of a counter in `remaining`: entries are popped when they reach 0 -/
def enc (k : Nat) : Option Nat := if k = 0 then none else some k

/-- `remaining[a]` = number of children of `a` outside `seen a` -/
def RemOK (ns : List α) (ch : α → List α) (rem : List (α × Nat)) (seen : α → List α) : Prop :=
  (∀ a ∈ ns, dlookup rem a = enc (unvisited (ch a) (seen a))) ∧ (∀ a, a ∉ ns → dlookup rem a = none)

theorem RemOK.congr {ns : List α} {ch : α → List α} {rem : List (α × Nat)} {seen seen' : α → List α}
    (h : RemOK ns ch rem seen)
    (he : ∀ a ∈ ns, unvisited (ch a) (seen a) = unvisited (ch a) (seen' a)) : RemOK ns ch rem seen' :=
  ⟨fun a ha => by rw [← he a ha]; exact h.1 a ha, h.2⟩

theorem relax_spec {ns : List α} {ch : α → List α} {rem : List (α × Nat)} {next : List α}
    {seen : α → List α} (h : RemOK ns ch rem seen) (a v : α) (ha : a ∈ ns) (hv : v ∈ ch a)
    (hs : v ∉ seen a) (hn : (ch a).Nodup) :
    RemOK ns ch (relax (rem, next) a).1 (fun x => if x = a then v :: seen a else seen x) ∧
    (relax (rem, next) a).2 = if unvisited (ch a) (seen a) = 1 then next ++ [a] else next := by
  have hpos := unvisited_pos (ch a) (seen a) v hv hs
  have hdec := unvisited_cons_of_mem (ch a) (seen a) v hn hv hs
  have hl : dlookup rem a = some (unvisited (ch a) (seen a)) := by
    rw [h.1 a ha]; unfold enc; rw [if_neg (by omega)]
  unfold relax
  simp only [hl]
  by_cases h1 : unvisited (ch a) (seen a) - 1 = 0
  · have h1' : unvisited (ch a) (seen a) = 1 := by omega
    simp only [↓reduceIte, h1']
    refine ⟨⟨?_, ?_⟩, trivial⟩
    · intro x hx
      dsimp only
      rw [dlookup_derase]
      by_cases hxa : a = x
      · subst hxa
        simp only [↓reduceIte]
        unfold enc
        rw [if_pos (by omega)]
      · rw [if_neg hxa, if_neg (Ne.symm hxa)]
        exact h.1 x hx
    · intro x hx
      rw [dlookup_derase]
      split
      · rfl
      · exact h.2 x hx
  · have h1' : unvisited (ch a) (seen a) ≠ 1 := by omega
    simp only [h1, ↓reduceIte, h1']
    refine ⟨⟨?_, ?_⟩, trivial⟩
    · intro x hx
      dsimp only
      rw [dlookup_dset]
      by_cases hxa : a = x
      · subst hxa
        simp only [↓reduceIte]
        unfold enc
        rw [if_neg (by omega)]
        congr 1
        omega
      · rw [if_neg hxa, if_neg (Ne.symm hxa)]
        exact h.1 x hx
    · intro x hx
      rw [dlookup_dset]
      have : a ≠ x := by intro hc; subst hc; exact hx ha
      rw [if_neg this]
      exact h.2 x hx

/-- the `for a in edge_i[v]` loop -/
theorem inner_spec {ns : List α} {ch : α → List α} (v : α) (P : List α) (hv : v ∉ P)
    (hcn : ∀ a, (ch a).Nodup) :
    ∀ (as T : List α) (st : List (α × Nat) × List α), as.Nodup →
      (∀ a ∈ as, a ∉ T ∧ a ∈ ns ∧ v ∈ ch a) →
      RemOK ns ch st.1 (fun x => if x ∈ T then v :: P else P) →
      RemOK ns ch (as.foldl relax st).1 (fun x => if x ∈ as ∨ x ∈ T then v :: P else P) ∧
      (as.foldl relax st).2 = st.2 ++ as.filter (fun a => unvisited (ch a) P = 1) := by
  intro as
  induction as with
  | nil =>
    intro T st _ _ h
    simpa using h
  | cons a as ih =>
    intro T st hn hall h
    simp only [List.nodup_cons] at hn
    obtain ⟨haT, hans, hvch⟩ := hall a (by simp)
    have hseen : (if a ∈ T then v :: P else P) = P := if_neg haT
    have hr := relax_spec (next := st.2) h a v hans hvch (by rw [hseen]; exact hv) (hcn a)
    rw [hseen] at hr
    have hr1 : RemOK ns ch (relax st a).1 (fun x => if x ∈ a :: T then v :: P else P) := by
      refine ⟨?_, hr.1.2⟩
      intro x hx
      rw [hr.1.1 x hx]
      by_cases hxa : x = a
      · subst hxa; simp
      · simp only [hxa, ↓reduceIte, List.mem_cons, false_or]
    have hall' : ∀ a' ∈ as, a' ∉ a :: T ∧ a' ∈ ns ∧ v ∈ ch a' := by
      intro a' ha'
      obtain ⟨h1, h2, h3⟩ := hall a' (List.mem_cons_of_mem _ ha')
      refine ⟨?_, h2, h3⟩
      intro hc
      rcases List.mem_cons.mp hc with hc | hc
      · subst hc; exact hn.1 ha'
      · exact h1 hc
    obtain ⟨i1, i2⟩ := ih (a :: T) (relax st a) hn.2 hall' hr1
    simp only [List.foldl_cons]
    constructor
    · refine ⟨?_, i1.2⟩
      intro x hx
      rw [i1.1 x hx]
      have : (x ∈ as ∨ x ∈ a :: T) ↔ (x ∈ a :: as ∨ x ∈ T) := by
        simp only [List.mem_cons]
        constructor
        · rintro (h | h | h)
          · exact Or.inl (Or.inr h)
          · exact Or.inl (Or.inl h)
          · exact Or.inr h
        · rintro ((h | h) | h)
          · exact Or.inr (Or.inl h)
          · exact Or.inl h
          · exact Or.inr (Or.inr h)
      dsimp only
      by_cases hc : x ∈ as ∨ x ∈ a :: T
      · rw [if_pos hc, if_pos (this.mp hc)]
      · rw [if_neg hc, if_neg (fun h => hc (this.mpr h))]
    · rw [i2, hr.2]
      simp only [List.filter_cons]
      by_cases h1 : unvisited (ch a) P = 1
      · simp [h1]
      · simp [h1]

/-- what `next_layer` holds: the nodes whose counter reached 0 since `P0` -/
def NextOK (ns : List α) (ch : α → List α) (next P0 P : List α) : Prop :=
  next.Nodup ∧ ∀ a, a ∈ next ↔ (a ∈ ns ∧ 1 ≤ unvisited (ch a) P0 ∧ unvisited (ch a) P = 0)

/-- the `for v in layers[-1]` loop -/
theorem layerFold_spec {ns : List α} {ch pa : α → List α} (G : GraphOK ns ch pa) (P0 : List α) :
    ∀ (layer P : List α) (st : List (α × Nat) × List α), layer.Nodup →
      (∀ v ∈ layer, v ∉ P ∧ v ∈ ns) → (∀ x ∈ P0, x ∈ P) →
      RemOK ns ch st.1 (fun _ => P) → NextOK ns ch st.2 P0 P →
      RemOK ns ch (layer.foldl (fun st v => (pa v).foldl relax st) st).1 (fun _ => layer.reverse ++ P) ∧
      NextOK ns ch (layer.foldl (fun st v => (pa v).foldl relax st) st).2 P0 (layer.reverse ++ P) := by
  intro layer
  induction layer with
  | nil =>
    intro P st _ _ _ h1 h2
    simpa using ⟨h1, h2⟩
  | cons v layer ih =>
    intro P st hn hall hP0 hrem hnext
    simp only [List.nodup_cons] at hn
    obtain ⟨hvP, hvns⟩ := hall v (by simp)
    have hin := inner_spec (ns := ns) (ch := ch) v P hvP G.ch_nodup (pa v) [] st (G.pa_nodup v)
      (by
        intro a ha
        exact ⟨by simp, G.pa_closed v hvns a ha, (G.ch_pa a v).mpr ha⟩)
      (by simpa using hrem)
    obtain ⟨i1, i2⟩ := hin
    have hrem' : RemOK ns ch ((pa v).foldl relax st).1 (fun _ => v :: P) := by
      apply i1.congr
      intro a ha
      by_cases hc : a ∈ pa v
      · simp [hc]
      · simp only [hc, List.not_mem_nil, or_self, ↓reduceIte]
        exact (unvisited_cons_of_not_mem (ch a) P v (fun h => hc ((G.ch_pa a v).mp h))).symm
    have hnext' : NextOK ns ch ((pa v).foldl relax st).2 P0 (v :: P) := by
      rw [i2]
      constructor
      · rw [List.nodup_append]
        refine ⟨hnext.1, (G.pa_nodup v).filter _, ?_⟩
        intro a ha b hb hab
        subst hab
        have h1 := ((hnext.2 a).mp ha).2.2
        have h2 := (List.mem_filter.mp hb).2
        simp at h2
        omega
      · intro a
        rw [List.mem_append, hnext.2 a, List.mem_filter]
        simp only [decide_eq_true_eq]
        constructor
        · rintro (⟨h1, h2, h3⟩ | ⟨h1, h2⟩)
          · refine ⟨h1, h2, ?_⟩
            have := unvisited_mono (ch a) P (v :: P) (fun x hx => List.mem_cons_of_mem _ hx)
            omega
          · have hans := G.pa_closed v hvns a h1
            have hvch := (G.ch_pa a v).mpr h1
            have := unvisited_cons_of_mem (ch a) P v (G.ch_nodup a) hvch hvP
            have hm := unvisited_mono (ch a) P0 P hP0
            exact ⟨hans, by omega, by omega⟩
        · rintro ⟨h1, h2, h3⟩
          by_cases hz : unvisited (ch a) P = 0
          · exact Or.inl ⟨h1, h2, hz⟩
          · right
            have hvch : v ∈ ch a := by
              apply Classical.byContradiction
              intro hc
              rw [unvisited_cons_of_not_mem (ch a) P v hc] at h3
              exact hz h3
            have := unvisited_cons_of_mem (ch a) P v (G.ch_nodup a) hvch hvP
            exact ⟨(G.ch_pa a v).mp hvch, by omega⟩
    have hall' : ∀ w ∈ layer, w ∉ v :: P ∧ w ∈ ns := by
      intro w hw
      obtain ⟨h1, h2⟩ := hall w (List.mem_cons_of_mem _ hw)
      refine ⟨?_, h2⟩
      intro hc
      rcases List.mem_cons.mp hc with hc | hc
      · subst hc; exact hn.1 hw
      · exact h1 hc
    have := ih (v :: P) ((pa v).foldl relax st) hn.2 hall' (fun x hx => List.mem_cons_of_mem _ (hP0 x hx)) hrem' hnext'
    simp only [List.foldl_cons, List.reverse_cons, List.append_assoc, List.cons_append, List.nil_append]
    exact this

/-! ### layers are ordered: children in strictly earlier layers -/

/-- every node of a layer has all its children in `pre` or in earlier layers -/
def GoodFrom (ch : α → List α) : List α → List (List α) → Prop
  | _, [] => True
  | pre, l :: ls => (∀ a ∈ l, ∀ c ∈ ch a, c ∈ pre) ∧ GoodFrom ch (pre ++ l) ls

theorem goodFrom_append (ch : α → List α) (pre : List α) (ls : List (List α)) (next : List α) :
    GoodFrom ch pre (ls ++ [next]) ↔
      GoodFrom ch pre ls ∧ ∀ a ∈ next, ∀ c ∈ ch a, c ∈ pre ++ ls.flatten := by
  induction ls generalizing pre with
  | nil => simp [GoodFrom]
  | cons l ls ih =>
    simp only [List.cons_append, GoodFrom, ih, List.flatten_cons, List.append_assoc]
    constructor
    · rintro ⟨h1, h2, h3⟩; exact ⟨⟨h1, h2⟩, h3⟩
    · rintro ⟨⟨h1, h2⟩, h3⟩; exact ⟨h1, h2, h3⟩

/-- flat version: in the concatenation of the layers every node comes after all its children -/
theorem goodFrom_flat (ch : α → List α) :
    ∀ (ls : List (List α)) (pre pre' : List α) (v : α) (post : List α), GoodFrom ch pre ls →
      ls.flatten = pre' ++ v :: post → ∀ c ∈ ch v, c ∈ pre ++ pre' := by
  intro ls
  induction ls with
  | nil => intro pre pre' v post _ h; simp at h
  | cons l ls ih =>
    intro pre pre' v post hg h c hc
    simp only [List.flatten_cons] at h
    obtain ⟨hl, hg'⟩ := hg
    rcases List.append_eq_append_iff.mp h with ⟨a', h1, h2⟩ | ⟨c', h1, h2⟩
    · have := ih (pre ++ l) a' v post hg' h2 c hc
      rw [h1]
      simpa [List.append_assoc] using this
    · cases c' with
      | nil =>
        simp only [List.nil_append] at h2
        simp only [List.append_nil] at h1
        have := ih (pre ++ l) [] v post hg' h2.symm c hc
        rw [← h1]
        simpa using this
      | cons x c'' =>
        simp only [List.cons_append, List.cons.injEq] at h2
        have hv : v ∈ l := by rw [h1, h2.1]; simp
        exact List.mem_append_left _ (hl v hv c hc)

/-! ### the `while remaining` loop -/

structure LoopInv (ns : List α) (ch : α → List α) (rem : List (α × Nat)) (acc : List (List α))
    (last : List α) : Prop where
  rem_ok : RemOK ns ch rem (fun _ => acc.flatten)
  nodup : (acc.flatten ++ last).Nodup
  sub_ns : ∀ x ∈ acc.flatten ++ last, x ∈ ns
  placed : ∀ a ∈ ns, (a ∈ acc.flatten ++ last ↔ unvisited (ch a) acc.flatten = 0)
  good : GoodFrom ch [] (acc ++ [last])

theorem dlookup_map_self {ν : Type} (l : List α) (f : α → ν) (a : α) :
    dlookup (l.map (fun v => (v, f v))) a = if a ∈ l then some (f a) else none := by
  induction l with
  | nil => simp [dlookup]
  | cons x l ih =>
    simp only [List.map_cons, dlookup, ih, List.mem_cons]
    by_cases h : x = a
    · subst h; simp
    · simp [h, Ne.symm h]

theorem loopInv_init {ns : List α} {ch pa : α → List α} (G : GraphOK ns ch pa) :
    LoopInv ns ch ((ns.filter (fun v => !(ch v).isEmpty)).map (fun v => (v, (ch v).length))) []
      (ns.filter (fun v => (ch v).isEmpty)) := by
  have hlen : ∀ a, unvisited (ch a) [] = (ch a).length := by
    intro a
    generalize ch a = l
    induction l with
    | nil => rfl
    | cons x l ih => simp [unvisited, ih]; omega
  constructor
  · constructor
    · intro a ha
      rw [dlookup_map_self]
      simp only [List.flatten_nil, hlen, List.mem_filter, ha, true_and]
      unfold enc
      cases h : ch a with
      | nil => simp
      | cons x l => simp
    · intro a ha
      rw [dlookup_map_self]
      simp [List.mem_filter, ha]
  · simp only [List.flatten_nil, List.nil_append]
    exact G.ns_nodup.filter _
  · intro x hx
    simp only [List.flatten_nil, List.nil_append, List.mem_filter] at hx
    exact hx.1
  · intro a ha
    simp only [List.flatten_nil, List.nil_append, List.mem_filter, ha, true_and, hlen]
    cases h : ch a <;> simp
  · simp only [List.nil_append, GoodFrom, and_true]
    intro a ha c hc
    simp only [List.mem_filter] at ha
    have := ha.2
    cases h : ch a with
    | nil => rw [h] at hc; simp at hc
    | cons x l => rw [h] at this; simp at this

theorem eq_nil_of_dlookup_none {ν : Type} (m : List (α × ν)) (h : ∀ a, dlookup m a = none) : m = [] := by
  cases m with
  | nil => rfl
  | cons p m =>
    have := h p.1
    simp [dlookup] at this

/-- one round of the loop -/
theorem loopInv_step {ns : List α} {ch pa : α → List α} (G : GraphOK ns ch pa)
    {rem : List (α × Nat)} {acc : List (List α)} {last : List α} (h : LoopInv ns ch rem acc last) :
    LoopInv ns ch (layerStep pa rem last).1 (acc ++ [last]) (layerStep pa rem last).2 ∧
    (∀ a, a ∈ (layerStep pa rem last).2 ↔
      (a ∈ ns ∧ 1 ≤ unvisited (ch a) acc.flatten ∧ unvisited (ch a) (acc.flatten ++ last) = 0)) := by
  have hn := h.nodup
  rw [List.nodup_append] at hn
  obtain ⟨hn1, hn2, hn3⟩ := hn
  have hfold := layerFold_spec G acc.flatten last acc.flatten (rem, []) hn2
    (by
      intro v hv
      exact ⟨fun hc => hn3 v hc v hv rfl, h.sub_ns v (List.mem_append_right _ hv)⟩)
    (fun x hx => hx) h.rem_ok
    (by
      constructor
      · simp
      · intro a
        simp only [List.not_mem_nil, false_iff, not_and]
        intro _ h1 h2
        omega)
  obtain ⟨f1, f2⟩ := hfold
  have hmem : ∀ x, x ∈ last.reverse ++ acc.flatten ↔ x ∈ acc.flatten ++ last := by
    intro x; simp [or_comm]
  have hcnt : ∀ a, unvisited (ch a) (last.reverse ++ acc.flatten) = unvisited (ch a) (acc.flatten ++ last) :=
    fun a => unvisited_congr _ _ _ (fun x _ => hmem x)
  have hnext : ∀ a, a ∈ (layerStep pa rem last).2 ↔
      (a ∈ ns ∧ 1 ≤ unvisited (ch a) acc.flatten ∧ unvisited (ch a) (acc.flatten ++ last) = 0) := by
    intro a
    unfold layerStep
    rw [f2.2 a, hcnt a]
  refine ⟨?_, hnext⟩
  have hflat : (acc ++ [last]).flatten = acc.flatten ++ last := by simp
  constructor
  · rw [hflat]
    unfold layerStep
    apply f1.congr
    intro a _
    exact hcnt a
  · rw [hflat, List.nodup_append]
    refine ⟨h.nodup, f2.1, ?_⟩
    intro a ha b hb hab
    subst hab
    have h1 := (hnext a).mp hb
    have h2 := (h.placed a h1.1).mp ha
    omega
  · intro x hx
    rw [hflat] at hx
    rcases List.mem_append.mp hx with hx | hx
    · exact h.sub_ns x hx
    · exact ((hnext x).mp hx).1
  · intro a ha
    rw [hflat, List.mem_append, hnext a, h.placed a ha]
    have hm := unvisited_mono (ch a) acc.flatten (acc.flatten ++ last) (fun x hx => List.mem_append_left _ hx)
    constructor
    · rintro (h1 | h1)
      · omega
      · exact h1.2.2
    · intro h1
      by_cases hz : unvisited (ch a) acc.flatten = 0
      · exact Or.inl hz
      · exact Or.inr ⟨ha, by omega, h1⟩
  · rw [goodFrom_append]
    refine ⟨h.good, ?_⟩
    intro a ha c hc
    simp only [List.nil_append, hflat]
    have h1 := (hnext a).mp ha
    exact (unvisited_eq_zero_iff _ _).mp h1.2.2 c hc

/-- the loop condition is false exactly when every node has been placed -/
theorem loopInv_rem_nil {ns : List α} {ch : α → List α}
    {rem : List (α × Nat)} {acc : List (List α)} {last : List α} (h : LoopInv ns ch rem acc last) :
    rem = [] ↔ ∀ a ∈ ns, a ∈ acc.flatten ++ last := by
  constructor
  · intro hr a ha
    rw [h.placed a ha]
    have := h.rem_ok.1 a ha
    rw [hr] at this
    simp only [dlookup, enc] at this
    split at this
    · assumption
    · cases this
  · intro hall
    apply eq_nil_of_dlookup_none
    intro a
    by_cases ha : a ∈ ns
    · rw [h.rem_ok.1 a ha]
      unfold enc
      rw [if_pos ((h.placed a ha).mp (hall a ha))]
    · exact h.rem_ok.2 a ha

/-- under a rank that decreases towards the children, an unfinished round places a new node -/
theorem loop_progress {ns : List α} {ch pa : α → List α} (G : GraphOK ns ch pa)
    (rk : α → Nat) (hrk : ∀ a ∈ ns, ∀ c ∈ ch a, rk c < rk a)
    {rem : List (α × Nat)} {acc : List (List α)} {last : List α} (h : LoopInv ns ch rem acc last)
    (hne : rem ≠ []) : ∃ b, b ∈ (layerStep pa rem last).2 := by
  have hex : ∃ a ∈ ns, a ∉ acc.flatten ++ last := by
    apply Classical.byContradiction
    intro hc
    apply hne
    rw [loopInv_rem_nil h]
    intro a ha
    apply Classical.byContradiction
    intro hna
    exact hc ⟨a, ha, hna⟩
  obtain ⟨a, ha, hna⟩ := hex
  -- descend to an unplaced node all of whose children are placed
  have key : ∀ n a, rk a ≤ n → a ∈ ns → a ∉ acc.flatten ++ last →
      ∃ b ∈ ns, b ∉ acc.flatten ++ last ∧ ∀ c ∈ ch b, c ∈ acc.flatten ++ last := by
    intro n
    induction n with
    | zero =>
      intro a hr ha hna
      refine ⟨a, ha, hna, ?_⟩
      intro c hc
      have := hrk a ha c hc
      omega
    | succ n ih =>
      intro a hr ha hna
      by_cases hall : ∀ c ∈ ch a, c ∈ acc.flatten ++ last
      · exact ⟨a, ha, hna, hall⟩
      · have : ∃ c ∈ ch a, c ∉ acc.flatten ++ last := by
          apply Classical.byContradiction
          intro hc
          apply hall
          intro c hcc
          apply Classical.byContradiction
          intro hn
          exact hc ⟨c, hcc, hn⟩
        obtain ⟨c, hc1, hc2⟩ := this
        have := hrk a ha c hc1
        exact ih c (by omega) (G.ch_closed a ha c hc1) hc2
  obtain ⟨b, hb1, hb2, hb3⟩ := key (rk a) a (Nat.le_refl _) ha hna
  refine ⟨b, ((loopInv_step G h).2 b).mpr ⟨hb1, ?_, ?_⟩⟩
  · have := (h.placed b hb1)
    rcases Nat.eq_zero_or_pos (unvisited (ch b) acc.flatten) with hz | hz
    · exact absurd (this.mpr hz) hb2
    · exact hz
  · exact (unvisited_eq_zero_iff _ _).mpr hb3

/-- result of the loop -/
structure LayersPost (ns : List α) (ch : α → List α) (res : List (α × Nat) × List (List α)) : Prop where
  rem_nil : res.1 = []
  nodup : res.2.flatten.Nodup
  mem_iff : ∀ x, x ∈ res.2.flatten ↔ x ∈ ns
  good : GoodFrom ch [] res.2

theorem loop_exit {ns : List α} {ch : α → List α}
    {rem : List (α × Nat)} {acc : List (List α)} {last : List α} (h : LoopInv ns ch rem acc last)
    (hr : rem = []) : LayersPost ns ch (rem, acc ++ [last]) := by
  have hflat : (acc ++ [last]).flatten = acc.flatten ++ last := by simp
  constructor
  · exact hr
  · rw [hflat]; exact h.nodup
  · intro x
    rw [hflat]
    exact ⟨h.sub_ns x, (loopInv_rem_nil h).mp hr x⟩
  · exact h.good

theorem layersLoop_spec {ns : List α} {ch pa : α → List α} (G : GraphOK ns ch pa)
    (rk : α → Nat) (hrk : ∀ a ∈ ns, ∀ c ∈ ch a, rk c < rk a) :
    ∀ (fuel : Nat) (rem : List (α × Nat)) (acc : List (List α)) (last : List α),
      LoopInv ns ch rem acc last → unvisited ns (acc.flatten ++ last) ≤ fuel →
      LayersPost ns ch (layersLoop pa fuel rem acc last) ∧
      ∀ extra, layersLoop pa (fuel + extra) rem acc last = layersLoop pa fuel rem acc last := by
  intro fuel
  induction fuel with
  | zero =>
    intro rem acc last h hf
    have hr : rem = [] := by
      rw [loopInv_rem_nil h]
      exact (unvisited_eq_zero_iff _ _).mp (by omega)
    constructor
    · simp only [layersLoop]
      exact loop_exit h hr
    · intro extra
      cases extra with
      | zero => rfl
      | succ e => simp [layersLoop, hr]
  | succ f ih =>
    intro rem acc last h hf
    by_cases hr : rem = []
    · constructor
      · simp only [layersLoop, hr, List.isEmpty_nil, ↓reduceIte]
        rw [hr] at h
        exact loop_exit h rfl
      · intro extra
        have : f + 1 + extra = (f + extra) + 1 := by omega
        rw [this]
        simp [layersLoop, hr]
    · have hne : rem.isEmpty = false := by
        cases rem with
        | nil => exact absurd rfl hr
        | cons _ _ => rfl
      obtain ⟨hstep, hnext⟩ := loopInv_step G h
      obtain ⟨b, hb⟩ := loop_progress G rk hrk h hr
      have hmeasure : unvisited ns ((acc ++ [last]).flatten ++ (layerStep pa rem last).2) ≤ f := by
        have hflat : (acc ++ [last]).flatten = acc.flatten ++ last := by simp
        rw [hflat]
        have hn := hstep.nodup
        rw [hflat, List.nodup_append] at hn
        have := unvisited_append ns (acc.flatten ++ last) (layerStep pa rem last).2 hn.2.1
          (by
            intro x hx
            exact ⟨fun hc => hn.2.2 x hc x hx rfl, ((hnext x).mp hx).1⟩)
        have hpos : 1 ≤ (layerStep pa rem last).2.length := by
          cases hl : (layerStep pa rem last).2 with
          | nil => rw [hl] at hb; simp at hb
          | cons _ _ => simp
        have hc : unvisited ns (acc.flatten ++ last ++ (layerStep pa rem last).2) =
            unvisited ns ((layerStep pa rem last).2 ++ (acc.flatten ++ last)) :=
          unvisited_congr _ _ _ (fun x _ => by
            simp only [List.mem_append]
            constructor
            · rintro ((h | h) | h)
              · exact Or.inr (Or.inl h)
              · exact Or.inr (Or.inr h)
              · exact Or.inl h
            · rintro (h | h | h)
              · exact Or.inr h
              · exact Or.inl (Or.inl h)
              · exact Or.inl (Or.inr h))
        omega
      obtain ⟨i1, i2⟩ := ih _ _ _ hstep hmeasure
      constructor
      · simp only [layersLoop, hne, Bool.false_eq_true, ↓reduceIte]
        exact i1
      · intro extra
        have : f + 1 + extra = (f + extra) + 1 := by omega
        rw [this]
        simp only [layersLoop, hne, Bool.false_eq_true, ↓reduceIte]
        exact i2 extra

theorem layersLoop_prefix (pa : α → List α) :
    ∀ (fuel : Nat) (rem : List (α × Nat)) (acc : List (List α)) (last : List α),
      ∃ more, (layersLoop pa fuel rem acc last).2 = acc ++ last :: more := by
  intro fuel
  induction fuel with
  | zero => intro rem acc last; exact ⟨[], by simp [layersLoop]⟩
  | succ f ih =>
    intro rem acc last
    simp only [layersLoop]
    split
    · exact ⟨[], by simp⟩
    · obtain ⟨more, hm⟩ := ih (layerStep pa rem last).1 (acc ++ [last]) (layerStep pa rem last).2
      exact ⟨(layerStep pa rem last).2 :: more, by rw [hm]; simp⟩

/-- bound on path lengths: a node of layer `k` has no descending path longer than `k` -/
theorem goodFrom_bound (ch : α → List α) (R : Nat → α → Prop)
    (hR : ∀ n a, R (n + 1) a → ∃ c ∈ ch a, R n c) :
    ∀ (ls : List (List α)) (pre : List α) (B : Nat), GoodFrom ch pre ls →
      (∀ x ∈ pre, ∀ n, R n x → n < B) → ∀ a ∈ ls.flatten, ∀ n, R n a → n < B + ls.length := by
  intro ls
  induction ls with
  | nil => intro pre B _ _ a ha; simp at ha
  | cons l ls ih =>
    intro pre B hg hpre a ha n hn
    obtain ⟨hl, hg'⟩ := hg
    have hlb : ∀ x ∈ l, ∀ n, R n x → n < B + 1 := by
      intro x hx n hn
      cases n with
      | zero => omega
      | succ m =>
        obtain ⟨c, hc, hcm⟩ := hR m x hn
        have := hpre c (hl x hx c hc) m hcm
        omega
    simp only [List.flatten_cons, List.mem_append] at ha
    simp only [List.length_cons]
    rcases ha with ha | ha
    · have := hlb a ha n hn
      omega
    · have := ih (pre ++ l) (B + 1) hg' (by
        intro x hx n hn
        rcases List.mem_append.mp hx with hx | hx
        · have := hpre x hx n hn; omega
        · exact hlb x hx n hn) a ha n hn
      omega


/-! ### every layer is non-empty and hangs on the previous one (⇒ a path as long as the depth) -/

/-- stated on the reversed list of layers (newest first) -/
def Tower (ch : α → List α) : List (List α) → Prop
  | [] => True
  | l :: below => l ≠ [] ∧ (∀ l' ∈ below.head?, ∀ a ∈ l, ∃ c ∈ ch a, c ∈ l') ∧ Tower ch below

theorem tower_path (ch : α → List α) (R : Nat → α → Prop) (h0 : ∀ a, R 0 a)
    (hS : ∀ n a c, c ∈ ch a → R n c → R (n + 1) a) :
    ∀ (below : List (List α)) (l : List α), Tower ch (l :: below) → ∀ a ∈ l, R below.length a := by
  intro below
  induction below with
  | nil => intro l _ a _; exact h0 a
  | cons l' below ih =>
    intro l ht a ha
    obtain ⟨_, h2, h3⟩ := ht
    obtain ⟨c, hc, hcl⟩ := h2 l' (by simp) a ha
    exact hS _ a c hc (ih l' h3 c hcl)

theorem layersLoop_tower {ns : List α} {ch pa : α → List α} (G : GraphOK ns ch pa)
    (rk : α → Nat) (hrk : ∀ a ∈ ns, ∀ c ∈ ch a, rk c < rk a) :
    ∀ (fuel : Nat) (rem : List (α × Nat)) (acc : List (List α)) (last : List α),
      LoopInv ns ch rem acc last → Tower ch (last :: acc.reverse) →
      Tower ch (layersLoop pa fuel rem acc last).2.reverse := by
  intro fuel
  induction fuel with
  | zero =>
    intro rem acc last _ ht
    simpa [layersLoop] using ht
  | succ f ih =>
    intro rem acc last h ht
    simp only [layersLoop]
    by_cases hr : rem = []
    · simpa [hr] using ht
    · have hne : rem.isEmpty = false := by
        cases rem with
        | nil => exact absurd rfl hr
        | cons _ _ => rfl
      simp only [hne, Bool.false_eq_true, ↓reduceIte]
      obtain ⟨hstep, hnext⟩ := loopInv_step G h
      obtain ⟨b, hb⟩ := loop_progress G rk hrk h hr
      apply ih _ _ _ hstep
      simp only [List.reverse_append, List.reverse_cons, List.reverse_nil, List.nil_append,
        List.cons_append]
      refine ⟨?_, ?_, ht⟩
      · intro hc; rw [hc] at hb; simp at hb
      · intro l' hl' a ha
        simp only [List.head?_cons, Option.mem_def, Option.some.injEq] at hl'
        subst hl'
        obtain ⟨_, h1, h2⟩ := (hnext a).mp ha
        have : ∃ c ∈ ch a, c ∉ acc.flatten := by
          apply Classical.byContradiction
          intro hc
          have : unvisited (ch a) acc.flatten = 0 := by
            rw [unvisited_eq_zero_iff]
            intro x hx
            apply Classical.byContradiction
            intro hn
            exact hc ⟨x, hx, hn⟩
          omega
        obtain ⟨c, hc1, hc2⟩ := this
        have := (unvisited_eq_zero_iff _ _).mp h2 c hc1
        rcases List.mem_append.mp this with h3 | h3
        · exact absurd h3 hc2
        · exact ⟨c, hc1, h3⟩

/-- a non-empty closed node set of a DAG contains a node without children -/
theorem exists_sink {ns : List α} {ch pa : α → List α} (G : GraphOK ns ch pa)
    (rk : α → Nat) (hrk : ∀ a ∈ ns, ∀ c ∈ ch a, rk c < rk a) (a : α) (ha : a ∈ ns) :
    ∃ s ∈ ns, ch s = [] := by
  have key : ∀ n a, rk a ≤ n → a ∈ ns → ∃ s ∈ ns, ch s = [] := by
    intro n
    induction n with
    | zero =>
      intro a hr ha
      refine ⟨a, ha, ?_⟩
      cases h : ch a with
      | nil => rfl
      | cons c l =>
        have := hrk a ha c (by rw [h]; simp)
        omega
    | succ n ih =>
      intro a hr ha
      cases h : ch a with
      | nil => exact ⟨a, ha, h⟩
      | cons c l =>
        have hc : c ∈ ch a := by rw [h]; simp
        have := hrk a ha c hc
        exact ih c (by omega) (G.ch_closed a ha c hc)
  exact key (rk a) a (Nat.le_refl _) ha

end EkwVerif.Presched.Aux
