/-
Bounded number of scheduling rounds (C03), part B: effect of every base step on the potential.
-/
import EkwVerif.Lemmas.SchedBoundA

set_option linter.unusedVariables false

namespace EkwVerif.Ctrl

/-- a successful `assign` pays one unit; a crashing one changes nothing -/
theorem sB_phi_assign (f : Sem) (j : Job) (cl : Cluster) (s s' : Sys) (a : Asg) (h1 : Inv1 cl s) (h2 : Inv2 j cl s)
    (hs : step f j cl s (.assign a) = some s') :
    s'.rounds = s.rounds ∧
    ((s'.phase = .crashed ∧ sB_phi j s' = sB_phi j s) ∨ (s'.phase = .assigning ∧ sB_phi j s' + 1 ≤ sB_phi j s)) := by
  simp only [step] at hs
  split at hs
  · cases hs
  rename_i hc
  have hp : s.phase = .assigning := by
    simp only [bne_iff_ne, ne_eq, Bool.or_eq_true, not_or, Decidable.not_not] at hc
    exact hc.1
  split at hs
  · cases hs
  · cases hs
    exact ⟨rfl, Or.inl ⟨rfl, rfl⟩⟩
  · rename_i c prep heq
    cases hs
    refine ⟨rfl, Or.inr ⟨hp, ?_⟩⟩
    obtain ⟨hd, hfi, hmem, hlen⟩ := sB_assignOne j cl s.ctl c a prep heq
    have hd0 := h1.once.comp a.task hmem
    have hlt := h2.comp_valid a.task hmem
    have hfr := sL_applyCmds_frame j cl (actCmds j a prep) s.env
    have hout := sB_applyCmds_out j cl (actCmds j a prep) s.env
    have hio := sB_actCmds_io j a prep
    simp only [sB_phi, hfi, hfr.1, hfr.2, hout, hd]
    have hsum := sB_sum_upd j.taskIds (sB_tw j s.ctl.dispatched s.env.ran)
      (sB_tw j (upd s.ctl.dispatched a.task (s.ctl.dispatched a.task + 1)) s.env.ran) a.task (sB_taskIds_nodup j)
      (by simp [Job.taskIds, hlt]) (by intro x hx; simp [sB_tw, upd_other _ _ _ _ hx])
    have e1 : sB_tw j s.ctl.dispatched s.env.ran a.task =
        1 + (j.inputs a.task).length + (if s.env.ran a.task = true then 0 else j.nOut a.task) := by
      simp [sB_tw, hd0]
    have e2 : sB_tw j (upd s.ctl.dispatched a.task (s.ctl.dispatched a.task + 1)) s.env.ran a.task =
        (if s.env.ran a.task = true then 0 else j.nOut a.task) := by
      simp [sB_tw]
    rw [e1, e2] at hsum
    omega

theorem sB_markDelivered_out (l : List Event) (e : Env) : (markDelivered e l).outstanding = e.outstanding := by
  induction l generalizing e with
  | nil => simp [markDelivered]
  | cons x l ih =>
    simp only [markDelivered, List.foldl_cons] at ih ⊢
    cases x <;> simp [ih]

theorem sB_phi_recv (f : Sem) (j : Job) (cl : Cluster) (s s' : Sys) (evs : List Event)
    (hs : step f j cl s (.recv evs) = some s') : s'.rounds = s.rounds ∧ sB_phi j s' + 1 ≤ sB_phi j s := by
  simp only [step] at hs
  split at hs
  · cases hs
  rename_i hc
  simp only [bne_iff_ne, ne_eq, Bool.or_eq_true, not_or, Decidable.not_not, List.isEmpty_iff] at hc
  split at hs
  · cases hs
  · rename_i pend hte
    cases hs
    refine ⟨rfl, ?_⟩
    have hl := sB_takeEvents_length evs s.env.pending pend hte
    have hfr := sL_markDelivered_frame evs { s.env with pending := pend }
    have hout := sB_markDelivered_out evs { s.env with pending := pend }
    have hpos : 0 < evs.length := by
      cases evs with
      | nil => exact absurd rfl hc.2
      | cons x l => simp
    simp only [sB_phi, hfr.1, hfr.2, hout]
    omega

theorem sB_phi_env (f : Sem) (j : Job) (cl : Cluster) (s s' : Sys) (es : EnvStep) (h1 : Inv1 cl s) (h2 : Inv2 j cl s)
    (hs : step f j cl s (.env es) = some s') : s'.rounds = s.rounds ∧ sB_phi j s' ≤ sB_phi j s := by
  simp only [step] at hs
  split at hs
  · cases hs
  rw [envStepP_eq f j s.env es h1.no_trim] at hs
  cases he : envStep f j s.env es with
  | none => simp [he] at hs
  | some e =>
    simp only [he, Option.map_some, Option.some.injEq] at hs
    subst hs
    refine ⟨rfl, ?_⟩
    cases es with
    | run w t =>
      simp only [envStep] at he
      split at he
      · rename_i hc
        cases he
        simp only [Bool.and_eq_true, List.contains_iff_mem] at hc
        have hnr := h2.queued_not_ran w t hc.1
        have pf := publishOutputs_frame f j w t ((j.inputs t).map (fun d => (s.env.present w.host d).getD ""))
          { s.env with queued := s.env.queued.erase (w, t), ran := upd s.env.ran t true }
        obtain ⟨_, _, _, h4, h5, _, _, h8⟩ := pf
        simp only [sB_phi, h4, h5, h8, List.length_append, List.length_map, Job.outputsOf, List.length_range]
        by_cases hmem : t ∈ j.taskIds
        · have hsum := sB_sum_upd j.taskIds (sB_tw j s.ctl.dispatched s.env.ran)
            (sB_tw j s.ctl.dispatched (upd s.env.ran t true)) t (sB_taskIds_nodup j) hmem
            (by intro x hx; simp [sB_tw, upd_other _ _ _ _ hx])
          have e1 : sB_tw j s.ctl.dispatched s.env.ran t =
              (if s.ctl.dispatched t = 0 then 1 + (j.inputs t).length else 0) + j.nOut t := by
            simp [sB_tw, hnr]
          have e2 : sB_tw j s.ctl.dispatched (upd s.env.ran t true) t =
              (if s.ctl.dispatched t = 0 then 1 + (j.inputs t).length else 0) := by
            simp [sB_tw]
          rw [e1, e2] at hsum
          omega
        · have hz := sB_nOut_zero j t hmem
          have hsum : (j.taskIds.map (sB_tw j s.ctl.dispatched (upd s.env.ran t true))).sum =
              (j.taskIds.map (sB_tw j s.ctl.dispatched s.env.ran)).sum := by
            apply sB_sum_congr
            intro x hx
            have hne : x ≠ t := by intro h; subst h; exact hmem hx
            simp [sB_tw, upd_other _ _ _ _ hne]
          rw [hsum, hz]
          omega
      · cases he
    | io i =>
      simp only [envStep] at he
      split at he
      · cases he
      · rename_i o ho
        have hi : i < s.env.outstanding.length := by
          rcases List.getElem?_eq_some_iff.mp ho with ⟨h, _⟩
          exact h
        have hlen := List.length_eraseIdx_of_lt hi
        cases o with
        | transmit ds src tgt =>
          dsimp only at he
          split at he
          · cases he
            simp only [sB_phi, flag_outstanding, flag_pending, flag_ran, hlen]
            omega
          · split at he
            · cases he
              simp only [sB_phi, hlen]
              omega
            · cases he
              simp only [sB_phi, hlen, List.length_append, List.length_singleton]
              omega
        | fetch ds src =>
          dsimp only at he
          split at he
          · cases he
            simp only [sB_phi, flag_outstanding, flag_pending, flag_ran, hlen]
            omega
          · cases he
            simp only [sB_phi, hlen, List.length_append, List.length_singleton]
            omega

theorem sB_phi_flushF1 (f : Sem) (j : Job) (cl : Cluster) (s s' : Sys) (h3 : Inv3 f j cl s)
    (hs : step f j cl s .flushF1 = some s') : s'.rounds = s.rounds ∧ sB_phi j s' ≤ sB_phi j s := by
  simp only [step] at hs
  split at hs
  · cases hs
  split at hs
  · cases hs
  · rename_i ds h rest hq
    cases hs
    refine ⟨rfl, ?_⟩
    have hok := h3.fetchQ_ok ds h (by rw [hq]; simp)
    have hlt := sB_unissued_lt j.ext s.ctl.fetchIssued ds hok.1 hok.2.2.1
    have hfr := sL_applyCmd_frame j cl s.env (.fetch ds h)
    have hout := sB_applyCmd_out j cl s.env (.fetch ds h)
    simp only [sB_phi, considerPurge_dispatched, considerPurge_fetchIssued, hfr.1, hfr.2, hout, sB_cmdIO]
    omega

theorem sB_phi_flushP1 (f : Sem) (j : Job) (cl : Cluster) (s s' : Sys)
    (hs : step f j cl s .flushP1 = some s') : s'.rounds = s.rounds ∧ sB_phi j s' ≤ sB_phi j s := by
  simp only [step] at hs
  split at hs
  · cases hs
  split at hs
  · cases hs
  · rename_i ds rest hq
    split at hs
    · cases hs
    · cases hs
      exact ⟨rfl, Nat.le_of_eq rfl⟩
    · rename_i c cmds hph
      cases hs
      refine ⟨rfl, ?_⟩
      have hcm := purgeHosts_cmds cl ds cl.hosts s.ctl c cmds hph
      have hd := purgeHosts_dispatched _ _ _ _ _ _ hph
      have hfi := purgeHosts_fetchIssued _ _ _ _ _ _ hph
      have hfr := sL_applyCmds_frame j cl cmds s.env
      have hout := sB_applyCmds_out j cl cmds s.env
      rw [sB_purgeCmds_io ds cmds hcm] at hout
      simp only [sB_phi, hd, hfi, hfr.1, hfr.2, hout]
      omega

theorem sB_phi_plan1 (f : Sem) (j : Job) (cl : Cluster) (s s' : Sys)
    (hs : step f j cl s .plan1 = some s') : s'.rounds = s.rounds ∧ sB_phi j s' ≤ sB_phi j s := by
  simp only [step] at hs
  split at hs
  · cases hs
  split at hs
  · cases hs
  · rename_i a prep rest hq
    split at hs
    · cases hs
    · cases hs
      exact ⟨rfl, Nat.le_of_eq rfl⟩
    · rename_i c hpl
      cases hs
      refine ⟨rfl, Nat.le_of_eq ?_⟩
      exact sB_phi_congr j _ _ (planOne_frames j s.ctl c a prep hpl).2.1 rfl rfl rfl (sB_planOne j s.ctl c a prep hpl)

theorem sB_phi_notify1 (f : Sem) (j : Job) (cl : Cluster) (s s' : Sys)
    (hs : step f j cl s .notify1 = some s') : s'.rounds = s.rounds ∧ sB_phi j s' ≤ sB_phi j s := by
  simp only [step] at hs
  split at hs
  · cases hs
  split at hs
  · cases hs
  · rename_i ev rest hq
    split at hs
    · cases hs
    · cases hs
      exact ⟨rfl, Nat.le_of_eq rfl⟩
    · rename_i c hn
      cases hs
      refine ⟨rfl, Nat.le_of_eq ?_⟩
      exact sB_phi_congr j _ _ (notifyEvent_workers j s.ctl c ev hn).1 rfl rfl rfl (sB_notifyEvent j s.ctl c ev hn)

/-- the steps that only move the control point -/
theorem sB_phi_control (f : Sem) (j : Job) (cl : Cluster) (s s' : Sys) (st : Step)
    (hst : st = .enter ∨ st = .endAssign ∨ st = .endPlan ∨ st = .endFlushF ∨ st = .endNotify)
    (hs : step f j cl s st = some s') : s'.rounds = s.rounds ∧ sB_phi j s' ≤ sB_phi j s := by
  rcases hst with rfl | rfl | rfl | rfl | rfl
  · simp only [step] at hs
    split at hs
    · cases hs
    split at hs <;> (cases hs; exact ⟨rfl, Nat.le_of_eq rfl⟩)
  all_goals
    simp only [step] at hs
    split at hs
    · cases hs
    · cases hs; exact ⟨rfl, Nat.le_of_eq rfl⟩

theorem sB_phi_endFlush (f : Sem) (j : Job) (cl : Cluster) (s s' : Sys)
    (hs : step f j cl s .endFlush = some s') : s'.rounds = s.rounds + 1 ∧ sB_phi j s' = sB_phi j s := by
  simp only [step] at hs
  split at hs
  · cases hs
  · cases hs; exact ⟨rfl, rfl⟩

/-- **no base step other than `endFlush` changes `rounds`, and none increases the potential** -/
theorem sB_phi_step (f : Sem) (j : Job) (cl : Cluster) (s s' : Sys) (st : Step) (hA : InvAll f j cl s)
    (hs : step f j cl s st = some s') :
    sB_phi j s' ≤ sB_phi j s ∧ (s'.rounds = s.rounds ∨ (st = .endFlush ∧ s'.rounds = s.rounds + 1)) := by
  cases st with
  | enter => have := sB_phi_control f j cl s s' _ (by simp) hs; exact ⟨this.2, Or.inl this.1⟩
  | assign a =>
    have := sB_phi_assign f j cl s s' a hA.h1 hA.h2 hs
    refine ⟨?_, Or.inl this.1⟩
    rcases this.2 with ⟨_, h⟩ | ⟨_, h⟩ <;> omega
  | endAssign => have := sB_phi_control f j cl s s' _ (by simp) hs; exact ⟨this.2, Or.inl this.1⟩
  | plan1 => have := sB_phi_plan1 f j cl s s' hs; exact ⟨this.2, Or.inl this.1⟩
  | endPlan => have := sB_phi_control f j cl s s' _ (by simp) hs; exact ⟨this.2, Or.inl this.1⟩
  | flushF1 => have := sB_phi_flushF1 f j cl s s' hA.h3 hs; exact ⟨this.2, Or.inl this.1⟩
  | endFlushF => have := sB_phi_control f j cl s s' _ (by simp) hs; exact ⟨this.2, Or.inl this.1⟩
  | flushP1 => have := sB_phi_flushP1 f j cl s s' hs; exact ⟨this.2, Or.inl this.1⟩
  | endFlush => have := sB_phi_endFlush f j cl s s' hs; exact ⟨Nat.le_of_eq this.2, Or.inr ⟨rfl, this.1⟩⟩
  | recv evs => have := sB_phi_recv f j cl s s' evs hs; exact ⟨by omega, Or.inl this.1⟩
  | notify1 => have := sB_phi_notify1 f j cl s s' hs; exact ⟨this.2, Or.inl this.1⟩
  | endNotify => have := sB_phi_control f j cl s s' _ (by simp) hs; exact ⟨this.2, Or.inl this.1⟩
  | env es => have := sB_phi_env f j cl s s' es hA.h1 hA.h2 hs; exact ⟨this.2, Or.inl this.1⟩

end EkwVerif.Ctrl
