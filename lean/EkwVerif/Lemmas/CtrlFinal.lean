/-
Small facts about the control skeleton of `impl.run` used by the property theorems:
which messages a crash can carry, how often `shutdown` is issued, what holds when the loop exits.
-/
import EkwVerif.Lemmas.CtrlInvAll

namespace EkwVerif.Ctrl

/-- the exception messages the modelled bookkeeping can raise -/
def crashMsgs : List String :=
  ["ValueError: dataset not found in any host", "KeyError: purging_tracker[prep] in plan", "ValueError: double add",
   "KeyError: host2ds pop", "KeyError: purging_tracker removal", "ValueError: removal from ongoing impossible"]

structure InvF (j : Job) (s : Sys) : Prop where
  shut : s.shutdowns = (if s.phase = .finished ∨ s.phase = .crashed then 1 else 0)
  err_phase : s.err.isSome = true ↔ s.phase = .crashed
  err_msg : ∀ e, s.err = some e → e ∈ crashMsgs
  fin : s.phase = .finished → s.ctl.hasComputable = false ∧ s.ctl.hasAwaitable j = false

theorem completeInputs_err' (j : Job) (task : Task) (l : List Ds) (c0 : Ctl) (e : Err)
    (h0 : completeInputs j task c0 l = .error e) : e = .raised "KeyError: purging_tracker removal" := by
  induction l generalizing c0 with
  | nil => simp [completeInputs] at h0
  | cons x l ih =>
    unfold completeInputs at h0
    split at h0
    · exact ih _ h0
    · simp only [Except.error.injEq] at h0; exact h0.symm

theorem notifyEvent_err' (j : Job) (c : Ctl) (ev : Event) (e : String)
    (h : notifyEvent j c ev = .error (.raised e)) :
    e = "KeyError: purging_tracker removal" ∨ e = "ValueError: removal from ongoing impossible" := by
  cases ev with
  | payload ds v => simp [notifyEvent] at h
  | pubT a ds => simp [notifyEvent] at h
  | pubW w ds =>
    simp only [notifyEvent] at h
    split at h
    · split at h
      · rename_i e2 hci
        simp only [Except.error.injEq] at h
        subst h
        have := completeInputs_err' _ _ _ _ _ hci
        simp only [Err.raised.injEq] at this
        exact Or.inl this
      · split at h
        · cases h
        · simp only [Except.error.injEq, Err.raised.injEq] at h; exact Or.inr h.symm
    · cases h

theorem invF_init (j : Job) (cl : Cluster) : InvF j (Sys.init j cl) := by
  refine ⟨by simp [Sys.init], by simp [Sys.init], by simp [Sys.init], by simp [Sys.init]⟩

theorem invF_crash (j : Job) (s : Sys) (e : String) (h : InvF j s) (hp : s.phase ≠ .finished) (hp2 : s.phase ≠ .crashed)
    (he : e ∈ crashMsgs) : InvF j (s.crash e) := by
  refine ⟨?_, by simp [Sys.crash], ?_, by simp [Sys.crash]⟩
  · have := h.shut
    simp only [hp, hp2, or_self, ↓reduceIte] at this
    simp [Sys.crash, this]
  · intro e' he'; simp only [Sys.crash, Option.some.injEq] at he'; subst he'; exact he

/-- a step that keeps `err` and `shutdowns` and moves between non-terminal phases -/
theorem invF_keep (j : Job) (s s' : Sys) (h : InvF j s) (hp : s.phase ≠ .finished) (hp2 : s.phase ≠ .crashed)
    (hp' : s'.phase ≠ .finished) (hp2' : s'.phase ≠ .crashed) (he : s'.err = s.err) (hsd : s'.shutdowns = s.shutdowns) :
    InvF j s' := by
  refine ⟨?_, ?_, ?_, fun hf => absurd hf hp'⟩
  · have := h.shut
    simp only [hp, hp2, or_self, ↓reduceIte] at this
    simp [hp', hp2', hsd, this]
  · rw [he]
    constructor
    · intro hx; exact absurd (h.err_phase.mp hx) hp2
    · intro hx; exact absurd hx hp2'
  · intro e hx; rw [he] at hx; exact h.err_msg e hx

theorem invF_step (f : Sem) (j : Job) (cl : Cluster) (s s' : Sys) (st : Step) (h : InvF j s)
    (hs : step f j cl s st = some s') : InvF j s' := by
  cases st with
  | enter =>
    simp only [step] at hs
    split at hs; · cases hs
    rename_i hp
    have hp' : s.phase = .top := by simpa using hp
    split at hs
    · rename_i hc
      cases hs
      have hsd := h.shut
      simp only [hp', reduceCtorEq, or_self, ↓reduceIte] at hsd
      refine ⟨by simp [hsd], ?_, h.err_msg, ?_⟩
      · constructor
        · intro hx; have := h.err_phase.mp hx; rw [hp'] at this; cases this
        · intro hx; cases hx
      · intro _
        simp only [Bool.not_eq_true', Bool.or_eq_false_iff] at hc
        exact hc
    · cases hs
      exact invF_keep j s _ h (by simp [hp']) (by simp [hp']) (by simp) (by simp) rfl rfl
  | assign a =>
    simp only [step] at hs
    split at hs; · cases hs
    rename_i hc
    have hp : s.phase = .assigning := by
      simp only [bne_iff_ne, ne_eq, Bool.or_eq_true, not_or, Decidable.not_not] at hc; simpa using hc.1
    split at hs
    · cases hs
    · rename_i e he
      cases hs
      have := i2a_assignOne_err j cl s.ctl a e he
      exact invF_crash j s e h (by simp [hp]) (by simp [hp]) (by subst this; simp [crashMsgs])
    · cases hs
      exact invF_keep j s _ h (by simp [hp]) (by simp [hp]) (by simp [hp]) (by simp [hp]) rfl rfl
  | endAssign =>
    simp only [step] at hs
    split at hs; · cases hs
    rename_i hc
    have hp : s.phase = .assigning := by simpa using hc
    cases hs
    exact invF_keep j s _ h (by simp [hp]) (by simp [hp]) (by simp) (by simp) rfl rfl
  | plan1 =>
    simp only [step] at hs
    split at hs; · cases hs
    rename_i hc
    have hp : s.phase = .planning := by simpa using hc
    split at hs
    · cases hs
    · rename_i a prep rest htd
      split at hs
      · cases hs
      · rename_i e he
        cases hs
        have := i2a_planOne_err j s.ctl a prep (.raised e) he
        refine invF_crash j s e h (by simp [hp]) (by simp [hp]) ?_
        rcases this with ⟨_, h1⟩ | h1
        · simp only [Err.raised.injEq] at h1; subst h1; simp [crashMsgs]
        · simp only [Err.raised.injEq] at h1; subst h1; simp [crashMsgs]
      · cases hs
        exact invF_keep j s _ h (by simp [hp]) (by simp [hp]) (by simp [hp]) (by simp [hp]) rfl rfl
  | endPlan =>
    simp only [step] at hs
    split at hs; · cases hs
    rename_i hc
    have hp : s.phase = .planning := by
      simp only [bne_iff_ne, ne_eq, Bool.or_eq_true, not_or, Decidable.not_not] at hc; simpa using hc.1
    cases hs
    exact invF_keep j s _ h (by simp [hp]) (by simp [hp]) (by simp) (by simp) rfl rfl
  | flushF1 =>
    simp only [step] at hs
    split at hs; · cases hs
    rename_i hc
    have hp : s.phase = .flushF := by simpa using hc
    split at hs
    · cases hs
    · cases hs
      exact invF_keep j s _ h (by simp [hp]) (by simp [hp]) (by simp [hp]) (by simp [hp]) rfl rfl
  | endFlushF =>
    simp only [step] at hs
    split at hs; · cases hs
    rename_i hc
    have hp : s.phase = .flushF := by
      simp only [bne_iff_ne, ne_eq, Bool.or_eq_true, not_or, Decidable.not_not] at hc; simpa using hc.1
    cases hs
    exact invF_keep j s _ h (by simp [hp]) (by simp [hp]) (by simp) (by simp) rfl rfl
  | flushP1 =>
    simp only [step] at hs
    split at hs; · cases hs
    rename_i hc
    have hp : s.phase = .flushP := by simpa using hc
    split at hs
    · cases hs
    · split at hs
      · cases hs
      · rename_i e he
        cases hs
        have := purgeHosts_err _ _ _ _ _ he
        simp only [Err.raised.injEq] at this
        exact invF_crash j s e h (by simp [hp]) (by simp [hp]) (by subst this; simp [crashMsgs])
      · cases hs
        exact invF_keep j s _ h (by simp [hp]) (by simp [hp]) (by simp [hp]) (by simp [hp]) rfl rfl
  | endFlush =>
    simp only [step] at hs
    split at hs; · cases hs
    rename_i hc
    have hp : s.phase = .flushP := by
      simp only [bne_iff_ne, ne_eq, Bool.or_eq_true, not_or, Decidable.not_not] at hc; simpa using hc.1
    cases hs
    refine invF_keep j s _ h (by simp [hp]) (by simp [hp]) ?_ ?_ rfl rfl
    · simp only; split <;> simp
    · simp only; split <;> simp
  | recv evs =>
    simp only [step] at hs
    split at hs; · cases hs
    rename_i hc
    have hp : s.phase = .waiting := by
      simp only [bne_iff_ne, ne_eq, Bool.or_eq_true, not_or, Decidable.not_not] at hc; simpa using hc.1
    split at hs
    · cases hs
    · cases hs
      exact invF_keep j s _ h (by simp [hp]) (by simp [hp]) (by simp) (by simp) rfl rfl
  | notify1 =>
    simp only [step] at hs
    split at hs; · cases hs
    rename_i hc
    have hp : s.phase = .notifying := by simpa using hc
    split at hs
    · cases hs
    · rename_i ev rest hib
      split at hs
      · cases hs
      · rename_i e he
        cases hs
        have := notifyEvent_err' j s.ctl ev e he
        have hk : InvF j { s with inbox := rest } :=
          invF_keep j s _ h (by simp [hp]) (by simp [hp]) (by simp [hp]) (by simp [hp]) rfl rfl
        refine invF_crash j _ e hk (by simp [hp]) (by simp [hp]) ?_
        rcases this with rfl | rfl <;> simp [crashMsgs]
      · cases hs
        exact invF_keep j s _ h (by simp [hp]) (by simp [hp]) (by simp [hp]) (by simp [hp]) rfl rfl
  | endNotify =>
    simp only [step] at hs
    split at hs; · cases hs
    rename_i hc
    have hp : s.phase = .notifying := by
      simp only [bne_iff_ne, ne_eq, Bool.or_eq_true, not_or, Decidable.not_not] at hc; simpa using hc.1
    cases hs
    exact invF_keep j s _ h (by simp [hp]) (by simp [hp]) (by simp) (by simp) rfl rfl
  | env es =>
    simp only [step] at hs
    split at hs; · cases hs
    rename_i hc
    simp only [Bool.or_eq_true, beq_iff_eq, not_or] at hc
    cases he : envStepP f j s.env es with
    | none => simp [he] at hs
    | some e' =>
      simp only [he, Option.map_some, Option.some.injEq] at hs
      subst hs
      exact invF_keep j s _ h hc.1 hc.2 hc.1 hc.2 rfl rfl

theorem invF_reachable (f : Sem) (j : Job) (cl : Cluster) (s : Sys) (hr : Reachable f j cl s) : InvF j s := by
  induction hr with
  | init => exact invF_init j cl
  | step s s' st _ hs ih => exact invF_step f j cl s s' st ih hs

end EkwVerif.Ctrl
