/-
Helper lemmas for C07 (Model/Transfer.lean): association lists, counting lemmas for futures / executor
socket / failure reports, the safety invariant `Inv` (13 conjuncts) and its preservation by every micro
step (pool jobs stage by stage, with faults; the executor's step), byte consistency `Cons`, the `Summary`
of what a step may add to the trace and the monotonicity facts used by the split-history theorems, and
the refinement of operations to micro steps (incl. "a pending job is finished after at most three stages").
-/
import EkwVerif.Model.Transfer

namespace EkwVerif.Transfer
namespace Aux

/-! ### association lists -/

theorem lookup_mem {β : Type} (l : List (Nat × β)) (x : Nat) (v : β) (h : lookup l x = some v) : (x, v) ∈ l := by
  induction l with
  | nil => simp [lookup] at h
  | cons e l ih =>
    obtain ⟨k, b⟩ := e
    by_cases hk : k = x
    · simp [lookup, hk] at h; subst hk; subst h; simp
    · simp [lookup, hk] at h; exact List.mem_cons_of_mem _ (ih h)

theorem lookup_append_none {β : Type} (l : List (Nat × β)) (x y : Nat) (v : β) (h : lookup l x = none) :
    lookup (l ++ [(y, v)]) x = if y = x then some v else none := by
  induction l with
  | nil => simp [lookup]
  | cons e l ih =>
    obtain ⟨k, b⟩ := e
    by_cases hk : k = x
    · simp [lookup, hk] at h
    · simp [lookup, hk] at h ⊢; exact ih h

theorem lookup_append_some {β : Type} (l : List (Nat × β)) (x y : Nat) (v u : β) (h : lookup l x = some u) :
    lookup (l ++ [(y, v)]) x = some u := by
  induction l with
  | nil => simp [lookup] at h
  | cons e l ih =>
    obtain ⟨k, b⟩ := e
    by_cases hk : k = x
    · simp [lookup, hk] at h ⊢; exact h
    · simp [lookup, hk] at h ⊢; exact ih h

theorem lookup_eraseA_self {β : Type} (l : List (Nat × β)) (x : Nat) : lookup (eraseA l x) x = none := by
  induction l with
  | nil => simp [eraseA, lookup]
  | cons e l ih =>
    obtain ⟨k, b⟩ := e
    by_cases hk : k = x
    · simpa [eraseA, hk] using ih
    · simpa [eraseA, hk, lookup] using ih

theorem lookup_eraseA_ne {β : Type} (l : List (Nat × β)) (x y : Nat) (hxy : x ≠ y) :
    lookup (eraseA l x) y = lookup l y := by
  induction l with
  | nil => simp [eraseA, lookup]
  | cons e l ih =>
    obtain ⟨k, b⟩ := e
    by_cases hk : k = x
    · subst hk; simpa [eraseA, lookup, hxy] using ih
    · by_cases hy : k = y
      · subst hy; simp [eraseA, List.filter_cons, hk, lookup]
      · simpa [eraseA, hk, lookup, hy] using ih

theorem lookup_none_copies (s : List (Nat × String × String)) (ds : Nat) (h : lookup s ds = none) : copies s ds = 0 := by
  induction s with
  | nil => simp [copies]
  | cons e l ih =>
    obtain ⟨k, b⟩ := e
    by_cases hk : k = ds
    · simp [lookup, hk] at h
    · simp [lookup, hk] at h; simpa [copies, hk] using ih h

theorem copies_append (s : List (Nat × String × String)) (ds d : Nat) (v : String × String) :
    copies (s ++ [(d, v)]) ds = copies s ds + (if d = ds then 1 else 0) := by
  by_cases h : d = ds <;> simp [copies, List.filter_append, h]

theorem copies_eraseA_le (s : List (Nat × String × String)) (x ds : Nat) : copies (eraseA s x) ds ≤ copies s ds := by
  unfold copies eraseA
  exact List.Sublist.length_le (List.Sublist.filter _ List.filter_sublist)

theorem mem_eraseA {β : Type} (l : List (Nat × β)) (x : Nat) (e : Nat × β) (h : e ∈ eraseA l x) : e ∈ l := by
  simp [eraseA] at h; exact h.1

theorem mem_insertS {α : Type} [DecidableEq α] (l : List α) (x y : α) : y ∈ insertS l x ↔ y ∈ l ∨ y = x := by
  unfold insertS
  by_cases h : x ∈ l
  · simp [h]; intro hy; subst hy; exact h
  · simp [h]

/-! ### counting -/

theorem countP_set_add {α : Type} (p : α → Bool) (l : List α) (i : Nat) (a b : α) (h : l[i]? = some a) :
    (l.set i b).countP p + (if p a then 1 else 0) = l.countP p + (if p b then 1 else 0) := by
  induction l generalizing i with
  | nil => simp at h
  | cons x xs ih =>
    cases i with
    | zero =>
      simp at h; subst h
      simp only [List.set_cons_zero, List.countP_cons]; omega
    | succ i =>
      have h' : xs[i]? = some a := by simpa using h
      have := ih i h'
      simp only [List.set_cons_succ, List.countP_cons]; omega

theorem countP_futFails (P : Event → Bool) (h : Nat) (ks : List Key) (log : List Event)
    (hP : ∀ k, P (.futFail h k) = false) :
    ((ks.map (Event.futFail h)).reverse ++ log).countP P = log.countP P := by
  rw [List.countP_append]
  have : ((ks.map (Event.futFail h)).reverse).countP P = 0 := by
    rw [List.countP_eq_zero]
    intro e he
    simp at he
    obtain ⟨k, _, rfl⟩ := he
    simp [hP]
  omega

theorem pubPending_fails (mbox : List EMsg) (n : List Key) (ds : Nat) :
    pubPending (mbox ++ n.map (fun _ => EMsg.fail)) ds = pubPending mbox ds := by
  unfold pubPending
  rw [List.countP_append]
  induction n with
  | nil => simp
  | cons k ks ih => simpa [List.countP_cons] using ih

theorem pubPending_append (mbox : List EMsg) (m : EMsg) (ds : Nat) :
    pubPending (mbox ++ [m]) ds = pubPending mbox ds + (match m with | .pub d _ => if d = ds then 1 else 0 | _ => 0) := by
  unfold pubPending
  cases m <;> simp [List.countP_append, List.countP_cons]

theorem failPending_append (mbox : List EMsg) (m : EMsg) :
    failPending (mbox ++ [m]) = failPending mbox + (match m with | .fail => 1 | _ => 0) := by
  unfold failPending
  cases m <;> simp [List.countP_append, List.countP_cons]

theorem failPending_fails (mbox : List EMsg) (n : List Key) :
    failPending (mbox ++ n.map (fun _ => EMsg.fail)) = failPending mbox + n.length := by
  unfold failPending
  rw [List.countP_append]
  congr 1
  induction n with
  | nil => simp
  | cons k ks ih => simp only [List.map_cons, List.countP_cons, List.length_cons, ih]; simp

theorem failCnt_futFails (h k : Nat) (ks : List Key) (log : List Event) :
    failCnt ((ks.map (Event.futFail h)).reverse ++ log) k = failCnt log k + (if h = k then ks.length else 0) := by
  unfold failCnt
  rw [List.countP_append, List.countP_reverse]
  induction ks with
  | nil => simp
  | cons x xs ih =>
    simp only [List.map_cons, List.countP_cons, List.length_cons] at ih ⊢
    by_cases hk : h = k <;> simp [hk] at ih ⊢ <;> omega

theorem lastEx_append (evs log : List Event) (h ds : Nat)
    (hev : ∀ e ∈ evs, match e with | .ctrlPub .. => False | .purgeFwd .. => False | _ => True) :
    lastEx (evs ++ log) h ds = lastEx log h ds := by
  induction evs with
  | nil => rfl
  | cons e es ih =>
    have he := hev e (by simp)
    have hes := ih (fun x hx => hev x (by simp [hx]))
    cases e <;> simp at he <;> simpa [lastEx] using hes

/-! ### the safety invariant -/

def hadN (had : Nat → Nat → Bool) (h ds : Nat) : Nat := if had h ds then 1 else 0

/-- `had h ds` = host `h` held `ds` before the history started. -/
structure Inv (had : Nat → Nat → Bool) (w : World) : Prop where
  cnt_le : ∀ h ds, storedCnt w.log h ds + hadN had h ds ≤ 1
  cnt_has : ∀ h ds, 0 < storedCnt w.log h ds + hadN had h ds →
      (lookup (w.hosts h).store ds).isSome ∨ ds ∈ (w.hosts h).invalid
  inv_nofut : ∀ h ds, ds ∈ (w.hosts h).invalid → ∀ f ∈ (w.hosts h).futs, f.key.ds = ds → f.result ≠ none
  inv_nostore : ∀ h ds, ds ∈ (w.hosts h).invalid → lookup (w.hosts h).store ds = none
  ann_bal : ∀ h ds, storedCnt w.log h ds =
      annCnt w.log h ds + annFailCnt w.log h ds + (w.hosts h).futs.countP (atStage2 ds)
  copies_le : ∀ h ds, copies (w.hosts h).store ds ≤ 1
  purge_ok : ∀ h ds k, Event.purged h ds k ∈ w.log → k = 0
  purged_inv : ∀ h ds k, Event.purged h ds k ∈ w.log → ds ∈ (w.hosts h).invalid
  alloc_nostore : ∀ h ds, ds ∈ (w.hosts h).allocd → lookup (w.hosts h).store ds = none
  st1_le : ∀ h ds, (w.hosts h).futs.countP (atStage1 ds) ≤ (if ds ∈ (w.hosts h).allocd then 1 else 0)
  pub_bal : ∀ h ds, ctrlPubCnt w.log h ds + pubPending (w.hosts h).mbox ds = annCnt w.log h ds
  fail_bal : ∀ h, ctrlFailCnt w.log h + failPending (w.hosts h).mbox = failCnt w.log h
  pub_hist : ∀ h ds b, lastEx w.log h ds = some b → (ds ∈ (w.hosts h).published ↔ b = true)

/-- events that do not touch the counters of `Inv` -/
def Neutral : Event → Prop
  | .stored .. => False
  | .announced .. => False
  | .purged .. => False
  | .storeFail .. => False
  | .ctrlPub .. => False
  | .sendFail .. => False
  | .futFail .. => False
  | .ctrlFail .. => False
  | .purgeFwd .. => False
  | _ => True

theorem inv_frame {had : Nat → Nat → Bool} {w w' : World} (hi : Inv had w)
    (hstore : ∀ h, (w'.hosts h).store = (w.hosts h).store)
    (hinv : ∀ h, (w'.hosts h).invalid = (w.hosts h).invalid)
    (halloc : ∀ h, (w'.hosts h).allocd = (w.hosts h).allocd)
    (hfut : ∀ h f, f ∈ (w'.hosts h).futs → f.result = none →
        ((∃ g ∈ (w.hosts h).futs, g.key = f.key ∧ g.result = none) ∨ f.key.ds ∉ (w.hosts h).invalid))
    (hc1 : ∀ h ds, (w'.hosts h).futs.countP (atStage1 ds) ≤ (w.hosts h).futs.countP (atStage1 ds))
    (hst : ∀ h ds, storedCnt w'.log h ds = storedCnt w.log h ds)
    (hbal : ∀ h ds, annCnt w'.log h ds + annFailCnt w'.log h ds + (w'.hosts h).futs.countP (atStage2 ds) =
        annCnt w.log h ds + annFailCnt w.log h ds + (w.hosts h).futs.countP (atStage2 ds))
    (hpb : ∀ h ds, ctrlPubCnt w'.log h ds + pubPending (w'.hosts h).mbox ds + annCnt w.log h ds =
        ctrlPubCnt w.log h ds + pubPending (w.hosts h).mbox ds + annCnt w'.log h ds)
    (hfb : ∀ h, ctrlFailCnt w'.log h + failPending (w'.hosts h).mbox + failCnt w.log h =
        ctrlFailCnt w.log h + failPending (w.hosts h).mbox + failCnt w'.log h)
    (hpubl : ∀ h, (w'.hosts h).published = (w.hosts h).published)
    (hlast : ∀ h ds, lastEx w'.log h ds = lastEx w.log h ds)
    (hpu : ∀ h ds k, Event.purged h ds k ∈ w'.log → Event.purged h ds k ∈ w.log) : Inv had w' := by
  refine ⟨?_, ?_, ?_, ?_, ?_, ?_, ?_, ?_, ?_, ?_, ?_, ?_, ?_⟩
  · intro h ds; rw [hst]; exact hi.cnt_le h ds
  · intro h ds; rw [hst, hstore, hinv]; exact hi.cnt_has h ds
  · intro h ds hd f hf hk hr
    rw [hinv] at hd
    rcases hfut h f hf hr with ⟨g, hg, hgk, hgr⟩ | h1
    · exact hi.inv_nofut h ds hd g hg (by rw [hgk]; exact hk) hgr
    · rw [hk] at h1; exact h1 hd
  · intro h ds hd; rw [hinv] at hd; rw [hstore]; exact hi.inv_nostore h ds hd
  · intro h ds; rw [hst, hbal]; exact hi.ann_bal h ds
  · intro h ds; rw [hstore]; exact hi.copies_le h ds
  · intro h ds k hk; exact hi.purge_ok h ds k (hpu h ds k hk)
  · intro h ds k hk; rw [hinv]; exact hi.purged_inv h ds k (hpu h ds k hk)
  · intro h ds hd; rw [halloc] at hd; rw [hstore]; exact hi.alloc_nostore h ds hd
  · intro h ds; rw [halloc]; exact Nat.le_trans (hc1 h ds) (hi.st1_le h ds)
  · intro h ds; have := hpb h ds; have := hi.pub_bal h ds; omega
  · intro h; have := hfb h; have := hi.fail_bal h; omega
  · intro h ds b hb; rw [hlast] at hb; rw [hpubl]; exact hi.pub_hist h ds b hb

theorem neutral_counts (e : Event) (log : List Event) (hn : Neutral e) :
    (∀ h ds, storedCnt (e :: log) h ds = storedCnt log h ds) ∧
    (∀ h ds, annCnt (e :: log) h ds = annCnt log h ds) ∧
    (∀ h ds, annFailCnt (e :: log) h ds = annFailCnt log h ds) ∧
    (∀ h ds, ctrlPubCnt (e :: log) h ds = ctrlPubCnt log h ds) ∧
    (∀ h ds k, Event.purged h ds k ∈ e :: log → Event.purged h ds k ∈ log) ∧
    (∀ h, failCnt (e :: log) h = failCnt log h) ∧
    (∀ h, ctrlFailCnt (e :: log) h = ctrlFailCnt log h) ∧
    (∀ h ds, lastEx (e :: log) h ds = lastEx log h ds) := by
  cases e <;> simp [Neutral] at hn <;> simp [storedCnt, annCnt, annFailCnt, ctrlPubCnt, failCnt, ctrlFailCnt, lastEx]

/-- frame lemma for steps that leave stores, invalid sets, allocations, futures, the executor and the counters alone -/
theorem inv_same {had : Nat → Nat → Bool} {w w' : World} (hi : Inv had w)
    (hstore : ∀ h, (w'.hosts h).store = (w.hosts h).store)
    (hinv : ∀ h, (w'.hosts h).invalid = (w.hosts h).invalid)
    (halloc : ∀ h, (w'.hosts h).allocd = (w.hosts h).allocd)
    (hfut : ∀ h, (w'.hosts h).futs = (w.hosts h).futs)
    (hmb : ∀ h, (w'.hosts h).mbox = (w.hosts h).mbox)
    (hpubl : ∀ h, (w'.hosts h).published = (w.hosts h).published)
    (hlog : w'.log = w.log ∨ ∃ e, Neutral e ∧ w'.log = e :: w.log) : Inv had w' := by
  have hc : (∀ h ds, storedCnt w'.log h ds = storedCnt w.log h ds) ∧
      (∀ h ds, annCnt w'.log h ds = annCnt w.log h ds) ∧
      (∀ h ds, annFailCnt w'.log h ds = annFailCnt w.log h ds) ∧
      (∀ h ds, ctrlPubCnt w'.log h ds = ctrlPubCnt w.log h ds) ∧
      (∀ h ds k, Event.purged h ds k ∈ w'.log → Event.purged h ds k ∈ w.log) ∧
      (∀ h, failCnt w'.log h = failCnt w.log h) ∧
      (∀ h, ctrlFailCnt w'.log h = ctrlFailCnt w.log h) ∧
      (∀ h ds, lastEx w'.log h ds = lastEx w.log h ds) := by
    rcases hlog with hl | ⟨e, hn, hl⟩
    · rw [hl]; exact ⟨fun _ _ => rfl, fun _ _ => rfl, fun _ _ => rfl, fun _ _ => rfl, fun _ _ _ h => h,
        fun _ => rfl, fun _ => rfl, fun _ _ => rfl⟩
    · rw [hl]; exact neutral_counts e w.log hn
  refine inv_frame hi hstore hinv halloc ?_ ?_ hc.1 ?_ ?_ ?_ hpubl hc.2.2.2.2.2.2.2 hc.2.2.2.2.1
  · intro h f hf hr; left; rw [hfut] at hf; exact ⟨f, hf, rfl, hr⟩
  · intro h ds; rw [hfut]; exact Nat.le_refl _
  · intro h ds; rw [hfut, hc.2.1, hc.2.2.1]
  · intro h ds; rw [hc.2.2.2.1, hc.2.1, hmb]
  · intro h; rw [hc.2.2.2.2.2.1, hc.2.2.2.2.2.2.1, hmb]

theorem inv_advance {had} (d : Nat) {w : World} (hi : Inv had w) : Inv had (advance d w) :=
  inv_same hi (fun _ => rfl) (fun _ => rfl) (fun _ => rfl) (fun _ => rfl) (fun _ => rfl) (fun _ => rfl) (Or.inl rfl)

theorem inv_drop {had} (i : Nat) {w : World} (hi : Inv had w) : Inv had (dropFrame i w) :=
  inv_same hi (fun _ => rfl) (fun _ => rfl) (fun _ => rfl) (fun _ => rfl) (fun _ => rfl) (fun _ => rfl) (Or.inl rfl)

/-- closes `Inv had w'` when `w'` differs from `w` only outside stores / invalid / allocd / futs / counters -/
macro "frame_same" hi:ident : tactic => `(tactic|
  first
  | exact $hi
  | (apply inv_same $hi <;> intros <;> (try simp [World.setHost, World.emit, World.crash, World.report, Neutral]) <;>
      (try split) <;> (try simp_all)))

theorem inv_deliver {had} (i : Nat) (dup : Bool) {w : World} (hi : Inv had w) : Inv had (deliver i dup w) := by
  unfold deliver
  cases dup <;> simp only [] <;> split <;> (try split) <;> frame_same hi

theorem inv_inject {had} (h : Nat) (m : Msg) {w : World} (hi : Inv had w) : Inv had (inject h m w) := by
  unfold inject
  split <;> (try split) <;> frame_same hi

theorem inv_recvOne {had} (h : Nat) {w : World} (hi : Inv had w) : Inv had (recvOne h w).1 := by
  unfold recvOne
  simp only
  split
  · exact hi
  · split
    · exact hi
    · frame_same hi
    · split <;> frame_same hi

theorem inv_ctrlRecv {had} (i : Nat) (dup : Bool) {w : World} (hi : Inv had w) : Inv had (ctrlRecv i dup w) := by
  unfold ctrlRecv
  cases dup <;> simp only [] <;> split <;> (try split) <;> frame_same hi

/-! ### futures -/

theorem atStage1_done (ds : Nat) (k : Key) (st : Nat) (r : Res) : atStage1 ds ⟨k, st, some r⟩ = false := by
  cases k <;> rfl
theorem atStage2_done (ds : Nat) (k : Key) (st : Nat) (r : Res) : atStage2 ds ⟨k, st, some r⟩ = false := by
  cases k <;> rfl
theorem atStage1_cmd (ds : Nat) (c : Cmd) (st : Nat) (r : Option Res) : atStage1 ds ⟨.cmd c, st, r⟩ = false := rfl
theorem atStage2_cmd (ds : Nat) (c : Cmd) (st : Nat) (r : Option Res) : atStage2 ds ⟨.cmd c, st, r⟩ = false := rfl
theorem atStage1_zero (ds : Nat) (k : Key) (r : Option Res) : atStage1 ds ⟨k, 0, r⟩ = false := by
  cases k <;> cases r <;> simp [atStage1]
theorem atStage2_zero (ds : Nat) (k : Key) (r : Option Res) : atStage2 ds ⟨k, 0, r⟩ = false := by
  cases k <;> cases r <;> simp [atStage2]

theorem cleanList_mem (fs : List Fut) (aw : List (Nat × Cmd × Option Nat)) (f : Fut)
    (h : f ∈ (cleanList fs aw).2) : f ∈ fs ∧ f.result = none := by
  induction fs generalizing aw with
  | nil => simp [cleanList] at h
  | cons g gs ih =>
    unfold cleanList at h
    split at h
    · rename_i hr
      simp at h
      rcases h with h | h
      · subst h; exact ⟨by simp, hr⟩
      · have := ih aw h; exact ⟨by simp [this.1], this.2⟩
    · have := ih _ h; exact ⟨by simp [this.1], this.2⟩
    · split at h
      · have := ih _ h; exact ⟨by simp [this.1], this.2⟩
      · have := ih _ h; exact ⟨by simp [this.1], this.2⟩

/-- `maybe_clean` removes finished futures only -/
theorem cleanList_countP (P : Fut → Bool) (hP : ∀ f, P f = true → f.result = none)
    (fs : List Fut) (aw : List (Nat × Cmd × Option Nat)) : (cleanList fs aw).2.countP P = fs.countP P := by
  induction fs generalizing aw with
  | nil => simp [cleanList]
  | cons g gs ih =>
    have hg : ∀ r, g.result = some r → P g = false := by
      intro r hr
      cases hp : P g with
      | false => rfl
      | true => have := hP g hp; rw [hr] at this; cases this
    unfold cleanList
    split
    · simp only [List.countP_cons, ih]
    · rename_i hr; simp only [List.countP_cons, ih, hg _ hr]; simp
    · rename_i t hr
      split <;> (simp only [List.countP_cons, ih, hg _ hr]; simp)

theorem atStage1_pending (ds : Nat) (f : Fut) (h : atStage1 ds f = true) : f.result = none := by
  obtain ⟨k, st, r⟩ := f
  cases r with
  | none => rfl
  | some r => rw [atStage1_done] at h; cases h
theorem atStage2_pending (ds : Nat) (f : Fut) (h : atStage2 ds f = true) : f.result = none := by
  obtain ⟨k, st, r⟩ := f
  cases r with
  | none => rfl
  | some r => rw [atStage2_done] at h; cases h

theorem inv_cleanAll {had} (h : Nat) {w : World} (hi : Inv had w) : Inv had (cleanAll h w) := by
  unfold cleanAll
  split
  · exact hi
  · have hcnt : ∀ (P : Event → Bool), (∀ k, P (.futFail h k) = false) →
        ((List.map (Event.futFail h) (cleanFails (w.hosts h).futs)).reverse ++ w.log).countP P = w.log.countP P :=
      fun P hP => countP_futFails P h _ w.log hP
    apply inv_frame hi
    · intro k; simp [World.setHost]; split <;> simp_all
    · intro k; simp [World.setHost]; split <;> simp_all
    · intro k; simp [World.setHost]; split <;> simp_all
    · intro k f hf hr
      left
      simp [World.setHost] at hf
      split at hf
      · rename_i hk; subst hk; exact ⟨f, (cleanList_mem _ _ _ hf).1, rfl, hr⟩
      · exact ⟨f, hf, rfl, hr⟩
    · intro k ds
      simp only [World.setHost]
      split
      · rename_i hk; subst hk; exact Nat.le_of_eq (cleanList_countP _ (atStage1_pending ds) _ _)
      · exact Nat.le_refl _
    · intro k ds; exact hcnt _ (fun _ => rfl)
    · intro k ds
      have h1 : annCnt ((List.map (Event.futFail h) (cleanFails (w.hosts h).futs)).reverse ++ w.log) k ds = annCnt w.log k ds :=
        hcnt _ (fun _ => rfl)
      have h2 : annFailCnt ((List.map (Event.futFail h) (cleanFails (w.hosts h).futs)).reverse ++ w.log) k ds = annFailCnt w.log k ds :=
        hcnt _ (fun _ => rfl)
      simp only [World.setHost]
      rw [h1, h2]
      split
      · rename_i hk; subst hk; simp only [cleanList_countP _ (atStage2_pending ds)]
      · rfl
    · intro k ds
      have h0 : ctrlPubCnt ((List.map (Event.futFail h) (cleanFails (w.hosts h).futs)).reverse ++ w.log) k ds =
          ctrlPubCnt w.log k ds := hcnt _ (fun _ => rfl)
      have h1 : annCnt ((List.map (Event.futFail h) (cleanFails (w.hosts h).futs)).reverse ++ w.log) k ds = annCnt w.log k ds :=
        hcnt _ (fun _ => rfl)
      simp only [World.setHost]
      rw [h0, h1]
      split
      · rename_i hk; subst hk; simp only [pubPending_fails]
      · rfl
    · intro k
      simp only [World.setHost, failCnt_futFails]
      have h0 : ctrlFailCnt ((List.map (Event.futFail h) (cleanFails (w.hosts h).futs)).reverse ++ w.log) k =
          ctrlFailCnt w.log k := hcnt _ (fun _ => rfl)
      rw [h0]
      by_cases hk : k = h
      · subst hk; simp [failPending_fails]; omega
      · have : ¬ h = k := fun hh => hk hh.symm
        simp [hk, this]
    · intro k; simp only [World.setHost]; split <;> simp_all
    · intro k ds
      apply lastEx_append
      intro e he
      simp at he
      obtain ⟨x, _, rfl⟩ := he
      trivial
    · intro k ds n hk
      simp at hk
      exact hk

/-- replacing the `i`-th future by one with the same key that is counted at the same stages -/
theorem inv_setFut {had} (h i : Nat) (f f' : Fut) {w : World} (hi : Inv had w)
    (hget : (w.hosts h).futs[i]? = some f) (hkey : f'.key = f.key) (hpend : f.result = none)
    (h1 : ∀ ds, atStage1 ds f' = atStage1 ds f) (h2 : ∀ ds, atStage2 ds f' = atStage2 ds f) :
    Inv had (w.setFut h i f') := by
  unfold World.setFut
  apply inv_frame hi
  · intro k; simp [World.setHost]; split <;> simp_all
  · intro k; simp [World.setHost]; split <;> simp_all
  · intro k; simp [World.setHost]; split <;> simp_all
  · intro k g hg hr
    left
    simp [World.setHost] at hg
    split at hg
    · rename_i hk; subst hk
      rcases List.mem_or_eq_of_mem_set hg with hg | hg
      · exact ⟨g, hg, rfl, hr⟩
      · subst hg; exact ⟨f, List.mem_of_getElem? hget, hkey.symm, hpend⟩
    · exact ⟨g, hg, rfl, hr⟩
  · intro k ds
    simp only [World.setHost]
    split
    · rename_i hk; subst hk
      have := countP_set_add (atStage1 ds) _ i f f' hget
      rw [h1 ds] at this; simp only; omega
    · exact Nat.le_refl _
  · intros; rfl
  · intro k ds
    simp only [World.setHost]
    split
    · rename_i hk; subst hk
      have := countP_set_add (atStage2 ds) _ i f f' hget
      rw [h2 ds] at this; simp only; omega
    · rfl
  · intro k ds; simp only [World.setHost]; split <;> simp_all
  · intro k; simp only [World.setHost]; split <;> simp_all
  · intro k; simp only [World.setHost]; split <;> simp_all
  · intros; rfl
  · intro _ _ _ hk; exact hk

theorem inv_reportFail {had} (h : Nat) (c : Cmd) {w : World} (hi : Inv had w) :
    Inv had (w.report h .fail (.sendFail h c)) := by
  unfold World.report
  apply inv_frame hi
  · intro k; simp [World.setHost, World.emit]; split <;> simp_all
  · intro k; simp [World.setHost, World.emit]; split <;> simp_all
  · intro k; simp [World.setHost, World.emit]; split <;> simp_all
  · intro k f hf hr; left; refine ⟨f, ?_, rfl, hr⟩; simp [World.setHost, World.emit] at hf; split at hf <;> simp_all
  · intro k ds; simp only [World.setHost, World.emit]; split <;> simp_all
  · intro k ds; simp [World.setHost, World.emit, storedCnt]
  · intro k ds; simp only [World.setHost, World.emit]; simp [annCnt, annFailCnt]; split <;> simp_all
  · intro k ds
    simp only [World.setHost, World.emit]
    by_cases hk : k = h
    · subst hk; simp [pubPending_append, annCnt, ctrlPubCnt]
    · simp [hk, annCnt, ctrlPubCnt]
  · intro k
    simp only [World.setHost, World.emit]
    by_cases hk : k = h
    · subst hk; simp [failPending_append, failCnt, ctrlFailCnt]; omega
    · have : ¬ h = k := fun hh => hk hh.symm
      simp [hk, this, failCnt, ctrlFailCnt]
  · intro k; simp only [World.setHost, World.emit]; split <;> simp_all
  · intro k ds; simp [World.setHost, World.emit, lastEx]
  · intro k ds n hm; simpa [World.setHost, World.emit] using hm

theorem report_futs (h : Nat) (m : EMsg) (e : Event) (w : World) (k : Nat) :
    ((w.report h m e).hosts k).futs = (w.hosts k).futs ∧ ((w.report h m e).hosts k).crashed = (w.hosts k).crashed := by
  simp [World.report, World.setHost, World.emit]; split <;> simp_all

theorem sendOpen_inv {had} (h : Nat) (c : Cmd) (flt : Fault) {w : World} (hi : Inv had w) :
    Inv had (sendOpen h c flt w).1 ∧ ∀ k, ((sendOpen h c flt w).1.hosts k).futs = (w.hosts k).futs := by
  unfold sendOpen
  split
  · exact ⟨inv_reportFail h c hi, fun k => (report_futs _ _ _ _ k).1⟩
  · split
    · exact ⟨inv_reportFail h c hi, fun k => (report_futs _ _ _ _ k).1⟩
    · split
      · exact ⟨inv_reportFail h c hi, fun k => (report_futs _ _ _ _ k).1⟩
      · exact ⟨hi, fun _ => rfl⟩

theorem sendData_inv {had} (h : Nat) (c : Cmd) (flt : Fault) {w : World} (hi : Inv had w) :
    Inv had (sendData h c flt w).1 ∧ ∀ k, ((sendData h c flt w).1.hosts k).futs = (w.hosts k).futs := by
  unfold sendData
  split
  · exact ⟨inv_reportFail h c hi, fun k => (report_futs _ _ _ _ k).1⟩
  · split
    · exact ⟨inv_reportFail h c hi, fun k => (report_futs _ _ _ _ k).1⟩
    · refine ⟨?_, fun _ => rfl⟩
      apply inv_same hi <;> intros <;> simp [World.emit, Neutral]

theorem storedCnt_cons (e : Event) (log : List Event) (h ds : Nat) :
    storedCnt (e :: log) h ds = storedCnt log h ds +
      (match e with | .stored h' ds' _ _ _ => if h' = h ∧ ds' = ds then 1 else 0 | _ => 0) := by
  cases e <;> simp [storedCnt, List.countP_cons]

theorem annCnt_cons (e : Event) (log : List Event) (h ds : Nat) :
    annCnt (e :: log) h ds = annCnt log h ds +
      (match e with | .announced h' ds' _ => if h' = h ∧ ds' = ds then 1 else 0 | _ => 0) := by
  cases e <;> simp [annCnt, List.countP_cons]

theorem annFailCnt_cons (e : Event) (log : List Event) (h ds : Nat) :
    annFailCnt (e :: log) h ds = annFailCnt log h ds +
      (match e with | .storeFail h' ds' _ st => if h' = h ∧ ds' = ds ∧ 2 ≤ st then 1 else 0 | _ => 0) := by
  cases e <;> simp [annFailCnt, List.countP_cons]

theorem ctrlPubCnt_cons (e : Event) (log : List Event) (h ds : Nat) :
    ctrlPubCnt (e :: log) h ds = ctrlPubCnt log h ds +
      (match e with | .ctrlPub h' ds' _ => if h' = h ∧ ds' = ds then 1 else 0 | _ => 0) := by
  cases e <;> simp [ctrlPubCnt, List.countP_cons]

theorem failCnt_cons (e : Event) (log : List Event) (h : Nat) :
    failCnt (e :: log) h = failCnt log h +
      (match e with
        | .sendFail h' _ => if h' = h then 1 else 0
        | .storeFail h' _ _ _ => if h' = h then 1 else 0
        | .futFail h' _ => if h' = h then 1 else 0
        | _ => 0) := by
  cases e <;> simp [failCnt, List.countP_cons]

theorem ctrlFailCnt_cons (e : Event) (log : List Event) (h : Nat) :
    ctrlFailCnt (e :: log) h = ctrlFailCnt log h +
      (match e with | .ctrlFail h' => if h' = h then 1 else 0 | _ => 0) := by
  cases e <;> simp [ctrlFailCnt, List.countP_cons]

theorem storeStep_fail (h : Nat) (p : Payload) (st : Nat) (w : World) :
    storeStep h p st .fail w = (w.report h .fail (.storeFail h p.ds p.confirmIdx (min st 2)), none) := by
  unfold storeStep
  match st with
  | 0 => simp
  | 1 => simp
  | n + 2 => simp

theorem atStage1_pay (ds : Nat) (p : Payload) (st : Nat) :
    atStage1 ds ⟨.pay p, st, none⟩ = decide (p.ds = ds ∧ st = 1) := rfl
theorem atStage2_pay (ds : Nat) (p : Payload) (st : Nat) :
    atStage2 ds ⟨.pay p, st, none⟩ = decide (p.ds = ds ∧ 2 ≤ st) := rfl

theorem mem_set_pending {h : Nat} {w : World} {i : Nat} {f f' g : Fut}
    (hget : (w.hosts h).futs[i]? = some f) (hkey : f'.key = f.key) (hpend : f.result = none)
    (hg : g ∈ (w.hosts h).futs.set i f') (hr : g.result = none) :
    ∃ g' ∈ (w.hosts h).futs, g'.key = g.key ∧ g'.result = none := by
  rcases List.mem_or_eq_of_mem_set hg with hg | hg
  · exact ⟨g, hg, rfl, hr⟩
  · subst hg; exact ⟨f, List.mem_of_getElem? hget, hkey.symm, hpend⟩

/-- a stage of `store_payload` that raises: reported, the job ends -/
theorem inv_storeFail {had} (h i : Nat) (p : Payload) (st t : Nat) {w : World} (hi : Inv had w)
    (hget : (w.hosts h).futs[i]? = some ⟨.pay p, st, none⟩) :
    Inv had ((w.report h .fail (.storeFail h p.ds p.confirmIdx (min st 2))).setFut h i ⟨.pay p, st, some (.ok t)⟩) := by
  have hc1 := fun ds => countP_set_add (atStage1 ds) _ i _ ⟨.pay p, st, some (.ok t)⟩ hget
  have hc2 := fun ds => countP_set_add (atStage2 ds) _ i _ ⟨.pay p, st, some (.ok t)⟩ hget
  apply inv_frame hi
  · intro k; simp [World.report, World.setFut, World.setHost, World.emit]; split <;> simp_all
  · intro k; simp [World.report, World.setFut, World.setHost, World.emit]; split <;> simp_all
  · intro k; simp [World.report, World.setFut, World.setHost, World.emit]; split <;> simp_all
  · intro k g hg hr
    left
    simp [World.report, World.setFut, World.setHost, World.emit] at hg
    split at hg
    · rename_i hk; subst hk
      simp at hg
      exact mem_set_pending (f' := ⟨.pay p, st, some (.ok t)⟩) hget rfl rfl hg hr
    · exact ⟨g, hg, rfl, hr⟩
  · intro k ds
    simp only [World.report, World.setFut, World.setHost, World.emit]
    split
    · rename_i hk; subst hk
      have := hc1 ds
      simp only [atStage1_done, if_true] at this ⊢
      simp at this ⊢; omega
    · exact Nat.le_refl _
  · intro k ds; simp [World.report, World.setFut, World.setHost, World.emit, storedCnt_cons]
  · intro k ds
    simp only [World.report, World.setFut, World.setHost, World.emit, annCnt_cons, annFailCnt_cons]
    by_cases hk : k = h
    · subst hk
      have := hc2 ds
      simp only [atStage2_done, atStage2_pay] at this
      simp at this ⊢
      by_cases hd : p.ds = ds
      · by_cases h2 : 2 ≤ st
        · have : 2 ≤ min st 2 := by omega
          simp_all; omega
        · have : ¬ 2 ≤ min st 2 := by omega
          simp_all
      · simp_all
    · have : ¬ (h = k ∧ p.ds = ds ∧ 2 ≤ min st 2) := fun hh => hk hh.1.symm
      simp [hk, this]
  · intro k ds
    simp only [World.report, World.setFut, World.setHost, World.emit, annCnt_cons, ctrlPubCnt_cons]
    by_cases hk : k = h
    · subst hk; simp [pubPending_append]
    · simp [hk]
  · intro k
    simp only [World.report, World.setFut, World.setHost, World.emit]
    by_cases hk : k = h
    · subst hk; simp [failPending_append, failCnt, ctrlFailCnt]; omega
    · have : ¬ h = k := fun hh => hk hh.symm
      simp [hk, this, failCnt, ctrlFailCnt]
  · intro k; simp only [World.report, World.setFut, World.setHost, World.emit]; split <;> simp_all
  · intro k ds; simp [World.report, World.setFut, World.setHost, World.emit, lastEx]
  · intro k ds n hm
    simpa [World.report, World.setFut, World.setHost, World.emit] using hm

/-- the announce callback of `store_payload` -/
theorem inv_storeAnnounce {had} (h i : Nat) (p : Payload) (st t : Nat) (h2 : 2 ≤ st) {w : World} (hi : Inv had w)
    (hget : (w.hosts h).futs[i]? = some ⟨.pay p, st, none⟩) :
    Inv had ((w.report h (.pub p.ds p.confirmIdx) (.announced h p.ds p.confirmIdx)).setFut h i ⟨.pay p, st, some (.ok t)⟩) := by
  have hc1 := fun ds => countP_set_add (atStage1 ds) _ i _ ⟨.pay p, st, some (.ok t)⟩ hget
  have hc2 := fun ds => countP_set_add (atStage2 ds) _ i _ ⟨.pay p, st, some (.ok t)⟩ hget
  apply inv_frame hi
  · intro k; simp [World.report, World.setFut, World.setHost, World.emit]; split <;> simp_all
  · intro k; simp [World.report, World.setFut, World.setHost, World.emit]; split <;> simp_all
  · intro k; simp [World.report, World.setFut, World.setHost, World.emit]; split <;> simp_all
  · intro k g hg hr
    left
    simp [World.report, World.setFut, World.setHost, World.emit] at hg
    split at hg
    · rename_i hk; subst hk
      simp at hg
      exact mem_set_pending (f' := ⟨.pay p, st, some (.ok t)⟩) hget rfl rfl hg hr
    · exact ⟨g, hg, rfl, hr⟩
  · intro k ds
    simp only [World.report, World.setFut, World.setHost, World.emit]
    split
    · rename_i hk; subst hk
      have := hc1 ds
      simp only [atStage1_done] at this ⊢
      simp at this ⊢; omega
    · exact Nat.le_refl _
  · intro k ds; simp [World.report, World.setFut, World.setHost, World.emit, storedCnt_cons]
  · intro k ds
    simp only [World.report, World.setFut, World.setHost, World.emit, annCnt_cons, annFailCnt_cons]
    by_cases hk : k = h
    · subst hk
      have := hc2 ds
      simp only [atStage2_done, atStage2_pay] at this
      simp at this ⊢
      by_cases hd : p.ds = ds
      · simp_all; omega
      · simp_all
    · have : ¬ (h = k ∧ p.ds = ds) := fun hh => hk hh.1.symm
      simp [hk, this]
  · intro k ds
    simp only [World.report, World.setFut, World.setHost, World.emit, annCnt_cons, ctrlPubCnt_cons]
    by_cases hk : k = h
    · subst hk
      simp [pubPending_append]
      by_cases hd : p.ds = ds <;> simp [hd] <;> omega
    · have : ¬ (h = k ∧ p.ds = ds) := fun hh => hk hh.1.symm
      simp [hk, this]
  · intro k
    simp only [World.report, World.setFut, World.setHost, World.emit]
    by_cases hk : k = h
    · subst hk; simp [failPending_append, failCnt, ctrlFailCnt]
    · simp [hk, failCnt, ctrlFailCnt]
  · intro k; simp only [World.report, World.setFut, World.setHost, World.emit]; split <;> simp_all
  · intro k ds; simp [World.report, World.setFut, World.setHost, World.emit, lastEx]
  · intro k ds n hm
    simpa [World.report, World.setFut, World.setHost, World.emit] using hm

/-- `shm_client.allocate` granted -/
theorem inv_storeAlloc {had} (h i : Nat) (p : Payload) {w : World} (hi : Inv had w)
    (hget : (w.hosts h).futs[i]? = some ⟨.pay p, 0, none⟩)
    (hnone : lookup (w.hosts h).store p.ds = none) (hna : p.ds ∉ (w.hosts h).allocd) :
    Inv had ((w.setHost h { w.hosts h with allocd := (w.hosts h).allocd ++ [p.ds] }).setFut h i ⟨.pay p, 1, none⟩) := by
  have hc1 := fun ds => countP_set_add (atStage1 ds) _ i _ ⟨.pay p, 1, none⟩ hget
  have hc2 := fun ds => countP_set_add (atStage2 ds) _ i _ ⟨.pay p, 1, none⟩ hget
  refine ⟨?_, ?_, ?_, ?_, ?_, ?_, ?_, ?_, ?_, ?_, ?_, ?_, ?_⟩
  · exact hi.cnt_le
  · intro k ds hpos
    have := hi.cnt_has k ds hpos
    simp only [World.setFut, World.setHost]
    split <;> simp_all
  · intro k ds hd g hg hgk hr
    simp only [World.setFut, World.setHost] at hd hg
    by_cases hk : k = h
    · subst hk
      simp at hd hg
      obtain ⟨g', hg', hk', hr'⟩ := mem_set_pending (f' := ⟨.pay p, 1, none⟩) hget rfl rfl hg hr
      exact hi.inv_nofut k ds hd g' hg' (by rw [hk']; exact hgk) hr'
    · simp [hk] at hd hg; exact hi.inv_nofut k ds hd g hg hgk hr
  · intro k ds hd
    have := hi.inv_nostore k ds
    simp only [World.setFut, World.setHost] at hd ⊢
    split <;> simp_all
  · intro k ds
    have := hi.ann_bal k ds
    simp only [World.setFut, World.setHost]
    by_cases hk : k = h
    · subst hk
      have := hc2 ds
      simp only [atStage2_pay] at this
      simp at this ⊢
      omega
    · simp [hk]; exact this
  · intro k ds
    have := hi.copies_le k ds
    simp only [World.setFut, World.setHost]
    split <;> simp_all
  · exact hi.purge_ok
  · intro k ds n hm
    have := hi.purged_inv k ds n hm
    simp only [World.setFut, World.setHost]
    split <;> simp_all
  · intro k ds hd
    simp only [World.setFut, World.setHost] at hd ⊢
    by_cases hk : k = h
    · subst hk
      simp at hd ⊢
      rcases hd with hd | hd
      · exact hi.alloc_nostore k ds hd
      · subst hd; exact hnone
    · simp [hk] at hd ⊢; exact hi.alloc_nostore k ds hd
  · intro k ds
    have := hi.st1_le k ds
    simp only [World.setFut, World.setHost]
    by_cases hk : k = h
    · subst hk
      have hc := hc1 ds
      simp only [atStage1_pay] at hc
      simp at hc ⊢
      by_cases hd : p.ds = ds
      · subst hd; rw [if_neg hna] at this; simp at hc ⊢; omega
      · simp [hd] at hc
        have hne : ¬ ds = p.ds := fun hh => hd hh.symm
        simp [hne]; omega
    · simp [hk]; exact this
  · intro k ds
    have := hi.pub_bal k ds
    simp only [World.setFut, World.setHost]
    split <;> simp_all
  · intro k
    have := hi.fail_bal k
    simp only [World.setFut, World.setHost]
    split <;> simp_all
  · intro k ds b hb
    have := hi.pub_hist k ds b hb
    simp only [World.setFut, World.setHost]
    split <;> simp_all

/-- write + close: the copy exists -/
theorem inv_storeClose {had} (h i : Nat) (p : Payload) {w : World} (hi : Inv had w)
    (hget : (w.hosts h).futs[i]? = some ⟨.pay p, 1, none⟩) :
    Inv had (((w.setHost h { w.hosts h with allocd := (w.hosts h).allocd.filter (fun d => d ≠ p.ds), store := (w.hosts h).store ++ [(p.ds, p.value, p.deser)] }).emit
        (.stored h p.ds p.confirmIdx p.value p.deser)).setFut h i ⟨.pay p, 2, none⟩) := by
  have hmem : (⟨.pay p, 1, none⟩ : Fut) ∈ (w.hosts h).futs := List.mem_of_getElem? hget
  have hc1 := fun ds => countP_set_add (atStage1 ds) _ i _ ⟨.pay p, 2, none⟩ hget
  have hc2 := fun ds => countP_set_add (atStage2 ds) _ i _ ⟨.pay p, 2, none⟩ hget
  have hpos : 0 < (w.hosts h).futs.countP (atStage1 p.ds) := by
    rw [List.countP_pos_iff]; exact ⟨_, hmem, by simp [atStage1_pay]⟩
  have halloc : p.ds ∈ (w.hosts h).allocd := by
    have := hi.st1_le h p.ds
    by_cases hh : p.ds ∈ (w.hosts h).allocd
    · exact hh
    · rw [if_neg hh] at this; omega
  have hone : (w.hosts h).futs.countP (atStage1 p.ds) = 1 := by
    have := hi.st1_le h p.ds
    rw [if_pos halloc] at this; omega
  have hnone : lookup (w.hosts h).store p.ds = none := hi.alloc_nostore h p.ds halloc
  have hninv : p.ds ∉ (w.hosts h).invalid := by
    intro hd
    exact hi.inv_nofut h p.ds hd _ hmem rfl rfl
  have hzero : storedCnt w.log h p.ds + hadN had h p.ds = 0 := by
    have := hi.cnt_has h p.ds
    rcases Nat.eq_zero_or_pos (storedCnt w.log h p.ds + hadN had h p.ds) with h0 | h0
    · exact h0
    · rcases this h0 with h1 | h1
      · simp [hnone] at h1
      · exact absurd h1 hninv
  refine ⟨?_, ?_, ?_, ?_, ?_, ?_, ?_, ?_, ?_, ?_, ?_, ?_, ?_⟩
  · intro k ds
    simp only [World.setFut, World.emit, World.setHost, storedCnt_cons]
    have := hi.cnt_le k ds
    by_cases hk : h = k ∧ p.ds = ds
    · obtain ⟨rfl, rfl⟩ := hk; simp; omega
    · simp [hk]; exact this
  · intro k ds hpos
    simp only [World.setFut, World.emit, World.setHost, storedCnt_cons] at hpos ⊢
    by_cases hk : k = h
    · subst hk
      simp only [if_true]
      by_cases hd : p.ds = ds
      · subst hd; left; rw [lookup_append_none _ _ _ _ hnone]; simp
      · simp [hd] at hpos
        rcases hi.cnt_has k ds (by omega) with h1 | h1
        · left
          cases hl : lookup (w.hosts k).store ds with
          | none => simp [hl] at h1
          | some u => rw [lookup_append_some _ _ _ _ _ hl]; simp
        · right; simpa using h1
    · have hk' : ¬ (h = k ∧ p.ds = ds) := fun hh => hk hh.1.symm
      simp [hk'] at hpos
      simp [hk]
      exact hi.cnt_has k ds (by omega)
  · intro k ds hd g hg hgk hr
    simp only [World.setFut, World.emit, World.setHost] at hd hg
    by_cases hk : k = h
    · subst hk
      simp at hd hg
      obtain ⟨g', hg', hk', hr'⟩ := mem_set_pending (f' := ⟨.pay p, 2, none⟩) hget rfl rfl hg hr
      exact hi.inv_nofut k ds hd g' hg' (by rw [hk']; exact hgk) hr'
    · simp [hk] at hd hg; exact hi.inv_nofut k ds hd g hg hgk hr
  · intro k ds hd
    simp only [World.setFut, World.emit, World.setHost] at hd ⊢
    by_cases hk : k = h
    · subst hk
      simp at hd ⊢
      have hne : p.ds ≠ ds := fun hh => hninv (hh ▸ hd)
      rw [lookup_append_none _ _ _ _ (hi.inv_nostore k ds hd)]; simp [hne]
    · simp [hk] at hd ⊢; exact hi.inv_nostore k ds hd
  · intro k ds
    have := hi.ann_bal k ds
    simp only [World.setFut, World.emit, World.setHost, storedCnt_cons, annCnt_cons, annFailCnt_cons]
    by_cases hk : k = h
    · subst hk
      have hc := hc2 ds
      simp only [atStage2_pay] at hc
      simp at hc ⊢
      by_cases hd : p.ds = ds
      · simp [hd] at hc ⊢; omega
      · simp [hd] at hc ⊢; omega
    · have hk' : ¬ (h = k ∧ p.ds = ds) := fun hh => hk hh.1.symm
      simp [hk, hk']; exact this
  · intro k ds
    simp only [World.setFut, World.emit, World.setHost]
    by_cases hk : k = h
    · subst hk
      simp only [if_true]
      rw [copies_append]
      by_cases hd : p.ds = ds
      · subst hd; simp [lookup_none_copies _ _ hnone]
      · simp [hd]; exact hi.copies_le k ds
    · simp [hk]; exact hi.copies_le k ds
  · intro k ds n hm
    simp [World.setFut, World.emit, World.setHost] at hm
    exact hi.purge_ok k ds n hm
  · intro k ds n hm
    simp [World.setFut, World.emit, World.setHost] at hm ⊢
    have := hi.purged_inv k ds n hm
    split <;> simp_all
  · intro k ds hd
    simp only [World.setFut, World.emit, World.setHost] at hd ⊢
    by_cases hk : k = h
    · subst hk
      simp at hd ⊢
      rw [lookup_append_none _ _ _ _ (hi.alloc_nostore k ds hd.1)]
      simp; exact fun hh => hd.2 hh.symm
    · simp [hk] at hd ⊢; exact hi.alloc_nostore k ds hd
  · intro k ds
    have := hi.st1_le k ds
    simp only [World.setFut, World.emit, World.setHost]
    by_cases hk : k = h
    · subst hk
      have hc := hc1 ds
      simp only [atStage1_pay] at hc
      simp at hc ⊢
      by_cases hd : p.ds = ds
      · subst hd; simp at hc; omega
      · simp [hd] at hc
        have hne : ¬ ds = p.ds := fun hh => hd hh.symm
        simp [hne]; omega
    · simp [hk]; exact this
  · intro k ds
    have := hi.pub_bal k ds
    simp only [World.setFut, World.emit, World.setHost, annCnt_cons, ctrlPubCnt_cons]
    split <;> simp_all
  · intro k
    have := hi.fail_bal k
    simp only [World.setFut, World.emit, World.setHost, failCnt_cons, ctrlFailCnt_cons]
    split <;> simp_all
  · intro k ds b hb
    simp only [World.setFut, World.emit, World.setHost, lastEx] at hb ⊢
    have := hi.pub_hist k ds b hb
    split <;> simp_all

theorem inv_stepAt {had} (h i : Nat) (flt : Fault) {w : World} (hi : Inv had w) : Inv had (stepAt h i flt w) := by
  unfold stepAt
  split
  · exact hi
  · split
    · -- send job
      rename_i c st hget
      split
      · have h1 := sendOpen_inv h c flt hi
        have hget' : ((sendOpen h c flt w).1.hosts h).futs[i]? = some ⟨.cmd c, st, none⟩ := by rw [h1.2]; exact hget
        exact inv_setFut h i _ _ h1.1 hget' rfl rfl (fun _ => rfl) (fun _ => rfl)
      · have h1 := sendData_inv h c flt hi
        have hget' : ((sendData h c flt w).1.hosts h).futs[i]? = some ⟨.cmd c, st, none⟩ := by rw [h1.2]; exact hget
        exact inv_setFut h i _ _ h1.1 hget' rfl rfl (fun _ => rfl) (fun _ => rfl)
    · -- store job
      rename_i p st hget
      cases hf : flt with
      | fail =>
        rw [storeStep_fail]
        exact inv_storeFail h i p st w.now hi hget
      | none =>
        match st, hget with
        | 0, hget =>
          simp only [storeStep]
          split
          · rename_i hx; cases hx
          · split
            · -- redundant
              have h1 : Inv had (w.emit (.redundant h p.ds p.confirmIdx)) := by
                apply inv_same hi <;> intros <;> simp [World.emit, Neutral]
              exact inv_setFut h i ⟨.pay p, 0, none⟩ _ h1 hget rfl rfl
                (fun ds => by simp [atStage1_zero, atStage1_done]) (fun ds => by simp [atStage2_zero, atStage2_done])
            · rename_i hx
              have hnone : lookup (w.hosts h).store p.ds = none := by
                cases hl : lookup (w.hosts h).store p.ds with
                | none => rfl
                | some v => exact absurd (Or.inl (by simp [hl])) hx
              exact inv_storeAlloc h i p hi hget hnone (fun hh => hx (Or.inr hh))
        | 1, hget =>
          simp only [storeStep]
          split
          · rename_i hx; cases hx
          · exact inv_storeClose h i p hi hget
        | n + 2, hget =>
          simp only [storeStep]
          split
          · rename_i hx; cases hx
          · exact inv_storeAnnounce h i p (n + 2) w.now (by omega) hi hget
      | closeExc =>
        match st, hget with
        | 0, hget =>
          simp only [storeStep]
          split
          · rename_i hx; cases hx
          · split
            · have h1 : Inv had (w.emit (.redundant h p.ds p.confirmIdx)) := by
                apply inv_same hi <;> intros <;> simp [World.emit, Neutral]
              exact inv_setFut h i ⟨.pay p, 0, none⟩ _ h1 hget rfl rfl
                (fun ds => by simp [atStage1_zero, atStage1_done]) (fun ds => by simp [atStage2_zero, atStage2_done])
            · rename_i hx
              have hnone : lookup (w.hosts h).store p.ds = none := by
                cases hl : lookup (w.hosts h).store p.ds with
                | none => rfl
                | some v => exact absurd (Or.inl (by simp [hl])) hx
              exact inv_storeAlloc h i p hi hget hnone (fun hh => hx (Or.inr hh))
        | 1, hget =>
          simp only [storeStep]
          split
          · rename_i hx; cases hx
          · exact inv_storeClose h i p hi hget
        | n + 2, hget =>
          simp only [storeStep]
          split
          · rename_i hx; cases hx
          · exact inv_storeAnnounce h i p (n + 2) w.now (by omega) hi hget
    · exact hi

theorem inProgress_zero (futs : List Fut) (ds : Nat) (h0 : inProgress futs ds = 0) (f : Fut) (hf : f ∈ futs) :
    f.key.ds ≠ ds := by
  intro hk
  unfold inProgress at h0
  have : f ∈ futs.filter (fun f => f.key.ds = ds) := by simp [hf, hk]
  rw [List.length_eq_zero_iff] at h0
  rw [h0] at this; cases this

theorem countP_zero_of_inProgress (P : Nat → Fut → Bool) (hP : ∀ ds f, P ds f = true → f.key.ds = ds)
    (futs : List Fut) (ds : Nat) (hg : inProgress futs ds = 0) : futs.countP (P ds) = 0 := by
  rw [List.countP_eq_zero]
  intro f hf hp
  exact inProgress_zero futs ds hg f hf (hP ds f (by simpa using hp))

theorem atStage1_ds (ds : Nat) (f : Fut) (h : atStage1 ds f = true) : f.key.ds = ds := by
  obtain ⟨k, st, r⟩ := f
  cases k <;> cases r <;> simp [atStage1] at h
  exact h.1
theorem atStage2_ds (ds : Nat) (f : Fut) (h : atStage2 ds f = true) : f.key.ds = ds := by
  obtain ⟨k, st, r⟩ := f
  cases k <;> cases r <;> simp [atStage2] at h
  exact h.1

theorem inv_purgeAct {had} (h ds : Nat) {w : World} (hi : Inv had w)
    (hg : inProgress (w.hosts h).futs ds = 0) : Inv had (purgeAct h ds w) := by
  unfold purgeAct
  simp only
  refine ⟨?_, ?_, ?_, ?_, ?_, ?_, ?_, ?_, ?_, ?_, ?_, ?_, ?_⟩
  · intro k d; simp only [World.emit, World.setHost, storedCnt_cons]; exact hi.cnt_le k d
  · intro k d hpos
    simp only [World.emit, World.setHost, storedCnt_cons] at hpos ⊢
    by_cases hk : k = h
    · subst hk
      simp only [if_true]
      by_cases hd : d = ds
      · right; rw [mem_insertS]; right; exact hd
      · rcases hi.cnt_has k d (by omega) with h1 | h1
        · left; rw [lookup_eraseA_ne _ _ _ (Ne.symm hd)]; exact h1
        · right; rw [mem_insertS]; left; exact h1
    · simp [hk]; exact hi.cnt_has k d (by omega)
  · intro k d hd f hf hfk
    simp only [World.emit, World.setHost] at hd hf
    by_cases hk : k = h
    · subst hk
      simp at hd hf
      rw [mem_insertS] at hd
      rcases hd with hd | hd
      · exact hi.inv_nofut k d hd f hf hfk
      · subst hd; exact absurd hfk (inProgress_zero _ _ hg f hf)
    · simp [hk] at hd hf; exact hi.inv_nofut k d hd f hf hfk
  · intro k d hd
    simp only [World.emit, World.setHost] at hd ⊢
    by_cases hk : k = h
    · subst hk
      simp at hd ⊢
      by_cases hdd : ds = d
      · subst hdd; exact lookup_eraseA_self _ _
      · rw [lookup_eraseA_ne _ _ _ hdd]
        rw [mem_insertS] at hd
        rcases hd with hd | hd
        · exact hi.inv_nostore k d hd
        · exact absurd hd.symm hdd
    · simp [hk] at hd ⊢; exact hi.inv_nostore k d hd
  · intro k d
    have := hi.ann_bal k d
    simp only [World.emit, World.setHost, storedCnt_cons, annCnt_cons, annFailCnt_cons]
    split <;> simp_all
  · intro k d
    simp only [World.emit, World.setHost]
    by_cases hk : k = h
    · subst hk; simp only [if_true]; exact Nat.le_trans (copies_eraseA_le _ _ _) (hi.copies_le k d)
    · simp [hk]; exact hi.copies_le k d
  · intro k d n hm
    simp [World.emit, World.setHost] at hm
    rcases hm with ⟨_, _, rfl⟩ | hm
    · exact hg
    · exact hi.purge_ok k d n hm
  · intro k d n hm
    simp [World.emit, World.setHost] at hm ⊢
    rcases hm with ⟨rfl, rfl, _⟩ | hm
    · simp [mem_insertS]
    · have := hi.purged_inv k d n hm
      split
      · rename_i hk; subst hk; simp [mem_insertS, this]
      · exact this
  · intro k d hd
    simp only [World.emit, World.setHost] at hd ⊢
    by_cases hk : k = h
    · subst hk
      simp at hd ⊢
      rw [lookup_eraseA_ne _ _ _ (fun hh => hd.2 hh.symm)]
      exact hi.alloc_nostore k d hd.1
    · simp [hk] at hd ⊢; exact hi.alloc_nostore k d hd
  · intro k d
    have := hi.st1_le k d
    simp only [World.emit, World.setHost]
    by_cases hk : k = h
    · subst hk
      simp only [if_true]
      by_cases hd : d = ds
      · subst hd
        rw [countP_zero_of_inProgress atStage1 atStage1_ds _ _ hg]; exact Nat.zero_le _
      · simp [hd]; exact this
    · simp [hk]; exact this
  · intro k d
    have := hi.pub_bal k d
    simp only [World.emit, World.setHost, annCnt_cons, ctrlPubCnt_cons]
    split <;> simp_all
  · intro k
    have := hi.fail_bal k
    simp only [World.emit, World.setHost, failCnt_cons, ctrlFailCnt_cons]
    split <;> simp_all
  · intro k d b hb
    simp only [World.emit, World.setHost, lastEx] at hb ⊢
    have := hi.pub_hist k d b hb
    split <;> simp_all

/-- appending a not yet started future of a dataset that is not invalid -/
theorem inv_addFut {had} (h : Nat) (key : Key) (aw : List (Nat × Cmd × Option Nat)) (e : Event) (hn : Neutral e)
    {w : World} (hi : Inv had w) (hk : key.ds ∉ (w.hosts h).invalid) :
    Inv had ((w.setHost h { w.hosts h with awaiting := aw, futs := (w.hosts h).futs ++ [⟨key, 0, none⟩] }).emit e) := by
  have hc := neutral_counts e w.log hn
  apply inv_frame hi
  · intro k; simp [World.setHost, World.emit]; split <;> simp_all
  · intro k; simp [World.setHost, World.emit]; split <;> simp_all
  · intro k; simp [World.setHost, World.emit]; split <;> simp_all
  · intro k f hf hr
    simp [World.setHost, World.emit] at hf
    split at hf
    · rename_i hkk; subst hkk
      simp at hf
      rcases hf with hf | hf
      · left; exact ⟨f, hf, rfl, hr⟩
      · right; subst hf; exact hk
    · left; exact ⟨f, hf, rfl, hr⟩
  · intro k ds
    simp only [World.setHost, World.emit]
    by_cases hkk : k = h
    · subst hkk; simp [List.countP_append, atStage1_zero]
    · simp [hkk]
  · exact hc.1
  · intro k ds
    simp only [World.setHost, World.emit]
    rw [hc.2.1, hc.2.2.1]
    by_cases hkk : k = h
    · subst hkk; simp [List.countP_append, atStage2_zero]
    · simp [hkk]
  · intro k ds
    simp only [World.setHost, World.emit]
    rw [hc.2.1, hc.2.2.2.1]
    split <;> simp_all
  · intro k
    simp only [World.setHost, World.emit]
    rw [hc.2.2.2.2.2.1, hc.2.2.2.2.2.2.1]
    split <;> simp_all
  · intro k; simp only [World.setHost, World.emit]; split <;> simp_all
  · exact hc.2.2.2.2.2.2.2
  · exact hc.2.2.2.2.1

theorem inv_handleMsg {had} (h : Nat) (m : Msg) {w : World} (hi : Inv had w)
    (hg : ∀ ds, m = .purge ds → inProgress (w.hosts h).futs ds = 0) : Inv had (handleMsg h m w) := by
  unfold handleMsg
  cases m with
  | cmd c =>
    simp only
    split
    · frame_same hi
    · split
      · frame_same hi
      · rename_i _ hninv
        exact inv_addFut h (.cmd c) _ _ (by simp [Neutral]) hi hninv
  | pay p =>
    simp only
    split
    · frame_same hi
    · rename_i hninv
      have := inv_addFut h (.pay p) (w.hosts h).awaiting (.ignored h p.ds p.confirmIdx) (by simp [Neutral]) hi hninv
      apply inv_frame this
      · intro k; rfl
      · intro k; rfl
      · intro k; rfl
      · intro k f hf hr; left; exact ⟨f, hf, rfl, hr⟩
      · intro k ds; exact Nat.le_refl _
      · intro k ds; simp [World.emit, World.setHost, storedCnt_cons]
      · intro k ds; simp [World.emit, World.setHost, annCnt_cons, annFailCnt_cons]
      · intro k ds; simp [World.emit, World.setHost, annCnt_cons, ctrlPubCnt_cons]
      · intro k; simp [World.emit, World.setHost, failCnt_cons, ctrlFailCnt_cons]
      · intro k; rfl
      · intro k ds; simp [World.emit, World.setHost, lastEx]
      · intro k ds n hm; simp [World.emit, World.setHost]; exact hm
  | ack i => simp only; frame_same hi
  | purge ds => exact inv_purgeAct h ds hi (hg ds rfl)

theorem inv_handleHead {had} (h : Nat) {w : World} (hi : Inv had w)
    (guard : ∀ ds rest, (w.hosts h).inbox = .purge ds :: rest → inProgress (w.hosts h).futs ds = 0) :
    Inv had (handleHead h w) := by
  unfold handleHead
  simp only
  split
  · exact hi
  · split
    · exact hi
    · rename_i m rest hin
      apply inv_handleMsg h m
      · frame_same hi
      · intro ds hm
        subst hm
        simpa [World.setHost] using guard ds rest hin

theorem inv_retryOne {had} (h e : Nat) {w : World} (hi : Inv had w) : Inv had (retryOne h e w) := by
  unfold retryOne
  simp only
  split
  · exact hi
  · split
    · frame_same hi
    · split
      · frame_same hi
      · split
        · frame_same hi
        · split
          · frame_same hi
          · rename_i c _ _ _ _ hninv
            exact inv_addFut h (.cmd c) (setA (w.hosts h).awaiting e (c, none)) (.resubmit h c.idx c.ds) (by simp [Neutral]) hi hninv

theorem inv_injectE {had} (h ds : Nat) {w : World} (hi : Inv had w) : Inv had (injectE h ds w) := by
  unfold injectE
  apply inv_frame hi
  · intro k; simp [World.setHost]; split <;> simp_all
  · intro k; simp [World.setHost]; split <;> simp_all
  · intro k; simp [World.setHost]; split <;> simp_all
  · intro k f hf hr; left; refine ⟨f, ?_, rfl, hr⟩; simp [World.setHost] at hf; split at hf <;> simp_all
  · intro k d; simp only [World.setHost]; split <;> simp_all
  · intros; rfl
  · intro k d; simp only [World.setHost]; split <;> simp_all
  · intro k d
    simp only [World.setHost]
    split
    · rename_i hk; subst hk; simp [pubPending_append]
    · rfl
  · intro k
    simp only [World.setHost]
    split
    · rename_i hk; subst hk; simp [failPending_append]
    · rfl
  · intro k; simp only [World.setHost]; split <;> simp_all
  · intros; rfl
  · intro _ _ _ hk; exact hk

/-- the executor's step, seen from the data-server side of the invariant -/
theorem inv_execHandle {had} (h : Nat) {w : World} (hi : Inv had w) : Inv had (execHandle h w) := by
  unfold execHandle
  simp only
  split
  · exact hi
  · -- DatasetPublished forwarded to the controller
    rename_i ds idx rest hmb
    refine ⟨?_, ?_, ?_, ?_, ?_, ?_, ?_, ?_, ?_, ?_, ?_, ?_, ?_⟩
    · intro k d; simp only [World.emit, World.setHost, storedCnt_cons]; exact hi.cnt_le k d
    · intro k d hpos
      simp only [World.emit, World.setHost, storedCnt_cons] at hpos ⊢
      have := hi.cnt_has k d hpos
      split <;> simp_all
    · intro k d hd f hf hfk
      simp only [World.emit, World.setHost] at hd hf
      have := hi.inv_nofut k d
      split at hd <;> simp_all
    · intro k d hd
      simp only [World.emit, World.setHost] at hd ⊢
      have := hi.inv_nostore k d
      split at hd <;> simp_all
    · intro k d
      have := hi.ann_bal k d
      simp only [World.emit, World.setHost, storedCnt_cons, annCnt_cons, annFailCnt_cons]
      split <;> simp_all
    · intro k d
      have := hi.copies_le k d
      simp only [World.emit, World.setHost]
      split <;> simp_all
    · intro k d n hm; simp [World.emit, World.setHost] at hm; exact hi.purge_ok k d n hm
    · intro k d n hm
      simp [World.emit, World.setHost] at hm ⊢
      have := hi.purged_inv k d n hm
      split <;> simp_all
    · intro k d hd
      simp only [World.emit, World.setHost] at hd ⊢
      have := hi.alloc_nostore k d
      split at hd <;> simp_all
    · intro k d
      have := hi.st1_le k d
      simp only [World.emit, World.setHost]
      split <;> simp_all
    · intro k d
      have := hi.pub_bal k d
      simp only [World.setHost, World.emit, annCnt_cons, ctrlPubCnt_cons]
      by_cases hk : k = h
      · subst hk
        simp only [if_true, hmb, pubPending, List.countP_cons] at this ⊢
        by_cases hd : ds = d <;> simp [hd] at this ⊢ <;> omega
      · have hne : ¬ (h = k ∧ ds = d) := fun hh => hk hh.1.symm
        simp [hk, hne]; exact this
    · intro k
      have := hi.fail_bal k
      simp only [World.setHost, World.emit, failCnt_cons, ctrlFailCnt_cons]
      by_cases hk : k = h
      · subst hk; simp only [if_true, hmb, failPending, List.countP_cons] at this ⊢; simpa using this
      · simp [hk]; exact this
    · intro k d b hb
      simp only [World.setHost, World.emit, lastEx] at hb ⊢
      by_cases hk : h = k ∧ ds = d
      · obtain ⟨rfl, rfl⟩ := hk
        simp at hb; subst hb
        simp [mem_insertS]
      · simp only [hk, if_false] at hb
        have := hi.pub_hist k d b hb
        by_cases hkk : k = h
        · subst hkk
          have hne : ¬ d = ds := fun hh => hk ⟨rfl, hh.symm⟩
          simp [mem_insertS, hne]; exact this
        · simp [hkk]; exact this
  · -- DatasetTransmitFailure forwarded to the controller
    rename_i rest hmb
    apply inv_frame hi
    · intro k; simp [World.setHost, World.emit]; split <;> simp_all
    · intro k; simp [World.setHost, World.emit]; split <;> simp_all
    · intro k; simp [World.setHost, World.emit]; split <;> simp_all
    · intro k f hf hr; left; refine ⟨f, ?_, rfl, hr⟩; simp [World.setHost, World.emit] at hf; split at hf <;> simp_all
    · intro k d; simp only [World.setHost, World.emit]; split <;> simp_all
    · intro k d; simp [World.emit, World.setHost, storedCnt_cons]
    · intro k d; simp only [World.setHost, World.emit, annCnt_cons, annFailCnt_cons]; split <;> simp_all
    · intro k d
      simp only [World.setHost, World.emit, annCnt_cons, ctrlPubCnt_cons]
      by_cases hk : k = h
      · subst hk; simp only [if_true, hmb, pubPending, List.countP_cons]; simp
      · simp [hk]
    · intro k
      simp only [World.setHost, World.emit, failCnt_cons, ctrlFailCnt_cons]
      by_cases hk : k = h
      · subst hk; simp only [if_true, hmb, failPending, List.countP_cons]; simp; omega
      · have : ¬ h = k := fun hh => hk hh.symm
        simp [hk, this]
    · intro k; simp only [World.setHost, World.emit]; split <;> simp_all
    · intro k d; simp [World.setHost, World.emit, lastEx]
    · intro k d n hm; simpa [World.emit, World.setHost] using hm
  · rename_i ds rest hmb
    split
    · -- purge forwarded
      rename_i hpub
      refine ⟨?_, ?_, ?_, ?_, ?_, ?_, ?_, ?_, ?_, ?_, ?_, ?_, ?_⟩
      · intro k d; simp only [World.emit, World.setHost, storedCnt_cons]; exact hi.cnt_le k d
      · intro k d hpos
        simp only [World.emit, World.setHost, storedCnt_cons] at hpos ⊢
        have := hi.cnt_has k d hpos
        split <;> simp_all
      · intro k d hd f hf hfk
        simp only [World.emit, World.setHost] at hd hf
        have := hi.inv_nofut k d
        split at hd <;> simp_all
      · intro k d hd
        simp only [World.emit, World.setHost] at hd ⊢
        have := hi.inv_nostore k d
        split at hd <;> simp_all
      · intro k d
        have := hi.ann_bal k d
        simp only [World.emit, World.setHost, storedCnt_cons, annCnt_cons, annFailCnt_cons]
        split <;> simp_all
      · intro k d
        have := hi.copies_le k d
        simp only [World.emit, World.setHost]
        split <;> simp_all
      · intro k d n hm; simp [World.emit, World.setHost] at hm; exact hi.purge_ok k d n hm
      · intro k d n hm
        simp [World.emit, World.setHost] at hm ⊢
        have := hi.purged_inv k d n hm
        split <;> simp_all
      · intro k d hd
        simp only [World.emit, World.setHost] at hd ⊢
        have := hi.alloc_nostore k d
        split at hd <;> simp_all
      · intro k d
        have := hi.st1_le k d
        simp only [World.emit, World.setHost]
        split <;> simp_all
      · intro k d
        have := hi.pub_bal k d
        simp only [World.setHost, World.emit, annCnt_cons, ctrlPubCnt_cons]
        by_cases hk : k = h
        · subst hk; simp only [if_true, hmb, pubPending, List.countP_cons] at this ⊢; simpa using this
        · simp [hk]; exact this
      · intro k
        have := hi.fail_bal k
        simp only [World.setHost, World.emit, failCnt_cons, ctrlFailCnt_cons]
        by_cases hk : k = h
        · subst hk; simp only [if_true, hmb, failPending, List.countP_cons] at this ⊢; simpa using this
        · simp [hk]; exact this
      · intro k d b hb
        simp only [World.setHost, World.emit, lastEx] at hb ⊢
        by_cases hk : h = k ∧ ds = d
        · obtain ⟨rfl, rfl⟩ := hk
          simp at hb; subst hb
          simp
        · simp only [hk, if_false] at hb
          have := hi.pub_hist k d b hb
          by_cases hkk : k = h
          · subst hkk
            have hne : ¬ d = ds := fun hh => hk ⟨rfl, hh.symm⟩
            simp [hne]; exact this
          · simp [hkk]; exact this
    · -- purge dropped
      apply inv_frame hi
      · intro k; simp [World.setHost, World.emit]; split <;> simp_all
      · intro k; simp [World.setHost, World.emit]; split <;> simp_all
      · intro k; simp [World.setHost, World.emit]; split <;> simp_all
      · intro k f hf hr; left; refine ⟨f, ?_, rfl, hr⟩; simp [World.setHost, World.emit] at hf; split at hf <;> simp_all
      · intro k d; simp only [World.setHost, World.emit]; split <;> simp_all
      · intro k d; simp [World.emit, World.setHost, storedCnt_cons]
      · intro k d; simp only [World.setHost, World.emit, annCnt_cons, annFailCnt_cons]; split <;> simp_all
      · intro k d
        simp only [World.setHost, World.emit, annCnt_cons, ctrlPubCnt_cons]
        by_cases hk : k = h
        · subst hk; simp only [if_true, hmb, pubPending, List.countP_cons]; simp
        · simp [hk]
      · intro k
        simp only [World.setHost, World.emit, failCnt_cons, ctrlFailCnt_cons]
        by_cases hk : k = h
        · subst hk; simp only [if_true, hmb, failPending, List.countP_cons]; simp
        · simp [hk]
      · intro k; simp only [World.setHost, World.emit]; split <;> simp_all
      · intro k d; simp [World.setHost, World.emit, lastEx]
      · intro k d n hm; simpa [World.emit, World.setHost] using hm

theorem inv_mstep {had} {w w' : World} (hs : MStep w w') (hi : Inv had w) : Inv had w' := by
  cases hs with
  | clean h => exact inv_cleanAll h hi
  | run h i flt => exact inv_stepAt h i flt hi
  | deliver i dup => exact inv_deliver i dup hi
  | drop i => exact inv_drop i hi
  | inject h m => exact inv_inject h m hi
  | recv h => exact inv_recvOne h hi
  | ctrl i dup => exact inv_ctrlRecv i dup hi
  | handle h _ guard => exact inv_handleHead h hi guard
  | retry h e => exact inv_retryOne h e hi
  | advance d => exact inv_advance d hi
  | exec h => exact inv_execHandle h hi
  | injectE h ds => exact inv_injectE h ds hi

theorem inv_mstar {had} {w w' : World} (hs : MStar w w') (hi : Inv had w) : Inv had w' := by
  induction hs with
  | refl => exact hi
  | tail _ hstep ih => exact inv_mstep hstep ih

/-! ### what a step can add to the log -/

/-- the condition (in the state before) under which an event can be emitted -/
def EvOk (w : World) : Event → Prop
  | .resubmit h i ds => i ∉ (w.hosts h).acks ∧ ds ∉ (w.hosts h).invalid
  | .submitted h _ ds => ds ∉ (w.hosts h).invalid
  | .stored h ds _ _ _ => ∃ f ∈ (w.hosts h).futs, f.key.ds = ds ∧ f.result = none
  | .sent h c _ _ => ∃ f ∈ (w.hosts h).futs, f.key.ds = c.ds ∧ f.result = none
  | .announced h ds i => ∃ f ∈ (w.hosts h).futs, ∃ p, f.key = .pay p ∧ p.ds = ds ∧ p.confirmIdx = i ∧
      f.result = none ∧ 2 ≤ f.stage
  | .purgeFwd h ds => ds ∈ (w.hosts h).published
  | .purgeDropped h ds => ds ∉ (w.hosts h).published
  | _ => True

structure Summary (w w' : World) : Prop where
  log : ∃ evs, w'.log = evs ++ w.log ∧ ∀ e ∈ evs, EvOk w e
  acks : ∀ h x, x ∈ (w.hosts h).acks → x ∈ (w'.hosts h).acks
  invalid : ∀ h x, x ∈ (w.hosts h).invalid → x ∈ (w'.hosts h).invalid

theorem Summary.rfl' (w : World) : Summary w w := ⟨⟨[], rfl, by simp⟩, fun _ _ h => h, fun _ _ h => h⟩

macro "summ_fields" : tactic => `(tactic|
  (intro k x hx
   first
   | exact hx
   | (simp [World.setHost, World.emit, World.crash, World.report, World.setFut] at hx ⊢
      first
      | exact hx
      | (split <;> simp_all [mem_insertS])
      | simp_all [mem_insertS])))

macro "summ1" : tactic => `(tactic|
  first
  | exact Summary.rfl' _
  | (refine ⟨?_, ?_, ?_⟩
     · first
       | exact ⟨[], rfl, by simp⟩
       | exact ⟨[_], rfl, by simp_all [EvOk]⟩
     · summ_fields
     · summ_fields))

macro "summ" : tactic => `(tactic| first | summ1 | (split <;> summ1))

theorem summ_advance (d : Nat) (w : World) : Summary w (advance d w) := by unfold advance; summ
theorem summ_drop (i : Nat) (w : World) : Summary w (dropFrame i w) := by unfold dropFrame; summ
theorem summ_deliver (i : Nat) (dup : Bool) (w : World) : Summary w (deliver i dup w) := by
  unfold deliver
  cases dup <;> simp only [] <;> split <;> (try split) <;> summ
theorem summ_inject (h : Nat) (m : Msg) (w : World) : Summary w (inject h m w) := by
  unfold inject
  split <;> (try split) <;> summ
theorem summ_injectE (h ds : Nat) (w : World) : Summary w (injectE h ds w) := by unfold injectE; summ
theorem summ_recvOne (h : Nat) (w : World) : Summary w (recvOne h w).1 := by
  unfold recvOne
  simp only
  split
  · summ
  · split
    · summ
    · summ
    · split <;> summ
theorem summ_ctrlRecv (i : Nat) (dup : Bool) (w : World) : Summary w (ctrlRecv i dup w) := by
  unfold ctrlRecv
  cases dup <;> simp only [] <;> split <;> (try split) <;> summ
theorem summ_cleanAll (h : Nat) (w : World) : Summary w (cleanAll h w) := by
  unfold cleanAll
  split
  · summ
  · refine ⟨⟨_, rfl, ?_⟩, ?_, ?_⟩
    · intro e he
      simp at he
      obtain ⟨k, _, rfl⟩ := he
      trivial
    · summ_fields
    · summ_fields
theorem summ_retryOne (h e : Nat) (w : World) : Summary w (retryOne h e w) := by
  unfold retryOne
  simp only
  split
  · summ
  · split
    · summ
    · split
      · summ
      · split
        · summ
        · split <;> summ
theorem summ_execHandle (h : Nat) (w : World) : Summary w (execHandle h w) := by
  unfold execHandle
  simp only
  split
  · summ
  · summ
  · summ
  · split <;> summ

theorem summ_setFut (h i : Nat) (f : Fut) {w w1 : World} (hs : Summary w w1) : Summary w (w1.setFut h i f) := by
  refine ⟨?_, ?_, ?_⟩
  · simpa [World.setFut, World.setHost] using hs.log
  · intro k x hx
    have := hs.acks k x hx
    simp [World.setFut, World.setHost]; split <;> simp_all
  · intro k x hx
    have := hs.invalid k x hx
    simp [World.setFut, World.setHost]; split <;> simp_all

theorem summ_report (h : Nat) (m : EMsg) (e : Event) (w : World) (he : EvOk w e) : Summary w (w.report h m e) := by
  refine ⟨⟨[e], rfl, by simpa using he⟩, ?_, ?_⟩
  · summ_fields
  · summ_fields

theorem summ_stepAt (h i : Nat) (flt : Fault) (w : World) : Summary w (stepAt h i flt w) := by
  unfold stepAt
  split
  · summ
  · split
    · rename_i c st hget
      have hmem : (⟨.cmd c, st, none⟩ : Fut) ∈ (w.hosts h).futs := List.mem_of_getElem? hget
      split
      · apply summ_setFut
        unfold sendOpen
        split
        · exact summ_report _ _ _ _ trivial
        · split
          · exact summ_report _ _ _ _ trivial
          · split
            · exact summ_report _ _ _ _ trivial
            · exact Summary.rfl' _
      · apply summ_setFut
        unfold sendData
        split
        · exact summ_report _ _ _ _ trivial
        · split
          · exact summ_report _ _ _ _ trivial
          · refine ⟨⟨[_], rfl, ?_⟩, ?_, ?_⟩
            · intro e he
              simp at he; subst he
              exact ⟨_, hmem, rfl, rfl⟩
            · summ_fields
            · summ_fields
    · rename_i p st hget
      have hmem : (⟨.pay p, st, none⟩ : Fut) ∈ (w.hosts h).futs := List.mem_of_getElem? hget
      apply summ_setFut
      unfold storeStep
      simp only
      split
      · split
        · exact summ_report _ _ _ _ trivial
        · split
          · summ
          · summ
      · split
        · exact summ_report _ _ _ _ trivial
        · refine ⟨⟨[_], rfl, ?_⟩, ?_, ?_⟩
          · intro e he
            simp at he; subst he
            exact ⟨_, hmem, rfl, rfl⟩
          · summ_fields
          · summ_fields
      · rename_i hn0 hn1
        split
        · exact summ_report _ _ _ _ trivial
        · apply summ_report
          refine ⟨_, hmem, p, rfl, rfl, rfl, rfl, ?_⟩
          match st, hn0, hn1 with
          | 0, hn0, _ => exact absurd rfl hn0
          | 1, _, hn1 => exact absurd rfl hn1
          | n + 2, _, _ => simp
    · summ

theorem summ_handleHead (h : Nat) (w : World) : Summary w (handleHead h w) := by
  unfold handleHead
  simp only
  split
  · summ
  · split
    · summ
    · rename_i m rest _
      cases m with
      | cmd c =>
        simp only [handleMsg, World.setHost, if_true]
        split
        · summ
        · split <;> summ
      | pay p => simp only [handleMsg, World.setHost, if_true]; split <;> summ
      | ack i => simp only [handleMsg, World.setHost, if_true]; summ
      | purge ds =>
        simp only [handleMsg, purgeAct, World.setHost, if_true]
        summ

theorem summ_mstep {w w' : World} (hs : MStep w w') : Summary w w' := by
  cases hs with
  | clean h => exact summ_cleanAll h w
  | run h i flt => exact summ_stepAt h i flt w
  | deliver i dup => exact summ_deliver i dup w
  | drop i => exact summ_drop i w
  | inject h m => exact summ_inject h m w
  | recv h => exact summ_recvOne h w
  | ctrl i dup => exact summ_ctrlRecv i dup w
  | handle h _ _ => exact summ_handleHead h w
  | retry h e => exact summ_retryOne h e w
  | advance d => exact summ_advance d w
  | exec h => exact summ_execHandle h w
  | injectE h ds => exact summ_injectE h ds w

theorem count_stable (P : Event → Bool) {w w' : World} (hs : Summary w w')
    (hP : ∀ e, P e = true → ¬ EvOk w e) : w'.log.countP P = w.log.countP P := by
  obtain ⟨evs, hl, hev⟩ := hs.log
  rw [hl, List.countP_append]
  have : evs.countP P = 0 := by
    rw [List.countP_eq_zero]
    intro e he hp
    exact hP e hp (hev e he)
  omega

/-- once the ack of `idx` is in `acks`, it stays and no retry of `idx` is submitted -/
theorem acked_mstep {w w' : World} (hs : MStep w w') (h idx : Nat) (ha : idx ∈ (w.hosts h).acks) :
    idx ∈ (w'.hosts h).acks ∧ resubmitCnt w'.log h idx = resubmitCnt w.log h idx := by
  have s := summ_mstep hs
  refine ⟨s.acks h idx ha, ?_⟩
  unfold resubmitCnt
  apply count_stable _ s
  intro e he
  cases e <;> simp at he
  obtain ⟨rfl, rfl⟩ := he
  simp [EvOk, ha]

theorem acked_mstar {w w' : World} (hs : MStar w w') (h idx : Nat) (ha : idx ∈ (w.hosts h).acks) :
    idx ∈ (w'.hosts h).acks ∧ resubmitCnt w'.log h idx = resubmitCnt w.log h idx := by
  induction hs with
  | refl => exact ⟨ha, rfl⟩
  | tail _ hstep ih =>
    have := acked_mstep hstep h idx ih.1
    exact ⟨this.1, this.2.trans ih.2⟩

/-- once `ds` is invalid (purged) at `h`: it stays invalid, nothing is stored, submitted or sent for it -/
theorem purged_mstep {had} {w w' : World} (hs : MStep w w') (hi : Inv had w) (h ds : Nat)
    (hd : ds ∈ (w.hosts h).invalid) :
    ds ∈ (w'.hosts h).invalid ∧ storedCnt w'.log h ds = storedCnt w.log h ds ∧
    submitDsCnt w'.log h ds = submitDsCnt w.log h ds ∧ sentDsCnt w'.log h ds = sentDsCnt w.log h ds ∧
    annCnt w'.log h ds = annCnt w.log h ds := by
  have s := summ_mstep hs
  refine ⟨s.invalid h ds hd, ?_, ?_, ?_, ?_⟩
  · unfold storedCnt
    apply count_stable _ s
    intro e he
    cases e <;> simp at he
    obtain ⟨rfl, rfl⟩ := he
    simp only [EvOk]
    rintro ⟨f, hf, hk, hr⟩
    exact hi.inv_nofut _ _ hd f hf hk hr
  · unfold submitDsCnt
    apply count_stable _ s
    intro e he
    cases e <;> simp at he
    · obtain ⟨rfl, rfl⟩ := he; simp [EvOk, hd]
    · obtain ⟨rfl, rfl⟩ := he; simp [EvOk, hd]
  · unfold sentDsCnt
    apply count_stable _ s
    intro e he
    cases e <;> simp at he
    obtain ⟨rfl, rfl⟩ := he
    simp only [EvOk]
    rintro ⟨f, hf, hk, hr⟩
    exact hi.inv_nofut _ _ hd f hf hk hr
  · unfold annCnt
    apply count_stable _ s
    intro e he
    cases e <;> simp at he
    obtain ⟨rfl, rfl⟩ := he
    simp only [EvOk]
    rintro ⟨f, hf, p, hk, hpd, _, hr, _⟩
    exact hi.inv_nofut _ _ hd f hf (by rw [hk]; exact hpd) hr

theorem purged_mstar {had} {w w' : World} (hs : MStar w w') (hi : Inv had w) (h ds : Nat)
    (hd : ds ∈ (w.hosts h).invalid) :
    ds ∈ (w'.hosts h).invalid ∧ storedCnt w'.log h ds = storedCnt w.log h ds ∧
    submitDsCnt w'.log h ds = submitDsCnt w.log h ds ∧ sentDsCnt w'.log h ds = sentDsCnt w.log h ds ∧
    annCnt w'.log h ds = annCnt w.log h ds := by
  induction hs with
  | refl => exact ⟨hd, rfl, rfl, rfl, rfl⟩
  | tail hpre hstep ih =>
    have := purged_mstep hstep (inv_mstar hpre hi) h ds ih.1
    exact ⟨this.1, this.2.1.trans ih.2.1, this.2.2.1.trans ih.2.2.1, this.2.2.2.1.trans ih.2.2.2.1,
      this.2.2.2.2.trans ih.2.2.2.2⟩

/-! ### byte consistency -/

def PayOk (truth : Nat → String × String) (p : Payload) : Prop := (p.value, p.deser) = truth p.ds
def MsgOk (truth : Nat → String × String) : Msg → Prop
  | .pay p => PayOk truth p
  | _ => True
def FrameOk (truth : Nat → String × String) : Frame → Prop
  | .data _ _ _ p => PayOk truth p
  | .plain _ m => MsgOk truth m
def KeyOk (truth : Nat → String × String) : Key → Prop
  | .pay p => PayOk truth p
  | .cmd _ => True
def EvCons (truth : Nat → String × String) : Event → Prop
  | .stored _ ds _ b f => (b, f) = truth ds
  | .sent _ c b f => (b, f) = truth c.ds
  | .ctrlGot p => PayOk truth p
  | _ => True

/-- every copy of a dataset anywhere (stores, wire, sockets, inboxes, queued jobs, trace) is `truth ds` -/
structure Cons (truth : Nat → String × String) (w : World) : Prop where
  store : ∀ h, ∀ e ∈ (w.hosts h).store, e.2 = truth e.1
  net : ∀ fr ∈ w.net, FrameOk truth fr
  sock : ∀ h, ∀ fr ∈ (w.hosts h).sock, FrameOk truth fr
  inbox : ∀ h, ∀ m ∈ (w.hosts h).inbox, MsgOk truth m
  futs : ∀ h, ∀ f ∈ (w.hosts h).futs, KeyOk truth f.key
  log : ∀ e ∈ w.log, EvCons truth e

macro "cons_tac" hc:ident : tactic => `(tactic|
  first
  | exact $hc
  | (have h1 := ($hc).store; have h2 := ($hc).net; have h3 := ($hc).sock; have h4 := ($hc).inbox
     have h5 := ($hc).futs; have h6 := ($hc).log
     refine ⟨?_, ?_, ?_, ?_, ?_, ?_⟩ <;> intros <;>
       simp [World.setHost, World.emit, World.crash, World.report] at * <;>
       grind [FrameOk, MsgOk, KeyOk, EvCons, PayOk, List.mem_of_mem_eraseIdx]))

theorem cons_recvOne {truth} (h : Nat) {w : World} (hc : Cons truth w) : Cons truth (recvOne h w).1 := by
  unfold recvOne
  simp only
  split
  · exact hc
  · split
    · exact hc
    · rename_i heq
      have hs := hc.sock h; rw [heq] at hs; simp [FrameOk] at hs
      cons_tac hc
    · rename_i heq
      have hs := hc.sock h; rw [heq] at hs; simp [FrameOk] at hs
      split <;> cons_tac hc

theorem cons_advance {truth} (d : Nat) {w : World} (hc : Cons truth w) : Cons truth (advance d w) := by
  unfold advance; cons_tac hc

theorem cons_drop {truth} (i : Nat) {w : World} (hc : Cons truth w) : Cons truth (dropFrame i w) := by
  unfold dropFrame; cons_tac hc

theorem cons_deliver {truth} (i : Nat) (dup : Bool) {w : World} (hc : Cons truth w) : Cons truth (deliver i dup w) := by
  unfold deliver
  split
  · exact hc
  · rename_i fr hget
    have hfr := hc.net fr (List.mem_of_getElem? hget)
    cases dup <;> simp only [Bool.false_eq_true, if_false, if_true] <;> split <;> cons_tac hc

theorem cons_inject {truth} (h : Nat) (m : Msg) {w : World} (hc : Cons truth w) : Cons truth (inject h m w) := by
  unfold inject
  split
  · split <;> cons_tac hc
  · cons_tac hc
  · exact hc

theorem cons_injectE {truth} (h ds : Nat) {w : World} (hc : Cons truth w) : Cons truth (injectE h ds w) := by
  unfold injectE; cons_tac hc

theorem cons_execHandle {truth} (h : Nat) {w : World} (hc : Cons truth w) : Cons truth (execHandle h w) := by
  unfold execHandle
  simp only
  split
  · exact hc
  · cons_tac hc
  · cons_tac hc
  · split <;> cons_tac hc

theorem cons_ctrlRecv {truth} (i : Nat) (dup : Bool) {w : World} (hc : Cons truth w) : Cons truth (ctrlRecv i dup w) := by
  unfold ctrlRecv
  split
  · rename_i si sa p hget
    have hfr := hc.net _ (List.mem_of_getElem? hget)
    simp [FrameOk] at hfr
    cases dup <;> simp only [Bool.false_eq_true, if_false, if_true] <;> split <;> cons_tac hc
  · exact hc

theorem cons_cleanAll {truth} (h : Nat) {w : World} (hc : Cons truth w) : Cons truth (cleanAll h w) := by
  unfold cleanAll
  split
  · exact hc
  · have hcl := fun f hf => (cleanList_mem (w.hosts h).futs (w.hosts h).awaiting f hf).1
    have h1 := hc.store; have h2 := hc.net; have h3 := hc.sock; have h4 := hc.inbox
    have h5 := hc.futs; have h6 := hc.log
    refine ⟨?_, ?_, ?_, ?_, ?_, ?_⟩
    · intro k e he; simp only [World.setHost] at he; split at he <;> exact h1 _ e he
    · exact h2
    · intro k e he; simp only [World.setHost] at he; split at he <;> exact h3 _ e he
    · intro k e he; simp only [World.setHost] at he; split at he <;> exact h4 _ e he
    · intro k f hf
      simp [World.setHost] at hf
      split at hf
      · rename_i hk; subst hk; exact h5 k f (hcl f hf)
      · exact h5 k f hf
    · intro e he
      simp at he
      rcases he with ⟨k, _, rfl⟩ | he
      · trivial
      · exact h6 e he

theorem cons_setFut {truth} (h i : Nat) (f f' : Fut) {w w1 : World} (hc : Cons truth w1)
    (hfuts : (w1.hosts h).futs = (w.hosts h).futs)
    (hget : (w.hosts h).futs[i]? = some f) (hkey : f'.key = f.key) : Cons truth (w1.setFut h i f') := by
  have hk : KeyOk truth f'.key := by
    rw [hkey]; exact hc.futs h f (by rw [hfuts]; exact List.mem_of_getElem? hget)
  have h1 := hc.store; have h3 := hc.sock; have h4 := hc.inbox; have h5 := hc.futs
  refine ⟨?_, hc.net, ?_, ?_, ?_, hc.log⟩
  · intro k e he; simp only [World.setFut, World.setHost] at he; split at he <;> exact h1 _ e he
  · intro k e he; simp only [World.setFut, World.setHost] at he; split at he <;> exact h3 _ e he
  · intro k e he; simp only [World.setFut, World.setHost] at he; split at he <;> exact h4 _ e he
  · intro k g hg
    simp [World.setFut, World.setHost] at hg
    split at hg
    · rename_i hkk; subst hkk
      simp at hg
      rcases List.mem_or_eq_of_mem_set hg with hg | hg
      · exact h5 k g hg
      · subst hg; exact hk
    · exact h5 k g hg

theorem cons_report {truth} (h : Nat) (m : EMsg) (e : Event) (he : EvCons truth e) {w : World} (hc : Cons truth w) :
    Cons truth (w.report h m e) := by
  cons_tac hc


theorem sendOpen_futs (h : Nat) (c : Cmd) (flt : Fault) (w : World) (k : Nat) :
    ((sendOpen h c flt w).1.hosts k).futs = (w.hosts k).futs := by
  unfold sendOpen
  split
  · exact (report_futs _ _ _ _ k).1
  · split
    · exact (report_futs _ _ _ _ k).1
    · split
      · exact (report_futs _ _ _ _ k).1
      · rfl

theorem sendData_futs (h : Nat) (c : Cmd) (flt : Fault) (w : World) (k : Nat) :
    ((sendData h c flt w).1.hosts k).futs = (w.hosts k).futs := by
  unfold sendData
  split
  · exact (report_futs _ _ _ _ k).1
  · split
    · exact (report_futs _ _ _ _ k).1
    · rfl

theorem storeStep_futs (h : Nat) (p : Payload) (st : Nat) (flt : Fault) (w : World) (k : Nat) :
    ((storeStep h p st flt w).1.hosts k).futs = (w.hosts k).futs := by
  unfold storeStep
  simp only
  split
  · split
    · exact (report_futs _ _ _ _ k).1
    · split
      · rfl
      · simp [World.setHost]; split <;> simp_all
  · split
    · exact (report_futs _ _ _ _ k).1
    · simp [World.setHost, World.emit]; split <;> simp_all
  · split
    · exact (report_futs _ _ _ _ k).1
    · exact (report_futs _ _ _ _ k).1

theorem cons_stepAt {truth} (h i : Nat) (flt : Fault) {w : World} (hc : Cons truth w) : Cons truth (stepAt h i flt w) := by
  unfold stepAt
  split
  · exact hc
  · split
    · rename_i c st hget
      split
      · refine cons_setFut h i ⟨.cmd c, st, none⟩ _ ?_ ?_ hget rfl
        · unfold sendOpen
          split
          · exact cons_report _ _ _ (by simp [EvCons]) hc
          · split
            · exact cons_report _ _ _ (by simp [EvCons]) hc
            · split
              · exact cons_report _ _ _ (by simp [EvCons]) hc
              · exact hc
        · exact sendOpen_futs h c flt w h
      · refine cons_setFut h i ⟨.cmd c, st, none⟩ _ ?_ ?_ hget rfl
        · unfold sendData
          split
          · exact cons_report _ _ _ (by simp [EvCons]) hc
          · rename_i b f hl
            have := hc.store h _ (lookup_mem _ _ _ hl)
            simp at this
            split
            · exact cons_report _ _ _ (by simp [EvCons]) hc
            · cons_tac hc
        · exact sendData_futs h c flt w h
    · rename_i p st hget
      have hk : PayOk truth p := hc.futs h _ (List.mem_of_getElem? hget)
      unfold PayOk at hk
      refine cons_setFut h i ⟨.pay p, st, none⟩ _ ?_ ?_ hget rfl
      · unfold storeStep
        simp only
        split
        · split
          · exact cons_report _ _ _ (by simp [EvCons]) hc
          · split <;> cons_tac hc
        · split
          · exact cons_report _ _ _ (by simp [EvCons]) hc
          · cons_tac hc
        · split
          · exact cons_report _ _ _ (by simp [EvCons]) hc
          · exact cons_report _ _ _ (by simp [EvCons]) hc
      · exact storeStep_futs h p st flt w h
    · exact hc

theorem cons_handleHead {truth} (h : Nat) {w : World} (hc : Cons truth w) : Cons truth (handleHead h w) := by
  unfold handleHead
  simp only
  split
  · exact hc
  · split
    · exact hc
    · rename_i m rest hin
      have hs := hc.inbox h; rw [hin] at hs; simp at hs
      cases m with
      | cmd c =>
        simp only [handleMsg, World.setHost, if_true]
        split
        · cons_tac hc
        · split <;> cons_tac hc
      | pay p => simp only [handleMsg, World.setHost, if_true]; split <;> cons_tac hc
      | ack i => simp only [handleMsg, World.setHost, if_true]; cons_tac hc
      | purge ds =>
        simp only [handleMsg, purgeAct, World.setHost, if_true]
        have he := fun e he => mem_eraseA (w.hosts h).store ds e he
        cons_tac hc

theorem cons_retryOne {truth} (h e : Nat) {w : World} (hc : Cons truth w) : Cons truth (retryOne h e w) := by
  unfold retryOne
  simp only
  split
  · exact hc
  · split
    · cons_tac hc
    · split
      · cons_tac hc
      · split
        · cons_tac hc
        · split <;> cons_tac hc

theorem cons_mstep {truth} {w w' : World} (hs : MStep w w') (hc : Cons truth w) : Cons truth w' := by
  cases hs with
  | clean h => exact cons_cleanAll h hc
  | run h i flt => exact cons_stepAt h i flt hc
  | deliver i dup => exact cons_deliver i dup hc
  | drop i => exact cons_drop i hc
  | inject h m => exact cons_inject h m hc
  | recv h => exact cons_recvOne h hc
  | ctrl i dup => exact cons_ctrlRecv i dup hc
  | handle h _ _ => exact cons_handleHead h hc
  | retry h e => exact cons_retryOne h e hc
  | advance d => exact cons_advance d hc
  | exec h => exact cons_execHandle h hc
  | injectE h ds => exact cons_injectE h ds hc

theorem cons_mstar {truth} {w w' : World} (hs : MStar w w') (hc : Cons truth w) : Cons truth w' := by
  induction hs with
  | refl => exact hc
  | tail _ hstep ih => exact cons_mstep hstep ih

/-! ### operations are compositions of micro steps -/

theorem MStar.single {w w' : World} (h : MStep w w') : MStar w w' := MStar.tail (MStar.refl w) h

theorem MStar.trans {a b c : World} (h1 : MStar a b) (h2 : MStar b c) : MStar a c := by
  induction h2 with
  | refl => exact h1
  | tail _ hs ih => exact MStar.tail ih hs

theorem runAt_mstar (h i : Nat) (w : World) : MStar w (runAt h i w) :=
  MStar.tail (MStar.tail (MStar.single (MStep.run h i .none w)) (MStep.run h i .none _)) (MStep.run h i .none _)

theorem runChoice_mstar (h c : Nat) (w : World) : MStar w (runChoice h c w) := by
  unfold runChoice
  simp only
  split
  · exact MStar.refl w
  · split
    · exact MStar.refl w
    · exact runAt_mstar h _ w

theorem stepChoice_mstar (h c : Nat) (flt : Fault) (w : World) : MStar w (stepChoice h c flt w) := by
  unfold stepChoice
  simp only
  split
  · exact MStar.refl w
  · split
    · exact MStar.refl w
    · exact MStar.single (MStep.run h _ flt w)

/-- the generated constants say: the purge arm's `wait` is the blocking one (checked against the table read from
data_server.py; a `timeout=` or another `return_when` in the source makes this `decide` fail). -/
theorem purgeWaitBlocks_true : purgeWaitBlocks = true := by decide

theorem purgeWait_eq (h : Nat) (fuel : Nat) (sched : List Nat) (w : World) :
    purgeWait h fuel sched w = waitAll h fuel sched w := by
  simp [purgeWait, purgeWaitWith, purgeWaitBlocks_true]

theorem waitAll_mstar (h : Nat) (fuel : Nat) (sched : List Nat) (w : World) : MStar w (waitAll h fuel sched w).1 := by
  induction fuel generalizing sched w with
  | zero => exact MStar.refl w
  | succ n ih =>
    unfold waitAll
    split
    · exact MStar.refl w
    · exact MStar.trans (runChoice_mstar h _ w) (ih _ _)

theorem maybeClean_mstar (h : Nat) (fuel : Nat) (sched : List Nat) (w : World) : MStar w (maybeClean h fuel sched w).1 := by
  induction fuel generalizing sched w with
  | zero => exact MStar.single (MStep.clean h w)
  | succ n ih =>
    unfold maybeClean
    simp only
    split
    · exact MStar.single (MStep.clean h w)
    · exact MStar.trans (MStar.single (MStep.clean h w)) (MStar.trans (runChoice_mstar h _ _) (ih _ _))

theorem mclean_mstar (h : Nat) (sched : List Nat) (w : World) : MStar w (mclean h sched w).1 :=
  maybeClean_mstar h _ sched w

theorem recvAll_mstar (h : Nat) (fuel : Nat) (w : World) : MStar w (recvAll h fuel w) := by
  induction fuel generalizing w with
  | zero => exact MStar.refl w
  | succ n ih =>
    unfold recvAll
    simp only
    split
    · exact MStar.trans (MStar.single (MStep.recv h w)) (ih _)
    · exact MStar.single (MStep.recv h w)

theorem retryLoop_mstar (h : Nat) (q : List Nat) (sched : List Nat) (w : World) : MStar w (retryLoop h q sched w).1 := by
  induction q generalizing sched w with
  | nil => exact MStar.refl w
  | cons e q ih =>
    unfold retryLoop
    split
    · exact MStar.refl w
    · exact MStar.trans (mclean_mstar h sched w) (MStar.trans (MStar.single (MStep.retry h e _)) (ih _ _))

theorem feed_mstar (h : Nat) (ins : List Input) (w : World) : MStar w (feed h ins w) := by
  induction ins generalizing w with
  | nil => exact MStar.refl w
  | cons i ins ih =>
    cases i with
    | frame i dup =>
      unfold feed
      split
      · split
        · exact MStar.trans (MStar.single (MStep.deliver i dup w)) (ih _)
        · exact ih _
      · exact ih _
    | msg m =>
      unfold feed
      exact MStar.trans (MStar.single (MStep.inject h m w)) (ih _)

theorem feedE_mstar (h : Nat) (ps : List Nat) (w : World) : MStar w (feedE h ps w) := by
  induction ps generalizing w with
  | nil => exact MStar.refl w
  | cons d ps ih => exact MStar.trans (MStar.single (MStep.injectE h d w)) (ih _)

theorem execAll_mstar (h : Nat) (fuel : Nat) (w : World) : MStar w (execAll h fuel w) := by
  induction fuel generalizing w with
  | zero => exact MStar.refl w
  | succ n ih => exact MStar.trans (MStar.single (MStep.exec h w)) (ih _)

theorem etick_mstar (h : Nat) (ps : List Nat) (w : World) : MStar w (etick h ps w) :=
  MStar.trans (feedE_mstar h ps w) (execAll_mstar h _ _)

/-! the purge branch really waits: after `wait(ALL_COMPLETED)` and `maybe_clean` no future is left -/

/-- stages a fault-free job still has to go through -/
def rem : Key → Nat → Nat
  | .cmd _, st => if st = 0 then 2 else 1
  | .pay _, st => 3 - min st 2

theorem sendOpen_crashed (h : Nat) (c : Cmd) (flt : Fault) (w : World) (k : Nat) :
    ((sendOpen h c flt w).1.hosts k).crashed = (w.hosts k).crashed := by
  unfold sendOpen
  split
  · exact (report_futs _ _ _ _ k).2
  · split
    · exact (report_futs _ _ _ _ k).2
    · split
      · exact (report_futs _ _ _ _ k).2
      · rfl

theorem sendData_crashed (h : Nat) (c : Cmd) (flt : Fault) (w : World) (k : Nat) :
    ((sendData h c flt w).1.hosts k).crashed = (w.hosts k).crashed := by
  unfold sendData
  split
  · exact (report_futs _ _ _ _ k).2
  · split
    · exact (report_futs _ _ _ _ k).2
    · rfl

theorem storeStep_crashed (h : Nat) (p : Payload) (st : Nat) (flt : Fault) (w : World) (k : Nat) :
    ((storeStep h p st flt w).1.hosts k).crashed = (w.hosts k).crashed := by
  unfold storeStep
  simp only
  split
  · split
    · exact (report_futs _ _ _ _ k).2
    · split
      · rfl
      · simp [World.setHost]; split <;> simp_all
  · split
    · exact (report_futs _ _ _ _ k).2
    · simp [World.setHost, World.emit]; split <;> simp_all
  · split
    · exact (report_futs _ _ _ _ k).2
    · exact (report_futs _ _ _ _ k).2

theorem storeStep_next (h : Nat) (p : Payload) (st n : Nat) (flt : Fault) (w : World)
    (hn : (storeStep h p st flt w).2 = some n) : rem (.pay p) n < rem (.pay p) st := by
  unfold storeStep at hn
  simp only at hn
  split at hn
  · split at hn
    · cases hn
    · split at hn
      · cases hn
      · cases hn; simp [rem]
  · split at hn
    · cases hn
    · cases hn; simp [rem]
  · split at hn <;> cases hn

/-- one stage of the job of a pending entry: the entry is replaced, the job is finished or nearer to its end -/
theorem stepAt_pending (h i : Nat) (flt : Fault) (w : World) (key : Key) (st : Nat)
    (hc : (w.hosts h).crashed = false) (hget : (w.hosts h).futs[i]? = some ⟨key, st, none⟩) :
    ∃ st' r', ((stepAt h i flt w).hosts h).futs = (w.hosts h).futs.set i ⟨key, st', r'⟩ ∧
      ((stepAt h i flt w).hosts h).crashed = false ∧ (r' = none → rem key st' < rem key st) := by
  unfold stepAt
  simp only [hc, Bool.false_eq_true, if_false]
  cases key with
  | cmd c =>
    simp only [hget]
    split
    · rename_i h0
      refine ⟨if (sendOpen h c flt w).2 then 1 else 0,
        if (sendOpen h c flt w).2 then none else some (.ok w.now), ?_, ?_, ?_⟩
      · simp [World.setFut, World.setHost, sendOpen_futs]
      · simp [World.setFut, World.setHost, sendOpen_crashed, hc]
      · intro hr
        split at hr
        · rename_i hb; simp [hb, h0, rem]
        · cases hr
    · refine ⟨st, some (sendData h c flt w).2, ?_, ?_, ?_⟩
      · simp [World.setFut, World.setHost, sendData_futs]
      · simp [World.setFut, World.setHost, sendData_crashed, hc]
      · intro hr; cases hr
  | pay p =>
    simp only [hget]
    refine ⟨(storeStep h p st flt w).2.getD st,
      if (storeStep h p st flt w).2.isSome then none else some (.ok w.now), ?_, ?_, ?_⟩
    · simp [World.setFut, World.setHost, storeStep_futs]
    · simp [World.setFut, World.setHost, storeStep_crashed, hc]
    · intro hr
      cases hn : (storeStep h p st flt w).2 with
      | none => simp [hn] at hr
      | some n => simp only [hn, Option.getD_some]; exact storeStep_next h p st n flt w hn

theorem stepAt_finished (h i : Nat) (flt : Fault) (w : World) (key : Key) (st : Nat) (r : Res)
    (hget : (w.hosts h).futs[i]? = some ⟨key, st, some r⟩) : stepAt h i flt w = w := by
  unfold stepAt
  split
  · rfl
  · rw [hget]; cases key <;> rfl

def stepN (h i : Nat) : Nat → World → World
  | 0, w => w
  | n + 1, w => stepN h i n (stepAt h i .none w)

theorem runAt_eq (h i : Nat) (w : World) : runAt h i w = stepN h i 3 w := rfl

theorem stepN_done (h i : Nat) (n : Nat) (w : World) (key : Key) (st : Nat) (ro : Option Res)
    (hc : (w.hosts h).crashed = false) (hget : (w.hosts h).futs[i]? = some ⟨key, st, ro⟩)
    (hrem : ro = none → rem key st ≤ n) :
    ∃ st' r', ((stepN h i n w).hosts h).futs = (w.hosts h).futs.set i ⟨key, st', some r'⟩ ∧
      ((stepN h i n w).hosts h).crashed = false := by
  have hlt : i < (w.hosts h).futs.length := by
    rcases Nat.lt_or_ge i (w.hosts h).futs.length with hh | hh
    · exact hh
    · rw [List.getElem?_eq_none hh] at hget; cases hget
  induction n generalizing w st ro with
  | zero =>
    cases ro with
    | none =>
      have := hrem rfl
      have hpos : 0 < rem key st := by cases key <;> simp [rem] <;> (try split) <;> omega
      omega
    | some r =>
      refine ⟨st, r, ?_, hc⟩
      simp only [stepN]
      have hg := List.getElem?_eq_some_iff.mp hget
      obtain ⟨hl, he⟩ := hg
      rw [← he, List.set_getElem_self]
  | succ n ih =>
    cases ro with
    | some r =>
      simp only [stepN, stepAt_finished h i .none w key st r hget]
      exact ih w st (some r) hc hget (fun hh => by cases hh) hlt
    | none =>
      obtain ⟨st', r', hf, hc', hr'⟩ := stepAt_pending h i .none w key st hc hget
      have hget' : ((stepAt h i .none w).hosts h).futs[i]? = some ⟨key, st', r'⟩ := by
        rw [hf]; exact List.getElem?_set_self hlt
      have hlt' : i < ((stepAt h i .none w).hosts h).futs.length := by rw [hf]; simpa using hlt
      obtain ⟨s2, r2, hf2, hc2⟩ := ih (stepAt h i .none w) st' r' hc' hget'
        (fun hh => by have := hr' hh; have := hrem rfl; omega) hlt'
      refine ⟨s2, r2, ?_, hc2⟩
      simp only [stepN]
      rw [hf2, hf, List.set_set]

theorem rem_le (key : Key) (st : Nat) : rem key st ≤ 3 := by
  cases key <;> simp [rem] <;> (try split) <;> omega

theorem runAt_done (h i : Nat) (w : World) (key : Key) (st : Nat)
    (hc : (w.hosts h).crashed = false) (hget : (w.hosts h).futs[i]? = some ⟨key, st, none⟩) :
    ∃ st' r', ((runAt h i w).hosts h).futs = (w.hosts h).futs.set i ⟨key, st', some r'⟩ ∧
      ((runAt h i w).hosts h).crashed = false := by
  rw [runAt_eq]
  exact stepN_done h i 3 w key st none hc hget (fun _ => rem_le key st)

theorem nPending_eq_countP (fs : List Fut) : nPending fs = fs.countP (fun f => f.result.isNone) := by
  unfold nPending; rw [List.countP_eq_length_filter]

theorem nPending_set_done (fs : List Fut) (i : Nat) (key : Key) (st st' : Nat) (r : Res)
    (h : fs[i]? = some ⟨key, st, none⟩) : nPending (fs.set i ⟨key, st', some r⟩) + 1 = nPending fs := by
  rw [nPending_eq_countP, nPending_eq_countP]
  have := countP_set_add (fun f : Fut => f.result.isNone) fs i _ ⟨key, st', some r⟩ h
  simpa using this

theorem pendingIdx_some (fs : List Fut) (k : Nat) (hk : k < nPending fs) :
    ∃ i key st, pendingIdx fs k = some i ∧ fs[i]? = some ⟨key, st, none⟩ := by
  induction fs generalizing k with
  | nil => simp [nPending] at hk
  | cons g gs ih =>
    obtain ⟨gk, gs', gr⟩ := g
    cases gr with
    | none =>
      simp only [pendingIdx]
      by_cases h0 : k = 0
      · exact ⟨0, gk, gs', by simp [h0], by simp⟩
      · have hk' : k - 1 < nPending gs := by simp [nPending] at hk ⊢; omega
        obtain ⟨i, key, st, hi, hg⟩ := ih (k - 1) hk'
        exact ⟨i + 1, key, st, by simp [h0, hi], by simpa using hg⟩
    | some t =>
      simp only [pendingIdx]
      have hk' : k < nPending gs := by simpa [nPending] using hk
      obtain ⟨i, key, st, hi, hg⟩ := ih k hk'
      exact ⟨i + 1, key, st, by simp [hi], by simpa using hg⟩

theorem runChoice_pending (h c : Nat) (w : World) (hc : (w.hosts h).crashed = false)
    (hn : nPending (w.hosts h).futs ≠ 0) :
    nPending ((runChoice h c w).hosts h).futs + 1 = nPending (w.hosts h).futs ∧
    ((runChoice h c w).hosts h).crashed = false := by
  unfold runChoice
  simp only [hn, if_false]
  have hlt : c % nPending (w.hosts h).futs < nPending (w.hosts h).futs := Nat.mod_lt _ (Nat.pos_of_ne_zero hn)
  obtain ⟨i, key, st, hi, hg⟩ := pendingIdx_some _ _ hlt
  rw [hi]
  obtain ⟨st', r', hf, hc'⟩ := runAt_done h i w key st hc hg
  simp only
  rw [hf]
  exact ⟨nPending_set_done _ _ _ _ _ _ hg, hc'⟩

theorem waitAll_done (h : Nat) (fuel : Nat) (sched : List Nat) (w : World) (hc : (w.hosts h).crashed = false)
    (hf : nPending (w.hosts h).futs ≤ fuel) :
    nPending (((waitAll h fuel sched w).1.hosts h).futs) = 0 ∧ ((waitAll h fuel sched w).1.hosts h).crashed = false := by
  induction fuel generalizing sched w with
  | zero => simp [waitAll]; exact ⟨by omega, hc⟩
  | succ n ih =>
    unfold waitAll
    split
    · rename_i h0; exact ⟨h0, hc⟩
    · rename_i h0
      have := runChoice_pending h (sched.headD 0) w hc h0
      exact ih _ _ this.2 (by omega)

theorem nPending_le_length (fs : List Fut) : nPending fs ≤ fs.length := by
  unfold nPending; exact List.length_filter_le _ _

theorem cleanList_done (fs : List Fut) (aw : List (Nat × Cmd × Option Nat)) (h0 : nPending fs = 0) :
    (cleanList fs aw).2 = [] := by
  induction fs generalizing aw with
  | nil => rfl
  | cons g gs ih =>
    obtain ⟨gk, gst, gr⟩ := g
    cases gr with
    | none => simp [nPending] at h0
    | some t =>
      have h0' : nPending gs = 0 := by simpa [nPending] using h0
      unfold cleanList
      simp only
      cases t <;> cases gk <;> simp [ih _ h0']

theorem mclean_nil (h : Nat) (sched : List Nat) (w : World) (hc : (w.hosts h).crashed = false)
    (h0 : nPending (w.hosts h).futs = 0) : ((mclean h sched w).1.hosts h).futs = [] := by
  have hcl : ((cleanAll h w).hosts h).futs = [] := by
    simp [cleanAll, hc, World.setHost, cleanList_done _ _ h0]
  unfold mclean
  cases (w.hosts h).futs.length with
  | zero => simpa [maybeClean] using hcl
  | succ n => simp [maybeClean, hcl, cap]

theorem handleAll_mstar (h : Nat) (fuel : Nat) (sched : List Nat) (w : World) : MStar w (handleAll h fuel sched w).1 := by
  induction fuel generalizing sched w with
  | zero => exact MStar.refl w
  | succ n ih =>
    unfold handleAll
    simp only [purgeWait_eq]
    split
    · exact MStar.refl w
    · rename_i hcr
      have hc : (w.hosts h).crashed = false := by simpa using hcr
      split
      · exact MStar.refl w
      · -- purge: wait for all, clean, then handle
        have hw := waitAll_done h (w.hosts h).futs.length sched w hc (nPending_le_length _)
        have hnil := mclean_nil h (waitAll h (w.hosts h).futs.length sched w).2 _ hw.2 hw.1
        generalize hr1 : waitAll h (w.hosts h).futs.length sched w = r1 at hw hnil
        have s1 : MStar w r1.1 := by rw [← hr1]; exact waitAll_mstar h _ sched w
        generalize hr2 : mclean h r1.2 r1.1 = r2 at hnil
        have s2 : MStar r1.1 r2.1 := by rw [← hr2]; exact mclean_mstar h _ _
        have s3 : MStar r2.1 (handleHead h r2.1) := by
          refine MStar.single (MStep.handle h r2.1 ?_)
          intro ds rest _
          rw [hnil]; rfl
        exact MStar.trans s1 (MStar.trans s2 (MStar.trans s3 (ih _ _)))
      · rename_i m rest hne hin
        refine MStar.trans (MStar.single (MStep.handle h w ?_)) (ih _ _)
        intro ds rest' hin'
        rw [hin] at hin'
        injection hin' with h1 _
        exact absurd h1 (hne ds)

theorem tick_mstar (h : Nat) (ins : List Input) (sched : List Nat) (w : World) : MStar w (tick h ins sched w) := by
  unfold tick tickRest
  simp only
  split
  · exact feed_mstar h ins w
  · refine MStar.trans (feed_mstar h ins w) ?_
    refine MStar.trans (mclean_mstar h sched _) ?_
    split
    · exact MStar.trans (recvAll_mstar h _ _) (handleAll_mstar h _ _ _)
    · exact MStar.trans (recvAll_mstar h _ _) (MStar.trans (handleAll_mstar h _ _ _) (retryLoop_mstar h _ _ _))

theorem step_mstar (w : World) (op : Op) : MStar w (step w op) := by
  cases op with
  | tick h ins sched => exact tick_mstar h ins sched w
  | job h c => exact runChoice_mstar h c w
  | jobstep h c flt => exact stepChoice_mstar h c flt w
  | etick h ps => exact etick_mstar h ps w
  | adv d => exact MStar.single (MStep.advance d w)
  | drop i => exact MStar.single (MStep.drop i w)
  | ctrl i dup => exact MStar.single (MStep.ctrl i dup w)

theorem run_mstar (w : World) (ops : List Op) : MStar w (run w ops) := by
  induction ops generalizing w with
  | nil => exact MStar.refl w
  | cons op ops ih => exact MStar.trans (step_mstar w op) (ih _)

theorem run_append (w : World) (a b : List Op) : run w (a ++ b) = run (run w a) b := by
  simp [run, List.foldl_append]

end Aux
end EkwVerif.Transfer
