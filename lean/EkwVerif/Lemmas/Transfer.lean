/-
Helper lemmas for C07 (Model/Transfer.lean): association lists, the safety invariant `Inv`
and its preservation by every micro step, byte consistency `Cons`, monotonicity facts used by the
split-history theorems, and the refinement of operations to micro steps.
-/
import EkwVerif.Model.Transfer

namespace EkwVerif.Transfer
namespace Aux

/-! ### association lists -/

theorem lookup_mem {β : Type} (l : List (Nat × β)) (x : Nat) (v : β) (h : lookup l x = some v) : (x, v) ∈ l := by
  induction l with
  | nil => simp [lookup] at h
  | cons e l ih =>
    obtain ⟨k, b⟩ := e
    by_cases hk : k = x
    · simp [lookup, hk] at h; subst hk; subst h; simp
    · simp [lookup, hk] at h; exact List.mem_cons_of_mem _ (ih h)

theorem lookup_append_none {β : Type} (l : List (Nat × β)) (x y : Nat) (v : β) (h : lookup l x = none) :
    lookup (l ++ [(y, v)]) x = if y = x then some v else none := by
  induction l with
  | nil => simp [lookup]
  | cons e l ih =>
    obtain ⟨k, b⟩ := e
    by_cases hk : k = x
    · simp [lookup, hk] at h
    · simp [lookup, hk] at h ⊢; exact ih h

theorem lookup_append_some {β : Type} (l : List (Nat × β)) (x y : Nat) (v u : β) (h : lookup l x = some u) :
    lookup (l ++ [(y, v)]) x = some u := by
  induction l with
  | nil => simp [lookup] at h
  | cons e l ih =>
    obtain ⟨k, b⟩ := e
    by_cases hk : k = x
    · simp [lookup, hk] at h ⊢; exact h
    · simp [lookup, hk] at h ⊢; exact ih h

theorem lookup_eraseA_self {β : Type} (l : List (Nat × β)) (x : Nat) : lookup (eraseA l x) x = none := by
  induction l with
  | nil => simp [eraseA, lookup]
  | cons e l ih =>
    obtain ⟨k, b⟩ := e
    by_cases hk : k = x
    · simpa [eraseA, hk] using ih
    · simpa [eraseA, hk, lookup] using ih

theorem lookup_eraseA_ne {β : Type} (l : List (Nat × β)) (x y : Nat) (hxy : x ≠ y) :
    lookup (eraseA l x) y = lookup l y := by
  induction l with
  | nil => simp [eraseA, lookup]
  | cons e l ih =>
    obtain ⟨k, b⟩ := e
    by_cases hk : k = x
    · subst hk; simpa [eraseA, lookup, hxy] using ih
    · by_cases hy : k = y
      · subst hy; simp [eraseA, List.filter_cons, hk, lookup]
      · simpa [eraseA, hk, lookup, hy] using ih

theorem lookup_none_copies (s : List (Nat × String × String)) (ds : Nat) (h : lookup s ds = none) : copies s ds = 0 := by
  induction s with
  | nil => simp [copies]
  | cons e l ih =>
    obtain ⟨k, b⟩ := e
    by_cases hk : k = ds
    · simp [lookup, hk] at h
    · simp [lookup, hk] at h; simpa [copies, hk] using ih h

theorem copies_append (s : List (Nat × String × String)) (ds d : Nat) (v : String × String) :
    copies (s ++ [(d, v)]) ds = copies s ds + (if d = ds then 1 else 0) := by
  by_cases h : d = ds <;> simp [copies, List.filter_append, h]

theorem copies_eraseA_le (s : List (Nat × String × String)) (x ds : Nat) : copies (eraseA s x) ds ≤ copies s ds := by
  unfold copies eraseA
  exact List.Sublist.length_le (List.Sublist.filter _ List.filter_sublist)

theorem mem_eraseA {β : Type} (l : List (Nat × β)) (x : Nat) (e : Nat × β) (h : e ∈ eraseA l x) : e ∈ l := by
  simp [eraseA] at h; exact h.1

theorem mem_insertS {α : Type} [DecidableEq α] (l : List α) (x y : α) : y ∈ insertS l x ↔ y ∈ l ∨ y = x := by
  unfold insertS
  by_cases h : x ∈ l
  · simp [h]; intro hy; subst hy; exact h
  · simp [h]

/-! ### the safety invariant -/

def hadN (had : Nat → Nat → Bool) (h ds : Nat) : Nat := if had h ds then 1 else 0

/-- `had h ds` = host `h` held `ds` before the history started. -/
structure Inv (had : Nat → Nat → Bool) (w : World) : Prop where
  cnt_le : ∀ h ds, storedCnt w.log h ds + hadN had h ds ≤ 1
  cnt_has : ∀ h ds, 0 < storedCnt w.log h ds + hadN had h ds →
      (lookup (w.hosts h).store ds).isSome ∨ ds ∈ (w.hosts h).invalid
  inv_nofut : ∀ h ds, ds ∈ (w.hosts h).invalid → ∀ f ∈ (w.hosts h).futs, f.key.ds = ds → f.result ≠ none
  inv_nostore : ∀ h ds, ds ∈ (w.hosts h).invalid → lookup (w.hosts h).store ds = none
  ann_eq : ∀ h ds, annCnt w.log h ds = storedCnt w.log h ds
  copies_le : ∀ h ds, copies (w.hosts h).store ds ≤ 1
  purge_ok : ∀ h ds k, Event.purged h ds k ∈ w.log → k = 0
  purged_inv : ∀ h ds k, Event.purged h ds k ∈ w.log → ds ∈ (w.hosts h).invalid

/-- events that do not touch the counters of `Inv` -/
def Neutral : Event → Prop
  | .stored .. => False
  | .announced .. => False
  | .purged .. => False
  | _ => True

theorem inv_frame {had : Nat → Nat → Bool} {w w' : World} (hi : Inv had w)
    (hstore : ∀ h, (w'.hosts h).store = (w.hosts h).store)
    (hinv : ∀ h, (w'.hosts h).invalid = (w.hosts h).invalid)
    (hfut : ∀ h f, f ∈ (w'.hosts h).futs → f.result = none →
        (f ∈ (w.hosts h).futs ∨ f.key.ds ∉ (w.hosts h).invalid))
    (hst : ∀ h ds, storedCnt w'.log h ds = storedCnt w.log h ds)
    (han : ∀ h ds, annCnt w'.log h ds = annCnt w.log h ds)
    (hpu : ∀ h ds k, Event.purged h ds k ∈ w'.log → Event.purged h ds k ∈ w.log) : Inv had w' := by
  refine ⟨?_, ?_, ?_, ?_, ?_, ?_, ?_, ?_⟩
  · intro h ds; rw [hst]; exact hi.cnt_le h ds
  · intro h ds; rw [hst, hstore, hinv]; exact hi.cnt_has h ds
  · intro h ds hd f hf hk hr
    rw [hinv] at hd
    rcases hfut h f hf hr with h1 | h1
    · exact hi.inv_nofut h ds hd f h1 hk hr
    · rw [hk] at h1; exact h1 hd
  · intro h ds hd; rw [hinv] at hd; rw [hstore]; exact hi.inv_nostore h ds hd
  · intro h ds; rw [hst, han]; exact hi.ann_eq h ds
  · intro h ds; rw [hstore]; exact hi.copies_le h ds
  · intro h ds k hk; exact hi.purge_ok h ds k (hpu h ds k hk)
  · intro h ds k hk; rw [hinv]; exact hi.purged_inv h ds k (hpu h ds k hk)

theorem neutral_counts (e : Event) (log : List Event) (hn : Neutral e) :
    (∀ h ds, storedCnt (e :: log) h ds = storedCnt log h ds) ∧
    (∀ h ds, annCnt (e :: log) h ds = annCnt log h ds) ∧
    (∀ h ds k, Event.purged h ds k ∈ e :: log → Event.purged h ds k ∈ log) := by
  cases e <;> simp [Neutral] at hn <;> simp [storedCnt, annCnt]

/-- frame lemma for steps that leave stores, invalid sets, futures and the counters alone -/
theorem inv_same {had : Nat → Nat → Bool} {w w' : World} (hi : Inv had w)
    (hstore : ∀ h, (w'.hosts h).store = (w.hosts h).store)
    (hinv : ∀ h, (w'.hosts h).invalid = (w.hosts h).invalid)
    (hfut : ∀ h, (w'.hosts h).futs = (w.hosts h).futs)
    (hlog : w'.log = w.log ∨ ∃ e, Neutral e ∧ w'.log = e :: w.log) : Inv had w' := by
  have hc : (∀ h ds, storedCnt w'.log h ds = storedCnt w.log h ds) ∧
      (∀ h ds, annCnt w'.log h ds = annCnt w.log h ds) ∧
      (∀ h ds k, Event.purged h ds k ∈ w'.log → Event.purged h ds k ∈ w.log) := by
    rcases hlog with hl | ⟨e, hn, hl⟩
    · rw [hl]; exact ⟨fun _ _ => rfl, fun _ _ => rfl, fun _ _ _ h => h⟩
    · rw [hl]; exact neutral_counts e w.log hn
  exact inv_frame hi hstore hinv (fun h f hf _ => Or.inl (by rw [hfut] at hf; exact hf)) hc.1 hc.2.1 hc.2.2

theorem inv_advance {had} (d : Nat) {w : World} (hi : Inv had w) : Inv had (advance d w) :=
  inv_same hi (fun _ => rfl) (fun _ => rfl) (fun _ => rfl) (Or.inl rfl)

theorem inv_drop {had} (i : Nat) {w : World} (hi : Inv had w) : Inv had (dropFrame i w) :=
  inv_same hi (fun _ => rfl) (fun _ => rfl) (fun _ => rfl) (Or.inl rfl)

/-- closes `Inv had w'` when `w'` differs from `w` only outside stores / invalid / futs / counters -/
macro "frame_same" hi:ident : tactic => `(tactic|
  first
  | exact $hi
  | (apply inv_same $hi <;> intros <;> (try simp [World.setHost, World.emit, World.crash, Neutral]) <;>
      (try split) <;> (try simp_all)))

theorem inv_deliver {had} (i : Nat) (dup : Bool) {w : World} (hi : Inv had w) : Inv had (deliver i dup w) := by
  unfold deliver
  cases dup <;> simp only [] <;> split <;> (try split) <;> frame_same hi

theorem inv_inject {had} (h : Nat) (m : Msg) {w : World} (hi : Inv had w) : Inv had (inject h m w) := by
  unfold inject
  split <;> (try split) <;> frame_same hi

theorem inv_recvOne {had} (h : Nat) {w : World} (hi : Inv had w) : Inv had (recvOne h w).1 := by
  unfold recvOne
  simp only
  split
  · exact hi
  · split
    · exact hi
    · frame_same hi
    · split <;> frame_same hi

theorem inv_ctrlRecv {had} (i : Nat) (dup : Bool) {w : World} (hi : Inv had w) : Inv had (ctrlRecv i dup w) := by
  unfold ctrlRecv
  cases dup <;> simp only [] <;> split <;> (try split) <;> frame_same hi

/-! ### futures -/

theorem cleanList_mem (fs : List Fut) (aw : List (Nat × Cmd × Option Nat)) (f : Fut)
    (h : f ∈ (cleanList fs aw).2) : f ∈ fs ∧ f.result = none := by
  induction fs generalizing aw with
  | nil => simp [cleanList] at h
  | cons g gs ih =>
    unfold cleanList at h
    split at h
    · rename_i hr
      simp at h
      rcases h with h | h
      · subst h; exact ⟨by simp, hr⟩
      · have := ih aw h; exact ⟨by simp [this.1], this.2⟩
    · split at h
      · have := ih _ h; exact ⟨by simp [this.1], this.2⟩
      · have := ih _ h; exact ⟨by simp [this.1], this.2⟩

theorem setResult_mem (fs : List Fut) (i t : Nat) (f : Fut) (h : f ∈ setResult fs i t) :
    f ∈ fs ∨ f.result = some t := by
  induction fs generalizing i with
  | nil => simp [setResult] at h
  | cons g gs ih =>
    cases i with
    | zero =>
      simp [setResult] at h
      rcases h with h | h
      · right; subst h; rfl
      · left; simp [h]
    | succ i =>
      simp [setResult] at h
      rcases h with h | h
      · left; simp [h]
      · rcases ih i h with h | h
        · left; simp [h]
        · right; exact h

theorem inv_cleanAll {had} (h : Nat) {w : World} (hi : Inv had w) : Inv had (cleanAll h w) := by
  unfold cleanAll
  split
  · exact hi
  · apply inv_frame hi
    · intro k; simp [World.setHost]; split <;> simp_all
    · intro k; simp [World.setHost]; split <;> simp_all
    · intro k f hf _
      left
      simp [World.setHost] at hf
      split at hf
      · rename_i hk; subst hk; exact (cleanList_mem _ _ _ hf).1
      · exact hf
    · intros; rfl
    · intros; rfl
    · intro _ _ _ hk; exact hk

/-- replacing the futures of `h` by a list whose pending members were pending before -/
theorem inv_setFuts {had} (h : Nat) (fs : List Fut) {w : World} (hi : Inv had w)
    (hfs : ∀ f ∈ fs, f.result = none → f ∈ (w.hosts h).futs) :
    Inv had (w.setHost h { w.hosts h with futs := fs }) := by
  apply inv_frame hi
  · intro k; simp [World.setHost]; split <;> simp_all
  · intro k; simp [World.setHost]; split <;> simp_all
  · intro k f hf hr
    left
    simp [World.setHost] at hf
    split at hf
    · rename_i hk; subst hk; exact hfs f hf hr
    · exact hf
  · intros; rfl
  · intros; rfl
  · intro _ _ _ hk; exact hk

theorem inv_execSend {had} (h : Nat) (c : Cmd) {w : World} (hi : Inv had w) : Inv had (execSend h c w) := by
  unfold execSend
  split
  · frame_same hi
  · split <;> frame_same hi

theorem storedCnt_cons (e : Event) (log : List Event) (h ds : Nat) :
    storedCnt (e :: log) h ds = storedCnt log h ds +
      (match e with | .stored h' ds' _ _ _ => if h' = h ∧ ds' = ds then 1 else 0 | _ => 0) := by
  cases e <;> simp [storedCnt, List.countP_cons]

theorem annCnt_cons (e : Event) (log : List Event) (h ds : Nat) :
    annCnt (e :: log) h ds = annCnt log h ds +
      (match e with | .announced h' ds' _ => if h' = h ∧ ds' = ds then 1 else 0 | _ => 0) := by
  cases e <;> simp [annCnt, List.countP_cons]

theorem inv_execStore {had} (h : Nat) (p : Payload) {w : World} (hi : Inv had w)
    (hp : ∃ f ∈ (w.hosts h).futs, f.key = .pay p ∧ f.result = none) : Inv had (execStore h p w) := by
  unfold execStore
  split
  · frame_same hi
  · rename_i hnone
    obtain ⟨f, hf, hfk, hfr⟩ := hp
    have hninv : p.ds ∉ (w.hosts h).invalid := by
      intro hd
      exact hi.inv_nofut h p.ds hd f hf (by simp [hfk, Key.ds]) hfr
    have hzero : storedCnt w.log h p.ds + hadN had h p.ds = 0 := by
      have := hi.cnt_has h p.ds
      rcases Nat.eq_zero_or_pos (storedCnt w.log h p.ds + hadN had h p.ds) with h0 | h0
      · exact h0
      · rcases this h0 with h1 | h1
        · simp [hnone] at h1
        · exact absurd h1 hninv
    refine ⟨?_, ?_, ?_, ?_, ?_, ?_, ?_, ?_⟩
    · intro k ds
      simp only [World.emit, World.setHost, storedCnt_cons]
      have := hi.cnt_le k ds
      by_cases hk : h = k ∧ p.ds = ds
      · obtain ⟨rfl, rfl⟩ := hk; simp; omega
      · simp [hk]; exact this
    · intro k ds hpos
      simp only [World.emit, World.setHost, storedCnt_cons] at hpos ⊢
      by_cases hk : k = h
      · subst hk
        simp only [if_true]
        by_cases hd : p.ds = ds
        · subst hd; left; rw [lookup_append_none _ _ _ _ hnone]; simp
        · simp [hd] at hpos
          rcases hi.cnt_has k ds (by omega) with h1 | h1
          · left
            cases hl : lookup (w.hosts k).store ds with
            | none => simp [hl] at h1
            | some u => rw [lookup_append_some _ _ _ _ _ hl]; simp
          · right; exact h1
      · have hk' : ¬ (h = k ∧ p.ds = ds) := fun hh => hk hh.1.symm
        simp [hk'] at hpos
        simp [hk]
        exact hi.cnt_has k ds (by omega)
    · intro k ds hd g hg hgk
      simp only [World.emit, World.setHost] at hd hg
      by_cases hk : k = h
      · subst hk; simp at hd hg; exact hi.inv_nofut k ds hd g hg hgk
      · simp [hk] at hd hg; exact hi.inv_nofut k ds hd g hg hgk
    · intro k ds hd
      simp only [World.emit, World.setHost] at hd ⊢
      by_cases hk : k = h
      · subst hk
        simp at hd ⊢
        have hne : p.ds ≠ ds := fun hh => hninv (hh ▸ hd)
        rw [lookup_append_none _ _ _ _ (hi.inv_nostore k ds hd)]; simp [hne]
      · simp [hk] at hd ⊢; exact hi.inv_nostore k ds hd
    · intro k ds
      simp only [World.emit, World.setHost, storedCnt_cons, annCnt_cons]
      have := hi.ann_eq k ds
      simp; omega
    · intro k ds
      simp only [World.emit, World.setHost]
      by_cases hk : k = h
      · subst hk
        simp only [if_true]
        rw [copies_append]
        by_cases hd : p.ds = ds
        · subst hd; simp [lookup_none_copies _ _ hnone]
        · simp [hd]; exact hi.copies_le k ds
      · simp [hk]; exact hi.copies_le k ds
    · intro k ds n hm
      simp [World.emit, World.setHost] at hm
      exact hi.purge_ok k ds n hm
    · intro k ds n hm
      simp [World.emit, World.setHost] at hm ⊢
      have := hi.purged_inv k ds n hm
      split <;> simp_all

theorem execSend_host (h : Nat) (c : Cmd) (w : World) (k : Nat) : (execSend h c w).hosts k = w.hosts k := by
  unfold execSend; split
  · rfl
  · split <;> rfl

theorem execStore_futs (h : Nat) (p : Payload) (w : World) (k : Nat) :
    ((execStore h p w).hosts k).futs = (w.hosts k).futs ∧ ((execStore h p w).hosts k).crashed = (w.hosts k).crashed := by
  unfold execStore; split
  · exact ⟨rfl, rfl⟩
  · simp [World.emit, World.setHost]; split <;> simp_all

theorem execKey_futs (h : Nat) (key : Key) (w : World) (k : Nat) :
    ((execKey h key w).hosts k).futs = (w.hosts k).futs ∧ ((execKey h key w).hosts k).crashed = (w.hosts k).crashed := by
  cases key with
  | cmd c => simp [execKey, execSend_host]
  | pay p => exact execStore_futs h p w k

theorem inv_runAt {had} (h i : Nat) {w : World} (hi : Inv had w) : Inv had (runAt h i w) := by
  unfold runAt
  split
  · exact hi
  · split
    · rename_i key hget
      have hmem : (⟨key, none⟩ : Fut) ∈ (w.hosts h).futs := List.mem_of_getElem? hget
      have h1 : Inv had (execKey h key w) := by
        cases key with
        | cmd c => exact inv_execSend h c hi
        | pay p => exact inv_execStore h p hi ⟨_, hmem, rfl, rfl⟩
      apply inv_setFuts h _ h1
      intro f hf hr
      rcases setResult_mem _ _ _ _ hf with h2 | h2
      · exact h2
      · rw [hr] at h2; cases h2
    · exact hi

theorem inProgress_zero (futs : List Fut) (ds : Nat) (h0 : inProgress futs ds = 0) (f : Fut) (hf : f ∈ futs) :
    f.key.ds ≠ ds := by
  intro hk
  unfold inProgress at h0
  have : f ∈ futs.filter (fun f => f.key.ds = ds) := by simp [hf, hk]
  rw [List.length_eq_zero_iff] at h0
  rw [h0] at this; cases this

theorem inv_purgeAct {had} (h ds : Nat) {w : World} (hi : Inv had w)
    (hg : inProgress (w.hosts h).futs ds = 0) : Inv had (purgeAct h ds w) := by
  unfold purgeAct
  simp only
  split
  · frame_same hi
  · rename_i v hsome
    refine ⟨?_, ?_, ?_, ?_, ?_, ?_, ?_, ?_⟩
    · intro k d; simp only [World.emit, World.setHost, storedCnt_cons]; exact hi.cnt_le k d
    · intro k d hpos
      simp only [World.emit, World.setHost, storedCnt_cons] at hpos ⊢
      by_cases hk : k = h
      · subst hk
        simp only [if_true]
        by_cases hd : d = ds
        · right; rw [mem_insertS]; right; exact hd
        · rcases hi.cnt_has k d (by omega) with h1 | h1
          · left; rw [lookup_eraseA_ne _ _ _ (Ne.symm hd)]; exact h1
          · right; rw [mem_insertS]; left; exact h1
      · simp [hk]; exact hi.cnt_has k d (by omega)
    · intro k d hd f hf hfk
      simp only [World.emit, World.setHost] at hd hf
      by_cases hk : k = h
      · subst hk
        simp at hd hf
        rw [mem_insertS] at hd
        rcases hd with hd | hd
        · exact hi.inv_nofut k d hd f hf hfk
        · subst hd; exact absurd hfk (inProgress_zero _ _ hg f hf)
      · simp [hk] at hd hf; exact hi.inv_nofut k d hd f hf hfk
    · intro k d hd
      simp only [World.emit, World.setHost] at hd ⊢
      by_cases hk : k = h
      · subst hk
        simp at hd ⊢
        by_cases hdd : ds = d
        · subst hdd; exact lookup_eraseA_self _ _
        · rw [lookup_eraseA_ne _ _ _ hdd]
          rw [mem_insertS] at hd
          rcases hd with hd | hd
          · exact hi.inv_nostore k d hd
          · exact absurd hd.symm hdd
      · simp [hk] at hd ⊢; exact hi.inv_nostore k d hd
    · intro k d; simp only [World.emit, World.setHost, storedCnt_cons, annCnt_cons]; exact hi.ann_eq k d
    · intro k d
      simp only [World.emit, World.setHost]
      by_cases hk : k = h
      · subst hk; simp only [if_true]; exact Nat.le_trans (copies_eraseA_le _ _ _) (hi.copies_le k d)
      · simp [hk]; exact hi.copies_le k d
    · intro k d n hm
      simp [World.emit, World.setHost] at hm
      rcases hm with ⟨_, _, rfl⟩ | hm
      · exact hg
      · exact hi.purge_ok k d n hm
    · intro k d n hm
      simp [World.emit, World.setHost] at hm ⊢
      rcases hm with ⟨rfl, rfl, _⟩ | hm
      · simp [mem_insertS]
      · have := hi.purged_inv k d n hm
        split
        · rename_i hk; subst hk; simp [mem_insertS, this]
        · exact this

/-- appending a pending future of a dataset that is not invalid -/
theorem inv_addFut {had} (h : Nat) (key : Key) (aw : List (Nat × Cmd × Option Nat)) (e : Event) (hn : Neutral e)
    {w : World} (hi : Inv had w) (hk : key.ds ∉ (w.hosts h).invalid) :
    Inv had ((w.setHost h { w.hosts h with awaiting := aw, futs := (w.hosts h).futs ++ [⟨key, none⟩] }).emit e) := by
  have hc := neutral_counts e w.log hn
  apply inv_frame hi
  · intro k; simp [World.setHost, World.emit]; split <;> simp_all
  · intro k; simp [World.setHost, World.emit]; split <;> simp_all
  · intro k f hf _
    simp [World.setHost, World.emit] at hf
    split at hf
    · rename_i hkk; subst hkk
      simp at hf
      rcases hf with hf | hf
      · left; exact hf
      · right; subst hf; exact hk
    · left; exact hf
  · exact hc.1
  · exact hc.2.1
  · exact hc.2.2

theorem inv_handleMsg {had} (h : Nat) (m : Msg) {w : World} (hi : Inv had w)
    (hg : ∀ ds, m = .purge ds → inProgress (w.hosts h).futs ds = 0) : Inv had (handleMsg h m w) := by
  unfold handleMsg
  cases m with
  | cmd c =>
    simp only
    split
    · frame_same hi
    · split
      · frame_same hi
      · rename_i _ hninv
        exact inv_addFut h (.cmd c) _ _ (by simp [Neutral]) hi hninv
  | pay p =>
    simp only
    split
    · frame_same hi
    · rename_i hninv
      have := inv_addFut h (.pay p) (w.hosts h).awaiting (.ignored h p.ds p.confirmIdx) (by simp [Neutral]) hi hninv
      apply inv_frame this <;> intros <;> simp_all [World.setHost, World.emit, storedCnt_cons, annCnt_cons]
  | ack i => simp only; frame_same hi
  | purge ds => exact inv_purgeAct h ds hi (hg ds rfl)

theorem inv_handleHead {had} (h : Nat) {w : World} (hi : Inv had w)
    (guard : ∀ ds rest, (w.hosts h).inbox = .purge ds :: rest → inProgress (w.hosts h).futs ds = 0) :
    Inv had (handleHead h w) := by
  unfold handleHead
  simp only
  split
  · exact hi
  · split
    · exact hi
    · rename_i m rest hin
      apply inv_handleMsg h m
      · frame_same hi
      · intro ds hm
        subst hm
        simpa [World.setHost] using guard ds rest hin

theorem inv_retryOne {had} (h e : Nat) {w : World} (hi : Inv had w) : Inv had (retryOne h e w) := by
  unfold retryOne
  simp only
  split
  · exact hi
  · split
    · frame_same hi
    · split
      · frame_same hi
      · split
        · frame_same hi
        · split
          · frame_same hi
          · rename_i c _ _ _ _ hninv
            exact inv_addFut h (.cmd c) (setA (w.hosts h).awaiting e (c, none)) (.resubmit h c.idx c.ds) (by simp [Neutral]) hi hninv

theorem inv_mstep {had} {w w' : World} (hs : MStep w w') (hi : Inv had w) : Inv had w' := by
  cases hs with
  | clean h => exact inv_cleanAll h hi
  | run h i => exact inv_runAt h i hi
  | deliver i dup => exact inv_deliver i dup hi
  | drop i => exact inv_drop i hi
  | inject h m => exact inv_inject h m hi
  | recv h => exact inv_recvOne h hi
  | ctrl i dup => exact inv_ctrlRecv i dup hi
  | handle h _ guard => exact inv_handleHead h hi guard
  | retry h e => exact inv_retryOne h e hi
  | advance d => exact inv_advance d hi

theorem inv_mstar {had} {w w' : World} (hs : MStar w w') (hi : Inv had w) : Inv had w' := by
  induction hs with
  | refl => exact hi
  | tail _ hstep ih => exact inv_mstep hstep ih

/-! ### what a step can add to the log -/

/-- the condition (in the state before) under which an event can be emitted -/
def EvOk (w : World) : Event → Prop
  | .resubmit h i ds => i ∉ (w.hosts h).acks ∧ ds ∉ (w.hosts h).invalid
  | .submitted h _ ds => ds ∉ (w.hosts h).invalid
  | .stored h ds _ _ _ => ∃ f ∈ (w.hosts h).futs, f.key.ds = ds ∧ f.result = none
  | .sent h c _ _ => ∃ f ∈ (w.hosts h).futs, f.key.ds = c.ds ∧ f.result = none
  | _ => True

structure Summary (w w' : World) : Prop where
  log : w'.log = w.log ∨ (∃ e, w'.log = e :: w.log ∧ EvOk w e) ∨
        (∃ e1 e2, w'.log = e2 :: e1 :: w.log ∧ EvOk w e1 ∧ EvOk w e2)
  acks : ∀ h x, x ∈ (w.hosts h).acks → x ∈ (w'.hosts h).acks
  invalid : ∀ h x, x ∈ (w.hosts h).invalid → x ∈ (w'.hosts h).invalid

theorem Summary.rfl' (w : World) : Summary w w := ⟨Or.inl rfl, fun _ _ h => h, fun _ _ h => h⟩

macro "summ_fields" : tactic => `(tactic|
  (intro k x hx
   first
   | exact hx
   | (simp [World.setHost, World.emit, World.crash] at hx ⊢
      first
      | exact hx
      | (split <;> simp_all [mem_insertS])
      | simp_all [mem_insertS])))

macro "summ1" : tactic => `(tactic|
  first
  | exact Summary.rfl' _
  | (refine ⟨?_, ?_, ?_⟩
     · first
       | (left; rfl)
       | (right; left; exact ⟨_, rfl, by simp_all [EvOk]⟩)
     · summ_fields
     · summ_fields))

macro "summ" : tactic => `(tactic| first | summ1 | (split <;> summ1))

theorem summ_advance (d : Nat) (w : World) : Summary w (advance d w) := by unfold advance; summ
theorem summ_drop (i : Nat) (w : World) : Summary w (dropFrame i w) := by unfold dropFrame; summ
theorem summ_deliver (i : Nat) (dup : Bool) (w : World) : Summary w (deliver i dup w) := by
  unfold deliver
  cases dup <;> simp only [] <;> split <;> (try split) <;> summ
theorem summ_inject (h : Nat) (m : Msg) (w : World) : Summary w (inject h m w) := by
  unfold inject
  split <;> (try split) <;> summ
theorem summ_recvOne (h : Nat) (w : World) : Summary w (recvOne h w).1 := by
  unfold recvOne
  simp only
  split
  · summ
  · split
    · summ
    · summ
    · split <;> summ
theorem summ_ctrlRecv (i : Nat) (dup : Bool) (w : World) : Summary w (ctrlRecv i dup w) := by
  unfold ctrlRecv
  cases dup <;> simp only [] <;> split <;> (try split) <;> summ
theorem summ_cleanAll (h : Nat) (w : World) : Summary w (cleanAll h w) := by
  unfold cleanAll
  split <;> summ
theorem summ_retryOne (h e : Nat) (w : World) : Summary w (retryOne h e w) := by
  unfold retryOne
  simp only
  split
  · summ
  · split
    · summ
    · split
      · summ
      · split
        · summ
        · split <;> summ

theorem summ_runAt (h i : Nat) (w : World) : Summary w (runAt h i w) := by
  unfold runAt
  split
  · summ
  · split
    · rename_i key hget
      have hmem : (⟨key, none⟩ : Fut) ∈ (w.hosts h).futs := List.mem_of_getElem? hget
      cases key with
      | cmd c =>
        simp only [execKey, execSend]
        split
        · summ
        · split
          · summ
          · refine ⟨?_, ?_, ?_⟩
            · right; left; exact ⟨_, rfl, ⟨_, hmem, rfl, rfl⟩⟩
            · summ_fields
            · summ_fields
      | pay p =>
        simp only [execKey, execStore]
        split
        · summ
        · refine ⟨?_, ?_, ?_⟩
          · right; right; exact ⟨_, _, rfl, ⟨_, hmem, rfl, rfl⟩, trivial⟩
          · summ_fields
          · summ_fields
    · summ

theorem summ_handleHead (h : Nat) (w : World) : Summary w (handleHead h w) := by
  unfold handleHead
  simp only
  split
  · summ
  · split
    · summ
    · rename_i m rest _
      cases m with
      | cmd c =>
        simp only [handleMsg, World.setHost, if_true]
        split
        · summ
        · split <;> summ
      | pay p => simp only [handleMsg, World.setHost, if_true]; split <;> summ
      | ack i => simp only [handleMsg, World.setHost, if_true]; summ
      | purge ds =>
        simp only [handleMsg, purgeAct, World.setHost, if_true]
        split <;> summ

theorem summ_mstep {w w' : World} (hs : MStep w w') : Summary w w' := by
  cases hs with
  | clean h => exact summ_cleanAll h w
  | run h i => exact summ_runAt h i w
  | deliver i dup => exact summ_deliver i dup w
  | drop i => exact summ_drop i w
  | inject h m => exact summ_inject h m w
  | recv h => exact summ_recvOne h w
  | ctrl i dup => exact summ_ctrlRecv i dup w
  | handle h _ _ => exact summ_handleHead h w
  | retry h e => exact summ_retryOne h e w
  | advance d => exact summ_advance d w

theorem count_stable (P : Event → Bool) {w w' : World} (hs : Summary w w')
    (hP : ∀ e, P e = true → ¬ EvOk w e) : w'.log.countP P = w.log.countP P := by
  rcases hs.log with hl | ⟨e, hl, he⟩ | ⟨e1, e2, hl, he1, he2⟩
  · rw [hl]
  · rw [hl, List.countP_cons]
    have : P e = false := by
      cases hp : P e with
      | false => rfl
      | true => exact absurd he (hP e hp)
    simp [this]
  · rw [hl, List.countP_cons, List.countP_cons]
    have h1 : P e1 = false := by
      cases hp : P e1 with
      | false => rfl
      | true => exact absurd he1 (hP e1 hp)
    have h2 : P e2 = false := by
      cases hp : P e2 with
      | false => rfl
      | true => exact absurd he2 (hP e2 hp)
    simp [h1, h2]

/-- once the ack of `idx` is in `acks`, it stays and no retry of `idx` is submitted -/
theorem acked_mstep {w w' : World} (hs : MStep w w') (h idx : Nat) (ha : idx ∈ (w.hosts h).acks) :
    idx ∈ (w'.hosts h).acks ∧ resubmitCnt w'.log h idx = resubmitCnt w.log h idx := by
  have s := summ_mstep hs
  refine ⟨s.acks h idx ha, ?_⟩
  unfold resubmitCnt
  apply count_stable _ s
  intro e he
  cases e <;> simp at he
  obtain ⟨rfl, rfl⟩ := he
  simp [EvOk, ha]

theorem acked_mstar {w w' : World} (hs : MStar w w') (h idx : Nat) (ha : idx ∈ (w.hosts h).acks) :
    idx ∈ (w'.hosts h).acks ∧ resubmitCnt w'.log h idx = resubmitCnt w.log h idx := by
  induction hs with
  | refl => exact ⟨ha, rfl⟩
  | tail _ hstep ih =>
    have := acked_mstep hstep h idx ih.1
    exact ⟨this.1, this.2.trans ih.2⟩

/-- once `ds` is invalid (purged) at `h`: it stays invalid, nothing is stored, submitted or sent for it -/
theorem purged_mstep {had} {w w' : World} (hs : MStep w w') (hi : Inv had w) (h ds : Nat)
    (hd : ds ∈ (w.hosts h).invalid) :
    ds ∈ (w'.hosts h).invalid ∧ storedCnt w'.log h ds = storedCnt w.log h ds ∧
    submitDsCnt w'.log h ds = submitDsCnt w.log h ds ∧ sentDsCnt w'.log h ds = sentDsCnt w.log h ds := by
  have s := summ_mstep hs
  refine ⟨s.invalid h ds hd, ?_, ?_, ?_⟩
  · unfold storedCnt
    apply count_stable _ s
    intro e he
    cases e <;> simp at he
    obtain ⟨rfl, rfl⟩ := he
    simp only [EvOk]
    rintro ⟨f, hf, hk, hr⟩
    exact hi.inv_nofut _ _ hd f hf hk hr
  · unfold submitDsCnt
    apply count_stable _ s
    intro e he
    cases e <;> simp at he
    · obtain ⟨rfl, rfl⟩ := he; simp [EvOk, hd]
    · obtain ⟨rfl, rfl⟩ := he; simp [EvOk, hd]
  · unfold sentDsCnt
    apply count_stable _ s
    intro e he
    cases e <;> simp at he
    obtain ⟨rfl, rfl⟩ := he
    simp only [EvOk]
    rintro ⟨f, hf, hk, hr⟩
    exact hi.inv_nofut _ _ hd f hf hk hr

theorem purged_mstar {had} {w w' : World} (hs : MStar w w') (hi : Inv had w) (h ds : Nat)
    (hd : ds ∈ (w.hosts h).invalid) :
    ds ∈ (w'.hosts h).invalid ∧ storedCnt w'.log h ds = storedCnt w.log h ds ∧
    submitDsCnt w'.log h ds = submitDsCnt w.log h ds ∧ sentDsCnt w'.log h ds = sentDsCnt w.log h ds := by
  induction hs with
  | refl => exact ⟨hd, rfl, rfl, rfl⟩
  | tail hpre hstep ih =>
    have := purged_mstep hstep (inv_mstar hpre hi) h ds ih.1
    exact ⟨this.1, this.2.1.trans ih.2.1, this.2.2.1.trans ih.2.2.1, this.2.2.2.trans ih.2.2.2⟩

/-! ### byte consistency -/

def PayOk (truth : Nat → String × String) (p : Payload) : Prop := (p.value, p.deser) = truth p.ds
def MsgOk (truth : Nat → String × String) : Msg → Prop
  | .pay p => PayOk truth p
  | _ => True
def FrameOk (truth : Nat → String × String) : Frame → Prop
  | .data _ _ _ p => PayOk truth p
  | .plain _ m => MsgOk truth m
def KeyOk (truth : Nat → String × String) : Key → Prop
  | .pay p => PayOk truth p
  | .cmd _ => True
def EvCons (truth : Nat → String × String) : Event → Prop
  | .stored _ ds _ b f => (b, f) = truth ds
  | .sent _ c b f => (b, f) = truth c.ds
  | .ctrlGot p => PayOk truth p
  | _ => True

/-- every copy of a dataset anywhere (stores, wire, sockets, inboxes, queued jobs, trace) is `truth ds` -/
structure Cons (truth : Nat → String × String) (w : World) : Prop where
  store : ∀ h, ∀ e ∈ (w.hosts h).store, e.2 = truth e.1
  net : ∀ fr ∈ w.net, FrameOk truth fr
  sock : ∀ h, ∀ fr ∈ (w.hosts h).sock, FrameOk truth fr
  inbox : ∀ h, ∀ m ∈ (w.hosts h).inbox, MsgOk truth m
  futs : ∀ h, ∀ f ∈ (w.hosts h).futs, KeyOk truth f.key
  log : ∀ e ∈ w.log, EvCons truth e

macro "cons_tac" hc:ident : tactic => `(tactic|
  first
  | exact $hc
  | (have h1 := ($hc).store; have h2 := ($hc).net; have h3 := ($hc).sock; have h4 := ($hc).inbox
     have h5 := ($hc).futs; have h6 := ($hc).log
     refine ⟨?_, ?_, ?_, ?_, ?_, ?_⟩ <;> intros <;>
       simp [World.setHost, World.emit, World.crash] at * <;>
       grind [FrameOk, MsgOk, KeyOk, EvCons, PayOk, List.mem_of_mem_eraseIdx]))

theorem cons_recvOne {truth} (h : Nat) {w : World} (hc : Cons truth w) : Cons truth (recvOne h w).1 := by
  unfold recvOne
  simp only
  split
  · exact hc
  · split
    · exact hc
    · rename_i heq
      have hs := hc.sock h; rw [heq] at hs; simp [FrameOk] at hs
      cons_tac hc
    · rename_i heq
      have hs := hc.sock h; rw [heq] at hs; simp [FrameOk] at hs
      split <;> cons_tac hc

theorem cons_advance {truth} (d : Nat) {w : World} (hc : Cons truth w) : Cons truth (advance d w) := by
  unfold advance; cons_tac hc

theorem cons_drop {truth} (i : Nat) {w : World} (hc : Cons truth w) : Cons truth (dropFrame i w) := by
  unfold dropFrame; cons_tac hc

theorem cons_deliver {truth} (i : Nat) (dup : Bool) {w : World} (hc : Cons truth w) : Cons truth (deliver i dup w) := by
  unfold deliver
  split
  · exact hc
  · rename_i fr hget
    have hfr := hc.net fr (List.mem_of_getElem? hget)
    cases dup <;> simp only [Bool.false_eq_true, if_false, if_true] <;> split <;> cons_tac hc

theorem cons_inject {truth} (h : Nat) (m : Msg) {w : World} (hc : Cons truth w) : Cons truth (inject h m w) := by
  unfold inject
  split
  · split <;> cons_tac hc
  · cons_tac hc
  · exact hc

theorem cons_ctrlRecv {truth} (i : Nat) (dup : Bool) {w : World} (hc : Cons truth w) : Cons truth (ctrlRecv i dup w) := by
  unfold ctrlRecv
  split
  · rename_i si sa p hget
    have hfr := hc.net _ (List.mem_of_getElem? hget)
    simp [FrameOk] at hfr
    cases dup <;> simp only [Bool.false_eq_true, if_false, if_true] <;> split <;> cons_tac hc
  · exact hc

theorem cons_cleanAll {truth} (h : Nat) {w : World} (hc : Cons truth w) : Cons truth (cleanAll h w) := by
  unfold cleanAll
  split
  · exact hc
  · have hcl := fun f hf => (cleanList_mem (w.hosts h).futs (w.hosts h).awaiting f hf).1
    cons_tac hc

theorem setResult_key (fs : List Fut) (i t : Nat) (f : Fut) (h : f ∈ setResult fs i t) :
    ∃ g ∈ fs, g.key = f.key := by
  induction fs generalizing i with
  | nil => simp [setResult] at h
  | cons g gs ih =>
    cases i with
    | zero =>
      simp [setResult] at h
      rcases h with h | h
      · exact ⟨g, by simp, by subst h; rfl⟩
      · exact ⟨f, by simp [h], rfl⟩
    | succ i =>
      simp [setResult] at h
      rcases h with h | h
      · exact ⟨f, by simp [h], rfl⟩
      · obtain ⟨g', hg', hk⟩ := ih i h
        exact ⟨g', by simp [hg'], hk⟩

theorem cons_setFuts {truth} (h : Nat) (fs : List Fut) {w : World} (hc : Cons truth w)
    (hfs : ∀ f ∈ fs, ∃ g ∈ (w.hosts h).futs, g.key = f.key) :
    Cons truth (w.setHost h { w.hosts h with futs := fs }) := by
  have h5' : ∀ f ∈ fs, KeyOk truth f.key := by
    intro f hf
    obtain ⟨g, hg, hk⟩ := hfs f hf
    rw [← hk]; exact hc.futs h g hg
  cons_tac hc

theorem cons_execSend {truth} (h : Nat) (c : Cmd) {w : World} (hc : Cons truth w) : Cons truth (execSend h c w) := by
  unfold execSend
  split
  · cons_tac hc
  · split
    · cons_tac hc
    · rename_i b f hl
      have := hc.store h _ (lookup_mem _ _ _ hl)
      simp at this
      cons_tac hc

theorem cons_execStore {truth} (h : Nat) (p : Payload) {w : World} (hc : Cons truth w) (hp : PayOk truth p) :
    Cons truth (execStore h p w) := by
  unfold execStore
  unfold PayOk at hp
  split
  · cons_tac hc
  · cons_tac hc

theorem cons_runAt {truth} (h i : Nat) {w : World} (hc : Cons truth w) : Cons truth (runAt h i w) := by
  unfold runAt
  split
  · exact hc
  · split
    · rename_i key hget
      have hmem : (⟨key, none⟩ : Fut) ∈ (w.hosts h).futs := List.mem_of_getElem? hget
      have hk := hc.futs h _ hmem
      have h1 : Cons truth (execKey h key w) := by
        cases key with
        | cmd c => exact cons_execSend h c hc
        | pay p => exact cons_execStore h p hc hk
      apply cons_setFuts h _ h1
      intro f hf
      exact setResult_key _ _ _ _ hf
    · exact hc

theorem cons_handleHead {truth} (h : Nat) {w : World} (hc : Cons truth w) : Cons truth (handleHead h w) := by
  unfold handleHead
  simp only
  split
  · exact hc
  · split
    · exact hc
    · rename_i m rest hin
      have hs := hc.inbox h; rw [hin] at hs; simp at hs
      cases m with
      | cmd c =>
        simp only [handleMsg, World.setHost, if_true]
        split
        · cons_tac hc
        · split <;> cons_tac hc
      | pay p => simp only [handleMsg, World.setHost, if_true]; split <;> cons_tac hc
      | ack i => simp only [handleMsg, World.setHost, if_true]; cons_tac hc
      | purge ds =>
        simp only [handleMsg, purgeAct, World.setHost, if_true]
        have he := fun e he => mem_eraseA (w.hosts h).store ds e he
        split <;> cons_tac hc

theorem cons_retryOne {truth} (h e : Nat) {w : World} (hc : Cons truth w) : Cons truth (retryOne h e w) := by
  unfold retryOne
  simp only
  split
  · exact hc
  · split
    · cons_tac hc
    · split
      · cons_tac hc
      · split
        · cons_tac hc
        · split <;> cons_tac hc

theorem cons_mstep {truth} {w w' : World} (hs : MStep w w') (hc : Cons truth w) : Cons truth w' := by
  cases hs with
  | clean h => exact cons_cleanAll h hc
  | run h i => exact cons_runAt h i hc
  | deliver i dup => exact cons_deliver i dup hc
  | drop i => exact cons_drop i hc
  | inject h m => exact cons_inject h m hc
  | recv h => exact cons_recvOne h hc
  | ctrl i dup => exact cons_ctrlRecv i dup hc
  | handle h _ _ => exact cons_handleHead h hc
  | retry h e => exact cons_retryOne h e hc
  | advance d => exact cons_advance d hc

theorem cons_mstar {truth} {w w' : World} (hs : MStar w w') (hc : Cons truth w) : Cons truth w' := by
  induction hs with
  | refl => exact hc
  | tail _ hstep ih => exact cons_mstep hstep ih

/-! ### operations are compositions of micro steps -/

theorem MStar.single {w w' : World} (h : MStep w w') : MStar w w' := MStar.tail (MStar.refl w) h

theorem MStar.trans {a b c : World} (h1 : MStar a b) (h2 : MStar b c) : MStar a c := by
  induction h2 with
  | refl => exact h1
  | tail _ hs ih => exact MStar.tail ih hs

theorem runChoice_mstar (h c : Nat) (w : World) : MStar w (runChoice h c w) := by
  unfold runChoice
  simp only
  split
  · exact MStar.refl w
  · split
    · exact MStar.refl w
    · exact MStar.single (MStep.run h _ w)

theorem waitAll_mstar (h : Nat) (fuel : Nat) (sched : List Nat) (w : World) : MStar w (waitAll h fuel sched w).1 := by
  induction fuel generalizing sched w with
  | zero => exact MStar.refl w
  | succ n ih =>
    unfold waitAll
    split
    · exact MStar.refl w
    · exact MStar.trans (runChoice_mstar h _ w) (ih _ _)

theorem maybeClean_mstar (h : Nat) (fuel : Nat) (sched : List Nat) (w : World) : MStar w (maybeClean h fuel sched w).1 := by
  induction fuel generalizing sched w with
  | zero => exact MStar.single (MStep.clean h w)
  | succ n ih =>
    unfold maybeClean
    simp only
    split
    · exact MStar.single (MStep.clean h w)
    · exact MStar.trans (MStar.single (MStep.clean h w)) (MStar.trans (runChoice_mstar h _ _) (ih _ _))

theorem mclean_mstar (h : Nat) (sched : List Nat) (w : World) : MStar w (mclean h sched w).1 :=
  maybeClean_mstar h _ sched w

theorem recvAll_mstar (h : Nat) (fuel : Nat) (w : World) : MStar w (recvAll h fuel w) := by
  induction fuel generalizing w with
  | zero => exact MStar.refl w
  | succ n ih =>
    unfold recvAll
    simp only
    split
    · exact MStar.trans (MStar.single (MStep.recv h w)) (ih _)
    · exact MStar.single (MStep.recv h w)

theorem retryLoop_mstar (h : Nat) (q : List Nat) (sched : List Nat) (w : World) : MStar w (retryLoop h q sched w).1 := by
  induction q generalizing sched w with
  | nil => exact MStar.refl w
  | cons e q ih =>
    unfold retryLoop
    split
    · exact MStar.refl w
    · exact MStar.trans (mclean_mstar h sched w) (MStar.trans (MStar.single (MStep.retry h e _)) (ih _ _))

theorem feed_mstar (h : Nat) (ins : List Input) (w : World) : MStar w (feed h ins w) := by
  induction ins generalizing w with
  | nil => exact MStar.refl w
  | cons i ins ih =>
    cases i with
    | frame i dup =>
      unfold feed
      split
      · split
        · exact MStar.trans (MStar.single (MStep.deliver i dup w)) (ih _)
        · exact ih _
      · exact ih _
    | msg m =>
      unfold feed
      exact MStar.trans (MStar.single (MStep.inject h m w)) (ih _)

/-! the purge branch really waits: after `wait(ALL_COMPLETED)` and `maybe_clean` no future is left -/

theorem nPending_setResult (fs : List Fut) (i t : Nat) (key : Key) (h : fs[i]? = some ⟨key, none⟩) :
    nPending (setResult fs i t) + 1 = nPending fs := by
  induction fs generalizing i with
  | nil => simp at h
  | cons g gs ih =>
    cases i with
    | zero =>
      simp at h; subst h
      simp [setResult, nPending]
    | succ i =>
      have h' : gs[i]? = some ⟨key, none⟩ := by simpa using h
      have := ih i h'
      simp only [setResult, nPending, List.filter_cons] at this ⊢
      split
      · simp only [List.length_cons]; omega
      · omega

theorem pendingIdx_some (fs : List Fut) (k : Nat) (hk : k < nPending fs) :
    ∃ i key, pendingIdx fs k = some i ∧ fs[i]? = some ⟨key, none⟩ := by
  induction fs generalizing k with
  | nil => simp [nPending] at hk
  | cons g gs ih =>
    obtain ⟨gk, gr⟩ := g
    cases gr with
    | none =>
      simp only [pendingIdx]
      by_cases h0 : k = 0
      · exact ⟨0, gk, by simp [h0], by simp⟩
      · have hk' : k - 1 < nPending gs := by simp [nPending] at hk ⊢; omega
        obtain ⟨i, key, hi, hg⟩ := ih (k - 1) hk'
        exact ⟨i + 1, key, by simp [h0, hi], by simpa using hg⟩
    | some t =>
      simp only [pendingIdx]
      have hk' : k < nPending gs := by simpa [nPending] using hk
      obtain ⟨i, key, hi, hg⟩ := ih k hk'
      exact ⟨i + 1, key, by simp [hi], by simpa using hg⟩

theorem runChoice_pending (h c : Nat) (w : World) (hc : (w.hosts h).crashed = false)
    (hn : nPending (w.hosts h).futs ≠ 0) :
    nPending ((runChoice h c w).hosts h).futs + 1 = nPending (w.hosts h).futs ∧
    ((runChoice h c w).hosts h).crashed = false := by
  unfold runChoice
  simp only [hn, if_false]
  have hlt : c % nPending (w.hosts h).futs < nPending (w.hosts h).futs := Nat.mod_lt _ (Nat.pos_of_ne_zero hn)
  obtain ⟨i, key, hi, hg⟩ := pendingIdx_some _ _ hlt
  rw [hi]
  simp only [runAt, hc, hg]
  have hf := execKey_futs h key w h
  simp [World.setHost, hf.1, hf.2, hc]
  exact nPending_setResult _ _ _ _ hg

theorem waitAll_done (h : Nat) (fuel : Nat) (sched : List Nat) (w : World) (hc : (w.hosts h).crashed = false)
    (hf : nPending (w.hosts h).futs ≤ fuel) :
    nPending (((waitAll h fuel sched w).1.hosts h).futs) = 0 ∧ ((waitAll h fuel sched w).1.hosts h).crashed = false := by
  induction fuel generalizing sched w with
  | zero => simp [waitAll]; exact ⟨by omega, hc⟩
  | succ n ih =>
    unfold waitAll
    split
    · rename_i h0; exact ⟨h0, hc⟩
    · rename_i h0
      have := runChoice_pending h (sched.headD 0) w hc h0
      exact ih _ _ this.2 (by omega)

theorem nPending_le_length (fs : List Fut) : nPending fs ≤ fs.length := by
  unfold nPending; exact List.length_filter_le _ _

theorem cleanList_done (fs : List Fut) (aw : List (Nat × Cmd × Option Nat)) (h0 : nPending fs = 0) :
    (cleanList fs aw).2 = [] := by
  induction fs generalizing aw with
  | nil => rfl
  | cons g gs ih =>
    obtain ⟨gk, gr⟩ := g
    cases gr with
    | none => simp [nPending] at h0
    | some t =>
      have h0' : nPending gs = 0 := by simpa [nPending] using h0
      unfold cleanList
      simp only
      cases gk <;> simp [ih _ h0']

theorem mclean_nil (h : Nat) (sched : List Nat) (w : World) (hc : (w.hosts h).crashed = false)
    (h0 : nPending (w.hosts h).futs = 0) : ((mclean h sched w).1.hosts h).futs = [] := by
  have hcl : ((cleanAll h w).hosts h).futs = [] := by
    simp [cleanAll, hc, World.setHost, cleanList_done _ _ h0]
  unfold mclean
  cases (w.hosts h).futs.length with
  | zero => simpa [maybeClean] using hcl
  | succ n => simp [maybeClean, hcl, cap]

theorem handleAll_mstar (h : Nat) (fuel : Nat) (sched : List Nat) (w : World) : MStar w (handleAll h fuel sched w).1 := by
  induction fuel generalizing sched w with
  | zero => exact MStar.refl w
  | succ n ih =>
    unfold handleAll
    simp only
    split
    · exact MStar.refl w
    · rename_i hcr
      have hc : (w.hosts h).crashed = false := by simpa using hcr
      split
      · exact MStar.refl w
      · -- purge: wait for all, clean, then handle
        have hw := waitAll_done h (w.hosts h).futs.length sched w hc (nPending_le_length _)
        have hnil := mclean_nil h (waitAll h (w.hosts h).futs.length sched w).2 _ hw.2 hw.1
        generalize hr1 : waitAll h (w.hosts h).futs.length sched w = r1 at hw hnil
        have s1 : MStar w r1.1 := by rw [← hr1]; exact waitAll_mstar h _ sched w
        generalize hr2 : mclean h r1.2 r1.1 = r2 at hnil
        have s2 : MStar r1.1 r2.1 := by rw [← hr2]; exact mclean_mstar h _ _
        have s3 : MStar r2.1 (handleHead h r2.1) := by
          refine MStar.single (MStep.handle h r2.1 ?_)
          intro ds rest _
          rw [hnil]; rfl
        exact MStar.trans s1 (MStar.trans s2 (MStar.trans s3 (ih _ _)))
      · rename_i m rest hne hin
        refine MStar.trans (MStar.single (MStep.handle h w ?_)) (ih _ _)
        intro ds rest' hin'
        rw [hin] at hin'
        injection hin' with h1 _
        exact absurd h1 (hne ds)

theorem tick_mstar (h : Nat) (ins : List Input) (sched : List Nat) (w : World) : MStar w (tick h ins sched w) := by
  unfold tick tickRest
  simp only
  split
  · exact feed_mstar h ins w
  · refine MStar.trans (feed_mstar h ins w) ?_
    refine MStar.trans (mclean_mstar h sched _) ?_
    split
    · exact MStar.trans (recvAll_mstar h _ _) (handleAll_mstar h _ _ _)
    · exact MStar.trans (recvAll_mstar h _ _) (MStar.trans (handleAll_mstar h _ _ _) (retryLoop_mstar h _ _ _))

theorem step_mstar (w : World) (op : Op) : MStar w (step w op) := by
  cases op with
  | tick h ins sched => exact tick_mstar h ins sched w
  | job h c => exact runChoice_mstar h c w
  | adv d => exact MStar.single (MStep.advance d w)
  | drop i => exact MStar.single (MStep.drop i w)
  | ctrl i dup => exact MStar.single (MStep.ctrl i dup w)

theorem run_mstar (w : World) (ops : List Op) : MStar w (run w ops) := by
  induction ops generalizing w with
  | nil => exact MStar.refl w
  | cons op ops ih => exact MStar.trans (step_mstar w op) (ih _)

theorem run_append (w : World) (a b : List Op) : run w (a ++ b) = run (run w a) b := by
  simp [run, List.foldl_append]

end Aux
end EkwVerif.Transfer
