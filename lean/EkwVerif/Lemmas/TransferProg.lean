/-
Progress lemmas for C07 (item "exactly one copy" = at most one AND, when a copy of the payload gets through,
one): computation of `tick` + `job` from a quiescent target.
-/
import EkwVerif.Lemmas.TransferRetry
namespace EkwVerif.Transfer
namespace Aux

/-- what a target with an idle pool and nothing to confirm does with a payload frame it has not seen yet -/
theorem deliver_completes (w : World) (h i si sa : Nat) (p : Payload) (sched : List Nat)
    (hh : h ≠ 0) (hc : (w.hosts h).crashed = false) (hs : (w.hosts h).sock = []) (hin : (w.hosts h).inbox = [])
    (hfu : (w.hosts h).futs = []) (haw : (w.hosts h).awaiting = [])
    (hget : w.net[i]? = some (.data h si sa p)) (hack : (si, sa) ∉ (w.hosts h).acked)
    (hinv : p.ds ∉ (w.hosts h).invalid) (hal : p.ds ∉ (w.hosts h).allocd) :
    (lookup ((run w [.tick h [.frame i false] sched, .job h 0]).hosts h).store p.ds).isSome ∧
    Frame.plain sa (.ack si) ∈ (run w [.tick h [.frame i false] sched, .job h 0]).net ∧
    (lookup (w.hosts h).store p.ds = none →
      lookup ((run w [.tick h [.frame i false] sched, .job h 0]).hosts h).store p.ds = some (p.value, p.deser) ∧
      Event.stored h p.ds p.confirmIdx p.value p.deser ∈ (run w [.tick h [.frame i false] sched, .job h 0]).log ∧
      Event.announced h p.ds p.confirmIdx ∈ (run w [.tick h [.frame i false] sched, .job h 0]).log ∧
      EMsg.pub p.ds p.confirmIdx ∈ ((run w [.tick h [.frame i false] sched, .job h 0]).hosts h).mbox) := by
  simp only [run, List.foldl_cons, List.foldl_nil, step]
  simp only [tick, feed, hget, Frame.dst, if_true, deliver, hh, if_false]
  simp [World.setHost, hc, hs, hin, hfu, haw, mclean, maybeClean, cleanAll, cleanList, cleanFails,
    tickRest, recvAll, recvOne, hack, handleAll, handleHead, handleMsg, hinv, dueQueue, retryLoop]
  cases hl : lookup (w.hosts h).store p.ds with
  | some v =>
    simp [runChoice, nPending, pendingIdx, runAt, stepAt, storeStep, World.setHost, World.setFut, World.emit,
      World.report, hc, hl, hal]
  | none =>
    simp [runChoice, nPending, pendingIdx, runAt, stepAt, storeStep, World.setHost, World.setFut, World.emit,
      World.report, hc, hl, hal, lookup_append_none]

theorem eraseIdx_append_last {α : Type} (l : List α) (a : α) : (l ++ [a]).eraseIdx l.length = l := by
  induction l with
  | nil => rfl
  | cons x xs ih => simp [List.eraseIdx, ih]

theorem getElem?_append_last {α : Type} (l : List α) (a : α) : (l ++ [a])[l.length]? = some a := by
  induction l with
  | nil => rfl
  | cons x xs ih => simpa using ih

/-- the five steps that complete an overdue transfer when the network lets one copy of the payload and of the
confirmation through: retry at the source, send job, delivery at the target, store job, ack back at the source -/
def completion (s t n : Nat) : List Op :=
  [.tick s [] [], .job s 0, .tick t [.frame n false] [], .job t 0, .tick s [.frame n false] []]

theorem completes (w : World) (s t idx : Nat) (c : Cmd) (at_ : Nat) (b f : String)
    (hs0 : s ≠ 0) (ht0 : t ≠ 0) (hst : s ≠ t)
    (hcs : c.source = s) (hct : c.target = t) (hcd : c.daddr = t) (hci : c.idx = idx)
    -- the source: alive, idle, exactly this transfer unconfirmed and overdue, holds the dataset
    (hsc : (w.hosts s).crashed = false) (hss : (w.hosts s).sock = []) (hsi : (w.hosts s).inbox = [])
    (hsf : (w.hosts s).futs = []) (hsa : (w.hosts s).awaiting = [(idx, c, some at_)])
    (hdue : 0 < at_ ∧ at_ + grace < w.now) (hna : idx ∉ (w.hosts s).acks) (hsv : c.ds ∉ (w.hosts s).invalid)
    (hsl : lookup (w.hosts s).store c.ds = some (b, f))
    -- the target: alive, idle, has not seen this Syn, dataset neither purged nor being written nor there
    (htc : (w.hosts t).crashed = false) (hts : (w.hosts t).sock = []) (hti : (w.hosts t).inbox = [])
    (htf : (w.hosts t).futs = []) (hta : (w.hosts t).awaiting = [])
    (hack : (idx, s) ∉ (w.hosts t).acked) (htv : c.ds ∉ (w.hosts t).invalid) (htal : c.ds ∉ (w.hosts t).allocd)
    (htl : lookup (w.hosts t).store c.ds = none) :
    lookup ((run w (completion s t w.net.length)).hosts t).store c.ds = some (b, f) ∧
    Event.announced t c.ds idx ∈ (run w (completion s t w.net.length)).log ∧
    idx ∈ ((run w (completion s t w.net.length)).hosts s).acks := by
  have hts' : ¬ t = s := fun hh => hst hh.symm
  subst hcs hct hci
  simp only [completion, run, List.foldl_cons, List.foldl_nil, step]
  simp [tick, feed, World.setHost, hsc, hss, hsi, hsf, hsa, mclean, maybeClean, cleanAll, cleanList, cleanFails,
    tickRest, recvAll, recvOne, handleAll, handleHead, handleMsg, dueQueue, retryLoop, retryOne, hdue, lookup,
    hasKey, hna, hsv, World.emit, setA, hst, hts',
    runChoice, nPending, pendingIdx, runAt, stepAt, sendOpen, sendData, World.setFut, World.report, hsl, hs0, ht0,
    cap, hcd, deliver, Frame.dst, eraseIdx_append_last, getElem?_append_last, htc, hts, hti, htf, hta, hack, htv, htal, htl, storeStep, lookup_append_none, insertS]

/-! ### a purge in the socket of a live data server is handled by its next iteration -/

theorem log_grows_mstar {w w' : World} (hs : MStar w w') : ∃ evs, w'.log = evs ++ w.log := by
  induction hs with
  | refl => exact ⟨[], rfl⟩
  | tail _ hstep ih =>
    obtain ⟨e1, h1⟩ := ih
    obtain ⟨e2, h2, _⟩ := (summ_mstep hstep).log
    exact ⟨e2 ++ e1, by rw [h2, h1, List.append_assoc]⟩

theorem mem_log_mstar {w w' : World} (hs : MStar w w') (e : Event) (he : e ∈ w.log) : e ∈ w'.log := by
  obtain ⟨evs, h⟩ := log_grows_mstar hs
  rw [h]; simp [he]

theorem cleanAll_crashed (h : Nat) (w : World) (k : Nat) : ((cleanAll h w).hosts k).crashed = (w.hosts k).crashed := by
  unfold cleanAll
  split
  · rfl
  · simp [World.setHost]; split <;> simp_all

theorem maybeClean_crashed (h : Nat) (fuel : Nat) (sched : List Nat) (w : World) (k : Nat) :
    ((maybeClean h fuel sched w).1.hosts k).crashed = (w.hosts k).crashed := by
  induction fuel generalizing sched w with
  | zero => exact cleanAll_crashed h w k
  | succ n ih =>
    unfold maybeClean
    simp only
    split
    · exact cleanAll_crashed h w k
    · rw [ih, (runChoice_fields h _ _ k).2.2.2.1, cleanAll_crashed]

theorem waitAll_io (h : Nat) (fuel : Nat) (sched : List Nat) (w : World) (k : Nat) :
    ((waitAll h fuel sched w).1.hosts k).sock = (w.hosts k).sock ∧
    ((waitAll h fuel sched w).1.hosts k).inbox = (w.hosts k).inbox ∧
    ((waitAll h fuel sched w).1.hosts k).crashed = (w.hosts k).crashed := by
  induction fuel generalizing sched w with
  | zero => exact ⟨rfl, rfl, rfl⟩
  | succ n ih =>
    unfold waitAll
    split
    · exact ⟨rfl, rfl, rfl⟩
    · have a := ih sched.tail (runChoice h (sched.headD 0) w)
      have b := runChoice_io h (sched.headD 0) w k
      have c := (runChoice_fields h (sched.headD 0) w k).2.2.2.1
      exact ⟨a.1.trans b.1, a.2.1.trans b.2.1, a.2.2.trans c⟩

/-- one iteration of a live data server whose socket holds exactly a purge of `ds` issues the shm purge -/
theorem tick_handles_purge (h ds : Nat) (sched : List Nat) (w : World)
    (hc : (w.hosts h).crashed = false) (hs : (w.hosts h).sock = [Frame.plain h (Msg.purge ds)])
    (hi : (w.hosts h).inbox = []) :
    ∃ k, Event.purged h ds k ∈ (tick h [] sched w).log := by
  unfold tick
  simp only [feed, hc, Bool.false_eq_true, if_false]
  -- the initial maybe_clean
  generalize hr1 : mclean h sched w = r1
  have hio := maybeClean_io h (w.hosts h).futs.length sched w h
  have hcr := maybeClean_crashed h (w.hosts h).futs.length sched w h
  unfold mclean at hr1
  rw [hr1] at hio hcr
  have hs1 : (r1.1.hosts h).sock = [Frame.plain h (Msg.purge ds)] := hio.1.trans hs
  have hi1 : (r1.1.hosts h).inbox = [] := hio.2.1.trans hi
  have hc1 : (r1.1.hosts h).crashed = false := hcr.trans hc
  unfold tickRest
  -- recv_messages reads the purge
  have hrecv : recvAll h ((r1.1.hosts h).sock.length + 1) r1.1 =
      r1.1.setHost h { r1.1.hosts h with sock := [], inbox := [Msg.purge ds] } := by
    simp [hs1, hi1, hc1, recvAll, recvOne, World.setHost]
  simp only [hrecv]
  generalize hw2 : r1.1.setHost h { r1.1.hosts h with sock := [], inbox := [Msg.purge ds] } = w2
  have hi2 : (w2.hosts h).inbox = [Msg.purge ds] := by rw [← hw2]; simp [World.setHost]
  have hc2 : (w2.hosts h).crashed = false := by rw [← hw2]; simp [World.setHost, hc1]
  -- the message loop: wait, clean, purge
  have hkey : ∃ k, Event.purged h ds k ∈ (handleAll h (w2.hosts h).inbox.length r1.2 w2).1.log := by
    rw [hi2]
    simp only [List.length_cons, List.length_nil, handleAll, hc2, Bool.false_eq_true, if_false, hi2, purgeWait_eq]
    generalize hra : waitAll h (w2.hosts h).futs.length r1.2 w2 = ra
    have hwa := waitAll_io h (w2.hosts h).futs.length r1.2 w2 h
    rw [hra] at hwa
    generalize hrb : mclean h ra.2 ra.1 = rb
    have hmb := maybeClean_io h (ra.1.hosts h).futs.length ra.2 ra.1 h
    have hmc := maybeClean_crashed h (ra.1.hosts h).futs.length ra.2 ra.1 h
    unfold mclean at hrb
    rw [hrb] at hmb hmc
    have hib : (rb.1.hosts h).inbox = [Msg.purge ds] := hmb.2.1.trans (hwa.2.1.trans hi2)
    have hcb : (rb.1.hosts h).crashed = false := hmc.trans (hwa.2.2.trans hc2)
    refine ⟨inProgress (rb.1.hosts h).futs ds, ?_⟩
    simp [handleHead, hcb, hib, handleMsg, purgeAct, World.setHost, World.emit]
  obtain ⟨k, hk⟩ := hkey
  refine ⟨k, ?_⟩
  split
  · exact hk
  · exact mem_log_mstar (retryLoop_mstar h _ _ _) _ hk

end Aux
end EkwVerif.Transfer
