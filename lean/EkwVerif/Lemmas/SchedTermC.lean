/-
Termination of the extended system, part C: a WELL-FOUNDED MEASURE that strictly decreases along EVERY step — controller
micro-step, scheduler control-flow step and executor step alike — from every reachable state, on every feasible cluster
and for every order and batching of events (`sT_decreases`). Hence the system has no infinite execution (`sT_wf`) and,
with deadlock freedom (part B), every maximal execution ends with the controller loop exited (`sT_inevitable`).

The measure is lexicographic:
  1. `roundBound j − rounds`        — iterations of the `while` loop still allowed by `c03_bounded` (drops at `endFlush`);
  2. the rank of the phase inside an iteration (waiting > notifying > top > assigning > planning > flushF > flushP);
  3–5. the position inside `assign()`: (step I before step II, outer iterations left, rank inside the current
     `assign_within_component` call: GPU call before CPU call, tasks left, phase 1 before phase 2);
  6. what the current phase still has to work off (`todo`, `fetching_queue`, `purging_queue`, the received batch);
  7. `|queued| + |outstanding|`     — what the executors still have to do (drops at every executor step).
Controller steps may increase later components (an assignment queues a task) but decrease an earlier one.
-/
import EkwVerif.Lemmas.SchedTermB

set_option linter.unusedVariables false
set_option linter.unusedSimpArgs false

namespace EkwVerif.Ctrl

abbrev M7 := Nat × Nat × Nat × Nat × Nat × Nat × Nat

def wf7 : WellFoundedRelation M7 :=
  Prod.lex Nat.lt_wfRel (Prod.lex Nat.lt_wfRel (Prod.lex Nat.lt_wfRel (Prod.lex Nat.lt_wfRel
    (Prod.lex Nat.lt_wfRel (Prod.lex Nat.lt_wfRel Nat.lt_wfRel)))))

def lt7 (a b : M7) : Prop := wf7.rel a b

theorem lt7_wf : WellFounded lt7 := wf7.wf

theorem lt7_1 {a a' : Nat} {r r' : Nat × Nat × Nat × Nat × Nat × Nat} (h : a' < a) : lt7 (a', r') (a, r) :=
  Prod.Lex.left _ _ h
theorem lt7_2 {a b b' : Nat} {r r' : Nat × Nat × Nat × Nat × Nat} (h : b' < b) : lt7 (a, b', r') (a, b, r) :=
  Prod.Lex.right _ (Prod.Lex.left _ _ h)
theorem lt7_3 {a b c c' : Nat} {r r' : Nat × Nat × Nat × Nat} (h : c' < c) : lt7 (a, b, c', r') (a, b, c, r) :=
  Prod.Lex.right _ (Prod.Lex.right _ (Prod.Lex.left _ _ h))
theorem lt7_4 {a b c d d' : Nat} {r r' : Nat × Nat × Nat} (h : d' < d) : lt7 (a, b, c, d', r') (a, b, c, d, r) :=
  Prod.Lex.right _ (Prod.Lex.right _ (Prod.Lex.right _ (Prod.Lex.left _ _ h)))
theorem lt7_5 {a b c d e e' : Nat} {r r' : Nat × Nat} (h : e' < e) : lt7 (a, b, c, d, e', r') (a, b, c, d, e, r) :=
  Prod.Lex.right _ (Prod.Lex.right _ (Prod.Lex.right _ (Prod.Lex.right _ (Prod.Lex.left _ _ h))))
theorem lt7_6 {a b c d e g g' : Nat} {r r' : Nat} (h : g' < g) : lt7 (a, b, c, d, e, g', r') (a, b, c, d, e, g, r) :=
  Prod.Lex.right _ (Prod.Lex.right _ (Prod.Lex.right _ (Prod.Lex.right _ (Prod.Lex.right _ (Prod.Lex.left _ _ h)))))
theorem lt7_7 {a b c d e g r r' : Nat} (h : r' < r) : lt7 (a, b, c, d, e, g, r') (a, b, c, d, e, g, r) :=
  Prod.Lex.right _ (Prod.Lex.right _ (Prod.Lex.right _ (Prod.Lex.right _ (Prod.Lex.right _ (Prod.Lex.right _ h)))))

def phaseRank : Phase → Nat
  | .waiting => 7 | .notifying => 6 | .top => 5 | .assigning => 4 | .planning => 3 | .flushF => 2 | .flushP => 1
  | .finished => 0 | .crashed => 0

def clsRank : Cls → Nat → Nat
  | .gpu, n => n + 3
  | .cpu, _ => 0

def phRank : HPhase → Nat
  | .p1 => 1
  | .p2 => 0

/-- position inside `assign()`: (step I = 3 / step II = 2, outer iterations left, rank inside the current call) -/
def stagePos (x : SysX) : Nat × Nat × Nat :=
  match x.sch.stage with
  | .off => (0, 0, 0)
  | .done => (0, 0, 0)
  | .stepI pend => (3, pend.length, 0)
  | .stepII _ _ mig => (2, mig.length, 0)
  | .ready _ _ k =>
    (if k then 2 else 3, if k then x.sch.stepIImig.length else x.sch.stepIIcomps.length, x.sys.ctl.computable.length + 6)
  | .inH _ cls tasks _ ph cpuT _ k =>
    (if k then 2 else 3, if k then x.sch.stepIImig.length else x.sch.stepIIcomps.length,
      clsRank cls cpuT.length + tasks.length + phRank ph + 1)

def stageRank (x : SysX) : Nat × Nat × Nat := if x.sys.phase = .assigning then stagePos x else (0, 0, 0)

def inPhase (s : Sys) : Nat :=
  match s.phase with
  | .planning => s.todo.length
  | .flushF => s.ctl.fetchQ.length
  | .flushP => s.ctl.purgeQ.length
  | .notifying => s.inbox.length
  | _ => 0

def mu (j : Job) (x : SysX) : M7 :=
  (roundBound j - x.sys.rounds, phaseRank x.sys.phase, (stageRank x).1, (stageRank x).2.1, (stageRank x).2.2,
    inPhase x.sys, x.sys.env.queued.length + x.sys.env.outstanding.length)

/-! ### base steps other than `assign` and `env` -/

/-- what a base step other than `assign`/`env` does to (rounds, phase, work left in the phase) -/
theorem sT_base_dec (f : Sem) (j : Job) (cl : Cluster) (s s' : Sys) (st : Step) (hs : step f j cl s st = some s')
    (hna : ∀ a, st ≠ .assign a) (hne : ∀ es, st ≠ .env es) :
    (s'.rounds = s.rounds + 1) ∨
    (s'.rounds = s.rounds ∧ phaseRank s'.phase < phaseRank s.phase) ∨
    (s'.rounds = s.rounds ∧ s'.phase = s.phase ∧ s.phase ≠ .assigning ∧ inPhase s' < inPhase s) := by
  cases st with
  | assign a => exact absurd rfl (hna a)
  | env es => exact absurd rfl (hne es)
  | enter =>
    simp only [step] at hs
    split at hs; · cases hs
    rename_i hc
    have hp : s.phase = .top := by simpa using hc
    split at hs <;> (cases hs; exact Or.inr (Or.inl ⟨rfl, by simp [hp, phaseRank]⟩))
  | endAssign =>
    simp only [step] at hs
    split at hs; · cases hs
    rename_i hc
    have hp : s.phase = .assigning := by simpa using hc
    cases hs; exact Or.inr (Or.inl ⟨rfl, by simp [hp, phaseRank]⟩)
  | plan1 =>
    simp only [step] at hs
    split at hs; · cases hs
    rename_i hc
    have hp : s.phase = .planning := by simpa using hc
    split at hs
    · cases hs
    · rename_i a prep rest htd
      split at hs
      · cases hs
      · cases hs; exact Or.inr (Or.inl ⟨rfl, by simp [hp, phaseRank, Sys.crash]⟩)
      · cases hs
        exact Or.inr (Or.inr ⟨rfl, rfl, by simp [hp], by simp [inPhase, hp, htd]⟩)
  | endPlan =>
    simp only [step] at hs
    split at hs; · cases hs
    rename_i hc
    have hp : s.phase = .planning := by
      simp only [bne_iff_ne, ne_eq, Bool.or_eq_true, not_or, Decidable.not_not] at hc; exact hc.1
    cases hs; exact Or.inr (Or.inl ⟨rfl, by simp [hp, phaseRank]⟩)
  | flushF1 =>
    simp only [step] at hs
    split at hs; · cases hs
    rename_i hc
    have hp : s.phase = .flushF := by simpa using hc
    split at hs
    · cases hs
    · rename_i ds h rest hq
      cases hs
      exact Or.inr (Or.inr ⟨rfl, rfl, by simp [hp], by simp [inPhase, hp, hq]⟩)
  | endFlushF =>
    simp only [step] at hs
    split at hs; · cases hs
    rename_i hc
    have hp : s.phase = .flushF := by
      simp only [bne_iff_ne, ne_eq, Bool.or_eq_true, not_or, Decidable.not_not] at hc; exact hc.1
    cases hs; exact Or.inr (Or.inl ⟨rfl, by simp [hp, phaseRank]⟩)
  | flushP1 =>
    simp only [step] at hs
    split at hs; · cases hs
    rename_i hc
    have hp : s.phase = .flushP := by simpa using hc
    split at hs
    · cases hs
    · rename_i ds rest hq
      split at hs
      · cases hs
      · cases hs; exact Or.inr (Or.inl ⟨rfl, by simp [hp, phaseRank, Sys.crash]⟩)
      · cases hs
        exact Or.inr (Or.inr ⟨rfl, rfl, by simp [hp], by simp [inPhase, hp, hq]⟩)
  | endFlush =>
    simp only [step] at hs
    split at hs; · cases hs
    cases hs; exact Or.inl rfl
  | recv evs =>
    simp only [step] at hs
    split at hs; · cases hs
    rename_i hc
    have hp : s.phase = .waiting := by
      simp only [bne_iff_ne, ne_eq, Bool.or_eq_true, not_or, Decidable.not_not] at hc; exact hc.1
    split at hs
    · cases hs
    · cases hs; exact Or.inr (Or.inl ⟨rfl, by simp [hp, phaseRank]⟩)
  | notify1 =>
    simp only [step] at hs
    split at hs; · cases hs
    rename_i hc
    have hp : s.phase = .notifying := by simpa using hc
    split at hs
    · cases hs
    · rename_i ev rest hib
      split at hs
      · cases hs
      · cases hs; exact Or.inr (Or.inl ⟨rfl, by simp [hp, phaseRank, Sys.crash]⟩)
      · cases hs
        exact Or.inr (Or.inr ⟨rfl, rfl, by simp [hp], by simp [inPhase, hp, hib]⟩)
  | endNotify =>
    simp only [step] at hs
    split at hs; · cases hs
    rename_i hc
    have hp : s.phase = .notifying := by
      simp only [bne_iff_ne, ne_eq, Bool.or_eq_true, not_or, Decidable.not_not] at hc; exact hc.1
    cases hs; exact Or.inr (Or.inl ⟨rfl, by simp [hp, phaseRank]⟩)

/-- an executor step leaves the controller alone and consumes a queued task or an outstanding transfer/fetch -/
theorem sT_env_dec (f : Sem) (j : Job) (cl : Cluster) (s s' : Sys) (es : EnvStep) (h1 : Inv1 cl s)
    (hs : step f j cl s (.env es) = some s') :
    s'.rounds = s.rounds ∧ s'.phase = s.phase ∧ s'.ctl = s.ctl ∧ s'.todo = s.todo ∧ s'.inbox = s.inbox ∧
    s'.mayAssign = s.mayAssign ∧
    s'.env.queued.length + s'.env.outstanding.length < s.env.queued.length + s.env.outstanding.length := by
  simp only [step] at hs
  split at hs; · cases hs
  rw [envStepP_eq f j s.env es h1.no_trim] at hs
  cases he : envStep f j s.env es with
  | none => simp [he] at hs
  | some e' =>
    simp only [he, Option.map_some, Option.some.injEq] at hs
    subst hs
    refine ⟨rfl, rfl, rfl, rfl, rfl, rfl, ?_⟩
    cases es with
    | run w t =>
      obtain ⟨hq, hq', _⟩ := i2a_envStep_run f j s.env e' w t he
      obtain ⟨hou, _⟩ := sI_envStep_run f j s.env e' w t he
      have hl := List.length_erase_of_mem hq
      have hpos : 0 < s.env.queued.length := List.length_pos_of_mem hq
      simp only [hq', hou, hl]
      omega
    | io i =>
      obtain ⟨o, hoi, hou, hq, _⟩ := sI_envStep_io f j s.env e' i he
      have hi : i < s.env.outstanding.length := by
        rcases List.getElem?_eq_some_iff.mp hoi with ⟨h, _⟩
        exact h
      have hl := List.length_eraseIdx_of_lt hi
      simp only [hq, hou, hl]
      omega

/-! ### the position inside `assign()` -/

abbrev Lex3 : Nat × Nat × Nat → Nat × Nat × Nat → Prop :=
  Prod.Lex (fun a b : Nat => a < b) (Prod.Lex (fun a b : Nat => a < b) (fun a b : Nat => a < b))

theorem lex3_1 {a a' b b' c c' : Nat} (h : a' < a) : Lex3 (a', b', c') (a, b, c) := Prod.Lex.left _ _ h
theorem lex3_2 {a b b' c c' : Nat} (h : b' < b) : Lex3 (a, b', c') (a, b, c) := Prod.Lex.right _ (Prod.Lex.left _ _ h)
theorem lex3_3 {a b c c' : Nat} (h : c' < c) : Lex3 (a, b, c') (a, b, c) := Prod.Lex.right _ (Prod.Lex.right _ h)

theorem stagePos_inH {x : SysX} {c : Nat} {cls : Cls} {tasks : List Task} {workers : List Worker} {ph : HPhase}
    {cpuT : List Task} {cpuW : List Worker} {k : Bool} (hst : x.sch.stage = .inH c cls tasks workers ph cpuT cpuW k) :
    stagePos x = (if k then 2 else 3, if k then x.sch.stepIImig.length else x.sch.stepIIcomps.length,
      clsRank cls cpuT.length + tasks.length + phRank ph + 1) := by
  unfold stagePos; rw [hst]

theorem stagePos_ready {x : SysX} {c : Nat} {ws : List Worker} {k : Bool} (hst : x.sch.stage = .ready c ws k) :
    stagePos x = (if k then 2 else 3, if k then x.sch.stepIImig.length else x.sch.stepIIcomps.length,
      x.sys.ctl.computable.length + 6) := by
  unfold stagePos; rw [hst]

theorem stagePos_stepI {x : SysX} {pend : List Nat} (hst : x.sch.stage = .stepI pend) :
    stagePos x = (3, pend.length, 0) := by
  unfold stagePos; rw [hst]

theorem stagePos_stepII {x : SysX} {comps : List Nat} {i : Nat} {mig : List Host}
    (hst : x.sch.stage = .stepII comps i mig) : stagePos x = (2, mig.length, 0) := by
  unfold stagePos; rw [hst]

theorem stagePos_done {x : SysX} (hst : x.sch.stage = .done) : stagePos x = (0, 0, 0) := by
  unfold stagePos; rw [hst]

/-- a step that keeps the base state and moves forward inside `assign()` decreases the measure -/
theorem sT_mu_sched (j : Job) (x x' : SysX) (hsys : x'.sys = x.sys) (hph : x.sys.phase = .assigning)
    (h : Lex3 (stagePos x') (stagePos x)) : lt7 (mu j x') (mu j x) := by
  have hph' : x'.sys.phase = .assigning := by rw [hsys]; exact hph
  unfold mu stageRank
  rw [if_pos hph, if_pos hph', hsys]
  rcases hp : stagePos x with ⟨a, b, c⟩
  rcases hp' : stagePos x' with ⟨a', b', c'⟩
  rw [hp, hp'] at h
  cases h with
  | left _ _ h => exact lt7_3 h
  | right _ h =>
    cases h with
    | left _ _ h => exact lt7_4 h
    | right _ h => exact lt7_5 h

theorem sT_filter_split (l : List Task) (p : Task → Bool) :
    (l.filter p).length + (l.filter (fun t => !p t)).length = l.length := by
  induction l with
  | nil => rfl
  | cons a l ih =>
    simp only [List.filter_cons]
    cases hp : p a <;> simp <;> omega

/-- **Every step decreases the measure.** -/
theorem sT_decreases (f : Sem) (j : Job) (cl : Cluster) (cm : Comps) (wf : WF j cl) (wfc : WFC j cm)
    (feas : Feasible j cl) (x x' : SysX) (st : StepX) (hr : ReachableX f j cl cm x)
    (hs : stepX f j cl cm x st = some x') : lt7 (mu j x') (mu j x) := by
  have hr' : ReachableX f j cl cm x' := ReachableX.step x x' st hr hs
  have hb' := sB_rounds_bounded f j cl cm wf wfc feas x' hr'
  have hX := invX_reachable f j cl cm wf wfc x hr
  cases st with
  | base bst =>
    have hbs := sL_stepX_base f j cl cm x x' bst hs
    by_cases hna : ∃ a, bst = .assign a
    · obtain ⟨a, rfl⟩ := hna
      simp only [stepX] at hs
      split at hs; · cases hs
      split at hs
      · rename_i c cls tasks workers phase cpuT cpuW k hstage
        split at hs; · cases hs
        rename_i hmem
        have hat : a.task ∈ tasks := by
          simp only [Bool.or_eq_true, Bool.not_eq_true', not_or, Bool.not_eq_false] at hmem
          simpa using hmem.1
        cases hst : step f j cl x.sys (.assign a) with
        | none => simp [hst] at hs
        | some s' =>
          simp only [hst, Option.map_some, Option.some.injEq] at hs
          -- what the base step does
          have hbase : (s'.phase = .crashed ∧ s'.rounds = x.sys.rounds ∧ x.sys.phase = .assigning) ∨
              (s'.phase = .assigning ∧ s'.rounds = x.sys.rounds ∧ x.sys.phase = .assigning) := by
            simp only [step] at hst
            split at hst; · cases hst
            rename_i hc
            have hp : x.sys.phase = .assigning := by
              simp only [bne_iff_ne, ne_eq, Bool.or_eq_true, not_or, Decidable.not_not] at hc; exact hc.1
            split at hst
            · cases hst
            · cases hst; exact Or.inl ⟨rfl, rfl, hp⟩
            · cases hst; exact Or.inr ⟨hp, rfl, hp⟩
          split at hs
          · rename_i hcr
            subst hs
            rcases hbase with ⟨hp', hro, hp⟩ | ⟨hp', _, _⟩
            · simp only [mu, hro]
              apply lt7_2
              simp only [hp', hp, phaseRank]; omega
            · simp only [beq_iff_eq] at hcr; rw [hcr] at hp'; cases hp'
          · rename_i hcr
            rcases hbase with ⟨hp', _, _⟩ | ⟨hp', hro, hp⟩
            · simp only [beq_iff_eq] at hcr; exact absurd hp' hcr
            · subst hs
              have hl := List.length_erase_of_mem hat
              have hpos : 0 < tasks.length := List.length_pos_of_mem hat
              unfold mu stageRank
              simp only [hro, hp', hp, if_true]
              rw [stagePos_inH hstage]
              split <;> (rw [stagePos_inH rfl]; apply lt7_5; simp only [hl]; omega)
      · cases hs
    · by_cases hne : ∃ es, bst = .env es
      · obtain ⟨es, rfl⟩ := hne
        obtain ⟨h1, h2, h3, h4, h5, h6, h7⟩ := sT_env_dec f j cl x.sys x'.sys es hX.hA.h1 hbs
        have hsch : x'.sch = x.sch := by
          simp only [stepX] at hs
          split at hs; · cases hs
          cases hst : step f j cl x.sys (.env es) with
          | none => simp [hst] at hs
          | some s' => simp only [hst, Option.map_some, Option.some.injEq] at hs; subst hs; rfl
        have hsr : stageRank x' = stageRank x := by
          unfold stageRank stagePos
          rw [h2, hsch, h3]
        have hip : inPhase x'.sys = inPhase x.sys := by
          unfold inPhase
          rw [h2, h3, h4, h5]
        unfold mu
        rw [h1, h2, hsr, hip]
        exact lt7_7 h7
      · have hna' : ∀ a, bst ≠ .assign a := fun a h => hna ⟨a, h⟩
        have hne' : ∀ es, bst ≠ .env es := fun es h => hne ⟨es, h⟩
        rcases sT_base_dec f j cl x.sys x'.sys bst hbs hna' hne' with hro | ⟨hro, hpr⟩ | ⟨hro, hph, hnas, hip⟩
        · unfold mu
          apply lt7_1
          omega
        · unfold mu
          rw [hro]
          exact lt7_2 hpr
        · have hnas' : x'.sys.phase ≠ .assigning := by rw [hph]; exact hnas
          unfold mu stageRank
          rw [hro, hph]
          simp only [if_neg hnas]
          exact lt7_6 hip
  | awcBegin c =>
    have hsys := sL_stepX_sched f j cl cm x x' _ (by intro b; simp) hs
    simp only [stepX] at hs
    split at hs; · cases hs
    rename_i hg
    have hph : x.sys.phase = .assigning := by
      simp only [bne_iff_ne, ne_eq, Bool.or_eq_true, not_or, Decidable.not_not] at hg; exact hg.2
    split at hs
    · rename_i pend hstage
      split at hs
      · rename_i hc
        cases hs
        refine sT_mu_sched j x _ rfl hph ?_
        rw [stagePos_stepI hstage, stagePos_ready rfl]
        have hm : c ∈ pend := by simpa using hc
        have hl := List.length_erase_of_mem hm
        have hpos : 0 < pend.length := List.length_pos_of_mem hm
        simp only [Bool.false_eq_true, if_false]
        apply lex3_2
        simp only [hl]; omega
      · cases hs
    · cases hs
  | awcEnter =>
    simp only [stepX] at hs
    split at hs; · cases hs
    rename_i hg
    have hph : x.sys.phase = .assigning := by
      simp only [bne_iff_ne, ne_eq, Bool.or_eq_true, not_or, Decidable.not_not] at hg; exact hg.2
    split at hs
    · rename_i c ws k hstage
      cases hs
      have hlen : ((compTasks cm x.sys.ctl c).filter (fun t => j.gpu t)).length +
          ((compTasks cm x.sys.ctl c).filter (fun t => !(j.gpu t))).length ≤ x.sys.ctl.computable.length := by
        rw [sT_filter_split]
        exact List.length_filter_le _ _
      split <;> (refine sT_mu_sched j x _ rfl hph ?_
                 rw [stagePos_ready hstage, stagePos_inH rfl]
                 apply lex3_3
                 simp only [clsRank, phRank]
                 omega)
    · cases hs
  | hPhase2 =>
    simp only [stepX] at hs
    split at hs; · cases hs
    rename_i hg
    have hph : x.sys.phase = .assigning := by
      simp only [bne_iff_ne, ne_eq, Bool.or_eq_true, not_or, Decidable.not_not] at hg; exact hg.2
    split at hs
    · rename_i c cls tasks workers cpuT cpuW k hstage
      cases hs
      split <;> (refine sT_mu_sched j x _ rfl hph ?_
                 rw [stagePos_inH hstage, stagePos_inH rfl]
                 apply lex3_3
                 simp only [clsRank, phRank]
                 omega)
    · cases hs
  | hEnd =>
    simp only [stepX] at hs
    split at hs; · cases hs
    rename_i hg
    have hph : x.sys.phase = .assigning := by
      simp only [bne_iff_ne, ne_eq, Bool.or_eq_true, not_or, Decidable.not_not] at hg; exact hg.2
    split at hs
    · rename_i c cls tasks workers cpuT cpuW k hstage
      split at hs; · cases hs
      cases cls with
      | gpu =>
        simp only at hs
        cases hs
        split <;> (refine sT_mu_sched j x _ rfl hph ?_
                   rw [stagePos_inH hstage, stagePos_inH rfl]
                   apply lex3_3
                   simp only [clsRank, phRank]
                   omega)
      | cpu =>
        simp only at hs
        split at hs
        · rename_i hk
          cases hs
          refine sT_mu_sched j x _ rfl hph ?_
          rw [stagePos_inH hstage, stagePos_stepII rfl]
          simp only [hk, if_true]
          apply lex3_3
          simp only [clsRank, phRank]
          omega
        · rename_i hk
          cases hs
          refine sT_mu_sched j x _ rfl hph ?_
          rw [stagePos_inH hstage, stagePos_stepI rfl]
          have : k = false := by simpa using hk
          simp only [this, Bool.false_eq_true, if_false]
          apply lex3_3
          simp only [clsRank, phRank]
          omega
    · cases hs
  | beginStepII =>
    simp only [stepX] at hs
    split at hs; · cases hs
    rename_i hg
    have hph : x.sys.phase = .assigning := by
      simp only [bne_iff_ne, ne_eq, Bool.or_eq_true, not_or, Decidable.not_not] at hg; exact hg.2
    split at hs
    · rename_i hstage
      split at hs
      · cases hs
        refine sT_mu_sched j x _ rfl hph ?_
        rw [stagePos_stepI hstage, stagePos_done rfl]
        exact lex3_1 (by omega)
      · split at hs
        · cases hs
          refine sT_mu_sched j x _ rfl hph ?_
          rw [stagePos_stepI hstage, stagePos_done rfl]
          exact lex3_1 (by omega)
        · cases hs
          refine sT_mu_sched j x _ rfl hph ?_
          rw [stagePos_stepI hstage, stagePos_stepII rfl]
          exact lex3_1 (by omega)
    · cases hs
  | migrate hh =>
    simp only [stepX] at hs
    split at hs; · cases hs
    rename_i hg
    have hph : x.sys.phase = .assigning := by
      simp only [bne_iff_ne, ne_eq, Bool.or_eq_true, not_or, Decidable.not_not] at hg; exact hg.2
    split at hs
    · rename_i comps i mig hstage
      split at hs; · cases hs
      rename_i hc
      split at hs
      · cases hs
      · cases hs
        refine sT_mu_sched j x _ rfl hph ?_
        rw [stagePos_stepII hstage, stagePos_ready rfl]
        have hm : hh ∈ mig := by simpa using hc
        have hl := List.length_erase_of_mem hm
        have hpos : 0 < mig.length := List.length_pos_of_mem hm
        simp only [if_true]
        apply lex3_2
        simp only [hl]; omega
    · cases hs

/-! ### no infinite execution; every maximal execution exits the loop -/

/-- `x'` is a successor of the reachable state `x` -/
def StepRel (f : Sem) (j : Job) (cl : Cluster) (cm : Comps) (x' x : SysX) : Prop :=
  ReachableX f j cl cm x ∧ ∃ st, stepX f j cl cm x st = some x'

/-- **The successor relation on reachable states is well-founded**: the system has no infinite execution, whatever
the heuristics choose, however executor steps interleave and in whatever order and batching events are delivered. -/
theorem sT_wf (f : Sem) (j : Job) (cl : Cluster) (cm : Comps) (wf : WF j cl) (wfc : WFC j cm) (feas : Feasible j cl) :
    WellFounded (StepRel f j cl cm) := by
  refine Subrelation.wf ?_ (InvImage.wf (mu j) lt7_wf)
  intro x' x h
  obtain ⟨hr, st, hs⟩ := h
  exact sT_decreases f j cl cm wf wfc feas x x' st hr hs

/-- `P` is inevitable from `x`: it holds now, or some step is enabled and `P` is inevitable after every enabled step
(so: on every maximal execution from `x`, `P` eventually holds) -/
inductive Inev (f : Sem) (j : Job) (cl : Cluster) (cm : Comps) (P : SysX → Prop) : SysX → Prop
  | now (x : SysX) : P x → Inev f j cl cm P x
  | later (x : SysX) : (∃ st x', stepX f j cl cm x st = some x') →
      (∀ st x', stepX f j cl cm x st = some x' → Inev f j cl cm P x') → Inev f j cl cm P x

/-- **Termination.** From every reachable state the exit of the controller loop is inevitable. -/
theorem sT_inevitable (f : Sem) (j : Job) (cl : Cluster) (cm : Comps) (wf : WF j cl) (wfc : WFC j cm)
    (feas : Feasible j cl) (x : SysX) (hr : ReachableX f j cl cm x) :
    Inev f j cl cm (fun y => y.sys.phase = .finished) x := by
  have hwf := sT_wf f j cl cm wf wfc feas
  induction x using hwf.induction with
  | _ x ih =>
    by_cases hfin : x.sys.phase = .finished
    · exact Inev.now x hfin
    · refine Inev.later x (sT_deadlock_free f j cl cm wf wfc feas x hr hfin) ?_
      intro st x' hs
      exact ih x' ⟨hr, st, hs⟩ (ReachableX.step x x' st hr hs)

theorem Inev.mono {f : Sem} {j : Job} {cl : Cluster} {cm : Comps} {P Q : SysX → Prop} {x : SysX}
    (h : Inev f j cl cm P x) (hpq : ∀ y, ReachableX f j cl cm y → P y → Q y) (hr : ReachableX f j cl cm x) :
    Inev f j cl cm Q x := by
  induction h with
  | now x hp => exact Inev.now x (hpq x hr hp)
  | later x hen hall ih => exact Inev.later x hen (fun st x' hs => ih st x' hs (ReachableX.step x x' st hr hs))

/-- there is no infinite execution from a reachable state -/
theorem sT_no_infinite (f : Sem) (j : Job) (cl : Cluster) (cm : Comps) (wf : WF j cl) (wfc : WFC j cm)
    (feas : Feasible j cl) (σ : Nat → SysX) (h0 : ReachableX f j cl cm (σ 0))
    (hstep : ∀ n, ∃ st, stepX f j cl cm (σ n) st = some (σ (n + 1))) : False := by
  have hreach : ∀ n, ReachableX f j cl cm (σ n) := by
    intro n
    induction n with
    | zero => exact h0
    | succ n ih => obtain ⟨st, hs⟩ := hstep n; exact ReachableX.step _ _ st ih hs
  have hwf := sT_wf f j cl cm wf wfc feas
  have key : ∀ x, ∀ n, σ n = x → False := by
    intro x
    induction x using hwf.induction with
    | _ x ih =>
      intro n hn
      exact ih (σ (n + 1)) ⟨hn ▸ hreach n, by rw [← hn]; exact hstep n⟩ (n + 1) rfl
  exact key (σ 0) 0 rfl

/-- **Every maximal execution exits the loop.** An execution that takes an enabled step whenever there is one (and
stays put only in a state without enabled steps) reaches `finished` after finitely many steps. -/
theorem sT_maximal_finishes (f : Sem) (j : Job) (cl : Cluster) (cm : Comps) (wf : WF j cl) (wfc : WFC j cm)
    (feas : Feasible j cl) (σ : Nat → SysX) (h0 : σ 0 = SysX.init j cl cm)
    (hmax : ∀ n, (∃ st, stepX f j cl cm (σ n) st = some (σ (n + 1))) ∨
      ((∀ st, stepX f j cl cm (σ n) st = none) ∧ σ (n + 1) = σ n)) :
    ∃ n, (σ n).sys.phase = .finished := by
  have hreach : ∀ n, ReachableX f j cl cm (σ n) := by
    intro n
    induction n with
    | zero => rw [h0]; exact ReachableX.init
    | succ n ih =>
      rcases hmax n with ⟨st, hs⟩ | ⟨_, he⟩
      · exact ReachableX.step _ _ st ih hs
      · rw [he]; exact ih
  apply Classical.byContradiction
  intro hno
  have hnf : ∀ n, (σ n).sys.phase ≠ .finished := fun n h => hno ⟨n, h⟩
  refine sT_no_infinite f j cl cm wf wfc feas σ (hreach 0) ?_
  intro n
  rcases hmax n with h | ⟨hnone, _⟩
  · exact h
  · obtain ⟨st, x', hs⟩ := sT_deadlock_free f j cl cm wf wfc feas (σ n) (hreach n) (hnf n)
    rw [hnone st] at hs; cases hs

end EkwVerif.Ctrl
