/-
Assembly for the extended system (controller + scheduler bookkeeping): the base invariant of
`x.sys` and the scheduler invariants hold in every reachable state.
-/
import EkwVerif.Lemmas.SchedInvS1
import EkwVerif.Lemmas.SchedInvS2
import EkwVerif.Lemmas.SchedLive

namespace EkwVerif.Ctrl

structure InvX (f : Sem) (j : Job) (cl : Cluster) (cm : Comps) (x : SysX) : Prop where
  hA : InvAll f j cl x.sys
  hS : InvS j cl cm x
  hS1 : InvS1X j cm x
  hS2 : InvS2X cm x

theorem invX_init (f : Sem) (j : Job) (cl : Cluster) (cm : Comps) (wf : WF j cl) (wfc : WFC j cm) :
    InvX f j cl cm (SysX.init j cl cm) :=
  ⟨invAll_init f j cl wf, sS1_init j cl cm wf wfc, sS1_auxX_init j cl cm, sS2_x_init j cl cm⟩

theorem invX_step (f : Sem) (j : Job) (cl : Cluster) (cm : Comps) (x x' : SysX) (st : StepX)
    (wf : WF j cl) (wfc : WFC j cm) (h : InvX f j cl cm x) (hs : stepX f j cl cm x st = some x') :
    InvX f j cl cm x' := by
  have hS1' := sS1_auxX_step f j cl cm x x' st wf h.hA h.hS1 hs
  have hS2' := sS2_x_step f j cl cm x x' st h.hS h.hS2 hs
  cases st with
  | base bst =>
    have := sS1_step_base_all f j cl cm x x' bst wf wfc h.hA h.hS h.hS1 hs
    exact ⟨this.1, this.2.1, hS1', hS2'⟩
  | awcBegin c =>
    have e := sS2_sys_eq f j cl cm x x' _ rfl hs
    exact ⟨by rw [e]; exact h.hA, sS2_step_schedOnly f j cl cm x x' _ wf wfc h.hA h.hS h.hS2 rfl hs, hS1', hS2'⟩
  | beginStepII =>
    have e := sS2_sys_eq f j cl cm x x' _ rfl hs
    exact ⟨by rw [e]; exact h.hA, sS2_step_schedOnly f j cl cm x x' _ wf wfc h.hA h.hS h.hS2 rfl hs, hS1', hS2'⟩
  | migrate hh =>
    have e := sS2_sys_eq f j cl cm x x' _ rfl hs
    exact ⟨by rw [e]; exact h.hA, sS2_step_schedOnly f j cl cm x x' _ wf wfc h.hA h.hS h.hS2 rfl hs, hS1', hS2'⟩
  | awcEnter =>
    have e := sS2_sys_eq f j cl cm x x' _ rfl hs
    exact ⟨by rw [e]; exact h.hA, sS2_step_schedOnly f j cl cm x x' _ wf wfc h.hA h.hS h.hS2 rfl hs, hS1', hS2'⟩
  | hPhase2 =>
    have e := sS2_sys_eq f j cl cm x x' _ rfl hs
    exact ⟨by rw [e]; exact h.hA, sS2_step_schedOnly f j cl cm x x' _ wf wfc h.hA h.hS h.hS2 rfl hs, hS1', hS2'⟩
  | hEnd =>
    have e := sS2_sys_eq f j cl cm x x' _ rfl hs
    exact ⟨by rw [e]; exact h.hA, sS2_step_schedOnly f j cl cm x x' _ wf wfc h.hA h.hS h.hS2 rfl hs, hS1', hS2'⟩

theorem invX_reachable (f : Sem) (j : Job) (cl : Cluster) (cm : Comps) (wf : WF j cl) (wfc : WFC j cm) (x : SysX)
    (hr : ReachableX f j cl cm x) : InvX f j cl cm x := by
  induction hr with
  | init => exact invX_init f j cl cm wf wfc
  | step x x' st _ hs ih => exact invX_step f j cl cm x x' st wf wfc ih hs

end EkwVerif.Ctrl
