/-
Invariants of the extended system (`Model/Sched.lean`): the scheduler's bookkeeping (InvS). The liveness bookkeeping
of the base system (Tier L, any event order) is in `SchedLiveDefs.lean`.
Definitions only; validated on random walks (Drive/SchedFuzz.lean) before being proved.
-/
import EkwVerif.Lemmas.CtrlInvAll
import EkwVerif.Model.Sched
import EkwVerif.Lemmas.SchedLiveDefs

namespace EkwVerif.Ctrl

/-- the component map is consistent with the job (what C16 proves about `precompute`) -/
structure WFC (j : Job) (cm : Comps) : Prop where
  edge_same : ∀ t ds, ds ∈ j.inputs t → cm.compOf ds.task = cm.compOf t
  comp_lt : ∀ t, t < j.tasks.length → cm.compOf t < cm.n

/-- number of tasks of component `c` not dispatched yet -/
def undispatched (j : Job) (cm : Comps) (c : Ctl) (comp : Nat) : Nat :=
  (j.taskIds.filter (fun t => cm.compOf t == comp && c.dispatched t == 0)).length

def StageOk (cl : Cluster) (cm : Comps) (x : SysX) : Prop :=
  match x.sch.stage with
  | .ready c ws _ => ∀ w, w ∈ ws → w ∈ x.sys.ctl.idle ∧ x.sch.host2comp w.host = some c
  | .inH c cls tasks workers _ cpuT cpuW _ =>
    (∀ w, w ∈ workers ++ cpuW → w ∈ x.sys.ctl.idle ∧ x.sch.host2comp w.host = some c) ∧
    (∀ t, t ∈ tasks ++ cpuT → t ∈ x.sys.ctl.computable ∧ cm.compOf t = c) ∧
    (cls = .gpu → ∀ w, w ∈ workers → cl.hasGpu w = true)
  | .stepI pend => ∀ c, c ∈ pend → c < cm.n
  | .stepII comps _ _ => ∀ c, c ∈ comps → c < cm.n
  | _ => True

/-- Tier S: the dictionaries the heuristics index are defined where they are indexed. -/
structure InvS (j : Job) (cl : Cluster) (cm : Comps) (x : SysX) : Prop where
  values_comp : ∀ t, t ∈ x.sys.ctl.computable → t ∈ x.sch.values (cm.compOf t)
  host_dist : ∀ h c, x.sch.host2comp h = some c → ∀ w, w ∈ cl.workersOf h → w ∈ x.sch.distDom c
  host_comp_lt : ∀ h c, x.sch.host2comp h = some c → c < cm.n
  ov_comp : ∀ w t, w ∈ x.sch.distDom (cm.compOf t) → t ∈ x.sys.ctl.computable → t ∈ x.sch.ovDom w
  flight_dist : ∀ w t, x.sys.inFlight w t → w ∈ x.sch.distDom (cm.compOf t)
  weight_eq : ∀ c, x.sch.weight c = undispatched j cm x.sys.ctl c
  stage_ok : StageOk cl cm x
  stage_phase : x.sys.phase ≠ .assigning → (x.sch.stage = .off ∨ x.sch.stage = .done)
  no_schErr : x.sch.schErr = none

end EkwVerif.Ctrl
