/-
Invariants of the extended system (`Model/Sched.lean`): the scheduler's bookkeeping (InvS), and the
additional facts that hold when events are delivered in production order (FIFO; InvFifo).
Definitions only; validated on random walks (Drive/SchedFuzz.lean) before being proved.
-/
import EkwVerif.Lemmas.CtrlInvAll
import EkwVerif.Model.Sched

namespace EkwVerif.Ctrl

/-- the component map is consistent with the job (what C16 proves about `precompute`) -/
structure WFC (j : Job) (cm : Comps) : Prop where
  edge_same : ∀ t ds, ds ∈ j.inputs t → cm.compOf ds.task = cm.compOf t
  comp_lt : ∀ t, t < j.tasks.length → cm.compOf t < cm.n

/-- number of tasks of component `c` not dispatched yet -/
def undispatched (j : Job) (cm : Comps) (c : Ctl) (comp : Nat) : Nat :=
  (j.taskIds.filter (fun t => cm.compOf t == comp && c.dispatched t == 0)).length

def StageOk (cl : Cluster) (cm : Comps) (x : SysX) : Prop :=
  match x.sch.stage with
  | .ready c ws _ => ∀ w, w ∈ ws → w ∈ x.sys.ctl.idle ∧ x.sch.host2comp w.host = some c
  | .inH c cls tasks workers _ cpuT cpuW _ =>
    (∀ w, w ∈ workers ++ cpuW → w ∈ x.sys.ctl.idle ∧ x.sch.host2comp w.host = some c) ∧
    (∀ t, t ∈ tasks ++ cpuT → t ∈ x.sys.ctl.computable ∧ cm.compOf t = c) ∧
    (cls = .gpu → ∀ w, w ∈ workers → cl.hasGpu w = true)
  | .stepI pend => ∀ c, c ∈ pend → c < cm.n
  | .stepII comps _ _ => ∀ c, c ∈ comps → c < cm.n
  | _ => True

/-- Tier S: the dictionaries the heuristics index are defined where they are indexed. -/
structure InvS (j : Job) (cl : Cluster) (cm : Comps) (x : SysX) : Prop where
  values_comp : ∀ t, t ∈ x.sys.ctl.computable → t ∈ x.sch.values (cm.compOf t)
  host_dist : ∀ h c, x.sch.host2comp h = some c → ∀ w, w ∈ cl.workersOf h → w ∈ x.sch.distDom c
  host_comp_lt : ∀ h c, x.sch.host2comp h = some c → c < cm.n
  ov_comp : ∀ w t, w ∈ x.sch.distDom (cm.compOf t) → t ∈ x.sys.ctl.computable → t ∈ x.sch.ovDom w
  flight_dist : ∀ w t, x.sys.inFlight w t → w ∈ x.sch.distDom (cm.compOf t)
  weight_eq : ∀ c, x.sch.weight c = undispatched j cm x.sys.ctl c
  stage_ok : StageOk cl cm x
  stage_phase : x.sys.phase ≠ .assigning → (x.sch.stage = .off ∨ x.sch.stage = .done)
  no_schErr : x.sch.schErr = none

/-- Per-producer FIFO delivery: of every task's pending output notices a received batch takes a prefix, in their order
(what one worker's channel guarantees). Notices of DIFFERENT tasks, transfer notices and payloads may overtake each other
freely. The global discipline "a batch is a prefix of all pending events" is the special case `fifoStep_of_prefix`. -/
def fifoStep (x : SysX) : StepX → Prop
  | .base (.recv evs) => ∀ pend, takeEvents x.sys.env.pending evs = some pend →
      ∀ t, evs.filterMap (noticeOf t) ++ pend.filterMap (noticeOf t) = x.sys.env.pending.filterMap (noticeOf t)
  | _ => True

inductive ReachableFifo (f : Sem) (j : Job) (cl : Cluster) (cm : Comps) : SysX → Prop
  | init : ReachableFifo f j cl cm (SysX.init j cl cm)
  | step (x x' : SysX) (st : StepX) : ReachableFifo f j cl cm x → fifoStep x st →
      stepX f j cl cm x st = some x' → ReachableFifo f j cl cm x'

/-- outputs of `t` whose notice is still on its way, in order -/
def pendingOuts (s : Sys) (t : Task) : List Nat :=
  s.allEv.filterMap (fun ev => match ev with
    | .pubW _ ds => if ds.task == t then some ds.out else none
    | _ => none)

/-- Tier F (FIFO only): the notices of one task's outputs are delivered in index order. -/
structure InvFifo (j : Job) (cl : Cluster) (s : Sys) : Prop where
  /-- the outstanding notices of a task that has run are a suffix m, m+1, …, nOut-1 of its outputs,
      and exactly the earlier ones have been announced -/
  suffix : ∀ t, s.env.ran t = true → ∃ m, m ≤ j.nOut t ∧ pendingOuts s t = (List.range (j.nOut t)).drop m ∧
      (∀ k, k < m → s.ctl.announced ⟨t, k⟩ = true)
  /-- hence a task whose completion was seen has all its outputs announced -/
  done_announced : ∀ t, s.ctl.doneC t = true → ∀ k, k < j.nOut t → s.ctl.announced ⟨t, k⟩ = true
  /-- a task that was dispatched is in flight or done -/
  disp_flight_or_done : ∀ t, s.ctl.dispatched t = 1 → (∃ w, s.inFlight w t) ∨ s.ctl.doneC t = true
  /-- an undispatched task is computable or still blocked on an unannounced input -/
  undisp : ∀ t, t < j.tasks.length → s.ctl.dispatched t = 0 →
      t ∈ s.ctl.computable ∨ (s.ctl.tracked t = true ∧ ∃ ds, ds ∈ s.ctl.tracker t)
  tracker_sound : ∀ t ds, s.ctl.tracked t = true → ds ∈ s.ctl.tracker t → ds ∈ j.inputs t ∧ s.ctl.announced ds = false
  /-- every worker is idle or has something in flight -/
  workers_cover : ∀ w, w ∈ cl.ids → w ∈ s.ctl.idle ∨ ∃ t, s.inFlight w t

end EkwVerif.Ctrl
